import RichModel.Model.Lru
import RichModel.Model.Cells
/-!
Refinement of the `LRUCache` state machine (`Model/Lru.lean`) to a **plain ordered map that never evicts**: the
abstract state `A` is an association list holding every key ever stored (a plain finite map: `lookupL A` is the
function obtained by `Function.update` over the history, see `amRun_lookup`), ordered by recency of use as the class
defines "use" (`__getitem__` of a live key, `__setitem__` of a key that is not live); the cache is *exactly* the
restriction of `A` to its `cap` most recent keys (`viewL cap A`), for every operation history.
-/
namespace RichModel
set_option linter.unusedSectionVars false

variable {K V : Type} [DecidableEq K]

def KeysNodup (A : List (K × V)) : Prop := (A.map Prod.fst).Nodup

/-! ### list facts -/

theorem viewL_short (cap : Nat) (l : List (K × V)) (h : l.length ≤ cap) : viewL cap l = l := by
  unfold viewL
  have : l.length - cap = 0 := by omega
  rw [this]; rfl

theorem viewL_append_full (cap : Nat) (dead live : List (K × V)) (h : live.length = cap) :
    viewL cap (dead ++ live) = live := by
  unfold viewL
  have : (dead ++ live).length - cap = dead.length := by simp; omega
  rw [this]; simp

theorem viewL_length_le (cap : Nat) (A : List (K × V)) : (viewL cap A).length ≤ cap := by
  unfold viewL; simp; omega

theorem viewL_decomp (cap : Nat) (A : List (K × V)) :
    ∃ dead live, A = dead ++ live ∧ viewL cap A = live ∧
      (live.length = cap ∨ (dead = [] ∧ live.length < cap)) := by
  refine ⟨A.take (A.length - cap), A.drop (A.length - cap), (List.take_append_drop _ _).symm, rfl, ?_⟩
  by_cases h : cap ≤ A.length
  · left; simp; omega
  · right
    have : A.length - cap = 0 := by omega
    rw [this]; simp; omega

theorem hasKey_append (a b : List (K × V)) (k : K) : hasKey (a ++ b) k = (hasKey a k || hasKey b k) := by
  simp [hasKey]

theorem eraseL_append (a b : List (K × V)) (k : K) : eraseL (a ++ b) k = eraseL a k ++ eraseL b k := by
  simp [eraseL]

theorem replaceL_append (a b : List (K × V)) (k : K) (v : V) :
    replaceL (a ++ b) k v = replaceL a k v ++ replaceL b k v := by
  simp [replaceL]

theorem replaceL_length (a : List (K × V)) (k : K) (v : V) : (replaceL a k v).length = a.length := by
  simp [replaceL]

theorem replaceL_keys (a : List (K × V)) (k : K) (v : V) : (replaceL a k v).map Prod.fst = a.map Prod.fst := by
  simp only [replaceL, List.map_map]
  apply List.map_congr_left
  intro p _
  simp only [Function.comp]
  split <;> rfl

theorem eraseL_of_not_hasKey (a : List (K × V)) (k : K) (h : hasKey a k = false) : eraseL a k = a := by
  unfold eraseL
  rw [List.filter_eq_self]
  intro p hp
  simp only [hasKey, List.any_eq_false] at h
  have := h p hp
  simpa using this

theorem hasKey_iff_mem_keys (a : List (K × V)) (k : K) : hasKey a k = true ↔ k ∈ a.map Prod.fst := by
  simp only [hasKey, List.any_eq_true, List.mem_map]
  constructor
  · rintro ⟨p, hp, h⟩; exact ⟨p, hp, by simpa using h⟩
  · rintro ⟨p, hp, h⟩; exact ⟨p, hp, by simpa using h⟩

theorem lookupL_some_hasKey (a : List (K × V)) (k : K) (v : V) (h : lookupL a k = some v) : hasKey a k = true := by
  unfold lookupL at h
  cases hf : a.find? (fun p => p.1 == k) with
  | none => simp [hf] at h
  | some p =>
    simp only [hasKey, List.any_eq_true]
    exact ⟨p, List.mem_of_find?_eq_some hf, by have := List.find?_some hf; simpa using this⟩

theorem lookupL_none_hasKey (a : List (K × V)) (k : K) (h : lookupL a k = none) : hasKey a k = false := by
  unfold lookupL at h
  simp only [Option.map_eq_none_iff, List.find?_eq_none] at h
  simp only [hasKey, List.any_eq_false]
  exact h

theorem eraseL_keys (a : List (K × V)) (k : K) :
    (eraseL a k).map Prod.fst = (a.map Prod.fst).filter (fun x => !(x == k)) := by
  induction a with
  | nil => rfl
  | cons p rest ih =>
    simp only [eraseL, List.filter_cons, List.map_cons] at ih ⊢
    by_cases h : p.1 = k
    · simp [h, ih]
    · simp [h, ih]

theorem keysNodup_touch (A : List (K × V)) (k : K) (v : V) (h : KeysNodup A) :
    KeysNodup (eraseL A k ++ [(k, v)]) := by
  unfold KeysNodup at *
  rw [List.map_append, eraseL_keys]
  apply List.nodup_append.mpr
  refine ⟨h.filter _, by simp, ?_⟩
  intro a ha b hb
  simp only [List.map_cons, List.map_nil, List.mem_singleton] at hb
  simp only [List.mem_filter] at ha
  subst hb
  intro hab; subst hab; simp at ha

/-- With distinct keys, erasing a key that is present removes exactly one entry. -/
theorem eraseL_length (a : List (K × V)) (k : K) (hn : KeysNodup a) (hk : hasKey a k = true) :
    (eraseL a k).length + 1 = a.length := by
  induction a with
  | nil => simp [hasKey] at hk
  | cons p rest ih =>
    unfold KeysNodup at hn
    simp only [List.map_cons, List.nodup_cons] at hn
    by_cases h : p.1 = k
    · have hnot : hasKey rest k = false := by
        cases hh : hasKey rest k with
        | false => rfl
        | true => exact absurd ((hasKey_iff_mem_keys rest k).mp hh) (h ▸ hn.1)
      have : eraseL (p :: rest) k = rest := by
        have e := eraseL_of_not_hasKey rest k hnot
        simp only [eraseL, List.filter_cons] at e ⊢
        simp [h, e]
      rw [this]; simp
    · have hk' : hasKey rest k = true := by
        simp only [hasKey, List.any_cons] at hk ⊢
        simpa [h] using hk
      have := ih hn.2 hk'
      simp only [eraseL, List.filter_cons] at this ⊢
      simp [h]; omega

theorem keysNodup_append_disjoint (dead live : List (K × V)) (k : K) (h : KeysNodup (dead ++ live))
    (hk : hasKey live k = true) : hasKey dead k = false := by
  unfold KeysNodup at h
  rw [List.map_append] at h
  have hd := (List.nodup_append.mp h).2.2
  cases hh : hasKey dead k with
  | false => rfl
  | true =>
    exact absurd rfl (hd k ((hasKey_iff_mem_keys dead k).mp hh) k ((hasKey_iff_mem_keys live k).mp hk))

theorem keysNodup_right (dead live : List (K × V)) (h : KeysNodup (dead ++ live)) : KeysNodup live := by
  unfold KeysNodup at *
  rw [List.map_append] at h
  exact (List.nodup_append.mp h).2.1

/-! ### the simulation -/

theorem amStep_sim (cap : Nat) (hcap : 0 < cap) (A : List (K × V)) (hA : KeysNodup A) (op : LruOp K V) :
    Lru.step { cap := cap, items := viewL cap A } op =
      ((amStep cap A op).1, { cap := cap, items := viewL cap (amStep cap A op).2 }) ∧
    KeysNodup (amStep cap A op).2 := by
  obtain ⟨dead, live, rfl, hv, hlen⟩ := viewL_decomp cap A
  cases op with
  | setitem k v =>
    simp only [Lru.step, amStep, hv]
    cases hk : hasKey live k with
    | true =>
      simp only [if_true]
      refine ⟨?_, ?_⟩
      · congr 2
        rw [replaceL_append]
        rcases hlen with h | ⟨hd, h⟩
        · rw [viewL_append_full _ _ _ (by rw [replaceL_length]; exact h)]
        · subst hd
          simp only [replaceL, List.map_nil, List.nil_append]
          rw [viewL_short]; simp; omega
      · unfold KeysNodup at *; rw [replaceL_keys]; exact hA
    | false =>
      simp only [Bool.false_eq_true, if_false]
      refine ⟨?_, keysNodup_touch _ k v hA⟩
      rw [eraseL_append, eraseL_of_not_hasKey live k hk]
      rcases hlen with h | ⟨hd, h⟩
      · have hge : live.length ≥ cap := by omega
        simp only [hge, if_true]
        cases live with
        | nil => simp at h; omega
        | cons x tl =>
          simp only
          congr 2
          have : eraseL dead k ++ x :: tl ++ [(k, v)] = (eraseL dead k ++ [x]) ++ (tl ++ [(k, v)]) := by simp
          rw [this, viewL_append_full]
          simp at h ⊢; omega
      · subst hd
        have hge : ¬ live.length ≥ cap := by omega
        simp only [hge, if_false]
        congr 2
        simp only [eraseL, List.filter_nil, List.nil_append]
        rw [viewL_short]; simp; omega
  | getitem k =>
    simp only [Lru.step, amStep, hv]
    cases hl : lookupL live k with
    | none => exact ⟨by simp only [hv], hA⟩
    | some v =>
      simp only
      refine ⟨?_, keysNodup_touch _ k v hA⟩
      have hk := lookupL_some_hasKey live k v hl
      have hdk := keysNodup_append_disjoint dead live k hA hk
      have hel := eraseL_length live k (keysNodup_right dead live hA) hk
      congr 2
      rw [eraseL_append, eraseL_of_not_hasKey dead k hdk, List.append_assoc]
      rcases hlen with h | ⟨hd, h⟩
      · rw [viewL_append_full]; simp; omega
      · subst hd
        simp only [List.nil_append]
        rw [viewL_short]; simp; omega
  | get k =>
    simp only [Lru.step, amStep, hv]
    cases hl : lookupL live k with
    | none => exact ⟨by simp only [hv], hA⟩
    | some v => exact ⟨by simp only [hv], hA⟩
  | contains k => exact ⟨by simp only [Lru.step, amStep, hv], hA⟩
  | len => exact ⟨by simp only [Lru.step, amStep, hv], hA⟩

theorem amRun_sim (cap : Nat) (hcap : 0 < cap) : ∀ (ops : List (LruOp K V)) (A : List (K × V)), KeysNodup A →
    Lru.run { cap := cap, items := viewL cap A } ops =
      ((amRun cap A ops).1, { cap := cap, items := viewL cap (amRun cap A ops).2 }) ∧
    KeysNodup (amRun cap A ops).2
  | [], A, hA => ⟨rfl, hA⟩
  | op :: rest, A, hA => by
      obtain ⟨h1, h2⟩ := amStep_sim cap hcap A hA op
      obtain ⟨h3, h4⟩ := amRun_sim cap hcap rest (amStep cap A op).2 h2
      simp only [Lru.run, amRun]
      rw [h1]
      simp only
      rw [h3]
      exact ⟨rfl, h4⟩

/-! ### the abstract state is a plain finite map -/

theorem lookupL_append_single (a : List (K × V)) (k k' : K) (v : V) :
    lookupL (a ++ [(k, v)]) k' = match lookupL a k' with
      | some x => some x
      | none => if k' = k then some v else none := by
  unfold lookupL
  rw [List.find?_append]
  cases hf : a.find? (fun p => p.1 == k') with
  | some p => simp
  | none =>
    simp only [Option.none_or, Option.map_none, List.find?_cons, List.find?_nil]
    by_cases h : k' = k
    · subst h; simp
    · have : (k == k') = false := by simpa using fun e => h e.symm
      simp [this, h]

theorem lookupL_eraseL (a : List (K × V)) (k k' : K) :
    lookupL (eraseL a k) k' = if k' = k then none else lookupL a k' := by
  induction a with
  | nil => simp [lookupL, eraseL]
  | cons p rest ih =>
    simp only [lookupL, eraseL, List.filter_cons] at ih ⊢
    by_cases h : p.1 = k
    · simp only [h, beq_self_eq_true, Bool.not_true, Bool.false_eq_true, if_false, List.find?_cons]
      rw [ih]
      by_cases h2 : k' = k
      · simp [h2]
      · have : (k == k') = false := by simpa using fun e => h2 e.symm
        simp [h2, this]
    · have hb : (p.1 == k) = false := by simpa using h
      simp only [hb, Bool.not_false, if_true, List.find?_cons]
      by_cases h3 : p.1 = k'
      · have : k' ≠ k := fun e => h (h3.trans e)
        simp [h3, this]
      · have hb3 : (p.1 == k') = false := by simpa using h3
        simp only [hb3]
        exact ih

theorem lookupL_replaceL (a : List (K × V)) (k k' : K) (v : V) :
    lookupL (replaceL a k v) k' = if k' = k then (if hasKey a k then some v else none) else lookupL a k' := by
  induction a with
  | nil => simp [lookupL, replaceL, hasKey]
  | cons p rest ih =>
    simp only [lookupL, replaceL, hasKey, List.map_cons, List.find?_cons, List.any_cons] at ih ⊢
    by_cases h : p.1 = k
    · by_cases h2 : k' = k
      · subst h2; simp [h]
      · have : (k == k') = false := by simpa using fun e => h2 e.symm
        simp only [h, beq_self_eq_true, if_true, this, h2, if_false]
        rw [ih]; simp [h2]
    · have hb : (p.1 == k) = false := by simpa using h
      simp only [hb, Bool.false_eq_true, if_false, Bool.false_or]
      by_cases h3 : p.1 = k'
      · have : k' ≠ k := fun e => h (h3.trans e)
        simp [h3, this]
      · have hb3 : (p.1 == k') = false := by simpa using h3
        simp only [hb3]
        exact ih

/-- A live entry is an entry of the whole map (the view is a suffix and keys are distinct). -/
theorem lookupL_view (cap : Nat) (A : List (K × V)) (hA : KeysNodup A) (k : K) (v : V)
    (h : lookupL (viewL cap A) k = some v) : lookupL A k = some v := by
  obtain ⟨dead, live, rfl, hv, _⟩ := viewL_decomp cap A
  rw [hv] at h
  have hk := lookupL_some_hasKey live k v h
  have hdk := keysNodup_append_disjoint dead live k hA hk
  unfold lookupL at h ⊢
  rw [List.find?_append]
  have : dead.find? (fun p => p.1 == k) = none := by
    simp only [List.find?_eq_none]
    simp only [hasKey, List.any_eq_false] at hdk
    exact hdk
  rw [this]; simpa using h

theorem amStep_lookup (cap : Nat) (A : List (K × V)) (hA : KeysNodup A) (op : LruOp K V) (k' : K) :
    lookupL (amStep cap A op).2 k' = plainRun (lookupL A) [op] k' := by
  cases op with
  | setitem k v =>
    simp only [amStep, plainRun]
    cases hk : hasKey (viewL cap A) k with
    | true =>
      simp only [if_true]
      rw [lookupL_replaceL]
      have : hasKey A k = true := by
        obtain ⟨dead, live, rfl, hv, _⟩ := viewL_decomp cap A
        rw [hv] at hk; rw [hasKey_append, hk]; simp
      simp [this]
    | false =>
      simp only [Bool.false_eq_true, if_false]
      rw [lookupL_append_single, lookupL_eraseL]
      by_cases h : k' = k
      · simp [h]
      · simp only [h, if_false]
        cases lookupL A k' <;> rfl
  | getitem k =>
    simp only [amStep, plainRun]
    cases hl : lookupL (viewL cap A) k with
    | none => rfl
    | some v =>
      simp only
      rw [lookupL_append_single, lookupL_eraseL]
      by_cases h : k' = k
      · subst h; simp [lookupL_view cap A hA k' v hl]
      · simp only [h, if_false]
        cases lookupL A k' <;> rfl
  | get k =>
    simp only [amStep, plainRun]
    cases lookupL (viewL cap A) k <;> rfl
  | contains k => rfl
  | len => rfl

theorem plainRun_congr (m m' : K → Option V) (h : ∀ k, m k = m' k) : ∀ (ops : List (LruOp K V)) (k : K),
    plainRun m ops k = plainRun m' ops k := by
  intro ops
  induction ops generalizing m m' with
  | nil => exact h
  | cons op rest ih =>
    cases op with
    | setitem k v =>
      intro k'
      simp only [plainRun]
      apply ih
      intro k''; simp only [h]
    | getitem k => exact ih m m' h
    | get k => exact ih m m' h
    | contains k => exact ih m m' h
    | len => exact ih m m' h

theorem amRun_lookup (cap : Nat) (hcap : 0 < cap) : ∀ (ops : List (LruOp K V)) (A : List (K × V)), KeysNodup A →
    ∀ k, lookupL (amRun cap A ops).2 k = plainRun (lookupL A) ops k
  | [], _, _, _ => rfl
  | op :: rest, A, hA, k => by
      have h2 := (amStep_sim cap hcap A hA op).2
      simp only [amRun]
      rw [amRun_lookup cap hcap rest _ h2 k]
      have hstep := amStep_lookup cap A hA op
      rw [plainRun_congr _ _ hstep rest k]
      cases op <;> rfl

/-! ### capacity 0: nothing can be stored -/

theorem lru_cap_zero_step (op : LruOp K V) :
    ((Lru.step { cap := 0, items := ([] : List (K × V)) } op).2.items = []) ∧
    (∀ k v, op = .setitem k v → (Lru.step { cap := 0, items := ([] : List (K × V)) } op).1 = .keyError) := by
  cases op <;> simp [Lru.step, hasKey, lookupL]

end RichModel

namespace RichModel
set_option linter.unusedSectionVars false
variable {K V : Type} [DecidableEq K]

theorem keysNodup_viewL (cap : Nat) (A : List (K × V)) (h : KeysNodup A) : KeysNodup (viewL cap A) := by
  unfold KeysNodup viewL at *
  exact h.sublist ((List.drop_sublist _ _).map _)

/-! ### the cache in front of `cell_len` (`Model/Cells.lean`, `Cache`) is this machine restricted to `get` / `__setitem__` -/

theorem Cache.get_eq_lookupL (c : Cache) (k : List Char) : c.get k = lookupL c.items k := by
  unfold Cache.get lookupL
  congr 2
  funext p
  rw [Bool.eq_iff_iff]; simp

theorem Cache.set_eq_step (c : Cache) (k : List Char) (v : Nat) (h : 0 < c.cap ∨ c.items ≠ []) :
    Lru.step { cap := c.cap, items := c.items } (.setitem k v) =
      (.unit, { cap := (c.set k v).cap, items := (c.set k v).items }) := by
  unfold Cache.set
  simp only [Lru.step, hasKey]
  have hany : (c.items.any fun p => p.1 == k) = (c.items.any fun p => @BEq.beq _ instBEqOfDecidableEq p.1 k) := by
    congr 1; funext p; rw [Bool.eq_iff_iff]; simp
  rw [← hany]
  split
  · congr 2
    simp only [replaceL]
    apply List.map_congr_left
    intro p _
    by_cases hp : p.1 = k
    · simp [hp]
    · simp [hp]
  · split
    · cases hi : c.items with
      | nil =>
        rcases h with h | h
        · rename_i hge; rw [hi] at hge; simp at hge; omega
        · exact absurd hi h
      | cons x tl => simp
    · rfl

end RichModel
