import RichModel.Lemmas.WrapSplit
/-!
`Text.expand_tabs` (text.py:627-659), repaired variant, as `Text.wrap` uses it on every paragraph:
* `split_char_spec`: `text.split(c, include_separator=True)` for a one-character separator — the parts are
  consistent, carry the base style and their styled strings concatenate to the styled string of the text;
* `expandPart_spec`, `expandParts_spec`: the body of the inner loop only adds/changes whitespace;
* `expandTabs_ink` (T1): the expanded text shows exactly the non-whitespace characters of the text, in order,
  each with its effective style with the base style applied once more in front.
-/
namespace RichModel
namespace Wrap
open Text
variable {σ : Type}

/-! ### occurrences of a one-character separator -/

theorem findAllAux_char_cons (d c : Char) (rest : List Char) (pos : Nat) :
    findAllAux [d] (c :: rest) pos 0 =
      if c = d then (pos, pos + 1) :: findAllAux [d] rest (pos + 1) 0 else findAllAux [d] rest (pos + 1) 0 := by
  rw [findAllAux]
  by_cases hc : c = d
  · subst hc; simp [List.isPrefixOf]
  · have : (d == c) = false := by simpa using fun h => hc h.symm
    simp [List.isPrefixOf, hc, this]

theorem findAllAux_char_none (d : Char) : ∀ (s : List Char) (pos : Nat), d ∉ s → findAllAux [d] s pos 0 = []
  | [], _, _ => rfl
  | c :: rest, pos, h => by
    rw [findAllAux_char_cons]
    have hc : c ≠ d := fun e => h (by simp [e])
    simp only [hc, if_false]
    exact findAllAux_char_none d rest (pos + 1) (fun hm => h (List.mem_cons_of_mem _ hm))

/-- the ends of the occurrences ascend and stay inside the text -/
theorem findAllAux_char_asc (d : Char) : ∀ (s : List Char) (pos : Nat),
    AscFrom pos ((findAllAux [d] s pos 0).map (·.2)) ∧
    ∀ o ∈ (findAllAux [d] s pos 0).map (·.2), o ≤ pos + s.length
  | [], pos => by simp [findAllAux, AscFrom]
  | c :: rest, pos => by
    rw [findAllAux_char_cons]
    obtain ⟨h1, h2⟩ := findAllAux_char_asc d rest (pos + 1)
    split
    · refine ⟨⟨by simp, h1⟩, fun o ho => ?_⟩
      simp only [List.map_cons, List.mem_cons] at ho
      rcases ho with rfl | ho
      · simp only [List.length_cons]; omega
      · have := h2 o ho; simp only [List.length_cons]; omega
    · refine ⟨AscFrom.weaken _ _ _ (by omega) h1, fun o ho => ?_⟩
      have := h2 o ho; simp only [List.length_cons]; omega

/-- the last element of `start :: l` -/
def lastOr (start : Nat) : List Nat → Nat
  | [] => start
  | o :: os => lastOr o os

/-- when the text ends with the separator the last occurrence ends at the end of the text -/
theorem findAllAux_char_last (d : Char) : ∀ (s : List Char) (pos start : Nat),
    lastOr start ((findAllAux [d] (s ++ [d]) pos 0).map (·.2)) = pos + s.length + 1
  | [], pos, start => by
    simp [findAllAux_char_cons, findAllAux, lastOr]
  | c :: rest, pos, start => by
    simp only [List.cons_append]
    rw [findAllAux_char_cons]
    split
    · simp only [List.map_cons, lastOr]
      rw [findAllAux_char_last d rest (pos + 1) (pos + 1)]
      simp only [List.length_cons]; omega
    · rw [findAllAux_char_last d rest (pos + 1) start]
      simp only [List.length_cons]; omega

theorem piecesFrom_ne_nil {α : Type} (l : List α) : ∀ (offs : List Nat) (start : Nat), piecesFrom start offs l ≠ []
  | [], _ => by simp [piecesFrom]
  | _ :: _, _ => by simp [piecesFrom]

theorem piecesFrom_dropLast {α : Type} (l : List α) : ∀ (offs : List Nat) (start : Nat),
    piecesFrom start offs l = (piecesFrom start offs l).dropLast ++ [l.drop (lastOr start offs)]
  | [], start => by simp [piecesFrom, lastOr]
  | o :: os, start => by
    simp only [piecesFrom, lastOr]
    rw [List.dropLast_cons_of_ne_nil (piecesFrom_ne_nil l os o), List.cons_append,
      ← piecesFrom_dropLast l os o]

/-- if the last offset is the end of the list, the last piece is empty and may be dropped -/
theorem pieces_dropLast_flatten {α : Type} (l : List α) (offs : List Nat) (h : AscFrom 0 offs)
    (hlast : l.length ≤ lastOr 0 offs) : (pieces offs l).dropLast.flatten = l := by
  have h1 := pieces_flatten l offs h
  unfold pieces at h1 ⊢
  rw [piecesFrom_dropLast l offs 0, List.drop_eq_nil_of_le hlast] at h1
  simpa using h1

/-! ### `split` at a one-character separator, separators included -/

theorem view_length (t : Text σ) : t.view.length = t.plain.length := by
  rw [view_eq_annot, annot_length]

/-- `text.split(c, include_separator=True)`: consistent parts under the same base style whose styled strings
concatenate to the styled string of the text -/
theorem split_char_spec [BEq σ] (d : Char) (t : Text σ) (h : Inv t) :
    ∃ parts, t.split Variant.repaired [d] true = .ok parts ∧
      parts.flatMap Text.view = t.view ∧
      ∀ l ∈ parts, Inv l ∧ l.style = t.style := by
  unfold Text.split
  simp only [List.isEmpty_cons, Bool.false_eq_true, if_false, Bool.not_false, Bool.true_and, if_true]
  split
  · refine ⟨[t.copy Variant.repaired], rfl, ?_, ?_⟩
    · rw [copy_eq_self t h]; simp
    · intro l hl
      simp only [List.mem_singleton] at hl
      subst hl
      rw [copy_eq_self t h]
      exact ⟨h, rfl⟩
  · obtain ⟨hasc, hb⟩ := findAllAux_char_asc d t.plain 0
    obtain ⟨lines, hdiv, hview, _, hall⟩ :=
      divide_view t ((findAllAux [d] t.plain 0 0).map (·.2)) h hasc (by simpa using hb)
    simp only [findAll]
    rw [hdiv]
    simp only [bind, Except.bind, pure, Except.pure]
    split
    · rename_i hsuf
      refine ⟨lines.dropLast, rfl, ?_, fun l hl => ⟨(hall l (List.dropLast_subset _ hl)).1,
        (hall l (List.dropLast_subset _ hl)).2.1⟩⟩
      obtain ⟨s, hs⟩ := List.isSuffixOf_iff_suffix.mp hsuf
      rw [List.flatMap_def, List.map_dropLast, hview]
      apply pieces_dropLast_flatten _ _ hasc
      rw [view_length, ← hs, findAllAux_char_last]
      simp
    · refine ⟨lines, rfl, ?_, fun l hl => ⟨(hall l hl).1, (hall l hl).2.1⟩⟩
      rw [List.flatMap_def, hview, pieces_flatten _ _ hasc]

/-! ### the body of the inner loop -/

theorem nsv_mapSnd {β γ : Type} (g : β → γ) (v : List (Char × β)) :
    nsv (v.map (fun p => (p.1, g p.2))) = (nsv v).map (fun p => (p.1, g p.2)) := by
  induction v with
  | nil => rfl
  | cons p v ih =>
    simp only [nsv, List.map_cons, List.filter_cons] at ih ⊢
    split <;> simp [ih]

theorem tab_isSpace : pyIsSpace '\t' = true := by decide

/-- a part ending in a tab, the tab replaced by a blank -/
def detab (part : Text σ) : Text σ := { part with plain := part.plain.dropLast ++ [' '] }

theorem detab_spec (part : Text σ) (h : Inv part) (hs : ['\t'].isSuffixOf part.plain = true) :
    Inv (detab part) ∧ nsv (detab part).view = nsv part.view := by
  obtain ⟨s, hs⟩ := List.isSuffixOf_iff_suffix.mp hs
  obtain ⟨hl, hc, hsp⟩ := (inv_iff _).1 h
  have hpl : (detab part).plain = s ++ [' '] := by
    simp only [detab, ← hs, List.dropLast_concat]
  refine ⟨⟨?_, ?_, ?_⟩, ?_⟩
  · rw [hpl]
    have : (detab part).length = part.length := rfl
    rw [this, hl, ← hs]; simp
  · rw [hpl]
    intro c hc'
    rcases List.mem_append.mp hc' with hc' | hc'
    · exact hc c (by rw [← hs]; exact List.mem_append_left _ hc')
    · simp only [List.mem_singleton] at hc'
      subst hc'; exact noCtl_space
  · exact hsp
  · rw [view_eq_annot, view_eq_annot, hpl, ← hs]
    have : (detab part).effStyle = part.effStyle := rfl
    rw [this, annot_append, annot_append, nsv_append, nsv_append]
    congr 1

theorem appendT_style (t u : Text σ) : (t.appendT u).style = t.style := by
  unfold appendT; split <;> rfl

theorem appendStr_style (t : Text σ) (s : List Char) (st : Option σ) : (t.appendStr s st).style = t.style := by
  rw [appendStr_eq]; split <;> rfl

theorem nsv_blanks {β : Type} (n : Nat) (b : β) :
    nsv ((stripControl (List.replicate n ' ')).map (fun c => (c, b))) = [] := by
  apply nsv_space
  intro p hp
  obtain ⟨c, hc, rfl⟩ := List.mem_map.mp hp
  simp only [stripControl] at hc
  rw [List.eq_of_mem_replicate (List.mem_filter.mp hc).1]
  exact space_isSpace

/-- one round of `for part in parts`: only whitespace is added or changed -/
theorem expandPart_spec (ts : Nat) (base : σ) (result : Text σ) (pos : Int) (part : Text σ)
    (h : Inv result) (hp : Inv part) :
    Inv (expandPart ts base (result, pos) part).1 ∧
      (expandPart ts base (result, pos) part).1.style = result.style ∧
      nsv (expandPart ts base (result, pos) part).1.view =
        nsv result.view ++ (nsv part.view).map (fun p => (p.1, result.style :: p.2)) := by
  unfold expandPart
  simp only
  split
  · rename_i hs
    obtain ⟨hd, hv⟩ := detab_spec part hp hs
    have hi1 := inv_appendT result (detab part) h hd
    have hv1 : nsv (result.appendT (detab part)).view =
        nsv result.view ++ (nsv part.view).map (fun p => (p.1, result.style :: p.2)) := by
      rw [view_appendT _ _ h hd, nsv_append, nsv_mapSnd, hv]
    split
    · refine ⟨inv_appendStr _ _ _ hi1, ?_, ?_⟩
      · simp only [appendStr_style]; exact appendT_style _ _
      · show nsv ((result.appendT (detab part)).appendStr _ _).view = _
        rw [view_appendStr _ _ _ hi1, nsv_append, nsv_blanks, List.append_nil]
        exact hv1
    · exact ⟨hi1, appendT_style _ _, hv1⟩
  · refine ⟨inv_appendT _ _ h hp, appendT_style _ _, ?_⟩
    simp only []
    rw [view_appendT _ _ h hp, nsv_append, nsv_mapSnd]

/-- the inner loop -/
theorem expandParts_spec (ts : Nat) (base : σ) : ∀ (parts : List (Text σ)) (result : Text σ) (pos : Int),
    Inv result → (∀ l ∈ parts, Inv l) →
    Inv (parts.foldl (expandPart ts base) (result, pos)).1 ∧
      (parts.foldl (expandPart ts base) (result, pos)).1.style = result.style ∧
      nsv (parts.foldl (expandPart ts base) (result, pos)).1.view =
        nsv result.view ++ (nsv (parts.flatMap Text.view)).map (fun p => (p.1, result.style :: p.2))
  | [], result, pos, h, _ => by simp [h, nsv]
  | part :: parts, result, pos, h, hp => by
    obtain ⟨h1, h2, h3⟩ := expandPart_spec ts base result pos part h (hp part (by simp))
    obtain ⟨g1, g2, g3⟩ := expandParts_spec ts base parts (expandPart ts base (result, pos) part).1
      (expandPart ts base (result, pos) part).2 h1 (fun l hl => hp l (List.mem_cons_of_mem _ hl))
    simp only [List.foldl_cons]
    refine ⟨g1, g2.trans h2, ?_⟩
    rw [g3, h3, h2]
    simp only [List.flatMap_cons, nsv_append, List.map_append, List.append_assoc]

/-- the outer loop -/
theorem expandLines_spec [BEq σ] (ts : Nat) (base : σ) : ∀ (lines : List (Text σ)) (result : Text σ) (pos : Int),
    Inv result → (∀ l ∈ lines, Inv l) →
    ∃ r, lines.foldlM (fun (acc : Text σ × Int) line => do
        let parts ← line.split Variant.repaired ['\t'] true
        pure (parts.foldl (expandPart ts base) acc)) (result, pos) = Except.ok r ∧
      Inv r.1 ∧ r.1.style = result.style ∧
      nsv r.1.view = nsv result.view ++ (nsv (lines.flatMap Text.view)).map (fun p => (p.1, result.style :: p.2))
  | [], result, pos, h, _ => ⟨(result, pos), rfl, h, rfl, by simp [nsv]⟩
  | line :: lines, result, pos, h, hl => by
    obtain ⟨parts, hsplit, hview, hall⟩ := split_char_spec '\t' line (hl line (by simp))
    obtain ⟨h1, h2, h3⟩ := expandParts_spec ts base parts result pos h (fun l hl' => (hall l hl').1)
    obtain ⟨r, hr, g1, g2, g3⟩ := expandLines_spec ts base lines (parts.foldl (expandPart ts base) (result, pos)).1
      (parts.foldl (expandPart ts base) (result, pos)).2 h1 (fun l hl' => hl l (List.mem_cons_of_mem _ hl'))
    refine ⟨r, ?_, g1, g2.trans h2, ?_⟩
    · simp only [List.foldlM_cons, hsplit, bind, Except.bind, pure, Except.pure]
      exact hr
    · rw [g3, h3, h2, hview]
      simp only [List.flatMap_cons, nsv_append, List.map_append, List.append_assoc]

/-! ### the theorem -/

/-- **T1.**  `expand_tabs(ts)` with `ts > 0` on a consistent text succeeds; the result is consistent, has the
same base style, is the text itself when there is no tab, and otherwise shows exactly the non-whitespace characters
of the text, in order, each with its effective style under one more application of the base style.
(Holds for every consistent text; the paragraphs `Text.wrap` passes contain no newline.) -/
theorem expandTabs_ink' [BEq σ] (P : Text σ) (h : Inv P) (ts : Nat) (hts : 0 < ts) :
    ∃ Q, P.expandTabs Variant.repaired (some ts) = .ok Q ∧ Inv Q ∧ Q.style = P.style ∧
      (P.plain.contains '\t' = false → Q = P) ∧
      (P.plain.contains '\t' = true → nsv Q.view = (nsv P.view).map (fun p => (p.1, P.style :: p.2))) := by
  unfold expandTabs
  by_cases hc : P.plain.contains '\t' = true
  · simp only [hc, Bool.not_true, Bool.false_eq_true, if_false, Option.orElse]
    obtain ⟨n, rfl⟩ : ∃ n, ts = n + 1 := ⟨ts - 1, by omega⟩
    simp only
    obtain ⟨lines, hsplit, hview, hall⟩ := split_char_spec '\n' P h
    obtain ⟨r, hr, g1, g2, g3⟩ := expandLines_spec (n + 1) P.style lines (P.blankCopy Variant.repaired) 0
      (inv_blankCopy P) (fun l hl => (hall l hl).1)
    rw [hsplit]
    simp only [bind, Except.bind, pure, Except.pure] at hr ⊢
    rw [hr]
    have hst : r.1.style = P.style := g2
    obtain ⟨hl, hcc, hsp⟩ := (inv_iff _).1 g1
    refine ⟨_, rfl, ⟨rfl, hcc, ?_⟩, rfl, fun hf => Bool.noConfusion hf, fun _ => ?_⟩
    · intro sp hsp'
      have := hsp sp hsp'
      simp only []; omega
    · have hv : (view { P with plain := r.1.plain, length := (r.1.plain.length : Int), spans := r.1.spans }) = r.1.view := by
        rw [view_eq_annot, view_eq_annot]
        apply annot_congr
        intro i _ _
        simp only [effStyle, hst]
      rw [hv, g3, hview]
      have : (P.blankCopy Variant.repaired).view = [] := rfl
      rw [this]
      rfl
  · have hf : P.plain.contains '\t' = false := by simpa using hc
    simp only [hf, Bool.not_false, if_true]
    exact ⟨P, rfl, h, rfl, fun _ => rfl, fun ht => by simp at ht⟩

/-- T1 as `Text.wrap` needs it (the hypothesis `hnl` is not used) -/
theorem expandTabs_ink [BEq σ] (P : Text σ) (h : Inv P) (_hnl : '\n' ∉ P.plain) (ts : Nat) (hts : 0 < ts) :
    ∃ Q, P.expandTabs Variant.repaired (some ts) = .ok Q ∧ Inv Q ∧ Q.style = P.style ∧
      (P.plain.contains '\t' = false → Q = P) ∧
      (P.plain.contains '\t' = true → nsv Q.view = (nsv P.view).map (fun p => (p.1, P.style :: p.2))) :=
  expandTabs_ink' P h ts hts

/-! ### a concrete instance -/

/-- "a\tbc\t" with base style 0, a span over "a\tb" and one over the final tab -/
def exTabs : Text Nat :=
  { plain := ['a', '\t', 'b', 'c', '\t'], length := 5, style := 0, spans := [⟨0, 3, 1⟩, ⟨4, 5, 2⟩] }

example : Inv exTabs ∧ '\n' ∉ exTabs.plain ∧ exTabs.plain.contains '\t' = true := by
  refine ⟨⟨rfl, by decide, ?_⟩, by decide, by decide⟩
  intro sp hsp
  simp only [exTabs, List.mem_cons, List.not_mem_nil, or_false] at hsp
  rcases hsp with rfl | rfl <;> decide

example : (exTabs.expandTabs Variant.repaired (some 4)).toOption.map (fun q => (q.plain, nsv q.view)) =
    some (['a', ' ', ' ', ' ', 'b', 'c', ' ', ' '], [('a', [0, 0, 1]), ('b', [0, 0, 1]), ('c', [0, 0])]) := by decide

end Wrap
end RichModel
