import RichModel.Lemmas.TableWidths
import RichModel.Lemmas.CollapseLe
import RichModel.Lemmas.CollapseKeep
/-!
When does re-measuring the collapsed columns give the same widths back?  For cells that measure like text —
`maximum = min(natural, offered)` — always: a free column then measures `min(K, offered)` for a constant `K`, and a
column that was collapsed from `min(K, max_width)` to `r ≤` that measures `min(K, r) = r` at `r`.
-/
namespace RichModel

/-- A cell that measures like a text: its maximum is its natural width clipped to the width on offer. -/
def Cell.TextLike (c : Cell) : Prop := ∃ n : Int, 0 ≤ n ∧ ∀ w : Nat, 1 ≤ w → (c.measure w).maximum = min n w

theorem listMax_map_min (l : List Int) (hne : l ≠ []) (w : Int) : listMax (l.map (fun n => min n w)) = min (listMax l) w := by
  have hm := listMax_mem l hne
  have hne' : l.map (fun n => min n w) ≠ [] := by simpa using hne
  apply Int.le_antisymm
  · have hmem := listMax_mem _ hne'
    simp only [List.mem_map] at hmem
    obtain ⟨n, hn, hnw⟩ := hmem
    rw [← hnw]
    have := listMax_ge l n hn
    omega
  · exact listMax_ge _ _ (List.mem_map.2 ⟨listMax l, hm, rfl⟩)

/-- Every free column of text-like cells measures `min(K, offered)` (or just `offered` when it has no cells and no cap). -/
theorem measureColumn_textlike (t : Table) (idx : Nat) (c : Column) (hfree : c.SaneFree t idx)
    (htl : ∀ cell ∈ t.getCells c, cell.TextLike) :
    ∃ K : Option Int, (∀ k, K = some k → 0 ≤ k) ∧ ∀ w : Int, 1 ≤ w →
      (t.measureColumn idx c w).maximum = match K with | none => w | some k => min k w := by
  obtain ⟨hw, hmin, _, hcap⟩ := hfree
  -- the natural widths of the cells
  have hnat : ∃ ns : List Int, ns.length = (t.getCells c).length ∧ (∀ n ∈ ns, 0 ≤ n) ∧
      ∀ w : Nat, 1 ≤ w → (t.getCells c).map (fun cell => (cell.measure w).maximum) = ns.map (fun n => min n (w : Int)) := by
    generalize t.getCells c = cells at htl
    induction cells with
    | nil => exact ⟨[], rfl, by simp, fun _ _ => rfl⟩
    | cons x xs ih =>
      obtain ⟨ns, h1, h2, h3⟩ := ih (fun cell hc => htl cell (List.mem_cons_of_mem _ hc))
      obtain ⟨n, hn0, hn⟩ := htl x (by simp)
      refine ⟨n :: ns, by simp [h1], ?_, ?_⟩
      · intro m hm; rcases List.mem_cons.mp hm with rfl | hm
        · exact hn0
        · exact h2 m hm
      · intro w hw1
        simp only [List.map_cons, hn w hw1, h3 w hw1]
  obtain ⟨ns, hnl, hnn, hns⟩ := hnat
  -- K
  by_cases hempty : (t.getCells c) = []
  · -- no cells: the column measures the width on offer, capped
    cases hmx : c.maxWidth with
    | none =>
      refine ⟨none, by simp, ?_⟩
      intro w hw1
      unfold Table.measureColumn
      simp only [show ¬ (w < 1) by omega, if_false, hw, hmin, hmx, hempty, List.map_nil, List.isEmpty_nil, if_true, Option.map_none,
        Measurement.clamp, Measurement.withMaximum]
      omega
    | some m =>
      have := hcap m hmx
      refine ⟨some (m + t.paddingWidth idx), by intro k hk; injection hk with hk; omega, ?_⟩
      intro w hw1
      unfold Table.measureColumn
      simp only [show ¬ (w < 1) by omega, if_false, hw, hmin, hmx, hempty, List.map_nil, List.isEmpty_nil, if_true, Option.map_none,
        Option.map_some, Measurement.clamp, Measurement.withMaximum]
      omega
  · have hnsne : ns ≠ [] := by
      intro h; rw [h] at hnl; simp at hnl
      exact hempty (List.eq_nil_of_length_eq_zero hnl.symm)
    have hN0 : 0 ≤ listMax ns := hnn _ (listMax_mem ns hnsne)
    have hmaxw : ∀ w : Int, 1 ≤ w →
        listMax (((t.getCells c).map (fun cell => cell.measure w.toNat)).map (·.maximum)) = min (listMax ns) w := by
      intro w hw1
      have h1 : 1 ≤ w.toNat := by omega
      have := hns w.toNat h1
      rw [List.map_map]
      have hcomp : ((fun m : Measurement => m.maximum) ∘ fun cell : Cell => cell.measure w.toNat) = fun cell => (cell.measure w.toNat).maximum := rfl
      rw [hcomp, this]
      have hw' : ((w.toNat : Nat) : Int) = w := by omega
      rw [hw']
      exact listMax_map_min ns hnsne w
    have hisE : ∀ w : Int, ((t.getCells c).map (fun cell => cell.measure w.toNat)).isEmpty = false := by
      intro w
      cases hg : t.getCells c with
      | nil => exact absurd hg hempty
      | cons _ _ => rfl
    cases hmx : c.maxWidth with
    | none =>
      refine ⟨some (listMax ns), by intro k hk; injection hk with hk; omega, ?_⟩
      intro w hw1
      unfold Table.measureColumn
      simp only [show ¬ (w < 1) by omega, if_false, hw, hmin, hmx, hisE w, Bool.false_eq_true, Option.map_none,
        Measurement.clamp, Measurement.withMaximum, hmaxw w hw1]
      omega
    | some m =>
      have := hcap m hmx
      refine ⟨some (min (listMax ns) (m + t.paddingWidth idx)), by intro k hk; injection hk with hk; omega, ?_⟩
      intro w hw1
      unfold Table.measureColumn
      simp only [show ¬ (w < 1) by omega, if_false, hw, hmin, hmx, hisE w, Bool.false_eq_true, Option.map_none, Option.map_some,
        Measurement.clamp, Measurement.withMaximum, hmaxw w hw1]
      omega

/-- Re-measuring a column that was collapsed from its first width `orOne (measure at max_width)` to some `1 ≤ r ≤` that
width gives `r` back. -/
theorem remeasure_one_textlike (t : Table) (idx : Nat) (c : Column) (hfree : c.SaneFree t idx)
    (htl : ∀ cell ∈ t.getCells c, cell.TextLike) (maxWidth r : Int) (hmw : 1 ≤ maxWidth) (hr1 : 1 ≤ r)
    (hr : r ≤ orOne (t.measureColumn idx c maxWidth).maximum) :
    orOne (t.measureColumn idx c r).maximum = r := by
  obtain ⟨K, hK0, hK⟩ := measureColumn_textlike t idx c hfree htl
  rw [hK r hr1]
  rw [hK maxWidth hmw] at hr
  cases K with
  | none =>
    simp only at hr ⊢
    unfold orOne; simp; omega
  | some k =>
    have := hK0 k rfl
    simp only at hr ⊢
    unfold orOne at hr ⊢
    split at hr
    · rename_i h0; simp at h0
      have : r = 1 := by omega
      subst this
      split
      · rfl
      · rename_i h1; simp at h1; omega
    · rename_i h0; simp at h0
      split
      · rename_i h1; simp at h1; omega
      · omega

/-- **Re-measuring text-like columns is stable**: every list `r` of widths with `1 ≤ r_i ≤` the first width of column `i`
is a fixed point of the re-measure. -/
theorem remeasure_stable_textlike (t : Table) (hfree : t.AllFree) (htl : ∀ c ∈ t.columns, ∀ cell ∈ t.getCells c, cell.TextLike)
    (maxWidth : Int) (hmw : 1 ≤ maxWidth) (r : List Int)
    (hle : ListLe r (t.indexed.map (fun ci => orOne (t.measureColumn ci.2 ci.1 maxWidth).maximum)))
    (hr1 : ∀ w ∈ r, 1 ≤ w) : t.remeasure r = r := by
  unfold Table.remeasure
  have hfree' : ∀ ci ∈ t.indexed, ci.1.SaneFree t ci.2 := hfree
  have htl' : ∀ ci ∈ t.indexed, ∀ cell ∈ t.getCells ci.1, cell.TextLike := fun ci hci => htl ci.1 (mem_indexed t ci hci)
  generalize t.indexed = ind at hle hfree' htl'
  induction r generalizing ind with
  | nil => simp
  | cons x xs ih =>
    cases ind with
    | nil => have := hle.1; simp at this
    | cons ci ind =>
      simp only [List.zip_cons_cons, List.map_cons, List.cons.injEq]
      have hx := hle.2 (x, orOne (t.measureColumn ci.2 ci.1 maxWidth).maximum) (by simp)
      refine ⟨remeasure_one_textlike t ci.2 ci.1 (hfree' ci (by simp)) (htl' ci (by simp)) maxWidth x hmw (hr1 x (by simp)) hx, ?_⟩
      exact ih (fun w hw => hr1 w (List.mem_cons_of_mem _ hw)) ind
        ⟨by have := hle.1; simpa using this, fun p hp => hle.2 p (by simp [hp])⟩
        (fun c hc => hfree' c (List.mem_cons_of_mem _ hc)) (fun c hc => htl' c (List.mem_cons_of_mem _ hc))

end RichModel
