import RichModel.Model.Layout
import RichModel.Lemmas.FramesRect
import RichModel.Lemmas.CollapseKeepMixed
import RichModel.Lemmas.TableWidths
/-!
Definitions shared by the proofs of the composition layer (C01 / C09): the visible text of a segment stream, its
lines, "every line fits", "the last line is ended", and the *domain* of C01 as a predicate on renderable trees.
-/
namespace RichModel.Layout
open RichModel RichModel.Frames

/-- the visible characters of a segment stream (control segments occupy no cell and never break a line) -/
def flat (segs : List Seg) : List Char := segs.flatMap (fun s => if s.control then [] else s.text)

/-- the lines of a string: the pieces between line feeds (a string ending in a line feed has a last, empty piece) -/
def pieces (s : List Char) : List (List Char) := splitOnP (fun c => c == '\n') s []

/-- **every line of the stream occupies at most `w` cells** -/
def Fits (cw : Char → Nat) (w : Nat) (segs : List Seg) : Prop := ∀ p ∈ pieces (flat segs), cellLen cw p ≤ w

/-- the stream is a (possibly empty) sequence of complete lines: whatever follows starts on a fresh line -/
def Closed (segs : List Seg) : Prop := flat segs = [] ∨ (flat segs).getLast? = some '\n'

def textClosed (t : T) : Bool := t.endStr == ['\n']

def optTextClosed (t : Option T) : Bool := match t with | none => true | some t => textClosed t

mutual
/-- static sufficient condition for "this renderable always ends its last line" (`ProgressBar` never does: F23) -/
def closedR : R → Bool
  | .text t => textClosed t
  | .str t => textClosed t
  | .padding _ _ _ => true
  | .panel _ _ => true
  | .align _ _ => true
  | .constrain _ c => closedR c
  | .styled c => closedR c
  | .cast c => closedR c
  | .opaque c => closedR c
  | .group _ items => closedL items
  | .rule o => o.endS == ['\n']
  | .bar _ => true
  | .progressBar _ => false
  | .table o _ => optTextClosed o.title && optTextClosed o.caption
  | .columns o _ => optTextClosed o.title
  | .tree _ => true
def closedL : List R → Bool
  | [] => true
  | r :: rs => closedR r && closedL rs
end

/-- an exposed text is in C01's domain unless it opts out of fitting (`overflow="ignore"`) or of ending its line -/
def textDom (t : T) (o : Opts) : Prop :=
  effOverflow t o ≠ RichModel.Overflow.ignore ∧ (t.endStr = ['\n'] ∨ t.endStr = [])

/-- a table title / caption: as a text, and it must end its line (the body starts right after it) -/
def annDom (t : Option T) (o : Opts) : Prop :=
  match t with
  | none => True
  | some t => effOverflow t o ≠ RichModel.Overflow.ignore ∧ t.endStr = ['\n']

/-- free to wrap and without an active ratio (the domain of `Dep.width_fits`; kept for `tb_toTable_noRatio`) -/
def ColOpts.free (expands : Bool) (c : ColOpts) : Prop :=
  c.width = none ∧ c.minWidth = none ∧ c.noWrap = false ∧ (expands = false ∨ c.ratio.getD 0 = 0)

/-- "columns free to wrap": no fixed width, no minimum width, wrapping allowed -/
def ColOpts.wrappable (c : ColOpts) : Prop := c.width = none ∧ c.minWidth = none ∧ c.noWrap = false

def colOptsOf : Col → ColOpts | .mk o _ _ _ => o

/-- the child oracle of a subtree (what the frames are instantiated with) -/
def chOf (cfg : Cfg) (r : R) (o : Opts) : Ch := ⟨fun x => measure cfg r x, fun x => render cfg r o x⟩

/-- the column-width budget of a table whose columns are NOT all free to wrap (C07 `width_bound_general`): with `ws0` the first-pass
widths of `_calculate_column_widths` at the width on offer, the columns that may not shrink (fixed `width`, `no_wrap`) at their
first-pass width plus ONE cell for every column that may, fit that width -/
def tableBudget (cfg : Cfg) (to : TableOpts) (cs : List ColS) (w : Nat) : Prop :=
  ∃ ws0, (toTable cfg to cs).firstWidths cfg.fl ((toTable cfg to cs).width.getD (w : Int) - (toTable cfg to cs).extraWidth) = some ws0 ∧
    nonWrapSum (ws0.zip (toTable cfg to cs).wrapable) + wrapCount (ws0.zip (toTable cfg to cs).wrapable)
      ≤ (toTable cfg to cs).width.getD (w : Int) - (toTable cfg to cs).extraWidth

mutual
/-- **The domain of C01** for a renderable in *exposed* position (its lines reach the output without being cropped
by a container), rendered under options `o` with `w` cells available.  Containers that crop what they are given
(padding, panel, table, columns, tree) put NO condition on their children.
* text: not `overflow="ignore"` (the documented opt-out), `end` is the line feed (or nothing);
* `Constrain` / `Align` hand their child a narrower width: NO condition on that width (the theorems bound every line by
  `max w (smin r)`: below its structural minimum a renderable is never wider than that minimum; for a table with free columns and
  for `Columns` offered LESS than one cell per column that is `Lemmas/LayoutTableLow.lean`: every column ends at exactly one cell);
* group: every member in the domain, and every member but the last ends its line (a `ProgressBar` does not: F23);
* table (any number of columns, also none): EITHER columns free to wrap (no `width`, `min_width`, `no_wrap`; every ratio is fine on the
  code with the repaired flexible-width clamp; on the code before fix 75c2776 a `ratio=0` column in an expanding table is excluded:
  finding `table-ratio-zero-column`), title / caption in the text domain and ending
  their line — at EVERY width, an explicit `Table(width=…)` below the borders plus one cell per column included;
  OR arbitrary columns (fixed `width`,
  `max_width`, `no_wrap`) that meet the budget `tableBudget` (a binding `min_width` makes the table up to `floorSum` cells wider than
  the offer: `table_general_bound`);
* bar / progress bar: proper fractions (`den > 0`), no negative `width`. -/
def Dom (cfg : Cfg) : R → Opts → Nat → Prop
  | .text t, o, _ => textDom t o
  | .str t, o, _ => textDom t o
  | .padding _ _ _, _, _ => True
  | .panel _ _, _, _ => True
  | .align ao c, o, w => Dom cfg c o (alignInnerWidth cfg.env cfg.v ao (chOf cfg c o) (w : Int)).toNat
  | .constrain k c, o, w => Dom cfg c o (match k with | none => w | some k => min k w)
  | .styled c, o, w => Dom cfg c o w
  | .cast c, o, w => Dom cfg c o w
  | .opaque c, o, w => Dom cfg c o w
  | .group _ items, o, w => DomL cfg items o w
  | .rule ro, o, w =>
    (o.overflow ≠ some RichModel.Overflow.ignore ∨ ∀ c ∈ (ruleText cfg.cw cfg.env cfg.v ro (w : Int)).1, c ≠ '\t') ∧
      (ro.endS = ['\n'] ∨ ro.endS = [])
  | .bar bo, _, _ => 0 < bo.size.den ∧ 0 < bo.beginV.den ∧ 0 < bo.endV.den ∧ 0 ≤ bo.width.getD 0
  | .progressBar po, _, _ => 0 < po.total.den ∧ 0 < po.completed.den ∧ 0 ≤ po.width.getD 0
  | .table to cols, o, w =>
    annDom to.title o ∧ annDom to.caption o ∧
      ((∀ c ∈ cols, (colOptsOf c).wrappable ∧ ((cfg.fl.flexNegative = false ∧ cfg.fl.flexClampZero = false) ∨
          (to.expand || to.width.isSome) = false ∨ (colOptsOf c).ratio ≠ some 0))
       ∨
       (cols ≠ [] ∧ (∀ c ∈ cols, (colOptsOf c).minWidth = none ∨ (colOptsOf c).width.isSome = true) ∧
        ((cfg.fl.flexNegative = false ∧ cfg.fl.flexClampZero = false) ∨ (toTable cfg (to.subst cfg.env) (colsR cfg cols)).NoRatio) ∧
        tableBudget cfg (to.subst cfg.env) (colsR cfg cols) w))
  | .columns co _, o, _ => annDom co.title o ∧ co.lay.width = none
  | .tree _, _, _ => True
def DomL (cfg : Cfg) : List R → Opts → Nat → Prop
  | [], _, _ => True
  | r :: rs, o, w => Dom cfg r o w ∧ (rs = [] ∨ closedR r = true) ∧ DomL cfg rs o w
end

end RichModel.Layout
