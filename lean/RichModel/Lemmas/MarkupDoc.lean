import RichModel.Lemmas.MarkupError
namespace RichModel.Markup

/-! ### documents from the tag grammar -/

/-- one piece of a document: escaped text, an opening tag, a closing tag, `[/]` -/
inductive Piece where
  | text (s : List Char)
  | opening (name : List Char) (params : Option (List Char))
  | closing (name : List Char)
  | closeTop
deriving Repr, DecidableEq

/-- the tag text between the brackets -/
def Piece.body : Piece → List Char
  | .text _ => []
  | .opening n none => n
  | .opening n (some p) => n ++ '=' :: p
  | .closing n => '/' :: n
  | .closeTop => ['/']

def Piece.markup : Piece → List Char
  | .text s => escape s
  | p => '[' :: p.body ++ [']']

def Piece.evs : Piece → List Ev
  | .text s => s.map Ev.chr
  | .opening n p => [Ev.tag { name := n, params := p }]
  | .closing n => [Ev.tag { name := '/' :: n, params := none }]
  | .closeTop => [Ev.tag { name := ['/'], params := none }]

def cleanName (n : List Char) : Prop := ']' ∉ n ∧ '\n' ∉ n ∧ '=' ∉ n

/-- side conditions: text leaves are self-contained; a tag name starts with a letter or `#`, and
neither it nor the parameters contain `]` or a line feed (nor the name a `=`) -/
def Piece.ok : Piece → Prop
  | .text s => SelfContained s
  | .opening n p => (∃ c r, n = c :: r ∧ isTagStart c = true ∧ c ≠ '/') ∧ cleanName n ∧
      (∀ q, p = some q → ']' ∉ q ∧ '\n' ∉ q)
  | .closing n => cleanName n
  | .closeTop => True

theorem splitEq_plain (n : List Char) (h : '=' ∉ n) : splitEq n = (n, none) := by
  induction n with
  | nil => rfl
  | cons c cs ih =>
    simp at h
    have hc : ¬ c = '=' := fun e => h.1 e.symm
    simp [splitEq, hc, ih h.2]

theorem splitEq_params (n p : List Char) (h : '=' ∉ n) : splitEq (n ++ '=' :: p) = (n, some p) := by
  induction n with
  | nil => simp [splitEq]
  | cons c cs ih =>
    simp at h
    have hc : ¬ c = '=' := fun e => h.1 e.symm
    simp [splitEq, hc, ih h.2]

theorem mkTag_plain (n : List Char) (h : '=' ∉ n) : mkTag n = { name := n, params := none } := by
  simp [mkTag, splitEq_plain n h]

theorem mkTag_params (n p : List Char) (h : '=' ∉ n) : mkTag (n ++ '=' :: p) = { name := n, params := some p } := by
  simp [mkTag, splitEq_params n p h]

theorem okTail_tag (body : List Char) : okTail ('[' :: body ++ [']']) = true := by
  have := okTail_body body []
  simp [okTail] at this ⊢
  exact this

theorem selfContained_tag (body : List Char) : SelfContained ('[' :: body ++ [']']) := by
  refine ⟨?_, okTail_tag body⟩
  rw [show '[' :: body ++ [']'] = ('[' :: body) ++ [']'] by simp, getLast?_append_ne _ _ (by simp)]
  simp

/-- a bracketed tag text whose first character is in the class and that contains no `]` / line feed
is one tag for the tokenizer -/
theorem events_tag (c : Char) (b : List Char) (hc : isTagStart c = true) (n1 : ']' ∉ b) (n2 : '\n' ∉ b) :
    events ('[' :: (c :: b) ++ [']']) = [Ev.tag (mkTag (c :: b))] := by
  have ht : tagBody ((c :: b) ++ [']']) = some (c :: b, []) := by
    have := tagBody_of c b [] hc n1 n2
    simpa using this
  have : lex ('[' :: (c :: b) ++ [']']) = [Lx.tag 0 (c :: b)] := by
    have := lexK_tag 0 ht
    simp only [lexK_nil, List.replicate_zero] at this
    exact this
  rw [events, this]; simp [Lx.evs, bsl]

theorem Piece.events_markup (p : Piece) (h : p.ok) : events p.markup = p.evs := by
  cases p with
  | text s => exact events_escape s
  | opening n q =>
    obtain ⟨⟨c, r, rfl, hc, _⟩, ⟨c1, c2, c3⟩, hq⟩ := h
    simp at c1 c2 c3
    cases q with
    | none =>
      simp only [Piece.markup, Piece.body, Piece.evs]
      rw [events_tag c r hc c1.2 c2.2, mkTag_plain _ (by simp; exact c3)]
    | some q =>
      obtain ⟨q1, q2⟩ := hq q rfl
      simp only [Piece.markup, Piece.body, Piece.evs]
      have := events_tag c (r ++ '=' :: q) hc (by simp; exact ⟨c1.2, q1⟩) (by simp; exact ⟨c2.2, q2⟩)
      rw [show (c :: r) ++ '=' :: q = c :: (r ++ '=' :: q) by simp, this,
        show c :: (r ++ '=' :: q) = (c :: r) ++ '=' :: q by simp, mkTag_params _ _ (by simp; exact c3)]
  | closing n =>
    obtain ⟨c1, c2, c3⟩ := h
    simp only [Piece.markup, Piece.body, Piece.evs]
    rw [events_tag '/' n (by decide) c1 c2, mkTag_plain _ (by simp; exact c3)]
  | closeTop =>
    simp only [Piece.markup, Piece.body, Piece.evs]
    exact events_tag '/' [] (by decide) (by simp) (by simp)

theorem Piece.selfContained (p : Piece) (h : p.ok) : SelfContained p.markup := by
  cases p with
  | text s => exact selfContained_escape h
  | opening n q => exact selfContained_tag _
  | closing n => exact selfContained_tag _
  | closeTop => exact selfContained_tag _

/-- the tokenizer reads a document from the tag grammar as the pieces it was written from -/
theorem events_doc (d : List Piece) (h : ∀ p ∈ d, p.ok) :
    events (d.flatMap Piece.markup) = d.flatMap Piece.evs := by
  induction d with
  | nil => rfl
  | cons p ps ih =>
    simp only [List.flatMap_cons]
    rw [events_append _ (p.selfContained (h p (by simp))), p.events_markup (h p (by simp)),
      ih (fun q hq => h q (by simp [hq]))]

/-! ### decidability, for concrete witnesses -/

instance (n : List Char) : Decidable (cleanName n) := by unfold cleanName; infer_instance

instance (cfg : Cfg) (op : List OTag) (t : Tag) : Decidable (cannotClose cfg op t) := by
  unfold cannotClose; split <;> infer_instance

instance {ε α : Type} [DecidableEq ε] [DecidableEq α] : DecidableEq (Except ε α) := fun a b =>
  match a, b with
  | .ok x, .ok y => if h : x = y then isTrue (by rw [h]) else isFalse (by intro e; cases e; exact h rfl)
  | .error x, .error y => if h : x = y then isTrue (by rw [h]) else isFalse (by intro e; cases e; exact h rfl)
  | .ok _, .error _ => isFalse (by intro e; cases e)
  | .error _, .ok _ => isFalse (by intro e; cases e)

end RichModel.Markup
