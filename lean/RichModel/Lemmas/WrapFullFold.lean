import RichModel.Lemmas.WrapFull
/-!
One paragraph through `wrapLine` with folding and justify "full": `divide`, `rstrip_end`, the rebuilding of every
line but the last (`Lemmas/WrapFull.lean`) and the final `truncate`.  Rebuilt lines carry the null style of
`Text("")` in front of every effective style, so styled strings are compared after erasing the null style
(`dropNull`).
-/
namespace RichModel
namespace Wrap
open Text
variable {σ : Type}
variable {chars : Bool}

/-- erase the null style `""` (the identity of rich's style algebra) from every effective style -/
def dropNull [BEq σ] (A : StyleAlg σ) (v : List (Char × List σ)) : List (Char × List σ) :=
  v.map (fun p => (p.1, p.2.filter (fun s => !(s == A.null))))

theorem dropNull_append [BEq σ] (A : StyleAlg σ) (a b : List (Char × List σ)) :
    dropNull A (a ++ b) = dropNull A a ++ dropNull A b := by simp [dropNull]

theorem dropNull_cons_null [BEq σ] [LawfulBEq σ] (A : StyleAlg σ) (v : List (Char × List σ)) :
    dropNull A (v.map (fun p => (p.1, A.null :: p.2))) = dropNull A v := by
  simp [dropNull]

/-- the tail of `wrapLine` for justify "full" on lines already stripped by `rstrip_end` -/
theorem fullRel_fold_ink [BEq σ] [LawfulBEq σ] (cw : Char → Nat) (A : StyleAlg σ) (w : Nat) :
    ∀ (ss outs : List (Text σ)), FullRel cw A w ss outs →
    (∀ s ∈ ss, Inv s ∧ cellLen cw (pyRstrip s.plain) ≤ w) →
    dropNull A (nsv ((outs.map (fun l => l.truncate cw (w : Int) (some Overflow.fold))).flatMap Text.view))
      = dropNull A (nsv (ss.flatMap Text.view)) ∧
    ∀ o ∈ outs.map (fun l => l.truncate cw (w : Int) (some Overflow.fold)), Text.Inv o
  | [], _, h, _ => by cases h; exact ⟨rfl, by simp⟩
  | [last], _, h, hs => by
    cases h
    obtain ⟨hi, hf⟩ := hs last (by simp)
    have := truncate_sameInk cw last hi w Overflow.fold (by decide) false hf
    refine ⟨?_, ?_⟩
    · simp only [List.map_cons, List.map_nil, List.flatMap_cons, List.flatMap_nil, List.append_nil]
      rw [this.ink]
    · intro o ho
      simp only [List.map_cons, List.map_nil, List.mem_singleton] at ho
      subst ho; exact this.inv
  | line :: next :: rest, _, h, hs => by
    obtain ⟨out, outs', rfl, hr, hrest⟩ := h
    obtain ⟨hi, hf⟩ := hs line (by simp)
    obtain ⟨hoi, _, hink, hfit⟩ := hr
    have ht := truncate_sameInk cw out hoi w Overflow.fold (by decide) false (hfit hf)
    obtain ⟨ih1, ih2⟩ := fullRel_fold_ink cw A w (next :: rest) outs' hrest
      (fun s hs' => hs s (List.mem_cons_of_mem _ hs'))
    refine ⟨?_, ?_⟩
    · simp only [List.map_cons, List.flatMap_cons, nsv_append, dropNull_append] at ih1 ⊢
      rw [ih1, ht.ink, hink, dropNull_cons_null]
    · intro o ho
      simp only [List.map_cons, List.mem_cons] at ho
      rcases ho with rfl | ho
      · exact ht.inv
      · exact ih2 o (by simpa using ho)

/-- a paragraph wrapped with folding and justify "full" -/
theorem wrapLine_fold_full_ink [BEq σ] [LawfulBEq σ] (cw : Char → Nat) (hsp : cw ' ' = 1) (A : StyleAlg σ) (w : Nat)
    (P : Text σ) (lines : List (Text σ))
    (hasc : AscFrom 0 (divideLine cw P.plain w true))
    (hdiv : P.divide Variant.repaired (divideLine cw P.plain w true) = .ok lines)
    (hview : lines.map Text.view = pieces (divideLine cw P.plain w true) P.view)
    (hplain : lines.map (·.plain) = pieces (divideLine cw P.plain w true) P.plain)
    (hinv : ∀ l ∈ lines, Inv l)
    (hfit : ∀ p ∈ pieces (divideLine cw P.plain w true) P.plain, cellLen cw (pyRstrip p) ≤ w) :
    ∃ out, wrapLine (WVariant.fixed chars) cw A P w Justify.full Overflow.fold false = .ok out ∧
      dropNull A (nsv (out.flatMap Text.view)) = dropNull A (nsv P.view) ∧ ∀ l ∈ out, Text.Inv l := by
  -- the stripped lines
  have hstr : ∀ l ∈ lines, SameInk l (Text.rstripEndW chars cw Variant.repaired l (w : Int)) ∧
      cellLen cw (pyRstrip (Text.rstripEndW chars cw Variant.repaired l (w : Int)).plain) ≤ w := by
    intro l hl
    obtain ⟨h0, hr0⟩ := rstripEnd_sameInk (chars := chars) cw l (hinv l hl) w
    refine ⟨h0, ?_⟩
    rw [hr0]; apply hfit; rw [← hplain]; exact List.mem_map_of_mem hl
  obtain ⟨outs, hjf, _, hrel⟩ := justifyFull_spec cw hsp A w (lines.map (fun l => Text.rstripEndW chars cw Variant.repaired l (w : Int)))
    (by intro s hs; obtain ⟨l, hl, rfl⟩ := List.mem_map.mp hs; exact (hstr l hl).1.inv)
  obtain ⟨h1, h2⟩ := fullRel_fold_ink cw A w _ outs hrel
    (by intro s hs; obtain ⟨l, hl, rfl⟩ := List.mem_map.mp hs; exact ⟨(hstr l hl).1.inv, (hstr l hl).2⟩)
  refine ⟨outs.map (fun l => l.truncate cw (w : Int) (some Overflow.fold)), ?_, ?_, h2⟩
  · unfold wrapLine
    simp only [Bool.false_eq_true, if_false, show (Overflow.fold == Overflow.fold) = true from rfl]
    show (P.divide Variant.repaired _ >>= _) = _
    rw [hdiv]
    simp only [bind, Except.bind, justifyLines]
    rw [show (WVariant.fixed chars).text = Variant.repaired from rfl,
      show (WVariant.fixed chars).rstripChars = chars from rfl, hjf]
  · rw [h1, List.flatMap_map]
    rw [nsv_flatMap_congr _ Text.view lines (fun l hl => (hstr l hl).1.ink)]
    rw [List.flatMap_def, hview, pieces_flatten _ _ hasc]

end Wrap
end RichModel
