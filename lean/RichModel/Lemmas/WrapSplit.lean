import RichModel.Lemmas.WrapDivide
import RichModel.Lemmas.WrapStages
/-!
`Text.split("\n", allow_blank=True)` as used by `Text.wrap`: the paragraphs show exactly the non-whitespace
characters of the text with their styles (only newline characters disappear).
-/
namespace RichModel
namespace Wrap
open Text
variable {σ : Type}

theorem AscFrom.weaken : ∀ (l : List Nat) (a b : Nat), b ≤ a → AscFrom a l → AscFrom b l
  | [], _, _, _, _ => trivial
  | _ :: _, _, _, hab, h => ⟨Nat.le_trans hab h.1, h.2⟩

theorem findAllAux_asc (sep : List Char) (hsep : 0 < sep.length) : ∀ (s : List Char) (pos skip : Nat),
    AscFrom (pos + skip) ((findAllAux sep s pos skip).flatMap (fun m => [m.1, m.2])) ∧
    ∀ o ∈ (findAllAux sep s pos skip).flatMap (fun m => [m.1, m.2]), o ≤ pos + s.length
  | [], pos, skip => by simp [findAllAux, AscFrom]
  | c :: rest, pos, skip => by
    unfold findAllAux
    split
    · rename_i hskip
      obtain ⟨h1, h2⟩ := findAllAux_asc sep hsep rest (pos + 1) (skip - 1)
      refine ⟨?_, fun o ho => ?_⟩
      · have : pos + 1 + (skip - 1) = pos + skip := by omega
        rw [this] at h1; exact h1
      · have := h2 o ho; simp only [List.length_cons]; omega
    · split
      · rename_i hpre
        obtain ⟨h1, h2⟩ := findAllAux_asc sep hsep rest (pos + 1) (sep.length - 1)
        have hle : sep.length ≤ (c :: rest).length := (List.IsPrefix.length_le (List.isPrefixOf_iff_prefix.mp hpre))
        simp only [List.flatMap_cons, List.cons_append, List.nil_append]
        refine ⟨⟨by omega, by omega, ?_⟩, fun o ho => ?_⟩
        · have : pos + 1 + (sep.length - 1) = pos + sep.length := by omega
          rw [this] at h1; exact h1
        · simp only [List.mem_cons] at ho
          rcases ho with rfl | rfl | ho
          · omega
          · omega
          · have := h2 o ho; simp only [List.length_cons]; omega
      · obtain ⟨h1, h2⟩ := findAllAux_asc sep hsep rest (pos + 1) 0
        refine ⟨AscFrom.weaken _ _ _ (by omega) h1, fun o ho => ?_⟩
        have := h2 o ho; simp only [List.length_cons]; omega

theorem mem_piecesFrom {α : Type} (l : List α) : ∀ (offs : List Nat) (s : Nat) (p : List α),
    p ∈ piecesFrom s offs l → ∀ c ∈ p, c ∈ l
  | [], s, p, hp, c, hc => by
    simp only [piecesFrom, List.mem_singleton] at hp
    subst hp; exact List.mem_of_mem_drop hc
  | o :: os, s, p, hp, c, hc => by
    simp only [piecesFrom, List.mem_cons] at hp
    rcases hp with rfl | hp
    · exact List.mem_of_mem_drop (List.mem_of_mem_take hc)
    · exact mem_piecesFrom l os o p hp c hc

theorem nsv_flatMap_filter (ls : List (Text σ)) (q : Text σ → Bool)
    (hq : ∀ l ∈ ls, q l = false → nsv l.view = []) :
    nsv ((ls.filter q).flatMap Text.view) = nsv (ls.flatMap Text.view) := by
  induction ls with
  | nil => rfl
  | cons l ls ih =>
    have ih' := ih (fun x hx => hq x (List.mem_cons_of_mem _ hx))
    simp only [List.filter_cons]
    split
    · simp only [List.flatMap_cons, nsv_append, ih']
    · rename_i hf
      simp only [List.flatMap_cons, nsv_append, ih']
      rw [hq l (by simp) (by simpa using hf), List.nil_append]

theorem findAllAux_nl_cons (c : Char) (rest : List Char) (pos : Nat) :
    findAllAux ['\n'] (c :: rest) pos 0 =
      if c = '\n' then (pos, pos + 1) :: findAllAux ['\n'] rest (pos + 1) 0 else findAllAux ['\n'] rest (pos + 1) 0 := by
  by_cases hc : c = '\n'
  · subst hc; simp [findAllAux, List.isPrefixOf]
  · have hc' : ¬ '\n' = c := fun h => hc h.symm
    simp [findAllAux, List.isPrefixOf, hc, hc']

/-- cutting `pre ++ s` at both ends of every newline of `s`: every piece is a newline or free of newlines -/
theorem pieces_newline (s : List Char) : ∀ (pre : List Char) (start : Nat), start ≤ pre.length →
    (∀ c ∈ pre.drop start, c ≠ '\n') →
    ∀ p ∈ piecesFrom start ((findAllAux ['\n'] s pre.length 0).flatMap (fun m => [m.1, m.2])) (pre ++ s),
      p = ['\n'] ∨ ∀ c ∈ p, c ≠ '\n' := by
  induction s with
  | nil =>
    intro pre start _ hpre p hp
    simp only [findAllAux, List.flatMap_nil, piecesFrom, List.append_nil, List.mem_singleton] at hp
    subst hp; exact Or.inr hpre
  | cons c rest ih =>
    intro pre start hs hpre p hp
    rw [findAllAux_nl_cons] at hp
    have happ : pre ++ c :: rest = (pre ++ [c]) ++ rest := by simp
    by_cases hc : c = '\n'
    · subst hc
      simp only [if_true, List.flatMap_cons, List.cons_append, List.nil_append, piecesFrom, List.mem_cons] at hp
      rcases hp with rfl | rfl | hp
      · right
        intro c hc
        have : (List.drop start (pre ++ '\n' :: rest)).take (pre.length - start) = pre.drop start := by
          rw [List.drop_append_of_le_length hs, List.take_append_of_le_length (by simp)]
          rw [List.take_of_length_le (by simp)]
        rw [this] at hc
        exact hpre c hc
      · left
        rw [List.drop_append_of_le_length (Nat.le_refl _)]
        simp
      · rw [happ] at hp
        have := ih (pre ++ ['\n']) (pre.length + 1) (by simp) (by simp)
        simp only [List.length_append, List.length_cons, List.length_nil, Nat.zero_add] at this
        exact this p hp
    · simp only [hc, if_false] at hp
      rw [happ] at hp
      have := ih (pre ++ [c]) start (by simp; omega) (by
        intro x hx
        rw [List.drop_append_of_le_length hs] at hx
        rcases List.mem_append.mp hx with hx | hx
        · exact hpre x hx
        · simp only [List.mem_singleton] at hx; subst hx; exact hc)
      simp only [List.length_append, List.length_cons, List.length_nil, Nat.zero_add] at this
      exact this p hp

/-- `self.split(allow_blank=True)`: the paragraphs of a consistent text are consistent, carry its base style, are
made of its characters, and together show its non-whitespace characters with their styles -/
theorem split_newline_ink [BEq σ] (t : Text σ) (h : Inv t) :
    ∃ lines, t.split Variant.repaired ['\n'] false true = .ok lines ∧
      nsv (lines.flatMap Text.view) = nsv t.view ∧
      ∀ l ∈ lines, Inv l ∧ l.style = t.style ∧ (∀ c ∈ l.plain, c ∈ t.plain) ∧ '\n' ∉ l.plain := by
  unfold Text.split
  simp only [List.isEmpty_cons, Bool.false_eq_true, if_false, Bool.not_true, Bool.false_and]
  split
  · refine ⟨[t.copy Variant.repaired], rfl, ?_, ?_⟩
    · rw [copy_eq_self t h]; simp
    · intro l hl
      simp only [List.mem_singleton] at hl
      subst hl
      rw [copy_eq_self t h]
      refine ⟨h, rfl, fun c hc => hc, ?_⟩
      rename_i hempty
      intro hmem
      -- no match at all although a newline is there: impossible
      have : ∀ (s : List Char) (pos : Nat), '\n' ∈ s → findAllAux ['\n'] s pos 0 ≠ [] := by
        intro s
        induction s with
        | nil => intro _ h; cases h
        | cons c rest ih =>
          intro pos hin
          rw [findAllAux_nl_cons]
          by_cases hc : c = '\n'
          · simp [hc]
          · simp only [hc, if_false]
            apply ih
            rcases List.mem_cons.mp hin with h | h
            · exact absurd h.symm hc
            · exact h
      have hne := this t.plain 0 hmem
      simp only [findAll, List.isEmpty_iff] at hempty
      exact hne hempty
  · obtain ⟨hasc, hb⟩ := findAllAux_asc ['\n'] (by simp) t.plain 0 0
    obtain ⟨lines, hdiv, hview, hplain, hall⟩ := divide_view t _ h hasc (by simpa [findAll] using hb)
    simp only [findAll] at hdiv ⊢
    refine ⟨lines.filter (fun line => line.plain != ['\n']), ?_, ?_, ?_⟩
    · simp only [hdiv, bind, Except.bind, pure, Except.pure]
    · rw [nsv_flatMap_filter]
      · rw [List.flatMap_def, hview, pieces_flatten _ _ hasc]
      · intro l _ hq
        have hp : l.plain = ['\n'] := by simpa using hq
        rw [view_eq_annot, hp]
        simp [annot, nsv, show pyIsSpace '\n' = true from by decide]
    · intro l hl
      have hl' := (List.mem_filter.mp hl).1
      have hmem : l.plain ∈ List.map (fun x => x.plain) lines := List.mem_map_of_mem hl'
      rw [hplain] at hmem
      refine ⟨(hall l hl').1, (hall l hl').2.1, mem_piecesFrom _ _ _ _ hmem, ?_⟩
      have hne : l.plain ≠ ['\n'] := by simpa using (List.mem_filter.mp hl).2
      have := pieces_newline t.plain [] 0 (by simp) (by simp) l.plain (by simpa [pieces] using hmem)
      rcases this with h1 | h1
      · exact absurd h1 hne
      · intro hin; exact h1 _ hin rfl

end Wrap
end RichModel
