import RichModel.Model.FramesBarsStyled
import RichModel.Lemmas.FramesBars
/-
Lemmas about the styled Bar / ProgressBar model (Model/FramesBarsStyled.lean).  All statements are for every
width / total / completed (no bound on sizes): erasure to the text-only model of Model/Frames.lean, and the
split of a (non-pulse) progress bar into its completed and its remaining part, cell by cell.
-/
namespace RichModel.Frames
open RichModel

variable {σ : Type}

/-! ## erasure: forgetting the style ids gives the text-only model -/

/-- (a) the styled progress bar (non-pulse path) is the text model with style ids attached -/
theorem progressStyled_erase (env : Env) (o : ProgressOpts) (w : Int) (hp : o.pulse = false) :
    eraseSty (σ := σ) (progressStyled env o w) = progressConsole env o w := by
  unfold progressStyled progressConsole progressHalves eraseSty
  simp only [hp, Bool.false_eq_true, if_false, apply_ite (List.map (fun p : SSeg => (seg p.1 : Segment σ))),
    List.map_append, List.map_cons, List.map_nil]

example : eraseSty (σ := Unit) (progressStyled { consoleWidth := 80, colorSystem := 1 } { total := ⟨10, 1⟩, completed := ⟨3, 1⟩ } 7)
    = progressConsole { consoleWidth := 80, colorSystem := 1 } { total := ⟨10, 1⟩, completed := ⟨3, 1⟩ } 7 :=
  progressStyled_erase _ _ _ rfl

/-- the styled bar is the text model with style ids attached -/
theorem barStyled_erase (o : BarOpts) (w : Int) : eraseSty (σ := σ) (barStyled o w) = barConsole o w := by
  unfold barStyled barParts barConsole eraseSty
  by_cases h : o.endV.le o.beginV = true
  · simp only [h, if_true]; rfl
  · simp only [h, Bool.false_eq_true, if_false]; rfl

/-- the text of a bar is always a single segment in the bar's own style followed by `Segment.line()` -/
theorem barStyled_shape (o : BarOpts) (w : Int) :
    ∃ t, barStyled o w = [(t, BarSty.own), (['\n'], BarSty.line)] := by
  unfold barStyled
  split
  · exact ⟨_, rfl⟩
  · exact ⟨_, rfl⟩

/-- the prefix / body / suffix split (bar.py:71-81): the body is drawn over by the prefix, the suffix pads to the width -/
theorem barStyled_parts (o : BarOpts) (w : Int) (p : BarParts) (h : barParts o w = some p) :
    barStyled o w = [(p.prefix_ ++ p.body.drop p.prefix_.length ++ p.suffix, BarSty.own), (['\n'], BarSty.line)] ∧
    p.suffix = rep (barWidth o.width w - p.body.length) ' ' := by
  constructor
  · unfold barStyled; rw [h]
  · unfold barParts at h
    simp only at h
    split at h
    · exact absurd h (by simp)
    · simp only [Option.some.injEq] at h
      rw [← h]

example : barStyled { size := ⟨10, 1⟩, beginV := ⟨2, 1⟩, endV := ⟨7, 1⟩ } 5
    = [([' ', '█', '█', '▌', ' '], BarSty.own), (['\n'], BarSty.line)] := by decide

/-! ## the split of a progress bar -/

theorem progressHalves_range (o : ProgressOpts) (width : Int) (hw : 0 ≤ width)
    (htd : 0 < o.total.den) (hcd : 0 < o.completed.den) :
    0 ≤ progressHalves o width ∧ progressHalves o width ≤ width * 2 :=
  progress_halves_range o width hw htd hcd

theorem styledCells_append (a b : List SSeg) : styledCells (a ++ b) = styledCells a ++ styledCells b := by
  simp only [styledCells, List.flatMap_append]

theorem styledCells_optRep (n : Int) (c : Char) (s : BarSty) :
    (if (n != 0) = true then styledCells [(rep n c, s)] else styledCells []) = List.replicate n.toNat (c, s) := by
  by_cases h : n = 0
  · simp [h, styledCells]
  · simp [h, styledCells, rep]

theorem styledCells_optOne (b : Bool) (c : Char) (s : BarSty) :
    (if b = true then styledCells [([c], s)] else styledCells []) = List.replicate (if b then 1 else 0) (c, s) := by
  cases b <;> simp [styledCells]

/-- (b) SPLIT.  Cell by cell, a non-pulse progress bar of width `width` whose number of completed half cells is
`h = progressHalves o width` is
* `h / 2` bar cells, then one right-half-bar cell when `h` is odd, all in the fill style
  (`complete` when `completed < total`, else `finished`),
* and — only when colour is available (`not console.no_color` and a colour system) — exactly
  `width - h / 2 - h % 2` cells in the background style: a left-half-bar first when the completed part is a
  positive whole number of cells, bars after it.
The bar fills `width` cells exactly when colour is available, and `(h + 1) / 2 ≤ width` cells otherwise. -/
theorem progressStyled_split (env : Env) (o : ProgressOpts) (w : Int) (hw : 0 ≤ barWidth o.width w)
    (htd : 0 < o.total.den) (hcd : 0 < o.completed.den) :
    let width := barWidth o.width w
    let ascii := env.legacyWindows || env.asciiOnly
    let bar := if ascii then '-' else '━'
    let halfR := if ascii then ' ' else '╸'
    let halfL := if ascii then ' ' else '╺'
    let h := progressHalves o width
    let fill := progressFillSty o
    let colour := !env.noColor && env.colorSystem != 0
    let rem := width - h / 2 - h % 2
    let lead : Nat := if h % 2 = 0 ∧ 0 < h / 2 ∧ 0 < rem then 1 else 0
    0 ≤ h ∧ h ≤ width * 2 ∧ 0 ≤ rem ∧
    styledCells (progressStyled env o w) =
      List.replicate (h / 2).toNat (bar, fill) ++ List.replicate (h % 2).toNat (halfR, fill)
        ++ (if colour then List.replicate lead (halfL, BarSty.back) ++ List.replicate (rem.toNat - lead) (bar, BarSty.back)
            else []) ∧
    (styledCells (progressStyled env o w)).length = (if colour then width.toNat else ((h + 1) / 2).toNat) ∧
    (styledCells (progressStyled env o w)).length ≤ width.toNat := by
  have hrange := progressHalves_range o (barWidth o.width w) hw htd hcd
  dsimp only
  unfold progressStyled
  simp only [styledCells_append, apply_ite styledCells, styledCells_optRep, styledCells_optOne, apply_ite List.length,
    List.length_append, List.length_replicate]
  generalize progressHalves o (barWidth o.width w) = h at hrange ⊢
  generalize barWidth o.width w = width at hrange hw ⊢
  generalize (env.legacyWindows || env.asciiOnly) = ascii
  generalize (if ascii = true then '-' else '━') = bar
  generalize (if ascii = true then ' ' else '╸') = halfR
  generalize (if ascii = true then ' ' else '╺') = halfL
  obtain ⟨h0, h1⟩ := hrange
  generalize progressFillSty o = fill
  have hrem0 : 0 ≤ width - h / 2 - h % 2 := by omega
  refine ⟨h0, h1, hrem0, ?_, (and_iff_left_of_imp ?_).mpr ?_⟩
  · by_cases hnc : env.noColor = true
    · simp [hnc]
    · by_cases hcs : env.colorSystem = 0
      · simp [hnc, hcs]
      · have b1 : env.noColor = false := by simpa using hnc
        have b3 : (env.colorSystem != 0) = true := by simp [hcs]
        by_cases hrem : width - h / 2 - h % 2 = 0
        · simp [hnc, hcs, hrem]
        · have b2 : (width - h / 2 - h % 2 != 0) = true := by simp [hrem]
          by_cases hu : h % 2 = 0 ∧ 0 < h / 2
          · have e1 : (h % 2 == 0 && h / 2 != 0) = true := by simp [hu.1]; omega
            have e2 : (h % 2 = 0 ∧ 0 < h / 2 ∧ 0 < width - h / 2 - h % 2) := ⟨hu.1, hu.2, by omega⟩
            have e3 : (width - h / 2 - h % 2 - 1).toNat = (width - h / 2 - h % 2).toNat - 1 := by omega
            simp only [b1, b2, b3, e1, Bool.not_false, Bool.and_self, if_true, if_pos e2, e3, List.append_assoc]
          · have e1 : (h % 2 == 0 && h / 2 != 0) = false := by
              rcases Bool.eq_false_or_eq_true (h % 2 == 0 && h / 2 != 0) with hx | hx
              · exfalso; apply hu; simp at hx; omega
              · exact hx
            have e2 : ¬ (h % 2 = 0 ∧ 0 < h / 2 ∧ 0 < width - h / 2 - h % 2) := fun hx => hu ⟨hx.1, hx.2.1⟩
            simp only [b1, b2, b3, e1, Bool.not_false, Bool.and_self, if_true, Bool.false_eq_true, if_false, if_neg e2, List.replicate_zero, List.append_nil,
              List.nil_append, Nat.sub_zero, List.append_assoc]
  · intro hA
    rw [hA]
    split <;> omega
  · by_cases hnc : env.noColor = true
    · simp only [hnc, Bool.not_true, Bool.false_eq_true, if_false, Bool.false_and]; omega
    · have b1 : env.noColor = false := by simpa using hnc
      by_cases hcs : env.colorSystem = 0
      · have b3 : (env.colorSystem != 0) = false := by simp [hcs]
        simp only [b1, b3, Bool.not_false, Bool.and_false, Bool.false_eq_true, if_false, if_true]; omega
      · have b3 : (env.colorSystem != 0) = true := by simp [hcs]
        by_cases hrem : width - h / 2 - h % 2 = 0
        · have b2 : (width - h / 2 - h % 2 != 0) = false := by simp [hrem]
          simp only [b1, b2, b3, Bool.not_false, Bool.and_self, Bool.false_and, Bool.false_eq_true, if_false, if_true]; omega
        · have b2 : (width - h / 2 - h % 2 != 0) = true := by simp [hrem]
          simp only [b1, b2, b3, Bool.not_false, Bool.and_self, if_true]
          by_cases hu : h % 2 = 0 ∧ 0 < h / 2
          · have e1 : (h % 2 == 0 && h / 2 != 0) = true := by simp [hu.1]; omega
            simp only [e1, if_true]; omega
          · have e1 : (h % 2 == 0 && h / 2 != 0) = false := by
              rcases Bool.eq_false_or_eq_true (h % 2 == 0 && h / 2 != 0) with hx | hx
              · exfalso; apply hu; simp at hx; omega
              · exact hx
            simp only [e1, Bool.false_eq_true, if_false]; omega

example : styledCells (progressStyled { consoleWidth := 80, colorSystem := 1 } { total := ⟨10, 1⟩, completed := ⟨3, 1⟩ } 5)
    = [('━', .complete), ('╸', .complete), ('━', .back), ('━', .back), ('━', .back)] := by decide

example : styledCells (progressStyled { consoleWidth := 80, colorSystem := 1 } { total := ⟨10, 1⟩, completed := ⟨4, 1⟩ } 5)
    = [('━', .complete), ('━', .complete), ('╺', .back), ('━', .back), ('━', .back)] := by decide

/-- the hypotheses of `progressStyled_split` hold at a concrete bar (width option 5 in a 9-cell line, 3 of 10 done) -/
example : 0 ≤ barWidth (some 5) 9 ∧ 0 < (⟨10, 1⟩ : Rat').den ∧ progressHalves { total := ⟨10, 1⟩, completed := ⟨3, 1⟩ } 5 = 3 := by decide

/-- a progress bar never has more than four segments -/
theorem progressStyled_length_le (env : Env) (o : ProgressOpts) (w : Int) : (progressStyled env o w).length ≤ 4 := by
  unfold progressStyled
  simp only [apply_ite List.length, List.length_append, List.length_cons, List.length_nil]
  repeat' split
  all_goals omega

/-- a FINISHED bar (`not (self.completed < self.total)`, so drawn in the finished style) with `total ≠ 0` has all of its
`2 * width` half cells completed: by `progressStyled_split` it is `width` bar cells in the finished style and nothing else. -/
theorem progressHalves_finished (o : ProgressOpts) (width : Int) (htd : 0 < o.total.den) (hcd : 0 < o.completed.den)
    (hz : o.total.isZero = false) (hfin : progressFillSty o = BarSty.finished) : progressHalves o width = width * 2 := by
  have hfin' : o.completed.lt o.total = false := by
    unfold progressFillSty at hfin
    cases hx : o.completed.lt o.total
    · rfl
    · simp [hx] at hfin
  unfold progressHalves
  simp only [hz, Bool.false_eq_true, if_false]
  have htn : o.total.num ≠ 0 := by simpa [Rat'.isZero] using hz
  have cancel : ∀ a : Rat', a.num * o.total.den = o.total.num * a.den → a.den ≠ 0 →
      truncMulDiv (width * 2) a o.total = width * 2 := by
    intro a heq had
    unfold truncMulDiv
    have : width * 2 * a.num * (o.total.den : Int) = (width * 2) * ((a.den : Int) * o.total.num) := by
      rw [Int.mul_assoc, heq, Int.mul_comm o.total.num]
    rw [this, Int.mul_tdiv_cancel _ (Int.mul_ne_zero (by omega) htn)]
  simp only [Rat'.lt, decide_eq_false_iff_not, Int.not_lt] at hfin'
  by_cases hneg : o.completed.lt ⟨0, 1⟩ = true
  · simp only [hneg, if_true]
    simp only [Rat'.lt, decide_eq_true_eq] at hneg
    have hcn : o.completed.num < 0 := by omega
    have h1 : o.completed.num * (o.total.den : Int) < 0 := Int.mul_neg_of_neg_of_pos hcn (by omega)
    have h2 : o.total.num * (o.completed.den : Int) < 0 := by omega
    have htneg : o.total.num < 0 := by
      by_cases h : o.total.num < 0
      · exact h
      · have : 0 ≤ o.total.num * (o.completed.den : Int) := Int.mul_nonneg (by omega) (by omega)
        omega
    have hlt : o.total.lt ⟨0, 1⟩ = true := by simp only [Rat'.lt, decide_eq_true_eq]; omega
    simp only [hlt, if_true]
    exact cancel o.total rfl (by omega)
  · simp only [hneg, Bool.false_eq_true, if_false]
    by_cases hlt : o.total.lt o.completed = true
    · simp only [hlt, if_true]
      exact cancel o.total rfl (by omega)
    · simp only [hlt, Bool.false_eq_true, if_false]
      simp only [Rat'.lt, decide_eq_true_eq, Int.not_lt] at hlt
      exact cancel o.completed (by omega) (by omega)

example : progressFillSty { total := ⟨10, 1⟩, completed := ⟨25, 2⟩ } = BarSty.finished ∧
    progressHalves { total := ⟨10, 1⟩, completed := ⟨25, 2⟩ } 7 = 14 := by decide

end RichModel.Frames
