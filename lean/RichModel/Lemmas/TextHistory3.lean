import RichModel.Lemmas.TextHistory2
import RichModel.Lemmas.TextOps4
/-!
Histories over the complete operation set (deepening round 4): `OpX` plus `split` with ANY non-empty separator and
both flags both ways, `fit`, `pad`, `append_tokens`, `rstrip_end`, `with_indent_guides`.
-/
namespace RichModel
namespace Text
variable {σ : Type}

/-! ### with_indent_guides keeps the invariant -/

theorem inv_expandTabs_ok [BEq σ] (t q : Text σ) (tabSize : Option Nat) (h : Inv t)
    (hs : t.expandTabs Variant.repaired tabSize = .ok q) : Inv q := by
  by_cases hc : t.plain.contains '\t' = true
  · cases hts : tabSize.orElse (fun _ => t.tabSize) with
    | none =>
      unfold expandTabs at hs
      simp only [hc, Bool.not_true, Bool.false_eq_true, if_false, hts] at hs
      cases hs
    | some ts =>
      cases ts with
      | zero =>
        unfold expandTabs at hs
        simp only [hc, Bool.not_true, Bool.false_eq_true, if_false, hts] at hs
        cases hs
      | succ n =>
        obtain ⟨q', hq', hinv, _⟩ := expandTabs_view t h tabSize (n + 1) (Nat.succ_pos _) hts
        rw [hq'] at hs
        cases hs
        exact hinv
  · unfold expandTabs at hs
    have : t.plain.contains '\t' = false := by simpa using hc
    simp only [this, Bool.not_false, if_true] at hs
    cases hs
    exact h

theorem inv_split_lines [BEq σ] (t : Text σ) (lines : List (Text σ)) (h : Inv t)
    (hs : t.split Variant.repaired = .ok lines) : ∀ l ∈ lines, Inv l ∧ l.style = t.style := by
  obtain ⟨parts, h1, _, _, h4⟩ := split_view_all t ['\n'] false false h (by simp)
  have : t.split Variant.repaired = Text.splitW true Variant.repaired t ['\n'] false false := rfl
  rw [this, splitW_released_eq t ['\n'] false false h (unbordered_single '\n'), h1] at hs
  cases hs
  exact h4

theorem noCtl_flatten_replicate (k : Nat) (l : List Char) (h : NoCtl l) : NoCtl (List.replicate k l).flatten := by
  intro c hc
  simp only [List.mem_flatten, List.mem_replicate] at hc
  obtain ⟨l', ⟨_, rfl⟩, hc⟩ := hc
  exact h c hc

theorem NoCtl.drop {a : List Char} (n : Nat) (ha : NoCtl a) : NoCtl (a.drop n) :=
  fun c hc => ha c (List.mem_of_mem_drop hc)

/-- every line accumulated so far is consistent -/
def AccOk (acc : Except PyErr (List (Text σ) × Nat)) : Prop :=
  ∀ nl b, acc = .ok (nl, b) → ∀ x ∈ nl, Inv x

theorem indentStep_accOk (size : Nat) (indentLine : List Char) (style : σ) (acc : Except PyErr (List (Text σ) × Nat))
    (line : Text σ) (hacc : AccOk acc) (hline : Inv line) (hil : NoCtl indentLine) :
    AccOk (indentStep Variant.repaired size indentLine style acc line) := by
  cases acc with
  | error e => intro nl b hh; simp [indentStep] at hh
  | ok p =>
    obtain ⟨nl0, b0⟩ := p
    have h0 := hacc nl0 b0 rfl
    intro nl b hh
    simp only [indentStep] at hh
    split at hh
    · cases hh; exact h0
    · split at hh
      · cases hh
      · cases hh
        intro x hx
        simp only [List.mem_append, List.mem_replicate, List.mem_singleton] at hx
        rcases hx with (hx | ⟨_, rfl⟩) | rfl
        · exact h0 x hx
        · exact inv_new _ _ _ _ _ _ _ _ (by intro sp h; simp at h)
        · apply inv_stylize
          apply inv_setPlain _ _ hline
          exact NoCtl.append (NoCtl.append (noCtl_flatten_replicate _ _ hil) (NoCtl.replicate _ _ noCtl_space))
            (NoCtl.drop _ hline.2.1)

theorem indentFold_accOk (size : Nat) (indentLine : List Char) (style : σ) (hil : NoCtl indentLine) :
    ∀ (lines : List (Text σ)) (acc : Except PyErr (List (Text σ) × Nat)), AccOk acc → (∀ l ∈ lines, Inv l) →
      AccOk (lines.foldl (indentStep Variant.repaired size indentLine style) acc)
  | [], _, hacc, _ => hacc
  | l :: rest, acc, hacc, hl => by
    simp only [List.foldl_cons]
    exact indentFold_accOk size indentLine style hil rest _
      (indentStep_accOk size indentLine style acc l hacc (hl l (by simp)) hil) (fun x hx => hl x (by simp [hx]))

/-- `with_indent_guides` (when it returns) returns a consistent text -/
theorem inv_withIndentGuides [BEq σ] (null : σ) (t r : Text σ) (indentSize : Option Nat) (character : List Char)
    (style : σ) (h : Inv t) (hch : NoCtl character)
    (hs : t.withIndentGuides Variant.repaired null indentSize character style = .ok r) : Inv r := by
  unfold withIndentGuides at hs
  rw [copy_eq_self t h] at hs
  cases hexp : t.expandTabs Variant.repaired none with
  | error e => rw [hexp] at hs; cases hs
  | ok text =>
    have htext := inv_expandTabs_ok t text none h hexp
    rw [hexp] at hs
    simp only [bind, Except.bind] at hs
    cases hsp : text.split Variant.repaired with
    | error e => rw [hsp] at hs; cases hs
    | ok lines =>
      have hlines := inv_split_lines text lines htext hsp
      rw [hsp] at hs
      simp only [] at hs
      have hil : NoCtl (character ++ List.replicate (indentSize.getD t.detectIndentation - 1) ' ') :=
        NoCtl.append hch (NoCtl.replicate _ _ noCtl_space)
      have hfold := indentFold_accOk (indentSize.getD t.detectIndentation)
        (character ++ List.replicate (indentSize.getD t.detectIndentation - 1) ' ') style hil lines (.ok ([], 0))
        (by intro nl b hh; cases hh; intro x hx; simp at hx) (fun l hl => (hlines l hl).1)
      cases hf : lines.foldl (indentStep Variant.repaired (indentSize.getD t.detectIndentation)
          (character ++ List.replicate (indentSize.getD t.detectIndentation - 1) ' ') style) (.ok ([], 0)) with
      | error e => rw [hf] at hs; cases hs
      | ok p =>
        obtain ⟨nl, b⟩ := p
        rw [hf] at hs
        simp only [pure, Except.pure] at hs
        cases hs
        apply inv_join
        · exact inv_new _ _ _ _ _ _ _ _ (by intro sp h; simp at h)
        · intro x hx
          simp only [List.mem_append, List.mem_replicate] at hx
          rcases hx with hx | ⟨_, rfl⟩
          · exact hfold nl b hf x hx
          · exact inv_new _ _ _ _ _ _ _ _ (by intro sp h; simp at h)

/-! ### the complete operation set -/

inductive OpAll (σ : Type) where
  | x (op : OpX σ)
  | splitAny (sep : List Char) (incl blank : Bool) (pick : Nat)   -- `t.split(sep, include_separator, allow_blank)[pick]`
  | fit (w : Nat) (pick : Nat)                                    -- `t.fit(w)[pick]`
  | pad (n : Nat) (ch : Char)                                     -- `t.pad(n, ch)`
  | appendTokens (tokens : List (List Char × Option σ))           -- `t.append_tokens(tokens)`
  | rstripEnd (size : Int)                                        -- `t.rstrip_end(size)`
  | indentGuides (size : Option Nat) (character : List Char) (style : σ)  -- `t.with_indent_guides(size, character=…, style=…)`

def stepAll [BEq σ] (cw : Char → Nat) (null : σ) (t : Text σ) : OpAll σ → Except PyErr (Text σ)
  | .x op => stepX cw null t op
  | .splitAny sep incl blank k => pickLine (Text.splitW false Variant.repaired t sep incl blank) k
  | .fit w k => pickLine (t.fit Variant.repaired (w : Int)) k
  | .pad n ch => .ok (t.pad (n : Int) ch)
  | .appendTokens toks => .ok (t.appendTokens toks)
  | .rstripEnd size => .ok (rstripEndW false cw Variant.repaired t size)
  | .indentGuides size ch st => t.withIndentGuides Variant.repaired null size ch st

/-- the domain of the property, per operation -/
def OpAll.Pre (t : Text σ) : OpAll σ → Prop
  | .x op => op.Pre t
  | .splitAny sep _ _ _ => sep ≠ []                      -- an empty separator raises `AssertionError`
  | .pad _ ch => isStripCode ch = false                  -- `pad` does not strip control codes
  | .appendTokens toks => ∀ tok ∈ toks, NoCtl tok.1      -- nor does `append_tokens`
  | .indentGuides _ ch _ => NoCtl ch
  | _ => True

theorem inv_stepAll [BEq σ] (cw : Char → Nat) (null : σ) (t t' : Text σ) (op : OpAll σ) (h : Inv t) (hp : op.Pre t)
    (hs : stepAll cw null t op = .ok t') : Inv t' := by
  cases op with
  | x op => exact inv_stepX cw null t t' op h hp hs
  | splitAny sep incl blank k =>
    obtain ⟨parts, hsp, _, _, hall⟩ := split_view_all t sep incl blank h hp
    apply inv_pickLine _ k t' _ hs
    intro ls hls l hl
    rw [hsp] at hls
    cases hls
    exact (hall l hl).1
  | fit w k =>
    obtain ⟨lines, hf, _, hall⟩ := fit_spec t w h
    apply inv_pickLine _ k t' _ hs
    intro ls hls l hl
    rw [hf] at hls
    cases hls
    exact (hall l hl).1
  | pad n ch => cases hs; exact inv_pad t n ch h hp
  | appendTokens toks => cases hs; exact inv_appendTokens toks t h hp
  | rstripEnd size => cases hs; exact inv_rstripEndW cw t size h
  | indentGuides size ch st => exact inv_withIndentGuides null t t' size ch st h hp hs

def runAll [BEq σ] (cw : Char → Nat) (null : σ) (t : Text σ) : List (OpAll σ) → Except PyErr (Text σ)
  | [] => .ok t
  | op :: rest =>
    match stepAll cw null t op with
    | .ok t' => runAll cw null t' rest
    | .error e => .error e

def HistPreAll [BEq σ] (cw : Char → Nat) (null : σ) (t : Text σ) : List (OpAll σ) → Prop
  | [] => True
  | op :: rest => op.Pre t ∧ ∀ t', stepAll cw null t op = .ok t' → HistPreAll cw null t' rest

theorem inv_runAll [BEq σ] (cw : Char → Nat) (null : σ) (ops : List (OpAll σ)) (t t' : Text σ) (h : Inv t)
    (hp : HistPreAll cw null t ops) (hr : runAll cw null t ops = .ok t') : Inv t' := by
  induction ops generalizing t with
  | nil => cases hr; exact h
  | cons op rest ih =>
    simp only [runAll] at hr
    cases hs : stepAll cw null t op with
    | error e => rw [hs] at hr; cases hr
    | ok t1 =>
      rw [hs] at hr
      exact ih t1 (inv_stepAll cw null t t1 op h hp.1 hs) (hp.2 t1 hs) hr

end Text
end RichModel
