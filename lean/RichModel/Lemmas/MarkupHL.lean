import RichModel.Model.MarkupHL
import RichModel.Lemmas.MarkupEmbed
/-! Lemmas for the console glue with a highlighter (Model/MarkupHL.lean). -/
namespace RichModel.Markup

theorem stripControl_idem (s : List Char) : stripControl (stripControl s) = stripControl s := by
  unfold stripControl
  rw [List.filter_filter]
  simp

/-- what `Text.append` stored is free of the four stripped controls -/
theorem chunkText_clean (cfg : Cfg) (s : List Char) : stripControl (chunkText cfg s) = chunkText cfg s := by
  unfold chunkText
  exact stripControl_idem _

theorem step_text_clean (cfg : Cfg) (st st' : St) (e : PEv) (h : stripControl st.text = st.text)
    (hs : step cfg st e = .ok st') : stripControl st'.text = st'.text := by
  cases e with
  | text pos s =>
    simp only [step, Except.ok.injEq] at hs
    subst hs
    simp only [stripControl_append, h, chunkText_clean]
  | tag pos t =>
    simp only [step] at hs
    split at hs
    · split at hs
      · split at hs
        · simp only [Except.ok.injEq] at hs; subst hs; exact h
        · cases hs
      · split at hs
        · simp only [Except.ok.injEq] at hs; subst hs; exact h
        · cases hs
    · simp only [Except.ok.injEq] at hs; subst hs; exact h

theorem run_text_clean (cfg : Cfg) (es : List PEv) : ∀ (st st' : St), stripControl st.text = st.text →
    run cfg st es = .ok st' → stripControl st'.text = st'.text := by
  induction es with
  | nil => intro st st' h hr; simp only [run, Except.ok.injEq] at hr; subst hr; exact h
  | cons e es ih =>
    intro st st' h hr
    simp only [run] at hr
    cases hs : step cfg st e with
    | error err => rw [hs] at hr; cases hr
    | ok st1 =>
      rw [hs] at hr
      exact ih st1 st' (step_text_clean cfg st st1 e h hs) hr

/-- the plain text of whatever `render` returns has none of BS/VT/FF/CR: `Text(str(text))` is `text` -/
theorem render_plain_clean (cfg : Cfg) (m : List Char) (p : List Char) (sp : List Span)
    (h : render cfg m = .ok (p, sp)) : stripControl p = p := by
  unfold render at h
  split at h
  · simp only [Except.ok.injEq, Prod.mk.injEq] at h
    rw [← h.1]; exact chunkText_clean cfg m
  · cases hr : run cfg St.init (parse m) with
    | error e => rw [hr] at h; cases h
    | ok st =>
      rw [hr] at h
      simp only [Except.ok.injEq] at h
      have ht := finish_text cfg st
      rw [h] at ht
      simp only at ht
      rw [ht]
      exact run_text_clean cfg (parse m) St.init st rfl hr

theorem renderStr_plain_clean (cfg : Cfg) (con : ConsoleFlags) (emoji markup : Option Bool) (text p : List Char)
    (sp : List Span) (h : renderStr cfg con emoji markup text = .ok (p, sp)) : stripControl p = p := by
  by_cases hm : triFlag markup con.markup = true
  · simp only [renderStr, hm, if_true] at h
    exact render_plain_clean _ _ _ _ h
  · simp only [renderStr, hm, Bool.false_eq_true, if_false, Except.ok.injEq, Prod.mk.injEq] at h
    rw [← h.1]; exact chunkText_clean _ _

/-- covering spans of a concatenated span list: those of the first part, then those of the second -/
theorem effStyles_append (a b : List Span) (p : Nat) : effStyles (a ++ b) p = effStyles a p ++ effStyles b p := by
  simp [effStyles, List.filter_append, List.map_append]

/-- `render_str` with a highlighter, in one equation: same failure, same plain text, the
highlighter's spans (computed on that plain text) in FRONT of the spans of the markup. -/
theorem renderStrH_eq (cfg : Cfg) (con : ConsoleH) (emoji markup highlight : Option Bool)
    (hl : Option Highlighter) (text : List Char) :
    renderStrH cfg con emoji markup highlight hl text =
      match renderStr cfg con.flags emoji markup text with
      | .error e => .error e
      | .ok (plain, spans) =>
        .ok (plain, (if triFlag highlight con.highlight then (hl.getD con.highlighter) plain else []) ++ spans) := by
  unfold renderStrH
  cases hr : renderStr cfg con.flags emoji markup text with
  | error e => rfl
  | ok r =>
    obtain ⟨plain, spans⟩ := r
    have hc := renderStr_plain_clean cfg con.flags emoji markup text plain spans hr
    by_cases hh : triFlag highlight con.highlight = true
    · simp only [hh, if_true, hc]
    · simp only [hh, Bool.false_eq_true, if_false, List.nil_append]

/-- no highlighter in effect (disabled, or the null highlighter): `render_str` as without one -/
theorem renderStrH_off (cfg : Cfg) (con : ConsoleH) (emoji markup highlight : Option Bool)
    (hl : Option Highlighter) (text : List Char)
    (h : triFlag highlight con.highlight = false ∨ hl = some nullHighlighter) :
    renderStrH cfg con emoji markup highlight hl text = renderStr cfg con.flags emoji markup text := by
  rw [renderStrH_eq]
  cases hr : renderStr cfg con.flags emoji markup text with
  | error e => rfl
  | ok r =>
    obtain ⟨plain, spans⟩ := r
    rcases h with h | h
    · simp [h]
    · subst h
      simp [nullHighlighter]

end RichModel.Markup
