import RichModel.Model.FramesStyled
import RichModel.Lemmas.FramesRect
/-!
Lemmas for the styled layer (`Model/FramesStyled.lean`): the line structure of `Padding`, `Panel`, `Align`
and `VerticalCenter` with the style every added cell carries.
-/
namespace RichModel.Frames
open RichModel
variable {σ : Type}

/-! ### frame-made styled segments -/

@[simp] theorem lineLength_segS (cw : Char → Nat) (st : Option σ) (t : List Char) :
    lineLength cw ([segS st t] : List (Segment σ)) = cellLen cw t := by
  simp [lineLength, segS, Segment.cellLength]

theorem nlFree_segS (st : Option σ) (t : List Char) (h : ∀ c ∈ t, c ≠ '\n') : NlFree ([segS st t] : List (Segment σ)) := by
  intro s hs
  simp only [List.mem_singleton] at hs
  subst hs
  have : (t.contains '\n') = false := (contains_nl_false_iff t).mpr h
  simp only [segS, this, Bool.false_and]

theorem step_text_nlS (st : Option σ) (t : List Char) (h : ∀ c ∈ t, c ≠ '\n') (cur : List (Segment σ))
    (acc : List (List (Segment σ))) :
    splitLinesStep (cur, acc) (segS st (t ++ ['\n']) : Segment σ) =
      ([], (if t.isEmpty then cur else cur ++ [segS st t]) :: acc) := by
  unfold splitLinesStep
  have hc : ((segS st (t ++ ['\n']) : Segment σ).text.contains '\n' && !(segS st (t ++ ['\n']) : Segment σ).control) = true := by
    simp [segS]
  rw [if_pos hc]
  have hp : nlPieces (segS st (t ++ ['\n']) : Segment σ).text [] = [(t, true)] := by
    have := nlPieces_prefix t [] [] h
    simpa [segS, nlPieces] using this
  rw [hp]
  simp [segS]

theorem terminated_text_nlS (st : Option σ) (t : List Char) (h : ∀ c ∈ t, c ≠ '\n') :
    Terminated ([segS st (t ++ ['\n'])] : List (Segment σ)) (if t.isEmpty then [] else [segS st t]) := by
  intro acc
  simp only [List.foldl_cons, List.foldl_nil]
  rw [step_text_nlS st t h]
  split <;> simp

/-! ### `render_lines` with a style -/

theorem renderLinesS_nlFree (cw : Char → Nat) (hsp : cw ' ' = 1) (h2 : ∀ c, cw c ≤ 2) (A : SOps σ) (sv : SVariant)
    (rendered : List (Segment σ)) (w : Int) (style : Option σ) (pad : Bool) :
    ∀ l ∈ renderLinesS cw A sv rendered w style pad, NlFree l := by
  intro l hl
  unfold renderLinesS at hl
  rw [splitAndCrop_eq_tagged] at hl
  simp only [Bool.and_false, Bool.false_eq_true, if_false, List.append_nil, List.mem_map] at hl
  obtain ⟨p, hp, rfl⟩ := hl
  apply adjust_nlFree cw hsp h2
  apply splitLines_nlFree (applyStyle A style rendered)
  rw [splitLines_eq_tagged]
  exact List.mem_map_of_mem hp

theorem renderLinesS_exact (cw : Char → Nat) (hsp : cw ' ' = 1) (h2 : ∀ c, cw c ≤ 2) (A : SOps σ) (sv : SVariant)
    (rendered : List (Segment σ)) (w : Int) (style : Option σ) :
    ∀ l ∈ renderLinesS cw A sv rendered w style true, lineLength cw l = w.toNat := by
  intro l hl
  unfold renderLinesS at hl
  rw [splitAndCrop_eq_tagged] at hl
  simp only [Bool.and_false, Bool.false_eq_true, if_false, List.append_nil, List.mem_map] at hl
  obtain ⟨p, _, rfl⟩ := hl
  exact adjust_exact cw hsp h2 p.1 w.toNat _ true (Or.inl rfl)

theorem renderLinesS_le (cw : Char → Nat) (hsp : cw ' ' = 1) (h2 : ∀ c, cw c ≤ 2) (A : SOps σ) (sv : SVariant)
    (rendered : List (Segment σ)) (w : Int) (style : Option σ) (pad : Bool) :
    ∀ l ∈ renderLinesS cw A sv rendered w style pad, lineLength cw l ≤ w.toNat := by
  intro l hl
  unfold renderLinesS at hl
  rw [splitAndCrop_eq_tagged] at hl
  simp only [Bool.and_false, Bool.false_eq_true, if_false, List.append_nil, List.mem_map] at hl
  obtain ⟨p, _, rfl⟩ := hl
  by_cases hle : w.toNat ≤ lineLength cw p.1
  · exact Nat.le_of_eq (adjust_exact cw hsp h2 p.1 w.toNat _ pad (Or.inr hle))
  · cases pad with
    | true => exact Nat.le_of_eq (adjust_exact cw hsp h2 p.1 w.toNat _ true (Or.inl rfl))
    | false =>
      have : ∀ st : Option σ, adjustLineLength cw p.1 w.toNat st false = p.1 := by
        intro st
        unfold adjustLineLength
        simp only
        have hlt : lineLength cw p.1 < w.toNat := by omega
        simp [hlt]
      rw [this]; omega

/-- the lines `render_lines(style=s, pad=True)` yields are the child's own (restyled) lines followed by blanks
only, and those blanks carry the style handed to `split_and_crop_lines`: `None` in rich as found, `s` repaired -/
theorem renderLinesS_pad_style (cw : Char → Nat) (A : SOps σ) (sv : SVariant) (rendered : List (Segment σ)) (w : Int)
    (style : Option σ) :
    renderLinesS cw A sv rendered w style true =
      (splitLinesTagged (applyStyle A style rendered)).map (fun p =>
        adjustLineLength cw p.1 w.toNat (if sv.linesPadUnstyled then none else style) true) := by
  unfold renderLinesS
  rw [splitAndCrop_eq_tagged]
  simp

/-! ### what `apply_style` does to one segment -/

theorem applyStyle_mem (A : SOps σ) (s : σ) (segs : List (Segment σ)) (g : Segment σ) (h : g ∈ applyStyle A (some s) segs) :
    ∃ g0 ∈ segs, g.text = g0.text ∧ g.control = g0.control ∧
      g.style = (if g0.control then none else some (A.addO s g0.style)) := by
  simp only [applyStyle, List.mem_map] at h
  obtain ⟨g0, h0, rfl⟩ := h
  exact ⟨g0, h0, rfl, rfl, rfl⟩

theorem applyStyle_stream_chars (A : SOps σ) (style : Option σ) (segs : List (Segment σ)) :
    (stream (applyStyle A style segs)).map (fun x => (x.1, x.2.2)) = (stream segs).map (fun x => (x.1, x.2.2)) := by
  cases style with
  | none => rfl
  | some s =>
    induction segs with
    | nil => rfl
    | cons g rest ih =>
      simp only [applyStyle, List.map_cons, stream_cons, List.map_append, List.map_map] at ih ⊢
      rw [ih]
      simp [Function.comp_def]

/-! ## Padding -/

def blankLineS (st : Option σ) (n : Int) : List (Segment σ) := if (rep n ' ').isEmpty then [] else [segS st (rep n ' ')]

def padLeftSegsS (s : σ) (p : PadDims) : List (Segment σ) := if p.left != 0 then [segS (some s) (rep p.left ' ')] else []
def padRightSegsS (s : σ) (p : PadDims) : List (Segment σ) := if p.right != 0 then [segS (some s) (rep p.right ' ')] else []

/-- the lines `Padding(child, pad, style=s)` draws -/
def paddingLinesS (cw : Char → Nat) (A : SOps σ) (sv : SVariant) (s : σ) (p : PadDims) (expand : Bool) (c : Child σ) (w : Int) :
    List (List (Segment σ)) :=
  let width := paddingWidth sv.base p expand c w
  let childW := paddingChildWidth sv.base p expand c w
  List.replicate p.top (blankLineS (some s) width)
    ++ (c.linesAtS cw A sv childW (some s) false).map (fun l =>
          padLeftSegsS s p ++ adjustLineLength cw l childW.toNat (some s) ++ padRightSegsS s p)
    ++ List.replicate p.bottom (blankLineS (some s) width)

theorem paddingConsoleS_lines (cw : Char → Nat) (hsp : cw ' ' = 1) (h2 : ∀ c, cw c ≤ 2) (A : SOps σ) (sv : SVariant) (s : σ)
    (p : PadDims) (expand : Bool) (c : Child σ) (w : Int) :
    splitLines (paddingConsoleS cw A sv s p expand c w) = paddingLinesS cw A sv s p expand c w := by
  let width := paddingWidth sv.base p expand c w
  let childW := paddingChildWidth sv.base p expand c w
  let body := (c.linesAtS cw A sv childW (some s) false).map (fun l =>
    padLeftSegsS s p ++ adjustLineLength cw l childW.toNat (some s) ++ padRightSegsS s p)
  let cs : List (List (Segment σ) × List (Segment σ)) :=
    List.replicate p.top ([segS (some s) (rep width ' ' ++ ['\n'])], blankLineS (some s) width)
      ++ body.map (fun l => (l ++ [nl], l))
      ++ List.replicate p.bottom ([segS (some s) (rep width ' ' ++ ['\n'])], blankLineS (some s) width)
  have hshape : ∀ (lines : List (List (Segment σ))) (n : Nat),
      setShape cw lines n none (some s) = lines.map (fun l => adjustLineLength cw l n (some s)) := by
    intro lines n; simp [setShape]
  have hout : paddingConsoleS cw A sv s p expand c w = cs.flatMap (·.1) := by
    simp only [paddingConsoleS, cs, body, List.flatMap_append, flatMap_replicate_single, hshape,
      List.flatMap_map, List.map_map, Function.comp_def]
    rfl
  have hlines : cs.map (·.2) = paddingLinesS cw A sv s p expand c w := by
    simp only [cs, body, paddingLinesS, List.map_append, List.map_replicate, List.map_map, Function.comp_def]
    rfl
  rw [hout, ← hlines]
  apply splitLines_chunks
  intro q hq
  simp only [cs, List.mem_append, List.mem_replicate, List.mem_map] at hq
  have hblank : Terminated ([segS (some s) (rep width ' ' ++ ['\n'])] : List (Segment σ)) (blankLineS (some s) width) :=
    terminated_text_nlS _ _ (rep_no_nl _)
  have hL : NlFree (padLeftSegsS s p : List (Segment σ)) := by
    unfold padLeftSegsS; split
    · exact nlFree_segS _ _ (rep_no_nl _)
    · exact NlFree.nil
  have hR : NlFree (padRightSegsS s p : List (Segment σ)) := by
    unfold padRightSegsS; split
    · exact nlFree_segS _ _ (rep_no_nl _)
    · exact NlFree.nil
  rcases hq with (⟨_, rfl⟩ | ⟨l, hl, rfl⟩) | ⟨_, rfl⟩
  · exact hblank
  · apply terminated_line
    simp only [body, List.mem_map] at hl
    obtain ⟨l0, hl0, rfl⟩ := hl
    exact (hL.append (adjust_nlFree cw hsp h2 _ _ _ _ (renderLinesS_nlFree cw hsp h2 A sv _ _ _ _ l0 hl0))).append hR
  · exact hblank

theorem paddingLinesS_width (cw : Char → Nat) (hsp : cw ' ' = 1) (h2 : ∀ c, cw c ≤ 2) (A : SOps σ) (sv : SVariant) (s : σ)
    (p : PadDims) (expand : Bool) (c : Child σ) (w : Int) (hfit : (p.left : Int) + p.right ≤ paddingWidth sv.base p expand c w) :
    ∀ l ∈ paddingLinesS cw A sv s p expand c w, lineLength cw l = (paddingWidth sv.base p expand c w).toNat := by
  intro l hl
  simp only [paddingLinesS, List.mem_append, List.mem_replicate, List.mem_map] at hl
  have hb : lineLength cw (blankLineS (some s) (paddingWidth sv.base p expand c w) : List (Segment σ))
      = (paddingWidth sv.base p expand c w).toNat := by
    unfold blankLineS
    split
    · rename_i h
      have hh : rep (paddingWidth sv.base p expand c w) ' ' = [] := List.isEmpty_iff.mp h
      have : (rep (paddingWidth sv.base p expand c w) ' ').length = 0 := by rw [hh]; rfl
      rw [rep_length] at this
      simp [this]
    · rw [lineLength_segS, cellLen_rep cw _ ' ' hsp]
  have hl' : lineLength cw (padLeftSegsS s p : List (Segment σ)) = p.left := by
    unfold padLeftSegsS; split
    · rw [lineLength_segS, cellLen_rep cw _ ' ' hsp]; simp
    · rename_i h; simp at h; simp [h]
  have hr' : lineLength cw (padRightSegsS s p : List (Segment σ)) = p.right := by
    unfold padRightSegsS; split
    · rw [lineLength_segS, cellLen_rep cw _ ' ' hsp]; simp
    · rename_i h; simp at h; simp [h]
  rcases hl with (⟨_, rfl⟩ | ⟨l0, _, rfl⟩) | ⟨_, rfl⟩
  · exact hb
  · rw [lineLength_append, lineLength_append, hl', hr', adjust_exact cw hsp h2 l0 _ _ true (Or.inl rfl)]
    unfold paddingChildWidth
    omega
  · exact hb

/-! ## Panel -/

def panelTopLineS (A : SOps σ) (env : Env) (sv : SVariant) (s b : σ) (title : Option (TitleO σ)) (box : Box) (cwid : Int) :
    Option (List (Segment σ)) :=
  match title with
  | none => some [segS (some (A.add s b)) (boxTop box cwid)]
  | some t =>
    match t.render (A.add s b) (cwid - 2) box.top (if sv.titleAtConsoleWidth then (env.consoleWidth : Int) else cwid - 2) with
    | none => none
    | some ts => some ([segS (some (A.add s b)) [box.topLeft, box.top]] ++ ts ++ [segS (some (A.add s b)) [box.top, box.topRight]])

/-- a title oracle is well behaved: whatever it renders is free of line feeds -/
def TitleO.NlFreeO (t : TitleO σ) : Prop := ∀ st n ch rw ts, t.render st n ch rw = some ts → NlFree ts

theorem panelConsoleS_lines (cw : Char → Nat) (hsp : cw ' ' = 1) (h2 : ∀ c, cw c ≤ 2) (A : SOps σ) (env : Env) (sv : SVariant)
    (o : PanelOpts) (s b : σ) (title : Option (TitleO σ)) (c : Child σ) (w : Int) (p : PadDims) (box : Box)
    (out : List (Segment σ)) (hp : unpackPad o.padding = .ok p)
    (hb : boxAt (substituteBox env (o.safeBox.getD env.safeBox) o.box) = some box) (hnn : box.NoNl)
    (ht : ∀ t, title = some t → t.NlFreeO)
    (h : panelConsoleS cw A env sv o s b title c w = .ok (some out)) :
    let cwid := panelChildWidthS sv o title (panelInnerS cw A sv p c) w
    ∃ top, panelTopLineS A env sv s b title box cwid = some top ∧
      splitLines out = [top]
        ++ ((panelInnerS cw A sv p c).linesAtS cw A sv cwid (some s) true).map
            (fun l => [segS (some (A.add s b)) [box.midLeft]] ++ l ++ [segS (some (A.add s b)) [box.midRight]])
        ++ [[segS (some (A.add s b)) (boxBottom box cwid)]] := by
  dsimp only
  unfold panelConsoleS at h
  simp only [hp, hb] at h
  generalize panelChildWidthS sv o title (panelInnerS cw A sv p c) w = cwid at h ⊢
  have e1 : cwid + 2 - 2 = cwid := by omega
  have e2 : cwid + 2 - 4 = cwid - 2 := by omega
  simp only [e1, e2] at h
  obtain ⟨hn1, hn2, hn3, hn4, hn5, hn6, hn7, hn8⟩ := hnn
  have hmid1 : NlFree ([segS (some (A.add s b)) [box.midLeft]] : List (Segment σ)) := by
    apply nlFree_segS; intro d hd; simp only [List.mem_singleton] at hd; rw [hd]; exact hn4
  have hmid2 : NlFree ([segS (some (A.add s b)) [box.midRight]] : List (Segment σ)) := by
    apply nlFree_segS; intro d hd; simp only [List.mem_singleton] at hd; rw [hd]; exact hn5
  have hbot : NlFree ([segS (some (A.add s b)) (boxBottom box cwid)] : List (Segment σ)) := by
    apply nlFree_segS
    intro d hd
    simp only [boxBottom, rep, List.mem_append, List.mem_singleton, List.mem_replicate] at hd
    rcases hd with (rfl | ⟨_, rfl⟩) | rfl
    · exact hn6
    · exact hn7
    · exact hn8
  have key : ∀ top : List (Segment σ), NlFree top →
      splitLines (top ++ [nl]
        ++ ((panelInnerS cw A sv p c).linesAtS cw A sv cwid (some s) true).flatMap
            (fun l => [segS (some (A.add s b)) [box.midLeft]] ++ l ++ [segS (some (A.add s b)) [box.midRight]] ++ [nl])
        ++ [segS (some (A.add s b)) (boxBottom box cwid), nl])
      = [top] ++ ((panelInnerS cw A sv p c).linesAtS cw A sv cwid (some s) true).map
            (fun l => [segS (some (A.add s b)) [box.midLeft]] ++ l ++ [segS (some (A.add s b)) [box.midRight]])
        ++ [[segS (some (A.add s b)) (boxBottom box cwid)]] := by
    intro top htop
    exact splitLines_framed top [segS (some (A.add s b)) (boxBottom box cwid)] _ _ _ htop hbot hmid1 hmid2
      (renderLinesS_nlFree cw hsp h2 A sv _ _ _ _)
  unfold panelTopLineS
  cases title with
  | none =>
    simp only at h
    refine ⟨_, rfl, ?_⟩
    have hout : out = _ := (Option.some.inj (Except.ok.inj h)).symm
    rw [hout]
    apply key
    apply nlFree_segS
    intro d hd
    simp only [boxTop, rep, List.mem_append, List.mem_singleton, List.mem_replicate] at hd
    rcases hd with (rfl | ⟨_, rfl⟩) | rfl
    · exact hn1
    · exact hn2
    · exact hn3
  | some t =>
    simp only at h
    cases hts : t.render (A.add s b) (cwid - 2) box.top
        (if sv.titleAtConsoleWidth = true then (env.consoleWidth : Int) else cwid - 2) with
    | none => simp [hts] at h
    | some ts =>
      simp only [hts] at h
      refine ⟨[segS (some (A.add s b)) [box.topLeft, box.top]] ++ ts ++ [segS (some (A.add s b)) [box.top, box.topRight]],
        by simp only [hts], ?_⟩
      have hout : out = _ := (Option.some.inj (Except.ok.inj h)).symm
      rw [hout]
      apply key
      refine ((nlFree_segS _ _ ?_).append (ht t rfl _ _ _ _ ts hts)).append (nlFree_segS _ _ ?_)
      · intro d hd
        simp only [List.mem_cons, List.not_mem_nil, or_false] at hd
        rcases hd with rfl | rfl
        · exact hn1
        · exact hn2
      · intro d hd
        simp only [List.mem_cons, List.not_mem_nil, or_false] at hd
        rcases hd with rfl | rfl
        · exact hn2
        · exact hn3

/-- the simple titles are well behaved -/
theorem simpleTitle_nlFree (cw : Char → Nat) (v : Variant) (title : List Char) (a : AlignM) (t : TitleO σ)
    (h : simpleTitle cw v title a = some t) : t.NlFreeO := by
  unfold simpleTitle at h
  cases hT : panelTitle title with
  | none => simp [hT] at h
  | some t0 =>
    simp only [hT, Option.some.injEq] at h
    subst h
    intro st n ch rw ts hts
    simp only at hts
    split at hts
    · simp only [Option.some.injEq] at hts; subst hts; exact NlFree.nil
    cases hx : textConsoleSimple (σ := σ) cw v (textAlign cw t0 a n ch) [] rw with
    | none => simp [hx] at hts
    | some ts0 =>
      simp only [hx, Option.some.injEq] at hts
      subst hts
      have := textConsoleSimple_nlFree cw v _ _ ts0 hx
      intro g hg
      simp only [List.mem_map] at hg
      obtain ⟨g0, hg0, rfl⟩ := hg
      exact this g0 hg0

/-! ## Align -/

theorem applyStyle_nlFree (A : SOps σ) (st : Option σ) (l : List (Segment σ)) (h : NlFree l) : NlFree (applyStyle A st l) := by
  cases st with
  | none => exact h
  | some s =>
    intro g hg
    obtain ⟨g0, hg0, ht, hc, _⟩ := applyStyle_mem A s l g hg
    rw [ht, hc]; exact h g0 hg0

theorem applyStyle_append (A : SOps σ) (st : Option σ) (a b : List (Segment σ)) :
    applyStyle A st (a ++ b) = applyStyle A st a ++ applyStyle A st b := by
  cases st <;> simp [applyStyle]

/-- `split_lines` of restyled `line + Segment.line()` chunks gives the restyled lines -/
theorem splitLines_applyStyle_lines (A : SOps σ) (st : Option σ) (ls : List (List (Segment σ))) (h : ∀ l ∈ ls, NlFree l) :
    splitLines (applyStyle A st (ls.flatMap (fun l => l ++ [nl]))) = ls.map (applyStyle A st) := by
  cases st with
  | none =>
    have : ls.map (applyStyle A none) = ls := by
      have : (applyStyle A none : List (Segment σ) → List (Segment σ)) = id := by funext x; rfl
      rw [this, List.map_id]
    rw [this]; exact splitLines_lines ls h
  | some s =>
    have hnl : applyStyle A (some s) ([nl] : List (Segment σ)) = [segS (some (A.addO s none)) ([] ++ ['\n'])] := by
      simp [applyStyle, nl, seg, segS]
    have hflat : applyStyle A (some s) (ls.flatMap (fun l => l ++ [nl]))
        = (ls.map (fun l => (applyStyle A (some s) l ++ [segS (some (A.addO s none)) ([] ++ ['\n'])], applyStyle A (some s) l))).flatMap (·.1) := by
      induction ls with
      | nil => rfl
      | cons l rest ih =>
        have ih' := ih (fun x hx => h x (by simp [hx]))
        simp only [List.flatMap_cons, List.map_cons, applyStyle_append, hnl] at ih' ⊢
        rw [ih']
    rw [hflat]
    have := splitLines_chunks ((ls.map (fun l => (applyStyle A (some s) l ++ [segS (some (A.addO s none)) ([] ++ ['\n'])], applyStyle A (some s) l)))) (by
      intro q hq
      simp only [List.mem_map] at hq
      obtain ⟨l, hl, rfl⟩ := hq
      intro acc
      rw [List.foldl_append, foldl_step_nlFree _ [] acc (applyStyle_nlFree A _ l (h l hl))]
      simp only [List.foldl_cons, List.foldl_nil, List.nil_append]
      have := step_text_nlS (some (A.addO s none)) [] (by simp) (applyStyle A (some s) l) acc
      simp only [List.nil_append, List.isEmpty_nil, if_true] at this
      exact this)
    simpa [List.map_map, Function.comp_def] using this

def alignPadsS (o : AlignOpts) (style : Option σ) (excess : Int) : List (Segment σ) × List (Segment σ) :=
  if excess ≤ 0 then ([], [])
  else match o.align with
    | .left => ([], if o.pad then [segS style (rep excess ' ')] else [])
    | .center => (if excess / 2 != 0 then [segS style (rep (excess / 2) ' ')] else [],
                  if o.pad then [segS style (rep (excess - excess / 2) ' ')] else [])
    | .right => ([segS style (rep excess ' ')], [])

/-- the lines `Align(child, align, style=…)` draws: the pads in the requested style around the child's own
lines, the whole then restyled by `apply_style(style)` -/
def alignLinesS (cw : Char → Nat) (A : SOps σ) (env : Env) (sv : SVariant) (o : AlignOpts) (style : Option σ) (c : Child σ) (w : Int) :
    List (List (Segment σ)) :=
  let L := alignChildLines env sv.base o c w
  let sw := shapeWidth cw L
  let pads : List (Segment σ) × List (Segment σ) := alignPadsS o style (w - sw)
  ((L.map (fun l => adjustLineLength cw l sw none)).map (fun l => pads.1 ++ l ++ pads.2)).map (applyStyle A style)

theorem alignConsoleS_unfold (cw : Char → Nat) (A : SOps σ) (env : Env) (sv : SVariant) (o : AlignOpts) (style : Option σ)
    (c : Child σ) (w : Int) :
    alignConsoleS cw A env sv o style c w =
      applyStyle A style
      (let L := alignChildLines env sv.base o c w
       let sw := shapeWidth cw L
       let lines := setShape cw L sw (some L.length) none
       let excess : Int := w - sw
       if excess ≤ 0 then lines.flatMap (fun l => l ++ [nl])
       else match o.align with
         | .left =>
           let pad : List (Segment σ) := if o.pad then [segS style (rep excess ' ')] else []
           lines.flatMap (fun l => l ++ pad ++ [nl])
         | .center =>
           let left := excess / 2
           let padL : List (Segment σ) := if left != 0 then [segS style (rep left ' ')] else []
           let padR : List (Segment σ) := if o.pad then [segS style (rep (excess - left) ' ')] else []
           lines.flatMap (fun l => padL ++ l ++ padR ++ [nl])
         | .right =>
           lines.flatMap (fun l => [segS style (rep excess ' ')] ++ l ++ [nl])) := rfl

theorem flatMap_nl_map (f : List (Segment σ) → List (Segment σ)) (L : List (List (Segment σ))) :
    L.flatMap (fun l => f l ++ [nl]) = (L.map f).flatMap (fun l => l ++ [nl]) := by
  simp [List.flatMap_map]

theorem alignConsoleS_lines (cw : Char → Nat) (hsp : cw ' ' = 1) (h2 : ∀ c, cw c ≤ 2) (A : SOps σ) (env : Env) (sv : SVariant)
    (o : AlignOpts) (style : Option σ) (c : Child σ) (w : Int) :
    splitLines (alignConsoleS cw A env sv o style c w) = alignLinesS cw A env sv o style c w := by
  rw [alignConsoleS_unfold]
  unfold alignLinesS
  simp only [setShape_len]
  have hL' : ∀ l ∈ (alignChildLines env sv.base o c w).map
      (fun l => adjustLineLength cw l (shapeWidth cw (alignChildLines env sv.base o c w)) none), NlFree l := by
    intro l hl
    simp only [List.mem_map] at hl
    obtain ⟨l0, hl0, rfl⟩ := hl
    exact adjust_nlFree cw hsp h2 _ _ _ _ (splitLines_nlFree _ l0 hl0)
  generalize (alignChildLines env sv.base o c w).map
      (fun l => adjustLineLength cw l (shapeWidth cw (alignChildLines env sv.base o c w)) none) = L' at hL' ⊢
  generalize (w - (shapeWidth cw (alignChildLines env sv.base o c w) : Int)) = e
  have hsegs : ∀ n : Int, NlFree ([segS style (rep n ' ')] : List (Segment σ)) := fun n => nlFree_segS _ _ (rep_no_nl _)
  unfold alignPadsS
  by_cases he : e ≤ 0
  · simp only [he, if_true, List.nil_append, List.append_nil]
    have := splitLines_applyStyle_lines A style (L'.map (fun l => l)) (by simpa using hL')
    simpa using this
  · simp only [he, if_false]
    cases o.align <;> simp only
    · cases o.pad <;> simp only [Bool.false_eq_true, if_false, if_true, List.nil_append, List.append_nil]
      · have := splitLines_applyStyle_lines A style (L'.map (fun l => l)) (by simpa using hL')
        simpa using this
      · rw [flatMap_nl_map (fun l => l ++ [segS style (rep e ' ')])]
        exact splitLines_applyStyle_lines A style _ (by
          intro l hl
          simp only [List.mem_map] at hl
          obtain ⟨l0, hl0, rfl⟩ := hl
          exact (hL' l0 hl0).append (hsegs _))
    · rw [flatMap_nl_map (fun l => (if (e / 2 != 0) = true then [segS style (rep (e / 2) ' ')] else []) ++ l ++
          (if o.pad = true then [segS style (rep (e - e / 2) ' ')] else []))]
      exact splitLines_applyStyle_lines A style _ (by
        intro l hl
        simp only [List.mem_map] at hl
        obtain ⟨l0, hl0, rfl⟩ := hl
        refine (NlFree.append ?_ (hL' l0 hl0)).append ?_
        · split
          · exact hsegs _
          · exact NlFree.nil
        · split
          · exact hsegs _
          · exact NlFree.nil)
    · simp only [List.append_nil]
      rw [flatMap_nl_map (fun l => [segS style (rep e ' ')] ++ l)]
      exact splitLines_applyStyle_lines A style _ (by
        intro l hl
        simp only [List.mem_map] at hl
        obtain ⟨l0, hl0, rfl⟩ := hl
        exact (hsegs _).append (hL' l0 hl0))

/-! ## VerticalCenter -/

theorem flatten_replicate_pair {α : Type} (n : Nat) (a : List α) :
    (List.replicate n a).flatten = (List.replicate n a).flatMap id := by
  simp [List.flatMap_id]

/-- the lines `VerticalCenter` draws: blank lines of the child's shape width (in the requested style), the
child's own lines, blank lines — `console.height` lines in all unless the child is taller -/
def verticalCenterLinesS (cw : Char → Nat) (height : Int) (style : Option σ) (c : Child σ) (w : Int) :
    List (List (Segment σ)) :=
  let lines := c.linesAt cw w false
  let width := shapeWidth cw lines
  let topSpace : Int := (height - lines.length) / 2
  let bottomSpace : Int := height - topSpace - lines.length
  List.replicate topSpace.toNat [segS style (rep width ' ')] ++ lines ++ List.replicate bottomSpace.toNat [segS style (rep width ' ')]

theorem verticalCenterConsoleS_lines (cw : Char → Nat) (hsp : cw ' ' = 1) (h2 : ∀ c, cw c ≤ 2) (height : Int)
    (style : Option σ) (c : Child σ) (w : Int) :
    splitLines (verticalCenterConsoleS cw height style c w) = verticalCenterLinesS cw height style c w := by
  have hflat : ∀ (n : Nat) (x : Segment σ), (List.replicate n [x, nl]).flatten
      = (List.replicate n [x]).flatMap (fun l => l ++ [nl]) := by
    intro n x
    induction n with
    | zero => rfl
    | succ n ih => simp [List.replicate_succ, ih]
  have hout : verticalCenterConsoleS cw height style c w
      = (verticalCenterLinesS cw height style c w).flatMap (fun l => l ++ [nl]) := by
    unfold verticalCenterConsoleS verticalCenterLinesS
    simp only [List.flatMap_append, hflat]
    congr 1
    · congr 1
      split
      · rfl
      · rename_i h
        have : ((height - ((c.linesAt cw w false).length : Int)) / 2).toNat = 0 := by omega
        rw [this]; rfl
    · split
      · rfl
      · rename_i h
        have : (height - (height - ((c.linesAt cw w false).length : Int)) / 2 - ((c.linesAt cw w false).length : Int)).toNat = 0 := by omega
        rw [this]; rfl
  rw [hout]
  apply splitLines_lines
  intro l hl
  simp only [verticalCenterLinesS, List.mem_append, List.mem_replicate] at hl
  rcases hl with (⟨_, rfl⟩ | hl) | ⟨_, rfl⟩
  · exact nlFree_segS _ _ (rep_no_nl _)
  · exact linesAt_nlFree cw hsp h2 c w false l hl
  · exact nlFree_segS _ _ (rep_no_nl _)

end RichModel.Frames
