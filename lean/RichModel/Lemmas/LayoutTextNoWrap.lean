import RichModel.Lemmas.LayoutText
import RichModel.Lemmas.LayoutSplit
import RichModel.Lemmas.WrapSplit
import RichModel.Lemmas.WrapStages
/-!
The sibling of `text_fits` (Lemmas/LayoutText.lean) for a text that is NOT wrapped (`no_wrap`, or overflow "ignore" — the
overflow ARGUMENT `Text.__rich_console__` hands to `Text.wrap` is the effective one, and `Text.wrap` treats the argument
"ignore" as `no_wrap`): when every paragraph of the text fits the width, so does every emitted line, whatever the justify
mode and the overflow mode ("ignore" included: nothing is cut there, nothing needs to be).

Nothing is assumed about the code variants (`cfg.wv`) nor about the consistency of the text (`Text.Inv`): the first part
derives what `Text.split("\n", allow_blank=True)` does to the CHARACTERS for every variant of `divide` (the variants differ in
the spans only).  Auxiliary facts are prefixed `nw_`.
-/
namespace RichModel.Layout
open RichModel RichModel.Frames RichModel.Text RichModel.Wrap

/-! ### cell length of parts of a string -/

theorem nw_cellLen_take (cw : Char → Nat) (s : List Char) (n : Nat) : cellLen cw (s.take n) ≤ cellLen cw s := by
  have := cellLen_append cw (s.take n) (s.drop n)
  rw [List.take_append_drop] at this
  omega

theorem nw_cellLen_filter (cw : Char → Nat) (f : Char → Bool) : ∀ s : List Char, cellLen cw (s.filter f) ≤ cellLen cw s
  | [] => Nat.le_refl _
  | c :: s => by
    have ih := nw_cellLen_filter cw f s
    rw [List.filter_cons]
    split
    · rw [txt_cellLen_cons, txt_cellLen_cons]; omega
    · rw [txt_cellLen_cons]; omega

theorem nw_cellLen_strip (cw : Char → Nat) (s : List Char) : cellLen cw (stripControl s) ≤ cellLen cw s :=
  nw_cellLen_filter cw _ s

/-- a run without separator is read into the accumulator -/
theorem nw_splitOnP_run (f : Char → Bool) (b : List Char) : ∀ (p cur : List Char), (∀ c ∈ p, f c = false) →
    splitOnP f (p ++ b) cur = splitOnP f b (p.reverse ++ cur)
  | [], cur, _ => rfl
  | c :: p, cur, h => by
    have hc : f c = false := h c (by simp)
    simp only [List.cons_append, splitOnP, hc, Bool.false_eq_true, if_false]
    rw [nw_splitOnP_run f b p (c :: cur) (fun x hx => h x (by simp [hx]))]
    simp

/-- a contiguous part of the string without separator lies inside one piece -/
theorem nw_infix_le (cw : Char → Nat) (f : Char → Bool) (p b : List Char) (hp : ∀ c ∈ p, f c = false) :
    ∀ (a cur : List Char), ∃ q ∈ splitOnP f (a ++ (p ++ b)) cur, cellLen cw p ≤ cellLen cw q
  | [], cur => by
    rw [List.nil_append, nw_splitOnP_run f b p cur hp]
    obtain ⟨x, hx, h⟩ := txt_splitOnP_head_ge cw f b (p.reverse ++ cur)
    rw [cellLen_append, txt_cellLen_reverse] at h
    exact ⟨x, hx, by omega⟩
  | c :: a, cur => by
    simp only [List.cons_append, splitOnP]
    split
    · obtain ⟨q, hq, h⟩ := nw_infix_le cw f p b hp a []
      exact ⟨q, List.mem_cons_of_mem _ hq, h⟩
    · exact nw_infix_le cw f p b hp a (c :: cur)

/-! ### the characters of the lines of `divide` / `split`, every variant -/

section
variable {σ : Type}

theorem nw_divLines_plain : ∀ (work : List (Text σ × Int × Int)) (todo : List (Nat × Span σ)),
    (divLines work todo).map (·.plain) = work.map (·.1.plain) := by
  intro work
  induction work with
  | nil => intro _; rfl
  | cons x rest ih =>
    intro todo
    obtain ⟨line, s, e⟩ := x
    simp only [divLines]
    split
    · simp [Function.comp_def]
    · generalize divLineLoop s e todo [] [] = r
      obtain ⟨a, b, c⟩ := r
      simp only [List.map_cons, ih]

theorem nw_divLinesOld_plain [BEq σ] : ∀ (work : List (Text σ × Int × Int)) (todo : List (Span σ))
    (ord : List (Span σ × Nat)) (r : List (Text σ)), divLinesOld work todo ord = some r →
    r.map (·.plain) = work.map (·.1.plain) := by
  intro work
  induction work with
  | nil => intro _ _ r h; simp only [divLinesOld] at h; cases h; rfl
  | cons x rest ih =>
    intro todo ord r h
    obtain ⟨line, s, e⟩ := x
    simp only [divLinesOld] at h
    split at h
    · cases h; simp [Function.comp_def]
    · split at h
      · cases h
      · split at h
        · cases h
        · split at h
          · cases h
          · rename_i tl htl
            cases h
            simp only [List.map_cons, ih _ _ _ htl]

theorem nw_rangesFrom_plain (l : List Char) : ∀ (offs : List Nat) (s : Nat),
    (rangesFrom s offs l.length).map (fun r => stripControl (Py.slice l r.1 r.2)) = (piecesFrom s offs l).map stripControl
  | [], s => by
    simp only [rangesFrom, piecesFrom, List.map_cons, List.map_nil, slice_nat]
    rw [List.take_of_length_le (by simp)]
  | o :: os, s => by
    simp only [rangesFrom, piecesFrom, List.map_cons, slice_nat]
    rw [nw_rangesFrom_plain l os o]

theorem nw_newLines_plain (v : Variant) (t : Text σ) (ranges : List (Int × Int)) :
    (newLines v t ranges).map (·.plain) = ranges.map (fun r => stripControl (Py.slice t.plain r.1 r.2)) := by
  simp only [newLines, List.map_map]
  rfl

/-- `divide` cuts the characters at the offsets (and strips control codes), in every variant -/
theorem nw_divide_plain [BEq σ] (v : Variant) (t : Text σ) (offs : List Nat) (lines : List (Text σ))
    (h : t.divide v offs = .ok lines) : lines.map (·.plain) = (RichModel.pieces offs t.plain).map stripControl := by
  unfold divide at h
  have hwork : ((newLines v t (lineRanges offs t.plain.length)).zip (lineRanges offs t.plain.length)).map (·.1.plain)
      = (RichModel.pieces offs t.plain).map stripControl := by
    have : ((newLines v t (lineRanges offs t.plain.length)).zip (lineRanges offs t.plain.length)).map (·.1.plain)
        = (newLines v t (lineRanges offs t.plain.length)).map (·.plain) := by
      rw [show (fun x : Text σ × Int × Int => x.1.plain) = (fun x : Text σ => x.plain) ∘ Prod.fst from rfl,
        ← List.map_map, List.map_fst_zip]
      simp [newLines]
    rw [this, nw_newLines_plain, lineRanges_eq, nw_rangesFrom_plain]
    rfl
  split at h
  · rename_i he
    cases h
    have : offs = [] := List.isEmpty_iff.mp he
    subst this
    simp [RichModel.pieces, piecesFrom, copy, new]
  · simp only at h
    split at h
    · cases h
      rw [nw_newLines_plain, lineRanges_eq, nw_rangesFrom_plain]
      rfl
    · split at h
      · split at h
        · rename_i r hr
          cases h
          rw [nw_divLinesOld_plain _ _ _ _ hr, hwork]
        · cases h
      · cases h
        rw [nw_divLines_plain, hwork]

theorem nw_mem_piecesFrom_infix {α : Type} (l : List α) : ∀ (offs : List Nat) (s : Nat) (p : List α),
    p ∈ piecesFrom s offs l → ∃ a b, l = a ++ (p ++ b)
  | [], s, p, hp => by
    simp only [piecesFrom, List.mem_singleton] at hp
    subst hp
    exact ⟨l.take s, [], by simp⟩
  | o :: os, s, p, hp => by
    simp only [piecesFrom, List.mem_cons] at hp
    rcases hp with rfl | hp
    · exact ⟨l.take s, (l.drop s).drop (o - s), by rw [List.take_append_drop, List.take_append_drop]⟩
    · exact nw_mem_piecesFrom_infix l os o p hp

/-- `self.split(allow_blank=True)` in every variant: the characters of a paragraph are a contiguous part of the text without
line feed, less the control codes `Text.__init__` strips -/
theorem nw_split_plain [BEq σ] (v : Variant) (t : Text σ) (lines : List (Text σ))
    (h : t.split v ['\n'] false true = .ok lines) :
    ∀ l ∈ lines, ∃ a p b, t.plain = a ++ (p ++ b) ∧ (∀ c ∈ p, c ≠ '\n') ∧ l.plain = stripControl p := by
  unfold Text.split at h
  simp only [List.isEmpty_cons, Bool.false_eq_true, if_false, Bool.not_true, Bool.false_and] at h
  have hpn := pieces_newline t.plain [] 0 (by simp) (by simp)
  simp only [List.length_nil, List.nil_append] at hpn
  split at h
  · rename_i hempty
    cases h
    intro l hl
    simp only [List.mem_singleton] at hl
    subst hl
    have he : findAllAux ['\n'] t.plain 0 0 = [] := by simpa [findAll] using hempty
    rw [he] at hpn
    have := hpn t.plain (by simp [piecesFrom])
    refine ⟨[], t.plain, [], by simp, ?_, rfl⟩
    rcases this with h1 | h1
    · rw [h1] at he
      simp [findAllAux, List.isPrefixOf] at he
    · exact h1
  · obtain ⟨ls, hdiv, h⟩ := bind_ok.mp h
    obtain ⟨ls', h', h⟩ := bind_ok.mp h
    cases h
    cases h'
    have hpl := nw_divide_plain v t _ ls hdiv
    intro l hl
    obtain ⟨hl0, hne⟩ := List.mem_filter.mp hl
    have hmem : l.plain ∈ ls.map (·.plain) := List.mem_map_of_mem hl0
    rw [hpl] at hmem
    obtain ⟨p, hp, hlp⟩ := List.mem_map.mp hmem
    obtain ⟨a, b, hab⟩ := nw_mem_piecesFrom_infix _ _ _ _ hp
    refine ⟨a, p, b, hab, ?_, hlp.symm⟩
    rcases hpn p (by simpa [findAll, RichModel.pieces] using hp) with h1 | h1
    · exfalso
      rw [← hlp, h1] at hne
      revert hne
      decide
    · exact h1

end

/-! ### the stages of an unwrapped line under overflow "ignore" -/

section
variable {σ : Type}

theorem nw_rightCrop_le (cw : Char → Nat) (v : Variant) (t : Text σ) (k : Int) :
    cellLen cw (t.rightCrop v k).plain ≤ cellLen cw t.plain := by
  unfold rightCrop
  split <;> exact nw_cellLen_take cw _ _

/-- `rstrip_end` never lengthens -/
theorem nw_rstripEndW_le (chars : Bool) (cw : Char → Nat) (v : Variant) (t : Text σ) (size : Int) :
    cellLen cw (rstripEndW chars cw v t size).plain ≤ cellLen cw t.plain := by
  unfold rstripEndW
  simp only
  repeat' split
  all_goals first | exact nw_rightCrop_le cw v t _ | exact Nat.le_refl _

theorem nw_rstrip_le (cw : Char → Nat) (t : Text σ) : cellLen cw t.rstrip.plain ≤ cellLen cw t.plain := by
  unfold rstrip
  rw [setPlain_plain]
  exact cellLen_pyRstrip_le cw _

theorem nw_padCount (wv : WVariant) (n : Nat) : padCount wv (n : Int) = (n : Int) := by
  unfold padCount
  split
  · rfl
  · omega

/-- `Lines.justify` on the single line of an unwrapped paragraph, overflow "ignore": a line that fits still fits -/
theorem nw_justify_one [BEq σ] (wv : WVariant) (cw : Char → Nat) (hsp : cw ' ' = 1) (A : StyleAlg σ) (l : Text σ) (w : Nat)
    (j : Justify) (hl : cellLen cw l.plain ≤ w) (out : List (Text σ))
    (h : justifyLines wv cw A [l] w j Overflow.ignore = .ok out) : ∀ x ∈ out, cellLen cw x.plain ≤ w := by
  unfold justifyLines at h
  cases j with
  | default =>
    cases h
    intro x hx
    simp only [List.mem_singleton] at hx
    subst hx; exact hl
  | left =>
    cases h
    intro x hx
    simp only [List.map_cons, List.map_nil, List.mem_singleton, truncate_ignore] at hx
    subst hx; exact hl
  | center =>
    cases h
    intro x hx
    simp only [List.map_cons, List.map_nil, List.mem_singleton, truncate_ignore] at hx
    subst hx
    have hc := nw_rstrip_le cw l
    generalize hcdef : cellLen cw l.rstrip.plain = c at hc ⊢
    have h1 : ((w : Int) - (c : Int)) / 2 = (((w - c) / 2 : Nat) : Int) := by omega
    rw [h1, nw_padCount, padLeft_plain, cellLen_append, cellLen_replicate_space cw hsp, hcdef]
    have h2 : (w : Int) - (((w - c) / 2 + c : Nat) : Int) = ((w - ((w - c) / 2 + c) : Nat) : Int) := by omega
    rw [h2, padRight_plain, cellLen_append, padLeft_plain, cellLen_append, cellLen_replicate_space cw hsp,
      cellLen_replicate_space cw hsp, hcdef]
    omega
  | right =>
    cases h
    intro x hx
    simp only [List.map_cons, List.map_nil, List.mem_singleton, truncate_ignore] at hx
    subst hx
    have hc := nw_rstrip_le cw l
    generalize hcdef : cellLen cw l.rstrip.plain = c at hc ⊢
    have h1 : (w : Int) - (c : Int) = ((w - c : Nat) : Int) := by omega
    rw [h1, nw_padCount, padLeft_plain, cellLen_append, cellLen_replicate_space cw hsp, hcdef]
    omega
  | full =>
    simp only [justifyFull] at h
    cases h
    intro x hx
    simp only [List.mem_singleton] at hx
    subst hx; exact hl

/-- the body of the paragraph loop of `Text.wrap` with `no_wrap`, overflow "ignore" -/
theorem nw_wrapLine_fit [BEq σ] (wv : WVariant) (cw : Char → Nat) (hsp : cw ' ' = 1) (A : StyleAlg σ) (line : Text σ) (w : Nat)
    (j : Justify) (hl : cellLen cw line.plain ≤ w) (ls : List (Text σ))
    (h : wrapLine wv cw A line w j Overflow.ignore true = .ok ls) : ∀ x ∈ ls, cellLen cw x.plain ≤ w := by
  unfold wrapLine at h
  simp only [if_true] at h
  obtain ⟨nl, hnl, h⟩ := bind_ok.mp h
  cases hnl
  obtain ⟨jl, hjl, h⟩ := bind_ok.mp h
  cases h
  simp only [List.map_cons, List.map_nil] at hjl
  have := nw_justify_one wv cw hsp A _ w j
    (Nat.le_trans (nw_rstripEndW_le wv.rstripChars cw wv.text line (w : Int)) hl) jl hjl
  intro x hx
  obtain ⟨y, hy, rfl⟩ := List.mem_map.mp hx
  rw [truncate_ignore]
  exact this y hy

theorem nw_wrapParagraphs_fit [BEq σ] (wv : WVariant) (cw : Char → Nat) (hsp : cw ' ' = 1) (A : StyleAlg σ) (w : Nat)
    (j : Justify) (ts : Option Nat) : ∀ (ps ls : List (Text σ)),
    (∀ p ∈ ps, cellLen cw p.plain ≤ w ∧ p.plain.contains '\t' = false) →
    wrapParagraphs wv cw A w j Overflow.ignore true ts ps = .ok ls → ∀ x ∈ ls, cellLen cw x.plain ≤ w
  | [], ls, _, h => by
    simp only [wrapParagraphs] at h
    cases h; intro x hx; cases hx
  | p :: ps, ls, hps, h => by
    simp only [wrapParagraphs] at h
    obtain ⟨hp1, hp2⟩ := hps p (by simp)
    simp only [hp2, Bool.false_eq_true, if_false] at h
    obtain ⟨line, hline, h⟩ := bind_ok.mp h
    cases hline
    obtain ⟨ls1, h1, h⟩ := bind_ok.mp h
    obtain ⟨more, hmore, h⟩ := bind_ok.mp h
    cases h
    intro x hx
    rcases List.mem_append.mp hx with hx | hx
    · exact nw_wrapLine_fit wv cw hsp A _ w j hp1 ls1 h1 x hx
    · exact nw_wrapParagraphs_fit wv cw hsp A w j ts ps more (fun q hq => hps q (by simp [hq])) hmore x hx

end

/-! ### `Text.__rich_console__` -/

/-- the lines of an unwrapped text whose paragraphs fit, overflow "ignore" -/
theorem nw_lines_fit (cfg : Cfg) (hsp : cfg.cw ' ' = 1) (t : T) (o : Opts) (w : Nat)
    (hov : effOverflow t o = RichModel.Overflow.ignore)
    (htab : ∀ c ∈ t.plain, c ≠ '\t')
    (hpar : ∀ p ∈ Layout.pieces t.plain, cellLen cfg.cw p ≤ w)
    (lines : List T) (h : textLines cfg t o w = .ok lines) : ∀ l ∈ lines, cellLen cfg.cw l.plain ≤ w := by
  unfold textLines Wrap.wrap at h
  obtain ⟨ps, hps, h⟩ := bind_ok.mp h
  have hnw : noWrapOf t (some (effOverflow t o)) (some (effNoWrap t o)) = true := by
    rw [hov]; unfold noWrapOf
    rw [show (some Overflow.ignore == some Overflow.ignore) = true from by decide, Bool.or_true]
  have hwo : wrapOverflowOf t (some (effOverflow t o)) = Overflow.ignore := by
    rw [hov]; rfl
  rw [hnw, hwo] at h
  refine nw_wrapParagraphs_fit cfg.wv cfg.cw hsp alg w _ _ ps lines ?_ h
  intro p hp
  obtain ⟨a, q, b, hab, hq, hpl⟩ := nw_split_plain cfg.wv.text t ps hps p hp
  constructor
  · rw [hpl]
    refine Nat.le_trans (nw_cellLen_strip cfg.cw q) ?_
    obtain ⟨x, hx, hle⟩ := nw_infix_le cfg.cw (fun c => c == '\n') q b (fun c hc => by simpa using hq c hc) a []
    have := hpar x (by unfold Layout.pieces; rw [hab]; exact hx)
    omega
  · rw [hpl]
    cases hc : (stripControl q).contains '\t' with
    | false => rfl
    | true =>
      exfalso
      have hm : '\t' ∈ stripControl q := by simpa using hc
      have hm' : '\t' ∈ q := (List.mem_filter.mp hm).1
      exact htab '\t' (by rw [hab]; simp [hm']) rfl

set_option linter.unusedVariables false in
/-- **every line of an unwrapped text whose paragraphs fit, fits** (C01, text case, sibling of `text_fits`): a text that is not
wrapped (`no_wrap`, or overflow "ignore") and has no tab: if every paragraph (piece between line feeds) of its plain text fits
`w`, every line `Text.__rich_console__` emits fits `w` — whatever the justify mode and the overflow mode, "ignore" included.
(`hnw` records where the statement is needed; the proof does not use it: with effective overflow ≠ "ignore" the final `truncate`
cuts every line to the width whether or not it was wrapped, `text_fits`.) -/
theorem text_fits_nowrap (cfg : Cfg) (hsp : cfg.cw ' ' = 1) (h2 : ∀ c, cfg.cw c ≤ 2) (hel : cfg.cw '…' = 1) (hp : cfg.poison = [])
    (t : T) (o : Opts) (w : Nat) (hw : 1 ≤ w)
    (hnw : effNoWrap t o = true ∨ effOverflow t o = RichModel.Overflow.ignore)
    (htab : ∀ c ∈ t.plain, c ≠ '\t')
    (hpar : ∀ p ∈ pieces t.plain, cellLen cfg.cw p ≤ w)
    (hend : t.endStr = ['\n'] ∨ t.endStr = []) : Fits cfg.cw w (textConsole cfg t o w) := by
  by_cases hov : effOverflow t o = RichModel.Overflow.ignore
  · unfold textConsole
    cases hE : textConsoleE cfg t o w with
    | error e =>
      simp only [hp]
      intro p hq
      rw [show flat ([] : List Seg) = [] from rfl, txt_pieces_nil, List.mem_singleton] at hq
      subst hq
      exact Nat.zero_le _
    | ok s =>
      simp only
      obtain ⟨lines, hl, hflat⟩ := txt_console_ok cfg t o w s hE
      unfold Fits
      rw [hflat, join_plain]
      exact txt_join_fits cfg.cw w _ (txt_sep_plain _) t.endStr hend lines
        (nw_lines_fit cfg hsp t o w hov htab hpar lines hl)
  · exact text_fits cfg hsp h2 hel hp t o w hw hov hend

/-- the same for a text that is one line of at most `w` cells (what a `Rule` yields) -/
theorem text_fits_nowrap_line (cfg : Cfg) (hsp : cfg.cw ' ' = 1) (h2 : ∀ c, cfg.cw c ≤ 2) (hel : cfg.cw '…' = 1) (hp : cfg.poison = [])
    (t : T) (o : Opts) (w : Nat) (hw : 1 ≤ w) (hnw : effNoWrap t o = true ∨ effOverflow t o = RichModel.Overflow.ignore)
    (htab : ∀ c ∈ t.plain, c ≠ '\t') (hlen : cellLen cfg.cw t.plain ≤ w)
    (hend : t.endStr = ['\n'] ∨ t.endStr = []) : Fits cfg.cw w (textConsole cfg t o w) :=
  text_fits_nowrap cfg hsp h2 hel hp t o w hw hnw htab
    (fun p hq => Nat.le_trans (pieces_le cfg.cw t.plain p hq) hlen) hend

end RichModel.Layout
