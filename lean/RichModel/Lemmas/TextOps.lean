import RichModel.Lemmas.TextBasic
/-!
Invariant preservation and reference-semantics (`view`) lemmas for the length-changing and
styling operations of the Text model (everything except `divide`/`split`/`render`).
-/
namespace RichModel
namespace Text
variable {σ : Type}

/-- all spans lie in `[0, n]` and are not inverted -/
def SpansIn (spans : List (Span σ)) (n : Int) : Prop :=
  ∀ sp ∈ spans, 0 ≤ sp.start ∧ sp.start ≤ sp.stop ∧ sp.stop ≤ n

def NoCtl (s : List Char) : Prop := ∀ c ∈ s, isStripCode c = false

theorem inv_iff (t : Text σ) : Inv t ↔ t.length = (t.plain.length : Int) ∧ NoCtl t.plain ∧ SpansIn t.spans t.length := Iff.rfl

theorem SpansIn.mono {spans : List (Span σ)} {n m : Int} (h : SpansIn spans n) (hnm : n ≤ m) : SpansIn spans m :=
  fun sp hsp => ⟨(h sp hsp).1, (h sp hsp).2.1, Int.le_trans (h sp hsp).2.2 hnm⟩

theorem SpansIn.append {a b : List (Span σ)} {n : Int} (ha : SpansIn a n) (hb : SpansIn b n) : SpansIn (a ++ b) n := by
  intro sp hsp
  rcases List.mem_append.1 hsp with h | h
  · exact ha sp h
  · exact hb sp h

theorem SpansIn.move {a : List (Span σ)} {n : Int} (k : Int) (hk : 0 ≤ k) (ha : SpansIn a n) :
    SpansIn (a.map (fun sp => sp.move k)) (n + k) := by
  intro sp hsp
  obtain ⟨s0, h0, rfl⟩ := List.mem_map.1 hsp
  have := ha s0 h0
  simp only [Span.move]; omega

theorem SpansIn.trim {a : List (Span σ)} {n : Int} (m : Int) (hm : 0 ≤ m) (ha : SpansIn a n) :
    SpansIn (trimSpansTo a m) m := by
  intro sp hsp
  simp only [trimSpansTo, List.mem_map, List.mem_filter] at hsp
  obtain ⟨s0, ⟨h0, hlt⟩, rfl⟩ := hsp
  have := ha s0 h0
  simp only [decide_eq_true_eq] at hlt
  simp only [Span.clip]
  split
  · omega
  · simp only []; omega

theorem NoCtl.append {a b : List Char} (ha : NoCtl a) (hb : NoCtl b) : NoCtl (a ++ b) := by
  intro c hc
  rcases List.mem_append.1 hc with h | h
  · exact ha c h
  · exact hb c h

theorem NoCtl.replicate (n : Nat) (c : Char) (hc : isStripCode c = false) : NoCtl (List.replicate n c) := by
  intro d hd; rw [(List.mem_replicate.1 hd).2]; exact hc

theorem NoCtl.take {a : List Char} (n : Nat) (ha : NoCtl a) : NoCtl (a.take n) :=
  fun c hc => ha c (List.mem_of_mem_take hc)

theorem noCtl_space : isStripCode ' ' = false := by decide

/-- positions at or beyond `n` carry no span when all spans end by `n` -/
theorem spanIds_beyond {spans : List (Span σ)} {n : Int} (h : SpansIn spans n) (i : Nat) (hi : n ≤ (i : Int)) :
    spanIds spans i = [] :=
  spanIds_eq_nil spans i (fun sp hsp => by have := h sp hsp; omega)

/-! ### constructor, copy -/

theorem inv_new (text : List Char) (style : σ) (spans : List (Span σ)) (j : Option Justify) (o : Option Overflow)
    (nw : Option Bool) (e : List Char) (ts : Option Nat)
    (hs : SpansIn spans ((stripControl text).length : Int)) :
    Inv (new Variant.repaired text style spans j o nw e ts) :=
  ⟨rfl, stripControl_noCtl text, hs⟩

theorem view_new (v : Variant) (text : List Char) (style : σ) (spans : List (Span σ)) (j : Option Justify)
    (o : Option Overflow) (nw : Option Bool) (e : List Char) (ts : Option Nat) :
    (new v text style spans j o nw e ts).view = annot (stripControl text) (fun i => style :: spanIds spans i) 0 := by
  rw [view_eq_annot]; rfl

/-- on a consistent text `copy()` is an exact copy (repaired constructor) -/
theorem copy_eq_self (t : Text σ) (h : Inv t) : t.copy Variant.repaired = t := by
  obtain ⟨hl, hc, _⟩ := h
  cases t
  simp only [copy, new, Variant.repaired] at *
  simp [stripControl_id _ hc, hl]

theorem inv_blankCopy (t : Text σ) : Inv (t.blankCopy Variant.repaired) :=
  inv_new [] t.style [] _ _ _ _ _ (by intro sp h; simp at h)

/-! ### the `plain` setter -/

/-- `setPlain` without its local definitions -/
theorem setPlain_eq (t : Text σ) (s : List Char) :
    t.setPlain s =
      if s != t.plain then
        (if t.length > (s.length : Int) then
          trimSpans { t with plain := s, length := (s.length : Int) }
         else { t with plain := s, length := (s.length : Int) })
      else t := rfl

theorem inv_setPlain (t : Text σ) (s : List Char) (h : Inv t) (hs : NoCtl s) : Inv (t.setPlain s) := by
  obtain ⟨hl, hc, hsp⟩ := (inv_iff _).1 h
  rw [setPlain_eq]
  split
  · split
    · refine ⟨rfl, hs, ?_⟩
      simp only [trimSpans]
      exact SpansIn.trim _ (by omega) hsp
    · rename_i hgt
      refine ⟨rfl, hs, ?_⟩
      simp only [] at hgt ⊢
      exact hsp.mono (by omega)
  · exact ⟨hl, hc, hsp⟩

theorem setPlain_plain (t : Text σ) (s : List Char) : (t.setPlain s).plain = s := by
  rw [setPlain_eq]
  split
  · split <;> rfl
  · rename_i h; simp at h; exact h.symm

theorem setPlain_style (t : Text σ) (s : List Char) : (t.setPlain s).style = t.style := by
  rw [setPlain_eq]
  split
  · split <;> rfl
  · rfl

theorem setPlain_length (t : Text σ) (s : List Char) (h : Inv t) : (t.setPlain s).length = (s.length : Int) :=
  (inv_setPlain_aux t s h)
where
  inv_setPlain_aux (t : Text σ) (s : List Char) (h : Inv t) : (t.setPlain s).length = (s.length : Int) := by
    rw [setPlain_eq]
    split
    · split <;> rfl
    · rename_i hne; simp at hne; rw [hne]; exact h.1

/-- after `text.plain = s`, position `i` carries what position `i` carried (nothing but the base style
for positions beyond the old end) -/
theorem spanIds_setPlain (t : Text σ) (s : List Char) (h : Inv t) (i : Nat) (hi : i < s.length) :
    spanIds (t.setPlain s).spans i = spanIds t.spans i := by
  obtain ⟨hl, _, hsp⟩ := (inv_iff _).1 h
  rw [setPlain_eq]
  split
  · split
    · simp only [trimSpans, spanIds_trim]
      rw [if_pos (by omega)]
    · rfl
  · rfl

theorem view_setPlain (t : Text σ) (s : List Char) (h : Inv t) :
    (t.setPlain s).view = annot s t.effStyle 0 := by
  rw [view_eq_annot, setPlain_plain]
  apply annot_congr
  intro i _ hi
  simp only [effStyle, setPlain_style]
  rw [spanIds_setPlain t s h i (by omega)]

/-- the effective style beyond the end of a consistent text is the bare base style -/
theorem effStyle_beyond (t : Text σ) (h : Inv t) (i : Nat) (hi : t.plain.length ≤ i) : t.effStyle i = [t.style] := by
  simp only [effStyle]
  rw [spanIds_beyond h.2.2 i (by rw [h.1]; omega)]

/-! ### styling-only operations -/

/-- `start` as `stylize` normalises it -/
def stylizeStart (v : Variant) (len a : Int) : Int :=
  if a < 0 then (if v.stylizeNeg then len + a else max 0 (len + a)) else a

/-- `end` as `stylize` normalises it -/
def stylizeStop (len : Int) (b : Option Int) : Int :=
  if b.getD len < 0 then len + b.getD len else b.getD len

theorem stylize_eq (v : Variant) (t : Text σ) (st : σ) (a : Int) (b : Option Int) :
    t.stylize v st a b =
      if (decide (stylizeStart v t.length a ≥ t.length) || decide (stylizeStop t.length b ≤ stylizeStart v t.length a)) = true then t
      else { t with spans := t.spans ++ [⟨stylizeStart v t.length a, min t.length (stylizeStop t.length b), st⟩] } := rfl

theorem stylize_plain (v : Variant) (t : Text σ) (st : σ) (a : Int) (b : Option Int) :
    (t.stylize v st a b).plain = t.plain ∧ (t.stylize v st a b).length = t.length ∧ (t.stylize v st a b).style = t.style := by
  rw [stylize_eq]
  split <;> exact ⟨rfl, rfl, rfl⟩

theorem addSpans_plain (t : Text σ) (spans : List (Span σ)) :
    (t.addSpans spans).plain = t.plain ∧ (t.addSpans spans).length = t.length := ⟨rfl, rfl⟩

theorem stylizeStart_repaired (len a : Int) :
    stylizeStart Variant.repaired len a = if a < 0 then max 0 (len + a) else a := rfl

theorem inv_stylize (t : Text σ) (st : σ) (a : Int) (b : Option Int) (h : Inv t) :
    Inv (t.stylize Variant.repaired st a b) := by
  obtain ⟨hl, hc, hsp⟩ := (inv_iff _).1 h
  rw [stylize_eq]
  split
  · exact h
  · rename_i hcond
    simp only [Bool.or_eq_true, decide_eq_true_eq, not_or, Int.not_le, ge_iff_le] at hcond
    refine ⟨hl, hc, SpansIn.append hsp ?_⟩
    intro sp hsp'
    simp only [List.mem_singleton] at hsp'
    subst hsp'
    have h0 : 0 ≤ stylizeStart Variant.repaired t.length a := by
      rw [stylizeStart_repaired]; split <;> omega
    simp only []
    omega

/-- `stylize` adds its style to exactly the characters Python's slice conventions name, and to no other -/
theorem view_stylize (t : Text σ) (st : σ) (a : Int) (b : Option Int) (h : Inv t) :
    (t.stylize Variant.repaired st a b).view =
      annot t.plain (fun i => t.effStyle i ++
        (if stylizeStart Variant.repaired t.length a ≤ (i : Int) ∧ (i : Int) < stylizeStop t.length b then [st] else [])) 0 := by
  obtain ⟨hl, _, _⟩ := (inv_iff _).1 h
  rw [view_eq_annot, (stylize_plain _ t st a b).1]
  apply annot_congr
  intro i _ hi
  simp only [effStyle, (stylize_plain _ t st a b).2.2]
  rw [stylize_eq]
  split
  · rename_i hcond
    simp only [Bool.or_eq_true, decide_eq_true_eq, ge_iff_le] at hcond
    rw [if_neg (by omega)]
    simp
  · simp only [spanIds_append, spanIds_cons, spanIds_nil, List.cons_append]
    congr 2
    have hi' : (i : Int) < t.length := by omega
    have hcov : (Span.covers (⟨stylizeStart Variant.repaired t.length a, min t.length (stylizeStop t.length b), st⟩ : Span σ) i = true) ↔
        (stylizeStart Variant.repaired t.length a ≤ (i : Int) ∧ (i : Int) < stylizeStop t.length b) := by
      simp only [Span.covers, Bool.and_eq_true, decide_eq_true_eq]; omega
    by_cases hc : stylizeStart Variant.repaired t.length a ≤ (i : Int) ∧ (i : Int) < stylizeStop t.length b
    · rw [if_pos hc, if_pos (hcov.2 hc)]
    · rw [if_neg hc, if_neg (fun x => hc (hcov.1 x))]

theorem inv_addSpans (t : Text σ) (spans : List (Span σ)) (h : Inv t) (hs : SpansIn spans t.length) :
    Inv (t.addSpans spans) :=
  ⟨h.1, h.2.1, SpansIn.append h.2.2 hs⟩

theorem view_addSpans (t : Text σ) (spans : List (Span σ)) :
    (t.addSpans spans).view = annot t.plain (fun i => t.effStyle i ++ spanIds spans i) 0 := by
  rw [view_eq_annot]
  apply annot_congr
  intro i _ _
  simp [effStyle, addSpans, spanIds_append]

/-! ### appending -/

theorem appendStr_eq (t : Text σ) (s : List Char) (st : Option σ) :
    t.appendStr s st =
      if (s.length != 0) = true then
        { t with
          plain := t.plain ++ stripControl s
          spans := t.spans ++ (match st with
            | some x => [⟨t.length, t.length + ((stripControl s).length : Int), x⟩]
            | none => [])
          length := t.length + ((stripControl s).length : Int) }
      else t := by
  unfold appendStr
  cases st <;> simp

theorem inv_appendStr (t : Text σ) (s : List Char) (st : Option σ) (h : Inv t) : Inv (t.appendStr s st) := by
  obtain ⟨hl, hc, hsp⟩ := (inv_iff _).1 h
  rw [appendStr_eq]
  split
  · refine ⟨by simp [hl], NoCtl.append hc (stripControl_noCtl s), ?_⟩
    refine SpansIn.append (hsp.mono (by simp only []; omega)) ?_
    cases st with
    | none => intro sp h'; simp at h'
    | some x =>
      intro sp hsp'
      simp only [List.mem_singleton] at hsp'
      subst hsp'
      simp only []; omega
  · exact h

theorem annot_const {β : Type} (s : List Char) (f : Nat → β) (k : Nat) (b : β)
    (h : ∀ i, k ≤ i → i < k + s.length → f i = b) : annot s f k = s.map (fun c => (c, b)) := by
  induction s generalizing k with
  | nil => rfl
  | cons c cs ih =>
    simp only [annot, List.map_cons]
    rw [h k (Nat.le_refl _) (by simp), ih (k + 1) (fun i h1 h2 => h i (by omega) (by simp; omega))]

/-- `append(str, style)`: the old characters keep their styles; the (control-stripped) new ones
carry the base style and the given style -/
theorem view_appendStr (t : Text σ) (s : List Char) (st : Option σ) (h : Inv t) :
    (t.appendStr s st).view = t.view ++ (stripControl s).map (fun c => (c, t.style :: st.toList)) := by
  obtain ⟨hl, hc, hsp⟩ := (inv_iff _).1 h
  rw [appendStr_eq]
  split
  · rw [view_eq_annot, view_eq_annot]
    simp only [annot_append]
    congr 1
    · apply annot_congr
      intro i _ hi
      simp only [effStyle, spanIds_append]
      cases st with
      | none => simp [spanIds_nil]
      | some x =>
        simp only [spanIds_cons, spanIds_nil]
        rw [if_neg]; · simp
        simp only [Span.covers, Bool.and_eq_true, decide_eq_true_eq]; omega
    · apply annot_const
      intro i h1 h2
      simp only [effStyle, spanIds_append]
      rw [spanIds_beyond hsp i (by omega)]
      cases st with
      | none => simp [spanIds_nil]
      | some x =>
        simp only [spanIds_cons, spanIds_nil, List.nil_append, Option.toList]
        rw [if_pos]
        simp only [Span.covers, Bool.and_eq_true, decide_eq_true_eq]; omega
  · rename_i hz
    simp only [bne_iff_ne, ne_eq, Decidable.not_not, List.length_eq_zero_iff] at hz
    subst hz
    simp [stripControl]

theorem inv_appendText (t u : Text σ) (h : Inv t) (hu : Inv u) : Inv (t.appendText u) := by
  obtain ⟨hl, hc, hsp⟩ := (inv_iff _).1 h
  obtain ⟨hlu, hcu, hspu⟩ := (inv_iff _).1 hu
  refine ⟨by simp [appendText, hl, hlu], NoCtl.append hc hcu, ?_⟩
  simp only [appendText]
  refine SpansIn.append (SpansIn.append (hsp.mono (by omega)) ?_) ?_
  · intro sp hsp'
    simp only [List.mem_singleton] at hsp'
    subst hsp'
    simp only []; omega
  · have := SpansIn.move t.length (by omega) hspu
    rw [Int.add_comm] at this
    exact this

theorem inv_appendT (t u : Text σ) (h : Inv t) (hu : Inv u) : Inv (t.appendT u) := by
  unfold appendT; split
  · exact inv_appendText t u h hu
  · exact h

/-- `append_text(u)`: old characters keep their styles; `u`'s characters arrive with `u`'s effective
styles placed under this text's base style -/
theorem view_appendText (t u : Text σ) (h : Inv t) (hu : Inv u) :
    (t.appendText u).view = t.view ++ u.view.map (fun p => (p.1, t.style :: p.2)) := by
  obtain ⟨hl, hc, hsp⟩ := (inv_iff _).1 h
  obtain ⟨hlu, hcu, hspu⟩ := (inv_iff _).1 hu
  rw [view_eq_annot, view_eq_annot, view_eq_annot]
  simp only [appendText, annot_append]
  congr 1
  · apply annot_congr
    intro i _ hi
    simp only [effStyle, spanIds_append, spanIds_cons, spanIds_nil]
    rw [if_neg (by simp only [Span.covers, Bool.and_eq_true, decide_eq_true_eq]; omega)]
    have hn : (t.length.toNat : Int) = t.length := by omega
    rw [← hn, spanIds_move_lt u.spans t.length.toNat i (by omega) (fun sp hs => (hspu sp hs).1)]
    simp
  · rw [annot_map]
    have key : ∀ (F : Nat → List σ), annot u.plain F (0 + t.plain.length) = annot u.plain (fun i => F (i + t.plain.length)) 0 :=
      fun F => annot_shift u.plain F 0 t.plain.length
    rw [key]
    apply annot_congr
    intro i _ hi
    simp only [effStyle, spanIds_append]
    rw [spanIds_beyond hsp _ (by omega)]
    simp only [spanIds_cons, spanIds_nil, List.nil_append]
    rw [if_pos (by simp only [Span.covers, Bool.and_eq_true, decide_eq_true_eq]; omega)]
    have hn : t.length = ((t.plain.length : Nat) : Int) := hl
    rw [hn, spanIds_move]
    simp

theorem view_appendT (t u : Text σ) (h : Inv t) (hu : Inv u) :
    (t.appendT u).view = t.view ++ u.view.map (fun p => (p.1, t.style :: p.2)) := by
  unfold appendT; split
  · exact view_appendText t u h hu
  · rename_i hz
    simp only [bne_iff_ne, ne_eq, Decidable.not_not] at hz
    have : u.plain = [] := by
      have := hu.1; rw [hz] at this
      exact List.length_eq_zero_iff.1 (by omega)
    simp [view_eq_annot u, this, annot]

end Text
end RichModel
