import RichModel.Lemmas.Conc
/-!
The invariant `Inv` of every reachable state of `Model/Conc.lean` and its preservation by every step of
every thread.
-/
set_option linter.unusedSimpArgs false
namespace RichModel.Conc
open RichModel
open RichModel.Live (Line Frame)

structure Inv (cfg : Cfg) (s : State) : Prop where
  /-- what every thread may still do passes the static check, from where it actually stands -/
  sim : ∀ t, Sim cfg (s.th t).cont (s.th t).abs = true
  /-- a lock is owned by exactly the thread that has it on its stack -/
  own : ∀ lk t, s.sh.owner lk = some t ↔ lk ∈ (s.th t).held
  nofault : ∀ t, (s.th t).fault = false
  clean : ∀ t, (s.th t).dirty = false → (s.th t).buffer = []
  rd : ∀ t, (s.th t).recDone = true → Lock.console ∈ (s.th t).held

/-- What one executed action does to the thread-local facts of the invariant. -/
theorem exec_local {cfg : Cfg} {t : Nat} {sh sh' : Shared} {l l' : Local} {g : Guard} {act : Act} {r : List GAct}
    (hs : Sim cfg (⟨g, act⟩ :: r) l.abs = true) (hg : guardOn cfg l.depth l.hooked g = true)
    (he : exec cfg t sh { l with cont := r } act = some (sh', l')) :
    Sim cfg l'.cont l'.abs = true ∧ l'.fault = l.fault ∧
    ((l.dirty = false → l.buffer = []) → (l'.dirty = false → l'.buffer = [])) ∧
    ((l.recDone = true → Lock.console ∈ l.held) → (l'.recDone = true → Lock.console ∈ l'.held)) := by
  have hg' : guardOn cfg l.abs.depth l.abs.hooked g = true := hg
  have exitSim : ∀ a : Abs, (!a.xread && a.held == [Lock.live] && a.depth == 0 && !a.recDone && !a.dirty) = true →
      Sim cfg [ga (.rel .live)] a = true := by
    intro a h
    obtain ⟨held, d, hk, rdn, dty, xr⟩ := a
    simp only [Bool.and_eq_true, beq_iff_eq, Bool.not_eq_true'] at h
    obtain ⟨⟨⟨⟨h0, h1⟩, h2⟩, h3⟩, h4⟩ := h
    subst h0 h1 h2 h3 h4
    simp [Sim, ga, guardOn, absAct, Abs.final]
  by_cases hsp : act.special = true
  · -- the three branching actions
    cases act <;> simp only [Act.special] at hsp <;> try (exact absurd hsp (by decide))
    all_goals simp only [Sim, hg', if_true, Bool.and_eq_true] at hs
    all_goals simp only [exec] at he
    case readHooks =>
      simp only [Option.some.injEq, Prod.mk.injEq] at he
      obtain ⟨_, rfl⟩ := he
      refine ⟨?_, rfl, fun h => h, fun h => h⟩
      show Sim cfg r ⟨l.held, l.depth, decide (0 < sh.hooks), l.recDone, l.dirty, l.xread⟩ = true
      cases decide (0 < sh.hooks)
      · exact hs.2
      · exact hs.1
    case guardStarted want =>
      split at he
      · simp only [Option.some.injEq, Prod.mk.injEq] at he
        obtain ⟨_, rfl⟩ := he
        exact ⟨hs.1, rfl, fun h => h, fun h => h⟩
      · simp only [Option.some.injEq, Prod.mk.injEq] at he
        obtain ⟨_, rfl⟩ := he
        exact ⟨exitSim l.abs (by simpa [Bool.and_eq_true] using hs.2), rfl, fun h => h, fun h => h⟩
    case advance id n =>
      split at he
      · simp only [Option.some.injEq, Prod.mk.injEq] at he
        obtain ⟨_, rfl⟩ := he
        exact ⟨hs.1, rfl, fun h => h, fun h => h⟩
      · simp only [Option.some.injEq, Prod.mk.injEq] at he
        obtain ⟨_, rfl⟩ := he
        exact ⟨exitSim l.abs (by simpa [Bool.and_eq_true] using hs.2), rfl, fun h => h, fun h => h⟩
  · have hsp' : act.special = false := by simpa using hsp
    obtain ⟨a', ha, hsim⟩ := sim_generic hsp' hg' hs
    cases act <;> simp only [Act.special] at hsp' <;> try (exact absurd hsp' (by decide))
    all_goals simp only [exec] at he
    all_goals simp only [absAct] at ha
    case acq lk =>
      split at ha
      · simp only [Option.some.injEq] at ha
        subst ha
        have key : ∀ shx, some (shx, { l with cont := r, held := lk :: l.held }) = some (sh', l') →
            Sim cfg l'.cont l'.abs = true ∧ l'.fault = l.fault ∧
            ((l.dirty = false → l.buffer = []) → (l'.dirty = false → l'.buffer = [])) ∧
            ((l.recDone = true → Lock.console ∈ l.held) → (l'.recDone = true → Lock.console ∈ l'.held)) := by
          intro shx h
          simp only [Option.some.injEq, Prod.mk.injEq] at h
          obtain ⟨_, rfl⟩ := h
          exact ⟨hsim, rfl, fun h => h, fun h h2 => List.mem_cons_of_mem _ (h h2)⟩
        split at he
        · exact key _ he
        · split at he
          · exact key _ he
          · simp at he
      · simp at ha
    case rel lk =>
      split at ha
      · rename_i hc
        have hc1 : lk ∈ l.held := hc.1
        have hc2 : lk = .console → l.recDone = false := hc.2.1
        simp only [Option.some.injEq] at ha
        subst ha
        simp only [hc1, if_true, Option.some.injEq, Prod.mk.injEq] at he
        obtain ⟨_, rfl⟩ := he
        refine ⟨hsim, rfl, fun h => h, fun h h2 => ?_⟩
        have hcc := h h2
        by_cases hlk : lk = .console
        · rw [hc2 hlk] at h2; simp at h2
        · exact (List.mem_erase_of_ne (fun h => hlk h.symm)).mpr hcc
      · simp at ha
    case exitDec =>
      split at ha
      · simp at ha
      · rename_i hd
        have hd' : ¬ l.depth = 0 := hd
        simp only [Option.some.injEq] at ha
        subst ha
        simp only [hd', if_false, Option.some.injEq, Prod.mk.injEq] at he
        obtain ⟨_, rfl⟩ := he
        exact ⟨hsim, rfl, fun h => h, fun h => h⟩
    case renderFrame =>
      split at ha
      · simp at ha
      · simp only [Option.some.injEq] at ha
        subst ha
        have key : ∀ shx b, some (shx, ({ l with cont := r } : Local).push t b) = some (sh', l') →
            Sim cfg l'.cont l'.abs = true ∧ l'.fault = l.fault ∧
            ((l.dirty = false → l.buffer = []) → (l'.dirty = false → l'.buffer = [])) ∧
            ((l.recDone = true → Lock.console ∈ l.held) → (l'.recDone = true → Lock.console ∈ l'.held)) := by
          intro shx b h
          simp only [Option.some.injEq, Prod.mk.injEq] at h
          obtain ⟨_, rfl⟩ := h
          refine ⟨hsim, rfl, ?_, fun h => h⟩
          intro _ h2; simp [Local.push] at h2
        split at he
        · exact key _ _ he
        all_goals exact key _ _ he
    all_goals (
      first
        | (split at ha
           · first
             | (simp at ha; done)
             | (simp only [Option.some.injEq] at ha; subst ha
                simp only [Option.some.injEq, Prod.mk.injEq] at he
                obtain ⟨rfl, rfl⟩ := he
                simp_all [Local.abs, Local.push])
           · first
             | (simp at ha; done)
             | (simp only [Option.some.injEq] at ha; subst ha
                simp only [Option.some.injEq, Prod.mk.injEq] at he
                obtain ⟨rfl, rfl⟩ := he
                simp_all [Local.abs, Local.push]))
        | (simp only [Option.some.injEq] at ha; subst ha
           simp only [Option.some.injEq, Prod.mk.injEq] at he
           obtain ⟨rfl, rfl⟩ := he
           simp_all [Local.abs, Local.push]))

/-- What one executed action does to the lock table. -/
theorem exec_held {cfg : Cfg} {t : Nat} {sh sh' : Shared} {l l' : Local} {act : Act} {r : List GAct}
    (he : exec cfg t sh { l with cont := r } act = some (sh', l')) :
    (∃ lk, act = .acq lk ∧ (sh.owner lk = none ∨ sh.owner lk = some t) ∧
        sh'.owner = updLock sh.owner lk (some t) ∧ l'.held = lk :: l.held) ∨
    (∃ lk, act = .rel lk ∧ lk ∈ l.held ∧ l'.held = l.held.erase lk ∧
        sh'.owner = if lk ∈ l.held.erase lk then sh.owner else updLock sh.owner lk none) ∨
    (sh'.owner = sh.owner ∧ l'.held = l.held) := by
  cases act <;> simp only [exec] at he
  case acq lk =>
    left
    refine ⟨lk, rfl, ?_⟩
    split at he
    · rename_i ho
      simp only [Option.some.injEq, Prod.mk.injEq] at he
      obtain ⟨rfl, rfl⟩ := he
      exact ⟨Or.inl ho, rfl, rfl⟩
    · rename_i u ho
      split at he
      · rename_i hu
        subst hu
        simp only [Option.some.injEq, Prod.mk.injEq] at he
        obtain ⟨rfl, rfl⟩ := he
        exact ⟨Or.inr ho, rfl, rfl⟩
      · simp at he
  case rel lk =>
    split at he
    · rename_i hm
      right; left
      simp only [Option.some.injEq, Prod.mk.injEq] at he
      obtain ⟨rfl, rfl⟩ := he
      exact ⟨lk, rfl, hm, rfl, rfl⟩
    · right; right
      simp only [Option.some.injEq, Prod.mk.injEq] at he
      obtain ⟨rfl, rfl⟩ := he
      exact ⟨rfl, rfl⟩
  all_goals (
    right; right
    first
      | (simp only [Option.some.injEq, Prod.mk.injEq] at he
         obtain ⟨rfl, rfl⟩ := he
         exact ⟨rfl, rfl⟩)
      | (split at he <;>
          (simp only [Option.some.injEq, Prod.mk.injEq] at he
           obtain ⟨rfl, rfl⟩ := he
           exact ⟨rfl, rfl⟩)))

theorem upd_same {α : Type} (f : Nat → α) (t : Nat) (v : α) : upd f t v t = v := by simp [upd]
theorem upd_other {α : Type} (f : Nat → α) {t u : Nat} (v : α) (h : u ≠ t) : upd f t v u = f u := by simp [upd, h]

theorem stepT_nil {cfg : Cfg} {s : State} {t : Nat} (hc : (s.th t).cont = []) :
    stepT cfg s t = match (s.th t).prog with
      | [] => none
      | op :: rest => some { s with th := upd s.th t { s.th t with prog := rest, cont := code cfg op, nops := (s.th t).nops + 1 } } := by
  simp only [stepT, hc]
  cases (s.th t).prog <;> rfl

theorem stepT_cons {cfg : Cfg} {s : State} {t : Nat} {g : GAct} {r : List GAct} (hc : (s.th t).cont = g :: r) :
    stepT cfg s t =
      if guardOn cfg (s.th t).depth (s.th t).hooked g.g then
        (exec cfg t s.sh { s.th t with cont := r } g.a).map (fun x => { sh := x.1, th := upd s.th t x.2 })
      else some { s with th := upd s.th t { s.th t with cont := r } } := by
  simp only [stepT, hc]

/-- Every step of every thread preserves the invariant. -/
theorem inv_step {cfg : Cfg} {s s' : State} {t : Nat} (inv : Inv cfg s) (h : stepT cfg s t = some s') : Inv cfg s' := by
  cases hc : (s.th t).cont with
  | nil =>
    rw [stepT_nil hc] at h
    cases hp : (s.th t).prog with
    | nil => rw [hp] at h; simp at h
    | cons op rest =>
      rw [hp] at h
      simp only [Option.some.injEq] at h
      subst h
      have hsim := inv.sim t
      rw [hc] at hsim
      simp only [Sim, Abs.final, Local.abs, Bool.and_eq_true, List.isEmpty_iff, beq_iff_eq, Bool.not_eq_true'] at hsim
      obtain ⟨⟨⟨⟨h0, h1⟩, h2⟩, h3⟩, h4⟩ := hsim
      refine ⟨fun u => ?_, fun lk u => ?_, fun u => ?_, fun u => ?_, fun u => ?_⟩ <;> by_cases hu : u = t
      · subst hu; simp only [upd_same, Local.abs, h0, h1, h2, h3, h4]; exact code_ok cfg op _
      · simp only [upd_other _ _ hu]; exact inv.sim u
      · subst hu; simp only [upd_same]; exact inv.own lk u
      · simp only [upd_other _ _ hu]; exact inv.own lk u
      · subst hu; simp only [upd_same]; exact inv.nofault u
      · simp only [upd_other _ _ hu]; exact inv.nofault u
      · subst hu; simp only [upd_same]; exact inv.clean u
      · simp only [upd_other _ _ hu]; exact inv.clean u
      · subst hu; simp only [upd_same]; exact inv.rd u
      · simp only [upd_other _ _ hu]; exact inv.rd u
  | cons g r =>
    rw [stepT_cons hc] at h
    have hsim := inv.sim t
    rw [hc] at hsim
    obtain ⟨gg, act⟩ := g
    by_cases hg : guardOn cfg (s.th t).depth (s.th t).hooked gg = true
    · simp only [hg, if_true, Option.map_eq_some_iff] at h
      obtain ⟨⟨sh', l'⟩, he, rfl⟩ := h
      obtain ⟨k1, k2, k3, k4⟩ := exec_local hsim hg he
      have hheld := exec_held he
      refine ⟨fun u => ?_, fun lk u => ?_, fun u => ?_, fun u => ?_, fun u => ?_⟩
      · by_cases hu : u = t
        · subst hu; simpa only [upd_same] using k1
        · simp only [upd_other _ _ hu]; exact inv.sim u
      · -- lock ownership
        simp only
        rcases hheld with ⟨lk0, _, hfree, ho, hh⟩ | ⟨lk0, _, hm, hh, ho⟩ | ⟨ho, hh⟩
        · rw [ho]
          by_cases hu : u = t
          · subst hu
            simp only [upd_same, hh, updLock]
            by_cases hk : lk = lk0
            · subst hk; simp
            · simp only [hk, if_false, List.mem_cons, false_or]; exact inv.own lk u
          · simp only [upd_other _ _ hu, updLock]
            by_cases hk : lk = lk0
            · subst hk
              simp only [if_true, Option.some.injEq]
              constructor
              · intro h; exact absurd h.symm hu
              · intro hm
                have := (inv.own lk u).mpr hm
                rcases hfree with hf | hf
                · rw [hf] at this; simp at this
                · rw [hf] at this; simp at this; exact absurd this.symm hu
            · simp only [hk, if_false]; exact inv.own lk u
        · have hown : s.sh.owner lk0 = some t := (inv.own lk0 t).mpr hm
          by_cases hu : u = t
          · subst hu
            simp only [upd_same, hh, ho]
            by_cases hk : lk = lk0
            · subst hk
              by_cases hin : lk ∈ (s.th u).held.erase lk
              · simp [hin, hown]
              · simp [hin, updLock]
            · have : lk ∈ (s.th u).held.erase lk0 ↔ lk ∈ (s.th u).held := List.mem_erase_of_ne hk
              rw [this]
              by_cases hin : lk0 ∈ (s.th u).held.erase lk0
              · simp only [hin, if_true]; exact inv.own lk u
              · simp only [hin, if_false, updLock, hk]; exact inv.own lk u
          · simp only [upd_other _ _ hu, ho]
            by_cases hk : lk = lk0
            · subst hk
              have hnot : ¬ lk ∈ (s.th u).held := by
                intro hm2
                have := (inv.own lk u).mpr hm2
                rw [hown] at this
                simp at this; exact hu this.symm
              by_cases hin : lk ∈ (s.th t).held.erase lk
              · simp only [hin, if_true, hown, Option.some.injEq]
                exact ⟨fun h => absurd h.symm hu, fun h => absurd h hnot⟩
              · simp only [hin, if_false, updLock, if_true]
                exact ⟨fun h => by simp at h, fun h => absurd h hnot⟩
            · by_cases hin : lk0 ∈ (s.th t).held.erase lk0
              · simp only [hin, if_true]; exact inv.own lk u
              · simp only [hin, if_false, updLock, hk]; exact inv.own lk u
        · rw [ho]
          by_cases hu : u = t
          · subst hu; simp only [upd_same, hh]; exact inv.own lk u
          · simp only [upd_other _ _ hu]; exact inv.own lk u
      · by_cases hu : u = t
        · subst hu; simp only [upd_same, k2]; exact inv.nofault u
        · simp only [upd_other _ _ hu]; exact inv.nofault u
      · by_cases hu : u = t
        · subst hu; simp only [upd_same]; exact k3 (inv.clean u)
        · simp only [upd_other _ _ hu]; exact inv.clean u
      · by_cases hu : u = t
        · subst hu; simp only [upd_same]; exact k4 (inv.rd u)
        · simp only [upd_other _ _ hu]; exact inv.rd u
    · rw [if_neg hg] at h
      simp only [Option.some.injEq] at h
      subst h
      have hsim' : Sim cfg r (s.th t).abs = true := by
        have hg' : guardOn cfg (s.th t).abs.depth (s.th t).abs.hooked gg = true ↔ False := by
          simp only [Local.abs]; exact iff_false_intro hg
        simp only [Sim, hg', if_false] at hsim
        simpa using hsim
      refine ⟨fun u => ?_, fun lk u => ?_, fun u => ?_, fun u => ?_, fun u => ?_⟩ <;> by_cases hu : u = t
      · subst hu; simp only [upd_same, Local.abs]; exact hsim'
      · simp only [upd_other _ _ hu]; exact inv.sim u
      · subst hu; simp only [upd_same]; exact inv.own lk u
      · simp only [upd_other _ _ hu]; exact inv.own lk u
      · subst hu; simp only [upd_same]; exact inv.nofault u
      · simp only [upd_other _ _ hu]; exact inv.nofault u
      · subst hu; simp only [upd_same]; exact inv.clean u
      · simp only [upd_other _ _ hu]; exact inv.clean u
      · subst hu; simp only [upd_same]; exact inv.rd u
      · simp only [upd_other _ _ hu]; exact inv.rd u

theorem inv_run {cfg : Cfg} (sched : List Nat) : ∀ {s : State}, Inv cfg s → Inv cfg (run cfg s sched) := by
  induction sched with
  | nil => intro s h; exact h
  | cons t rest ih =>
    intro s h
    simp only [run, List.foldl_cons]
    apply ih
    cases hs : stepT cfg s t with
    | none => simpa using h
    | some s' => simpa using inv_step h hs

/-- The initial state: no lock owned, every thread idle. -/
theorem inv_init {cfg : Cfg} (sh : Shared) (progs : List (List Op)) (hfree : ∀ lk, sh.owner lk = none) :
    Inv cfg (initState sh progs) := by
  refine ⟨fun t => ?_, fun lk t => ?_, fun t => rfl, fun t _ => rfl, fun t h => ?_⟩
  · simp [initState, Sim, Local.abs, Abs.final]
  · simp [initState, hfree]
  · simp [initState] at h

end RichModel.Conc
