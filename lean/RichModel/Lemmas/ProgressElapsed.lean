import RichModel.Lemmas.ProgressInv
/-!
Elapsed time and the recorded finish time: on a monotone clock both are non-negative **unless a task
is reset while it is stopped** (`Progress.reset` leaves `stop_time` as it is, so the old stop time
then precedes the new start time).  A generic "every task satisfies `P`" preservation lemma for
`body` comes first.
-/
namespace RichModel.Progress

/-- the task `add_task` creates -/
def newTask (clock : Clock) (a : AddArgs) (st : State) : Task :=
  { id := st.nextId, description := a.description, total := a.total, completed := a.completed,
    finishedTime := none, visible := a.visible, fields := a.fields,
    startTime := if a.start then some (clock st.clk) else none,
    stopTime := none, samples := [] }

/-- **Generic preservation.** A clock-indexed predicate on tasks that is monotone in the clock
counter, holds of a new task, and is preserved by the effect of an operation on the task it
addresses, is preserved (for all tasks) by the locked body. -/
theorem body_tasks_inv (cfg : Cfg) (clock : Clock) (op : Op) (st : State) (P : Nat → Task → Prop)
    (hmono : ∀ K K' t, K ≤ K' → P K t → P K' t)
    (hnew : ∀ a, op = .addTask a → P (body cfg clock op none st).st.clk (newTask clock a st))
    (heff : ∀ id x o, op.target = some id → (∀ i, op ≠ .removeTask i) → lookup st.tasks id = some x →
      P st.clk x → P (taskEffect cfg clock op none o x st.clk).2 (taskEffect cfg clock op none o x st.clk).1)
    (h : ∀ t ∈ st.tasks, P st.clk t) :
    ∀ t ∈ (body cfg clock op none st).st.tasks, P (body cfg clock op none st).st.clk t := by
  have hclk := body_clk_ge cfg clock op st
  by_cases hrm : ∃ i, op = .removeTask i
  · obtain ⟨i, rfl⟩ := hrm
    simp only [body]
    cases hl : lookup st.tasks i with
    | none => exact h
    | some x =>
      intro t ht
      simp only at ht
      exact h t (List.mem_filter.mp ht).1
  · have hr : ∀ i, op ≠ .removeTask i := fun i hi => hrm ⟨i, hi⟩
    cases htg : op.target with
    | none =>
      cases op with
      | addTask a =>
        intro t ht
        have hn := hnew a rfl
        simp only [body, List.mem_append, List.mem_singleton] at ht hclk hn ⊢
        rcases ht with ht | rfl
        · exact hmono _ _ t hclk (h t ht)
        · exact hn
      | refresh => intro t ht; exact hmono _ _ t hclk (h t ht)
      | start =>
        intro t ht
        have ht' : t ∈ st.tasks := by simp only [body] at ht; split at ht <;> exact ht
        exact hmono _ _ t hclk (h t ht')
      | stop =>
        intro t ht
        have ht' : t ∈ st.tasks := by simp only [body] at ht; split at ht <;> exact ht
        exact hmono _ _ t hclk (h t ht')
      | removeTask i => exact absurd rfl (hr i)
      | startTask i => simp [Op.target] at htg
      | stopTask i => simp [Op.target] at htg
      | update i u => simp [Op.target] at htg
      | reset i => simp [Op.target] at htg
      | advance i a => simp [Op.target] at htg
    | some j =>
      rw [body_target cfg clock op none st j htg hr] at hclk ⊢
      cases hl : lookup st.tasks j with
      | none =>
        rw [hl] at hclk
        intro t ht
        exact hmono _ _ t hclk (h t ht)
      | some x =>
        rw [hl] at hclk
        intro t ht
        simp only at ht hclk ⊢
        rcases mem_setTask ht with rfl | ⟨hmem, _⟩
        · exact heff j x _ htg hr hl (h x (lookup_some hl).1)
        · exact hmono _ _ t hclk (h t hmem)

/-- start and stop times are clock readings of the past, start ≤ stop, a stopped task is started,
and a recorded finish time is non-negative -/
def EOK (clock : Clock) (K : Nat) (t : Task) : Prop :=
  (∀ s, t.startTime = some s → ∀ j, K ≤ j → s ≤ clock j) ∧
  (∀ e, t.stopTime = some e → ∀ j, K ≤ j → e ≤ clock j) ∧
  (∀ s e, t.startTime = some s → t.stopTime = some e → s ≤ e) ∧
  (t.stopTime.isSome → t.startTime.isSome) ∧
  (∀ f, t.finishedTime = some f → 0 ≤ f)

theorem EOK_mono {clock : Clock} {K K' : Nat} {t : Task} (hk : K ≤ K') (h : EOK clock K t) : EOK clock K' t :=
  ⟨fun s hs j hj => h.1 s hs j (Nat.le_trans hk hj), fun e he j hj => h.2.1 e he j (Nat.le_trans hk hj),
   h.2.2.1, h.2.2.2.1, h.2.2.2.2⟩

/-- the value of `elapsed`, read at any later clock index, is non-negative -/
theorem elapsedC_nonneg {clock : Clock} {K k : Nat} {t : Task} (h : EOK clock K t) (hk : K ≤ k) :
    ∀ e, (t.elapsedC clock k).1 = some e → 0 ≤ e := by
  intro e he
  unfold Task.elapsedC at he
  cases hs : t.startTime with
  | none => simp [hs] at he
  | some s =>
    cases hst : t.stopTime with
    | some x =>
      simp only [hs, hst, Option.some.injEq] at he
      have := h.2.2.1 s x hs hst; omega
    | none =>
      simp only [hs, hst, Option.some.injEq] at he
      have := h.1 s hs k hk; omega

theorem finishCheck_EOK {clock : Clock} {K k : Nat} {t : Task} (h : EOK clock K t) (hk : K ≤ k) :
    EOK clock (t.finishCheck clock k).2 (t.finishCheck clock k).1 := by
  have hge := finishCheck_clk_ge clock t k
  refine ⟨?_, ?_, ?_, ?_, ?_⟩
  · intro s hs j hj; rw [finishCheck_startTime] at hs; exact h.1 s hs j (by omega)
  · intro e he j hj; rw [finishCheck_stopTime] at he; exact h.2.1 e he j (by omega)
  · intro s e hs he; rw [finishCheck_startTime] at hs; rw [finishCheck_stopTime] at he; exact h.2.2.1 s e hs he
  · rw [finishCheck_startTime, finishCheck_stopTime]; exact h.2.2.2.1
  · intro f hf
    unfold Task.finishCheck at hf
    split at hf
    · exact elapsedC_nonneg h hk f hf
    · exact h.2.2.2.2 f hf

/-- `reset` is applied to this task while it is stopped -/
def Op.resetsStopped (op : Op) (t : Task) : Prop :=
  match op with
  | .reset _ _ => t.stopTime.isSome
  | _ => False

theorem taskEffect_EOK (cfg : Cfg) (clock : Clock) (hm : Mono clock) (op : Op) (o : Nat) (t : Task) (k : Nat)
    (hno : ¬ op.resetsStopped t) (h : EOK clock k t) :
    EOK clock (taskEffect cfg clock op none o t k).2 (taskEffect cfg clock op none o t k).1 := by
  cases op with
  | addTask => exact h
  | removeTask => exact h
  | refresh => exact h
  | start => exact h
  | stop => exact h
  | startTask i =>
    simp only [taskEffect]
    cases hs : t.startTime with
    | some s => simp only; exact h
    | none =>
      simp only
      have hst : t.stopTime = none := by
        cases hx : t.stopTime with
        | none => rfl
        | some e => have := h.2.2.2.1 (by simp [hx]); simp [hs] at this
      refine ⟨?_, ?_, ?_, ?_, ?_⟩
      · intro s hs' j hj; simp only [Option.some.injEq] at hs'; subst hs'; exact hm _ _ (by omega)
      · intro e he j hj; exact h.2.1 e he j (by omega)
      · intro s e _ he; simp only at he; rw [hst] at he; cases he
      · intro _; simp
      · exact h.2.2.2.2
  | stopTask i =>
    simp only [taskEffect]
    refine ⟨?_, ?_, ?_, ?_, ?_⟩
    · intro s hs j hj
      simp only [Option.some.injEq] at hs
      cases hst : t.startTime with
      | none => simp only [hst, Option.getD_none] at hs; subst hs; exact hm _ _ (by omega)
      | some s0 => simp only [hst, Option.getD_some] at hs; subst hs; exact h.1 _ hst j (by omega)
    · intro e he j hj; simp only [Option.some.injEq] at he; subst he; exact hm _ _ (by omega)
    · intro s e hs he
      simp only [Option.some.injEq] at hs he
      subst he
      cases hst : t.startTime with
      | none => simp only [hst, Option.getD_none] at hs; omega
      | some s0 => simp only [hst, Option.getD_some] at hs; subst hs; exact h.1 _ hst k (Nat.le_refl _)
    · intro _; simp
    · exact h.2.2.2.2
  | update i u =>
    simp only [taskEffect, Task.updateBody]
    have hk0 : k ≤ (if u.refresh = true then refreshK cfg o (t.applyUpd u) k else k) := by
      split
      · unfold refreshK; omega
      · omega
    apply finishCheck_EOK (K := k) _ (by omega)
    refine ⟨?_, ?_, ?_, ?_, ?_⟩
    · intro s hs; simp only [applyUpd_startTime] at hs; exact h.1 s hs
    · intro e he; simp only [applyUpd_stopTime] at he; exact h.2.1 e he
    · intro s e hs he; simp only [applyUpd_startTime] at hs; simp only [applyUpd_stopTime] at he; exact h.2.2.1 s e hs he
    · simp only [applyUpd_startTime, applyUpd_stopTime]; exact h.2.2.2.1
    · intro f hf
      simp only [applyUpd_finishedTime] at hf
      split at hf
      · cases hf
      · exact h.2.2.2.2 f hf
  | advance i a =>
    simp only [taskEffect, Task.advanceBody, nowOf]
    apply finishCheck_EOK (K := k) _ (by omega)
    exact ⟨h.1, h.2.1, h.2.2.1, h.2.2.2.1, h.2.2.2.2⟩
  | reset i r =>
    have hst : t.stopTime = none := by
      cases hx : t.stopTime with
      | none => rfl
      | some e => exact absurd (by simp [Op.resetsStopped, hx]) hno
    simp only [taskEffect, Task.resetBody, nowOf]
    have hk' : k + 1 ≤ refreshK cfg o (t.resetBody (clock k) r) (k + 1) := by unfold refreshK; omega
    refine ⟨?_, ?_, ?_, ?_, ?_⟩
    · intro s hs j hj
      simp only at hs
      split at hs
      · simp only [Option.some.injEq] at hs; subst hs
        exact hm _ _ (by simp only [Task.resetBody] at hk'; omega)
      · cases hs
    · intro e he; simp only at he; rw [hst] at he; cases he
    · intro s e _ he; simp only at he; rw [hst] at he; cases he
    · intro hx; simp only at hx; rw [hst] at hx; cases hx
    · intro f hf; simp only at hf; cases hf

/-- along the history no task is reset while it is stopped -/
def NoResetWhileStopped (cfg : Cfg) (clock : Clock) : List Op → State → Prop
  | [], _ => True
  | op :: ops, st =>
    (∀ i r t, op = .reset i r → lookup st.tasks i = some t → t.stopTime = none) ∧
    NoResetWhileStopped cfg clock ops (step cfg clock op st).st

def noResetWhileStoppedB (cfg : Cfg) (clock : Clock) : List Op → State → Bool
  | [], _ => true
  | op :: ops, st =>
    (match op with
     | .reset i _ =>
       match lookup st.tasks i with
       | none => true
       | some t => t.stopTime.isNone
     | _ => true) &&
    noResetWhileStoppedB cfg clock ops (step cfg clock op st).st

theorem noResetWhileStopped_of_check (cfg : Cfg) (clock : Clock) (ops : List Op) (st : State)
    (h : noResetWhileStoppedB cfg clock ops st = true) : NoResetWhileStopped cfg clock ops st := by
  induction ops generalizing st with
  | nil => trivial
  | cons op ops ih =>
    simp only [noResetWhileStoppedB, Bool.and_eq_true] at h
    refine ⟨?_, ih _ h.2⟩
    intro i r t hop hl
    have h1 := h.1
    subst hop
    simp only [hl, Option.isNone_iff_eq_none] at h1
    exact h1

def InvE (clock : Clock) (st : State) : Prop := ∀ t ∈ st.tasks, EOK clock st.clk t

theorem body_invE (cfg : Cfg) (clock : Clock) (hm : Mono clock) (op : Op) (st : State)
    (hno : ∀ i r t, op = .reset i r → lookup st.tasks i = some t → t.stopTime = none)
    (h : InvE clock st) : InvE clock (body cfg clock op none st).st := by
  apply body_tasks_inv cfg clock op st (EOK clock) (fun K K' t hk ht => EOK_mono hk ht) _ _ h
  · intro a ha
    subst ha
    have hclk := body_clk_ge cfg clock (.addTask a) st
    simp only [body] at hclk ⊢
    refine ⟨?_, ?_, ?_, ?_, ?_⟩
    · intro s hs j hj
      simp only [newTask] at hs
      split at hs
      · next hst =>
        simp only [Option.some.injEq] at hs; subst hs
        simp only [hst, if_true] at hj
        exact hm _ _ (by omega)
      · cases hs
    · intro e he; simp [newTask] at he
    · intro s e _ he; simp [newTask] at he
    · intro hx; simp [newTask] at hx
    · intro f hf; simp [newTask] at hf
  · intro id x o htg hr hl hx
    apply taskEffect_EOK cfg clock hm op o x st.clk _ hx
    intro hrs
    cases op with
    | reset i r =>
      simp only [Op.target, Option.some.injEq] at htg; subst htg
      have := hno i r x rfl hl
      simp [Op.resetsStopped, this] at hrs
    | addTask => exact hrs
    | removeTask => exact hrs
    | refresh => exact hrs
    | start => exact hrs
    | stop => exact hrs
    | startTask => exact hrs
    | stopTask => exact hrs
    | update => exact hrs
    | advance => exact hrs

theorem run_invE (cfg : Cfg) (clock : Clock) (hm : Mono clock) (ops : List Op) :
    ∀ st, NoResetWhileStopped cfg clock ops st → InvE clock st → InvE clock (run cfg clock ops st) := by
  induction ops with
  | nil => intro st _ h; exact h
  | cons op ops ih =>
    intro st hno h
    simp only [run]
    apply ih _ hno.2
    rw [step_eq_body_none]
    exact body_invE cfg clock hm op st hno.1 h

end RichModel.Progress
