import RichModel.Lemmas.LayoutBase
/-!
List lemmas for the composition layer (C01 / C09): the visible text `flat` of a segment stream, its `pieces`
(lines), and the bridge to `Segment.split_lines` (`fits_iff_lines`); closedness and concatenation of streams.
-/
namespace RichModel.Layout
open RichModel RichModel.Frames

/-! ### `flat` -/

theorem flat_nil : flat ([] : List Seg) = [] := rfl

theorem flat_cons (s : Seg) (l : List Seg) : flat (s :: l) = (if s.control then [] else s.text) ++ flat l := by
  simp [flat]

theorem flat_append (a b : List Seg) : flat (a ++ b) = flat a ++ flat b := by
  simp [flat]

theorem flat_seg (t : List Char) : flat [(seg t : Seg)] = t := by
  simp [flat, seg]

theorem flat_nl : flat [(nl : Seg)] = ['\n'] := by
  simp [flat, nl, seg]

theorem cellLen_append' (cw : Char → Nat) (a b : List Char) : cellLen cw (a ++ b) = cellLen cw a + cellLen cw b :=
  cellLen_append cw a b

theorem lineLength_eq_flat (cw : Char → Nat) (l : Ln) : lineLength cw l = cellLen cw (flat l) := by
  induction l with
  | nil => rfl
  | cons s l ih =>
    rw [lineLength_cons, flat_cons, cellLen_append, ih]
    unfold Segment.cellLength
    split <;> simp

/-! ### `splitOnP` / `pieces` -/

theorem splitOnP_le (cw : Char → Nat) (p : Char → Bool) : ∀ (s cur : List Char),
    ∀ x ∈ splitOnP p s cur, cellLen cw x ≤ cellLen cw cur + cellLen cw s
  | [], cur => by
    intro x hx
    simp only [splitOnP, List.mem_singleton] at hx
    subst hx
    simp [cellLen, List.sum_reverse]
  | c :: rest, cur => by
    intro x hx
    unfold splitOnP at hx
    rw [cellLen_cons]
    split at hx
    · rcases List.mem_cons.mp hx with h | h
      · subst h
        have : cellLen cw cur.reverse = cellLen cw cur := by simp [cellLen, List.sum_reverse]
        omega
      · have := splitOnP_le cw p rest [] x h
        simp only [cellLen_nil] at this
        omega
    · have := splitOnP_le cw p rest (c :: cur) x hx
      rw [cellLen_cons] at this
      omega

/-- every piece is a contiguous part of the string, hence not wider -/
theorem pieces_le (cw : Char → Nat) (s : List Char) : ∀ p ∈ pieces s, cellLen cw p ≤ cellLen cw s := by
  intro p hp
  have := splitOnP_le cw _ s [] p hp
  simpa using this

theorem splitOnP_append_sep (p : Char → Bool) (c : Char) (hc : p c = true) (y : List Char) : ∀ (x cur : List Char),
    splitOnP p (x ++ c :: y) cur = splitOnP p x cur ++ splitOnP p y []
  | [], cur => by simp [splitOnP, hc]
  | d :: x, cur => by
    simp only [List.cons_append, splitOnP]
    split
    · rw [splitOnP_append_sep p c hc y x []]; simp
    · rw [splitOnP_append_sep p c hc y x (d :: cur)]

/-- splitting at an explicit line feed -/
theorem pieces_append_nl (x y : List Char) : pieces (x ++ '\n' :: y) = pieces x ++ pieces y :=
  splitOnP_append_sep _ '\n' (by decide) y x []

theorem splitOnP_none (p : Char → Bool) : ∀ (x cur : List Char), (∀ c ∈ x, p c = false) →
    splitOnP p x cur = [cur.reverse ++ x]
  | [], cur, _ => by simp [splitOnP]
  | d :: x, cur, h => by
    have hd : p d = false := h d (by simp)
    simp only [splitOnP, hd, Bool.false_eq_true, if_false]
    rw [splitOnP_none p x (d :: cur) (fun c hc => h c (by simp [hc]))]
    simp

/-- a string without line feed is one piece -/
theorem pieces_no_nl (x : List Char) (h : ∀ c ∈ x, c ≠ '\n') : pieces x = [x] := by
  have := splitOnP_none (fun c => c == '\n') x [] (fun c hc => by simpa using h c hc)
  simpa [pieces] using this

theorem pieces_nil : pieces [] = [[]] := rfl

/-! ### the line state of `split_lines`, abstractly: finished lines and the current line, as visible text -/

/-- feed characters to a (finished lines, current line) state -/
def feed : List (List Char) × List Char → List Char → List (List Char) × List Char
  | st, [] => st
  | st, c :: s => if c == '\n' then feed (st.1 ++ [st.2], []) s else feed (st.1, st.2 ++ [c]) s

theorem feed_append : ∀ (a b : List Char) (st : List (List Char) × List Char),
    feed st (a ++ b) = feed (feed st a) b
  | [], b, st => by simp [feed]
  | c :: a, b, st => by
    simp only [List.cons_append, feed]
    split
    · exact feed_append a b _
    · exact feed_append a b _

theorem feed_no_nl : ∀ (t : List Char) (st : List (List Char) × List Char), (∀ c ∈ t, c ≠ '\n') →
    feed st t = (st.1, st.2 ++ t)
  | [], st, _ => by simp [feed]
  | c :: t, st, h => by
    have hc : (c == '\n') = false := by simpa using h c (by simp)
    simp only [feed, hc, Bool.false_eq_true, if_false]
    rw [feed_no_nl t _ (fun d hd => h d (by simp [hd]))]
    simp

theorem splitOnP_feed : ∀ (s : List Char) (I : List (List Char)) (cur : List Char),
    I ++ splitOnP (fun c => c == '\n') s cur = (feed (I, cur.reverse) s).1 ++ [(feed (I, cur.reverse) s).2]
  | [], I, cur => by simp [splitOnP, feed]
  | c :: s, I, cur => by
    simp only [splitOnP, feed]
    split
    · have := splitOnP_feed s (I ++ [cur.reverse]) []
      simp only [List.reverse_nil, List.append_assoc, List.singleton_append] at this
      exact this
    · have := splitOnP_feed s I (c :: cur)
      simp only [List.reverse_cons] at this
      exact this

theorem pieces_feed (s : List Char) : pieces s = (feed ([], []) s).1 ++ [(feed ([], []) s).2] := by
  have := splitOnP_feed s [] []
  simpa [pieces] using this

/-- the abstraction of a `split_lines` state -/
def absSt (st : Ln × List Ln) : List (List Char) × List Char := (st.2.reverse.map flat, flat st.1)

theorem inner_feed (sty : Option Nat) : ∀ (t c0 : List Char) (st : Ln × List Ln),
    absSt ((nlPieces t c0).foldl (fun (st : Ln × List Ln) p =>
      let line := if p.1.isEmpty then st.1 else st.1 ++ [{ text := p.1, style := sty, control := false }]
      if p.2 then ([], line :: st.2) else (line, st.2)) st) =
    feed (st.2.reverse.map flat, flat st.1 ++ c0.reverse) t
  | [], c0, st => by
    unfold nlPieces
    cases c0 with
    | nil => simp [feed, absSt]
    | cons d c0 =>
      simp [feed, absSt, flat_append, flat_cons, flat_nil]
  | c :: rest, c0, st => by
    unfold nlPieces
    by_cases hc : c = '\n'
    · subst hc
      simp only [beq_self_eq_true, if_true, List.foldl_cons, feed]
      rw [inner_feed sty rest [] _]
      simp only [List.reverse_nil, List.append_nil, List.reverse_cons, List.map_append, List.map_cons, List.map_nil,
        flat_nil]
      congr 3
      cases h : c0.reverse with
      | nil => simp
      | cons d r => simp [flat_append, flat_cons, flat_nil]
    · have hc' : (c == '\n') = false := by simpa using hc
      simp only [hc', Bool.false_eq_true, if_false, feed]
      rw [inner_feed sty rest (c :: c0) st]
      simp

theorem step_feed (st : Ln × List Ln) (s : Seg) :
    absSt (splitLinesStep st s) = feed (absSt st) (if s.control then [] else s.text) := by
  unfold splitLinesStep
  split
  · rename_i h
    simp only [Bool.and_eq_true, Bool.not_eq_true'] at h
    rw [inner_feed s.style s.text [] st]
    simp [h.2, absSt]
  · rename_i h
    by_cases hctl : s.control = true
    · simp [hctl, feed, absSt, flat_append, flat_cons, flat_nil]
    · have hctl' : s.control = false := by simpa using hctl
      have hnc : s.text.contains '\n' = false := by
        cases hcon : s.text.contains '\n' with
        | false => rfl
        | true => rw [hcon, hctl'] at h; exact absurd rfl h
      simp only [hctl', Bool.false_eq_true, if_false]
      rw [feed_no_nl _ _ ((contains_nl_false_iff s.text).mp hnc)]
      simp [hctl', absSt, flat_append, flat_cons, flat_nil]

theorem foldl_feed : ∀ (segs : List Seg) (st : Ln × List Ln),
    absSt (segs.foldl splitLinesStep st) = feed (absSt st) (flat segs)
  | [], st => by simp [feed, flat_nil]
  | s :: rest, st => by
    simp only [List.foldl_cons]
    rw [foldl_feed rest, step_feed, flat_cons, feed_append]

/-- **the bridge**: the lines `Segment.split_lines` produces are exactly (as visible text) the pieces of the flat text,
up to a possible final empty piece — so "every line fits" can be stated on either side. -/
theorem fits_iff_lines (cw : Char → Nat) (w : Nat) (segs : List Seg) :
    Fits cw w segs ↔ ∀ l ∈ splitLines segs, lineLength cw l ≤ w := by
  have key := foldl_feed segs ([], [])
  have hp := pieces_feed (flat segs)
  have habs : absSt (([], []) : Ln × List Ln) = ([], []) := by simp [absSt, flat_nil]
  rw [habs] at key
  rw [← key] at hp
  unfold Fits splitLines
  rw [hp]
  generalize segs.foldl splitLinesStep ([], []) = st
  obtain ⟨cur, acc⟩ := st
  simp only [absSt, List.mem_append, List.mem_map, List.mem_reverse, List.mem_singleton]
  constructor
  · intro h l hl
    rw [lineLength_eq_flat]
    split at hl
    · exact h _ (Or.inl ⟨l, by simpa using hl, rfl⟩)
    · simp only [List.mem_cons] at hl
      rcases hl with rfl | hl
      · exact h _ (Or.inr rfl)
      · exact h _ (Or.inl ⟨l, hl, rfl⟩)
  · intro h p hp
    rcases hp with ⟨l, hl, rfl⟩ | rfl
    · rw [← lineLength_eq_flat]
      apply h
      split <;> simp [hl]
    · by_cases hcur : cur = []
      · subst hcur; simp [flat_nil]
      · rw [← lineLength_eq_flat]
        apply h
        have : cur.isEmpty = false := by cases cur <;> simp_all
        simp [this]

/-! ### `Fits`, `Closed` -/

theorem fits_nil (cw : Char → Nat) (w : Nat) : Fits cw w [] := by
  intro p hp
  simp only [flat_nil, pieces_nil, List.mem_singleton] at hp
  subst hp; simp

theorem closed_nil : Closed ([] : List Seg) := Or.inl rfl

theorem closed_append (a b : List Seg) (ha : Closed a) (hb : Closed b) : Closed (a ++ b) := by
  unfold Closed at *
  rw [flat_append]
  rcases hb with hb | hb
  · rw [hb, List.append_nil]; exact ha
  · right
    rw [List.getLast?_append, hb]; rfl

/-- anything followed by a line feed segment is closed -/
theorem closed_snoc_nl (a : List Seg) : Closed (a ++ [nl]) := by
  right
  rw [flat_append, flat_nl]
  simp

theorem closed_flatMap {α : Type} (xs : List α) (F : α → List Seg) (h : ∀ x ∈ xs, Closed (F x)) :
    Closed (xs.flatMap F) := by
  induction xs with
  | nil => exact closed_nil
  | cons x xs ih =>
    rw [List.flatMap_cons]
    exact closed_append _ _ (h x (by simp)) (ih (fun y hy => h y (by simp [hy])))

/-- concatenation: if the first stream ends its last line, the lines of `a ++ b` are the lines of `a` and the lines of `b` -/
theorem fits_append (cw : Char → Nat) (w : Nat) (a b : List Seg) (ha : Closed a) (hfa : Fits cw w a)
    (hfb : Fits cw w b) : Fits cw w (a ++ b) := by
  unfold Fits at *
  rw [flat_append]
  rcases ha with ha | ha
  · rw [ha, List.nil_append]; exact hfb
  · obtain ⟨x, hx⟩ := List.getLast?_eq_some_iff.mp ha
    rw [hx] at hfa ⊢
    rw [List.append_assoc, List.singleton_append, pieces_append_nl]
    rw [show x ++ ['\n'] = x ++ '\n' :: [] from rfl, pieces_append_nl] at hfa
    intro p hp
    rcases List.mem_append.mp hp with h | h
    · exact hfa p (List.mem_append.mpr (Or.inl h))
    · exact hfb p h

/-- without the closedness: still true when `b` is empty -/
theorem fits_append_nil_right (cw : Char → Nat) (w : Nat) (a : List Seg) (hfa : Fits cw w a) :
    Fits cw w (a ++ []) := by
  rw [List.append_nil]; exact hfa

/-- a list of lines each followed by a line feed -/
theorem fits_of_lines (cw : Char → Nat) (w : Nat) (Ls : List Ln) (hnl : ∀ l ∈ Ls, ∀ c ∈ flat l, c ≠ '\n')
    (h : ∀ l ∈ Ls, lineLength cw l ≤ w) : Fits cw w (Ls.flatMap (fun l => l ++ [nl])) := by
  induction Ls with
  | nil => exact fits_nil cw w
  | cons l Ls ih =>
    rw [List.flatMap_cons]
    apply fits_append cw w _ _ (closed_snoc_nl l)
    · intro p hp
      rw [flat_append, flat_nl, show flat l ++ ['\n'] = flat l ++ '\n' :: [] from rfl, pieces_append_nl,
        pieces_no_nl _ (hnl l (by simp)), pieces_nil] at hp
      simp only [List.mem_append, List.mem_singleton] at hp
      rcases hp with rfl | rfl
      · rw [← lineLength_eq_flat]; exact h l (by simp)
      · simp
    · exact ih (fun m hm => hnl m (by simp [hm])) (fun m hm => h m (by simp [hm]))

end RichModel.Layout
