import RichModel.Lemmas.Table
/-!
Structure of `Table.renderRow` / `Table.renderBody`: widths of all lines, the order of the cell lines,
what each cell line holds.
-/
namespace RichModel

/-- edge characters are drawn: `_box and show_edge` -/
def Table.edged (t : Table) : Bool := t.box.isSome && t.showEdge
/-- cells of the divider between neighbouring columns: 1 with a box, 0 without -/
def Table.sepLen (t : Table) : Nat := if t.box.isSome then 1 else 0
/-- The cell width of every body line. -/
def Table.bodyWidth (t : Table) (widths : List Nat) : Nat := lineWidth t.edged t.sepLen widths

/-- A structured line that is emitted once and is `W` cells wide. -/
def BodyLine.Good (cw : Char → Nat) (W : Nat) (l : BodyLine) : Prop := l.rep = 1 ∧ cellLen cw l.once = W

theorem BodyLine.Good.text_width {cw : Char → Nat} {W : Nat} {l : BodyLine} (h : l.Good cw W) : cellLen cw l.text = W := by
  rw [text_of_rep_one l h.1]; exact h.2

theorem getRow_good (cw : Char → Nat) (hsp : cw ' ' = 1) (t : Table) (b : Box) (hb : t.box = some b) (hwf : b.wf cw)
    (tag : LineTag) (lv : RowLevel) (widths : List Nat) :
    (b.getRow tag lv t.showEdge widths).Good cw (t.bodyWidth widths) := by
  refine ⟨rfl, ?_⟩
  unfold Box.getRow
  rw [ruleLine_width cw tag _ (Box.levelChars_wf cw hsp b hwf lv)]
  simp [Table.bodyWidth, Table.edged, Table.sepLen, hb]

theorem footSep_good (cw : Char → Nat) (hsp : cw ' ' = 1) (t : Table) (hwf : ∀ b, t.box = some b → b.wf cw)
    (widths : List Nat) (last : Bool) : ∀ l ∈ t.footSep widths last, l.Good cw (t.bodyWidth widths) := by
  intro l hl
  unfold Table.footSep at hl
  split at hl
  · rename_i b hb
    split at hl
    · simp only [List.mem_singleton] at hl; subst hl
      exact getRow_good cw hsp t b hb (hwf b hb) _ _ widths
    · simp at hl
  · simp at hl

theorem headSep_good (cw : Char → Nat) (hsp : cw ' ' = 1) (t : Table) (hwf : ∀ b, t.box = some b → b.wf cw)
    (widths : List Nat) (first : Bool) : ∀ l ∈ t.headSep widths first, l.Good cw (t.bodyWidth widths) := by
  intro l hl
  unfold Table.headSep at hl
  split at hl
  · rename_i b hb
    split at hl
    · simp only [List.mem_singleton] at hl; subst hl
      exact getRow_good cw hsp t b hb (hwf b hb) _ _ widths
    · simp at hl
  · simp at hl

theorem sepLines_good (cw : Char → Nat) (hsp : cw ' ' = 1) (fl : Flags) (hfl : fl.leadingRepeat = false) (t : Table)
    (b : Box) (hb : t.box = some b) (hwf : b.wf cw) (widths : List Nat) :
    ∀ l ∈ t.sepLines fl b widths, l.Good cw (t.bodyWidth widths) := by
  intro l hl
  unfold Table.sepLines at hl
  rw [hfl] at hl
  split at hl
  · simp only [Bool.false_eq_true, if_false] at hl
    have := List.eq_of_mem_replicate hl
    subst this
    exact getRow_good cw hsp t b hb hwf _ _ widths
  · simp only [List.mem_singleton] at hl; subst hl
    exact getRow_good cw hsp t b hb hwf _ _ widths

theorem between_good (cw : Char → Nat) (hsp : cw ' ' = 1) (fl : Flags) (hfl : fl.leadingRepeat = false) (t : Table)
    (hwf : ∀ b, t.box = some b → b.wf cw) (widths : List Nat) (n index : Nat) (first last : Bool) :
    ∀ l ∈ t.between fl widths n index first last, l.Good cw (t.bodyWidth widths) := by
  intro l hl
  unfold Table.between at hl
  split at hl
  · rename_i b hb
    split at hl
    · exact sepLines_good cw hsp fl hfl t b hb (hwf b hb) widths l hl
    · simp at hl
  · simp at hl

theorem cellLine_good (cw : Char → Nat) (hsp : cw ' ' = 1) (h2 : ∀ c, cw c ≤ 2) (t : Table)
    (hwf : ∀ b, t.box = some b → b.wf cw) (widths : List Nat) (first last : Bool) (index : Nat) (row : List Cell)
    (hlen : row.length = widths.length) (k : Nat) (hk : k < (shapeRow cw widths row).1) :
    (t.cellLine cw widths first last index row k).Good cw (t.bodyWidth widths) := by
  have hp := shapeRow_parts cw hsp h2 widths row hlen k hk
  have hpl : ((shapeRow cw widths row).2.map (fun c => c.getD k [])).length = widths.length := by
    have := congrArg List.length hp
    simpa using this
  unfold Table.cellLine
  cases hb : t.box with
  | none =>
    refine ⟨rfl, ?_⟩
    simp only [BodyLine.once, cellLen_append, cellLen_joinSep, hp, hpl]
    simp [Table.bodyWidth, Table.edged, Table.sepLen, hb, lineWidth, cellLen]
  | some b =>
    obtain ⟨hl, _, hd, hr⟩ := Box.rowChars_wf cw b (hwf b hb) first last
    refine ⟨rfl, ?_⟩
    simp only [BodyLine.once, cellLen_append, cellLen_joinSep, hp, hpl]
    cases he : t.showEdge <;>
      simp [Table.bodyWidth, Table.edged, Table.sepLen, hb, he, lineWidth, cellLen, hl, hd, hr] <;> omega

/-- Every line of a row is emitted once and has the table's width. -/
theorem renderRow_good (cw : Char → Nat) (hsp : cw ' ' = 1) (h2 : ∀ c, cw c ≤ 2) (fl : Flags) (hfl : fl.leadingRepeat = false)
    (t : Table) (hwf : ∀ b, t.box = some b → b.wf cw) (widths : List Nat) (n index : Nat) (row : List Cell)
    (hlen : row.length = widths.length) :
    ∀ l ∈ t.renderRow fl cw widths n index row, l.Good cw (t.bodyWidth widths) := by
  intro l hl
  unfold Table.renderRow at hl
  simp only [List.mem_append, List.mem_map, List.mem_range] at hl
  rcases hl with ((hl | ⟨k, hk, rfl⟩) | hl) | hl
  · exact footSep_good cw hsp t hwf widths _ l hl
  · exact cellLine_good cw hsp h2 t hwf widths _ _ index row hlen k hk
  · exact headSep_good cw hsp t hwf widths _ l hl
  · exact between_good cw hsp fl hfl t hwf widths n index _ _ l hl

/-! ### rows -/

theorem zipRows_row_length (cols : List (List Cell)) : ∀ row ∈ zipRows cols, row.length = cols.length := by
  intro row hrow
  unfold zipRows at hrow
  cases cols with
  | nil => simp at hrow
  | cons c cs =>
    simp only [List.mem_map, List.mem_range] at hrow
    obtain ⟨i, _, rfl⟩ := hrow
    simp

theorem mem_zipIdx_fst {α : Type} (l : List α) (x : α × Nat) (h : x ∈ l.zipIdx) : x.1 ∈ l := by
  obtain ⟨a, i⟩ := x
  exact (List.mem_zipIdx h).2.2 ▸ List.getElem_mem _

/-- Every body line is emitted once and is `bodyWidth` cells wide (repaired `leading`). -/
theorem renderBody_good (cw : Char → Nat) (hsp : cw ' ' = 1) (h2 : ∀ c, cw c ≤ 2) (fl : Flags) (hfl : fl.leadingRepeat = false)
    (t : Table) (hwf : ∀ b, t.box = some b → b.wf cw) (widths : List Nat) (hlen : widths.length = t.columns.length) :
    ∀ l ∈ t.renderBody fl cw widths, l.Good cw (t.bodyWidth widths) := by
  intro l hl
  unfold Table.renderBody at hl
  simp only [List.mem_append, List.mem_flatMap] at hl
  rcases hl with (hl | ⟨ri, hri, hl⟩) | hl
  · split at hl
    · rename_i b hb
      split at hl
      · rename_i he
        simp only [List.mem_singleton] at hl; subst hl
        refine ⟨rfl, ?_⟩
        unfold Box.getTop
        rw [ruleLine_width cw _ _ (hwf b hb).1]
        simp [Table.bodyWidth, Table.edged, Table.sepLen, hb, he]
      · simp at hl
    · simp at hl
  · have hrow : ri.1.length = widths.length := by
      have := zipRows_row_length _ ri.1 (mem_zipIdx_fst _ ri hri)
      simpa [hlen] using this
    exact renderRow_good cw hsp h2 fl hfl t hwf widths _ ri.2 ri.1 hrow l hl
  · split at hl
    · rename_i b hb
      split at hl
      · rename_i he
        simp only [List.mem_singleton] at hl; subst hl
        refine ⟨rfl, ?_⟩
        unfold Box.getBottom
        rw [ruleLine_width cw _ _ (hwf b hb).2.2.2.2.2.2.2]
        simp [Table.bodyWidth, Table.edged, Table.sepLen, hb, he]
      · simp at hl
    · simp at hl

/-! ### order of the cell lines -/

/-- `(row, line)` of a cell line; `none` for separators. -/
def BodyLine.cellTag (l : BodyLine) : Option (Nat × Nat) :=
  match l.tag with
  | .cell i k => some (i, k)
  | _ => none

theorem filterMap_cellTag_nil (ls : List BodyLine) (h : ∀ l ∈ ls, l.cellTag = none) : ls.filterMap BodyLine.cellTag = [] := by
  induction ls with
  | nil => rfl
  | cons x xs ih =>
    simp only [List.filterMap_cons, h x (List.mem_cons_self), ih (fun l hl => h l (List.mem_cons_of_mem _ hl))]

theorem footSep_tags (t : Table) (widths : List Nat) (last : Bool) : ∀ l ∈ t.footSep widths last, l.cellTag = none := by
  intro l hl
  unfold Table.footSep at hl
  split at hl
  · split at hl
    · simp only [List.mem_singleton] at hl; subst hl; rfl
    · simp at hl
  · simp at hl

theorem headSep_tags (t : Table) (widths : List Nat) (first : Bool) : ∀ l ∈ t.headSep widths first, l.cellTag = none := by
  intro l hl
  unfold Table.headSep at hl
  split at hl
  · split at hl
    · simp only [List.mem_singleton] at hl; subst hl; rfl
    · simp at hl
  · simp at hl

theorem sepLines_tags (fl : Flags) (t : Table) (b : Box) (widths : List Nat) : ∀ l ∈ t.sepLines fl b widths, l.cellTag = none := by
  intro l hl
  unfold Table.sepLines at hl
  split at hl
  · split at hl
    · simp only [List.mem_singleton] at hl; subst hl; rfl
    · have := List.eq_of_mem_replicate hl
      subst this; rfl
  · simp only [List.mem_singleton] at hl; subst hl; rfl

theorem between_tags (fl : Flags) (t : Table) (widths : List Nat) (n index : Nat) (first last : Bool) :
    ∀ l ∈ t.between fl widths n index first last, l.cellTag = none := by
  intro l hl
  unfold Table.between at hl
  split at hl
  · split at hl
    · exact sepLines_tags fl t _ widths l hl
    · simp at hl
  · simp at hl

theorem cellLine_tag (cw : Char → Nat) (t : Table) (widths : List Nat) (first last : Bool) (index : Nat) (row : List Cell) (k : Nat) :
    (t.cellLine cw widths first last index row k).cellTag = some (index, k) := by
  unfold Table.cellLine
  cases t.box <;> rfl

/-- The cell lines of one row, in order: lines `0 … h-1` of that row. -/
theorem renderRow_tags (fl : Flags) (cw : Char → Nat) (t : Table) (widths : List Nat) (n index : Nat) (row : List Cell) :
    (t.renderRow fl cw widths n index row).filterMap BodyLine.cellTag
      = (List.range (shapeRow cw widths row).1).map (fun k => (index, k)) := by
  unfold Table.renderRow
  simp only [List.filterMap_append]
  rw [filterMap_cellTag_nil _ (footSep_tags t widths _), filterMap_cellTag_nil _ (headSep_tags t widths _),
    filterMap_cellTag_nil _ (between_tags fl t widths n index _ _)]
  simp only [List.nil_append, List.append_nil, List.filterMap_map]
  have : (BodyLine.cellTag ∘ t.cellLine cw widths (index == 0) (index + 1 == n) index row) = (fun k => some (index, k)) := by
    funext k; exact cellLine_tag cw t widths _ _ index row k
  rw [this]
  induction (List.range (shapeRow cw widths row).1) with
  | nil => rfl
  | cons x xs ih => simp [ih]

theorem filterMap_flatMap' {α β γ : Type} (f : β → Option γ) (g : α → List β) : ∀ (l : List α),
    (l.flatMap g).filterMap f = l.flatMap (fun a => (g a).filterMap f)
  | [] => rfl
  | a :: l => by simp only [List.flatMap_cons, List.filterMap_append, filterMap_flatMap' f g l]

/-- The rows `_render` walks: `zip(*columns' cells)`. -/
def Table.rows (t : Table) : List (List Cell) := zipRows (t.columns.map t.getCells)

/-- The cell lines of the whole body, in order: row 0's lines, then row 1's, … (rows as `zip` gives them:
header, the rows in insertion order, footer), each row's lines `0 … h-1`; no other line carries a cell tag. -/
theorem renderBody_tags (fl : Flags) (cw : Char → Nat) (t : Table) (widths : List Nat) :
    (t.renderBody fl cw widths).filterMap BodyLine.cellTag
      = t.rows.zipIdx.flatMap (fun ri => (List.range (shapeRow cw widths ri.1).1).map (fun k => (ri.2, k))) := by
  unfold Table.renderBody Table.rows
  simp only [List.filterMap_append, filterMap_flatMap', renderRow_tags]
  have htop : ∀ (ls : List BodyLine), (∀ l ∈ ls, l.cellTag = none) → ls.filterMap BodyLine.cellTag = [] := filterMap_cellTag_nil
  rw [htop, htop]
  · simp
  · intro l hl
    split at hl
    · split at hl
      · simp only [List.mem_singleton] at hl; subst hl; rfl
      · simp at hl
    · simp at hl
  · intro l hl
    split at hl
    · split at hl
      · simp only [List.mem_singleton] at hl; subst hl; rfl
      · simp at hl
    · simp at hl

/-- A body line tagged `(i, k)` IS line `k` of row `i`: the row exists, `k` is below the row's height, and the
line is built from that row's shaped cells. -/
theorem renderBody_cell_line (fl : Flags) (cw : Char → Nat) (t : Table) (widths : List Nat) (l : BodyLine) (i k : Nat)
    (hl : l ∈ t.renderBody fl cw widths) (htag : l.cellTag = some (i, k)) :
    ∃ row, t.rows[i]? = some row ∧ k < (shapeRow cw widths row).1 ∧
      l = t.cellLine cw widths (i == 0) (i + 1 == t.rows.length) i row k := by
  unfold Table.renderBody at hl
  simp only [List.mem_append, List.mem_flatMap] at hl
  rcases hl with (hl | ⟨ri, hri, hl⟩) | hl
  · exfalso
    split at hl
    · split at hl
      · simp only [List.mem_singleton] at hl; subst hl; simp [BodyLine.cellTag, Box.getTop, ruleLine] at htag
      · simp at hl
    · simp at hl
  · obtain ⟨row, idx⟩ := ri
    have hidx := List.mem_zipIdx hri
    simp only [Nat.zero_add] at hidx
    unfold Table.renderRow at hl
    simp only [List.mem_append, List.mem_map, List.mem_range] at hl
    rcases hl with ((hl | ⟨k', hk', rfl⟩) | hl) | hl
    · have := footSep_tags t widths _ l hl; rw [this] at htag; cases htag
    · rw [cellLine_tag] at htag
      simp only [Option.some.injEq, Prod.mk.injEq] at htag
      obtain ⟨rfl, rfl⟩ := htag
      refine ⟨row, ?_, hk', rfl⟩
      unfold Table.rows
      rw [List.getElem?_eq_getElem hidx.2.1]
      have := hidx.2.2
      simp only [Nat.sub_zero] at this
      exact congrArg some this.symm
    · have := headSep_tags t widths _ l hl; rw [this] at htag; cases htag
    · have := between_tags fl t widths _ _ _ _ l hl; rw [this] at htag; cases htag
  · exfalso
    split at hl
    · split at hl
      · simp only [List.mem_singleton] at hl; subst hl; simp [BodyLine.cellTag, Box.getBottom, ruleLine] at htag
      · simp at hl
    · simp at hl

/-- Cells of the left edge of a cell line. -/
def Table.leftLen (t : Table) : Nat := if t.edged then 1 else 0

/-- Column `j` starts at this cell offset in every cell line: the left edge, the earlier columns and one
divider per earlier column. -/
def Table.colOffset (t : Table) (widths : List Nat) (j : Nat) : Nat := t.leftLen + (widths.take j).sum + j * t.sepLen

/-- In line `k` of a row, column `j`'s part — line `k` of that cell shaped to the column width — sits
exactly in column `j`'s span of cells: `text = pre ++ part ++ post`, `pre` is `colOffset j` cells wide and
the part is `widths[j]` cells wide. -/
theorem cellLine_column (cw : Char → Nat) (hsp : cw ' ' = 1) (h2 : ∀ c, cw c ≤ 2) (t : Table)
    (hwf : ∀ b, t.box = some b → b.wf cw) (widths : List Nat) (first last : Bool) (index : Nat) (row : List Cell)
    (hlen : row.length = widths.length) (k : Nat) (hk : k < (shapeRow cw widths row).1) (j : Nat) (hj : j < widths.length) :
    let line := t.cellLine cw widths first last index row k
    ∃ (hjp : j < line.parts.length) (pre post : List Char),
      line.text = pre ++ line.parts[j] ++ post ∧ cellLen cw pre = t.colOffset widths j ∧ cellLen cw line.parts[j] = widths[j] ∧
      line.parts = (shapeRow cw widths row).2.map (fun c => c.getD k []) := by
  intro line
  have hp := shapeRow_parts cw hsp h2 widths row hlen k hk
  have hparts : line.parts = (shapeRow cw widths row).2.map (fun c => c.getD k []) := by
    simp only [line]; unfold Table.cellLine; cases t.box <;> rfl
  have hpl : line.parts.length = widths.length := by
    rw [hparts]; have := congrArg List.length hp; simpa using this
  have hjp : j < line.parts.length := by omega
  have hpw : (line.parts.map (cellLen cw)) = widths := by rw [hparts]; exact hp
  have hpj : cellLen cw line.parts[j] = widths[j] := by
    have : (line.parts.map (cellLen cw))[j]'(by simpa using hjp) = widths[j] := by simp only [hpw]
    simpa using this
  obtain ⟨pre, post, hsplit, hpre⟩ := joinSep_split cw line.sep line.parts j hjp
  have htake : ((line.parts.take j).map (cellLen cw)).sum = (widths.take j).sum := by
    rw [List.map_take, hpw]
  have hgood := cellLine_good cw hsp h2 t hwf widths first last index row hlen k hk
  refine ⟨hjp, line.left ++ pre, post ++ line.right, ?_, ?_, hpj, hparts⟩
  · rw [text_of_rep_one line hgood.1]
    simp only [BodyLine.once, hsplit, List.append_assoc]
  · rw [cellLen_append, hpre, htake]
    simp only [line]
    unfold Table.cellLine Table.colOffset Table.leftLen Table.edged Table.sepLen
    cases hb : t.box with
    | none => simp [cellLen]
    | some b =>
      obtain ⟨hl, _, hd, _⟩ := Box.rowChars_wf cw b (hwf b hb) first last
      cases he : t.showEdge <;> simp [cellLen, hl, hd] <;> omega

/-- Column `j` of a shaped row is that cell's rendered lines at the column's width, `set_shape`d to the row height. -/
theorem shapeRow_getElem (cw : Char → Nat) (widths : List Nat) (row : List Cell) (hlen : row.length = widths.length)
    (j : Nat) (hj : j < widths.length) :
    (shapeRow cw widths row).2[j]? =
      some (shapeCell cw widths[j] (shapeRow cw widths row).1 ((row[j]'(by omega)).renderLines widths[j])) := by
  unfold shapeRow
  simp only
  have hr : ((widths.zip row).map (fun wc => wc.2.renderLines wc.1))[j]? = some ((row[j]'(by omega)).renderLines widths[j]) := by
    rw [List.getElem?_map]
    have : (widths.zip row)[j]? = some (widths[j], row[j]'(by omega)) :=
      List.getElem?_zip_eq_some.2 ⟨List.getElem?_eq_getElem hj, List.getElem?_eq_getElem (by omega)⟩
    rw [this]; rfl
  rw [List.getElem?_map]
  have : (widths.zip ((widths.zip row).map (fun wc => wc.2.renderLines wc.1)))[j]?
      = some (widths[j], (row[j]'(by omega)).renderLines widths[j]) :=
    List.getElem?_zip_eq_some.2 ⟨List.getElem?_eq_getElem hj, hr⟩
  rw [this]; rfl

/-- No cell is taller than its row. -/
theorem cell_height_le (cw : Char → Nat) (widths : List Nat) (row : List Cell) (hlen : row.length = widths.length)
    (j : Nat) (hj : j < widths.length) :
    ((row[j]'(by omega)).renderLines widths[j]).length ≤ (shapeRow cw widths row).1 := by
  unfold shapeRow
  simp only
  apply (rowHeight_ge _).2
  rw [List.mem_map]
  refine ⟨(widths[j], row[j]'(by omega)), ?_, rfl⟩
  rw [List.mem_iff_getElem]
  exact ⟨j, by simp; omega, by simp⟩

/-! ### the rows of a rectangular table -/

theorem foldl_min_const (n : Nat) : ∀ (ls : List (List Cell)), (∀ l ∈ ls, l.length = n) →
    ls.foldl (fun m l => min m l.length) n = n
  | [], _ => rfl
  | l :: ls, h => by
    simp only [List.foldl_cons, h l (by simp), Nat.min_self]
    exact foldl_min_const n ls (fun x hx => h x (List.mem_cons_of_mem _ hx))

theorem getCells_length (t : Table) (c : Column) :
    (t.getCells c).length = (if t.showHeader then 1 else 0) + c.cells.length + (if t.showFooter then 1 else 0) := by
  unfold Table.getCells
  cases t.showHeader <;> cases t.showFooter <;> simp <;> omega

theorem zipRows_rect (t : Table) (m : Nat) (cols : List Column) (hne : cols ≠ []) (hm : ∀ c ∈ cols, c.cells.length = m) :
    zipRows (cols.map t.getCells) =
      (List.range ((if t.showHeader then 1 else 0) + m + (if t.showFooter then 1 else 0))).map
        (fun i => cols.map (fun c => (t.getCells c).getD i default)) := by
  cases cols with
  | nil => exact absurd rfl hne
  | cons c0 cs =>
    have hlen : ∀ l ∈ (cs.map t.getCells), l.length = (t.getCells c0).length := by
      intro l hl
      simp only [List.mem_map] at hl
      obtain ⟨c, hcm, rfl⟩ := hl
      rw [getCells_length, getCells_length, hm c (List.mem_cons_of_mem _ hcm), hm c0 (by simp)]
    unfold zipRows
    simp only [List.map_cons]
    rw [foldl_min_const _ _ hlen, getCells_length, hm c0 (by simp)]
    simp

/-- For a table whose columns all hold `m` cells (every table built with `add_row` only), the rows `_render`
walks are: the header row (if shown), then row `0 … m-1` of the cells IN INSERTION ORDER, then the footer row
(if shown). -/
theorem rows_rectangular (t : Table) (m : Nat) (hne : t.columns ≠ []) (hrect : ∀ c ∈ t.columns, c.cells.length = m) :
    t.rows = (if t.showHeader then [t.columns.map (·.header)] else [])
      ++ (List.range m).map (fun r => t.columns.map (fun c => c.cells.getD r default))
      ++ (if t.showFooter then [t.columns.map (·.footer)] else []) := by
  unfold Table.rows
  rw [zipRows_rect t m t.columns hne hrect]
  have hm := hrect
  generalize t.columns = cols at hm
  cases hh : t.showHeader <;> cases hf : t.showFooter <;>
    simp only [if_true, if_false, Bool.false_eq_true, Nat.zero_add, Nat.add_zero, List.nil_append, List.append_nil]
  · apply List.map_congr_left
    intro i hi
    apply List.map_congr_left
    intro c hcm
    simp [Table.getCells, hh, hf]
  · rw [List.range_succ, List.map_append]
    congr 1
    · apply List.map_congr_left
      intro i hi
      have hi := List.mem_range.1 hi
      apply List.map_congr_left
      intro c hcm
      have := hm c hcm
      simp [Table.getCells, hh, hf, List.getD_eq_getElem?_getD, List.getElem?_append_left (show i < c.cells.length by omega)]
    · simp only [List.map_cons, List.map_nil, List.cons.injEq, and_true]
      apply List.map_congr_left
      intro c hcm
      have := hm c hcm
      simp [Table.getCells, hh, hf, List.getD_eq_getElem?_getD, ← this]
  · rw [Nat.add_comm 1 m, List.range_succ_eq_map, List.map_cons, List.map_map]
    congr 1
    · apply List.map_congr_left
      intro c hcm
      simp [Table.getCells, hh, hf]
    · apply List.map_congr_left
      intro i hi
      apply List.map_congr_left
      intro c hcm
      simp [Table.getCells, hh, hf]
  · rw [show 1 + m + 1 = (m + 1) + 1 by omega, List.range_succ, List.map_append, List.range_succ_eq_map, List.map_cons, List.map_map]
    simp only [List.cons_append, List.map_cons, List.map_nil]
    congr 1
    · apply List.map_congr_left
      intro c hcm
      simp [Table.getCells, hh, hf]
    · congr 1
      · apply List.map_congr_left
        intro i hi
        have hi := List.mem_range.1 hi
        apply List.map_congr_left
        intro c hcm
        have := hm c hcm
        simp [Table.getCells, hh, hf, List.getD_eq_getElem?_getD, List.getElem?_append_left (show i < c.cells.length by omega)]
      · simp only [List.cons.injEq, and_true]
        apply List.map_congr_left
        intro c hcm
        have := hm c hcm
        simp [Table.getCells, hh, hf, List.getD_eq_getElem?_getD, ← this]

end RichModel
