import RichModel.Lemmas.SyntaxRows
import RichModel.Model.SyntaxWrap
/-
Helper lemmas for property C17, part 11: what the gutter of a numbered row holds (pointer or blanks, the right-justified
number, one blank), and the gutters of word-wrapped rows (`numberFolded`): the number on the FIRST row of a logical line,
`numbers_column_width + 1` blanks on its continuation rows, numbers advancing once per logical line.
-/
namespace RichModel.Syntax

/-- the gutter of a numbered row: `line_pointer` or two blanks, `str(line_no).rjust(numbers_column_width - 2)`, `" "` -/
def numberGutter (ncw : Nat) (legacy : Bool) (num : Nat) (marked : Bool) : Line :=
  (if marked then pointer legacy else [' ', ' ']) ++ rjust (natStr num) (ncw - 2) ++ [' ']

/-- `padding = " " * numbers_column_width + " "` -/
def blankGutter (ncw : Nat) : Line := List.replicate (ncw + 1) ' '

theorem numberGutter_length (ncw : Nat) (legacy : Bool) (num : Nat) (marked : Bool) (h : (natStr num).length + 2 ≤ ncw) :
    (numberGutter ncw legacy num marked).length = ncw + 1 := by
  have h1 : (if marked then pointer legacy else [' ', ' ']).length = 2 := by
    split
    · exact pointer_length legacy
    · rfl
  simp only [numberGutter, List.length_append, h1, rjust, List.length_replicate, List.length_cons, List.length_nil]
  omega

theorem Row.render_eq_gutter (ncw : Nat) (legacy : Bool) (r : Row) :
    r.render ncw legacy = numberGutter ncw legacy r.num r.marked ++ r.body := by
  simp [Row.render, numberGutter]

/-- the gutters of the rows `numberFolded` writes -/
def gutters (ncw : Nat) (legacy : Bool) (hl : List Nat) : Nat → List (List Line) → List Line
  | _, [] => []
  | n, bs :: rest =>
    (match bs with
     | [] => []
     | _ :: more => numberGutter ncw legacy n (hl.contains n) :: more.map (fun _ => blankGutter ncw)) ++
    gutters ncw legacy hl (n + 1) rest

theorem numberFolded_spec (ncw : Nat) (legacy : Bool) (hl : List Nat) :
    ∀ (bodies : List (List Line)) (n : Nat), (∀ i, i < bodies.length → (natStr (n + i)).length + 2 ≤ ncw) →
      (numberFolded ncw legacy hl n bodies).map (List.drop (ncw + 1)) = bodies.flatten ∧
      (numberFolded ncw legacy hl n bodies).map (List.take (ncw + 1)) = gutters ncw legacy hl n bodies
  | [], _, _ => ⟨rfl, rfl⟩
  | bs :: rest, n, h => by
    have ih := numberFolded_spec ncw legacy hl rest (n + 1) (fun i hi => by
      have := h (i + 1) (by simp; omega)
      rwa [show n + (i + 1) = n + 1 + i by omega] at this)
    have h0 : (natStr n).length + 2 ≤ ncw := by simpa using h 0 (by simp)
    unfold numberFolded gutters
    rw [List.map_append, List.map_append, ih.1, ih.2, List.flatten_cons]
    cases bs with
    | nil => exact ⟨rfl, rfl⟩
    | cons b more =>
      have hlen := numberGutter_length ncw legacy n (hl.contains n) h0
      have hblank : ∀ (b' : Line), (List.replicate (ncw + 1) ' ' ++ b').drop (ncw + 1) = b' ∧
          (List.replicate (ncw + 1) ' ' ++ b').take (ncw + 1) = blankGutter ncw := by
        intro b'
        constructor
        · rw [List.drop_append_of_le_length (by simp)]; simp
        · rw [List.take_append_of_le_length (by simp)]; simp [blankGutter]
      constructor
      · congr 1
        simp only [renderFolded, List.map_cons, List.map_map, Row.render_eq_gutter]
        rw [List.drop_append_of_le_length (by omega), List.drop_of_length_le (by omega)]
        simp only [List.nil_append, List.cons.injEq, true_and]
        conv => rhs; rw [← List.map_id more]
        apply List.map_congr_left
        intro b' _
        exact (hblank b').1
      · congr 1
        simp only [renderFolded, List.map_cons, List.map_map, Row.render_eq_gutter]
        rw [List.take_append_of_le_length (by omega), List.take_of_length_le (by omega)]
        simp only [List.cons.injEq, true_and]
        apply List.map_congr_left
        intro b' _
        exact (hblank b').2

theorem sequenceOpt_length {α : Type} : ∀ (l : List (Option α)) (bs : List α), sequenceOpt l = some bs → bs.length = l.length
  | [], bs, h => by simp [sequenceOpt] at h; subst h; rfl
  | none :: _, _, h => by simp [sequenceOpt] at h
  | some a :: rest, bs, h => by
    simp only [sequenceOpt, Option.map_eq_some_iff] at h
    obtain ⟨bs', h1, rfl⟩ := h
    simp [sequenceOpt_length rest bs' h1]

/-- the numbered word-wrap branch of `renderW`: the rows are `numberFolded` of one list of folded rows per selected line -/
theorem renderW_wrapped_numbered (wv : Wrap.WVariant) (cw : Char → Nat) (sr rp : Bool) (o : Opts) (found : Bool)
    (lex : List Char → List Line) (code : List Char) (rows : List Line)
    (hww : o.wordWrap = true) (hn : o.lineNumbers = true) (hroom : ¬ codeWidthInt o code < 1)
    (h : renderW wv cw sr rp o found lex code = some (.ok rows)) :
    ∃ lines bodies, selectedLines sr rp o found lex code = .ok lines ∧ bodies.length = lines.length ∧
      rows = numberFolded (numbersColumnWidth o code) o.legacyWindows o.highlightLines (o.startLine + lineOffset o) bodies := by
  unfold renderW at h
  simp only [hww, hn, Bool.not_true, Bool.false_and, Bool.false_eq_true, if_false, if_true] at h
  split at h
  · cases h
  · split at h
    · cases h
    · rename_i lines hsel
      simp only [hroom, decide_false, Bool.false_eq_true, if_false] at h
      split at h
      · cases h
      · rename_i bodies hseq
        have hl := sequenceOpt_length _ _ hseq
        rw [List.length_map] at hl
        refine ⟨lines, bodies, hsel, hl, ?_⟩
        simp only [Option.some.injEq, Except.ok.injEq] at h
        exact h.symm

end RichModel.Syntax
