import RichModel.Lemmas.LayoutTableBody
import RichModel.Lemmas.LayoutTableRatio
/-!
The C07 `Table` behind `tableConsole` (`toTable`): it satisfies the hypotheses of `Dep.width_fits` (and of `width_fits_ratio`,
its extension to ratio columns) when the columns are free to wrap and the cells measure `0 ≤ maximum`; the table with the stored lines (`tb_tbR`) has
the same shape, and the shaped rows are what `tb_bodyLine_ok` asks for.
-/
namespace RichModel.Layout
open RichModel RichModel.Frames

/-- the measured maximum of a child is never negative -/
def tb_MeasOk (ch : Ch) : Prop := ∀ k : Nat, 0 ≤ (ch.measure k).maximum

def tb_CellOk (c : Cell) : Prop := ∀ k : Nat, 0 ≤ (c.measure k).maximum

theorem tb_getPost_max_nonneg (w : Int) (m : Option Measurement) : 0 ≤ (Measurement.getPost w m).maximum :=
  Int.le_trans (Measurement.getPost_ok w m).1 (Measurement.getPost_ok w m).2.1

theorem tb_asChild_ok (console : Int → List Seg) (rm : Int → Measurement) : tb_MeasOk (asChild console rm) := by
  intro k
  exact tb_getPost_max_nonneg _ _

theorem tb_padCell_ok (cfg : Cfg) (tb : Table) (a b c d : Bool) (ch : Ch) (h : tb_MeasOk ch) :
    tb_MeasOk (padCell cfg tb a b c d ch) := by
  unfold padCell
  split
  · exact h
  · exact tb_asChild_ok _ _

theorem tb_paddedCol_ok (cfg : Cfg) (tb : Table) (n j : Nat) (c : ColS)
    (h : ∀ ch ∈ c.header :: c.footer :: c.cells, tb_MeasOk ch) : ∀ ch ∈ paddedCol cfg tb n j c, tb_MeasOk ch := by
  intro ch hch
  simp only [paddedCol, List.mem_map] at hch
  obtain ⟨ci, hci, rfl⟩ := hch
  apply tb_padCell_ok
  apply h
  have hm : ci.1 ∈ rawCells tb c := mem_zipIdx_fst _ ci hci
  unfold rawCells at hm
  simp only [List.mem_append] at hm
  rcases hm with (hm | hm) | hm
  · split at hm
    · simp only [List.mem_singleton] at hm; rw [hm]; simp
    · simp at hm
  · simp [hm]
  · split at hm
    · simp only [List.mem_singleton] at hm; rw [hm]; simp
    · simp at hm

theorem tb_paddedCols_ok (cfg : Cfg) (tb : Table) (cols : List ColS)
    (h : ∀ c ∈ cols, ∀ ch ∈ c.header :: c.footer :: c.cells, tb_MeasOk ch) :
    ∀ pc ∈ paddedCols cfg tb cols, ∀ ch ∈ pc, tb_MeasOk ch := by
  intro pc hpc
  simp only [paddedCols, List.mem_map] at hpc
  obtain ⟨cj, hcj, rfl⟩ := hpc
  exact tb_paddedCol_ok cfg tb _ _ _ (h cj.1 (mem_zipIdx_fst _ cj hcj))

theorem tb_paddedCols_length (cfg : Cfg) (tb : Table) (cols : List ColS) : (paddedCols cfg tb cols).length = cols.length := by
  simp [paddedCols]

theorem tb_default_cellOk : tb_CellOk (default : Cell) := by
  intro k; exact Int.le_refl 0

/-- the cells `_get_cells` finds in a column built by `toColumnC` are the given cells (or the empty default) -/
theorem tb_getCells_toColumnC (t tb : Table) (c : ColS) (pc : List Cell) (h : ∀ x ∈ pc, tb_CellOk x) :
    ∀ cell ∈ t.getCells (toColumnC tb c pc), tb_CellOk cell := by
  intro cell hcell
  unfold Table.getCells toColumnC at hcell
  simp only [List.mem_append] at hcell
  rcases hcell with (hc | hc) | hc
  · split at hc
    · simp only [List.mem_singleton] at hc
      rw [hc]
      split
      · rcases tb_getD_mem_or pc 0 default with h0 | h0
        · rw [h0]; exact tb_default_cellOk
        · exact h _ h0
      · exact tb_default_cellOk
    · simp at hc
  · exact h _ (List.mem_of_mem_drop (List.mem_of_mem_take hc))
  · split at hc
    · simp only [List.mem_singleton] at hc
      rw [hc]
      split
      · cases hl : pc.getLast? with
        | none => exact tb_default_cellOk
        | some x => exact h x (List.mem_of_getLast? hl)
      · exact tb_default_cellOk
    · simp at hc

theorem tb_toCell_ok (cfg : Cfg) (ch : Ch) (h : tb_MeasOk ch) : tb_CellOk (toCell cfg ch) := h

/-! ### `toTable` -/

theorem tb_toTable_columns_length (cfg : Cfg) (o : TableOpts) (cols : List ColS) :
    (toTable cfg o cols).columns.length = cols.length := by
  simp [toTable, tb_paddedCols_length]

theorem tb_mem_toTable_columns (cfg : Cfg) (o : TableOpts) (cols : List ColS) (c : Column)
    (hc : c ∈ (toTable cfg o cols).columns) :
    ∃ cs ∈ cols, ∃ pc ∈ paddedCols cfg o.skel cols, c = toColumn cfg o.skel cs pc := by
  simp only [toTable, List.mem_map] at hc
  obtain ⟨cp, hcp, rfl⟩ := hc
  have := List.of_mem_zip hcp
  exact ⟨cp.1, this.1, cp.2, this.2, rfl⟩

theorem tb_paddingWidth_nonneg' (t : Table) (idx : Nat) (h1 : 0 ≤ t.padding.2.1) (h2 : 0 ≤ t.padding.2.2.2) :
    0 ≤ t.paddingWidth idx := by
  unfold Table.paddingWidth
  simp only
  split <;> omega

theorem tb_paddingWidth_nonneg (cfg : Cfg) (o : TableOpts) (cols : List ColS) (idx : Nat) :
    0 ≤ (toTable cfg o cols).paddingWidth idx :=
  tb_paddingWidth_nonneg' _ idx (Int.natCast_nonneg o.padding.right) (Int.natCast_nonneg o.padding.left)

theorem tb_toTable_allFree (cfg : Cfg) (o : TableOpts) (cols : List ColS)
    (hfree : ∀ c ∈ cols, c.o.width = none ∧ c.o.minWidth = none)
    (hmeas : ∀ c ∈ cols, ∀ ch ∈ c.header :: c.footer :: c.cells, tb_MeasOk ch) : (toTable cfg o cols).AllFree := by
  intro ci hci
  obtain ⟨cs, hcs, pc, hpc, heq⟩ := tb_mem_toTable_columns cfg o cols ci.1 (mem_indexed _ ci hci)
  have hpcok := tb_paddedCols_ok cfg o.skel cols hmeas pc hpc
  refine ⟨?_, ?_, ?_, ?_⟩
  · rw [heq]; simp [toColumn, toColumnC, (hfree cs hcs).1]
  · rw [heq]; simp [toColumn, toColumnC, (hfree cs hcs).2]
  · rw [heq]
    unfold toColumn
    apply tb_getCells_toColumnC
    intro x hx
    obtain ⟨ch, hch, rfl⟩ := List.mem_map.mp hx
    exact tb_toCell_ok cfg ch (hpcok ch hch)
  · intro m hm
    rw [heq] at hm
    have hpw := tb_paddingWidth_nonneg cfg o cols ci.2
    simp only [toColumn, toColumnC] at hm
    cases hmw : cs.o.maxWidth with
    | none => rw [hmw] at hm; simp at hm
    | some n =>
      rw [hmw] at hm
      simp only [Option.map_some, Option.some.injEq] at hm
      subst hm
      have : (0 : Int) ≤ Int.ofNat n := Int.natCast_nonneg n
      omega

theorem tb_toTable_expand (cfg : Cfg) (o : TableOpts) (cols : List ColS) :
    (toTable cfg o cols).expand = (o.expand || o.width.isSome) := by
  unfold Table.expand
  simp only [toTable, TableOpts.skel]
  cases o.width <;> rfl

theorem tb_toTable_noRatio (cfg : Cfg) (o : TableOpts) (cols : List ColS)
    (hfree : ∀ c ∈ cols, c.o.free (o.expand || o.width.isSome)) : (toTable cfg o cols).NoRatio := by
  cases he : (o.expand || o.width.isSome) with
  | false => left; rw [tb_toTable_expand, he]
  | true =>
    right
    intro c hc
    obtain ⟨cs, hcs, pc, _, rfl⟩ := tb_mem_toTable_columns cfg o cols c hc
    have := (hfree cs hcs).2.2.2
    rw [he] at this
    rcases this with h | h
    · cases h
    · simp only [toColumn, toColumnC]
      cases hr : cs.o.ratio with
      | none => rfl
      | some r =>
        rw [hr] at h
        simp only [Option.getD_some] at h
        subst h
        rfl

/-- Ratio columns are allowed: when the table expands no column has `ratio=0` (a `Column.ratio` is a `Nat` here, so every
ratio that is set is then at least 1); when it does not expand the ratios are ignored by `_calculate_column_widths`. -/
theorem tb_toTable_ratiosPos (cfg : Cfg) (o : TableOpts) (cols : List ColS)
    (hfree : ∀ c ∈ cols, (o.expand || o.width.isSome) = false ∨ c.o.ratio ≠ some 0) :
    (toTable cfg o cols).expand = false ∨ (toTable cfg o cols).RatiosPos := by
  cases he : (o.expand || o.width.isSome) with
  | false => left; rw [tb_toTable_expand, he]
  | true =>
    right
    intro c hc r hr
    obtain ⟨cs, hcs, pc, _, rfl⟩ := tb_mem_toTable_columns cfg o cols c hc
    have h := hfree cs hcs
    rw [he] at h
    rcases h with h | h
    · cases h
    · simp only [toColumn, toColumnC] at hr
      cases hrr : cs.o.ratio with
      | none => rw [hrr] at hr; simp at hr
      | some n =>
        rw [hrr] at hr h
        simp only [Option.map_some, Option.some.injEq] at hr
        subst hr
        have hn : n ≠ 0 := fun h0 => h (by rw [h0])
        show (1 : Int) ≤ Int.ofNat n
        have : (Int.ofNat n) = (n : Int) := rfl
        omega

theorem tb_toTable_noWrap (cfg : Cfg) (o : TableOpts) (cols : List ColS)
    (hfree : ∀ c ∈ cols, c.o.noWrap = false) : ∀ c ∈ (toTable cfg o cols).columns, c.noWrap = false := by
  intro c hc
  obtain ⟨cs, hcs, pc, _, rfl⟩ := tb_mem_toTable_columns cfg o cols c hc
  exact hfree cs hcs

theorem tb_extraWidth_le' (t : Table) (n : Nat) (hn : t.columns.length = n) (h1 : 1 ≤ n) (q : Bool)
    (hq : t.box.isSome = true → q = true) :
    0 ≤ t.extraWidth ∧ t.extraWidth ≤ (((if q && t.showEdge then 2 else 0) + (if q then n - 1 else 0) : Nat) : Int) := by
  unfold Table.extraWidth
  rw [hn]
  generalize t.box.isSome = p at hq ⊢
  cases p <;> cases q <;> cases t.showEdge <;> simp at hq ⊢ <;> omega

/-- `_extra_width` of any table with these options and `n ≥ 1` columns: at most the edges and dividers -/
theorem tb_extraWidth_skel (o : TableOpts) (columns : List Column) (n : Nat) (hn : columns.length = n) (h1 : 1 ≤ n) :
    0 ≤ ({ o.skel with columns := columns } : Table).extraWidth ∧
    ({ o.skel with columns := columns } : Table).extraWidth ≤ (tableExtra o n : Int) := by
  have hq : (o.box.bind boxOf).isSome = true → o.box.isSome = true := by
    cases o.box <;> simp
  exact tb_extraWidth_le' ({ o.skel with columns := columns } : Table) n hn h1 o.box.isSome hq

theorem tb_width_skel (o : TableOpts) (columns : List Column) :
    ({ o.skel with columns := columns } : Table).width = o.width.map Int.ofNat := rfl

/-! ### the boxes of rich/box.py -/

theorem tb_boxOf_wf (cw : Char → Nat) (hcw : cw = cwD) (o : TableOpts) (b : RichModel.Box)
    (h : o.box.bind boxOf = some b) : b.wf cw := by
  subst hcw
  cases hb : o.box with
  | none => rw [hb] at h; cases h
  | some i =>
    rw [hb] at h
    simp only [Option.bind_some, boxOf] at h
    cases he : Gen.tableBoxes[i]? with
    | none => rw [he] at h; cases h
    | some e =>
      rw [he] at h
      simp only [Option.bind_some] at h
      obtain ⟨b', hb', hwf⟩ := Dep.boxes_all_wf e (List.mem_of_getElem? he)
      rw [hb'] at h
      cases h
      exact hwf

/-! ### the table of stored lines -/

def tb_rendered (cfg : Cfg) (o : TableOpts) (cols : List ColS) (widths : List Nat) : List (List (List Ln)) :=
  (widths.zip (paddedCols cfg o.skel cols)).map (fun wp => wp.2.map (fun ch => ch.linesAt cfg.cw (wp.1 : Int) true))

def tb_tbR (o : TableOpts) (cols : List ColS) (rendered : List (List (List Ln))) : Table :=
  { o.skel with columns := (cols.zip rendered).map (fun cr => toColumnC o.skel cr.1 (cr.2.map renderedCell)) }

def tb_shaped (cw : Char → Nat) (widths : List Nat) (rendered : List (List (List Ln))) : List (List (List Ln)) :=
  (List.range (rowCount rendered)).map (fun i => shapeRowS cw widths (rendered.map (fun c => c.getD i [])))

theorem tb_rendered_length (cfg : Cfg) (o : TableOpts) (cols : List ColS) (widths : List Nat)
    (h : widths.length = cols.length) : (tb_rendered cfg o cols widths).length = cols.length := by
  simp [tb_rendered, tb_paddedCols_length, h]

theorem tb_tbR_columns_length (o : TableOpts) (cols : List ColS) (rendered : List (List (List Ln)))
    (h : rendered.length = cols.length) : (tb_tbR o cols rendered).columns.length = cols.length := by
  simp [tb_tbR, h]

theorem tb_rendered_nlFree (cfg : Cfg) (hsp : cfg.cw ' ' = 1) (h2 : ∀ c, cfg.cw c ≤ 2) (o : TableOpts) (cols : List ColS)
    (widths : List Nat) : ∀ c ∈ tb_rendered cfg o cols widths, ∀ cell ∈ c, ∀ l ∈ cell, NlFree l := by
  intro c hc cell hcell l hl
  simp only [tb_rendered, List.mem_map] at hc
  obtain ⟨wp, _, rfl⟩ := hc
  obtain ⟨ch, _, rfl⟩ := List.mem_map.mp hcell
  exact renderLines_nlFree cfg.cw hsp h2 _ _ true l hl

theorem tb_shaped_ok (cw : Char → Nat) (widths : List Nat) (rendered : List (List (List Ln)))
    (h : ∀ c ∈ rendered, ∀ cell ∈ c, ∀ l ∈ cell, NlFree l) : tb_ShapedOk cw widths (tb_shaped cw widths rendered) := by
  intro i
  unfold tb_shaped
  rw [List.getD_eq_getElem?_getD, List.getElem?_map]
  by_cases hi : i < rowCount rendered
  · right
    refine ⟨rendered.map (fun c => c.getD i []), ?_, ?_⟩
    · intro cell hcell l hl
      obtain ⟨c, hc, rfl⟩ := List.mem_map.mp hcell
      rcases tb_getD_mem_or c i [] with h0 | h0
      · rw [h0] at hl; simp at hl
      · exact h c hc _ h0 l hl
    · rw [List.getElem?_range hi]; rfl
  · left
    rw [List.getElem?_eq_none (by simp; omega)]; rfl

end RichModel.Layout
