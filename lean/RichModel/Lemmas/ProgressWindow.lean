import RichModel.Lemmas.ProgressInv
/-!
The sample window of `Task.speed`: the two pruning loops of `update` / `advance`
(`while _progress and _progress[0].timestamp < old_sample_time: popleft()` and
`while len(_progress) > 1000: popleft()`) as invariants of whole histories.

* on a monotone clock with a non-negative `speed_estimate_period`, the deque is sorted by timestamp and
  its first and last sample are never further apart than the period (`WOK`);
* on any clock, the deque never holds more than `1000 + 1` samples (`LenOK`: pruned to 1000, then one
  sample appended).
-/
namespace RichModel.Progress

/-- a per-task predicate on the sample deque, indexed by the clock counter, that is monotone in the
counter, holds of the empty deque and is kept by the effect of every operation on its task, is kept by
every operation on the task table -/
theorem body_samplesInv (cfg : Cfg) (clock : Clock) (Q : Nat → List Sample → Prop)
    (hmono : ∀ K K' l, K ≤ K' → Q K l → Q K' l) (hnil : ∀ K, Q K [])
    (heff : ∀ (op : Op) (o : Nat) (t : Task) (k : Nat), Q k t.samples →
      Q (taskEffect cfg clock op none o t k).2 (taskEffect cfg clock op none o t k).1.samples)
    (op : Op) (st : State) (h : ∀ t ∈ st.tasks, Q st.clk t.samples) :
    ∀ t ∈ (body cfg clock op none st).st.tasks, Q (body cfg clock op none st).st.clk t.samples := by
  have hclk := body_clk_ge cfg clock op st
  by_cases hrm : ∃ i, op = .removeTask i
  · obtain ⟨i, rfl⟩ := hrm
    simp only [body]
    cases hl : lookup st.tasks i with
    | none => exact h
    | some x =>
      intro t ht
      simp only at ht
      exact h t (List.mem_filter.mp ht).1
  · have hr : ∀ i, op ≠ .removeTask i := fun i hi => hrm ⟨i, hi⟩
    cases htg : op.target with
    | none =>
      cases op with
      | addTask a =>
        intro t ht
        simp only [body, List.mem_append, List.mem_singleton] at ht hclk ⊢
        rcases ht with ht | rfl
        · exact hmono _ _ _ hclk (h t ht)
        · exact hnil _
      | refresh => intro t ht; exact hmono _ _ _ hclk (h t ht)
      | start =>
        intro t ht
        have ht' : t ∈ st.tasks := by simp only [body] at ht; split at ht <;> exact ht
        exact hmono _ _ _ hclk (h t ht')
      | stop =>
        intro t ht
        have ht' : t ∈ st.tasks := by simp only [body] at ht; split at ht <;> exact ht
        exact hmono _ _ _ hclk (h t ht')
      | removeTask i => exact absurd rfl (hr i)
      | startTask i => simp [Op.target] at htg
      | stopTask i => simp [Op.target] at htg
      | update i u => simp [Op.target] at htg
      | reset i => simp [Op.target] at htg
      | advance i a => simp [Op.target] at htg
    | some j =>
      rw [body_target cfg clock op none st j htg hr] at hclk ⊢
      cases hl : lookup st.tasks j with
      | none =>
        rw [hl] at hclk
        intro t ht
        exact hmono _ _ _ hclk (h t ht)
      | some x =>
        rw [hl] at hclk
        intro t ht
        simp only at ht hclk ⊢
        rcases mem_setTask ht with rfl | ⟨hmem, _⟩
        · exact heff op _ x st.clk (h x (lookup_some hl).1)
        · exact hmono _ _ _ hclk (h t hmem)

theorem run_samplesInv (cfg : Cfg) (clock : Clock) (Q : Nat → List Sample → Prop)
    (hmono : ∀ K K' l, K ≤ K' → Q K l → Q K' l) (hnil : ∀ K, Q K [])
    (heff : ∀ (op : Op) (o : Nat) (t : Task) (k : Nat), Q k t.samples →
      Q (taskEffect cfg clock op none o t k).2 (taskEffect cfg clock op none o t k).1.samples)
    (ops : List Op) : ∀ st, (∀ t ∈ st.tasks, Q st.clk t.samples) →
      ∀ t ∈ (run cfg clock ops st).tasks, Q (run cfg clock ops st).clk t.samples := by
  induction ops with
  | nil => intro st h; exact h
  | cons op ops ih =>
    intro st h
    simp only [run]
    apply ih
    rw [step_eq_body_none]
    exact body_samplesInv cfg clock Q hmono hnil heff op st h

/-! ## the two pruning loops -/

/-- after the first loop every sample left is inside the window (the deque being sorted) -/
theorem dropOld_ge (old : Int) : ∀ (l : List Sample), List.Pairwise (fun a b => a.ts ≤ b.ts) l →
    ∀ s ∈ dropOld old l, old ≤ s.ts := by
  intro l
  induction l with
  | nil => intro _ s hs; simp [dropOld] at hs
  | cons a r ih =>
    intro hp s hs
    simp only [dropOld] at hs
    by_cases h : a.ts < old
    · rw [if_pos h] at hs
      exact ih (List.pairwise_cons.mp hp).2 s hs
    · rw [if_neg h] at hs
      rcases List.mem_cons.mp hs with rfl | hs
      · omega
      · have := (List.pairwise_cons.mp hp).1 s hs
        omega

theorem dropExcess_length (m : Nat) (l : List Sample) : (dropExcess m l).length ≤ m := by
  unfold dropExcess
  rw [List.length_drop]
  omega

theorem mem_prune_dropOld {cfg : Cfg} {now : Int} {l : List Sample} {s : Sample} (h : s ∈ prune cfg now l) :
    s ∈ dropOld (now - cfg.period) l :=
  List.mem_of_mem_drop h

theorem prune_length (cfg : Cfg) (now : Int) (l : List Sample) : (prune cfg now l).length ≤ cfg.maxLen :=
  dropExcess_length _ _

/-! ## the window invariant -/

/-- sorted by timestamp, not later than any clock reading from `K` on, and no two samples further
apart than `speed_estimate_period` -/
def WOK (cfg : Cfg) (clock : Clock) (K : Nat) (l : List Sample) : Prop :=
  List.Pairwise (fun a b => a.ts ≤ b.ts) l ∧ (∀ s ∈ l, ∀ j, K ≤ j → s.ts ≤ clock j) ∧
  (∀ s ∈ l, ∀ s' ∈ l, s'.ts - s.ts ≤ cfg.period)

theorem WOK_nil (cfg : Cfg) (clock : Clock) (K : Nat) : WOK cfg clock K [] :=
  ⟨List.Pairwise.nil, fun s hs => (by cases hs), fun s hs => (by cases hs)⟩

theorem WOK_mono {cfg : Cfg} {clock : Clock} {K K' : Nat} {l : List Sample} (h : WOK cfg clock K l) (hk : K ≤ K') :
    WOK cfg clock K' l :=
  ⟨h.1, fun s hs j hj => h.2.1 s hs j (Nat.le_trans hk hj), h.2.2⟩

theorem WOK_sublist {cfg : Cfg} {clock : Clock} {K : Nat} {l l' : List Sample} (h : WOK cfg clock K l)
    (hs : l'.Sublist l) : WOK cfg clock K l' :=
  ⟨List.Pairwise.sublist hs h.1, fun s m => h.2.1 s (hs.subset m), fun s m s' m' => h.2.2 s (hs.subset m) s' (hs.subset m')⟩

/-- pruning at the reading `clock k` and appending a sample stamped `clock k` keeps the window -/
theorem WOK_prune_append {cfg : Cfg} {clock : Clock} (hm : Mono clock) (hp : 0 ≤ cfg.period) {K K' k : Nat}
    {l : List Sample} {amt : Int} (h : WOK cfg clock K l) (hk : K ≤ k) (hk' : k + 1 ≤ K') :
    WOK cfg clock K' (prune cfg (clock k) l ++ [⟨clock k, amt⟩]) := by
  have hsub := prune_sublist cfg (clock k) l
  have hpr := WOK_sublist h hsub
  have hold : ∀ s ∈ prune cfg (clock k) l, clock k - cfg.period ≤ s.ts :=
    fun s hs => dropOld_ge _ l h.1 s (mem_prune_dropOld hs)
  have hle : ∀ s ∈ prune cfg (clock k) l, s.ts ≤ clock k := fun s hs => hpr.2.1 s hs k hk
  refine ⟨?_, ?_, ?_⟩
  · rw [List.pairwise_append]
    refine ⟨hpr.1, List.pairwise_singleton _ _, ?_⟩
    intro a ha b hb
    simp only [List.mem_singleton] at hb; subst hb
    exact hle a ha
  · intro s hs j hj
    simp only [List.mem_append, List.mem_singleton] at hs
    rcases hs with hs | rfl
    · exact hpr.2.1 s hs j (by omega)
    · exact hm k j (by omega)
  · intro s hs s' hs'
    simp only [List.mem_append, List.mem_singleton] at hs hs'
    rcases hs with hs | rfl <;> rcases hs' with hs' | rfl
    · exact hpr.2.2 s hs s' hs'
    · have := hold s hs; simp only; omega
    · have := hle s' hs'; simp only; omega
    · simp only; omega

theorem taskEffect_WOK (cfg : Cfg) (clock : Clock) (hm : Mono clock) (hp : 0 ≤ cfg.period) (op : Op) (o : Nat)
    (t : Task) (k : Nat) (h : WOK cfg clock k t.samples) :
    WOK cfg clock (taskEffect cfg clock op none o t k).2 (taskEffect cfg clock op none o t k).1.samples := by
  cases op with
  | addTask => exact h
  | removeTask => exact h
  | startTask i =>
    simp only [taskEffect]; split
    · exact WOK_mono h (Nat.le_succ _)
    · exact h
  | stopTask i => exact WOK_mono h (Nat.le_succ _)
  | reset i r => simp only [taskEffect, Task.resetBody]; exact WOK_nil _ _ _
  | refresh => exact h
  | start => exact h
  | stop => exact h
  | update i u =>
    simp only [taskEffect, Task.updateBody, finishCheck_samples]
    generalize hk0 : (if u.refresh = true then refreshK cfg o (t.applyUpd u) k else k) = k0
    have hk : k ≤ k0 := by
      rw [← hk0]; split
      · unfold refreshK; omega
      · omega
    have hge := fun x => finishCheck_clk_ge clock x (k0 + 1)
    have hbase : WOK cfg clock k0 (t.applyUpd u).samples := by
      rw [applyUpd_samples]; split
      · exact WOK_nil _ _ _
      · exact WOK_mono h hk
    split
    · exact WOK_prune_append hm hp hbase (Nat.le_refl _) (hge _)
    · exact WOK_mono (WOK_sublist hbase (prune_sublist _ _ _)) (Nat.le_trans (Nat.le_succ _) (hge _))
  | advance i a =>
    simp only [taskEffect, Task.advanceBody, finishCheck_samples, nowOf]
    have hge := fun x => finishCheck_clk_ge clock x (k + 1)
    exact WOK_prune_append hm hp h (Nat.le_refl _) (hge _)

theorem run_WOK (cfg : Cfg) (clock : Clock) (hm : Mono clock) (hp : 0 ≤ cfg.period) (ops : List Op) :
    ∀ t ∈ (run cfg clock ops State.empty).tasks, WOK cfg clock (run cfg clock ops State.empty).clk t.samples :=
  run_samplesInv cfg clock (WOK cfg clock) (fun _ _ _ hk h => WOK_mono h hk) (WOK_nil cfg clock)
    (fun op o t k h => taskEffect_WOK cfg clock hm hp op o t k h) ops State.empty (by intro t ht; cases ht)

/-- the span `speed` divides by is positive and at most the period -/
theorem speed_of_WOK {cfg : Cfg} {clock : Clock} {K : Nat} {t : Task} (h : WOK cfg clock K t.samples) :
    ∀ n d, t.speed = some (n, d) → 0 < d ∧ d ≤ cfg.period := by
  intro n d hs
  unfold Task.speed at hs
  cases hst : t.startTime with
  | none => simp [hst] at hs
  | some s =>
    cases hsm : t.samples with
    | nil => simp [hst, hsm] at hs
    | cons s0 rest =>
      simp only [hst, hsm] at hs
      rw [hsm] at h
      have hmem : rest.getLast?.getD s0 ∈ s0 :: rest := by
        cases hl : rest.getLast? with
        | none => simp
        | some l => simp only [Option.getD_some]; exact List.mem_cons_of_mem _ (List.mem_of_getLast? hl)
      have hle : s0.ts ≤ (rest.getLast?.getD s0).ts := by
        cases hl : rest.getLast? with
        | none => simp
        | some l =>
          simp only [Option.getD_some]
          exact (List.pairwise_cons.mp h.1).1 l (List.mem_of_getLast? hl)
      have hw := h.2.2 s0 List.mem_cons_self _ hmem
      split at hs
      · cases hs
      · next hne =>
        simp only [Option.some.injEq, Prod.mk.injEq] at hs
        obtain ⟨rfl, rfl⟩ := hs
        exact ⟨by omega, hw⟩

/-! ## at most 1000 + 1 samples, on any clock -/

def LenOK (cfg : Cfg) (l : List Sample) : Prop := l.length ≤ cfg.maxLen + 1

theorem taskEffect_LenOK (cfg : Cfg) (clock : Clock) (op : Op) (o : Nat) (t : Task) (k : Nat)
    (h : LenOK cfg t.samples) : LenOK cfg (taskEffect cfg clock op none o t k).1.samples := by
  cases op with
  | addTask => exact h
  | removeTask => exact h
  | startTask i => simp only [taskEffect]; split <;> exact h
  | stopTask i => exact h
  | reset i r => simp [taskEffect, Task.resetBody, LenOK]
  | refresh => exact h
  | start => exact h
  | stop => exact h
  | update i u =>
    simp only [taskEffect, Task.updateBody, finishCheck_samples, LenOK]
    have := prune_length cfg (clock (if u.refresh = true then refreshK cfg o (t.applyUpd u) k else k)) (t.applyUpd u).samples
    split
    · rw [List.length_append]; simp only [List.length_singleton]; omega
    · omega
  | advance i a =>
    simp only [taskEffect, Task.advanceBody, finishCheck_samples, nowOf, LenOK]
    have := prune_length cfg (clock k) t.samples
    rw [List.length_append]; simp only [List.length_singleton]; omega

theorem run_LenOK (cfg : Cfg) (clock : Clock) (ops : List Op) (st : State) (h : ∀ t ∈ st.tasks, LenOK cfg t.samples) :
    ∀ t ∈ (run cfg clock ops st).tasks, LenOK cfg t.samples :=
  run_samplesInv cfg clock (fun _ l => LenOK cfg l) (fun _ _ _ _ h => h) (fun _ => by simp [LenOK])
    (fun op o t k h => taskEffect_LenOK cfg clock op o t k h) ops st h

end RichModel.Progress
