import RichModel.Lemmas.TextOps2
import RichModel.Lemmas.WrapPieces
/-!
`Text.divide` (repaired variant) cuts the styled string `view` into the pieces named by the offsets:
every character keeps exactly its effective style (`divide_view`).
-/
namespace RichModel

/-! ### `Py.sortByKey` is a stable insertion sort: sorted permutation -/
namespace Py
variable {α : Type}

theorem insertByKey_perm (key : α → Int) (e : α) : ∀ l : List α, (insertByKey key e l).Perm (e :: l)
  | [] => List.Perm.refl _
  | x :: xs => by
    simp only [insertByKey]
    split
    · exact List.Perm.refl _
    · exact ((insertByKey_perm key e xs).cons x).trans (List.Perm.swap e x xs)

theorem sortByKey_perm (key : α → Int) : ∀ l : List α, (sortByKey key l).Perm l
  | [] => List.Perm.refl _
  | x :: xs => by
    have : sortByKey key (x :: xs) = insertByKey key x (sortByKey key xs) := rfl
    rw [this]
    exact (insertByKey_perm key x _).trans ((sortByKey_perm key xs).cons x)

theorem insertByKey_sorted (key : α → Int) (e : α) : ∀ l : List α,
    l.Pairwise (fun a b => key a ≤ key b) → (insertByKey key e l).Pairwise (fun a b => key a ≤ key b)
  | [], _ => by simp [insertByKey]
  | x :: xs, h => by
    simp only [insertByKey]
    rw [List.pairwise_cons] at h
    split
    · rename_i hle
      refine List.pairwise_cons.2 ⟨?_, List.pairwise_cons.2 h⟩
      intro y hy
      rcases List.mem_cons.1 hy with rfl | hy
      · exact hle
      · exact Int.le_trans hle (h.1 y hy)
    · rename_i hle
      refine List.pairwise_cons.2 ⟨?_, insertByKey_sorted key e xs h.2⟩
      intro y hy
      rcases List.mem_cons.1 ((insertByKey_perm key e xs).mem_iff.1 hy) with rfl | hy
      · omega
      · exact h.1 y hy

theorem sortByKey_sorted (key : α → Int) : ∀ l : List α, (sortByKey key l).Pairwise (fun a b => key a ≤ key b)
  | [] => List.Pairwise.nil
  | x :: xs => insertByKey_sorted key x _ (sortByKey_sorted key xs)

end Py

/-! ### span order restored from index-tagged records -/
namespace Text
variable {σ : Type}

theorem spanIds_indexed (k j : Nat) : ∀ (ss : List (Span σ)) (b : Nat) (L : List (Nat × Span σ)),
    L.Pairwise (fun a c => a.1 < c.1) →
    (∀ p ∈ L, b ≤ p.1 ∧ ∃ o, ss[p.1 - b]? = some o ∧ p.2.style = o.style ∧ p.2.covers k = o.covers j) →
    (∀ i o, ss[i]? = some o → o.covers j = true → ∃ sp, (b + i, sp) ∈ L) →
    spanIds (L.map (·.2)) k = spanIds ss j
  | [], b, L, _, hent, _ => by
    have : L = [] := by
      apply List.eq_nil_iff_forall_not_mem.2
      intro p hp
      obtain ⟨_, o, ho, _⟩ := hent p hp
      simp at ho
    subst this; rfl
  | sp0 :: rest, b, L, hsorted, hent, hcomp => by
    -- the case where no entry of `L` has index `b`
    have skip : (∀ p ∈ L, b + 1 ≤ p.1) → spanIds (L.map (·.2)) k = spanIds (sp0 :: rest) j := by
      intro hall
      have hnc : ¬ sp0.covers j = true := by
        intro hc
        obtain ⟨sp, hsp⟩ := hcomp 0 sp0 (by simp) hc
        have : b + 1 ≤ b + 0 := hall _ hsp
        omega
      rw [spanIds_cons, if_neg hnc]
      apply spanIds_indexed k j rest (b + 1) L hsorted
      · intro p hp
        obtain ⟨h1, o, ho, h2⟩ := hent p hp
        have h3 := hall p hp
        refine ⟨h3, o, ?_, h2⟩
        have : p.1 - b = (p.1 - (b + 1)) + 1 := by omega
        rw [this, List.getElem?_cons_succ] at ho
        exact ho
      · intro i o ho hc
        obtain ⟨sp, hsp⟩ := hcomp (i + 1) o (by simpa using ho) hc
        exact ⟨sp, by rw [show b + 1 + i = b + (i + 1) by omega]; exact hsp⟩
    match L, hsorted, hent, hcomp, skip with
    | [], _, _, _, skip => exact skip (by simp)
    | (i, sp') :: L', hsorted, hent, hcomp, skip =>
      rw [List.pairwise_cons] at hsorted
      by_cases hib : i = b
      · subst hib
        obtain ⟨_, o, ho, hst, hcv⟩ := hent (i, sp') (by simp)
        simp only [Nat.sub_self, List.getElem?_cons_zero, Option.some.injEq] at ho
        subst ho
        have hst' : sp'.style = sp0.style := hst
        have hcv' : sp'.covers k = sp0.covers j := hcv
        simp only [List.map_cons, spanIds_cons, hst', hcv']
        have ih : spanIds (L'.map (·.2)) k = spanIds rest j := by
          apply spanIds_indexed k j rest (i + 1) L' hsorted.2
          · intro p hp
            obtain ⟨h1, o, ho, h2⟩ := hent p (by simp [hp])
            have h3 : i < p.1 := hsorted.1 p hp
            refine ⟨h3, o, ?_, h2⟩
            have : p.1 - i = (p.1 - (i + 1)) + 1 := by omega
            rw [this, List.getElem?_cons_succ] at ho
            exact ho
          · intro i' o ho hc
            obtain ⟨sp, hsp⟩ := hcomp (i' + 1) o (by simpa using ho) hc
            rcases List.mem_cons.1 hsp with heq | hmem
            · simp only [Prod.mk.injEq] at heq; omega
            · exact ⟨sp, by rw [show i + 1 + i' = i + (i' + 1) by omega]; exact hmem⟩
        rw [ih]
      · apply skip
        intro p hp
        have hi : b ≤ i := (hent (i, sp') (by simp)).1
        rcases List.mem_cons.1 hp with rfl | hmem
        · simp only []; omega
        · have : i < p.1 := hsorted.1 p hmem
          omega
/-! ### one line of the repaired `divide` loop -/

/-- what the loop records for a popped stack entry (line `[s, e)`) -/
def recOf (s e : Int) (p : Nat × Span σ) : Nat × Span σ :=
  (p.1, ⟨p.2.start - s, min p.2.stop e - s, p.2.style⟩)

/-- what the loop pushes back for a popped stack entry -/
def remOf (e : Int) (p : Nat × Span σ) : Option (Nat × Span σ) :=
  if e < p.2.stop then some (p.1, ⟨e, p.2.stop, p.2.style⟩) else none

theorem divLineLoop_eq (s e : Int) : ∀ (todo done acc : List (Nat × Span σ)),
    divLineLoop s e todo done acc =
      (todo.dropWhile (fun p => decide (p.2.start < e)),
       done ++ (todo.takeWhile (fun p => decide (p.2.start < e))).filterMap (remOf e),
       acc ++ (todo.takeWhile (fun p => decide (p.2.start < e))).map (recOf s e))
  | [], done, acc => by simp [divLineLoop]
  | (i, sp) :: rest, done, acc => by
    unfold divLineLoop
    by_cases h : sp.start < e
    · simp only [h, if_true, List.dropWhile_cons, List.takeWhile_cons, decide_true, List.filterMap_cons, List.map_cons]
      by_cases h2 : e ≥ sp.stop
      · have hs : sp.split e = (sp, none) := by
          unfold Span.split
          rw [if_neg (by omega), if_pos h2]
        have hr : remOf e (i, sp) = none := by
          unfold remOf; rw [if_neg (by simp only []; omega)]
        have hc : recOf s e (i, sp) = (i, ⟨sp.start - s, sp.stop - s, sp.style⟩) := by
          unfold recOf; simp only []; rw [Int.min_eq_left (by omega)]
        rw [hs]; simp only [hr, hc]
        rw [divLineLoop_eq s e rest]
        simp [List.append_assoc]
      · have hs : sp.split e = (⟨sp.start, e, sp.style⟩, some ⟨e, sp.stop, sp.style⟩) := by
          unfold Span.split
          rw [if_neg (by omega), if_neg h2]
          simp only []
          rw [Int.min_eq_right (by omega)]
        have hr : remOf e (i, sp) = some (i, ⟨e, sp.stop, sp.style⟩) := by
          unfold remOf; rw [if_pos (by simp only []; omega)]
        have hc : recOf s e (i, sp) = (i, ⟨sp.start - s, e - s, sp.style⟩) := by
          unfold recOf; simp only []; rw [Int.min_eq_right (by omega)]
        have hne : Span.nonEmpty (⟨e, sp.stop, sp.style⟩ : Span σ) = true := by
          simp only [Span.nonEmpty, decide_eq_true_eq]; omega
        rw [hs]; simp only [hr, hc, hne, if_true]
        rw [divLineLoop_eq s e rest]
        simp [List.append_assoc]
    · simp [h]

/-! ### the stack invariant -/

/-- State of the (reversed) span stack at the beginning of the line starting at `s`. -/
structure TodoInv (spans : List (Span σ)) (s : Nat) (todo : List (Nat × Span σ)) : Prop where
  sorted : todo.Pairwise (fun a b => a.2.start ≤ b.2.start)
  entry : ∀ p ∈ todo, ∃ o, spans[p.1]? = some o ∧ p.2.style = o.style ∧ p.2.stop = o.stop ∧
    p.2.start = max o.start (s : Int) ∧ p.2.start ≤ p.2.stop
  nodup : (todo.map (·.1)).Nodup
  complete : ∀ i o, spans[i]? = some o → max o.start (s : Int) < o.stop → ∃ sp, (i, sp) ∈ todo

theorem dropWhile_ge {e : Int} : ∀ (todo : List (Nat × Span σ)),
    todo.Pairwise (fun a b => a.2.start ≤ b.2.start) →
    ∀ q ∈ todo.dropWhile (fun p => decide (p.2.start < e)), e ≤ q.2.start
  | [], _ => by simp
  | x :: xs, h => by
    rw [List.pairwise_cons] at h
    rw [List.dropWhile_cons]
    split
    · exact dropWhile_ge xs h.2
    · rename_i hx
      simp only [decide_eq_true_eq] at hx
      intro q hq
      rcases List.mem_cons.1 hq with rfl | hq
      · omega
      · have := h.1 q hq; omega

theorem takeWhile_lt {e : Int} : ∀ (todo : List (Nat × Span σ)),
    ∀ q ∈ todo.takeWhile (fun p => decide (p.2.start < e)), q.2.start < e
  | [] => by simp
  | x :: xs => by
    rw [List.takeWhile_cons]
    split
    · rename_i hx
      simp only [decide_eq_true_eq] at hx
      intro q hq
      rcases List.mem_cons.1 hq with rfl | hq
      · exact hx
      · exact takeWhile_lt xs q hq
    · simp

theorem remOf_fst (e : Int) : ∀ (P : List (Nat × Span σ)),
    ((P.filterMap (remOf e)).map (·.1)).Sublist (P.map (·.1))
  | [] => by simp
  | p :: P => by
    simp only [List.filterMap_cons, List.map_cons]
    by_cases h : e < p.2.stop
    · have : remOf e p = some (p.1, ⟨e, p.2.stop, p.2.style⟩) := by unfold remOf; rw [if_pos h]
      rw [this]
      exact (remOf_fst e P).cons_cons _
    · have : remOf e p = none := by unfold remOf; rw [if_neg h]
      rw [this]
      exact (remOf_fst e P).cons _

end Text

end RichModel
