import RichModel.Lemmas.TextOps2
import RichModel.Lemmas.WrapPieces
/-!
`Text.divide` (repaired variant) cuts the styled string `view` into the pieces named by the offsets:
every character keeps exactly its effective style (`divide_view`).
-/
namespace RichModel

/-! ### `Py.sortByKey` is a stable insertion sort: sorted permutation -/
namespace Py
variable {α : Type}

theorem insertByKey_perm (key : α → Int) (e : α) : ∀ l : List α, (insertByKey key e l).Perm (e :: l)
  | [] => List.Perm.refl _
  | x :: xs => by
    simp only [insertByKey]
    split
    · exact List.Perm.refl _
    · exact ((insertByKey_perm key e xs).cons x).trans (List.Perm.swap e x xs)

theorem sortByKey_perm (key : α → Int) : ∀ l : List α, (sortByKey key l).Perm l
  | [] => List.Perm.refl _
  | x :: xs => by
    have : sortByKey key (x :: xs) = insertByKey key x (sortByKey key xs) := rfl
    rw [this]
    exact (insertByKey_perm key x _).trans ((sortByKey_perm key xs).cons x)

theorem insertByKey_sorted (key : α → Int) (e : α) : ∀ l : List α,
    l.Pairwise (fun a b => key a ≤ key b) → (insertByKey key e l).Pairwise (fun a b => key a ≤ key b)
  | [], _ => by simp [insertByKey]
  | x :: xs, h => by
    simp only [insertByKey]
    rw [List.pairwise_cons] at h
    split
    · rename_i hle
      refine List.pairwise_cons.2 ⟨?_, List.pairwise_cons.2 h⟩
      intro y hy
      rcases List.mem_cons.1 hy with rfl | hy
      · exact hle
      · exact Int.le_trans hle (h.1 y hy)
    · rename_i hle
      refine List.pairwise_cons.2 ⟨?_, insertByKey_sorted key e xs h.2⟩
      intro y hy
      rcases List.mem_cons.1 ((insertByKey_perm key e xs).mem_iff.1 hy) with rfl | hy
      · omega
      · exact h.1 y hy

theorem sortByKey_sorted (key : α → Int) : ∀ l : List α, (sortByKey key l).Pairwise (fun a b => key a ≤ key b)
  | [] => List.Pairwise.nil
  | x :: xs => insertByKey_sorted key x _ (sortByKey_sorted key xs)

end Py

/-! ### span order restored from index-tagged records -/
namespace Text
variable {σ : Type}

theorem spanIds_indexed (k j : Nat) : ∀ (ss : List (Span σ)) (b : Nat) (L : List (Nat × Span σ)),
    L.Pairwise (fun a c => a.1 < c.1) →
    (∀ p ∈ L, b ≤ p.1 ∧ ∃ o, ss[p.1 - b]? = some o ∧ p.2.style = o.style ∧ p.2.covers k = o.covers j) →
    (∀ i o, ss[i]? = some o → o.covers j = true → ∃ sp, (b + i, sp) ∈ L) →
    spanIds (L.map (·.2)) k = spanIds ss j
  | [], b, L, _, hent, _ => by
    have : L = [] := by
      apply List.eq_nil_iff_forall_not_mem.2
      intro p hp
      obtain ⟨_, o, ho, _⟩ := hent p hp
      simp at ho
    subst this; rfl
  | sp0 :: rest, b, L, hsorted, hent, hcomp => by
    -- the case where no entry of `L` has index `b`
    have skip : (∀ p ∈ L, b + 1 ≤ p.1) → spanIds (L.map (·.2)) k = spanIds (sp0 :: rest) j := by
      intro hall
      have hnc : ¬ sp0.covers j = true := by
        intro hc
        obtain ⟨sp, hsp⟩ := hcomp 0 sp0 (by simp) hc
        have : b + 1 ≤ b + 0 := hall _ hsp
        omega
      rw [spanIds_cons, if_neg hnc]
      apply spanIds_indexed k j rest (b + 1) L hsorted
      · intro p hp
        obtain ⟨h1, o, ho, h2⟩ := hent p hp
        have h3 := hall p hp
        refine ⟨h3, o, ?_, h2⟩
        have : p.1 - b = (p.1 - (b + 1)) + 1 := by omega
        rw [this, List.getElem?_cons_succ] at ho
        exact ho
      · intro i o ho hc
        obtain ⟨sp, hsp⟩ := hcomp (i + 1) o (by simpa using ho) hc
        exact ⟨sp, by rw [show b + 1 + i = b + (i + 1) by omega]; exact hsp⟩
    match L, hsorted, hent, hcomp, skip with
    | [], _, _, _, skip => exact skip (by simp)
    | (i, sp') :: L', hsorted, hent, hcomp, skip =>
      rw [List.pairwise_cons] at hsorted
      by_cases hib : i = b
      · subst hib
        obtain ⟨_, o, ho, hst, hcv⟩ := hent (i, sp') (by simp)
        simp only [Nat.sub_self, List.getElem?_cons_zero, Option.some.injEq] at ho
        subst ho
        have hst' : sp'.style = sp0.style := hst
        have hcv' : sp'.covers k = sp0.covers j := hcv
        simp only [List.map_cons, spanIds_cons, hst', hcv']
        have ih : spanIds (L'.map (·.2)) k = spanIds rest j := by
          apply spanIds_indexed k j rest (i + 1) L' hsorted.2
          · intro p hp
            obtain ⟨h1, o, ho, h2⟩ := hent p (by simp [hp])
            have h3 : i < p.1 := hsorted.1 p hp
            refine ⟨h3, o, ?_, h2⟩
            have : p.1 - i = (p.1 - (i + 1)) + 1 := by omega
            rw [this, List.getElem?_cons_succ] at ho
            exact ho
          · intro i' o ho hc
            obtain ⟨sp, hsp⟩ := hcomp (i' + 1) o (by simpa using ho) hc
            rcases List.mem_cons.1 hsp with heq | hmem
            · simp only [Prod.mk.injEq] at heq; omega
            · exact ⟨sp, by rw [show i + 1 + i' = i + (i' + 1) by omega]; exact hmem⟩
        rw [ih]
      · apply skip
        intro p hp
        have hi : b ≤ i := (hent (i, sp') (by simp)).1
        rcases List.mem_cons.1 hp with rfl | hmem
        · simp only []; omega
        · have : i < p.1 := hsorted.1 p hmem
          omega
/-! ### one line of the repaired `divide` loop -/

/-- what the loop records for a popped stack entry (line `[s, e)`) -/
def recOf (s e : Int) (p : Nat × Span σ) : Nat × Span σ :=
  (p.1, ⟨p.2.start - s, min p.2.stop e - s, p.2.style⟩)

/-- what the loop pushes back for a popped stack entry -/
def remOf (e : Int) (p : Nat × Span σ) : Option (Nat × Span σ) :=
  if e < p.2.stop then some (p.1, ⟨e, p.2.stop, p.2.style⟩) else none

theorem divLineLoop_eq (s e : Int) : ∀ (todo done acc : List (Nat × Span σ)),
    divLineLoop s e todo done acc =
      (todo.dropWhile (fun p => decide (p.2.start < e)),
       done ++ (todo.takeWhile (fun p => decide (p.2.start < e))).filterMap (remOf e),
       acc ++ (todo.takeWhile (fun p => decide (p.2.start < e))).map (recOf s e))
  | [], done, acc => by simp [divLineLoop]
  | (i, sp) :: rest, done, acc => by
    unfold divLineLoop
    by_cases h : sp.start < e
    · simp only [h, if_true, List.dropWhile_cons, List.takeWhile_cons, decide_true, List.filterMap_cons, List.map_cons]
      by_cases h2 : e ≥ sp.stop
      · have hs : sp.split e = (sp, none) := by
          unfold Span.split
          rw [if_neg (by omega), if_pos h2]
        have hr : remOf e (i, sp) = none := by
          unfold remOf; rw [if_neg (by simp only []; omega)]
        have hc : recOf s e (i, sp) = (i, ⟨sp.start - s, sp.stop - s, sp.style⟩) := by
          unfold recOf; simp only []; rw [Int.min_eq_left (by omega)]
        rw [hs]; simp only [hr, hc]
        rw [divLineLoop_eq s e rest]
        simp [List.append_assoc]
      · have hs : sp.split e = (⟨sp.start, e, sp.style⟩, some ⟨e, sp.stop, sp.style⟩) := by
          unfold Span.split
          rw [if_neg (by omega), if_neg h2]
          simp only []
          rw [Int.min_eq_right (by omega)]
        have hr : remOf e (i, sp) = some (i, ⟨e, sp.stop, sp.style⟩) := by
          unfold remOf; rw [if_pos (by simp only []; omega)]
        have hc : recOf s e (i, sp) = (i, ⟨sp.start - s, e - s, sp.style⟩) := by
          unfold recOf; simp only []; rw [Int.min_eq_right (by omega)]
        have hne : Span.nonEmpty (⟨e, sp.stop, sp.style⟩ : Span σ) = true := by
          simp only [Span.nonEmpty, decide_eq_true_eq]; omega
        rw [hs]; simp only [hr, hc, hne, if_true]
        rw [divLineLoop_eq s e rest]
        simp [List.append_assoc]
    · simp [h]

/-! ### the stack invariant -/

/-- State of the (reversed) span stack at the beginning of the line starting at `s`. -/
structure TodoInv (spans : List (Span σ)) (s : Nat) (todo : List (Nat × Span σ)) : Prop where
  sorted : todo.Pairwise (fun a b => a.2.start ≤ b.2.start)
  entry : ∀ p ∈ todo, ∃ o, spans[p.1]? = some o ∧ p.2.style = o.style ∧ p.2.stop = o.stop ∧
    p.2.start = max o.start (s : Int) ∧ p.2.start ≤ p.2.stop
  nodup : (todo.map (·.1)).Nodup
  complete : ∀ i o, spans[i]? = some o → max o.start (s : Int) < o.stop → ∃ sp, (i, sp) ∈ todo

theorem dropWhile_ge {e : Int} : ∀ (todo : List (Nat × Span σ)),
    todo.Pairwise (fun a b => a.2.start ≤ b.2.start) →
    ∀ q ∈ todo.dropWhile (fun p => decide (p.2.start < e)), e ≤ q.2.start
  | [], _ => by simp
  | x :: xs, h => by
    rw [List.pairwise_cons] at h
    rw [List.dropWhile_cons]
    split
    · exact dropWhile_ge xs h.2
    · rename_i hx
      simp only [decide_eq_true_eq] at hx
      intro q hq
      rcases List.mem_cons.1 hq with rfl | hq
      · omega
      · have := h.1 q hq; omega

theorem takeWhile_lt {e : Int} : ∀ (todo : List (Nat × Span σ)),
    ∀ q ∈ todo.takeWhile (fun p => decide (p.2.start < e)), q.2.start < e
  | [] => by simp
  | x :: xs => by
    rw [List.takeWhile_cons]
    split
    · rename_i hx
      simp only [decide_eq_true_eq] at hx
      intro q hq
      rcases List.mem_cons.1 hq with rfl | hq
      · exact hx
      · exact takeWhile_lt xs q hq
    · simp

theorem remOf_fst (e : Int) : ∀ (P : List (Nat × Span σ)),
    ((P.filterMap (remOf e)).map (·.1)).Sublist (P.map (·.1))
  | [] => by simp
  | p :: P => by
    simp only [List.filterMap_cons, List.map_cons]
    by_cases h : e < p.2.stop
    · have : remOf e p = some (p.1, ⟨e, p.2.stop, p.2.style⟩) := by unfold remOf; rw [if_pos h]
      rw [this]
      exact (remOf_fst e P).cons_cons _
    · have : remOf e p = none := by unfold remOf; rw [if_neg h]
      rw [this]
      exact (remOf_fst e P).cons _

theorem mem_remOf {e : Int} {P : List (Nat × Span σ)} {d : Nat × Span σ} (hd : d ∈ P.filterMap (remOf e)) :
    ∃ p ∈ P, e < p.2.stop ∧ d = (p.1, ⟨e, p.2.stop, p.2.style⟩) := by
  obtain ⟨p, hp, hr⟩ := List.mem_filterMap.1 hd
  refine ⟨p, hp, ?_⟩
  unfold remOf at hr
  split at hr
  · rename_i h; exact ⟨h, by cases hr; rfl⟩
  · cases hr

theorem todoInv_next_aux (spans : List (Span σ)) (s e : Nat) (hse : s ≤ e) (P R : List (Nat × Span σ))
    (h : TodoInv spans s (P ++ R))
    (hP : ∀ q ∈ P, q.2.start < (e : Int)) (hR : ∀ q ∈ R, (e : Int) ≤ q.2.start) :
    TodoInv spans e ((P.filterMap (remOf (e : Int))).reverse ++ R) := by
  have hDstart : ∀ d ∈ (P.filterMap (remOf (e : Int))).reverse, d.2.start = (e : Int) := by
    intro d hd
    obtain ⟨p, _, _, rfl⟩ := mem_remOf (List.mem_reverse.1 hd)
    rfl
  refine ⟨?_, ?_, ?_, ?_⟩
  · refine List.pairwise_append.2 ⟨?_, (List.pairwise_append.1 h.sorted).2.1, ?_⟩
    · apply List.pairwise_of_forall_mem_list
      intro a ha b hb
      rw [hDstart a ha, hDstart b hb]; exact Int.le_refl _
    · intro a ha b hb
      rw [hDstart a ha]; exact hR b hb
  · intro p hp
    rcases List.mem_append.1 hp with hp | hp
    · obtain ⟨q, hq, hlt, rfl⟩ := mem_remOf (List.mem_reverse.1 hp)
      obtain ⟨o, ho, h1, h2, h3, h4⟩ := h.entry q (List.mem_append_left _ hq)
      have := hP q hq
      refine ⟨o, ho, h1, h2, ?_, ?_⟩
      · simp only []; omega
      · simp only []; omega
    · obtain ⟨o, ho, h1, h2, h3, h4⟩ := h.entry p (List.mem_append_right _ hp)
      have := hR p hp
      exact ⟨o, ho, h1, h2, by omega, h4⟩
  · have h0 := h.nodup
    rw [List.map_append] at h0 ⊢
    rw [List.map_reverse]
    refine ((List.reverse_perm _).append_right _).nodup_iff.2 ?_
    exact List.Nodup.sublist ((remOf_fst _ P).append (List.Sublist.refl _)) h0
  · intro i o ho hcov
    obtain ⟨sp, hsp⟩ := h.complete i o ho (by omega)
    rcases List.mem_append.1 hsp with hsp | hsp
    · obtain ⟨o', ho', h1, h2, h3, h4⟩ := h.entry _ (List.mem_append_left _ hsp)
      simp only [] at ho' h1 h2 h3 h4
      rw [ho] at ho'; cases ho'
      refine ⟨⟨(e : Int), sp.stop, sp.style⟩, List.mem_append_left _ (List.mem_reverse.2 ?_)⟩
      refine List.mem_filterMap.2 ⟨(i, sp), hsp, ?_⟩
      unfold remOf
      rw [if_pos (by simp only []; omega)]
    · exact ⟨sp, List.mem_append_right _ hsp⟩

theorem todoInv_next (spans : List (Span σ)) (s e : Nat) (hse : s ≤ e) (todo : List (Nat × Span σ))
    (h : TodoInv spans s todo) :
    TodoInv spans e
      (((todo.takeWhile (fun p => decide (p.2.start < (e : Int)))).filterMap (remOf (e : Int))).reverse ++
        todo.dropWhile (fun p => decide (p.2.start < (e : Int)))) := by
  apply todoInv_next_aux spans s e hse
  · rw [List.takeWhile_append_dropWhile]; exact h
  · exact takeWhile_lt todo
  · exact dropWhile_ge todo h.sorted

/-- the spans the loop gives the line `[s, e)` -/
def lineSpans (s e : Int) (todo : List (Nat × Span σ)) : List (Span σ) :=
  (Py.sortByKey (fun p => (p.1 : Int)) ((todo.takeWhile (fun p => decide (p.2.start < e))).map (recOf s e))).map (·.2)

theorem mem_lineRecs {s e : Int} {todo : List (Nat × Span σ)} {p : Nat × Span σ}
    (hp : p ∈ Py.sortByKey (fun p => (p.1 : Int)) ((todo.takeWhile (fun p => decide (p.2.start < e))).map (recOf s e))) :
    ∃ q ∈ todo, q.2.start < e ∧ p = recOf s e q := by
  have := (Py.sortByKey_perm _ _).mem_iff.1 hp
  obtain ⟨q, hq, rfl⟩ := List.mem_map.1 this
  exact ⟨q, (List.takeWhile_sublist _).subset hq, takeWhile_lt todo q hq, rfl⟩

theorem lineRecs_sorted (spans : List (Span σ)) (s : Nat) (e : Int) (todo : List (Nat × Span σ)) (h : TodoInv spans s todo) :
    (Py.sortByKey (fun p => (p.1 : Int)) ((todo.takeWhile (fun p => decide (p.2.start < e))).map (recOf (s : Int) e))).Pairwise
      (fun a c => a.1 < c.1) := by
  have h1 := Py.sortByKey_sorted (fun p : Nat × Span σ => (p.1 : Int))
    ((todo.takeWhile (fun p => decide (p.2.start < e))).map (recOf (s : Int) e))
  have h2 : ((Py.sortByKey (fun p : Nat × Span σ => (p.1 : Int))
      ((todo.takeWhile (fun p => decide (p.2.start < e))).map (recOf (s : Int) e))).map (·.1)).Nodup := by
    refine ((Py.sortByKey_perm _ _).map _).nodup_iff.2 ?_
    rw [List.map_map]
    have : ((fun x : Nat × Span σ => x.1) ∘ recOf (s : Int) e) = (fun x => x.1) := rfl
    rw [this]
    exact List.Nodup.sublist ((List.takeWhile_sublist _).map _) h.nodup
  rw [List.nodup_iff_pairwise_ne, List.pairwise_map] at h2
  exact (h1.and h2).imp (fun {a b} hab => by have h3 := hab.1; have h4 := hab.2; omega)

theorem line_spanIds (spans : List (Span σ)) (s e : Nat) (todo : List (Nat × Span σ))
    (h : TodoInv spans s todo) (k : Nat) (hk : s + k < e) :
    spanIds (lineSpans (s : Int) (e : Int) todo) k = spanIds spans (s + k) := by
  unfold lineSpans
  apply spanIds_indexed k (s + k) spans 0 _ (lineRecs_sorted spans s e todo h)
  · intro p hp
    obtain ⟨q, hq, hlt, rfl⟩ := mem_lineRecs hp
    obtain ⟨o, ho, h1, h2, h3, h4⟩ := h.entry q hq
    refine ⟨Nat.zero_le _, o, ho, h1, ?_⟩
    simp only [recOf, Span.covers]
    congr 1 <;> (apply decide_eq_decide.2; omega)
  · intro i o ho hc
    have hc' := (covers_iff o (s + k)).1 hc
    obtain ⟨sp, hsp⟩ := h.complete i o ho (by omega)
    obtain ⟨o', ho', h1, h2, h3, h4⟩ := h.entry _ hsp
    simp only [] at ho' h1 h2 h3 h4
    rw [ho] at ho'; cases ho'
    refine ⟨(recOf (s : Int) (e : Int) (i, sp)).2, ?_⟩
    rw [Nat.zero_add]
    refine (Py.sortByKey_perm _ _).mem_iff.2 (List.mem_map.2 ⟨(i, sp), ?_, rfl⟩)
    rw [← List.takeWhile_append_dropWhile (p := fun p : Nat × Span σ => decide (p.2.start < (e : Int))) (l := todo)] at hsp
    rcases List.mem_append.1 hsp with hsp | hsp
    · exact hsp
    · have := dropWhile_ge todo h.sorted _ hsp
      simp only [] at this
      omega

theorem line_spansIn (spans : List (Span σ)) (s e : Nat) (todo : List (Nat × Span σ))
    (h : TodoInv spans s todo) :
    SpansIn (lineSpans (s : Int) (e : Int) todo) ((e : Int) - (s : Int)) := by
  intro sp hsp
  unfold lineSpans at hsp
  obtain ⟨p, hp, rfl⟩ := List.mem_map.1 hsp
  obtain ⟨q, hq, hlt, rfl⟩ := mem_lineRecs hp
  obtain ⟨o, ho, h1, h2, h3, h4⟩ := h.entry q hq
  simp only [recOf]
  omega

/-! ### the line ranges and the fresh lines -/

/-- `zip(divide_offsets, divide_offsets[1:])` from offset `s` on -/
def rangesFrom (s : Nat) : List Nat → Nat → List (Int × Int)
  | [], n => [((s : Int), (n : Int))]
  | o :: os, n => ((s : Int), (o : Int)) :: rangesFrom o os n

theorem lineRanges_from (n : Nat) : ∀ (offs : List Nat) (s : Nat),
    ((s :: offs ++ [n]).map Int.ofNat).zip ((s :: offs ++ [n]).map Int.ofNat).tail = rangesFrom s offs n
  | [], s => by simp [rangesFrom]
  | o :: os, s => by
    have ih := lineRanges_from n os o
    simp only [List.map_cons, List.tail_cons, List.cons_append, List.zip_cons_cons, rangesFrom] at ih ⊢
    rw [ih]; rfl

theorem lineRanges_eq (offs : List Nat) (n : Nat) : lineRanges offs n = rangesFrom 0 offs n := by
  unfold lineRanges
  exact lineRanges_from n offs 0

/-- a fresh line of `divide` -/
def lineOf (t : Text σ) (r : Int × Int) : Text σ :=
  new Variant.repaired (Py.slice t.plain r.1 r.2) t.style [] t.justify t.overflow

theorem newLines_eq (t : Text σ) (ranges : List (Int × Int)) :
    newLines Variant.repaired t ranges = ranges.map (lineOf t) := rfl

theorem newLines_zip (t : Text σ) : ∀ (ranges : List (Int × Int)),
    (newLines Variant.repaired t ranges).zip ranges = ranges.map (fun r => (lineOf t r, r))
  | [] => rfl
  | r :: rs => by
    have ih := newLines_zip t rs
    rw [newLines_eq] at ih ⊢
    simp only [List.map_cons, List.zip_cons_cons, ih]

theorem lineOf_plain (t : Text σ) (h : Inv t) (s e : Nat) :
    (lineOf t ((s : Int), (e : Int))).plain = (t.plain.drop s).take (e - s) := by
  have h1 : (lineOf t ((s : Int), (e : Int))).plain = stripControl (Py.slice t.plain (s : Int) (e : Int)) := rfl
  rw [h1, slice_nat]
  apply stripControl_id
  intro c hc
  exact h.2.1 c (List.mem_of_mem_drop (List.mem_of_mem_take hc))

/-! ### unfolding `divLines` -/

theorem divLines_nil : ∀ (rest : List (Text σ × Int × Int)), divLines rest [] = rest.map (·.1)
  | [] => rfl
  | (line, s, e) :: rest => by simp [divLines]

theorem lineSpans_nil (s e : Int) : lineSpans s e ([] : List (Nat × Span σ)) = [] := rfl

theorem divLines_cons (line : Text σ) (s e : Int) (rest : List (Text σ × Int × Int)) (todo : List (Nat × Span σ))
    (hl : line.spans = []) :
    divLines ((line, s, e) :: rest) todo =
      { line with spans := lineSpans s e todo } ::
        divLines rest (((todo.takeWhile (fun p => decide (p.2.start < e))).filterMap (remOf e)).reverse ++
          todo.dropWhile (fun p => decide (p.2.start < e))) := by
  cases todo with
  | nil =>
    simp only [divLines, List.isEmpty_nil, if_true, lineSpans_nil, List.takeWhile_nil, List.filterMap_nil,
      List.reverse_nil, List.dropWhile_nil, List.append_nil, divLines_nil]
    cases line
    simp only [] at hl
    subst hl; rfl
  | cons p ps =>
    rw [divLines]
    simp only [List.isEmpty_cons, Bool.false_eq_true, if_false, divLineLoop_eq, List.nil_append]
    rfl

/-! ### one divided line -/

theorem line_spec (t : Text σ) (h : Inv t) (s e : Nat) (hse : s ≤ e) (he : e ≤ t.plain.length)
    (todo : List (Nat × Span σ)) (hT : TodoInv t.spans s todo) (l : Text σ)
    (hl : l = { lineOf t ((s : Int), (e : Int)) with spans := lineSpans (s : Int) (e : Int) todo }) :
    l.view = (t.view.drop s).take (e - s) ∧ l.plain = (t.plain.drop s).take (e - s) ∧
      Inv l ∧ l.style = t.style ∧ l.justify = t.justify ∧ l.overflow = t.overflow := by
  have hp : l.plain = (t.plain.drop s).take (e - s) := by rw [hl]; exact lineOf_plain t h s e
  have hlen : l.plain.length = e - s := by
    rw [hp, List.length_take, List.length_drop]; omega
  have hsp : l.spans = lineSpans (s : Int) (e : Int) todo := by rw [hl]
  have hst : l.style = t.style := by rw [hl]; rfl
  refine ⟨?_, hp, ⟨?_, ?_, ?_⟩, hst, by rw [hl]; rfl, by rw [hl]; rfl⟩
  · rw [view_eq_annot, view_eq_annot, hp]
    have h1 : (annot t.plain t.effStyle 0).drop s = annot (t.plain.drop s) t.effStyle (0 + s) :=
      (annot_drop t.plain t.effStyle 0 s).symm
    rw [h1, ← annot_take, annot_shift]
    apply annot_congr
    intro i _ hi
    rw [← hp, hlen] at hi
    simp only [effStyle, hst, hsp]
    rw [line_spanIds t.spans s e todo hT i (by omega), Nat.add_comm]
  · have : l.length = ((l.plain.length : Nat) : Int) := by rw [hl]; rfl
    exact this
  · rw [hl]; exact stripControl_noCtl _
  · have hlen' : l.length = (e : Int) - (s : Int) := by
      have : l.length = ((l.plain.length : Nat) : Int) := by rw [hl]; rfl
      rw [this, hlen]; omega
    rw [hsp, hlen']
    exact line_spansIn t.spans s e todo hT

theorem lineOf_spans (t : Text σ) (r : Int × Int) : (lineOf t r).spans = [] := rfl

/-! ### all lines -/

theorem cons_congr {α : Type} {a b : α} {l m : List α} (h1 : a = b) (h2 : l = m) : a :: l = b :: m := by
  rw [h1, h2]


theorem divLines_spec (t : Text σ) (h : Inv t) : ∀ (offs : List Nat) (s : Nat) (todo : List (Nat × Span σ)),
    TodoInv t.spans s todo → AscFrom s offs → (∀ o ∈ offs, o ≤ t.plain.length) → s ≤ t.plain.length →
    (divLines ((rangesFrom s offs t.plain.length).map (fun r => (lineOf t r, r))) todo).map view
        = piecesFrom s offs t.view ∧
    (divLines ((rangesFrom s offs t.plain.length).map (fun r => (lineOf t r, r))) todo).map (·.plain)
        = piecesFrom s offs t.plain ∧
    ∀ l ∈ divLines ((rangesFrom s offs t.plain.length).map (fun r => (lineOf t r, r))) todo,
      Inv l ∧ l.style = t.style ∧ l.justify = t.justify ∧ l.overflow = t.overflow
  | [], s, todo, hT, _, _, hs => by
    simp only [rangesFrom, List.map_cons, List.map_nil]
    rw [divLines_cons _ _ _ _ _ (lineOf_spans t _)]
    obtain ⟨h1, h2, h3⟩ := line_spec t h s t.plain.length hs (Nat.le_refl _) todo hT _ rfl
    have hvl : t.view.length = t.plain.length := by rw [view_eq_annot, annot_length]
    rw [List.take_of_length_le (by rw [List.length_drop]; omega)] at h1
    rw [List.take_of_length_le (by rw [List.length_drop]; omega)] at h2
    refine ⟨congrArg (· :: []) h1, congrArg (· :: []) h2, ?_⟩
    intro l hl
    simp only [divLines, List.mem_singleton] at hl
    subst hl; exact h3
  | o :: os, s, todo, hT, hasc, hb, hs => by
    obtain ⟨hso, hasc'⟩ := hasc
    have ho : o ≤ t.plain.length := hb o (by simp)
    simp only [rangesFrom, List.map_cons]
    rw [divLines_cons _ _ _ _ _ (lineOf_spans t _)]
    obtain ⟨h1, h2, h3⟩ := line_spec t h s o hso ho todo hT _ rfl
    obtain ⟨i1, i2, i3⟩ := divLines_spec t h os o _ (todoInv_next t.spans s o hso todo hT) hasc'
      (fun x hx => hb x (by simp [hx])) ho
    refine ⟨cons_congr h1 i1, cons_congr h2 i2, ?_⟩
    intro l hl
    rcases List.mem_cons.1 hl with rfl | hl
    · exact h3
    · exact i3 l hl

/-! ### the initial stack -/

theorem todoInv_init (t : Text σ) (h : Inv t) :
    TodoInv t.spans 0
      (Py.sortByKeyDesc (fun (p : Nat × Span σ) => p.2.start) (t.spans.zipIdx.map (fun p => (p.2, p.1)))).reverse := by
  have hperm := Py.sortByKey_perm (fun (p : Nat × Span σ) => - p.2.start) (t.spans.zipIdx.map (fun p => (p.2, p.1)))
  have hmem : ∀ p, p ∈ (Py.sortByKeyDesc (fun (p : Nat × Span σ) => p.2.start)
      (t.spans.zipIdx.map (fun p => (p.2, p.1)))).reverse ↔ t.spans[p.1]? = some p.2 := by
    intro p
    rw [List.mem_reverse]
    unfold Py.sortByKeyDesc
    rw [hperm.mem_iff, List.mem_map]
    constructor
    · rintro ⟨q, hq, rfl⟩
      exact List.mem_zipIdx_iff_getElem?.1 hq
    · intro hp
      exact ⟨(p.2, p.1), List.mem_zipIdx_iff_getElem?.2 hp, rfl⟩
  refine ⟨?_, ?_, ?_, ?_⟩
  · rw [List.pairwise_reverse]
    unfold Py.sortByKeyDesc
    exact (Py.sortByKey_sorted (fun (p : Nat × Span σ) => - p.2.start) _).imp (fun {a b} hab => by omega)
  · intro p hp
    have hp' := (hmem p).1 hp
    have hin : p.2 ∈ t.spans := List.mem_iff_getElem?.2 ⟨p.1, hp'⟩
    obtain ⟨h0, h1, _⟩ := h.2.2 p.2 hin
    exact ⟨p.2, hp', rfl, rfl, by omega, h1⟩
  · rw [List.map_reverse]
    refine ((List.reverse_perm _).trans (hperm.map _)).nodup_iff.2 ?_
    rw [List.map_map]
    have : ((fun x : Nat × Span σ => x.1) ∘ fun p : Span σ × Nat => (p.2, p.1)) = Prod.snd := rfl
    rw [this, List.zipIdx_map_snd]
    exact List.nodup_range' 1
  · intro i o ho _
    exact ⟨o, (hmem (i, o)).2 ho⟩

theorem todoInv_nil (s : Nat) : TodoInv ([] : List (Span σ)) s [] :=
  ⟨List.Pairwise.nil, by simp, by simp, by simp⟩

/-! ### the theorem -/

/-- **`divide` cuts the styled string.**  On the repaired code, dividing a consistent text at ascending
offsets inside the text yields one line per piece of `pieces offs`, each carrying exactly the characters of
its piece and, on every character, exactly the effective style (`base :: covering spans, in span order`)
the character had. -/
theorem divide_view [BEq σ] (t : Text σ) (offs : List Nat) (h : Inv t)
    (hs : AscFrom 0 offs) (hb : ∀ o ∈ offs, o ≤ t.plain.length) :
    ∃ lines, t.divide Variant.repaired offs = .ok lines ∧
      lines.map Text.view = pieces offs t.view ∧
      lines.map (·.plain) = pieces offs t.plain ∧
      (∀ l ∈ lines, Inv l ∧ l.style = t.style ∧ l.justify = t.justify ∧ l.overflow = t.overflow) := by
  unfold divide
  cases offs with
  | nil =>
    refine ⟨[t], by simp [copy_eq_self t h], by simp [pieces, piecesFrom], by simp [pieces, piecesFrom], ?_⟩
    intro l hl
    simp only [List.mem_singleton] at hl
    subst hl; exact ⟨h, rfl, rfl, rfl⟩
  | cons o os =>
    simp only [List.isEmpty_cons, Bool.false_eq_true, if_false]
    rw [lineRanges_eq, newLines_zip]
    by_cases hsp : t.spans.isEmpty = true
    · rw [if_pos hsp]
      have hnil : t.spans = [] := List.isEmpty_iff.1 hsp
      have hT : TodoInv t.spans 0 [] := by rw [hnil]; exact todoInv_nil 0
      have := divLines_spec t h (o :: os) 0 [] hT hs hb (Nat.zero_le _)
      have hnl : ((rangesFrom 0 (o :: os) t.plain.length).map (fun r => (lineOf t r, r))).map (·.1)
          = newLines Variant.repaired t (rangesFrom 0 (o :: os) t.plain.length) := by
        rw [newLines_eq, List.map_map]; rfl
      rw [divLines_nil, hnl] at this
      exact ⟨_, rfl, this⟩
    · rw [if_neg hsp]
      have : Variant.repaired.divideOrder = false := rfl
      simp only [this, Bool.false_eq_true, if_false]
      exact ⟨_, rfl, divLines_spec t h (o :: os) 0 _ (todoInv_init t h) hs hb (Nat.zero_le _)⟩

/-! ### a concrete instance -/

/-- "abcdef" with base style 0 and three overlapping spans (two of them equal as values, one empty) -/
def exText : Text Nat :=
  { plain := ['a', 'b', 'c', 'd', 'e', 'f'], length := 6, style := 0
    spans := [⟨1, 5, 1⟩, ⟨0, 3, 2⟩, ⟨1, 5, 1⟩, ⟨4, 4, 3⟩] }

example : Inv exText := by
  refine ⟨rfl, by decide, ?_⟩
  intro sp hsp
  simp only [exText, List.mem_cons, List.not_mem_nil, or_false] at hsp
  rcases hsp with rfl | rfl | rfl | rfl <;> decide

example : AscFrom 0 [2, 2, 5] ∧ ∀ o ∈ [2, 2, 5], o ≤ exText.plain.length := by
  refine ⟨⟨by decide, by decide, by decide, trivial⟩, by decide⟩

example : (exText.divide Variant.repaired [2, 2, 5]).toOption.map (·.map view) =
    some [[('a', [0, 2]), ('b', [0, 1, 2, 1])], [], [('c', [0, 1, 2, 1]), ('d', [0, 1, 1]), ('e', [0, 1, 1])],
      [('f', [0])]] := by decide

end Text

end RichModel
