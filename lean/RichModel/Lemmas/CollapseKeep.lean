import RichModel.Lemmas.Ratio
/-!
`Table._collapse_widths` never starves a column: when every column may wrap, every width is at least 1 and
`max_width` is at least the number of columns, every collapsed width is still at least 1.

The heart is the all-columns-equal case (`second_max_column = 0`): `ratio_reduce` then splits the excess
evenly with banker's rounding, and the invariant "what is still to be taken is at most (M-1) per remaining
column" survives every step.
-/
namespace RichModel

theorem rhe_ge_div (a b : Int) : a / b ≤ roundHalfEven a b := by
  unfold roundHalfEven
  simp only
  split
  · omega
  · split
    · omega
    · split <;> omega

/-- One step of the even split: if at most `K` per column is still to be taken from `tr` columns, and this
column gives at least the floor of its share, at most `K` per column remains for the other `tr-1`. -/
theorem even_split_step (rem tr K d : Int) (htr : 1 ≤ tr) (hle : rem ≤ tr * K) (hd : rem / tr ≤ d) :
    rem - d ≤ (tr - 1) * K := by
  have hdecomp := Int.mul_ediv_add_emod rem tr     -- tr * (rem / tr) + rem % tr = rem
  have hr0 := Int.emod_nonneg rem (b := tr) (by omega)
  have hr1 := Int.emod_lt_of_pos rem (show 0 < tr by omega)
  have hC : (tr - 1) * K = tr * K - K := by rw [Int.sub_mul, Int.one_mul]
  by_cases hq : rem / tr ≤ K - 1
  · have hA : (tr - 1) * (rem / tr) ≤ (tr - 1) * (K - 1) := Int.mul_le_mul_of_nonneg_left hq (by omega)
    have hB : (tr - 1) * (K - 1) = (tr - 1) * K - (tr - 1) := by rw [Int.mul_sub, Int.mul_one]
    have hA' : (tr - 1) * (rem / tr) = tr * (rem / tr) - rem / tr := by rw [Int.sub_mul, Int.one_mul]
    omega
  · rw [hC]; omega

/-- `ratio_reduce` over columns that are all `(ratio 1, maximum cap, value M)`. -/
theorem rrLoop_uniform (cap M : Int) (hM : 1 ≤ M) : ∀ (items : List (Int × Int × Int)) (rem tr : Int),
    (∀ it ∈ items, it = (1, cap, M)) → tr = (items.length : Int) → 0 ≤ rem → rem ≤ tr * (M - 1) → (M ≤ cap ∨ rem ≤ cap) →
    ∀ x ∈ ratioReduceLoop items rem tr, 1 ≤ x
  | [], _, _, _, _, _, _, _ => by simp [ratioReduceLoop]
  | it :: rest, rem, tr, hall, htr, h0, hle, hcap => by
    have hit := hall it (by simp)
    subst hit
    have htr1 : 1 ≤ tr := by simp only [List.length_cons] at htr; omega
    unfold ratioReduceLoop
    have hcond : ((1 : Int) != 0 && decide (tr > 0)) = true := by simp; omega
    simp only [hcond, if_true, Int.one_mul]
    have hdq := rhe_ge_div rem tr
    have hdle : roundHalfEven rem tr ≤ M - 1 := rhe_le rem tr (M - 1) (by omega) (by rw [Int.mul_comm]; exact hle)
    have hd0 : 0 ≤ roundHalfEven rem tr := rhe_nonneg rem tr (by omega) h0
    have hdrem : roundHalfEven rem tr ≤ rem := by
      apply rhe_le rem tr rem (by omega)
      have : rem * tr = rem * (tr - 1) + rem := by rw [Int.mul_sub, Int.mul_one]; omega
      have : 0 ≤ rem * (tr - 1) := Int.mul_nonneg h0 (by omega)
      omega
    generalize roundHalfEven rem tr = d at *
    intro x hx
    rcases List.mem_cons.mp hx with hx | hx
    · omega
    · refine rrLoop_uniform cap M hM rest (rem - min cap d) (tr - 1) (fun i hi => hall i (List.mem_cons_of_mem _ hi))
        (by simp only [List.length_cons] at htr; omega) (by omega) ?_ (by omega) x hx
      by_cases hcd : d ≤ cap
      · have : min cap d = d := by omega
        rw [this]
        exact even_split_step rem tr (M - 1) d htr1 hle hdq
      · -- the maximum binds: then cap < M, so all that is left is at most cap and the rest get nothing to give
        have : min cap d = cap := by omega
        rw [this]
        have hrc : rem ≤ cap := by omega
        have : 0 ≤ (tr - 1) * (M - 1) := Int.mul_nonneg (by omega) (by omega)
        omega

theorem sum_const : ∀ (l : List Int) (M : Int), (∀ x ∈ l, x = M) → l.sum = (l.length : Int) * M
  | [], _, _ => by simp
  | a :: r, M, h => by
    have := h a (by simp)
    have ih := sum_const r M (fun x hx => h x (List.mem_cons_of_mem _ hx))
    simp only [List.sum_cons, List.length_cons, ih, Int.natCast_add, Int.add_mul]
    omega

theorem sum_map_one {α : Type} (l : List α) : (l.map (fun _ => (1 : Int))).sum = (l.length : Int) := by
  induction l with
  | nil => rfl
  | cons a r ih => simp only [List.map_cons, List.sum_cons, List.length_cons, ih, Int.natCast_add]; omega

/-- One iteration of the collapse loop keeps every column at one cell or more. -/
theorem collapseStep_keep (widths : List Int) (wrapable : List Bool) (maxWidth : Int)
    (hlen : widths.length = wrapable.length) (hall : ∀ b ∈ wrapable, b = true) (h1 : ∀ w ∈ widths, 1 ≤ w)
    (hmw : (widths.length : Int) ≤ maxWidth) (w' : List Int)
    (h : collapseStep widths wrapable maxWidth = some w') : ∀ w ∈ w', 1 ≤ w := by
  have hnn : ∀ w ∈ widths, 0 ≤ w := fun w hw => by have := h1 w hw; omega
  have hsome := collapseStep_some widths wrapable maxWidth hlen hnn w' h
  unfold collapseStep at h
  simp only at h
  split at h
  · rename_i hcond
    simp only [Bool.and_eq_true, bne_iff_ne, ne_eq, decide_eq_true_eq] at hcond
    split at h
    · exact absurd h (by simp)
    · rename_i hbrk
      simp only [Bool.or_eq_true, Bool.not_eq_true', beq_iff_eq, not_or, Bool.not_eq_false] at hbrk
      obtain ⟨hany, hdiff⟩ := hbrk
      injection h with h
      generalize hz : widths.zip wrapable = zs at *
      generalize hmc : listMax ((zs.filter (·.2)).map (·.1)) = maxColumn at *
      generalize hsm : listMax (zs.map (fun p => if p.2 && p.1 != maxColumn then p.1 else 0)) = secondMax at *
      have hzlen : zs.length = widths.length := by rw [← hz]; simp [hlen]
      have hzw : zs.map (·.1) = widths := by rw [← hz]; exact map_fst_zip _ _ hlen
      have hz1 : ∀ z ∈ zs, 1 ≤ z.1 := by
        intro z hzm; rw [← hz] at hzm; exact h1 _ (List.of_mem_zip hzm).1
      have hzt : ∀ z ∈ zs, z.2 = true := by
        intro z hzm; rw [← hz] at hzm; exact hall _ (List.of_mem_zip hzm).2
      have hmcge : ∀ z ∈ zs, z.1 ≤ maxColumn := by
        intro z hzm
        rw [← hmc]
        apply listMax_ge
        simp only [List.mem_map, List.mem_filter]
        exact ⟨z, ⟨hzm, hzt z hzm⟩, rfl⟩
      have hsmge : ∀ z ∈ zs, z.1 ≠ maxColumn → z.1 ≤ secondMax := by
        intro z hzm hne
        rw [← hsm]
        apply listMax_ge
        simp only [List.mem_map]
        refine ⟨z, hzm, ?_⟩
        simp [hzt z hzm, hne]
      have hsmle : secondMax ≤ maxColumn := by
        -- secondMax is either 0 or some column's width
        rw [← hsm]
        cases hzs : zs with
        | nil =>
          simp only [List.any_eq_true, List.mem_map] at hany
          obtain ⟨x, ⟨q, hq, _⟩, _⟩ := hany
          rw [hzs] at hq; simp at hq
        | cons a r =>
          have hm := listMax_mem ((a :: r).map (fun p => if p.2 && p.1 != maxColumn then p.1 else 0)) (by simp)
          simp only [List.mem_map] at hm
          obtain ⟨q, hq, hqe⟩ := hm
          rw [← hqe]
          split
          · exact hmcge q (by rw [hzs]; exact hq)
          · have := hz1 a (by rw [hzs]; simp)
            have := hmcge a (by rw [hzs]; simp)
            omega
      have hsm0 : 0 ≤ secondMax := by
        rw [← hsm]
        cases hzs : zs with
        | nil => simp [listMax]
        | cons a r =>
          have hm := listMax_mem ((a :: r).map (fun p => if p.2 && p.1 != maxColumn then p.1 else 0)) (by simp)
          simp only [List.mem_map] at hm
          obtain ⟨q, hq, hqe⟩ := hm
          rw [← hqe]
          split
          · have := hz1 q (by rw [hzs]; exact hq); omega
          · omega
      generalize hm : min (widths.sum - maxWidth) (maxColumn - secondMax) = m at *
      have hm1 : 1 ≤ m := by omega
      have hmle : m ≤ maxColumn - secondMax := by omega
      unfold ratioReduce at h
      have hrl : (zs.map (fun p => if p.1 == maxColumn && p.2 then (1:Int) else 0)).length = widths.length := by
        simp [hzlen]
      rw [← hrl] at h
      simp only at h
      rw [mask_replicate _ m (by omega)] at h
      have hrnn : ∀ r ∈ zs.map (fun p => if p.1 == maxColumn && p.2 then (1:Int) else 0), 0 ≤ r := by
        intro r hr; simp only [List.mem_map] at hr; obtain ⟨q, _, rfl⟩ := hr; split <;> omega
      have htr0 : 0 < (zs.map (fun p => if p.1 == maxColumn && p.2 then (1:Int) else 0)).sum := by
        have h0 := sum_nonneg_of_all _ hrnn
        rcases Int.lt_or_eq_of_le h0 with hlt | heq
        · exact hlt
        · exfalso
          have hz0 := all_zero_of_sum_zero' _ hrnn heq.symm
          simp only [List.any_eq_true] at hany
          obtain ⟨x, hx, hxne⟩ := hany
          have := hz0 x hx
          simp [this] at hxne
      have hne : ((zs.map (fun p => if p.1 == maxColumn && p.2 then (1:Int) else 0)).sum == 0) = false := by
        rw [beq_eq_false_iff_ne]; omega
      simp only [hne, Bool.false_eq_true, if_false] at h
      rw [show (List.map (fun p => if p.1 == maxColumn && p.2 then (1:Int) else 0) zs).length = zs.length by simp] at h
      rw [← hzw] at h
      rw [zip_map_triple zs (fun p => if p.1 == maxColumn && p.2 then (1:Int) else 0) (·.1) m] at h
      generalize hitems : zs.map (fun z => ((if z.1 == maxColumn && z.2 then (1:Int) else 0), m, z.1)) = items at *
      have hitpos : ∀ it ∈ items, 0 ≤ it.1 ∧ 0 ≤ it.2.1 := by
        intro it hit; rw [← hitems] at hit; simp only [List.mem_map] at hit
        obtain ⟨q, _, rfl⟩ := hit
        simp only; refine ⟨by split <;> omega, by omega⟩
      have hrr : rrRatios items = zs.map (fun p => if p.1 == maxColumn && p.2 then (1:Int) else 0) := by
        rw [← hitems]; simp [rrRatios]
      have hex : 0 ≤ widths.sum - maxWidth := by omega
      rw [hzw] at h
      obtain ⟨blen, _, _, bpt⟩ := ratioReduceLoop_bounds items (widths.sum - maxWidth) _ hitpos (by rw [hrr]) hex
      rw [h] at blen bpt
      by_cases hs1 : 1 ≤ secondMax
      · -- a reduced column stays at or above the second maximum
        intro r hr
        obtain ⟨it, hit⟩ := exists_zip_of_mem items w' blen.symm r hr
        have hb := bpt (it, r) hit
        have hzr := ratioReduceLoop_zero_ratio items (widths.sum - maxWidth) _ (it, r) (by rw [h]; exact hit)
        simp only at hb hzr
        have hitm := (List.of_mem_zip hit).1
        rw [← hitems] at hitm
        simp only [List.mem_map] at hitm
        obtain ⟨q, hq, rfl⟩ := hitm
        simp only at hb hzr
        by_cases hc : (q.1 == maxColumn && q.2) = true
        · simp only [Bool.and_eq_true, beq_iff_eq] at hc
          have := hc.1
          omega
        · have := hzr (by simp [hc])
          have := hz1 q hq
          omega
      · -- every column is the maximum: the even split
        have hs0 : secondMax = 0 := by omega
        have hallM : ∀ z ∈ zs, z.1 = maxColumn := by
          intro z hzm
          by_cases hzz : z.1 = maxColumn
          · exact hzz
          · have := hsmge z hzm hzz
            have := hz1 z hzm
            omega
        have hitu : ∀ it ∈ items, it = (1, m, maxColumn) := by
          intro it hit; rw [← hitems] at hit; simp only [List.mem_map] at hit
          obtain ⟨q, hq, rfl⟩ := hit
          simp [hallM q hq, hzt q hq]
        have hM1 : 1 ≤ maxColumn := by
          cases hzs : zs with
          | nil =>
            simp only [List.any_eq_true, List.mem_map] at hany
            obtain ⟨x, ⟨q, hq, _⟩, _⟩ := hany
            rw [hzs] at hq; simp at hq
          | cons a r =>
            have := hz1 a (by rw [hzs]; simp)
            have := hallM a (by rw [hzs]; simp)
            omega
        have htrlen : (zs.map (fun p => if p.1 == maxColumn && p.2 then (1:Int) else 0)).sum = (items.length : Int) := by
          have : zs.map (fun p => if p.1 == maxColumn && p.2 then (1:Int) else 0) = zs.map (fun _ => (1:Int)) := by
            apply List.map_congr_left
            intro q hq
            simp [hallM q hq, hzt q hq]
          rw [this, sum_map_one, ← hitems]; simp
        have hwsum : widths.sum = (items.length : Int) * maxColumn := by
          rw [← hzw]
          have := sum_const (zs.map (·.1)) maxColumn (by
            intro x hx; simp only [List.mem_map] at hx; obtain ⟨q, hq, rfl⟩ := hx; exact hallM q hq)
          rw [this, ← hitems]; simp
        have hitlen : (items.length : Int) = (widths.length : Int) := by rw [← hitems]; simp [hzlen]
        have hmul : (items.length : Int) * (maxColumn - 1) = (items.length : Int) * maxColumn - (items.length : Int) := by
          rw [Int.mul_sub, Int.mul_one]
        rw [← h]
        exact rrLoop_uniform m maxColumn hM1 items (widths.sum - maxWidth) _ hitu htrlen hex (by rw [htrlen, hmul]; omega) (by omega)
  · exact absurd h (by simp)

theorem collapseLoop_keep (wrapable : List Bool) (maxWidth : Int) (hall : ∀ b ∈ wrapable, b = true) :
    ∀ (fuel : Nat) (widths : List Int), widths.length = wrapable.length → (∀ w ∈ widths, 1 ≤ w) →
      (widths.length : Int) ≤ maxWidth → ∀ w ∈ collapseLoop fuel widths wrapable maxWidth, 1 ≤ w
  | 0, _, _, h1, _ => by unfold collapseLoop; exact h1
  | fuel+1, widths, hlen, h1, hmw => by
    unfold collapseLoop
    cases hs : collapseStep widths wrapable maxWidth with
    | none => exact h1
    | some w' =>
      simp only
      have hnn : ∀ w ∈ widths, 0 ≤ w := fun w hw => by have := h1 w hw; omega
      obtain ⟨l1, _, _, _⟩ := collapseStep_some widths wrapable maxWidth hlen hnn w' hs
      exact collapseLoop_keep wrapable maxWidth hall fuel w' (by omega)
        (collapseStep_keep widths wrapable maxWidth hlen hall h1 hmw w' hs) (by omega)

/-- **`_collapse_widths` never starves a column**: every column free to wrap, every width at least 1 and a
budget of at least one cell per column — every collapsed width is at least 1. -/
theorem collapseWidths_keep (widths : List Int) (wrapable : List Bool) (maxWidth : Int)
    (hlen : widths.length = wrapable.length) (hall : ∀ b ∈ wrapable, b = true) (h1 : ∀ w ∈ widths, 1 ≤ w)
    (hmw : (widths.length : Int) ≤ maxWidth) : ∀ w ∈ collapseWidths widths wrapable maxWidth, 1 ≤ w := by
  unfold collapseWidths
  split
  · exact collapseLoop_keep wrapable maxWidth hall _ widths hlen h1 hmw
  · exact h1

end RichModel
