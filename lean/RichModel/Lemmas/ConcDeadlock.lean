import RichModel.Lemmas.ConcInv
/-!
Deadlock freedom of `Model/Conc.lean`: the locks are taken in rank order (live < console < record), so the
waits-for relation cannot contain a cycle, and in every reachable state with an unfinished thread some
thread can move.
-/
set_option linter.unusedSimpArgs false
namespace RichModel.Conc
open RichModel

/-- Thread `t` stands in front of `acquire(lk)` and `lk` is owned by another thread. -/
def Blocked (cfg : Cfg) (s : State) (t : Nat) (lk : Lock) : Prop :=
  ∃ g r u, (s.th t).cont = ⟨g, .acq lk⟩ :: r ∧ guardOn cfg (s.th t).depth (s.th t).hooked g = true ∧
    s.sh.owner lk = some u ∧ u ≠ t

theorem exec_none {cfg : Cfg} {t : Nat} {sh : Shared} {l : Local} {act : Act}
    (h : exec cfg t sh l act = none) : ∃ lk u, act = .acq lk ∧ sh.owner lk = some u ∧ u ≠ t := by
  cases act <;> simp only [exec] at h
  case acq lk =>
    split at h
    · simp at h
    · rename_i u ho
      split at h
      · simp at h
      · rename_i hu; exact ⟨lk, u, rfl, ho, hu⟩
  all_goals first
    | (simp at h; done)
    | (split at h <;> simp at h; done)

/-- A thread that cannot move and is not finished is blocked on a lock. -/
theorem stuck_blocked {cfg : Cfg} {s : State} {t : Nat} (h : stepT cfg s t = none) (hd : (s.th t).done = false) :
    ∃ lk, Blocked cfg s t lk := by
  cases hc : (s.th t).cont with
  | nil =>
    rw [stepT_nil hc] at h
    cases hp : (s.th t).prog with
    | nil => simp [Local.done, hc, hp] at hd
    | cons op rest => rw [hp] at h; simp at h
  | cons g r =>
    rw [stepT_cons hc] at h
    by_cases hg : guardOn cfg (s.th t).depth (s.th t).hooked g.g = true
    · rw [if_pos hg] at h
      simp only [Option.map_eq_none_iff] at h
      obtain ⟨lk, u, ha, ho, hu⟩ := exec_none h
      obtain ⟨gg, act⟩ := g
      simp only at ha
      subst ha
      exact ⟨lk, gg, r, u, hc, hg, ho, hu⟩
    · rw [if_neg hg] at h; simp at h

/-- The owner of a lock is not finished, and if it is blocked itself it waits for a lock of higher rank. -/
theorem blocked_rank {cfg : Cfg} {s : State} (inv : Inv cfg s) {t : Nat} {lk : Lock} (hb : Blocked cfg s t lk) :
    ∃ u, s.sh.owner lk = some u ∧ u ≠ t ∧ (s.th u).done = false ∧
      ∀ lk', Blocked cfg s u lk' → lk.rank < lk'.rank := by
  obtain ⟨g, r, u, hc, hg, ho, hu⟩ := hb
  refine ⟨u, ho, hu, ?_, ?_⟩
  · -- a finished thread holds nothing
    have hm : lk ∈ (s.th u).held := (inv.own lk u).mp ho
    cases hcu : (s.th u).cont with
    | cons _ _ => simp [Local.done, hcu]
    | nil =>
      have hs := inv.sim u
      rw [hcu] at hs
      simp only [Sim, Abs.final, Local.abs, Bool.and_eq_true, List.isEmpty_iff] at hs
      rw [hs.1.1.1.2] at hm
      simp at hm
  · intro lk' hb'
    obtain ⟨g', r', u', hc', hg', ho', hu'⟩ := hb'
    have hm : lk ∈ (s.th u).held := (inv.own lk u).mp ho
    have hs := inv.sim u
    rw [hc'] at hs
    obtain ⟨a', ha, _⟩ := sim_generic (act := .acq lk') rfl (by simpa [Local.abs] using hg') hs
    simp only [absAct] at ha
    split at ha
    · rename_i hcond
      rcases hcond with hin | hall
      · have := (inv.own lk' u).mpr hin
        rw [ho'] at this
        simp at this
        exact absurd this hu'
      · simp only [List.all_eq_true, decide_eq_true_eq] at hall
        exact hall lk hm
    · simp at ha

/-- **No deadlock**: whenever some thread is not finished, some thread can perform a step. -/
theorem progress {cfg : Cfg} {s : State} (inv : Inv cfg s) (h : ∃ t, (s.th t).done = false) :
    ∃ t, (stepT cfg s t).isSome = true := by
  apply Classical.byContradiction
  intro hno
  have hnone : ∀ t, stepT cfg s t = none := by
    intro t
    cases hs : stepT cfg s t with
    | none => rfl
    | some s' => exact absurd ⟨t, by simp [hs]⟩ hno
  -- a chain of blocked threads waiting for locks of ever higher rank
  have chain : ∀ n : Nat, ∃ t lk, Blocked cfg s t lk ∧ n ≤ lk.rank := by
    intro n
    induction n with
    | zero =>
      obtain ⟨t, ht⟩ := h
      obtain ⟨lk, hb⟩ := stuck_blocked (hnone t) ht
      exact ⟨t, lk, hb, Nat.zero_le _⟩
    | succ n ih =>
      obtain ⟨t, lk, hb, hn⟩ := ih
      obtain ⟨u, _, _, hud, hrank⟩ := blocked_rank inv hb
      obtain ⟨lk', hb'⟩ := stuck_blocked (hnone u) hud
      exact ⟨u, lk', hb', by have := hrank lk' hb'; omega⟩
  obtain ⟨_, lk, _, h3⟩ := chain 3
  cases lk <;> simp [Lock.rank] at h3

end RichModel.Conc
