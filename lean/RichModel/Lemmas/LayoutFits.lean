import RichModel.Lemmas.LayoutSplit
import RichModel.Lemmas.LayoutText
import RichModel.Lemmas.LayoutFrames
import RichModel.Lemmas.LayoutPanel
import RichModel.Lemmas.LayoutTextNoWrap
import RichModel.Lemmas.LayoutSmin
import RichModel.Lemmas.LayoutBelowMin
import RichModel.Lemmas.LayoutPanelAny
/-!
The cases of the structural induction behind C01 (`render_fits`) that do not involve a table: text, the framing
renderables, the transparent wrappers, groups, rule, bars, tree.  Each case is a lemma `good_…`; the pass-through
constructors take the induction hypothesis as an argument.  The table / columns cases are in `LayoutFitsTable.lean`,
the induction itself (`good` / `goodL`) in `LayoutFitsTable.lean` as well; `Props/C01.lean` only states the theorems.
-/
namespace RichModel.Layout
open RichModel RichModel.Frames

/-- what the theorems need of the configuration: rich's cell-width table, the repaired `leading` of tables (fix dd342b5, what
/repo contains), and an empty poison (the theorems speak of the cases the model covers). -/
structure CfgOk (cfg : Cfg) : Prop where
  hcw : cfg.cw = cwR
  hfl : cfg.fl.leadingRepeat = false
  hp : cfg.poison = []
  /-- the panel title is rendered at the width it was aligned to (the code since fix 0e1edf7) -/
  htc : cfg.titleAtConsoleWidth = false

theorem cwR_space : cwR ' ' = 1 := cwD_space
theorem cwR_le_two (c : Char) : cwR c ≤ 2 := cwD_le_two c
theorem cwR_ellipsis : cwR '…' = 1 := cwD_ellipsis

theorem CfgOk.hsp {cfg : Cfg} (ok : CfgOk cfg) : cfg.cw ' ' = 1 := by rw [ok.hcw]; exact cwR_space
theorem CfgOk.h2 {cfg : Cfg} (ok : CfgOk cfg) : ∀ c, cfg.cw c ≤ 2 := by rw [ok.hcw]; exact cwR_le_two
theorem CfgOk.hel {cfg : Cfg} (ok : CfgOk cfg) : cfg.cw '…' = 1 := by rw [ok.hcw]; exact cwR_ellipsis

theorem fits_mono (cw : Char → Nat) (w w' : Nat) (segs : List Seg) (h : Fits cw w segs) (hw : w ≤ w') : Fits cw w' segs :=
  fun p hp => Nat.le_trans (h p hp) hw

theorem fits_of_lines_le (cw : Char → Nat) (w : Nat) (segs : List Seg)
    (h : ∀ l ∈ splitLines segs, lineLength cw l ≤ w) : Fits cw w segs := (fits_iff_lines cw w segs).mpr h

/-- The induction statement for one tree: in the domain NO LINE IS WIDER THAN `max w (smin r)` — the available width when it is at or
above the structural minimum, the structural minimum itself below it — and a statically closed renderable ends its last line. -/
def Good (cfg : Cfg) (r : R) : Prop :=
  ∀ (o : Opts) (w : Nat), 1 ≤ w → Dom cfg r o w →
    Fits cfg.cw (max w (smin cfg.cw r)) (render cfg r o w) ∧ (closedR r = true → Closed (render cfg r o w))

def GoodL (cfg : Cfg) (rs : List R) : Prop :=
  ∀ (o : Opts) (w : Nat), 1 ≤ w → DomL cfg rs o w →
    Fits cfg.cw (max w (sminMax cfg.cw rs)) (renderL cfg rs o w) ∧ (closedL rs = true → Closed (renderL cfg rs o w))


theorem renderAt_chOf (cfg : Cfg) (r : R) (o : Opts) (x : Int) (n : Nat) (hx : x = (n : Int)) (hn : 1 ≤ n) :
    (chOf cfg r o).renderAt x = render cfg r o n := by
  subst hx
  unfold Child.renderAt chOf
  have : ¬ ((n : Int) < 1) := by omega
  simp only [this, if_false, Int.toNat_natCast]

theorem smin_panel_ge (cw : Char → Nat) (o : PanelOpts) (c : R) :
    2 + smin cw c ≤ smin cw (.panel o c) ∧ (o.title ≠ [] → 4 ≤ smin cw (.panel o c)) := by
  rw [smin]
  constructor
  · omega
  · intro h
    have : o.title.isEmpty = false := by
      cases ht : o.title with
      | nil => exact absurd ht h
      | cons _ _ => rfl
    simp only [this, Bool.false_eq_true, if_false]
    omega

theorem alignInner_le (env : Env) (v : Frames.Variant) (o : AlignOpts) (c : Ch) (w : Int) : alignInnerWidth env v o c w ≤ w := by
  unfold alignInnerWidth
  exact Int.min_le_right _ _

theorem good_text (cfg : Cfg) (ok : CfgOk cfg) (t : T) : Good cfg (.text t) := by
  intro o w hw hd
  rw [render]
  rw [Dom] at hd
  refine ⟨fits_mono _ _ _ _ (text_fits cfg ok.hsp ok.h2 ok.hel ok.hp t o w hw hd.1 hd.2) (Nat.le_max_left _ _), ?_⟩
  intro hc
  rw [closedR] at hc
  apply text_closed cfg ok.hp t o w
  simpa [textClosed] using hc

theorem good_str (cfg : Cfg) (ok : CfgOk cfg) (t : T) : Good cfg (.str t) := by
  intro o w hw hd
  rw [render]
  rw [Dom] at hd
  refine ⟨fits_mono _ _ _ _ (text_fits cfg ok.hsp ok.h2 ok.hel ok.hp t o w hw hd.1 hd.2) (Nat.le_max_left _ _), ?_⟩
  intro hc
  rw [closedR] at hc
  apply text_closed cfg ok.hp t o w
  simpa [textClosed] using hc

theorem good_padding (cfg : Cfg) (ok : CfgOk cfg) (p : PadDims) (e : Bool) (c : R) : Good cfg (.padding p e c) := by
  intro o w _ _
  rw [render, ok.hcw]
  constructor
  · apply fits_mono _ w _ _ _ (Nat.le_max_left _ _)
    apply fits_of_lines_le
    have := padding_lines_le_any cfg.v p e (chOf cfg c o) (w : Int) (by omega) (fun k => (chOf_measureAt cfg c o k).1)
    simpa [chOf] using this
  · intro _
    exact padding_closed cfg.v p e (chOf cfg c o) (w : Int)

theorem good_panel (cfg : Cfg) (ok : CfgOk cfg) (po : PanelOpts) (c : R) : Good cfg (.panel po c) := by
  intro o w hw _
  rw [render]
  have hge := smin_panel_ge cfg.cw po c
  have hpos := smin_pos cfg.cw c
  split
  · rename_i s heq
    have := panelL_fits_any cfg ok.hcw ok.hp ok.htc po (chOf cfg c o) (w : Int) s heq (by omega)
      (fun k => chOf_measureAt cfg c o k)
    refine ⟨fits_mono _ _ _ _ this.1 ?_, fun _ => this.2⟩
    have hw' : ((w : Nat) : Int).toNat = w := by omega
    rw [hw']
    split
    · omega
    · rename_i hne
      have := hge.2 hne
      omega
  · rw [ok.hp]
    exact ⟨fits_nil _ _, fun _ => closed_nil⟩

theorem good_align (cfg : Cfg) (ok : CfgOk cfg) (ao : AlignOpts) (c : R) (ih : Good cfg c) : Good cfg (.align ao c) := by
  intro o w _ hd
  rw [render, smin]
  rw [Dom] at hd
  have hle := alignInner_le cfg.env cfg.v ao (chOf cfg c o) (w : Int)
  generalize hiw : alignInnerWidth cfg.env cfg.v ao (chOf cfg c o) (w : Int) = iwI at hd hle
  have hchild : ∀ l ∈ splitLines ((chOf cfg c o).renderAt iwI), lineLength cwR l ≤ max w (smin cwR c) := by
    by_cases h1 : 1 ≤ iwI.toNat
    · rw [renderAt_chOf cfg c o iwI iwI.toNat (by omega) h1]
      obtain ⟨hf, _⟩ := ih o iwI.toNat h1 hd
      intro l hl
      have := (fits_iff_lines cfg.cw _ _).mp hf l hl
      rw [ok.hcw] at this
      omega
    · have : (chOf cfg c o).renderAt iwI = [] := by
        unfold Child.renderAt
        have : iwI < 1 := by omega
        simp [this]
      rw [this]
      intro l hl
      have : splitLines ([] : List Seg) = [] := rfl
      rw [this] at hl; cases hl
  rw [ok.hcw]
  constructor
  · apply fits_of_lines_le
    have := align_lines_le_bound cfg.env cfg.v ao (chOf cfg c o) (w : Int) (max w (smin cwR c)) (by omega) (by omega)
      (by rw [hiw]; exact hchild)
    simpa [chOf] using this
  · intro _
    exact align_closed cfg.env cfg.v ao (chOf cfg c o) (w : Int)

theorem good_constrain (cfg : Cfg) (k : Option Nat) (c : R) (ih : Good cfg c) : Good cfg (.constrain k c) := by
  intro o w hw hd
  rw [render, smin]
  cases k with
  | none =>
    rw [Dom] at hd
    have hr : constrainConsole (Option.map Int.ofNat none) ⟨fun x => measure cfg c x, fun x => render cfg c o x⟩ (w : Int)
        = render cfg c o w := by
      simp only [Option.map_none, constrainConsole]
      exact renderAt_chOf cfg c o _ w rfl hw
    rw [closedR, hr]
    exact ih o w hw hd
  | some k =>
    rw [Dom] at hd
    by_cases h1 : 1 ≤ min k w
    · have hr : constrainConsole (Option.map Int.ofNat (some k)) ⟨fun x => measure cfg c x, fun x => render cfg c o x⟩ (w : Int)
          = render cfg c o (min k w) := by
        simp only [Option.map_some, constrainConsole]
        exact renderAt_chOf cfg c o _ (min k w) (by simp only [Int.ofNat_eq_natCast]; omega) h1
      obtain ⟨hf, hc⟩ := ih o (min k w) h1 hd
      rw [closedR, hr]
      exact ⟨fits_mono _ _ _ _ hf (by omega), hc⟩
    · have hr : constrainConsole (Option.map Int.ofNat (some k)) ⟨fun x => measure cfg c x, fun x => render cfg c o x⟩ (w : Int) = [] := by
        simp only [Option.map_some, constrainConsole, Child.renderAt]
        have : min (Int.ofNat k) (w : Int) < 1 := by simp only [Int.ofNat_eq_natCast]; omega
        rw [if_pos this]
      rw [hr]
      exact ⟨fits_nil _ _, fun _ => closed_nil⟩

theorem good_styled (cfg : Cfg) (c : R) (ih : Good cfg c) : Good cfg (.styled c) := by
  intro o w hw hd
  rw [render, closedR, smin]
  rw [Dom] at hd
  exact ih o w hw hd

theorem good_cast (cfg : Cfg) (c : R) (ih : Good cfg c) : Good cfg (.cast c) := by
  intro o w hw hd
  rw [render, closedR, smin]
  rw [Dom] at hd
  exact ih o w hw hd

theorem good_opaque (cfg : Cfg) (c : R) (ih : Good cfg c) : Good cfg (.opaque c) := by
  intro o w hw hd
  rw [render, closedR, smin]
  rw [Dom] at hd
  exact ih o w hw hd

theorem good_group (cfg : Cfg) (fit : Bool) (items : List R) (ih : GoodL cfg items) : Good cfg (.group fit items) := by
  intro o w hw hd
  rw [render, closedR, smin]
  rw [Dom] at hd
  obtain ⟨hf, hc⟩ := ih o w hw hd
  exact ⟨fits_mono _ _ _ _ hf (by omega), hc⟩

theorem goodL_nil (cfg : Cfg) : GoodL cfg [] := by
  intro o w _ _
  rw [renderL]
  exact ⟨fits_nil _ _, fun _ => closed_nil⟩

theorem goodL_cons (cfg : Cfg) (r : R) (rs : List R) (ih : Good cfg r) (ihL : GoodL cfg rs) : GoodL cfg (r :: rs) := by
  intro o w hw hd
  rw [renderL, sminMax]
  rw [DomL] at hd
  obtain ⟨hd1, hcl, hd2⟩ := hd
  obtain ⟨hf1, hc1⟩ := ih o w hw hd1
  obtain ⟨hf2, hc2⟩ := ihL o w hw hd2
  have hf1' := fits_mono _ _ (max w (max (smin cfg.cw r) (sminMax cfg.cw rs))) _ hf1 (by omega)
  have hf2' := fits_mono _ _ (max w (max (smin cfg.cw r) (sminMax cfg.cw rs))) _ hf2 (by omega)
  constructor
  · rcases hcl with rfl | hcl
    · rw [renderL]
      exact fits_append_nil_right _ _ _ hf1'
    · exact fits_append _ _ _ _ (hc1 hcl) hf1' hf2'
  · intro hc
    rw [closedL] at hc
    simp only [Bool.and_eq_true] at hc
    exact closed_append _ _ (hc1 hc.1) (hc2 hc.2)

/-- the cases that never looked at the structural minimum -/
theorem good_of_any (cfg : Cfg) (r : R)
    (h : ∀ (o : Opts) (w : Nat), 1 ≤ w → Dom cfg r o w → Fits cfg.cw w (render cfg r o w) ∧ (closedR r = true → Closed (render cfg r o w))) :
    Good cfg r := fun o w hw hd => ⟨fits_mono _ _ _ _ (h o w hw hd).1 (Nat.le_max_left _ _), (h o w hw hd).2⟩

theorem ruleText_snd (cw : Char → Nat) (env : Env) (v : Frames.Variant) (o : RuleOpts) (w : Int) :
    (ruleText cw env v o w).2 = if o.title.isEmpty then ['\n'] else o.endS := by
  unfold ruleText
  simp only
  split <;> rfl

theorem stripControl_cellLen_le (cw : Char → Nat) (s : List Char) : cellLen cw (stripControl s) ≤ cellLen cw s := by
  induction s with
  | nil => simp [stripControl]
  | cons c t ih =>
    unfold stripControl at ih ⊢
    simp only [List.filter_cons]
    split
    · simp only [cellLen, List.map_cons, List.sum_cons] at ih ⊢; omega
    · simp only [cellLen, List.map_cons, List.sum_cons] at ih ⊢; omega

theorem good_rule (cfg : Cfg) (ok : CfgOk cfg) (ro : RuleOpts) : Good cfg (.rule ro) := by
  apply good_of_any
  intro o w hw hd
  rw [render]
  rw [Dom] at hd
  obtain ⟨hov, hend⟩ := hd
  unfold ruleConsoleL
  simp only
  have he := ruleText_snd cfg.cw cfg.env cfg.v ro (w : Int)
  have hE : (if (ro.title.isEmpty && !cfg.ruleNoTitleEnd) = true then ro.endS else (ruleText cfg.cw cfg.env cfg.v ro (w : Int)).2) = ['\n']
      ∨ (if (ro.title.isEmpty && !cfg.ruleNoTitleEnd) = true then ro.endS else (ruleText cfg.cw cfg.env cfg.v ro (w : Int)).2) = [] := by
    split
    · exact hend
    · rw [he]; split
      · exact Or.inl rfl
      · exact hend
  constructor
  · by_cases hig : o.overflow = some RichModel.Overflow.ignore
    · -- not wrapped, not truncated: the rule text is exactly `w` cells wide
      have htab := hov.resolve_left (fun h => h hig)
      apply text_fits_nowrap_line cfg ok.hsp ok.h2 ok.hel ok.hp _ o w hw
      · right
        unfold effOverflow
        simp only [Text.new, hig]
        rfl
      · intro c hc
        simp only [Text.new] at hc
        unfold stripControl at hc
        exact htab c (List.mem_filter.mp hc).1
      · simp only [Text.new]
        have h1 := stripControl_cellLen_le cfg.cw (ruleText cfg.cw cfg.env cfg.v ro (w : Int)).1
        have h2 := ruleText_cellLen cfg.cw ok.hsp ok.h2 cfg.env cfg.v ro (w : Int) (by omega)
        omega
      · simpa only [Text.new] using hE
    · apply text_fits cfg ok.hsp ok.h2 ok.hel ok.hp _ o w hw
      · unfold effOverflow
        simp only [Text.new]
        cases ho : o.overflow with
        | none => simp
        | some x =>
          simp only [Option.orElse_none, Option.getD_some]
          intro hx
          exact hig (by rw [ho, hx])
      · simpa only [Text.new] using hE
  · intro hc
    rw [closedR] at hc
    have hn : ro.endS = ['\n'] := by simpa using hc
    apply text_closed cfg ok.hp _ o w
    simp only [Text.new]
    split
    · exact hn
    · rw [he]; split
      · rfl
      · exact hn

theorem good_bar (cfg : Cfg) (ok : CfgOk cfg) (bo : BarOpts) : Good cfg (.bar bo) := by
  apply good_of_any
  intro o w hw hd
  rw [render, ok.hcw]
  rw [Dom] at hd
  obtain ⟨h1, h2, h3, h4⟩ := hd
  constructor
  · apply fits_of_lines_le
    have := bar_lines_le bo (w : Int) (by omega) h1 h2 h3 h4
    simpa using this
  · intro _
    exact bar_closed bo (w : Int)

theorem good_progress (cfg : Cfg) (ok : CfgOk cfg) (po : ProgressOpts) : Good cfg (.progressBar po) := by
  apply good_of_any
  intro o w hw hd
  rw [render, ok.hcw]
  rw [Dom] at hd
  obtain ⟨h1, h2, h3⟩ := hd
  constructor
  · apply fits_of_lines_le
    have := progress_lines_le cfg.env po (w : Int) (by omega) h1 h2 h3
    simpa using this
  · intro hc
    rw [closedR] at hc
    cases hc

theorem good_tree (cfg : Cfg) (ok : CfgOk cfg) (root : TNode) : Good cfg (.tree root) := by
  intro o w _ _
  rw [render, ok.hcw]
  constructor
  · apply fits_mono _ w _ _ _ (Nat.le_max_left _ _)
    apply fits_of_lines_le
    have := tree_lines_le cfg.env (nodeR cfg root o) (w : Int)
    simpa using this
  · intro _
    exact tree_closed cfg.env (nodeR cfg root o) (w : Int)


end RichModel.Layout
