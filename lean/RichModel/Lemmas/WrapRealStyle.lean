import RichModel.Lemmas.WrapStyleAlg
/-!
rich's real `Style` algebra (C06 model) satisfies the laws the normal form of C02 relies on.
-/
namespace RichModel
namespace Wrap
open Style

/-- the constructible styles of variant `v` -/
abbrev RStyle (v : StyleVariant) := { s : Style // Reachable v s }

theorem eq_refl' (a : Style) : Style.eq a a = true := by simp [Style.eq]

theorem eq_symm' {a b : Style} (h : Style.eq a b = true) : Style.eq b a = true := by
  rw [eq_iff] at h ⊢; obtain ⟨h1, h2, h3, h4, h5⟩ := h; exact ⟨h1.symm, h2.symm, h3.symm, h4.symm, h5.symm⟩

theorem eq_trans' {a b c : Style} (h : Style.eq a b = true) (h' : Style.eq b c = true) : Style.eq a c = true := by
  rw [eq_iff] at h h' ⊢
  obtain ⟨h1, h2, h3, h4, h5⟩ := h
  obtain ⟨k1, k2, k3, k4, k5⟩ := h'
  exact ⟨h1.trans k1, h2.trans k2, h3.trans k3, h4.trans k4, h5.trans k5⟩

theorem andNot_self_sub {a s : Nat} (h : a &&& s = a) : andNot a s = 0 := by
  apply Nat.eq_of_testBit_eq
  intro i
  rw [testBit_andNot, Nat.zero_testBit]
  have := congrArg (fun n => n.testBit i) h
  simp only [Nat.testBit_and] at this
  cases ha : a.testBit i <;> cases hs : s.testBit i <;> simp_all

theorem linkOr_self (l : Option (List Char)) : linkOr l l = l := by
  unfold linkOr; split <;> rfl

/-- `a + a == a` for every constructible style (links included: `__eq__` compares `_link`) -/
theorem add_self_eq (v : StyleVariant) (hv : v.emptyLink = false) {a : Style} (ha : Reachable v a) :
    Style.eq (add v a a) a = true := by
  obtain ⟨c, g, s, t, l⟩ := add_fields v ha.inv ha.inv (ha.linkOk hv) (ha.linkOk hv)
  rw [eq_iff, c, g, s, t, l]
  refine ⟨by cases a.color <;> rfl, by cases a.bgcolor <;> rfl, Nat.or_self _, ?_, linkOr_self _⟩
  rw [andNot_self_sub ha.inv.attrs_sub, ha.inv.attrs_sub, Nat.zero_or]

/-- `NULL_STYLE + a == a` -/
theorem null_add_eq (v : StyleVariant) (hv : v.emptyLink = false) {a : Style} (ha : Reachable v a) :
    Style.eq (add v Style.null a) a = true := by
  obtain ⟨c, g, s, t, l⟩ := add_fields v (Reachable.null (v := v)).inv ha.inv ((Reachable.null (v := v)).linkOk hv) (ha.linkOk hv)
  rw [eq_iff, c, g, s, t, l]
  refine ⟨by cases a.color <;> rfl, by cases a.bgcolor <;> rfl, by simp [Style.null], ?_, ?_⟩
  · have : andNot Style.null.attributes a.setAttributes = 0 := by simp [Style.null, andNot]
    rw [this, ha.inv.attrs_sub, Nat.zero_or]
  · rcases linkOk_cases (ha.linkOk hv) with h | h
    · rw [h]; rfl
    · unfold linkOr; rw [h]; rfl

/-- **rich's real style algebra satisfies the laws** (every constructible style of the C06 model, `Style.__add__`,
`Style.__eq__`), once an empty link is stored as `None` (C06's repair, `v.emptyLink = false`). -/
def realStyles (v : StyleVariant) (hv : v.emptyLink = false) : StyleLaws (RStyle v) where
  add a b := ⟨add v a.1 b.1, Reachable.add a.2 b.2⟩
  one := ⟨Style.null, Reachable.null⟩
  eqv a b := Style.eq a.1 b.1 = true
  refl a := eq_refl' a.1
  symm h := eq_symm' h
  trans h h' := eq_trans' h h'
  congr {a a' b b'} h h' := add_congr v a.2.inv a'.2.inv b.2.inv b'.2.inv (a.2.linkOk hv) (a'.2.linkOk hv)
    (b.2.linkOk hv) (b'.2.linkOk hv) h h'
  assoc a b c := by show Style.eq (add v (add v a.1 b.1) c.1) (add v a.1 (add v b.1 c.1)) = true
                    rw [Style.add_assoc]; exact eq_refl' _
  one_left a := null_add_eq v hv a.2
  one_right a := by show Style.eq (add v a.1 Style.null) a.1 = true
                    rw [Style.add_null_right]; exact eq_refl' _
  idem a := add_self_eq v hv a.2

/-- the compared fields of the style obtained by combining a list of style names -/
def realKey {σ : Type} (v : StyleVariant) (hv : v.emptyLink = false) (interp : σ → RStyle v) (l : List σ) : HashKey :=
  ((realStyles v hv).combine interp l).1.fieldsKey

theorem realKey_normStyle {σ : Type} [BEq σ] [LawfulBEq σ] (v : StyleVariant) (hv : v.emptyLink = false) (A : StyleAlg σ)
    (interp : σ → RStyle v) (hnull : Style.eq (interp A.null).1 Style.null = true) (l : List σ) :
    realKey v hv interp (normStyle A l) = realKey v hv interp l :=
  fieldsKey_eq_of_eq ((realStyles v hv).normStyle_sound A interp hnull l)

end Wrap
end RichModel
