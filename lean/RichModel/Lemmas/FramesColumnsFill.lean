import RichModel.Model.FramesColumns
/-
Column-first fill of `Columns.__rich_console__` (columns.py:90-111), unbounded.

* arithmetic of `colLen` / `colOff` / `rowCount`
* `FillInv`: the loop invariant of `fillLoop`; `FillInv.init`, `.stepDown`, `.stepRight`, `.safe`, `.done`
* `fillMatrix_closed`: closed form of the matrix; `fillMatrix_safe`: the loop never indexes out of range
  and never meets a non-positive `column_lengths[col]`
* `fillMatrix_flatten`: the matrix read row by row is the `n` items followed only by blanks
* `itemOrder_columnFirst_eq` / `_getElem?` / `_perm` / `_nodup` / `_mem` / `_length`
-/
namespace RichModel.Frames
open RichModel

/-- Number of items in column `j` of the column-first grid. -/
def colLen (n c j : Nat) : Nat := n / c + (if j < n % c then 1 else 0)
/-- Number of items in the columns before `j`. -/
def colOff (n c j : Nat) : Nat := j * (n / c) + min j (n % c)
/-- `row_count` (columns.py:97). -/
def rowCount (n c : Nat) : Nat := (n + c - 1) / c

theorem colOff_zero (n c : Nat) : colOff n c 0 = 0 := by simp [colOff]

theorem colOff_succ (n c j : Nat) : colOff n c (j+1) = colOff n c j + colLen n c j := by
  unfold colOff colLen
  rw [Nat.succ_mul]
  split <;> omega

theorem colOff_self {n c : Nat} (hc : 0 < c) : colOff n c c = n := by
  unfold colOff
  have h := Nat.div_add_mod n c
  have hr := Nat.mod_lt n hc
  rw [Nat.min_eq_right (Nat.le_of_lt hr)]
  exact h

theorem colOff_mono (n c : Nat) {a b : Nat} (h : a ≤ b) : colOff n c a ≤ colOff n c b := by
  unfold colOff
  have := Nat.mul_le_mul_right (n / c) h
  omega

theorem colOff_of_colLen_zero {n c j : Nat} (hc : 0 < c) (h : colLen n c j = 0) : colOff n c j = n := by
  unfold colLen at h
  unfold colOff
  have h1 := Nat.div_add_mod n c
  have hr := Nat.mod_lt n hc
  generalize n / c = q at *
  generalize n % c = r at *
  split at h
  · omega
  · have hq : q = 0 := by omega
    subst hq
    rw [Nat.mul_zero] at h1 ⊢
    omega

theorem rowCount_eq {n c : Nat} (hc : 0 < c) : rowCount n c = n / c + (if 0 < n % c then 1 else 0) := by
  unfold rowCount
  have h := Nat.div_add_mod n c
  have hr := Nat.mod_lt n hc
  generalize n / c = q at *
  generalize n % c = r at *
  split
  · apply Nat.div_eq_of_lt_le
    · rw [Nat.add_mul, Nat.mul_comm q c]; omega
    · rw [Nat.add_mul, Nat.add_mul, Nat.mul_comm q c]; omega
  · apply Nat.div_eq_of_lt_le
    · rw [Nat.add_zero, Nat.mul_comm q c]; omega
    · rw [Nat.add_zero, Nat.add_mul, Nat.mul_comm q c]; omega

theorem colLen_le_rowCount {n c : Nat} (hc : 0 < c) (j : Nat) : colLen n c j ≤ rowCount n c := by
  rw [rowCount_eq hc]; unfold colLen
  split <;> split <;> omega

/-- Position `i * c + j` of the row-major reading is one of the first `n` iff the cell is occupied. -/
theorem colPos_lt_iff {n c i j : Nat} (hc : 0 < c) (hj : j < c) : i * c + j < n ↔ i < colLen n c j := by
  unfold colLen
  have h := Nat.div_add_mod n c
  have hr := Nat.mod_lt n hc
  generalize n / c = q at *
  generalize n % c = r at *
  rcases Nat.lt_trichotomy i q with hi | hi | hi
  · have := Nat.mul_le_mul_right c (show i + 1 ≤ q from hi)
    rw [Nat.add_mul, Nat.mul_comm q c] at this
    split <;> omega
  · subst hi; rw [Nat.mul_comm i c]; split <;> omega
  · have := Nat.mul_le_mul_right c (show q + 1 ≤ i from hi)
    rw [Nat.add_mul, Nat.mul_comm q c] at this
    split <;> omega


/-! ## `fillLoop` invariant -/

theorem getD_set_set (cells : List (List (Option Nat))) (row col i j : Nat) (v : Option Nat) :
    ((cells.set row ((cells.getD row []).set col v)).getD i []).getD j none
      = if i = row ∧ j = col ∧ row < cells.length ∧ col < (cells.getD row []).length then v
        else (cells.getD i []).getD j none := by
  simp only [List.getD_eq_getElem?_getD, List.getElem?_set]
  by_cases h1 : row = i
  · subst h1
    by_cases h2 : row < cells.length
    · by_cases h3 : col = j
      · subst h3
        simp [h2, List.getElem?_set]
        split <;> simp_all
      · have : ¬ j = col := fun h => h3 h.symm
        simp [h2, h3, this]
    · simp [h2]
  · have : ¬ i = row := fun h => h1 h.symm
    simp [h1, this]

theorem length_getD_set_set (cells : List (List (Option Nat))) (row col i : Nat) (v : Option Nat) :
    ((cells.set row ((cells.getD row []).set col v)).getD i []).length = (cells.getD i []).length := by
  simp only [List.getD_eq_getElem?_getD, List.getElem?_set]
  by_cases h1 : row = i
  · subst h1
    by_cases h2 : row < cells.length <;> simp [h2]
  · simp [h1]

theorem getD_set_int (lens : List Int) (col j : Nat) (v : Int) :
    (lens.set col v).getD j 0 = if j = col ∧ col < lens.length then v else lens.getD j 0 := by
  simp only [List.getD_eq_getElem?_getD, List.getElem?_set]
  by_cases h1 : col = j
  · subst h1
    by_cases h2 : col < lens.length <;> simp [h2]
  · have : ¬ j = col := fun h => h1 h.symm
    simp [h1, this]

/-- The loop invariant of `fillLoop`, before placing item `idx` at `(row, col)` with `k` items to go. -/
structure FillInv (n c k idx row col : Nat) (lens : List Int) (cells : List (List (Option Nat))) : Prop where
  hk : k + idx = n
  hidx : idx = colOff n c col + row
  hpos : 0 < k → col < c ∧ row < colLen n c col
  hend : k = 0 → row = 0
  hlensLen : lens.length = c
  hlensCol : 0 < k → lens.getD col 0 = (colLen n c col : Int) - (row : Int)
  hlensGt : ∀ j, col < j → j < c → lens.getD j 0 = (colLen n c j : Int)
  hrows : cells.length = rowCount n c
  hrowLen : ∀ i, i < rowCount n c → (cells.getD i []).length = c
  hentry : ∀ i j, i < rowCount n c → j < c →
    (cells.getD i []).getD j none
      = if (j < col ∧ i < colLen n c j) ∨ (j = col ∧ i < row) then some (colOff n c j + i) else none

theorem columnLengths_length (n c : Nat) : (columnLengths n c).length = c := by simp [columnLengths]

theorem columnLengths_getD (n c j : Nat) (hj : j < c) : (columnLengths n c).getD j 0 = (colLen n c j : Int) := by
  simp only [columnLengths, colLen, List.getD_eq_getElem?_getD, List.getElem?_map, List.getElem?_range hj]
  simp
  split <;> simp

theorem FillInv.init {n c : Nat} (hc : 0 < c) :
    FillInv n c n 0 0 0 (columnLengths n c) (List.replicate (rowCount n c) (List.replicate c none)) where
  hk := rfl
  hidx := by simp [colOff_zero]
  hpos := by
    intro hn
    refine ⟨hc, ?_⟩
    have := colPos_lt_iff (n := n) (i := 0) hc hc
    simp at this
    exact this.mp hn
  hend := fun _ => rfl
  hlensLen := columnLengths_length n c
  hlensCol := by intro _; rw [columnLengths_getD n c 0 hc]; simp
  hlensGt := fun j _ hj => columnLengths_getD n c j hj
  hrows := by simp
  hrowLen := by intro i hi; simp [List.getD_eq_getElem?_getD, hi]
  hentry := by
    intro i j hi hj
    simp [List.getD_eq_getElem?_getD, hi, hj]


/-- The two "cannot happen" remarks of the model: on entry of every iteration the cell assignment
is in range and `column_lengths[col]` is positive. -/
theorem FillInv.safe {n c k idx row col : Nat} {lens : List Int} {cells : List (List (Option Nat))}
    (hc : 0 < c) (h : FillInv n c (k+1) idx row col lens cells) :
    row < cells.length ∧ col < (cells.getD row []).length ∧ col < lens.length ∧ 0 < lens.getD col 0 := by
  obtain ⟨hcol, hrow⟩ := h.hpos (Nat.succ_pos k)
  have hR := colLen_le_rowCount hc (n := n) col
  have hrow' : row < rowCount n c := by omega
  refine ⟨by rw [h.hrows]; exact hrow', by rw [h.hrowLen row hrow']; exact hcol, by rw [h.hlensLen]; exact hcol, ?_⟩
  rw [h.hlensCol (Nat.succ_pos k)]; omega

/-- One iteration, `row += 1` branch. -/
theorem FillInv.stepDown {n c k idx row col : Nat} {lens : List Int} {cells : List (List (Option Nat))}
    (hc : 0 < c) (h : FillInv n c (k+1) idx row col lens cells)
    (hne : (lens.set col (lens.getD col 0 - 1)).getD col 0 ≠ 0) :
    FillInv n c k (idx+1) (row+1) col (lens.set col (lens.getD col 0 - 1))
      (cells.set row ((cells.getD row []).set col (some idx))) := by
  obtain ⟨hcol, hrow⟩ := h.hpos (Nat.succ_pos k)
  obtain ⟨s1, s2, s3, s4⟩ := h.safe hc
  have hlc := h.hlensCol (Nat.succ_pos k)
  rw [getD_set_int] at hne
  simp only [s3, and_self, if_true] at hne
  have hrow1 : row + 1 < colLen n c col := by omega
  have hoff := colOff_succ n c col
  have hmono := colOff_mono n c (show col + 1 ≤ c from hcol)
  rw [colOff_self hc] at hmono
  have hk := h.hk
  have hidx := h.hidx
  refine ⟨by omega, by omega, fun _ => ⟨hcol, hrow1⟩, by omega, by simp [h.hlensLen], ?_, ?_, by simp [h.hrows], ?_, ?_⟩
  · intro _; rw [getD_set_int]; simp only [s3, and_self, if_true]; omega
  · intro j hj hjc; rw [getD_set_int]
    have : ¬ j = col := by omega
    simp only [this, false_and, if_false]; exact h.hlensGt j hj hjc
  · intro i hi; rw [length_getD_set_set]; exact h.hrowLen i hi
  · intro i j hi hj
    rw [getD_set_set, h.hentry i j hi hj]
    simp only [s1, s2, and_true]
    by_cases h1 : i = row <;> by_cases h2 : j = col
    · subst h1 h2; simp; omega
    · subst h1; simp [h2]
    · subst h2
      have e : i < row + 1 ↔ i < row := by omega
      simp [h1, e]
    · simp [h1, h2]


/-- One iteration, `col += 1; row = 0` branch. -/
theorem FillInv.stepRight {n c k idx row col : Nat} {lens : List Int} {cells : List (List (Option Nat))}
    (hc : 0 < c) (h : FillInv n c (k+1) idx row col lens cells)
    (hz : (lens.set col (lens.getD col 0 - 1)).getD col 0 = 0) :
    FillInv n c k (idx+1) 0 (col+1) (lens.set col (lens.getD col 0 - 1))
      (cells.set row ((cells.getD row []).set col (some idx))) := by
  obtain ⟨hcol, hrow⟩ := h.hpos (Nat.succ_pos k)
  obtain ⟨s1, s2, s3, s4⟩ := h.safe hc
  have hlc := h.hlensCol (Nat.succ_pos k)
  rw [getD_set_int] at hz
  simp only [s3, and_self, if_true] at hz
  have hrow1 : row + 1 = colLen n c col := by omega
  have hoff := colOff_succ n c col
  have hk := h.hk
  have hidx := h.hidx
  refine ⟨by omega, by omega, ?_, fun _ => rfl, by simp [h.hlensLen], ?_, ?_, by simp [h.hrows], ?_, ?_⟩
  · intro hk0
    have hlt : col + 1 < c := by
      rcases Nat.lt_or_ge (col + 1) c with h1 | h1
      · exact h1
      · have h2 : col + 1 = c := by omega
        have e : colOff n c (col + 1) = n := by rw [h2]; exact colOff_self hc
        omega
    refine ⟨hlt, ?_⟩
    rcases Nat.eq_zero_or_pos (colLen n c (col + 1)) with h0 | h0
    · have := colOff_of_colLen_zero hc h0; omega
    · exact h0
  · intro hk0; rw [getD_set_int]
    have : ¬ col + 1 = col := by omega
    simp only [this, false_and, if_false]
    have hlt : col + 1 < c := by
      rcases Nat.lt_or_ge (col + 1) c with h1 | h1
      · exact h1
      · have h2 : col + 1 = c := by omega
        have e : colOff n c (col + 1) = n := by rw [h2]; exact colOff_self hc
        omega
    rw [h.hlensGt (col+1) (by omega) hlt]; simp
  · intro j hj hjc; rw [getD_set_int]
    have : ¬ j = col := by omega
    simp only [this, false_and, if_false]; exact h.hlensGt j (by omega) hjc
  · intro i hi; rw [length_getD_set_set]; exact h.hrowLen i hi
  · intro i j hi hj
    rw [getD_set_set, h.hentry i j hi hj]
    simp only [s1, s2, and_true]
    by_cases h1 : i = row <;> by_cases h2 : j = col
    · subst h1 h2; simp; omega
    · subst h1
      have e : j < col + 1 ↔ j < col := by omega
      simp [h2, e]
    · subst h2
      have e : i < row ↔ i < colLen n c j := by omega
      simp [h1, e]
    · have e : j < col + 1 ↔ j < col := by omega
      simp [h1, h2, e]


/-- What the finished matrix looks like. -/
structure FillDone (n c : Nat) (cells : List (List (Option Nat))) : Prop where
  hrows : cells.length = rowCount n c
  hrowLen : ∀ i, i < rowCount n c → (cells.getD i []).length = c
  hentry : ∀ i j, i < rowCount n c → j < c →
    (cells.getD i []).getD j none = if i < colLen n c j then some (colOff n c j + i) else none

theorem FillInv.done {n c idx row col : Nat} {lens : List Int} {cells : List (List (Option Nat))}
    (hc : 0 < c) (h : FillInv n c 0 idx row col lens cells) : FillDone n c cells := by
  refine ⟨h.hrows, h.hrowLen, ?_⟩
  intro i j hi hj
  rw [h.hentry i j hi hj]
  have hrow := h.hend rfl
  have hk := h.hk
  have hidx := h.hidx
  subst hrow
  by_cases h1 : j < col
  · have : ¬ j = col := by omega
    simp [h1, this]
  · have hz : colLen n c j = 0 := by
      have h2 := colOff_mono n c (show col ≤ j by omega)
      have h3 := colOff_mono n c (show j + 1 ≤ c from hj)
      rw [colOff_self hc] at h3
      have := colOff_succ n c j
      omega
    simp [h1, hz]

theorem fillLoop_inv {n c : Nat} (hc : 0 < c) :
    ∀ (k idx row col : Nat) (lens : List Int) (cells : List (List (Option Nat))),
      FillInv n c k idx row col lens cells → FillDone n c (fillLoop k idx row col lens cells) := by
  intro k
  induction k with
  | zero => intro idx row col lens cells h; exact h.done hc
  | succ k ih =>
    intro idx row col lens cells h
    unfold fillLoop
    simp only []
    split
    · rename_i hne
      exact ih _ _ _ _ _ (h.stepDown hc (by simpa using hne))
    · rename_i hz
      exact ih _ _ _ _ _ (h.stepRight hc (by simpa using hz))

/-- `fillLoop` with the two Python failure modes made explicit: `none` = `cells[row][col] = index`
out of range (`IndexError`) or `column_lengths[col]` not positive on entry. -/
def fillLoopChk : Nat → Nat → Nat → Nat → List Int → List (List (Option Nat)) → Option (List (List (Option Nat)))
  | 0, _, _, _, _, cells => some cells
  | k+1, idx, row, col, lens, cells =>
    if row < cells.length ∧ col < (cells.getD row []).length ∧ col < lens.length ∧ 0 < lens.getD col 0 then
      let cells := cells.set row ((cells.getD row []).set col (some idx))
      let lens := lens.set col (lens.getD col 0 - 1)
      if lens.getD col 0 != 0 then fillLoopChk k (idx+1) (row+1) col lens cells
      else fillLoopChk k (idx+1) 0 (col+1) lens cells
    else none

theorem fillLoopChk_inv {n c : Nat} (hc : 0 < c) :
    ∀ (k idx row col : Nat) (lens : List Int) (cells : List (List (Option Nat))),
      FillInv n c k idx row col lens cells →
      fillLoopChk k idx row col lens cells = some (fillLoop k idx row col lens cells) := by
  intro k
  induction k with
  | zero => intro idx row col lens cells h; rfl
  | succ k ih =>
    intro idx row col lens cells h
    unfold fillLoop fillLoopChk
    simp only [h.safe hc, and_self, if_true]
    split
    · rename_i hne
      exact ih _ _ _ _ _ (h.stepDown hc (by simpa using hne))
    · rename_i hz
      exact ih _ _ _ _ _ (h.stepRight hc (by simpa using hz))

/-- The column-first matrix built by `iter_renderables`. -/
def fillMatrix (n c : Nat) : List (List (Option Nat)) :=
  fillLoop n 0 0 0 (columnLengths n c) (List.replicate ((n + c - 1) / c) (List.replicate c none))

/-- **Closed form of the column-first fill**: `(n + c - 1) / c` rows of length `c`; entry `(r, j)` is
`some (off j + r)` for `r < len j` and blank otherwise. -/
theorem fillMatrix_closed {n c : Nat} (hc : 0 < c) :
    (fillMatrix n c).length = (n + c - 1) / c ∧
    (∀ r, r < (n + c - 1) / c → ((fillMatrix n c).getD r []).length = c) ∧
    ∀ r j, r < (n + c - 1) / c → j < c →
      ((fillMatrix n c).getD r []).getD j none
        = if r < colLen n c j then some (colOff n c j + r) else none := by
  have h := fillLoop_inv hc _ _ _ _ _ _ (FillInv.init (n := n) hc)
  exact ⟨h.hrows, h.hrowLen, h.hentry⟩

/-- The loop never indexes out of range and never sees a non-positive `column_lengths[col]`. -/
theorem fillMatrix_safe {n c : Nat} (hc : 0 < c) :
    fillLoopChk n 0 0 0 (columnLengths n c) (List.replicate ((n + c - 1) / c) (List.replicate c none))
      = some (fillMatrix n c) :=
  fillLoopChk_inv hc _ _ _ _ _ _ (FillInv.init (n := n) hc)


/-! ## Reading the matrix row by row -/

theorem getElem?_flatten_uniform {α : Type} (c : Nat) :
    ∀ (M : List (List α)), (∀ row ∈ M, row.length = c) → ∀ i j, j < c →
      M.flatten[i * c + j]? = (M.getD i [])[j]? := by
  intro M
  induction M with
  | nil => intro _ i j _; simp
  | cons row M ih =>
    intro h i j hj
    have hrow : row.length = c := h row (by simp)
    have hM : ∀ r ∈ M, r.length = c := fun r hr => h r (by simp [hr])
    cases i with
    | zero =>
      simp only [List.flatten_cons, Nat.zero_mul, Nat.zero_add]
      rw [List.getElem?_append_left (by omega)]
      simp
    | succ i =>
      simp only [List.flatten_cons]
      rw [List.getElem?_append_right (by rw [hrow, Nat.add_mul]; omega)]
      have : (i + 1) * c + j - row.length = i * c + j := by rw [hrow, Nat.add_mul]; omega
      rw [this, ih hM i j hj]
      simp

theorem length_flatten_uniform {α : Type} (c : Nat) :
    ∀ (M : List (List α)), (∀ row ∈ M, row.length = c) → M.flatten.length = M.length * c := by
  intro M
  induction M with
  | nil => intro _; simp
  | cons row M ih =>
    intro h
    have hrow : row.length = c := h row (by simp)
    have hM : ∀ r ∈ M, r.length = c := fun r hr => h r (by simp [hr])
    simp only [List.flatten_cons, List.length_append, List.length_cons, ih hM, hrow, Nat.add_mul]
    omega

theorem fillMatrix_rows {n c : Nat} (hc : 0 < c) : ∀ row ∈ fillMatrix n c, row.length = c := by
  intro row hrow
  obtain ⟨hlen, hrl, _⟩ := fillMatrix_closed (n := n) hc
  obtain ⟨i, hi, rfl⟩ := List.getElem_of_mem hrow
  have := hrl i (by omega)
  simpa [List.getD_eq_getElem?_getD, hi] using this

/-- The index at position `p` of the column-first order: column `p % c`, row `p / c`. -/
def cfIndex (n c p : Nat) : Nat := colOff n c (p % c) + p / c

theorem le_rowCount_mul {n c : Nat} (hc : 0 < c) : n ≤ rowCount n c * c := by
  rcases Nat.lt_or_ge (rowCount n c * c) n with h | h
  · exfalso
    have h1 := (Nat.div_lt_iff_lt_mul hc (x := rowCount n c * c) (y := rowCount n c + 1)).mpr (by rw [Nat.add_mul]; omega)
    have hj := Nat.mod_lt (rowCount n c * c) hc
    have h2 := (colPos_lt_iff (n := n) (i := rowCount n c * c / c) hc hj).mp (by
      have := Nat.div_add_mod (rowCount n c * c) c
      rw [Nat.mul_comm c] at this; omega)
    have h3 := colLen_le_rowCount (n := n) hc (rowCount n c * c % c)
    have : rowCount n c * c / c = rowCount n c := Nat.mul_div_cancel _ hc
    omega
  · exact h

/-- **The flattened matrix is the `n` items followed only by blanks** (columns with the extra item
come first, so the blanks of the last row are at its end). -/
theorem fillMatrix_flatten {n c : Nat} (hc : 0 < c) :
    (fillMatrix n c).flatten
      = ((List.range n).map (cfIndex n c)).map some ++ List.replicate (rowCount n c * c - n) none := by
  obtain ⟨hlen, hrl, hent⟩ := fillMatrix_closed (n := n) hc
  have hrows := fillMatrix_rows (n := n) hc
  have hge := le_rowCount_mul (n := n) hc
  have hR : (n + c - 1) / c = rowCount n c := rfl
  rw [hR] at hlen hrl hent
  apply List.ext_getElem?
  intro p
  rcases Nat.lt_or_ge p (rowCount n c * c) with hp | hp
  · have hdm := Nat.div_add_mod p c
    have hj := Nat.mod_lt p hc
    have hi : p / c < rowCount n c := (Nat.div_lt_iff_lt_mul hc).mpr hp
    have hpe : p = p / c * c + p % c := by rw [Nat.mul_comm]; omega
    have hL : (fillMatrix n c).flatten[p]? = some (((fillMatrix n c).getD (p / c) []).getD (p % c) none) := by
      conv => lhs; rw [hpe]
      rw [getElem?_flatten_uniform c _ hrows _ _ hj]
      have := hrl (p / c) hi
      have hj' : p % c < ((fillMatrix n c).getD (p / c) []).length := by rw [this]; exact hj
      rw [List.getElem?_eq_getElem hj', List.getD_eq_getElem?_getD (i := p % c),
        List.getElem?_eq_getElem hj']
      rfl
    rw [hL, hent _ _ hi hj]
    have hiff := colPos_lt_iff (n := n) (i := p / c) hc hj
    rw [← hpe] at hiff
    by_cases hpn : p < n
    · rw [List.getElem?_append_left (by simpa using hpn)]
      simp [hpn, hiff.mp hpn, cfIndex]
    · rw [List.getElem?_append_right (by simpa using (Nat.le_of_not_lt hpn))]
      have : ¬ p / c < colLen n c (p % c) := fun h => hpn (hiff.mpr h)
      simp [this, List.getElem?_replicate]
      omega
  · rw [List.getElem?_eq_none (by rw [length_flatten_uniform c _ hrows, hlen]; exact hp)]
    rw [List.getElem?_eq_none (by simp; omega)]

theorem takeWhile_isSome_map_some_append {α : Type} (L : List α) (k : Nat) :
    (L.map some ++ List.replicate k none).takeWhile (·.isSome) = L.map some := by
  induction L with
  | nil => cases k <;> simp [List.replicate_succ]
  | cons a L ih => simp [ih]

theorem filterMap_id_map_some {α : Type} (L : List α) : (L.map some).filterMap id = L := by
  induction L with
  | nil => rfl
  | cons a L ih => simp [ih]

/-- **Closed form of the column-first order.** -/
theorem itemOrder_columnFirst_eq {n c : Nat} (hc : 0 < c) :
    itemOrder true n c = (List.range n).map (cfIndex n c) := by
  have h := fillMatrix_flatten (n := n) hc
  unfold fillMatrix at h
  simp only [itemOrder, if_true]
  rw [h, takeWhile_isSome_map_some_append, filterMap_id_map_some]


/-! ## The column-first order is a permutation of `0 .. n-1` in the documented order -/

theorem itemOrder_columnFirst_length {n c : Nat} (hc : 0 < c) : (itemOrder true n c).length = n := by
  simp [itemOrder_columnFirst_eq hc]

theorem itemOrder_rowFirst (n c : Nat) : itemOrder false n c = List.range n := by simp [itemOrder]

theorem itemOrder_length {n c : Nat} (hc : 0 < c) (cf : Bool) : (itemOrder cf n c).length = n := by
  cases cf
  · simp [itemOrder_rowFirst]
  · exact itemOrder_columnFirst_length hc

/-- **Documented order**: position `r * c + j` (row `r`, column `j`) holds item `off j + r`, i.e. every
column holds consecutive increasing indices top to bottom, columns left to right. -/
theorem itemOrder_columnFirst_getElem? {n c : Nat} (hc : 0 < c) (r j : Nat) (hj : j < c)
    (hp : r * c + j < n) : (itemOrder true n c)[r * c + j]? = some (colOff n c j + r) := by
  rw [itemOrder_columnFirst_eq hc, List.getElem?_map, List.getElem?_range hp]
  have h1 : (r * c + j) % c = j := by rw [Nat.mul_comm, Nat.mul_add_mod, Nat.mod_eq_of_lt hj]
  have h2 : (r * c + j) / c = r := by
    rw [Nat.mul_comm, Nat.mul_add_div hc, Nat.div_eq_of_lt hj]; rfl
  simp [cfIndex, h1, h2]

/-- Position `r * c + j` is occupied iff row `r` is within column `j`'s length. -/
theorem itemOrder_columnFirst_pos_iff {n c : Nat} (hc : 0 < c) (r j : Nat) (hj : j < c) :
    r * c + j < n ↔ r < colLen n c j := colPos_lt_iff hc hj

theorem cfIndex_lt {n c p : Nat} (hc : 0 < c) (hp : p < n) : cfIndex n c p < n := by
  have hj := Nat.mod_lt p hc
  have hpe : p / c * c + p % c = p := by have := Nat.div_add_mod p c; rw [Nat.mul_comm]; omega
  have hi := (colPos_lt_iff (n := n) (i := p / c) hc hj).mp (by omega)
  have h1 := colOff_succ n c (p % c)
  have h2 := colOff_mono n c (show p % c + 1 ≤ c from hj)
  rw [colOff_self hc] at h2
  unfold cfIndex; omega

theorem colOff_add_inj {n c i j i' j' : Nat} (hi : i < colLen n c j) (hi' : i' < colLen n c j')
    (h : colOff n c j + i = colOff n c j' + i') : j = j' ∧ i = i' := by
  have h1 := colOff_succ n c j
  have h1' := colOff_succ n c j'
  have hjj : j = j' := by
    rcases Nat.lt_trichotomy j j' with hlt | heq | hgt
    · have := colOff_mono n c (show j + 1 ≤ j' from hlt); omega
    · exact heq
    · have := colOff_mono n c (show j' + 1 ≤ j from hgt); omega
  subst hjj
  exact ⟨rfl, by omega⟩

theorem cfIndex_inj {n c p p' : Nat} (hc : 0 < c) (hp : p < n) (hp' : p' < n)
    (h : cfIndex n c p = cfIndex n c p') : p = p' := by
  have hj := Nat.mod_lt p hc
  have hj' := Nat.mod_lt p' hc
  have hpe : p / c * c + p % c = p := by have := Nat.div_add_mod p c; rw [Nat.mul_comm]; omega
  have hpe' : p' / c * c + p' % c = p' := by have := Nat.div_add_mod p' c; rw [Nat.mul_comm]; omega
  have hi := (colPos_lt_iff (n := n) (i := p / c) hc hj).mp (by omega)
  have hi' := (colPos_lt_iff (n := n) (i := p' / c) hc hj').mp (by omega)
  obtain ⟨e1, e2⟩ := colOff_add_inj hi hi' h
  rw [← hpe, ← hpe', e1, e2]

theorem exists_colOff_le {n c : Nat} (m : Nat) : ∀ b, m < colOff n c b →
    ∃ j, j < b ∧ colOff n c j ≤ m ∧ m < colOff n c (j + 1) := by
  intro b
  induction b with
  | zero => intro h; simp [colOff_zero] at h
  | succ b ih =>
    intro h
    rcases Nat.lt_or_ge m (colOff n c b) with h1 | h1
    · obtain ⟨j, hj, h2⟩ := ih h1
      exact ⟨j, by omega, h2⟩
    · exact ⟨b, by omega, h1, h⟩

theorem cfIndex_surj {n c m : Nat} (hc : 0 < c) (hm : m < n) : ∃ p, p < n ∧ cfIndex n c p = m := by
  obtain ⟨j, hj, h1, h2⟩ := exists_colOff_le (n := n) (c := c) m c (by rw [colOff_self hc]; exact hm)
  have h3 := colOff_succ n c j
  have hi : m - colOff n c j < colLen n c j := by omega
  refine ⟨(m - colOff n c j) * c + j, (colPos_lt_iff hc hj).mpr hi, ?_⟩
  have e1 : ((m - colOff n c j) * c + j) % c = j := by
    rw [Nat.mul_comm, Nat.mul_add_mod, Nat.mod_eq_of_lt hj]
  have e2 : ((m - colOff n c j) * c + j) / c = m - colOff n c j := by
    rw [Nat.mul_comm, Nat.mul_add_div hc, Nat.div_eq_of_lt hj]; rfl
  unfold cfIndex; rw [e1, e2]; omega

theorem itemOrder_columnFirst_mem {n c : Nat} (hc : 0 < c) (i : Nat) :
    i ∈ itemOrder true n c ↔ i < n := by
  rw [itemOrder_columnFirst_eq hc, List.mem_map]
  constructor
  · rintro ⟨p, hp, rfl⟩; exact cfIndex_lt hc (List.mem_range.mp hp)
  · intro hi
    obtain ⟨p, hp, h⟩ := cfIndex_surj (c := c) hc hi
    exact ⟨p, List.mem_range.mpr hp, h⟩

theorem itemOrder_columnFirst_nodup {n c : Nat} (hc : 0 < c) : (itemOrder true n c).Nodup := by
  rw [itemOrder_columnFirst_eq hc, List.nodup_iff_pairwise_ne, List.pairwise_map]
  have := List.nodup_iff_pairwise_ne.mp (List.nodup_range (n := n))
  refine List.Pairwise.imp_of_mem ?_ this
  intro a b ha hb hab h
  exact hab (cfIndex_inj hc (List.mem_range.mp ha) (List.mem_range.mp hb) h)

/-- **Every item exactly once.** -/
theorem itemOrder_columnFirst_perm {n c : Nat} (hc : 0 < c) :
    (itemOrder true n c).Perm (List.range n) := by
  rw [List.perm_ext_iff_of_nodup (itemOrder_columnFirst_nodup hc) List.nodup_range]
  intro a
  rw [itemOrder_columnFirst_mem hc, List.mem_range]

theorem itemOrder_perm {n c : Nat} (hc : 0 < c) (cf : Bool) : (itemOrder cf n c).Perm (List.range n) := by
  cases cf
  · rw [itemOrder_rowFirst]
  · exact itemOrder_columnFirst_perm hc

end RichModel.Frames
