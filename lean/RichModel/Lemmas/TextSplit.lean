import RichModel.Lemmas.TextCut
import RichModel.Lemmas.WrapSplit
/-!
`Text.split` at piece level, for every non-empty separator (repaired variant `splitW false`):
the cut points are the leftmost non-overlapping occurrences of the separator, the pieces are the
stretches between them (with or without the separator), each with its styles, and a final blank
piece is dropped unless `allow_blank`.
-/
namespace RichModel
namespace Text
variable {σ : Type}

/-- the stretches of `l` before, between and after the matches `ms` (what `str.split` returns) -/
def betweenFrom {α : Type} (start : Nat) : List (Nat × Nat) → List α → List (List α)
  | [], l => [l.drop start]
  | m :: rest, l => (l.drop start).take (m.1 - start) :: betweenFrom m.2 rest l

/-- "`ms` are the leftmost non-overlapping occurrences of `sep` in `s` from `start` on": every match is an
occurrence, starts at or after the end of the previous one, and the stretch skipped before it (and the rest
after the last one) is not itself the separator — because the scan would have matched it. -/
def GoodMs (sep s : List Char) : Nat → List (Nat × Nat) → Prop
  | start, [] => s.drop start ≠ sep
  | start, m :: rest =>
    start ≤ m.1 ∧ m.2 = m.1 + sep.length ∧ (s.drop start).take (m.1 - start) ≠ sep ∧
      (s.drop m.1).take (m.2 - m.1) = sep ∧ GoodMs sep s m.2 rest

theorem goodMs_weaken (sep s : List Char) (p : Nat) (ms : List (Nat × Nat))
    (hnp : sep.isPrefixOf (s.drop p) = false) (h : GoodMs sep s (p + 1) ms) : GoodMs sep s p ms := by
  have hne : ∀ k, (s.drop p).take k ≠ sep := by
    intro k heq
    have : sep.isPrefixOf (s.drop p) = true := by
      rw [List.isPrefixOf_iff_prefix, ← heq]; exact List.take_prefix _ _
    rw [this] at hnp; cases hnp
  cases ms with
  | nil =>
    intro heq
    exact hne (s.drop p).length (by rw [List.take_length]; exact heq)
  | cons m rest =>
    obtain ⟨h1, h2, _, h4, h5⟩ := h
    exact ⟨by omega, h2, hne _, h4, h5⟩

theorem findAllAux_good (sep : List Char) (hsep : 0 < sep.length) (plain : List Char) :
    ∀ (s : List Char) (pos skip : Nat), plain.drop pos = s → skip ≤ s.length →
      GoodMs sep plain (pos + skip) (findAllAux sep s pos skip)
  | [], pos, skip, hs, hk => by
    have : skip = 0 := by simpa using hk
    subst this
    simp only [findAllAux, GoodMs, Nat.add_zero, hs]
    intro h; rw [← h] at hsep; simp at hsep
  | c :: rest, pos, skip, hs, hk => by
    have hrest : plain.drop (pos + 1) = rest := by
      have := congrArg (List.drop 1) hs
      simpa [List.drop_drop, Nat.add_comm] using this
    unfold findAllAux
    split
    · rename_i hskip
      have := findAllAux_good sep hsep plain rest (pos + 1) (skip - 1) hrest (by simp at hk; omega)
      have he : pos + 1 + (skip - 1) = pos + skip := by omega
      rw [he] at this; exact this
    · rename_i hskip
      have h0 : skip = 0 := by omega
      subst h0
      split
      · rename_i hpre
        have hp := List.isPrefixOf_iff_prefix.mp hpre
        have hle : sep.length ≤ (c :: rest).length := hp.length_le
        have ih := findAllAux_good sep hsep plain rest (pos + 1) (sep.length - 1) hrest (by simp at hle; omega)
        have he : pos + 1 + (sep.length - 1) = pos + sep.length := by omega
        rw [he] at ih
        refine ⟨by omega, rfl, ?_, ?_, ih⟩
        · simp only [Nat.add_zero, Nat.sub_self, List.take_zero]
          intro h; rw [← h] at hsep; simp at hsep
        · simp only [Nat.add_sub_cancel_left, hs]
          exact (List.prefix_iff_eq_take.mp hp).symm
      · rename_i hpre
        have ih := findAllAux_good sep hsep plain rest (pos + 1) 0 hrest (Nat.zero_le _)
        simp only [Nat.add_zero] at ih ⊢
        exact goodMs_weaken sep plain pos _ (by rw [hs]; exact Bool.eq_false_iff.2 hpre) ih

/-- the matches `split` cuts at are the leftmost non-overlapping occurrences of the separator -/
theorem findAll_good (sep plain : List Char) (hsep : 0 < sep.length) : GoodMs sep plain 0 (findAll sep plain) := by
  have := findAllAux_good sep hsep plain plain 0 0 rfl (Nat.zero_le _)
  simpa [findAll] using this

theorem ascFrom_ends : ∀ (ms : List (Nat × Nat)) (s : Nat),
    AscFrom s (ms.flatMap (fun m => [m.1, m.2])) → AscFrom s (ms.map (·.2))
  | [], _, _ => trivial
  | m :: rest, s, h => by
    simp only [List.flatMap_cons, List.cons_append, List.nil_append, AscFrom] at h
    obtain ⟨h1, h2, h3⟩ := h
    show AscFrom s (m.2 :: rest.map (·.2))
    exact ⟨by omega, ascFrom_ends rest m.2 h3⟩

/-- `lines.pop()` when the last line is blank and blanks are not wanted -/
def dropBlank {α : Type} (allowBlank : Bool) (ps : List (List α)) : List (List α) :=
  if !allowBlank && (match ps.getLast? with | some p => p.isEmpty | none => false) then ps.dropLast else ps

theorem view_isEmpty (t : Text σ) : t.view.isEmpty = t.plain.isEmpty := by
  rw [view_eq_annot]
  cases t.plain <;> rfl

theorem finalize_map (allowBlank : Bool) (L : List (Text σ)) :
    (if !allowBlank && (match L.getLast? with | some l => l.plain.isEmpty | none => false) then L.dropLast else L).map view
      = dropBlank allowBlank (L.map view) ∧
    (if !allowBlank && (match L.getLast? with | some l => l.plain.isEmpty | none => false) then L.dropLast else L).map (·.plain)
      = dropBlank allowBlank (L.map (·.plain)) := by
  unfold dropBlank
  rw [List.getLast?_map, List.getLast?_map]
  cases hl : L.getLast? with
  | none => simp
  | some l =>
    simp only [Option.map_some, view_isEmpty]
    split <;> simp [List.map_dropLast]

/-- filtering out the separator lines of `divide(starts and ends)` leaves the stretches between the matches -/
theorem filter_between (sep : List Char) (hsep : 0 < sep.length) (t : Text σ) :
    ∀ (ms : List (Nat × Nat)) (start : Nat) (L : List (Text σ)),
      GoodMs sep t.plain start ms →
      L.map (·.plain) = piecesFrom start (ms.flatMap (fun m => [m.1, m.2])) t.plain →
      L.map view = piecesFrom start (ms.flatMap (fun m => [m.1, m.2])) t.view →
      (L.filter (fun line => line.plain != sep)).map view = betweenFrom start ms t.view ∧
      (L.filter (fun line => line.plain != sep)).map (·.plain) = betweenFrom start ms t.plain
  | [], start, L, hg, hp, hv => by
    simp only [List.flatMap_nil, piecesFrom] at hp hv
    cases L with
    | nil => simp at hp
    | cons l L1 =>
      cases L1 with
      | cons _ _ => simp at hp
      | nil =>
        simp only [List.map_cons, List.map_nil, List.cons.injEq, and_true] at hp hv
        have hne : (l.plain != sep) = true := by
          rw [hp]; simpa [GoodMs] using hg
        simp only [List.filter_cons, hne, if_true, List.filter_nil, List.map_cons, List.map_nil, betweenFrom]
        exact ⟨by rw [hv], by rw [hp]⟩
  | m :: rest, start, L, hg, hp, hv => by
    obtain ⟨_, _, g3, g4, g5⟩ := hg
    simp only [List.flatMap_cons, List.cons_append, List.nil_append, piecesFrom] at hp hv
    cases L with
    | nil => simp at hp
    | cons l0 L1 =>
      cases L1 with
      | nil => simp at hp
      | cons l1 L' =>
        simp only [List.map_cons, List.cons.injEq] at hp hv
        obtain ⟨hp0, hp1, hp'⟩ := hp
        obtain ⟨hv0, hv1, hv'⟩ := hv
        have hk0 : (l0.plain != sep) = true := by rw [hp0]; simpa using g3
        have hk1 : (l1.plain != sep) = false := by rw [hp1]; simpa using g4
        obtain ⟨i1, i2⟩ := filter_between sep hsep t rest m.2 L' g5 hp' hv'
        simp only [List.filter_cons, hk0, hk1, if_true, Bool.false_eq_true, if_false, List.map_cons, betweenFrom]
        exact ⟨by rw [hv0, i1], by rw [hp0, i2]⟩

theorem mem_ite_dropLast {α : Type} (c : Prop) [Decidable c] (L : List α) (l : α)
    (h : l ∈ (if c then L.dropLast else L)) : l ∈ L := by
  by_cases hc : c
  · rw [if_pos hc] at h; exact List.dropLast_subset _ h
  · rw [if_neg hc] at h; exact h

theorem ite_ok {α : Type} (c : Prop) [Decidable c] (a b : α) :
    (if c then (Except.ok a : Except PyErr α) else Except.ok b) = Except.ok (if c then a else b) := by
  split <;> rfl

/-- **`split` at piece level**, repaired code, every non-empty separator, both flags both ways.
With `ms` the leftmost non-overlapping occurrences of the separator (`findAll_good`): no occurrence → the text
itself; otherwise the pieces ending after each occurrence (`include_separator`) or the stretches between the
occurrences, every character with the effective style it had, in consistent texts under the same base style; a
blank last piece is dropped unless `allow_blank`.  The same equation holds for the plain strings. -/
theorem split_view_all [BEq σ] (t : Text σ) (sep : List Char) (incl blank : Bool) (h : Inv t) (hsep : sep ≠ []) :
    ∃ parts, Text.splitW false Variant.repaired t sep incl blank = .ok parts ∧
      parts.map view =
        (if (findAll sep t.plain).isEmpty then [t.view]
         else dropBlank blank (if incl then pieces ((findAll sep t.plain).map (·.2)) t.view
                               else betweenFrom 0 (findAll sep t.plain) t.view)) ∧
      parts.map (·.plain) =
        (if (findAll sep t.plain).isEmpty then [t.plain]
         else dropBlank blank (if incl then pieces ((findAll sep t.plain).map (·.2)) t.plain
                               else betweenFrom 0 (findAll sep t.plain) t.plain)) ∧
      ∀ l ∈ parts, Inv l ∧ l.style = t.style := by
  have hlen : 0 < sep.length := List.length_pos_iff.2 hsep
  have hne : sep.isEmpty = false := by cases sep <;> simp_all
  unfold Text.splitW
  simp only [hne, Bool.false_eq_true, if_false]
  by_cases hms : (findAll sep t.plain).isEmpty = true
  · simp only [hms, if_true]
    refine ⟨[t.copy Variant.repaired], rfl, ?_, ?_, ?_⟩ <;> rw [copy_eq_self t h]
    · simp
    · simp
    · intro l hl; simp only [List.mem_singleton] at hl; subst hl; exact ⟨h, rfl⟩
  · simp only [hms, Bool.false_eq_true, if_false]
    obtain ⟨hasc, hb⟩ := Wrap.findAllAux_asc sep hlen t.plain 0 0
    simp only [Nat.add_zero, Nat.zero_add] at hasc hb
    cases incl with
    | true =>
      simp only [if_true]
      obtain ⟨lines, hdiv, hview, hplain, hall⟩ :=
        divide_view t ((findAll sep t.plain).map (·.2)) h (ascFrom_ends _ 0 hasc)
          (by
            intro o ho
            obtain ⟨m, hm, rfl⟩ := List.mem_map.1 ho
            exact hb m.2 (List.mem_flatMap.2 ⟨m, hm, by simp⟩))
      rw [hdiv]
      simp only [bind, Except.bind, pure, Except.pure]
      obtain ⟨f1, f2⟩ := finalize_map blank lines
      refine ⟨_, ite_ok _ _ _, ?_, ?_, ?_⟩
      · rw [← hview]; exact f1
      · rw [← hplain]; exact f2
      · intro l hl
        have : l ∈ lines := mem_ite_dropLast _ _ _ hl
        exact ⟨(hall l this).1, (hall l this).2.1⟩
    | false =>
      simp only [Bool.false_eq_true, if_false]
      obtain ⟨lines, hdiv, hview, hplain, hall⟩ :=
        divide_view t ((findAll sep t.plain).flatMap (fun m => [m.1, m.2])) h hasc hb
      rw [hdiv]
      simp only [bind, Except.bind, pure, Except.pure]
      obtain ⟨b1, b2⟩ := filter_between sep hlen t (findAll sep t.plain) 0 lines (findAll_good sep t.plain hlen) hplain hview
      obtain ⟨f1, f2⟩ := finalize_map blank (lines.filter (fun line => line.plain != sep))
      refine ⟨_, ite_ok _ _ _, ?_, ?_, ?_⟩
      · rw [← b1]; exact f1
      · rw [← b2]; exact f2
      · intro l hl
        have : l ∈ lines := (List.mem_filter.1 (mem_ite_dropLast _ _ _ hl)).1
        exact ⟨(hall l this).1, (hall l this).2.1⟩

end Text
end RichModel
