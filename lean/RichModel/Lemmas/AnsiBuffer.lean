import RichModel.Lemmas.AnsiRender
/-!
Lemmas for property C03, part 3: `Segment.remove_color`, the whole of `_render_buffer`, and histories
of calls on shared `Style` objects.  Core Lean only.
-/
namespace RichModel.AnsiRender
open RichModel RichModel.AnsiTerm

/-! ## `Segment.remove_color` -/

/-- `style.without_color` as a new object (empty cache). -/
def colourless (s : Style) : StyleObj := { style := Style.withoutColor StyleVariant.fixed s, ansi := none }

/-- Pointwise relation between two lists. -/
inductive All2 {α β : Type} (R : α → β → Prop) : List α → List β → Prop
  | nil : All2 R [] []
  | cons {a : α} {b : β} {as : List α} {bs : List β} : R a b → All2 R as bs → All2 R (a :: as) (b :: bs)

/-- What `remove_color` has built so far: `tmp[k]` is `keys[k].without_color` with an empty cache, and
every key is a well-formed, truthy style. -/
structure KInv (keys : List Style) (tmp : Heap) : Prop where
  len : keys.length = tmp.length
  get : ∀ (k : Nat) (s : Style), keys[k]? = some s →
    tmp[k]? = some (colourless s) ∧ StyleWF s ∧ s.isNull = false

/-- A segment and its colourless image. -/
def Img (heap tmp : Heap) (seg seg' : Seg) : Prop :=
  seg'.text = seg.text ∧ seg'.control = seg.control ∧
  match segStyle heap seg with
  | none => seg'.style = none
  | some s =>
    if s.isNull = true then seg'.style = none
    else ∃ j k, seg'.style = some j ∧ tmp[j]? = some (colourless k) ∧
      k.isNull = false ∧ Style.eq k s = true

theorem style_eq_refl (s : Style) : Style.eq s s = true := by simp [Style.eq]

theorem removeColorLoop_spec (heap : Heap) (hwf : ∀ o ∈ heap, StyleWF o.style) (segs : List Seg) :
    ∀ keys tmp, RefsOK heap segs → KInv keys tmp →
      ∃ segs' keys' tmp', removeColorLoop heap segs keys tmp = .ok (segs', tmp') ∧ KInv keys' tmp' ∧
        (∀ (j : Nat) (x : StyleObj), tmp[j]? = some x → tmp'[j]? = some x) ∧ All2 (Img heap tmp') segs segs' := by
  induction segs with
  | nil =>
    intro keys tmp _ hk
    exact ⟨[], keys, tmp, rfl, hk, fun _ _ h => h, All2.nil⟩
  | cons seg rest ih =>
    intro keys tmp hrefs hk
    have hrest := refsOK_tail hrefs
    unfold removeColorLoop
    -- the two ways a segment ends up without a style
    have dropCase : ∀ (hs : match segStyle heap seg with | none => True | some s => s.isNull = true),
        ∃ segs' keys' tmp', (do
            let (segs', tmp') ← removeColorLoop heap rest keys tmp
            Except.ok ({ seg with style := none } :: segs', tmp') : Except RenderErr (List Seg × Heap)) = .ok (segs', tmp') ∧
          KInv keys' tmp' ∧ (∀ (j : Nat) (x : StyleObj), tmp[j]? = some x → tmp'[j]? = some x) ∧
          All2 (Img heap tmp') (seg :: rest) segs' := by
      intro hs
      obtain ⟨segs', keys', tmp', h1, h2, h3, h4⟩ := ih keys tmp hrest hk
      refine ⟨{ seg with style := none } :: segs', keys', tmp', by simp [h1, bind, Except.bind], h2, h3, ?_⟩
      refine All2.cons ⟨rfl, rfl, ?_⟩ h4
      cases hss : segStyle heap seg with
      | none => rfl
      | some s => rw [hss] at hs; simp only at hs; simp [hs]
    cases hst : seg.style with
    | none =>
      simp only
      exact dropCase (by simp [segStyle, hst])
    | some i =>
      have hi : i < heap.length := hrefs seg (by simp) i hst
      obtain ⟨o, ho⟩ : ∃ o, heap[i]? = some o := ⟨heap[i], by simp [hi]⟩
      have hmem : o ∈ heap := List.mem_iff_getElem?.mpr ⟨i, ho⟩
      have hseg : segStyle heap seg = some o.style := by simp [segStyle, hst, ho]
      simp only [ho]
      by_cases hb : o.style.toBool = true
      · have hnn : o.style.isNull = false := by
          simp only [Style.toBool, Bool.not_eq_true'] at hb; exact hb
        simp only [hb, if_true]
        cases hf : keys.findIdx? (fun k => Style.eq k o.style) with
        | some k =>
          simp only
          obtain ⟨hklt, hp, _⟩ := List.findIdx?_eq_some_iff_getElem.mp hf
          obtain ⟨segs', keys', tmp', h1, h2, h3, h4⟩ := ih keys tmp hrest hk
          refine ⟨{ seg with style := some k } :: segs', keys', tmp', by simp [h1, bind, Except.bind], h2, h3, ?_⟩
          refine All2.cons ⟨rfl, rfl, ?_⟩ h4
          rw [hseg]
          simp only [hnn, Bool.false_eq_true, if_false]
          obtain ⟨g1, _, g3⟩ := hk.get k keys[k] (by simp [hklt])
          exact ⟨k, keys[k], rfl, h3 _ _ g1, g3, hp⟩
        | none =>
          simp only
          let fresh : StyleObj := colourless o.style
          have hk' : KInv (keys ++ [o.style]) (tmp ++ [fresh]) := by
            constructor
            · simp [hk.len]
            · intro k s hks
              by_cases hlt : k < keys.length
              · rw [List.getElem?_append_left hlt] at hks
                rw [List.getElem?_append_left (hk.len ▸ hlt)]
                exact hk.get k s hks
              · have hge : keys.length ≤ k := Nat.le_of_not_lt hlt
                rw [List.getElem?_append_right hge] at hks
                rw [List.getElem?_append_right (hk.len ▸ hge)]
                have hk0 : k - keys.length = 0 := by
                  cases hkk : k - keys.length with
                  | zero => rfl
                  | succ m => rw [hkk] at hks; simp at hks
                rw [hk0] at hks
                simp only [List.getElem?_cons_zero, Option.some.injEq] at hks
                subst hks
                rw [← hk.len, hk0]
                exact ⟨rfl, hwf o hmem, hnn⟩
          obtain ⟨segs', keys', tmp', h1, h2, h3, h4⟩ := ih (keys ++ [o.style]) (tmp ++ [fresh]) hrest hk'
          have h1' := h1
          simp only [fresh, colourless] at h1'
          refine ⟨{ seg with style := some keys.length } :: segs', keys', tmp', by simp [h1', bind, Except.bind], h2, ?_, ?_⟩
          · intro j x hj
            apply h3
            have hjl : j < tmp.length := by
              rcases List.getElem?_eq_some_iff.mp hj with ⟨h, _⟩; exact h
            rw [List.getElem?_append_left hjl]; exact hj
          · refine All2.cons ⟨rfl, rfl, ?_⟩ h4
            rw [hseg]
            simp only [hnn, Bool.false_eq_true, if_false]
            refine ⟨keys.length, o.style, rfl, ?_, hnn, style_eq_refl _⟩
            apply h3
            rw [hk.len, List.getElem?_append_right (Nat.le_refl _)]
            simp [fresh]
      · have hnull : o.style.isNull = true := by
          simp only [Style.toBool, Bool.not_eq_true', Bool.not_eq_false] at hb; exact hb
        simp only [hb, Bool.false_eq_true, if_false]
        exact dropCase (by rw [hseg]; exact hnull)

/-- Under NO_COLOR the colourless copy of an equal style must look the same as the style itself. -/
theorem expected_withoutColor (cc : Cfg) (P : Palettes) (cfg : Config) (hnc : cfg.noColor = true)
    (k s : Style) (hk : k.isNull = false) (he : Style.eq k s = true) :
    expected cc P cfg (some (Style.withoutColor StyleVariant.fixed k)) = expected cc P cfg (some s) := by
  simp only [Style.eq, decide_eq_true_eq] at he
  obtain ⟨_, _, h3, h4, h5⟩ := he
  unfold expected
  cases cfg.colorSystem with
  | none => rfl
  | some cs => simp [Style.withoutColor, hk, hnc, h3, h4, h5]

theorem segStyle_wf {heap : Heap} (hwf : ∀ o ∈ heap, StyleWF o.style) {seg : Seg} {s : Style}
    (h : segStyle heap seg = some s) : StyleWF s := by
  unfold segStyle at h
  cases hst : seg.style with
  | none => rw [hst] at h; cases h
  | some i =>
    rw [hst] at h
    simp only [Option.map_eq_some_iff] at h
    obtain ⟨o, ho, rfl⟩ := h
    exact hwf o (List.mem_iff_getElem?.mpr ⟨i, ho⟩)

theorem expectedCells_img (cc : Cfg) (P : Palettes) (cfg : Config) (hnc : cfg.noColor = true)
    (heap tmp : Heap) (hwf : ∀ o ∈ heap, StyleWF o.style) (segs segs' : List Seg)
    (h : All2 (Img heap tmp) segs segs') :
    expectedCells cc P cfg tmp segs' = expectedCells cc P cfg heap segs := by
  induction h with
  | nil => rfl
  | @cons seg seg' rest rest' himg _ ih =>
    obtain ⟨ht, hc, hs⟩ := himg
    have hvis : segVisible cfg seg' = segVisible cfg seg := by simp [segVisible, hc]
    have hexp : expected cc P cfg (segStyle tmp seg') = expected cc P cfg (segStyle heap seg) := by
      cases hss : segStyle heap seg with
      | none =>
        rw [hss] at hs; simp only at hs
        simp [segStyle, hs]
      | some s =>
        rw [hss] at hs; simp only at hs
        by_cases hn : s.isNull = true
        · simp only [hn, if_true] at hs
          rw [expected_null cc P cfg s (segStyle_wf hwf hss) hn]
          simp [segStyle, hs, expected_none]
        · simp only [hn] at hs
          obtain ⟨j, k, h1, h2, h3, h4⟩ := hs
          have : segStyle tmp seg' = some (Style.withoutColor StyleVariant.fixed k) := by simp [segStyle, h1, h2, colourless]
          rw [this]
          exact expected_withoutColor cc P cfg hnc k s h3 h4
    by_cases hv : segVisible cfg seg = true
    · rw [expectedCells_cons_visible _ _ _ _ _ _ hv, expectedCells_cons_visible _ _ _ _ _ _ (hvis ▸ hv), ih, ht, hexp]
    · have hv' : segVisible cfg seg = false := by simpa using hv
      rw [expectedCells_cons_hidden _ _ _ _ _ _ hv', expectedCells_cons_hidden _ _ _ _ _ _ (hvis ▸ hv'), ih]

theorem refsOK_img {heap tmp : Heap} {segs segs' : List Seg} (h : All2 (Img heap tmp) segs segs') :
    RefsOK tmp segs' := by
  induction h with
  | nil => intro s hs; cases hs
  | @cons seg seg' rest rest' himg _ ih =>
    intro s hs i hi
    rcases List.mem_cons.mp hs with rfl | hs
    · obtain ⟨_, _, hst⟩ := himg
      cases hss : segStyle heap seg with
      | none => rw [hss] at hst; simp only at hst; rw [hst] at hi; cases hi
      | some st =>
        rw [hss] at hst; simp only at hst
        by_cases hn : st.isNull = true
        · simp only [hn, if_true] at hst; rw [hst] at hi; cases hi
        · simp only [hn] at hst
          obtain ⟨j, k, h1, h2, _⟩ := hst
          rw [h1] at hi
          cases hi
          rcases List.getElem?_eq_some_iff.mp h2 with ⟨hl, _⟩
          exact hl
    · exact ih s hs i hi

theorem styleWF_withoutColor (s : Style) (hn : s.isNull = false) : StyleWF (Style.withoutColor StyleVariant.fixed s) := by
  constructor <;> simp [Style.withoutColor, hn]

theorem loopInv_tmp (cc : Cfg) (P : Palettes) (cfg : Config) (keys : List Style) (tmp : Heap) (hk : KInv keys tmp) :
    LoopInv cc P cfg tmp := by
  have key : ∀ o ∈ tmp, ∃ s, s.isNull = false ∧ o = colourless s := by
    intro o ho
    obtain ⟨j, hj⟩ := List.mem_iff_getElem?.mp ho
    have hjl : j < keys.length := by
      rcases List.getElem?_eq_some_iff.mp hj with ⟨h, _⟩; rw [hk.len]; exact h
    obtain ⟨g1, _, g3⟩ := hk.get j keys[j] (by simp [hjl])
    rw [hj] at g1
    exact ⟨keys[j], g3, by cases g1; rfl⟩
  constructor
  · intro o ho
    obtain ⟨s, hs, rfl⟩ := key o ho
    exact objOK_fresh cc P _ (styleWF_withoutColor s hs)
  · intro _ _ o ho
    obtain ⟨s, hs, rfl⟩ := key o ho
    simp [colourless, Style.withoutColor, hs]

/-! ## `_render_buffer` -/

/-- **`_render_buffer` means the segments.**  Repaired code, sound heap, valid references: the call
never raises, changes caches only, keeps the heap sound, and its output replayed from the default
state shows exactly `expectedCells` and leaves the terminal in the default state. -/
theorem renderBuffer_means (v : RVariant) (hv : v.ansiCacheUnkeyed = false) (hv2 : v.styledControlKept = false)
    (cc : Cfg) (P : Palettes) (hP : P.ok = true) (cfg : Config) (heap : Heap) (segs : List Seg)
    (hok : HeapOK cc P heap) (hrefs : RefsOK heap segs) :
    ∃ toks heap', renderBuffer v cc P cfg heap segs = .ok (toks, heap') ∧ HeapOK cc P heap' ∧
      heap'.map (·.style) = heap.map (·.style) ∧
      interpFrom {} toks = ({}, expectedCells cc P cfg heap segs) := by
  unfold renderBuffer
  by_cases hc : (cfg.noColor && cfg.colorSystem.isSome) = true
  · simp only [hc, if_true]
    have hnc : cfg.noColor = true := by simp only [Bool.and_eq_true] at hc; exact hc.1
    have hwf : ∀ o ∈ heap, StyleWF o.style := fun o ho => (hok o ho).1
    obtain ⟨segs', keys', tmp', h1, h2, _, h4⟩ :=
      removeColorLoop_spec heap hwf segs [] [] hrefs ⟨rfl, by intro k s h; simp at h⟩
    obtain ⟨toks, tmp'', g1, _, _, g4⟩ :=
      renderLoop_means v hv hv2 cc P hP cfg segs' tmp' (loopInv_tmp cc P cfg keys' tmp' h2) (refsOK_img h4)
    refine ⟨toks, heap, by simp [h1, g1, bind, Except.bind], hok, rfl, ?_⟩
    rw [g4, expectedCells_img cc P cfg hnc heap tmp' hwf segs segs' h4]
  · simp only [hc, Bool.false_eq_true, if_false]
    have hinv : LoopInv cc P cfg heap := by
      refine ⟨hok, ?_⟩
      intro h1 h2
      exfalso
      apply hc
      cases hcs : cfg.colorSystem with
      | none => exact absurd hcs h2
      | some _ => simp [h1]
    obtain ⟨toks, heap', g1, g2, g3, g4⟩ := renderLoop_means v hv hv2 cc P hP cfg segs heap hinv hrefs
    exact ⟨toks, heap', g1, g2.ok, g3, g4⟩

/-! ## histories -/

/-- A heap of objects with empty caches. -/
def freshHeap (styles : List Style) : Heap := styles.map fun s => { style := s, ansi := none }

theorem freshHeap_styles (styles : List Style) : (freshHeap styles).map (·.style) = styles := by
  simp [freshHeap, Function.comp_def]

/-- The cache-free specification of a history: only the styles are tracked; every writing step must
show what `expectedCells` / `expected` say for the styles as they are at that moment. -/
def specOps (cc : Cfg) (P : Palettes) : List Style → List Op → List (List Cell)
  | _, [] => []
  | styles, .newStyle s :: rest => specOps cc P (styles ++ [s]) rest
  | styles, .copy i :: rest =>
    match styles[i]? with
    | some s => specOps cc P (styles ++ [Style.copy s]) rest
    | none => []
  | styles, .updateLink i link :: rest =>
    match styles[i]? with
    | some s => specOps cc P (styles ++ [Style.updateLink StyleVariant.fixed s link]) rest
    | none => []
  | styles, .render cfg segs :: rest =>
    expectedCells cc P cfg (freshHeap styles) segs :: specOps cc P styles rest
  | styles, .styleRender i text cs lw :: rest =>
    (let e := expected cc P ⟨cs, false, true, lw⟩ styles[i]?
     text.map fun c => (⟨c, e.1, e.2⟩ : Cell)) :: specOps cc P styles rest

/-- Well-formed histories: new styles are well-formed, indices name existing objects (`n` = number of
objects so far). -/
def OpsOK : Nat → List Op → Prop
  | _, [] => True
  | n, .newStyle s :: rest => StyleWF s ∧ OpsOK (n + 1) rest
  | n, .copy i :: rest => i < n ∧ OpsOK (n + 1) rest
  | n, .updateLink i _ :: rest => i < n ∧ OpsOK (n + 1) rest
  | n, .render _ segs :: rest => (∀ seg ∈ segs, ∀ i, seg.style = some i → i < n) ∧ OpsOK n rest
  | n, .styleRender i _ _ _ :: rest => i < n ∧ OpsOK n rest

theorem computeCodes_congr (cc : Cfg) (P : Palettes) (s s' : Style) (cs : ColorSystem)
    (h1 : s'.color = s.color) (h2 : s'.bgcolor = s.bgcolor) (h3 : s'.attributes = s.attributes)
    (h4 : s'.setAttributes = s.setAttributes) : computeCodes cc P s' cs = computeCodes cc P s cs := by
  simp [computeCodes, h1, h2, h3, h4]

theorem styleWF_null : StyleWF Style.null := by
  constructor <;> simp [Style.null, strTruthy]

theorem objOK_copy (cc : Cfg) (P : Palettes) (o : StyleObj) (ho : ObjOK cc P o) :
    ObjOK cc P { style := Style.copy o.style, ansi := if o.style.isNull then none else o.ansi } := by
  by_cases hn : o.style.isNull = true
  · simp only [Style.copy, hn, if_true]
    exact objOK_fresh cc P _ styleWF_null
  · have hn' : o.style.isNull = false := by simpa using hn
    simp only [Style.copy, hn', Bool.false_eq_true, if_false]
    refine ⟨⟨ho.1.color, ho.1.bgcolor, by intro h; cases h⟩, ?_⟩
    intro cs codes hc
    exact (computeCodes_congr cc P o.style { o.style with isNull := false } cs rfl rfl rfl rfl).trans (ho.2 cs codes hc)

theorem objOK_updateLink (cc : Cfg) (P : Palettes) (o : StyleObj) (ho : ObjOK cc P o) (link : Option (List Char)) :
    ObjOK cc P { style := Style.updateLink StyleVariant.fixed o.style link, ansi := o.ansi } := by
  refine ⟨⟨ho.1.color, ho.1.bgcolor, by intro h; cases h⟩, ?_⟩
  intro cs codes hc
  exact (computeCodes_congr cc P o.style (Style.updateLink StyleVariant.fixed o.style link) cs rfl rfl rfl rfl).trans (ho.2 cs codes hc)

theorem heapOK_append (cc : Cfg) (P : Palettes) (heap : Heap) (o : StyleObj) (h : HeapOK cc P heap) (ho : ObjOK cc P o) :
    HeapOK cc P (heap ++ [o]) := by
  intro x hx
  rcases List.mem_append.mp hx with hx | hx
  · exact h x hx
  · simp only [List.mem_singleton] at hx; subst hx; exact ho

/-- **Histories refine their cache-free specification** (repaired code).  For every well-formed
history from a sound heap: no step raises, and what each writing step wrote, interpreted by the
independent terminal model, is what the specification says for the styles as they are at that moment;
each write leaves the terminal in the default state. -/
theorem runOps_means (v : RVariant) (hv : v.ansiCacheUnkeyed = false) (hv2 : v.styledControlKept = false)
    (cc : Cfg) (P : Palettes) (hP : P.ok = true) (ops : List Op) :
    ∀ heap : Heap, HeapOK cc P heap → OpsOK heap.length ops →
      ∃ outs : List (List Tok), runOps v cc P heap ops = outs.map Except.ok ∧
        outs.map interp = specOps cc P (heap.map (·.style)) ops ∧
        ∀ o ∈ outs, finalState o = {} := by
  induction ops with
  | nil => intro heap _ _; exact ⟨[], rfl, rfl, by intro o h; cases h⟩
  | cons op rest ih =>
    intro heap hok hops
    cases op with
    | newStyle s =>
      obtain ⟨hs, hrest⟩ := hops
      have hok' := heapOK_append cc P heap _ hok (objOK_fresh cc P s hs)
      obtain ⟨outs, h1, h2, h3⟩ := ih (heap ++ [{ style := s, ansi := none }]) hok' (by simpa using hrest)
      refine ⟨outs, by simp [runOps, stepOp, h1], ?_, h3⟩
      simpa [specOps] using h2
    | copy i =>
      obtain ⟨hi, hrest⟩ := hops
      obtain ⟨o, ho⟩ : ∃ o, heap[i]? = some o := ⟨heap[i], by simp [hi]⟩
      have hmem : o ∈ heap := List.mem_iff_getElem?.mpr ⟨i, ho⟩
      have hok' := heapOK_append cc P heap _ hok (objOK_copy cc P o (hok o hmem))
      obtain ⟨outs, h1, h2, h3⟩ := ih _ hok' (by simpa using hrest)
      refine ⟨outs, by simp [runOps, stepOp, ho, h1], ?_, h3⟩
      simpa [specOps, ho] using h2
    | updateLink i link =>
      obtain ⟨hi, hrest⟩ := hops
      obtain ⟨o, ho⟩ : ∃ o, heap[i]? = some o := ⟨heap[i], by simp [hi]⟩
      have hmem : o ∈ heap := List.mem_iff_getElem?.mpr ⟨i, ho⟩
      have hok' := heapOK_append cc P heap _ hok (objOK_updateLink cc P o (hok o hmem) link)
      obtain ⟨outs, h1, h2, h3⟩ := ih _ hok' (by simpa using hrest)
      refine ⟨outs, by simp [runOps, stepOp, ho, h1], ?_, h3⟩
      simpa [specOps, ho] using h2
    | render cfg segs =>
      obtain ⟨hrefs, hrest⟩ := hops
      obtain ⟨toks, heap', g1, g2, g3, g4⟩ := renderBuffer_means v hv hv2 cc P hP cfg heap segs hok hrefs
      have hlen : heap'.length = heap.length := by
        have := congrArg List.length g3; simpa using this
      obtain ⟨outs, h1, h2, h3⟩ := ih heap' g2 (hlen ▸ hrest)
      refine ⟨toks :: outs, by simp [runOps, stepOp, g1, h1, bind, Except.bind], ?_, ?_⟩
      · simp only [List.map_cons, specOps, h2, g3]
        congr 1
        simp only [interp, g4]
        exact (expectedCells_congr cc P cfg (freshHeap_styles _) segs).symm
      · intro o ho
        rcases List.mem_cons.mp ho with rfl | ho
        · simp [finalState, g4]
        · exact h3 o ho
    | styleRender i text cs lw =>
      obtain ⟨hi, hrest⟩ := hops
      obtain ⟨o, ho⟩ : ∃ o, heap[i]? = some o := ⟨heap[i], by simp [hi]⟩
      have hmem : o ∈ heap := List.mem_iff_getElem?.mpr ⟨i, ho⟩
      obtain ⟨toks, o', g1, g2, g3, g4⟩ :=
        styleRender_means v hv cc P hP ⟨cs, false, true, lw⟩ o (hok o hmem) text (by intro h; cases h)
      have hmap := map_style_set heap i o o' ho g2
      have hok' : HeapOK cc P (heap.set i o') := by
        intro x hx
        rcases List.mem_or_eq_of_mem_set hx with hx | rfl
        · exact hok x hx
        · exact g3
      obtain ⟨outs, h1, h2, h3⟩ := ih (heap.set i o') hok' (by simpa using hrest)
      refine ⟨toks :: outs, by simp [runOps, stepOp, ho, g1, liftPy, h1, bind, Except.bind], ?_, ?_⟩
      · simp only [List.map_cons, specOps, h2, hmap]
        congr 1
        simp only [interp, g4, List.getElem?_map, ho, Option.map_some]
      · intro x hx
        rcases List.mem_cons.mp hx with rfl | hx
        · simp [finalState, g4]
        · exact h3 x hx

end RichModel.AnsiRender
