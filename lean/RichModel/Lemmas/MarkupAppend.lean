import RichModel.Lemmas.MarkupEscape
namespace RichModel.Markup

/-- every `[` is closed by a later `]` -/
def okTail : List Char → Bool
  | [] => true
  | c :: cs => (c != '[' || cs.contains ']') && okTail cs

/-- the side condition of the embedded form: the text does not end in a backslash and every `[`
in it is closed by a later `]` within it -/
def SelfContained (s : List Char) : Prop := s.getLast? ≠ some '\\' ∧ okTail s = true

instance (s : List Char) : Decidable (SelfContained s) := by unfold SelfContained; infer_instance

theorem untilClose_append {t : List Char} (x : List Char) (h : ']' ∈ t) :
    untilClose (t ++ x) = (untilClose t).map (fun p => (p.1, p.2 ++ x)) := by
  induction t with
  | nil => simp at h
  | cons c cs ih =>
    by_cases h3 : c = ']'
    · subst h3; simp [untilClose]
    · by_cases h4 : c = '\n'
      · subst h4; simp [untilClose]
      · have hm : ']' ∈ cs := by
          simp at h; rcases h with h | h
          · exact absurd h.symm h3
          · exact h
        rw [List.cons_append, untilClose_cons _ _ h3 h4, untilClose_cons _ _ h3 h4, ih hm]
        cases untilClose cs with
        | none => rfl
        | some p => rfl

theorem tagBody_append {t : List Char} (x : List Char) (h : ']' ∈ t) :
    tagBody (t ++ x) = (tagBody t).map (fun p => (p.1, p.2 ++ x)) := by
  cases t with
  | nil => simp at h
  | cons c cs =>
    by_cases hc : isTagStart c = true
    · have hm : ']' ∈ cs := by
        simp at h; rcases h with h | h
        · exact absurd h.symm (isTagStart_ne hc).1
        · exact h
      simp only [List.cons_append, tagBody, hc, if_true, untilClose_append x hm]
      cases untilClose cs with
      | none => rfl
      | some p => rfl
    · simp [tagBody, hc]

theorem okTail_append_right {a b : List Char} (h : okTail (a ++ b) = true) : okTail b = true := by
  induction a with
  | nil => simpa using h
  | cons c cs ih => simp [okTail] at h; exact ih h.2

theorem getLast?_cons_ne {c : Char} {cs : List Char} (h : cs ≠ []) : (c :: cs).getLast? = cs.getLast? := by
  cases cs with
  | nil => exact absurd rfl h
  | cons d ds => simp [List.getLast?_cons_cons]

theorem getLast?_append_ne (a b : List Char) (h : b ≠ []) : (a ++ b).getLast? = b.getLast? := by
  simp [List.getLast?_append]
  cases hb : b.getLast? with
  | none => simp [List.getLast?_eq_none_iff] at hb; exact absurd hb h
  | some x => simp

/-- a self-contained text is scanned independently of what follows it -/
theorem lexK_append (x : List Char) (n : Nat) : ∀ (s : List Char) (k : Nat), s.length ≤ n →
    (s ≠ [] ∨ k = 0) → SelfContained s → lexK k (s ++ x) = lexK k s ++ lexK 0 x := by
  induction n with
  | zero =>
    intro s k h hk _
    have : s = [] := List.eq_nil_of_length_eq_zero (by omega)
    subst this
    rcases hk with hk | hk
    · exact absurd rfl hk
    · subst hk; simp [lexK_nil]
  | succ n ih =>
    intro s k h hk hs
    cases s with
    | nil =>
      rcases hk with hk | hk
      · exact absurd rfl hk
      · subst hk; simp [lexK_nil]
    | cons c cs =>
      have hl : cs.length ≤ n := by simp at h; omega
      obtain ⟨hlast, htail⟩ := hs
      simp only [okTail, Bool.and_eq_true] at htail
      have hcs : cs ≠ [] → SelfContained cs := fun hne => ⟨by rw [← getLast?_cons_ne hne]; exact hlast, htail.2⟩
      have hcs0 : SelfContained cs := by
        by_cases hne : cs = []
        · subst hne; exact ⟨by simp, rfl⟩
        · exact hcs hne
      by_cases h1 : c = '\\'
      · subst h1
        have hne : cs ≠ [] := by intro e; subst e; simp at hlast
        rw [List.cons_append, lexK_bs, lexK_bs]
        exact ih cs (k + 1) hl (Or.inl hne) (hcs hne)
      · by_cases h2 : c = '['
        · subst h2
          have hm : ']' ∈ cs := by simpa using htail.1
          rw [List.cons_append]
          cases ht : tagBody cs with
          | none =>
            have : tagBody (cs ++ x) = none := by rw [tagBody_append x hm, ht]; rfl
            rw [lexK_open k this, lexK_open k ht, ih cs 0 hl (Or.inr rfl) hcs0]
            simp
          | some p =>
            obtain ⟨b, r⟩ := p
            have e := (tagBody_spec ht).1
            have hr : r.length ≤ n := by rw [e] at hl; simp at hl; omega
            have : tagBody (cs ++ x) = some (b, r ++ x) := by rw [tagBody_append x hm, ht]; rfl
            have hsr : SelfContained r := by
              refine ⟨?_, ?_⟩
              · by_cases hne : r = []
                · subst hne; simp
                · have h0 := hcs0.1
                  rw [e] at h0
                  rw [show b ++ ']' :: r = (b ++ [']']) ++ r by simp, getLast?_append_ne _ _ hne] at h0
                  exact h0
              · have h0 := hcs0.2
                rw [e, show b ++ ']' :: r = (b ++ [']']) ++ r by simp] at h0
                exact okTail_append_right h0
            rw [lexK_tag k this, lexK_tag k ht, ih r 0 hr (Or.inr rfl) hsr]
            simp
        · rw [List.cons_append, lexK_plain k c _ h1 h2, lexK_plain k c _ h1 h2, ih cs 0 hl (Or.inr rfl) hcs0]
          simp

theorem lex_append {s : List Char} (x : List Char) (hs : SelfContained s) : lex (s ++ x) = lex s ++ lex x :=
  lexK_append x s.length s 0 (Nat.le_refl _) (Or.inr rfl) hs

end RichModel.Markup

namespace RichModel.Markup

theorem okTail_bsl (k : Nat) (u : List Char) : okTail (bsl k ++ u) = okTail u := by
  induction k with
  | zero => simp [bsl]
  | succ k ih =>
    have : bsl (k + 1) ++ u = '\\' :: (bsl k ++ u) := by simp [bsl, List.replicate_succ]
    rw [this, okTail, ih]; simp

theorem okTail_body (b E : List Char) : okTail (b ++ ']' :: E) = okTail E := by
  induction b with
  | nil => simp [okTail]
  | cons c b ih => simp [okTail, ih]

theorem mem_escK (n : Nat) : ∀ (s : List Char) (k : Nat), s.length ≤ n → ']' ∈ s → ']' ∈ escK k s := by
  induction n with
  | zero => intro s k h hm; have : s = [] := List.eq_nil_of_length_eq_zero (by omega); subst this; simp at hm
  | succ n ih =>
    intro s k h hm
    cases s with
    | nil => simp at hm
    | cons c cs =>
      have hl : cs.length ≤ n := by simp at h; omega
      by_cases h1 : c = '\\'
      · subst h1; rw [escK_bs]; apply ih cs _ hl; simpa using hm
      · by_cases h2 : c = '['
        · subst h2
          cases ht : tagBody cs with
          | none =>
            rw [escK_open k ht]
            have : ']' ∈ cs := by simpa using hm
            simp; right; exact ih cs 0 hl this
          | some p => obtain ⟨b, r⟩ := p; rw [escK_tag k ht]; simp
        · rw [escK_plain k c cs h1 h2]
          simp at hm
          rcases hm with hm | hm
          · simp; right; left; exact hm
          · simp; right; right; exact ih cs 0 hl hm

theorem okTail_escK (n : Nat) : ∀ (s : List Char) (k : Nat), s.length ≤ n → okTail s = true →
    okTail (escK k s) = true := by
  induction n with
  | zero =>
    intro s k h _
    have : s = [] := List.eq_nil_of_length_eq_zero (by omega)
    subst this; rw [escK_nil]; have := okTail_bsl k []; simp at this; rw [this]; rfl
  | succ n ih =>
    intro s k h ho
    cases s with
    | nil => rw [escK_nil]; have := okTail_bsl k []; simp at this; rw [this]; rfl
    | cons c cs =>
      have hl : cs.length ≤ n := by simp at h; omega
      simp only [okTail, Bool.and_eq_true] at ho
      by_cases h1 : c = '\\'
      · subst h1; rw [escK_bs]; exact ih cs _ hl ho.2
      · by_cases h2 : c = '['
        · subst h2
          have hm : ']' ∈ cs := by simpa using ho.1
          cases ht : tagBody cs with
          | none =>
            rw [escK_open k ht, okTail_bsl, okTail, ih cs 0 hl ho.2]
            simp; exact mem_escK cs.length cs 0 (Nat.le_refl _) hm
          | some p =>
            obtain ⟨b, r⟩ := p
            have e := (tagBody_spec ht).1
            have hr : r.length ≤ n := by rw [e] at hl; simp at hl; omega
            have hor : okTail r = true := by
              have h0 := ho.2
              rw [e, show b ++ ']' :: r = (b ++ [']']) ++ r by simp] at h0
              exact okTail_append_right h0
            rw [escK_tag k ht, okTail_bsl, okTail, okTail_body, ih r 0 hr hor]
            simp
        · rw [escK_plain k c cs h1 h2, okTail_bsl, okTail, ih cs 0 hl ho.2]
          simp [h2]

theorem getLast?_bsl_cons (k : Nat) (c : Char) (u : List Char) : (bsl k ++ c :: u).getLast? = (c :: u).getLast? :=
  getLast?_append_ne _ _ (by simp)

theorem getLast?_escK (n : Nat) : ∀ (s : List Char) (k : Nat), s.length ≤ n → s ≠ [] →
    (escK k s).getLast? = s.getLast? := by
  induction n with
  | zero => intro s k h hne; exact absurd (List.eq_nil_of_length_eq_zero (by omega)) hne
  | succ n ih =>
    intro s k h hne
    cases s with
    | nil => exact absurd rfl hne
    | cons c cs =>
      have hl : cs.length ≤ n := by simp at h; omega
      by_cases h1 : c = '\\'
      · subst h1
        rw [escK_bs]
        by_cases he : cs = []
        · subst he; rw [escK_nil]; simp [bsl, List.replicate_succ']
        · rw [ih cs _ hl he, getLast?_cons_ne he]
      · have key : ∀ (E : List Char), (cs ≠ [] → E.getLast? = cs.getLast?) → (cs = [] → E = []) →
            (c :: E).getLast? = (c :: cs).getLast? := by
          intro E h1 h2
          by_cases he : cs = []
          · subst he; rw [h2 rfl]
          · have : E ≠ [] := by
              intro e; subst e; have := h1 he; simp at this
              exact he (List.getLast?_eq_none_iff.mp this.symm)
            rw [getLast?_cons_ne he, getLast?_cons_ne this, h1 he]
        by_cases h2 : c = '['
        · subst h2
          cases ht : tagBody cs with
          | none =>
            rw [escK_open k ht, getLast?_bsl_cons]
            exact key _ (fun he => ih cs 0 hl he) (fun he => by subst he; simp [escK_nil, bsl])
          | some p =>
            obtain ⟨b, r⟩ := p
            have e := (tagBody_spec ht).1
            have hr : r.length ≤ n := by rw [e] at hl; simp at hl; omega
            rw [escK_tag k ht, getLast?_bsl_cons]
            have hne1 : b ++ ']' :: escK 0 r ≠ [] := by simp
            have hne2 : cs ≠ [] := by rw [e]; simp
            rw [getLast?_cons_ne hne1, getLast?_cons_ne hne2, e]
            by_cases he : r = []
            · subst he; simp [escK_nil, bsl]
            · have hE : escK 0 r ≠ [] := by
                intro e0; have := ih r 0 hr he; rw [e0] at this; simp at this
                exact he (List.getLast?_eq_none_iff.mp this.symm)
              rw [show b ++ ']' :: escK 0 r = (b ++ [']']) ++ escK 0 r by simp, getLast?_append_ne _ _ hE,
                show b ++ ']' :: r = (b ++ [']']) ++ r by simp, getLast?_append_ne _ _ he, ih r 0 hr he]
        · rw [escK_plain k c cs h1 h2, getLast?_bsl_cons]
          exact key _ (fun he => ih cs 0 hl he) (fun he => by subst he; simp [escK_nil, bsl])

theorem escape_eq_escK (s : List Char) : escape s = escK 0 s := rfl

theorem selfContained_escape {s : List Char} (h : SelfContained s) : SelfContained (escape s) := by
  rw [escape_eq_escK]
  refine ⟨?_, okTail_escK s.length s 0 (Nat.le_refl _) h.2⟩
  by_cases he : s = []
  · subst he; simp [escK_nil, bsl]
  · rw [getLast?_escK s.length s 0 (Nat.le_refl _) he]; exact h.1

end RichModel.Markup
