import RichModel.Lemmas.MarkupEmoji
namespace RichModel.Markup

theorem lex_embedded (A s B : List Char) (hA : SelfContained A) (hs : SelfContained s) :
    lex (A ++ escape s ++ B) = lex A ++ (lex s).map Lx.bump ++ lex B := by
  rw [List.append_assoc, lex_append _ hA, lex_append _ (selfContained_escape hs), lex_escape, List.append_assoc]

/-- the chunks of `A ++ escape(s) ++ B`: the chunks `A` completes, then text chunks only — spelling
`A`'s trailing plain text followed by `s`, except for a trailing part that stays pending — then
the chunks of `B` with that pending text in front of its first chunk. -/
theorem chunks_embedded (A s B : List Char) (hA : SelfContained A) (hs : SelfContained s) :
    chunks (A ++ escape s ++ B) =
      (chunkSt [] (lex A)).1 ++ (chunkSt (chunkSt [] (lex A)).2 ((lex s).map Lx.bump)).1 ++
        chunkGo (chunkSt (chunkSt [] (lex A)).2 ((lex s).map Lx.bump)).2 (lex B) := by
  rw [chunks, lex_embedded A s B hA hs, List.append_assoc, chunkGo_append, chunkGo_append, List.append_assoc]

theorem lex_tag (c : Char) (b : List Char) (hc : isTagStart c = true) (n1 : ']' ∉ b) (n2 : '\n' ∉ b) :
    lex ('[' :: (c :: b) ++ [']']) = [Lx.tag 0 (c :: b)] := by
  have ht : tagBody ((c :: b) ++ [']']) = some (c :: b, []) := by
    have := tagBody_of c b [] hc n1 n2
    simpa using this
  have := lexK_tag 0 ht
  simp only [lexK_nil, List.replicate_zero] at this
  exact this

/-- the tokenizer items of one piece -/
def Piece.lx : Piece → List Lx
  | .text s => (lex s).map Lx.bump
  | p => [Lx.tag 0 p.body]

theorem Piece.lex_markup (p : Piece) (h : p.ok) : lex p.markup = p.lx := by
  cases p with
  | text s => exact lex_escape s
  | opening n q =>
    obtain ⟨⟨c, r, rfl, hc, _⟩, ⟨c1, c2, _⟩, hq⟩ := h
    simp at c1 c2
    cases q with
    | none => exact lex_tag c r hc c1.2 c2.2
    | some q =>
      obtain ⟨q1, q2⟩ := hq q rfl
      have := lex_tag c (r ++ '=' :: q) hc (by simp; exact ⟨c1.2, q1⟩) (by simp; exact ⟨c2.2, q2⟩)
      simpa [Piece.markup, Piece.body, Piece.lx] using this
  | closing n =>
    obtain ⟨c1, c2, _⟩ := h
    exact lex_tag '/' n (by decide) c1 c2
  | closeTop => exact lex_tag '/' [] (by decide) (by simp) (by simp)

/-- the tokenizer reads a document piece by piece -/
theorem lex_doc (d : List Piece) (h : ∀ p ∈ d, p.ok) : lex (d.flatMap Piece.markup) = d.flatMap Piece.lx := by
  induction d with
  | nil => rfl
  | cons p ps ih =>
    simp only [List.flatMap_cons]
    rw [lex_append _ (p.selfContained (h p (by simp))), p.lex_markup (h p (by simp)),
      ih (fun q hq => h q (by simp [hq]))]

theorem chunks_doc (d : List Piece) (h : ∀ p ∈ d, p.ok) :
    chunks (d.flatMap Piece.markup) = chunkGo [] (d.flatMap Piece.lx) := by
  rw [chunks, lex_doc d h]

/-- with emoji off the chunk-level semantics is the event-level one -/
theorem semC_eq_sem (cfg : Cfg) (hE : cfg.emoji = none) (cs : List CEv) : ∀ op,
    semC cfg op cs = sem cfg op (cs.flatMap CEv.evs) := by
  have hsc : ∀ (op : List OTag) (s : List Char) (r : List Ev), sem cfg op (s.map Ev.chr ++ r) =
      (sem cfg op r).map (fun a => (stripControl s).map (fun c => (c, op.reverse.map (·.style))) ++ a) := by
    intro op s r
    induction s with
    | nil => simp [stripControl]
    | cons c cs ih =>
      simp only [List.map_cons, List.cons_append, sem, ih]
      by_cases hc : isStripped c = true
      · simp [hc, stripControl]
      · simp only [hc, Bool.false_eq_true, if_false]
        cases sem cfg op r with
        | none => rfl
        | some a => simp [stripControl, hc]
  induction cs with
  | nil => intro op; rfl
  | cons c cs ih =>
    intro op
    cases c with
    | txt s =>
      simp only [semC, List.flatMap_cons, CEv.evs]
      rw [hsc, ← ih op]
      have : chunkText cfg s = stripControl s := by simp [chunkText, hE]
      rw [this]
      cases semC cfg op cs <;> rfl
    | tag t =>
      simp only [semC, List.flatMap_cons, CEv.evs, List.cons_append, List.nil_append, sem]
      cases classify cfg t with
      | opening o => exact ih _
      | closeName n =>
        simp only
        cases closeRecent n op with
        | none => rfl
        | some op' => exact ih _
      | closeTop =>
        simp only
        cases op with
        | nil => rfl
        | cons o op' => exact ih _

end RichModel.Markup
