import RichModel.Lemmas.SyntaxRange
/-
Helper lemmas for property C17, part 3: from a clean source and the lexer contract to the list of
selected lines (`selectedLines`) being the expected slice of the source lines up to trailing blank lines.
-/
namespace RichModel.Syntax

/-- Sources on which the statement is read literally: no character that `Text` strips (BS, VT, FF, CR — CR is
also what Pygments turns into a newline) and no byte-order mark (Pygments removes a leading one). -/
def Clean (s : List Char) : Prop := ∀ c ∈ s, isStripCtl c = false ∧ c.toNat ≠ 0xFEFF

/-- The lines the statement asks for: all source lines, or lines `a..b` (1-based, clipped). -/
def expectedLines (range : Option (Int × Int)) (P : List Line) : List Line :=
  match range with
  | none => P
  | some (a, b) => (P.take b.toNat).drop (a - 1).toNat

/-! ### clean sources pass through the preprocessing unchanged -/

theorem mem_expandTabsFrom (ts : Nat) : ∀ (s : List Char) (col : Nat) (c : Char),
    c ∈ expandTabsFrom ts col s → c ∈ s ∨ c = ' '
  | [], _, c, h => by simp [expandTabsFrom] at h
  | d :: rest, col, c, h => by
    unfold expandTabsFrom at h
    split at h
    · split at h
      · rcases List.mem_append.mp h with h1 | h1
        · exact Or.inr (List.eq_of_mem_replicate h1)
        · rcases mem_expandTabsFrom ts rest _ c h1 with h2 | h2
          · exact Or.inl (by simp [h2])
          · exact Or.inr h2
      · rcases mem_expandTabsFrom ts rest _ c h with h2 | h2
        · exact Or.inl (by simp [h2])
        · exact Or.inr h2
    · split at h <;>
      · rcases List.mem_cons.mp h with h1 | h1
        · exact Or.inl (by simp [h1])
        · rcases mem_expandTabsFrom ts rest _ c h1 with h2 | h2
          · exact Or.inl (by simp [h2])
          · exact Or.inr h2

theorem Clean.expandTabs {s : List Char} (h : Clean s) (ts : Nat) : Clean (expandTabs ts s) := by
  intro c hc
  rcases mem_expandTabsFrom ts s 0 c hc with h1 | h1
  · exact h c h1
  · subst h1; decide

theorem crlf_cons_ne {c : Char} (h : c ≠ '\r') (rest : List Char) : crlf (c :: rest) = c :: crlf rest := by
  rw [crlf]
  · intro rest' hc _; exact h hc
  · intro hc; exact h hc

theorem crlf_clean : ∀ (s : List Char), Clean s → crlf s = s
  | [], _ => by simp [crlf]
  | c :: rest, h => by
    have hc := (h c (by simp)).1
    have hr : Clean rest := fun d hd => h d (by simp [hd])
    have ih := crlf_clean rest hr
    have hne : c ≠ '\r' := by
      intro e; subst e; revert hc; decide
    rw [crlf_cons_ne hne, ih]

theorem dropBOM_clean (s : List Char) (h : Clean s) : dropBOM s = s := by
  cases s with
  | nil => rfl
  | cons c rest =>
    have := (h c (by simp)).2
    simp [dropBOM, this]

theorem stripCtl_clean (s : List Char) (h : Clean s) : stripCtl s = s := by
  unfold stripCtl
  apply List.filter_eq_self.mpr
  intro c hc
  simp [(h c hc).1]

theorem pygPre_clean (s : List Char) (h : Clean s) : pygPre false s = ensureNL s := by
  unfold pygPre ensureNL
  simp [dropBOM_clean s h, crlf_clean s h]

/-! ### counting lines -/

theorem length_splitNL : ∀ (s : List Char), (splitNL s).length = countNL s + 1
  | [] => by simp [countNL]
  | c :: rest => by
    have ih := length_splitNL rest
    by_cases hc : c = '\n'
    · subst hc; simp [countNL] at *; omega
    · obtain ⟨l0, ls0, h0⟩ := splitNL_exists rest
      rw [splitNL_cons_ne hc rest h0]
      rw [h0] at ih
      have : countNL (c :: rest) = countNL rest := by
        simp [countNL, hc]
      rw [this]; simpa using ih

theorem countNL_expandTabsFrom (ts : Nat) : ∀ (s : List Char) (col : Nat),
    countNL (expandTabsFrom ts col s) = countNL s
  | [], _ => by simp [expandTabsFrom]
  | d :: rest, col => by
    unfold expandTabsFrom
    split
    · rename_i hd
      have hd' : d = '\t' := by simpa using hd
      subst hd'
      split
      · simp only [countNL, List.count_append, List.count_cons]
        have := countNL_expandTabsFrom ts rest (col + (ts - col % ts))
        simp only [countNL] at this
        rw [this]
        simp [List.count_replicate]
      · simp only [countNL, List.count_cons]
        have := countNL_expandTabsFrom ts rest col
        simp only [countNL] at this
        rw [this]; simp
    · split
      · simp only [countNL, List.count_cons]
        have := countNL_expandTabsFrom ts rest 0
        simp only [countNL] at this
        rw [this]
      · simp only [countNL, List.count_cons]
        have := countNL_expandTabsFrom ts rest (col + 1)
        simp only [countNL] at this
        rw [this]

theorem countNL_expandTabs (ts : Nat) (s : List Char) : countNL (expandTabs ts s) = countNL s :=
  countNL_expandTabsFrom ts s 0

/-! ### the terminated lines of a source -/

/-- The lines of a source the way a reader counts them: a final newline ends the last line, it does not start
an empty one (`s.split("\n")` without the empty string a final newline leaves behind). -/
def srcLines (s : List Char) : List Line := if endsNL s then (splitNL s).dropLast else splitNL s

theorem ensureNL_srcLines (s : List Char) :
    srcLines s ≠ [] ∧ (∀ l ∈ srcLines s, '\n' ∉ l) ∧ ensureNL s = unlinesT (srcLines s) ∧
      Trail 1 (srcLines s) (splitNL s) := by
  unfold srcLines
  cases h : endsNL s with
  | true =>
    obtain ⟨s0, rfl⟩ := endsNL_iff.mp h
    have hsp : splitNL (s0 ++ ['\n']) = splitNL s0 ++ [[]] := by
      have := splitNL_unlinesT_append (splitNL s0) [] (splitNL_no_nl s0) (by simp)
      rwa [List.append_nil, ← append_nl_eq_unlinesT s0] at this
    simp only [if_true, hsp, List.dropLast_concat]
    refine ⟨splitNL_ne_nil s0, splitNL_no_nl s0, ?_, 1, Nat.le_refl _, rfl⟩
    unfold ensureNL; rw [if_pos h]; exact append_nl_eq_unlinesT s0
  | false =>
    simp only [Bool.false_eq_true, if_false]
    refine ⟨splitNL_ne_nil s, splitNL_no_nl s, ?_, 0, by omega, by simp⟩
    simp [ensureNL, h, append_nl_eq_unlinesT s]

theorem ensureNL_lines (s : List Char) :
    ∃ L : List Line, L ≠ [] ∧ (∀ l ∈ L, '\n' ∉ l) ∧ ensureNL s = unlinesT L ∧ Trail 1 L (splitNL s) :=
  ⟨srcLines s, ensureNL_srcLines s⟩

theorem mem_ensureNL {s : List Char} {c : Char} (h : c ∈ ensureNL s) : c ∈ s ∨ c = '\n' := by
  unfold ensureNL at h
  split at h
  · exact Or.inl h
  · rcases List.mem_append.mp h with h1 | h1
    · exact Or.inl h1
    · exact Or.inr (by simpa using h1)

/-- the lines of a clean source hold nothing `Text` would strip -/
theorem srcLines_clean {s : List Char} (h : Clean s) : ∀ l ∈ srcLines s, ∀ c ∈ l, isStripCtl c = false := by
  intro l hl c hc
  have : c ∈ unlinesT (srcLines s) := by
    unfold unlinesT
    exact List.mem_flatMap.mpr ⟨l, hl, by simp [hc]⟩
  rw [← (ensureNL_srcLines s).2.2.1] at this
  rcases mem_ensureNL this with h1 | h1
  · exact (h c h1).1
  · subst h1; decide

theorem map_stripCtl_id {X : List Line} (h : ∀ l ∈ X, ∀ c ∈ l, isStripCtl c = false) : X.map stripCtl = X := by
  induction X with
  | nil => rfl
  | cons x xs ih =>
    simp only [List.map_cons]
    rw [ih (fun l hl => h l (by simp [hl]))]
    congr 1
    unfold stripCtl
    exact List.filter_eq_self.mpr (fun c hc => by simp [h x (by simp) c hc])

/-- What `highlight` returns on a clean source under the lexer contract: after `remove_suffix`, the first `m`
terminated lines of the source, where `m` covers the requested range (or everything). -/
theorem highlight_lines (found : Bool) (toks : List Line) (src : List Char) (range : Option (Int × Int))
    (hclean : Clean src) (hlex : found = true → toks.flatten = pygPre false src) :
    ∃ (m : Nat) (text : List Char),
      highlight false found toks src range = .ok text ∧
      text <+: ensureNL src ∧
      removeSuffixNL text = removeSuffixNL (unlinesT ((srcLines src).take m)) ∧ 1 ≤ m ∧
      (range = none → (srcLines src).length ≤ m) ∧
      (∀ a b, range = some (a, b) → b.toNat ≤ m ∨ (srcLines src).length ≤ m) := by
  obtain ⟨hne, hno, hen, htr⟩ := ensureNL_srcLines src
  generalize srcLines src = L at *
  have hlen : 1 ≤ L.length := by
    cases L with
    | nil => exact absurd rfl hne
    | cons _ _ => simp
  cases found with
  | false =>
    refine ⟨L.length, src, ?_, ?_, ?_, hlen, fun _ => Nat.le_refl _, fun _ _ _ => Or.inr (Nat.le_refl _)⟩
    · simp [highlight, stripCtl_clean src hclean]
    · unfold ensureNL; split
      · exact List.prefix_refl _
      · exact List.prefix_append _ _
    · rw [List.take_length, ← hen, removeSuffix_ensureNL]
  | true =>
    have hflat : toks.flatten = unlinesT L := by rw [hlex rfl, pygPre_clean src hclean, hen]
    cases range with
    | none =>
      refine ⟨L.length, toks.flatten, ?_, ?_, ?_, hlen, fun _ => Nat.le_refl _, fun _ _ h => by cases h⟩
      · simp [highlight]
      · rw [hflat, hen]; exact List.prefix_refl _
      · rw [List.take_length, hflat]
    | some ab =>
      obtain ⟨a, b⟩ := ab
      refine ⟨rangeEnd a b, takeThroughNL (rangeEnd a b) toks.flatten, highlight_ranged toks src a b, ?_, ?_,
        (by have := (rangeEnd_ge a b).2; omega), (fun h => by cases h), ?_⟩
      · rw [hflat, hen]; exact takeThroughNL_prefix _ _
      · rw [hflat, takeThroughNL_unlinesT L _ hno]
      · intro a' b' h
        cases h
        exact Or.inl (rangeEnd_ge a b).1

theorem take_ne_nil {L : List Line} (h : L ≠ []) {m : Nat} (hm : 1 ≤ m) : L.take m ≠ [] := by
  cases L with
  | nil => exact absurd rfl h
  | cons x xs =>
    cases m with
    | zero => omega
    | succ k => simp

/-- `remove_suffix("\n")` then `split("\n", allow_blank=True)` gives the terminated lines back, all of them -/
theorem textSplit_allow_unlinesT (M : List Line) (hne : M ≠ []) (hM : ∀ l ∈ M, '\n' ∉ l) :
    textSplit (removeSuffixNL (unlinesT M)) true = M := by
  obtain ⟨M0, x, rfl⟩ : ∃ M0 x, M = M0 ++ [x] := ⟨M.dropLast, M.getLast hne, (List.dropLast_concat_getLast hne).symm⟩
  have e1 : unlinesT (M0 ++ [x]) = (unlinesT M0 ++ x) ++ ['\n'] := by simp [unlinesT_append]
  rw [e1, removeSuffixNL_append_nl]
  unfold textSplit
  rw [splitNL_unlinesT_append M0 x (fun l hl => hM l (by simp [hl])) (hM x (by simp))]
  simp

/-- Master lemma, exact form: without indent guides, on a clean source and under the lexer contract, the repaired
code selects
* with a range `(a, b)`, `0 ≤ b`: EXACTLY lines `a..b` of the source, clipped to the lines that exist — interior
  blank lines that end the range included;
* without a range: all source lines, except that one empty line at the very end of the source may be missing. -/
theorem selected_exact (o : Opts) (found : Bool) (lex : List Char → List Line) (code : List Char)
    (hclean : Clean (shownCode o code))
    (hlex : found = true → (lex (expandTabs o.tabSize (shownCode o code))).flatten = pygPre false (expandTabs o.tabSize (shownCode o code)))
    (hg : (o.indentGuides && !o.asciiOnly) = false)
    (hb : ∀ a b, o.lineRange = some (a, b) → 0 ≤ b) :
    ∃ sel, selectedLines false false o found lex code = .ok sel ∧
      (o.lineRange = none → Trail 1 sel (srcLines (expandTabs o.tabSize (shownCode o code)))) ∧
      (∀ a b, o.lineRange = some (a, b) →
        sel = ((srcLines (expandTabs o.tabSize (shownCode o code))).take b.toNat).drop (a - 1).toNat) := by
  have hcl := hclean.expandTabs o.tabSize
  obtain ⟨m, text, hhl, hpre, hrs, hm, hnone, hsome⟩ :=
    highlight_lines found (lex (expandTabs o.tabSize (shownCode o code))) (expandTabs o.tabSize (shownCode o code)) o.lineRange hcl hlex
  have hnc : ∀ c ∈ removeSuffixNL text, isStripCtl c = false := by
    intro c hc
    have h1 : c ∈ text := by
      unfold removeSuffixNL at hc
      split at hc
      · exact List.dropLast_subset _ hc
      · exact hc
    rcases mem_ensureNL (hpre.subset h1) with h2 | h2
    · exact (hcl c h2).1
    · subst h2; decide
  obtain ⟨hne, hno, _, _⟩ := ensureNL_srcLines (expandTabs o.tabSize (shownCode o code))
  have hLc := srcLines_clean hcl
  generalize srcLines (expandTabs o.tabSize (shownCode o code)) = L at *
  have htake_no : ∀ l ∈ L.take m, '\n' ∉ l := fun l hl => hno l (List.mem_of_mem_take hl)
  unfold selectedLines
  simp only [hhl, linesOfText, hg, textSplitC_eq _ _ hnc]
  cases hr : o.lineRange with
  | none =>
    have hsplit : textSplit (removeSuffixNL text) false = popBlank (L.take m) := by
      rw [hrs, textSplit_removeSuffix_unlinesT _ (take_ne_nil hne hm) htake_no]
    have hLm : L.take m = L := List.take_of_length_le (hnone hr)
    have hstrip : (popBlank L).map stripCtl = popBlank L :=
      map_stripCtl_id (fun l hl => hLc l ((popBlank_prefix' L).subset hl))
    refine ⟨popBlank L, by simp [hsplit, hLm, hstrip], fun _ => popBlank_trail L, fun a b h => by cases h⟩
  | some ab =>
    obtain ⟨a, b⟩ := ab
    have hb0 : 0 ≤ b := hb a b hr
    have hsplit : textSplit (removeSuffixNL text) true = L.take m := by
      rw [hrs, textSplit_allow_unlinesT _ (take_ne_nil hne hm) htake_no]
    have hstrip : (L.take m).map stripCtl = L.take m :=
      map_stripCtl_id (fun l hl => hLc l (List.mem_of_mem_take hl))
    have hoff : lineOffset o = (a - 1).toNat := by simp [lineOffset, hr]
    have h2 : (L.take m).take b.toNat = L.take b.toNat := by
      rcases hsome a b hr with h | h
      · rw [List.take_take, Nat.min_eq_left h]
      · rw [List.take_of_length_le h]
    refine ⟨((L.take b.toNat)).drop (a - 1).toNat, ?_, (fun h => by cases h), ?_⟩
    · simp only [Option.isSome_some, Bool.not_false, Bool.and_true, hsplit, hstrip]
      rw [pySlice_nonneg _ _ _ hb0, hoff, h2]
      simp
    · intro a' b' h; cases h; rfl

/-- Master lemma, weak form (what the numbering / gutter / traceback arguments use): the selected lines are the
expected slice of `source.split("\n")` up to at most two empty lines at the very end. -/
theorem selected_trail (o : Opts) (found : Bool) (lex : List Char → List Line) (code : List Char)
    (hclean : Clean (shownCode o code))
    (hlex : found = true → (lex (expandTabs o.tabSize (shownCode o code))).flatten = pygPre false (expandTabs o.tabSize (shownCode o code)))
    (hg : (o.indentGuides && !o.asciiOnly) = false)
    (hb : ∀ a b, o.lineRange = some (a, b) → 0 ≤ b) :
    ∃ sel, selectedLines false false o found lex code = .ok sel ∧
      Trail 2 sel (expectedLines o.lineRange (splitNL (expandTabs o.tabSize (shownCode o code)))) := by
  obtain ⟨sel, hs, hnone, hsome⟩ := selected_exact o found lex code hclean hlex hg hb
  have htr := (ensureNL_srcLines (expandTabs o.tabSize (shownCode o code))).2.2.2
  refine ⟨sel, hs, ?_⟩
  cases hr : o.lineRange with
  | none => exact ((hnone hr).trans htr)
  | some ab =>
    obtain ⟨a, b⟩ := ab
    rw [hsome a b hr]
    simp only [expectedLines]
    exact (((htr.take _).drop _).mono (by omega))

end RichModel.Syntax
