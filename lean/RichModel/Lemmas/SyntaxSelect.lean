import RichModel.Lemmas.SyntaxRange
/-
Helper lemmas for property C17, part 3: from a clean source and the lexer contract to the list of
selected lines (`selectedLines`) being the expected slice of the source lines up to trailing blank lines.
-/
namespace RichModel.Syntax

/-- Sources on which the statement is read literally: no character that `Text` strips (BS, VT, FF, CR — CR is
also what Pygments turns into a newline) and no byte-order mark (Pygments removes a leading one). -/
def Clean (s : List Char) : Prop := ∀ c ∈ s, isStripCtl c = false ∧ c.toNat ≠ 0xFEFF

/-- The lines the statement asks for: all source lines, or lines `a..b` (1-based, clipped). -/
def expectedLines (range : Option (Int × Int)) (P : List Line) : List Line :=
  match range with
  | none => P
  | some (a, b) => (P.take b.toNat).drop (a - 1).toNat

/-! ### clean sources pass through the preprocessing unchanged -/

theorem mem_expandTabsFrom (ts : Nat) : ∀ (s : List Char) (col : Nat) (c : Char),
    c ∈ expandTabsFrom ts col s → c ∈ s ∨ c = ' '
  | [], _, c, h => by simp [expandTabsFrom] at h
  | d :: rest, col, c, h => by
    unfold expandTabsFrom at h
    split at h
    · split at h
      · rcases List.mem_append.mp h with h1 | h1
        · exact Or.inr (List.eq_of_mem_replicate h1)
        · rcases mem_expandTabsFrom ts rest _ c h1 with h2 | h2
          · exact Or.inl (by simp [h2])
          · exact Or.inr h2
      · rcases mem_expandTabsFrom ts rest _ c h with h2 | h2
        · exact Or.inl (by simp [h2])
        · exact Or.inr h2
    · split at h <;>
      · rcases List.mem_cons.mp h with h1 | h1
        · exact Or.inl (by simp [h1])
        · rcases mem_expandTabsFrom ts rest _ c h1 with h2 | h2
          · exact Or.inl (by simp [h2])
          · exact Or.inr h2

theorem Clean.expandTabs {s : List Char} (h : Clean s) (ts : Nat) : Clean (expandTabs ts s) := by
  intro c hc
  rcases mem_expandTabsFrom ts s 0 c hc with h1 | h1
  · exact h c h1
  · subst h1; decide

theorem crlf_cons_ne {c : Char} (h : c ≠ '\r') (rest : List Char) : crlf (c :: rest) = c :: crlf rest := by
  rw [crlf]
  · intro rest' hc _; exact h hc
  · intro hc; exact h hc

theorem crlf_clean : ∀ (s : List Char), Clean s → crlf s = s
  | [], _ => by simp [crlf]
  | c :: rest, h => by
    have hc := (h c (by simp)).1
    have hr : Clean rest := fun d hd => h d (by simp [hd])
    have ih := crlf_clean rest hr
    have hne : c ≠ '\r' := by
      intro e; subst e; revert hc; decide
    rw [crlf_cons_ne hne, ih]

theorem dropBOM_clean (s : List Char) (h : Clean s) : dropBOM s = s := by
  cases s with
  | nil => rfl
  | cons c rest =>
    have := (h c (by simp)).2
    simp [dropBOM, this]

theorem stripCtl_clean (s : List Char) (h : Clean s) : stripCtl s = s := by
  unfold stripCtl
  apply List.filter_eq_self.mpr
  intro c hc
  simp [(h c hc).1]

theorem pygPre_clean (s : List Char) (h : Clean s) : pygPre false s = ensureNL s := by
  unfold pygPre ensureNL
  simp [dropBOM_clean s h, crlf_clean s h]

/-! ### counting lines -/

theorem length_splitNL : ∀ (s : List Char), (splitNL s).length = countNL s + 1
  | [] => by simp [countNL]
  | c :: rest => by
    have ih := length_splitNL rest
    by_cases hc : c = '\n'
    · subst hc; simp [countNL] at *; omega
    · obtain ⟨l0, ls0, h0⟩ := splitNL_exists rest
      rw [splitNL_cons_ne hc rest h0]
      rw [h0] at ih
      have : countNL (c :: rest) = countNL rest := by
        simp [countNL, hc]
      rw [this]; simpa using ih

theorem countNL_expandTabsFrom (ts : Nat) : ∀ (s : List Char) (col : Nat),
    countNL (expandTabsFrom ts col s) = countNL s
  | [], _ => by simp [expandTabsFrom]
  | d :: rest, col => by
    unfold expandTabsFrom
    split
    · rename_i hd
      have hd' : d = '\t' := by simpa using hd
      subst hd'
      split
      · simp only [countNL, List.count_append, List.count_cons]
        have := countNL_expandTabsFrom ts rest (col + (ts - col % ts))
        simp only [countNL] at this
        rw [this]
        simp [List.count_replicate]
      · simp only [countNL, List.count_cons]
        have := countNL_expandTabsFrom ts rest col
        simp only [countNL] at this
        rw [this]; simp
    · split
      · simp only [countNL, List.count_cons]
        have := countNL_expandTabsFrom ts rest 0
        simp only [countNL] at this
        rw [this]
      · simp only [countNL, List.count_cons]
        have := countNL_expandTabsFrom ts rest (col + 1)
        simp only [countNL] at this
        rw [this]

theorem countNL_expandTabs (ts : Nat) (s : List Char) : countNL (expandTabs ts s) = countNL s :=
  countNL_expandTabsFrom ts s 0

/-! ### the terminated lines of a source -/

theorem ensureNL_lines (s : List Char) :
    ∃ L : List Line, L ≠ [] ∧ (∀ l ∈ L, '\n' ∉ l) ∧ ensureNL s = unlinesT L ∧ Trail 1 L (splitNL s) := by
  cases h : endsNL s with
  | true =>
    obtain ⟨s0, rfl⟩ := endsNL_iff.mp h
    refine ⟨splitNL s0, splitNL_ne_nil s0, splitNL_no_nl s0, ?_, 1, Nat.le_refl _, ?_⟩
    · unfold ensureNL; rw [if_pos h]; exact append_nl_eq_unlinesT s0
    · have := splitNL_unlinesT_append (splitNL s0) [] (splitNL_no_nl s0) (by simp)
      rw [List.append_nil, ← append_nl_eq_unlinesT s0] at this
      rw [this]; rfl
  | false =>
    refine ⟨splitNL s, splitNL_ne_nil s, splitNL_no_nl s, ?_, 0, by omega, by simp⟩
    simp [ensureNL, h, append_nl_eq_unlinesT s]

/-- What `highlight` returns on a clean source under the lexer contract: after `remove_suffix`, the first `m`
terminated lines of the source, where `m` covers the requested range (or everything). -/
theorem highlight_lines (found : Bool) (toks : List Line) (src : List Char) (range : Option (Int × Int))
    (hclean : Clean src) (hlex : found = true → toks.flatten = pygPre false src) :
    ∃ (L : List Line) (m : Nat) (text : List Char),
      L ≠ [] ∧ (∀ l ∈ L, '\n' ∉ l) ∧ Trail 1 L (splitNL src) ∧ ensureNL src = unlinesT L ∧
      highlight false found toks src range = .ok text ∧
      text <+: ensureNL src ∧
      removeSuffixNL text = removeSuffixNL (unlinesT (L.take m)) ∧ 1 ≤ m ∧
      (range = none → L.length ≤ m) ∧
      (∀ a b, range = some (a, b) → b.toNat ≤ m ∨ L.length ≤ m) := by
  obtain ⟨L, hne, hno, hen, htr⟩ := ensureNL_lines src
  have hlen : 1 ≤ L.length := by
    cases L with
    | nil => exact absurd rfl hne
    | cons _ _ => simp
  cases found with
  | false =>
    refine ⟨L, L.length, src, hne, hno, htr, hen, ?_, ?_, ?_, hlen, fun _ => Nat.le_refl _, fun _ _ _ => Or.inr (Nat.le_refl _)⟩
    · simp [highlight, stripCtl_clean src hclean]
    · unfold ensureNL; split
      · exact List.prefix_refl _
      · exact List.prefix_append _ _
    · rw [List.take_length, ← hen, removeSuffix_ensureNL]
  | true =>
    have hflat : toks.flatten = unlinesT L := by rw [hlex rfl, pygPre_clean src hclean, hen]
    cases range with
    | none =>
      refine ⟨L, L.length, toks.flatten, hne, hno, htr, hen, ?_, ?_, ?_, hlen, fun _ => Nat.le_refl _, fun _ _ h => by cases h⟩
      · simp [highlight]
      · rw [hflat, hen]; exact List.prefix_refl _
      · rw [List.take_length, hflat]
    | some ab =>
      obtain ⟨a, b⟩ := ab
      refine ⟨L, rangeEnd a b, takeThroughNL (rangeEnd a b) toks.flatten, hne, hno, htr, hen, highlight_ranged toks src a b, ?_, ?_,
        (by have := (rangeEnd_ge a b).2; omega), (fun h => by cases h), ?_⟩
      · rw [hflat, hen]; exact takeThroughNL_prefix _ _
      · rw [hflat, takeThroughNL_unlinesT L _ hno]
      · intro a' b' h
        cases h
        exact Or.inl (rangeEnd_ge a b).1

theorem take_ne_nil {L : List Line} (h : L ≠ []) {m : Nat} (hm : 1 ≤ m) : L.take m ≠ [] := by
  cases L with
  | nil => exact absurd rfl h
  | cons x xs =>
    cases m with
    | zero => omega
    | succ k => simp

/-- Master lemma: without indent guides, on a clean source and under the lexer contract, the repaired code
selects the expected lines, except that up to two empty lines at the very end may be missing. -/
theorem selected_trail (o : Opts) (found : Bool) (lex : List Char → List Line) (code : List Char)
    (hclean : Clean code)
    (hlex : found = true → (lex (expandTabs o.tabSize code)).flatten = pygPre false (expandTabs o.tabSize code))
    (hg : (o.indentGuides && !o.asciiOnly) = false)
    (hb : ∀ a b, o.lineRange = some (a, b) → 0 ≤ b) :
    ∃ sel, selectedLines false o found lex code = .ok sel ∧
      Trail 2 sel (expectedLines o.lineRange (splitNL (expandTabs o.tabSize code))) := by
  obtain ⟨L, m, text, hne, hno, htr, _, hhl, _, hrs, hm, hnone, hsome⟩ :=
    highlight_lines found (lex (expandTabs o.tabSize code)) (expandTabs o.tabSize code) o.lineRange
      (hclean.expandTabs o.tabSize) hlex
  have hsplit : textSplit (removeSuffixNL text) false = popBlank (L.take m) := by
    rw [hrs, textSplit_removeSuffix_unlinesT _ (take_ne_nil hne hm) (fun l hl => hno l (List.mem_of_mem_take hl))]
  unfold selectedLines
  simp only [hhl, hg, hsplit]
  cases hr : o.lineRange with
  | none =>
    refine ⟨popBlank (L.take m), by simp, ?_⟩
    have : L.take m = L := List.take_of_length_le (hnone hr)
    rw [this]
    exact ((popBlank_trail L).trans htr)
  | some ab =>
    obtain ⟨a, b⟩ := ab
    have hb0 : 0 ≤ b := hb a b hr
    refine ⟨pySlice (popBlank (L.take m)) (lineOffset o) b, by simp, ?_⟩
    have hoff : lineOffset o = (a - 1).toNat := by simp [lineOffset, hr]
    rw [pySlice_nonneg _ _ _ hb0, hoff]
    simp only [expectedLines]
    apply Trail.drop
    have h1 : Trail 1 ((popBlank (L.take m)).take b.toNat) ((L.take m).take b.toNat) := (popBlank_trail _).take _
    have h2 : (L.take m).take b.toNat = L.take b.toNat := by
      rcases hsome a b hr with h | h
      · rw [List.take_take, Nat.min_eq_left h]
      · rw [List.take_of_length_le h]
    rw [h2] at h1
    exact h1.trans (htr.take _)

end RichModel.Syntax
