import RichModel.Lemmas.AnsiRound
/-!
The round trip for one segment and for a line of segments (property C19).
-/
namespace RichModel
namespace Ansi
open AsciiStr Style

def linkOk (l : List Char) : Bool := l.all fun c => c != ESC && c != '\n' && c != '\r'
def idOk (l : List Char) : Bool := l.all fun c => c != ESC && c != '\n' && c != '\r' && c != ';'
def noBel (l : List Char) : Bool := l.all fun c => c != BEL

/-- The hypothesis of the round trip on one segment (`noEsc`): no escape character and no stripped
control code in the text, no escape / line break in the link and its id, colours in the form the
public constructors build, a style that kept the constructors' invariant. -/
structure SegOk (g : Seg) : Prop where
  text : textOk g.text = true
  id : idOk g.linkId = true
  style : ∀ s, g.style = some s → Inv s ∧ canonStyle s = true ∧ linkOk (s.link.getD []) = true
  /-- no BEL in the link and its id (BEL ends an OSC string in the repaired tokenizer) -/
  bel : noBel g.linkId = true ∧ ∀ s, g.style = some s → noBel (s.link.getD []) = true

/-! ### observations -/

theorem attr_on_eq (s : Style) (i : Nat) :
    (s.attr i == some true) = (s.attributes &&& s.setAttributes).testBit i := by
  simp only [Style.attr, Nat.testBit_and]
  cases s.setAttributes.testBit i <;> cases s.attributes.testBit i <;> rfl

theorem obsOf_eq_of_tracks {s st' : Style} (hcan : canonStyle s = true)
    (ha : ∀ j, st'.attr j = if (s.attributes &&& s.setAttributes).testBit j then some true else none)
    (hc : st'.color = s.color.map decColor) (hg : st'.bgcolor = s.bgcolor.map decColor)
    (hl : linkVal st'.link = linkVal s.link) : obsOf st' = obsOf s := by
  simp only [canonStyle, Bool.and_eq_true] at hcan
  simp only [obsOf, Obs.mk.injEq]
  refine ⟨?_, ?_, ?_, hl⟩
  · apply List.map_congr_left
    intro i _
    rw [attr_on_eq s i, ha i]
    cases (s.attributes &&& s.setAttributes).testBit i <;> rfl
  · rw [hc]
    cases h : s.color with
    | none => rfl
    | some c => simp only [h] at hcan; simp [colorKey_decColor hcan.1]
  · rw [hg]
    cases h : s.bgcolor with
    | none => rfl
    | some c => simp only [h] at hcan; simp [colorKey_decColor hcan.2]

theorem obsOf_null_of_inv {s : Style} (hs : Inv s) (hn : s.isNull = true) : obsOf s = obs0 := by
  obtain ⟨h1, h2, h3, _, h5⟩ := hs.null_empty hn
  exact (Blank.obs ⟨hs, h1, h2, h3, h5⟩)

theorem obsOf_plain_of_empty {s : Style} (hA : s.attributes &&& s.setAttributes = 0) (hc : s.color = none)
    (hg : s.bgcolor = none) (hl : strTruthy s.link = false) : obsOf s = obs0 := by
  simp only [obsOf, obs0, hc, hg, Option.map_none, linkVal, hl, Bool.false_eq_true, if_false, Obs.mk.injEq, and_true]
  have : ∀ i, (s.attr i == some true) = false := by
    intro i; rw [attr_on_eq, hA, Nat.zero_testBit]
  simp only [this]
  decide

/-! ### fixed pieces -/

theorem sgrReset_eq : sgrReset = sgrOpen ['0'] := rfl

/-- the style after SGR 0 has nothing set but, in the repaired variant, the hyperlink -/
theorem resetOf_facts (cfg : Cfg) (st : Style) :
    Inv (resetOf cfg st) ∧ (resetOf cfg st).color = none ∧ (resetOf cfg st).bgcolor = none ∧
      (resetOf cfg st).setAttributes = 0 := by
  unfold resetOf
  split
  · exact ⟨inv_null, rfl, rfl, rfl⟩
  · split
    · exact ⟨⟨by simp [linkOnly], by simp [linkOnly], by intro h; cases h⟩, rfl, rfl, rfl⟩
    · exact ⟨inv_null, rfl, rfl, rfl⟩

theorem resetOf_nolink (cfg : Cfg) {st : Style} (h : strTruthy st.link = false) : resetOf cfg st = Style.null := by
  unfold resetOf
  split
  · rfl
  · simp [h]

theorem strTruthy_of_linkVal_none {l : Option (List Char)} (h : linkVal l = none) : strTruthy l = false := by
  unfold linkVal at h
  split at h
  · rename_i ht
    cases l with
    | none => simp [strTruthy] at ht
    | some x => cases h
  · rename_i ht; simpa using ht

theorem R_reset (cfg : Cfg) (st : Style) (rest acc : List Char) :
    R cfg st (sgrReset ++ rest) acc = push (flushRuns st acc) (R cfg (resetOf cfg st) rest []) := by
  rw [sgrReset_eq]
  apply R_sgr cfg st (resetOf cfg st) ['0'] rest acc [0]
  · intro c hc; simp at hc; subst hc; decide
  · simp
  · have h := sgrCodes_plist cfg [(natStr 0, 0)] (by intro p hp; simp at hp; subst hp; exact natStr_paramOk (n := 0) (by decide)) (by simp)
    simpa [joinWith, natStr] using h
  · simp [applyCodes]

theorem blank_updateLink_none (v : StyleVariant) {st : Style} (hi : Inv st) (hc : st.color = none) (hg : st.bgcolor = none)
    (hs : st.setAttributes = 0) : Blank (updateLink v st none) :=
  ⟨inv_updateLink v hi none, hc, hg, hs, by
    show strTruthy (storedLink v none) = false
    unfold storedLink; split <;> rfl⟩

theorem R_oscClose (cfg : Cfg) (st : Style) (rest acc : List Char) :
    R cfg st (oscClose ++ rest) acc = push (flushRuns st acc) (R cfg (updateLink cfg.sv st none) rest []) := by
  have := R_osc8 cfg st [] [] rest acc (by simp) (by simp)
  simpa [oscClose, linkOrNone] using this

theorem R_oscOpen (cfg : Cfg) (st : Style) (id link rest acc : List Char) (hid : idOk id = true)
    (hl : linkOk link = true) (hne : link ≠ []) (hidb : noBel id = true) (hlb : noBel link = true) :
    R cfg st (oscOpen id link ++ rest) acc =
      push (flushRuns st acc) (R cfg (updateLink cfg.sv st (some link)) rest []) := by
  have hidb' : ∀ c ∈ id, c ≠ BEL := by
    simpa [noBel] using hidb
  have hlb' : ∀ c ∈ link, c ≠ BEL := by
    simpa [noBel] using hlb
  have hp : ∀ c ∈ ['i', 'd', '='] ++ id, c ≠ ESC ∧ c ≠ '\n' ∧ c ≠ ';' ∧ c ≠ BEL := by
    intro c hc
    simp only [List.mem_append, List.mem_cons, List.not_mem_nil, or_false] at hc
    rcases hc with (rfl | rfl | rfl) | hc
    · decide
    · decide
    · decide
    · simp only [idOk, List.all_eq_true, Bool.and_eq_true, bne_iff_ne, ne_eq] at hid
      exact ⟨(hid c hc).1.1.1, (hid c hc).1.1.2, (hid c hc).2, hidb' c hc⟩
  have hl' : ∀ c ∈ link, c ≠ ESC ∧ c ≠ '\n' ∧ c ≠ BEL := by
    intro c hc
    simp only [linkOk, List.all_eq_true, Bool.and_eq_true, bne_iff_ne, ne_eq] at hl
    exact ⟨(hl c hc).1.1, (hl c hc).1.2, hlb' c hc⟩
  have := R_osc8 cfg st (['i', 'd', '='] ++ id) link rest acc hp hl'
  have hlo : linkOrNone link = some link := by
    cases link with
    | nil => exact absurd rfl hne
    | cons _ _ => rfl
  rw [hlo] at this
  simpa [oscOpen] using this

theorem flushRuns_nil (st : Style) : flushRuns st [] = [] := by simp [flushRuns]

/-! ### no carriage return in what the encoder writes -/

theorem noCR_append {a b : List Char} (ha : ∀ c ∈ a, c ≠ '\r') (hb : ∀ c ∈ b, c ≠ '\r') : ∀ c ∈ a ++ b, c ≠ '\r' := by
  intro c hc
  rcases List.mem_append.mp hc with h | h
  · exact ha c h
  · exact hb c h

theorem noCR_oscClose : ∀ c ∈ oscClose, c ≠ '\r' := by decide
theorem noCR_sgrReset : ∀ c ∈ sgrReset, c ≠ '\r' := by decide

theorem noCR_sgrOpen {body : List Char} (h : ∀ c ∈ body, c ≠ '\r') : ∀ c ∈ sgrOpen body, c ≠ '\r' := by
  have h1 : ∀ c ∈ [ESC, '['], c ≠ '\r' := by decide
  have h2 : ∀ c ∈ ['m'], c ≠ '\r' := by decide
  have := noCR_append h1 (noCR_append h h2)
  simpa [sgrOpen] using this

theorem noCR_oscOpen {id link : List Char} (hi : ∀ c ∈ id, c ≠ '\r') (hl : ∀ c ∈ link, c ≠ '\r') :
    ∀ c ∈ oscOpen id link, c ≠ '\r' := by
  have h1 : ∀ c ∈ [ESC, ']', '8', ';', 'i', 'd', '='], c ≠ '\r' := by decide
  have h2 : ∀ c ∈ [';'], c ≠ '\r' := by decide
  have h3 : ∀ c ∈ [ESC, '\\'], c ≠ '\r' := by decide
  have := noCR_append h1 (noCR_append hi (noCR_append h2 (noCR_append hl h3)))
  simpa [oscOpen] using this

/-! ### one segment -/

/-- Reading what `_render_buffer` wrote for one segment, whatever follows: the decoder goes from a blank
state to a blank state, and the characters of the segment come out with the segment's observable style. -/
theorem seg_roundtrip (cfg : Cfg) (g : Seg) (hg : SegOk g) (st : Style) (hst : Blank st) (acc : List Char)
    (hacc : textOk acc = true) :
    ∃ x, encodeSeg false g = .ok x ∧ (∀ c ∈ x, c ≠ '\r') ∧
      ∃ st1 acc1 pre, Blank st1 ∧ textOk acc1 = true ∧
        charsOf pre ++ acc1.map (·, obs0) = acc.map (·, obs0) ++ g.text.map (·, obsOpt g.style) ∧
        ∀ rest, R cfg st (x ++ rest) acc = push pre (R cfg st1 rest acc1) := by
  -- the segment is written as its bare text
  have plain : obsOpt g.style = obs0 ∨ g.text = [] → encodeSeg false g = .ok g.text →
      ∃ x, encodeSeg false g = .ok x ∧ (∀ c ∈ x, c ≠ '\r') ∧
      ∃ st1 acc1 pre, Blank st1 ∧ textOk acc1 = true ∧
        charsOf pre ++ acc1.map (·, obs0) = acc.map (·, obs0) ++ g.text.map (·, obsOpt g.style) ∧
        ∀ rest, R cfg st (x ++ rest) acc = push pre (R cfg st1 rest acc1) := by
    intro hobs henc
    refine ⟨g.text, henc, textOk_noCR hg.text, st, acc ++ g.text, [], hst, textOk_append hacc hg.text, ?_, ?_⟩
    · rcases hobs with h | h
      · simp [charsOf, h]
      · simp [charsOf, h]
    · intro rest
      rw [R_text cfg st g.text rest acc (textOk_noEsc hg.text), push_nil]
  have hcases : g.style = none ∨ ∃ s, g.style = some s := by cases g.style <;> simp
  rcases hcases with hsty | ⟨s, hsty⟩
  · exact plain (Or.inl (by simp [hsty, obsOpt])) (by simp [encodeSeg, hsty])
  · obtain ⟨hinv, hcan, hlink⟩ := hg.style s hsty
    by_cases hbf : s.toBool = false
    · have hn : s.isNull = true := by simpa [Style.toBool] using hbf
      exact plain (Or.inl (by simp [hsty, obsOpt, obsOf_null_of_inv hinv hn])) (by simp [encodeSeg, hsty, hbf])
    have hb : s.toBool = true := by simpa using hbf
    by_cases ht : g.text = []
    · exact plain (Or.inr ht) (by simp [encodeSeg, hsty, hb, renderSeg, ht])
    have htE : g.text.isEmpty = false := by cases h : g.text <;> simp [h] at ht ⊢
    obtain ⟨ps, hm, hpl, hpnil, hdec⟩ := makeAnsiCodes_spec cfg s hinv hcan
    have hjoin : (joinWith ';' (ps.map (·.1))).isEmpty = true ↔ ps = [] := by
      constructor
      · intro h
        have := joinWith_eq_nil (List.isEmpty_iff.mp h) (plist_nonempty ps hpl)
        simpa using this
      · intro h; subst h; rfl
    have hbodyCR : ∀ c ∈ joinWith ';' (ps.map (·.1)), c ≠ '\r' := by
      intro c hc
      rcases mem_joinWith hc with rfl | ⟨w, hw, hcw⟩
      · decide
      · simp only [List.mem_map] at hw
        obtain ⟨p, hp, rfl⟩ := hw
        exact ((paramOk_unpack (hpl p hp)).2.1 c hcw).2.2.2.2
    by_cases hlk : strTruthy s.link = true
    · -- a link: OSC 8 open … OSC 8 close
      obtain ⟨link, hlinkeq, hlne⟩ : ∃ l, s.link = some l ∧ l ≠ [] := by
        cases h : s.link with
        | none => simp [h, strTruthy] at hlk
        | some l =>
          cases l with
          | nil => simp [h, strTruthy] at hlk
          | cons a b => exact ⟨a :: b, rfl, by simp⟩
      have hlinkOk : linkOk link = true := by simpa [hlinkeq] using hlink
      have hlinkBel : noBel link = true := by simpa [hlinkeq] using hg.bel.2 s hsty
      have hlk' : strTruthy (some link) = true := by rw [← hlinkeq]; exact hlk
      have hlinkCR : ∀ c ∈ link, c ≠ '\r' := by
        intro c hc
        simp only [linkOk, List.all_eq_true, Bool.and_eq_true, bne_iff_ne, ne_eq] at hlinkOk
        exact (hlinkOk c hc).2
      have hidCR : ∀ c ∈ g.linkId, c ≠ '\r' := by
        intro c hc
        have := hg.id
        simp only [idOk, List.all_eq_true, Bool.and_eq_true, bne_iff_ne, ne_eq] at this
        exact (this c hc).1.2
      let sa := updateLink cfg.sv st (some link)
      have hsalink : sa.link = some link := by
        show storedLink cfg.sv (some link) = some link
        cases link with
        | nil => exact absurd rfl hlne
        | cons a b => rfl
      have hsaInv : Inv sa := inv_updateLink cfg.sv hst.inv _
      have hsaNN : sa.isNull = false := rfl
      by_cases hps : ps = []
      · -- no SGR parameters: OSC open, text, OSC close
        obtain ⟨hA, hc0, hg0⟩ := hpnil hps
        have hattrs : makeAnsiCodes s = .ok [] := by rw [hm, hps]; rfl
        refine ⟨oscOpen g.linkId link ++ g.text ++ oscClose, ?_, ?_, updateLink cfg.sv sa none, [],
          flushRuns st acc ++ flushRuns sa g.text, ?_, rfl, ?_, ?_⟩
        · simp [encodeSeg, hsty, hb, renderSeg, htE, hattrs, hlk', hlinkeq]
        · exact noCR_append (noCR_append (noCR_oscOpen hidCR hlinkCR) (textOk_noCR hg.text)) noCR_oscClose
        · exact blank_updateLink_none cfg.sv hsaInv hst.color hst.bgcolor hst.set0
        · rw [charsOf_append, charsOf_flushRuns st acc hacc, charsOf_flushRuns sa g.text hg.text,
            obsOpt_orNone_blank hst]
          have : obsOpt (orNone sa) = obsOpt (some s) := by
            have h1 : orNone sa = some sa := by simp [orNone, Style.toBool, hsaNN]
            rw [h1]
            show obsOf sa = obsOf s
            apply obsOf_eq_of_tracks hcan
            · intro j
              have : sa.attr j = st.attr j := rfl
              rw [this, hst.attr j, hA, Nat.zero_testBit]; rfl
            · show st.color = _; rw [hst.color, hc0]; rfl
            · show st.bgcolor = _; rw [hst.bgcolor, hg0]; rfl
            · rw [hsalink, hlinkeq]
          simp [this, hsty]
        · intro rest
          have e1 := R_oscOpen cfg st g.linkId link (g.text ++ oscClose ++ rest) acc hg.id hlinkOk hlne hg.bel.1 hlinkBel
          have e2 := R_text cfg sa g.text (oscClose ++ rest) [] (textOk_noEsc hg.text)
          have e3 := R_oscClose cfg sa rest ([] ++ g.text)
          simp only [List.append_assoc, List.nil_append] at e1 e2 e3 ⊢
          rw [e1, e2, e3, push_push]
      · -- SGR parameters inside the link
        obtain ⟨st', happ, hi', ha', hc', hg', hl', _, hnn', _⟩ := hdec sa hsaInv hst.color hst.bgcolor
          (fun j => by show st.attr j = none; exact hst.attr j)
        have hne : joinWith ';' (ps.map (·.1)) ≠ [] := by
          intro h; exact hps (hjoin.mp (by simp [h]))
        have hneE : (joinWith ';' (ps.map (·.1))).isEmpty = false := by
          cases h : joinWith ';' (ps.map (·.1)) <;> simp [h] at hne ⊢
        refine ⟨oscOpen g.linkId link ++ (sgrOpen (joinWith ';' (ps.map (·.1))) ++ g.text ++ sgrReset) ++ oscClose, ?_, ?_,
          updateLink cfg.sv (resetOf cfg st') none, [], flushRuns st acc ++ flushRuns st' g.text, ?_, rfl, ?_, ?_⟩
        · simp [encodeSeg, hsty, hb, renderSeg, htE, hm, hneE, hlk', hlinkeq]
        · exact noCR_append (noCR_append (noCR_oscOpen hidCR hlinkCR)
            (noCR_append (noCR_append (noCR_sgrOpen hbodyCR) (textOk_noCR hg.text)) noCR_sgrReset)) noCR_oscClose
        · obtain ⟨r1, r2, r3, r4⟩ := resetOf_facts cfg st'
          exact blank_updateLink_none cfg.sv r1 r2 r3 r4
        · rw [charsOf_append, charsOf_flushRuns st acc hacc, charsOf_flushRuns st' g.text hg.text,
            obsOpt_orNone_blank hst]
          have : obsOpt (orNone st') = obsOpt (some s) := by
            have h1 : orNone st' = some st' := by simp [orNone, Style.toBool, hnn' hps]
            rw [h1]
            show obsOf st' = obsOf s
            apply obsOf_eq_of_tracks hcan ha' hc' hg'
            rw [hl', hsalink, hlinkeq]
          simp [this, hsty]
        · intro rest
          have e1 := R_oscOpen cfg st g.linkId link
            (sgrOpen (joinWith ';' (ps.map (·.1))) ++ g.text ++ sgrReset ++ oscClose ++ rest) acc hg.id hlinkOk hlne hg.bel.1 hlinkBel
          have e2 := R_sgr cfg sa st' (joinWith ';' (ps.map (·.1))) (g.text ++ sgrReset ++ oscClose ++ rest) []
            (ps.map (·.2)) (plist_body_ok ps hpl) hne (sgrCodes_plist cfg ps hpl hps) happ
          have e3 := R_text cfg st' g.text (sgrReset ++ oscClose ++ rest) [] (textOk_noEsc hg.text)
          have e4 := R_reset cfg st' (oscClose ++ rest) ([] ++ g.text)
          have e5 := R_oscClose cfg (resetOf cfg st') rest []
          simp only [List.append_assoc, List.nil_append] at e1 e2 e3 e4 e5 ⊢
          rw [e1, e2, e3, e4, e5]
          simp [push_push, flushRuns_nil]
    · -- no link
      have hlkF : strTruthy s.link = false := by simpa using hlk
      by_cases hps : ps = []
      · obtain ⟨hA, hc0, hg0⟩ := hpnil hps
        have hattrs : makeAnsiCodes s = .ok [] := by rw [hm, hps]; rfl
        exact plain (Or.inl (by simp [hsty, obsOpt, obsOf_plain_of_empty hA hc0 hg0 hlkF]))
          (by simp [encodeSeg, hsty, hb, renderSeg, htE, hattrs, hlkF])
      · obtain ⟨st', happ, hi', ha', hc', hg', hl', _, hnn', _⟩ := hdec st hst.inv hst.color hst.bgcolor hst.attr
        have hne : joinWith ';' (ps.map (·.1)) ≠ [] := by
          intro h; exact hps (hjoin.mp (by simp [h]))
        have hneE : (joinWith ';' (ps.map (·.1))).isEmpty = false := by
          cases h : joinWith ';' (ps.map (·.1)) <;> simp [h] at hne ⊢
        refine ⟨sgrOpen (joinWith ';' (ps.map (·.1))) ++ g.text ++ sgrReset, ?_, ?_,
          resetOf cfg st', [], flushRuns st acc ++ flushRuns st' g.text, ?_, rfl, ?_, ?_⟩
        · simp [encodeSeg, hsty, hb, renderSeg, htE, hm, hneE, hlkF]
        · exact noCR_append (noCR_append (noCR_sgrOpen hbodyCR) (textOk_noCR hg.text)) noCR_sgrReset
        · have hl0 : strTruthy st'.link = false := by
            apply strTruthy_of_linkVal_none
            rw [hl']; simp [linkVal, hst.link]
          rw [resetOf_nolink cfg hl0]; exact blank_null
        · rw [charsOf_append, charsOf_flushRuns st acc hacc, charsOf_flushRuns st' g.text hg.text,
            obsOpt_orNone_blank hst]
          have : obsOpt (orNone st') = obsOpt (some s) := by
            have h1 : orNone st' = some st' := by simp [orNone, Style.toBool, hnn' hps]
            rw [h1]
            show obsOf st' = obsOf s
            apply obsOf_eq_of_tracks hcan ha' hc' hg'
            rw [hl']
            simp [linkVal, hst.link, hlkF]
          simp [this, hsty]
        · intro rest
          have e2 := R_sgr cfg st st' (joinWith ';' (ps.map (·.1))) (g.text ++ sgrReset ++ rest) acc
            (ps.map (·.2)) (plist_body_ok ps hpl) hne (sgrCodes_plist cfg ps hpl hps) happ
          have e3 := R_text cfg st' g.text (sgrReset ++ rest) [] (textOk_noEsc hg.text)
          have e4 := R_reset cfg st' rest ([] ++ g.text)
          simp only [List.append_assoc, List.nil_append] at e2 e3 e4 ⊢
          rw [e2, e3, e4, push_push]

end Ansi
end RichModel
