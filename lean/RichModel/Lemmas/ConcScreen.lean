import RichModel.Model.Conc
import RichModel.Lemmas.Live
/-!
The screen after a sequence of display writes that all erase and redraw `h` rows (`Model/Conc.lean`):
replaying them in file order leaves the printed lines (in file order) followed by the frame of the last
write.  Built on `run_hooked` (Lemmas/Live.lean, property C10): one write
`position_cursor ++ user lines ++ frame` maps a screen showing a frame of the erased height to a screen
showing the new frame.
-/
set_option linter.unusedSimpArgs false
namespace RichModel.Conc
open RichModel RichModel.Screen
open RichModel.Live (Line Frame Shown ShapeOk region run_hooked region_length positionCursor emitLines emitFrame)

/-- The user lines a write carries. -/
def printedW (w : Write) : List Line :=
  w.items.flatMap (fun x => match x.body with | .user ls => ls | _ => [])

/-- The frame a write draws (the last one, if any). -/
def frameW (w : Write) : Option Frame :=
  w.items.foldl (fun acc x => match x.body with | .frame f => some f | _ => acc) none

def printedOf (ws : List Write) : List Line := ws.flatMap printedW

def lastFrameOf (F0 : Frame) (ws : List Write) : Frame := ws.foldl (fun F w => (frameW w).getD F) F0

def writesOps (ws : List Write) : List TermOp := ws.flatMap (fun w => itemsOps w.items)

/-- A write of a hooked print / refresh whose erase height and frame height are both `h`. -/
def GoodWrite (h : Nat) (w : Write) : Prop :=
  ∃ (x1 x2 x3 : Item) (wd : Nat) (U : List Line) (F : Frame),
    w.items = [x1, x2, x3] ∧ x1.body = .pos (some (wd, h)) ∧
    (x2.body = .user U ∨ (U = [] ∧ ∃ c, x2.body = .ctl [] c)) ∧ x3.body = .frame F ∧ F.length = h

theorem goodWrite_ops {h : Nat} {w : Write} (g : GoodWrite h w) :
    ∃ wd F, itemsOps w.items = positionCursor (some (wd, h)) ++ emitLines (printedW w) ++ emitFrame F ∧
      frameW w = some F ∧ F.length = h := by
  obtain ⟨x1, x2, x3, wd, U, F, hi, h1, h2, h3, hF⟩ := g
  refine ⟨wd, F, ?_, ?_, hF⟩
  · rcases h2 with h2 | ⟨rfl, c, h2⟩
    · simp [itemsOps, printedW, hi, h1, h2, h3, Body.ops]
    · simp [itemsOps, printedW, hi, h1, h2, h3, Body.ops, emitLines]
  · rcases h2 with h2 | ⟨rfl, c, h2⟩ <;> simp [frameW, hi, h1, h2, h3]

/-- **Screen of a sequence of constant-height display writes.** -/
theorem screen_of_writes {H h : Nat} (hH : 1 ≤ H) (hh : h ≤ H) :
    ∀ (ws : List Write) (s : Screen) (P : List Line) (F : Frame) (k : Nat),
      (∀ w ∈ ws, GoodWrite h w) → Shown s P F k → F.length = h → (region F).length + k ≤ H →
      ∃ k', Shown (replay H s (writesOps ws)) (P ++ printedOf ws) (lastFrameOf F ws) k' ∧
        (lastFrameOf F ws).length = h ∧ (region (lastFrameOf F ws)).length + k' ≤ H := by
  intro ws
  induction ws with
  | nil =>
    intro s P F k _ hs hF hfit
    exact ⟨k, by simpa [writesOps, printedOf, lastFrameOf, replay] using hs, by simpa [lastFrameOf] using hF,
      by simpa [lastFrameOf] using hfit⟩
  | cons w rest ih =>
    intro s P F k hg hs hF hfit
    obtain ⟨wd, F', hops, hfw, hF'⟩ := goodWrite_ops (hg w (List.mem_cons_self))
    obtain ⟨s', k', hrun, hshown, hfit', _⟩ :=
      run_hooked (H := H) (shape := some (wd, h)) hs (by simp [ShapeOk, hF]) hfit (printedW w) F'
    have hfit'' : (region F').length + k' ≤ H := by
      have := region_length F'
      omega
    obtain ⟨k'', h1, h2, h3⟩ := ih s' (P ++ printedW w) F' k' (fun w' hw' => hg w' (List.mem_cons_of_mem _ hw')) hshown hF' hfit''
    refine ⟨k'', ?_, ?_, ?_⟩
    · have e1 : replay H s (writesOps (w :: rest)) = replay H s' (writesOps rest) := by
        simp only [writesOps, List.flatMap_cons, hops]
        rw [replay_append, hrun.1]
      have e2 : lastFrameOf F (w :: rest) = lastFrameOf F' rest := by
        simp [lastFrameOf, hfw]
      rw [e1, e2]
      simpa [printedOf, List.append_assoc] using h1
    · have e2 : lastFrameOf F (w :: rest) = lastFrameOf F' rest := by simp [lastFrameOf, hfw]
      rw [e2]; exact h2
    · have e2 : lastFrameOf F (w :: rest) = lastFrameOf F' rest := by simp [lastFrameOf, hfw]
      rw [e2]; exact h3

end RichModel.Conc
