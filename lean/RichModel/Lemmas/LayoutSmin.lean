import RichModel.Lemmas.LayoutBase
import RichModel.Lemmas.LayoutMeasure
/-!
Small facts about the structural minimum and about the lists of child oracles the recursive functions build.
-/
namespace RichModel.Layout
open RichModel RichModel.Frames

theorem charRoom_pos (cw : Char → Nat) (s : List Char) : 1 ≤ charRoom cw s := by
  unfold charRoom; split <;> omega

mutual
theorem smin_pos (cw : Char → Nat) : ∀ r : R, 1 ≤ smin cw r
  | .text t => by rw [smin]; exact charRoom_pos cw _
  | .str t => by rw [smin]; exact charRoom_pos cw _
  | .padding p e c => by rw [smin]; have := smin_pos cw c; omega
  | .panel o c => by rw [smin]; split <;> omega
  | .align o c => by rw [smin]; exact smin_pos cw c
  | .constrain k c => by rw [smin]; exact smin_pos cw c
  | .styled c => by rw [smin]; exact smin_pos cw c
  | .cast c => by rw [smin]; exact smin_pos cw c
  | .opaque c => by rw [smin]; exact smin_pos cw c
  | .group fit items => by rw [smin]; omega
  | .rule o => by rw [smin]; omega
  | .bar o => by rw [smin]; omega
  | .progressBar o => by rw [smin]; omega
  | .table o cols => by rw [smin]; omega
  | .columns o items => by rw [smin]; omega
  | .tree root => by rw [smin]; exact sminNode_pos cw 0 root
theorem sminNode_pos (cw : Char → Nat) (d : Nat) : ∀ n : TNode, 1 ≤ sminNode cw d n
  | .mk label gs e ch => by rw [sminNode]; have := smin_pos cw label; omega
end

theorem sminMax_mem (cw : Char → Nat) : ∀ (rs : List R) (r : R), r ∈ rs → smin cw r ≤ sminMax cw rs
  | [], _, h => by cases h
  | x :: xs, r, h => by
    rw [sminMax]
    rcases List.mem_cons.mp h with rfl | h
    · omega
    · have := sminMax_mem cw xs r h; omega

theorem sminSum_ge_length (cw : Char → Nat) : ∀ rs : List R, rs.length ≤ sminSum cw rs
  | [] => by simp [sminSum]
  | x :: xs => by rw [sminSum]; have := sminSum_ge_length cw xs; simp only [List.length_cons]; omega

theorem sminCol_pos (cw : Char → Nat) (o : TableOpts) : ∀ c : Col, 1 ≤ sminCol cw o c
  | .mk co h f cells => by rw [sminCol]; omega

theorem sminCols_ge_length (cw : Char → Nat) (o : TableOpts) : ∀ cs : List Col, cs.length ≤ sminCols cw o cs
  | [] => by simp [sminCols]
  | c :: cs => by
    rw [sminCols]; have := sminCols_ge_length cw o cs; have := sminCol_pos cw o c
    simp only [List.length_cons]; omega

/-! ### the oracle lists -/

theorem chsR_length (cfg : Cfg) : ∀ (rs : List R) (o : Opts), (chsR cfg rs o).length = rs.length
  | [], _ => by simp [chsR]
  | r :: rs, o => by rw [chsR]; simp [chsR_length cfg rs o]

theorem chsR_mem (cfg : Cfg) : ∀ (rs : List R) (o : Opts) (ch : Ch), ch ∈ chsR cfg rs o → ∃ r, ch = chOf cfg r o
  | [], _, _, h => by simp [chsR] at h
  | r :: rs, o, ch, h => by
    rw [chsR] at h
    rcases List.mem_cons.mp h with rfl | h
    · exact ⟨r, rfl⟩
    · exact chsR_mem cfg rs o ch h

theorem chOf_measure_normal (cfg : Cfg) (r : R) (o : Opts) (k : Nat) :
    0 ≤ ((chOf cfg r o).measure k).maximum ∧ ((chOf cfg r o).measure k).maximum ≤ (k : Int) := by
  have h := measure_normal cfg r k
  obtain ⟨h1, h2, h3⟩ := h
  unfold chOf
  simp only
  constructor <;> omega

theorem colsR_length (cfg : Cfg) : ∀ cs : List Col, (colsR cfg cs).length = cs.length
  | [] => by simp [colsR]
  | c :: cs => by rw [colsR]; simp [colsR_length cfg cs]

theorem colsR_mem (cfg : Cfg) : ∀ (cs : List Col) (c' : ColS), c' ∈ colsR cfg cs → ∃ c ∈ cs, c' = colR cfg c
  | [], _, h => by simp [colsR] at h
  | c :: cs, c', h => by
    rw [colsR] at h
    rcases List.mem_cons.mp h with rfl | h
    · exact ⟨c, by simp, rfl⟩
    · obtain ⟨x, hx, rfl⟩ := colsR_mem cfg cs c' h
      exact ⟨x, by simp [hx], rfl⟩

theorem colR_o (cfg : Cfg) : ∀ c : Col, (colR cfg c).o = colOptsOf c
  | .mk co h f cells => by rw [colR]; rfl

theorem colR_cells (cfg : Cfg) : ∀ (c : Col) (ch : Ch), ch ∈ (colR cfg c).header :: (colR cfg c).footer :: (colR cfg c).cells →
    ∃ r o, ch = chOf cfg r o
  | .mk co h f cells, ch, hm => by
    rw [colR] at hm
    simp only [List.mem_cons] at hm
    rcases hm with rfl | rfl | hm
    · exact ⟨h, _, rfl⟩
    · exact ⟨f, _, rfl⟩
    · obtain ⟨r, rfl⟩ := chsR_mem cfg cells _ ch hm
      exact ⟨r, _, rfl⟩

end RichModel.Layout
