import RichModel.Lemmas.StyleSpell
/-!
`#rrggbb` and `rgb(r,g,b)`: the colour each denotes is well-formed (so its text parses to exactly that
colour, alone and after `on`) — for all six-digit lower-case hex strings and all r, g, b ≤ 255.
Table-level side conditions (`decide +kernel`): no `ANSI_COLOR_NAMES` entry starts with `#` or contains
`(`; the decimal digits of 0..255 are digits that `int()` reads back.
-/
namespace RichModel
open AsciiStr
namespace Style


theorem hexLower_facts {c : Char} (h : isHexLower c = true) : isSpace c = false ∧ lowerChar c = c := by
  simp only [isHexLower, isDigit, Bool.or_eq_true, Bool.and_eq_true, decide_eq_true_eq] at h
  constructor
  · simp only [isSpace, Bool.or_eq_false_iff, Bool.and_eq_false_iff, decide_eq_false_iff_not]
    omega
  · have : ¬ (65 ≤ c.toNat ∧ c.toNat ≤ 90) := by omega
    simp [lowerChar, this]

theorem no_hash_names_tbl : Gen.ansiColorNames.all (fun p => p.1.head? != some '#') = true := by
  decide +kernel

/-- The colour `#abcdef` denotes. -/
def hexColor (a b c d e f : Char) : Color :=
  { name := ['#', a, b, c, d, e, f], type := .truecolor,
    triplet := some ⟨16 * hexVal a + hexVal b, 16 * hexVal c + hexVal d, 16 * hexVal e + hexVal f⟩ }

theorem hex_color_wf (v : StyleVariant) (a b c d e f : Char)
    (h : [a, b, c, d, e, f].all isHexLower = true) : wfColor v (hexColor a b c d e f) = true := by
  simp only [List.all_cons, List.all_nil, Bool.and_true, Bool.and_eq_true] at h
  obtain ⟨ha, hb, hc, hd, he, hf⟩ := h
  have hns : ∀ ch ∈ ['#', a, b, c, d, e, f], isSpace ch = false := by
    intro ch hch
    simp only [List.mem_cons, List.not_mem_nil, or_false] at hch
    rcases hch with rfl | rfl | rfl | rfl | rfl | rfl | rfl
    · decide
    all_goals exact (hexLower_facts ‹_›).1
  have hlow : lower ['#', a, b, c, d, e, f] = ['#', a, b, c, d, e, f] := by
    simp only [lower, List.map_cons, List.map_nil, (hexLower_facts ha).2, (hexLower_facts hb).2,
      (hexLower_facts hc).2, (hexLower_facts hd).2, (hexLower_facts he).2, (hexLower_facts hf).2]
    rfl
  rw [wfColor_iff]
  refine ⟨hns, ?_⟩
  show Color.parseNorm v (strip (lower ['#', a, b, c, d, e, f])) = .ok (hexColor a b c d e f)
  rw [hlow, strip_noSpace hns]
  have h1 : (['#', a, b, c, d, e, f] == cl! "default") = false := by
    simp
  have h2 : ansiColorNumber ['#', a, b, c, d, e, f] = none := by
    unfold ansiColorNumber
    simp only [Option.map_eq_none_iff, List.find?_eq_none]
    intro p hp hpe
    have := List.all_eq_true.mp no_hash_names_tbl p hp
    simp only [beq_iff_eq] at hpe
    rw [hpe] at this
    simp at this
  have h3 : matchReColor ['#', a, b, c, d, e, f] = some (.hex [a, b, c, d, e, f]) := by
    simp [matchReColor, ha, hb, hc, hd, he, hf]
  unfold Color.parseNorm
  simp only [h1, h2, h3, Bool.false_eq_true, if_false]
  rfl



/-- Decimal digits of `n` (what Python's `str(n)` gives). -/
abbrev dec (n : Nat) : List Char := Nat.toDigits 10 n

/-- Characters that `lower`/`strip` leave alone and that are not commas' business: -/
def plainChar (c : Char) : Bool := !isSpace c && decide (lowerChar c = c)

theorem digits_tbl :
    (List.range 256).all (fun n => (dec n).all (fun c => isDigit c && plainChar c && c != ',') && !(dec n).isEmpty &&
      pyInt (dec n) == some n) = true := by
  decide +kernel

theorem no_paren_names_tbl : Gen.ansiColorNames.all (fun p => !p.1.contains '(') = true := by
  decide +kernel

theorem splitCommaAux_word (w : List Char) (hw : ∀ c ∈ w, (c == ',') = false) (cur : List Char) :
    splitCommaAux w cur = [cur ++ w] := by
  induction w generalizing cur with
  | nil => simp [splitCommaAux]
  | cons x r ih =>
    have hx := hw x (by simp)
    simp only [splitCommaAux, hx, Bool.false_eq_true, if_false]
    rw [ih (fun c hc => hw c (by simp [hc]))]
    simp

theorem splitCommaAux_comma (w : List Char) (hw : ∀ c ∈ w, (c == ',') = false) (rest cur : List Char) :
    splitCommaAux (w ++ ',' :: rest) cur = (cur ++ w) :: splitCommaAux rest [] := by
  induction w generalizing cur with
  | nil => simp [splitCommaAux]
  | cons x r ih =>
    have hx := hw x (by simp)
    simp only [List.cons_append, splitCommaAux, hx, Bool.false_eq_true, if_false]
    rw [ih (fun c hc => hw c (by simp [hc]))]
    simp

/-- The text `rgb(r,g,b)`. -/
def rgbText (r g b : Nat) : List Char := cl! "rgb(" ++ (dec r ++ ',' :: (dec g ++ ',' :: dec b)) ++ [')']

def rgbColor (r g b : Nat) : Color := { name := rgbText r g b, type := .truecolor, triplet := some ⟨r, g, b⟩ }

theorem rgb_color_wf (v : StyleVariant) (r g b : Nat) (hr : r < 256) (hg : g < 256) (hb : b < 256) :
    wfColor v (rgbColor r g b) = true := by
  have tbl : ∀ n, n < 256 → (∀ c ∈ dec n, isDigit c = true ∧ plainChar c = true ∧ (c == ',') = false) ∧
      dec n ≠ [] ∧ pyInt (dec n) = some n := by
    intro n hn
    have := List.all_eq_true.mp digits_tbl n (List.mem_range.mpr hn)
    simp only [Bool.and_eq_true, List.all_eq_true, Bool.not_eq_true', List.isEmpty_eq_false_iff, beq_iff_eq,
      bne_iff_ne, ne_eq] at this
    obtain ⟨⟨h1, h2⟩, h3⟩ := this
    refine ⟨fun c hc => ?_, h2, h3⟩
    obtain ⟨⟨a1, a2⟩, a3⟩ := h1 c hc
    exact ⟨a1, a2, by simpa using a3⟩
  obtain ⟨r1, r2, r3⟩ := tbl r hr
  obtain ⟨g1, g2, g3⟩ := tbl g hg
  obtain ⟨b1, b2, b3⟩ := tbl b hb
  -- every character of the text is plain
  have hplain : ∀ c ∈ rgbText r g b, plainChar c = true := by
    intro c hc
    simp only [rgbText, List.mem_append, List.mem_cons, List.not_mem_nil, or_false] at hc
    rcases hc with ((rfl | rfl | rfl | rfl) | (h | rfl | h | rfl | h)) | rfl
    any_goals decide
    · exact (r1 c h).2.1
    · exact (g1 c h).2.1
    · exact (b1 c h).2.1
  have hns : ∀ c ∈ rgbText r g b, isSpace c = false := by
    intro c hc
    have := hplain c hc
    simp only [plainChar, Bool.and_eq_true, Bool.not_eq_true'] at this
    exact this.1
  have hlow : lower (rgbText r g b) = rgbText r g b := by
    unfold lower
    conv => rhs; rw [← List.map_id (rgbText r g b)]
    apply List.map_congr_left
    intro c hc
    have := hplain c hc
    simp only [plainChar, Bool.and_eq_true, decide_eq_true_eq] at this
    exact this.2
  rw [wfColor_iff]
  refine ⟨hns, ?_⟩
  show Color.parseNorm v (strip (lower (rgbText r g b))) = .ok (rgbColor r g b)
  rw [hlow, strip_noSpace hns]
  have h1 : (rgbText r g b == cl! "default") = false := by simp [rgbText]
  have h2 : ansiColorNumber (rgbText r g b) = none := by
    unfold ansiColorNumber
    simp only [Option.map_eq_none_iff, List.find?_eq_none]
    intro p hp hpe
    have := List.all_eq_true.mp no_paren_names_tbl p hp
    simp only [beq_iff_eq] at hpe
    rw [hpe] at this
    simp [rgbText] at this
  have hbody : ∀ c ∈ dec r ++ ',' :: (dec g ++ ',' :: dec b), (isDigit c || isSpace c || c == ',') = true := by
    intro c hc
    simp only [List.mem_append, List.mem_cons] at hc
    rcases hc with h | rfl | h | rfl | h
    · simp [(r1 c h).1]
    · decide
    · simp [(g1 c h).1]
    · decide
    · simp [(b1 c h).1]
  have h3 : matchReColor (rgbText r g b) = some (.rgb (dec r ++ ',' :: (dec g ++ ',' :: dec b))) := by
    have hne : 1 ≤ (dec r ++ ',' :: (dec g ++ ',' :: dec b)).length := by simp; omega
    simp only [rgbText, matchReColor, dropPrefix?, dropCloseParen?, List.cons_append, List.nil_append]
    simp [List.all_eq_true.mpr hbody]
  have h4 : splitComma (dec r ++ ',' :: (dec g ++ ',' :: dec b)) = [dec r, dec g, dec b] := by
    unfold splitComma
    rw [splitCommaAux_comma _ (fun c hc => (r1 c hc).2.2), splitCommaAux_comma _ (fun c hc => (g1 c hc).2.2),
      splitCommaAux_word _ (fun c hc => (b1 c hc).2.2)]
    simp
  unfold Color.parseNorm
  simp only [h1, h2, h3, h4, r3, g3, b3, Bool.false_eq_true, if_false]
  have : (decide (r ≤ 255) && decide (g ≤ 255) && decide (b ≤ 255)) = true := by
    simp; omega
  simp only [this, if_true]
  rfl

end Style
end RichModel
