import RichModel.Lemmas.StyleSpell
/-!
`#rrggbb` and `rgb(r,g,b)`: the colour each denotes is well-formed (so its text parses to exactly that
colour, alone and after `on`) — for all six-digit lower-case hex strings and all r, g, b ≤ 255.
Table-level side conditions (`decide +kernel`): no `ANSI_COLOR_NAMES` entry starts with `#` or contains
`(`; the decimal digits of 0..255 are digits that `int()` reads back.
-/
namespace RichModel
open AsciiStr
namespace Style
variable {T : StrTables} [hT : T.Lawful]

/-- ASCII characters that `lower()`/`strip()`/`split()` leave alone, whatever the tables. -/
def plainChar (c : Char) : Bool := decide (c.toNat < 128) && !isSpace c && decide (lowerChar c = c)

theorem plain_word {w : List Char} (h : ∀ c ∈ w, plainChar c = true) :
    (∀ c ∈ w, T.isSpace c = false) ∧ T.lower w = w := by
  have ha : allAscii w = true := mem_allAscii.mpr fun c hc => by
    have := h c hc; simp only [plainChar, Bool.and_eq_true, decide_eq_true_eq] at this; exact this.1.1
  have hs : w.all (fun c => !AsciiStr.isSpace c) = true := List.all_eq_true.mpr fun c hc => by
    have := h c hc; simp only [plainChar, Bool.and_eq_true] at this; exact this.1.2
  have hl : AsciiStr.lower w = w := by
    unfold AsciiStr.lower
    conv => rhs; rw [← List.map_id w]
    apply List.map_congr_left
    intro c hc
    have := h c hc; simp only [plainChar, Bool.and_eq_true, decide_eq_true_eq] at this; exact this.2
  obtain ⟨h1, h2⟩ := T.ascii_word ha hs
  exact ⟨h1, h2 hl⟩

/-! ### `#rrggbb` -/

/-- `[0-9a-fA-F]` -/
def isHex (c : Char) : Bool := isHexLower c || (65 ≤ c.toNat && c.toNat ≤ 70)

omit hT in
theorem hexLower_plain {c : Char} (h : isHexLower c = true) : plainChar c = true := by
  simp only [isHexLower, isDigit, Bool.or_eq_true, Bool.and_eq_true, decide_eq_true_eq] at h
  have h1 : c.toNat < 128 := by omega
  have h2 : isSpace c = false := by
    simp only [isSpace, Bool.or_eq_false_iff, Bool.and_eq_false_iff, decide_eq_false_iff_not]
    omega
  have h3 : ¬ (65 ≤ c.toNat ∧ c.toNat ≤ 90) := by omega
  simp [plainChar, h1, h2, lowerChar, h3]

omit hT in
/-- Lower-casing a hex digit gives a lower-case hex digit (and an ASCII character stays ASCII). -/
theorem isHex_lower {c : Char} (h : isHex c = true) : isHexLower (lowerChar c) = true ∧ c.toNat < 128 := by
  by_cases hc : 65 ≤ c.toNat ∧ c.toNat ≤ 90
  · exact upper_cases (fun c => isHex c = true → isHexLower (lowerChar c) = true ∧ c.toNat < 128) (by decide) c hc h
  · have hl : lowerChar c = c := by simp [lowerChar, hc]
    simp only [isHex, Bool.or_eq_true, Bool.and_eq_true, decide_eq_true_eq] at h
    rcases h with h | h
    · rw [hl]
      refine ⟨h, ?_⟩
      simp only [isHexLower, isDigit, Bool.or_eq_true, Bool.and_eq_true, decide_eq_true_eq] at h
      omega
    · omega

theorem no_hash_names_tbl : Gen.ansiColorNames.all (fun p => p.1.head? != some '#') = true := by
  decide +kernel

/-- The colour `#abcdef` denotes. -/
def hexColor (a b c d e f : Char) : Color :=
  { name := ['#', a, b, c, d, e, f], type := .truecolor,
    triplet := some ⟨16 * hexVal a + hexVal b, 16 * hexVal c + hexVal d, 16 * hexVal e + hexVal f⟩ }

theorem hex_color_wf (v : StyleVariant) (a b c d e f : Char)
    (h : [a, b, c, d, e, f].all isHexLower = true) : wfColorT T v (hexColor a b c d e f) = true := by
  simp only [List.all_cons, List.all_nil, Bool.and_true, Bool.and_eq_true] at h
  obtain ⟨ha, hb, hc, hd, he, hf⟩ := h
  have hpl : ∀ ch ∈ ['#', a, b, c, d, e, f], plainChar ch = true := by
    intro ch hch
    simp only [List.mem_cons, List.not_mem_nil, or_false] at hch
    rcases hch with rfl | rfl | rfl | rfl | rfl | rfl | rfl
    · decide
    all_goals exact hexLower_plain ‹_›
  obtain ⟨hns, hlow⟩ := plain_word (T := T) hpl
  rw [wfColor_iff]
  refine ⟨hns, ?_⟩
  show Color.parseNormT T v (T.strip (T.lower ['#', a, b, c, d, e, f])) = .ok (hexColor a b c d e f)
  rw [hlow, T.strip_noSpace hns]
  have h1 : (['#', a, b, c, d, e, f] == cl! "default") = false := by
    simp
  have h2 : ansiColorNumber ['#', a, b, c, d, e, f] = none := by
    unfold ansiColorNumber
    simp only [Option.map_eq_none_iff, List.find?_eq_none]
    intro p hp hpe
    have := List.all_eq_true.mp no_hash_names_tbl p hp
    simp only [beq_iff_eq] at hpe
    rw [hpe] at this
    simp at this
  have h3 : matchRe T ['#', a, b, c, d, e, f] = some (.hex [a, b, c, d, e, f]) := by
    simp [matchRe, ha, hb, hc, hd, he, hf]
  unfold Color.parseNormT
  simp only [h1, h2, h3, Bool.false_eq_true, if_false]
  rfl

/-- `str.lower()` of `#` + six hex digits of either case. -/
theorem lower_hex (a b c d e f : Char) (h : [a, b, c, d, e, f].all isHex = true) :
    T.lower ['#', a, b, c, d, e, f] =
      ['#', lowerChar a, lowerChar b, lowerChar c, lowerChar d, lowerChar e, lowerChar f] ∧
    [lowerChar a, lowerChar b, lowerChar c, lowerChar d, lowerChar e, lowerChar f].all isHexLower = true ∧
    ∀ ch ∈ ['#', a, b, c, d, e, f], T.isSpace ch = false := by
  simp only [List.all_cons, List.all_nil, Bool.and_true, Bool.and_eq_true] at h
  obtain ⟨ha, hb, hc, hd, he, hf⟩ := h
  have hasc : allAscii ['#', a, b, c, d, e, f] = true := by
    simp [allAscii, (isHex_lower ha).2, (isHex_lower hb).2, (isHex_lower hc).2, (isHex_lower hd).2,
      (isHex_lower he).2, (isHex_lower hf).2]
  refine ⟨by rw [T.lower_ascii hasc]; rfl, ?_, ?_⟩
  · simp [(isHex_lower ha).1, (isHex_lower hb).1, (isHex_lower hc).1, (isHex_lower hd).1,
      (isHex_lower he).1, (isHex_lower hf).1]
  · intro ch hch
    rw [T.isSpace_ascii hasc ch hch]
    simp only [List.mem_cons, List.not_mem_nil, or_false] at hch
    have sp : ∀ x, isHex x = true → isSpace x = false := by
      intro x hx
      simp only [isHex, isHexLower, isDigit, Bool.or_eq_true, Bool.and_eq_true, decide_eq_true_eq] at hx
      simp only [isSpace, Bool.or_eq_false_iff, Bool.and_eq_false_iff, decide_eq_false_iff_not]
      omega
    rcases hch with rfl | rfl | rfl | rfl | rfl | rfl | rfl
    · decide
    all_goals exact sp _ ‹_›

/-! ### `rgb(r,g,b)` -/

/-- Decimal digits of `n` (what Python's `str(n)` gives). -/
abbrev dec (n : Nat) : List Char := Nat.toDigits 10 n

theorem digits_tbl :
    (List.range 256).all (fun n => (dec n).all (fun c => isDigit c && plainChar c && c != ',') && !(dec n).isEmpty &&
      decide ((dec n).length ≤ 3) && decimalVal (dec n) == n) = true := by
  decide +kernel

theorem no_paren_names_tbl : Gen.ansiColorNames.all (fun p => !p.1.contains '(') = true := by
  decide +kernel

/-- `int()` of at most three ASCII digits, whatever the tables. -/
theorem pyInt_digits {w : List Char} (hd : ∀ c ∈ w, isDigit c = true) (hne : w ≠ []) (hlen : w.length ≤ 3) :
    T.pyInt w = some (decimalVal w) := by
  have hasc : ∀ c ∈ w, c.toNat < 128 := by
    intro c hc; have := hd c hc
    simp only [isDigit, Bool.and_eq_true, decide_eq_true_eq] at this; omega
  have hsp : ∀ c ∈ w, T.isIntSpace c = false := by
    intro c hc; have := hd c hc
    simp only [isDigit, Bool.and_eq_true, decide_eq_true_eq] at this
    have h127 : c.toNat < 127 := by omega
    simp only [StrTables.isIntSpace, h127, if_true, AsciiStr.isIntSpace, Bool.or_eq_false_iff,
      Bool.and_eq_false_iff, decide_eq_false_iff_not, beq_eq_false_iff_ne, ne_eq]
    omega
  have hdw : ∀ (l : List Char), (∀ c ∈ l, T.isIntSpace c = false) → l.dropWhile T.isIntSpace = l := by
    intro l hl
    cases l with
    | nil => rfl
    | cons a r => simp [List.dropWhile, hl a (by simp)]
  have hfold : ∀ (l : List Char) (acc : Nat), (∀ c ∈ l, isDigit c = true) →
      l.foldl T.intStep (some acc) = some (l.foldl (fun a d => 10 * a + (d.toNat - 48)) acc) := by
    intro l
    induction l with
    | nil => intro acc _; rfl
    | cons x r ih =>
      intro acc hx
      have hxd := hx x (by simp)
      have hx128 : x.toNat < 128 := by
        simp only [isDigit, Bool.and_eq_true, decide_eq_true_eq] at hxd; omega
      simp only [List.foldl_cons, StrTables.intStep, hT.decimal_ascii x hx128, hxd, if_true]
      exact ih _ (fun c hc => hx c (by simp [hc]))
  unfold StrTables.pyInt
  simp only
  rw [hdw w hsp, hdw w.reverse (by simpa using hsp), List.reverse_reverse]
  have h1 : w.isEmpty = false := by simpa using hne
  have h2 : ¬ (T.maxDigits ≠ 0 ∧ T.maxDigits < w.length) := by
    rcases hT.digits_floor with h | h <;> omega
  simp only [h1, h2, if_false, Bool.false_eq_true]
  exact hfold w 0 hd

omit hT in
theorem splitCommaAux_word (w : List Char) (hw : ∀ c ∈ w, (c == ',') = false) (cur : List Char) :
    splitCommaAux w cur = [cur ++ w] := by
  induction w generalizing cur with
  | nil => simp [splitCommaAux]
  | cons x r ih =>
    have hx := hw x (by simp)
    simp only [splitCommaAux, hx, Bool.false_eq_true, if_false]
    rw [ih (fun c hc => hw c (by simp [hc]))]
    simp

omit hT in
theorem splitCommaAux_comma (w : List Char) (hw : ∀ c ∈ w, (c == ',') = false) (rest cur : List Char) :
    splitCommaAux (w ++ ',' :: rest) cur = (cur ++ w) :: splitCommaAux rest [] := by
  induction w generalizing cur with
  | nil => simp [splitCommaAux]
  | cons x r ih =>
    have hx := hw x (by simp)
    simp only [List.cons_append, splitCommaAux, hx, Bool.false_eq_true, if_false]
    rw [ih (fun c hc => hw c (by simp [hc]))]
    simp

/-- The text `rgb(r,g,b)`. -/
def rgbText (r g b : Nat) : List Char := cl! "rgb(" ++ (dec r ++ ',' :: (dec g ++ ',' :: dec b)) ++ [')']

def rgbColor (r g b : Nat) : Color := { name := rgbText r g b, type := .truecolor, triplet := some ⟨r, g, b⟩ }

theorem rgb_color_wf (v : StyleVariant) (r g b : Nat) (hr : r < 256) (hg : g < 256) (hb : b < 256) :
    wfColorT T v (rgbColor r g b) = true := by
  have tbl : ∀ n, n < 256 → (∀ c ∈ dec n, isDigit c = true ∧ plainChar c = true ∧ (c == ',') = false) ∧
      dec n ≠ [] ∧ T.pyInt (dec n) = some n := by
    intro n hn
    have := List.all_eq_true.mp digits_tbl n (List.mem_range.mpr hn)
    simp only [Bool.and_eq_true, List.all_eq_true, Bool.not_eq_true', List.isEmpty_eq_false_iff, beq_iff_eq,
      bne_iff_ne, ne_eq, decide_eq_true_eq] at this
    obtain ⟨⟨⟨h1, h2⟩, hl⟩, h3⟩ := this
    refine ⟨fun c hc => ?_, h2, ?_⟩
    · obtain ⟨⟨a1, a2⟩, a3⟩ := h1 c hc
      exact ⟨a1, a2, by simpa using a3⟩
    · rw [pyInt_digits (fun c hc => (h1 c hc).1.1) h2 hl, h3]
  obtain ⟨r1, r2, r3⟩ := tbl r hr
  obtain ⟨g1, g2, g3⟩ := tbl g hg
  obtain ⟨b1, b2, b3⟩ := tbl b hb
  -- every character of the text is plain
  have hplain : ∀ c ∈ rgbText r g b, plainChar c = true := by
    intro c hc
    simp only [rgbText, List.mem_append, List.mem_cons, List.not_mem_nil, or_false] at hc
    rcases hc with ((rfl | rfl | rfl | rfl) | (h | rfl | h | rfl | h)) | rfl
    any_goals decide
    · exact (r1 c h).2.1
    · exact (g1 c h).2.1
    · exact (b1 c h).2.1
  obtain ⟨hns, hlow⟩ := plain_word (T := T) hplain
  rw [wfColor_iff]
  refine ⟨hns, ?_⟩
  show Color.parseNormT T v (T.strip (T.lower (rgbText r g b))) = .ok (rgbColor r g b)
  rw [hlow, T.strip_noSpace hns]
  have h1 : (rgbText r g b == cl! "default") = false := by simp [rgbText]
  have h2 : ansiColorNumber (rgbText r g b) = none := by
    unfold ansiColorNumber
    simp only [Option.map_eq_none_iff, List.find?_eq_none]
    intro p hp hpe
    have := List.all_eq_true.mp no_paren_names_tbl p hp
    simp only [beq_iff_eq] at hpe
    rw [hpe] at this
    simp [rgbText] at this
  have hdig : ∀ c, isDigit c = true → (T.decimal c).isSome = true := by
    intro c hc
    have h128 : c.toNat < 128 := by
      simp only [isDigit, Bool.and_eq_true, decide_eq_true_eq] at hc; omega
    simp [hT.decimal_ascii c h128, hc]
  have hbody : ∀ c ∈ dec r ++ ',' :: (dec g ++ ',' :: dec b),
      ((T.decimal c).isSome || T.isSpace c || c == ',') = true := by
    intro c hc
    simp only [List.mem_append, List.mem_cons] at hc
    rcases hc with h | rfl | h | rfl | h
    · simp [hdig c (r1 c h).1]
    · simp
    · simp [hdig c (g1 c h).1]
    · simp
    · simp [hdig c (b1 c h).1]
  have h3 : matchRe T (rgbText r g b) = some (.rgb (dec r ++ ',' :: (dec g ++ ',' :: dec b))) := by
    simp only [rgbText, matchRe, dropPrefix?, dropCloseParen?, List.cons_append, List.nil_append]
    simp [List.all_eq_true.mpr hbody]
  have h4 : splitComma (dec r ++ ',' :: (dec g ++ ',' :: dec b)) = [dec r, dec g, dec b] := by
    unfold splitComma
    rw [splitCommaAux_comma _ (fun c hc => (r1 c hc).2.2), splitCommaAux_comma _ (fun c hc => (g1 c hc).2.2),
      splitCommaAux_word _ (fun c hc => (b1 c hc).2.2)]
    simp
  unfold Color.parseNormT
  simp only [h1, h2, h3, h4, r3, g3, b3, Bool.false_eq_true, if_false]
  have : (decide (r ≤ 255) && decide (g ≤ 255) && decide (b ≤ 255)) = true := by
    simp; omega
  simp only [this, if_true]
  rfl

end Style
end RichModel
