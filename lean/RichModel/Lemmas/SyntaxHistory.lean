import RichModel.Model.Syntax
/-
Helper lemmas for property C17, part 7: the per-call cache of `read_code` is transparent, so what a traceback
shows depends only on the files' contents at the moment it is rendered.
-/
namespace RichModel.Syntax

/-- every cached entry is what the file system holds now -/
def CacheInv (fs : FileId → List Char) (cache : List (FileId × List Char)) : Prop := ∀ p ∈ cache, p.2 = fs p.1

theorem readCode_spec (fs : FileId → List Char) (cache : List (FileId × List Char)) (h : CacheInv fs cache) (f : FileId) :
    (readCode fs cache f).1 = fs f ∧ CacheInv fs (readCode fs cache f).2 := by
  unfold readCode
  cases hf : cache.find? (fun p => p.1 == f) with
  | none =>
    refine ⟨rfl, ?_⟩
    intro p hp
    rcases List.mem_cons.mp hp with h1 | h1
    · subst h1; rfl
    · exact h p h1
  | some q =>
    have hm : q ∈ cache := List.mem_of_find?_eq_some hf
    have hk : (q.1 == f) = true := by simpa using List.find?_some (p := fun p : FileId × List Char => p.1 == f) hf
    have : q.1 = f := by simpa using hk
    exact ⟨by simp [h q hm, this], h⟩

theorem stackCodesFrom_spec (fs : FileId → List Char) : ∀ (frames : List FileId) (cache : List (FileId × List Char)),
    CacheInv fs cache → (stackCodesFrom fs cache frames).1 = frames.map fs ∧ CacheInv fs (stackCodesFrom fs cache frames).2
  | [], cache, h => ⟨rfl, h⟩
  | f :: rest, cache, h => by
    obtain ⟨h1, h2⟩ := readCode_spec fs cache h f
    obtain ⟨h3, h4⟩ := stackCodesFrom_spec fs rest _ h2
    exact ⟨by simp [stackCodesFrom, h1, h3], by simpa [stackCodesFrom] using h4⟩

theorem cacheInv_nil (fs : FileId → List Char) : CacheInv fs [] := by intro p hp; cases hp

end RichModel.Syntax
