import RichModel.Lemmas.SyntaxRange
/-
Helper lemmas for property C17, part 8: token styles.  The styled stream `highlightStyled` has the characters of
`highlight`, and every character carries the style of the token it came from — except on the lines before the
start of a range, which the ranged path leaves unstyled.
-/
namespace RichModel.Syntax

/-- the characters of the tokens, each with its token's style id -/
def tokChars (toks : List (Line × StyleId)) : List (Char × StyleId) := toks.flatMap (fun t => t.1.map (fun c => (c, t.2)))

/-- Reference semantics: walk the token characters counting newlines; a character on a line before line `k`
(0-based count of newlines seen `< k`) is unstyled, any other carries its token's style. -/
def specStyle (k : Nat) : Nat → List (Char × StyleId) → Styled
  | _, [] => []
  | ln, (c, id) :: rest => (c, if ln < k then none else some id) :: specStyle k (if c = '\n' then ln + 1 else ln) rest

@[simp] theorem styleWith_fst (st : Option StyleId) (t : Line) : (styleWith st t).map Prod.fst = t := by
  simp [styleWith, Function.comp_def]

theorem specStyle_fst (k : Nat) : ∀ (T : List (Char × StyleId)) (ln : Nat), (specStyle k ln T).map Prod.fst = T.map Prod.fst
  | [], _ => rfl
  | (c, id) :: rest, ln => by simp [specStyle, specStyle_fst k rest]

/-- inside a newline-free run the style does not change -/
theorem specStyle_noNL (k : Nat) (id : StyleId) : ∀ (x : Line) (ln : Nat) (rest : List (Char × StyleId)), '\n' ∉ x →
    specStyle k ln (x.map (fun c => (c, id)) ++ rest) = styleWith (if ln < k then none else some id) x ++ specStyle k ln rest
  | [], ln, rest, _ => by simp [styleWith]
  | c :: x, ln, rest, h => by
    have hc : c ≠ '\n' := fun e => h (by simp [e])
    have hx : '\n' ∉ x := fun e => h (by simp [e])
    simp only [List.map_cons, List.cons_append, specStyle, hc, if_false]
    rw [specStyle_noNL k id x ln rest hx]
    simp [styleWith]

/-- a whole piece gets one style; the line count moves on after its newline -/
theorem specStyle_piece (k : Nat) (id : StyleId) {p : Line} (hp : PieceOK p) (ln : Nat) (rest : List (Char × StyleId)) :
    specStyle k ln (p.map (fun c => (c, id)) ++ rest) =
      styleWith (if ln < k then none else some id) p ++ specStyle k (if endsNL p then ln + 1 else ln) rest := by
  obtain ⟨x, hx, rfl | rfl⟩ := hp
  · rw [endsNL_append_singleton]
    simp only [beq_self_eq_true, if_true, List.map_append, List.map_cons, List.map_nil, List.append_assoc, List.cons_append, List.nil_append]
    rw [specStyle_noNL k id x ln _ hx]
    simp [specStyle, styleWith]
  · rw [endsNL_of_noNL hx]
    simpa using specStyle_noNL k id p ln rest hx

theorem tokChars_cons (p : Line × StyleId) (ps : List (Line × StyleId)) :
    tokChars (p :: ps) = p.1.map (fun c => (c, p.2)) ++ tokChars ps := by
  simp [tokChars]

theorem tokChars_lineTokenizeS (toks : List (Line × StyleId)) : tokChars (lineTokenizeS toks) = tokChars toks := by
  induction toks with
  | nil => rfl
  | cons t ts ih =>
    have h1 : ∀ (ps : List Line), tokChars (ps.map (fun p => (p, t.2))) = ps.flatten.map (fun c => (c, t.2)) := by
      intro ps
      induction ps with
      | nil => rfl
      | cons q qs ihq => rw [List.map_cons, tokChars_cons, ihq]; simp
    have : lineTokenizeS (t :: ts) = (pieces t.1).map (fun p => (p, t.2)) ++ lineTokenizeS ts := by
      simp [lineTokenizeS]
    rw [this]
    have happ : ∀ (A B : List (Line × StyleId)), tokChars (A ++ B) = tokChars A ++ tokChars B := by
      intro A B; simp [tokChars]
    rw [happ, h1, pieces_flatten, ih, tokChars_cons]

theorem lineTokenizeS_ok (toks : List (Line × StyleId)) : ∀ p ∈ lineTokenizeS toks, PieceOK p.1 := by
  intro p hp
  simp only [lineTokenizeS, List.mem_flatMap, List.mem_map] at hp
  obtain ⟨t, _, q, hq, rfl⟩ := hp
  exact pieces_ok t.1 q hq

/-- the take loop: once the line count has reached `k`, every piece is styled with its token's style -/
theorem takeLoopS_prefix (k : Nat) (le : Int) : ∀ (ps : List (Line × StyleId)) (ln : Nat), k ≤ ln → (∀ p ∈ ps, PieceOK p.1) →
    takeLoopS le ln ps <+: specStyle k ln (tokChars ps)
  | [], _, _, _ => by simp [takeLoopS]
  | p :: rest, ln, hk, h => by
    have hp : PieceOK p.1 := h p (by simp)
    have hr : ∀ q ∈ rest, PieceOK q.1 := fun q hq => h q (by simp [hq])
    have hlt : ¬ ln < k := by omega
    rw [tokChars_cons, specStyle_piece k p.2 hp ln]
    simp only [hlt, if_false]
    unfold takeLoopS
    cases he : endsNL p.1 with
    | true =>
      simp only [if_true]
      by_cases hge : ((ln + 1 : Nat) : Int) ≥ le
      · rw [if_pos hge]; exact List.prefix_append _ _
      · rw [if_neg hge]
        exact (List.prefix_append_right_inj _).mpr (takeLoopS_prefix k le rest (ln + 1) (by omega) hr)
    | false =>
      simp only [Bool.false_eq_true, if_false]
      exact (List.prefix_append_right_inj _).mpr (takeLoopS_prefix k le rest ln hk hr)

/-- skip loop followed by take loop -/
theorem skip_take_styles (k : Nat) (le : Int) : ∀ (ps : List (Line × StyleId)) (ln : Nat), (∀ p ∈ ps, PieceOK p.1) →
    ∃ y ln' r, skipLoopS false k ln ps = .ok (y, ln', r) ∧ (y ++ takeLoopS le ln' r) <+: specStyle k ln (tokChars ps)
  | [], ln, _ => by
    refine ⟨[], ln, [], ?_, by simp [takeLoopS]⟩
    unfold skipLoopS; split <;> rfl
  | p :: rest, ln, h => by
    have hp : PieceOK p.1 := h p (by simp)
    have hr : ∀ q ∈ rest, PieceOK q.1 := fun q hq => h q (by simp [hq])
    by_cases hlt : ln < k
    · obtain ⟨y, ln', r, hs, hf⟩ := skip_take_styles k le rest (if endsNL p.1 then ln + 1 else ln) hr
      refine ⟨styleWith none p.1 ++ y, ln', r, ?_, ?_⟩
      · rw [skipLoopS]; simp [hlt, hs]
      · rw [tokChars_cons, specStyle_piece k p.2 hp ln]
        simp only [hlt, if_true, List.append_assoc]
        exact (List.prefix_append_right_inj _).mpr hf
    · refine ⟨[], ln, p :: rest, ?_, ?_⟩
      · rw [skipLoopS]; simp [hlt]
      · rw [List.nil_append]; exact takeLoopS_prefix k le (p :: rest) ln (by omega) h

/-! ### the styled stream has the characters of the plain one -/

theorem lineTokenizeS_fst (toks : List (Line × StyleId)) :
    (lineTokenizeS toks).map Prod.fst = lineTokenize (toks.map Prod.fst) := by
  induction toks with
  | nil => rfl
  | cons t ts ih =>
    simp only [lineTokenizeS, lineTokenize, List.flatMap_cons, List.map_append, List.map_cons] at *
    rw [ih]; simp [Function.comp_def]

theorem takeLoopS_fst (le : Int) : ∀ (ps : List (Line × StyleId)) (ln : Nat),
    (takeLoopS le ln ps).map Prod.fst = (takeLoop le ln (ps.map Prod.fst)).flatten
  | [], _ => by simp [takeLoopS, takeLoop]
  | p :: rest, ln => by
    simp only [List.map_cons]
    unfold takeLoopS takeLoop
    cases he : endsNL p.1 with
    | true =>
      simp only [if_true]
      by_cases hge : ((ln + 1 : Nat) : Int) ≥ le
      · rw [if_pos hge, if_pos hge]; simp
      · rw [if_neg hge, if_neg hge]; simp [takeLoopS_fst le rest (ln + 1)]
    | false =>
      simp only [Bool.false_eq_true, if_false]
      simp [takeLoopS_fst le rest ln]

theorem skipLoopS_fst (sr : Bool) (target : Nat) : ∀ (ps : List (Line × StyleId)) (ln : Nat),
    (match skipLoopS sr target ln ps with
     | .error e => skipLoop sr target ln (ps.map Prod.fst) = .error e
     | .ok (y, ln', r) => ∃ yp, skipLoop sr target ln (ps.map Prod.fst) = .ok (yp, ln', r.map Prod.fst) ∧ y.map Prod.fst = yp.flatten)
  | [], ln => by
    unfold skipLoopS skipLoop
    by_cases h : ln < target
    · cases sr <;> simp [h]
    · simp [h]
  | p :: rest, ln => by
    have ih := skipLoopS_fst sr target rest (if endsNL p.1 then ln + 1 else ln)
    simp only [List.map_cons]
    unfold skipLoopS skipLoop
    by_cases h : ln < target
    · simp only [h, if_true]
      cases hs : skipLoopS sr target (if endsNL p.1 then ln + 1 else ln) rest with
      | error e =>
        rw [hs] at ih
        simp only at ih ⊢
        rw [ih]
      | ok t =>
        obtain ⟨y, ln', r⟩ := t
        rw [hs] at ih
        simp only at ih ⊢
        obtain ⟨yp, h1, h2⟩ := ih
        exact ⟨p.1 :: yp, by rw [h1], by simp [h2]⟩
    · simp only [h, if_false]
      exact ⟨[], rfl, rfl⟩

theorem specStyle_zero : ∀ (T : List (Char × StyleId)) (ln : Nat), specStyle 0 ln T = T.map (fun p => (p.1, some p.2))
  | [], _ => rfl
  | (c, id) :: rest, ln => by simp [specStyle, specStyle_zero rest]

theorem flatMap_styleWith (toks : List (Line × StyleId)) :
    toks.flatMap (fun t => styleWith (some t.2) t.1) = (tokChars toks).map (fun p => (p.1, some p.2)) := by
  induction toks with
  | nil => rfl
  | cons t ts ih =>
    simp only [tokChars, styleWith, List.flatMap_cons, List.map_append, List.map_map] at *
    rw [ih]; rfl

/-- the styled highlight: same characters as the plain one; without a lexer no token style; with a lexer a prefix of
the reference stream (styles of the tokens, none before line `a` of a range `(a, b)`) -/
theorem highlightStyled_spec (found : Bool) (toks : List (Line × StyleId)) (src : List Char) (range : Option (Int × Int)) :
    ∃ st, highlightStyled false found toks src range = .ok st ∧
      highlight false found (toks.map Prod.fst) src range = .ok (st.map Prod.fst) ∧
      (found = false → ∀ p ∈ st, p.2 = none) ∧
      (found = true → st <+: specStyle (match range with | some (a, _) => (a - 1).toNat | none => 0) 0 (tokChars toks)) := by
  cases found with
  | false =>
    refine ⟨styleWith none (stripCtl src), by simp [highlightStyled], by simp [highlight], ?_, (fun h => by cases h)⟩
    intro _ p hp
    simp only [styleWith, List.mem_map] at hp
    obtain ⟨c, _, rfl⟩ := hp; rfl
  | true =>
    cases range with
    | none =>
      refine ⟨toks.flatMap (fun t => styleWith (some t.2) t.1), by simp [highlightStyled], ?_, (fun h => by cases h), fun _ => ?_⟩
      · simp only [highlight, Bool.not_true, Bool.false_eq_true, if_false]
        congr 1
        induction toks with
        | nil => rfl
        | cons t ts ih => simp [List.flatMap_cons, ih]
      · simp only
        rw [specStyle_zero, flatMap_styleWith]; exact List.prefix_refl _
    | some ab =>
      obtain ⟨a, b⟩ := ab
      obtain ⟨y, ln', r, hs, hf⟩ := skip_take_styles (a - 1).toNat b (lineTokenizeS toks) 0 (lineTokenizeS_ok toks)
      have hfst := skipLoopS_fst false (a - 1).toNat (lineTokenizeS toks) 0
      rw [hs] at hfst
      obtain ⟨yp, h1, h2⟩ := hfst
      refine ⟨y ++ takeLoopS b ln' r, by simp only [highlightStyled, Bool.not_true, Bool.false_eq_true, if_false, hs], ?_, (fun h => by cases h), fun _ => ?_⟩
      · rw [lineTokenizeS_fst] at h1
        simp only [highlight, Bool.not_true, Bool.false_eq_true, if_false, h1]
        rw [List.map_append, h2, takeLoopS_fst]; simp
      · rw [tokChars_lineTokenizeS] at hf; exact hf

end RichModel.Syntax
