import RichModel.Lemmas.AnsiShape
import RichModel.Lemmas.AnsiWire
/-!
Lemmas for property C03, part 5: the tokens written are those of a **cache-free** specification
(`specToks`: every styled run rendered as by a brand-new `Style` object), for the repaired code on a
sound heap.  Consequences: the character-level statements (through `Lemmas/AnsiWire`), the full
`not_terminal_no_control`, histories token for token.  Core Lean only.
-/
namespace RichModel.AnsiRender
open RichModel RichModel.AnsiTerm

/-! ## the cache-free token specification -/

/-- What `Style.render` writes for a brand-new object of this style (`[]` if it raises). -/
def freshToks (cc : Cfg) (P : Palettes) (s : Style) (text : List Char) (cs : Option ColorSystem) (lw : Bool) : List Tok :=
  match styleRender .repaired cc P { style := s, ansi := none } text cs lw with
  | .ok (t, _) => t
  | .error _ => []

/-- The tokens of one segment; `strip`: the style goes through `without_color` first (NO_COLOR). -/
def segToks (cc : Cfg) (P : Palettes) (cfg : Config) (strip : Bool) (heap : Heap) (seg : Seg) : List Tok :=
  match segStyle heap seg with
  | none => [.text seg.text]
  | some s =>
    if s.isNull then [.text seg.text]
    else freshToks cc P (if strip then Style.withoutColor StyleVariant.fixed s else s) seg.text cfg.colorSystem cfg.legacyWindows

def loopToks (cc : Cfg) (P : Palettes) (cfg : Config) (strip : Bool) (heap : Heap) (segs : List Seg) : List Tok :=
  (segs.filter (segVisible cfg)).flatMap (segToks cc P cfg strip heap)

/-- The cache-free specification of what `_render_buffer` writes. -/
def specToks (cc : Cfg) (P : Palettes) (cfg : Config) (heap : Heap) (segs : List Seg) : List Tok :=
  loopToks cc P cfg (cfg.noColor && cfg.colorSystem.isSome) heap segs

theorem freshToks_congr (cc : Cfg) (P : Palettes) (s s' : Style) (text : List Char) (cs : Option ColorSystem) (lw : Bool)
    (h1 : s'.color = s.color) (h2 : s'.bgcolor = s.bgcolor) (h3 : s'.attributes = s.attributes)
    (h4 : s'.setAttributes = s.setAttributes) (h5 : s'.link = s.link) :
    freshToks cc P s' text cs lw = freshToks cc P s text cs lw := by
  cases cs with
  | none => rfl
  | some cs =>
    simp only [freshToks, styleRender, makeAnsiCodes, cacheLookup, computeCodes_congr cc P s s' cs h1 h2 h3 h4, h5]
    by_cases ht : text.isEmpty = true
    · simp [ht]
    · cases hcc : computeCodes cc P s cs <;> simp [ht, bind, Except.bind]

/-- With a sound cache (repaired code) `Style.render` writes exactly what a brand-new object writes. -/
theorem styleRender_eq_fresh (v : RVariant) (hv : v.ansiCacheUnkeyed = false) (cc : Cfg) (P : Palettes)
    (hP : P.ok = true) (o : StyleObj) (ho : ObjOK cc P o) (text : List Char) (cs : Option ColorSystem) (lw : Bool) :
    ∃ o', styleRender v cc P o text cs lw = .ok (freshToks cc P o.style text cs lw, o') ∧
      o'.style = o.style ∧ ObjOK cc P o' := by
  cases cs with
  | none => exact ⟨o, rfl, rfl, ho⟩
  | some cs =>
    by_cases ht : text.isEmpty = true
    · exact ⟨o, by simp [styleRender, freshToks, ht], rfl, ho⟩
    · obtain ⟨codes, o', hmk, hcodes, hst, hok⟩ := makeAnsiCodes_ok v hv cc P hP o ho cs
      have hfresh : makeAnsiCodes .repaired cc P { style := o.style, ansi := none } cs =
          .ok (codes, { style := o.style, ansi := some (cs, codes) }) := by
        simp [makeAnsiCodes, cacheLookup, hcodes, bind, Except.bind]
      refine ⟨o', ?_, hst, hok⟩
      simp [styleRender, freshToks, ht, hmk, hfresh, bind, Except.bind]

theorem loopToks_congr (cc : Cfg) (P : Palettes) (cfg : Config) (strip : Bool) {heap heap' : Heap}
    (h : heap'.map (·.style) = heap.map (·.style)) (segs : List Seg) :
    loopToks cc P cfg strip heap' segs = loopToks cc P cfg strip heap segs := by
  unfold loopToks
  congr 1
  funext seg
  simp only [segToks, segStyle_congr h]

theorem loopToks_cons_visible (cc : Cfg) (P : Palettes) (cfg : Config) (strip : Bool) (heap : Heap) (seg : Seg)
    (rest : List Seg) (h : segVisible cfg seg = true) :
    loopToks cc P cfg strip heap (seg :: rest) = segToks cc P cfg strip heap seg ++ loopToks cc P cfg strip heap rest := by
  simp [loopToks, h]

theorem loopToks_cons_hidden (cc : Cfg) (P : Palettes) (cfg : Config) (strip : Bool) (heap : Heap) (seg : Seg)
    (rest : List Seg) (h : segVisible cfg seg = false) :
    loopToks cc P cfg strip heap (seg :: rest) = loopToks cc P cfg strip heap rest := by
  simp [loopToks, h]

/-- The loop of `_render_buffer` writes the cache-free tokens (repaired code, sound heap). -/
theorem renderLoop_toks (v : RVariant) (hv : v.ansiCacheUnkeyed = false) (hv2 : v.styledControlKept = false)
    (cc : Cfg) (P : Palettes) (hP : P.ok = true) (cfg : Config) (segs : List Seg) :
    ∀ heap : Heap, HeapOK cc P heap → RefsOK heap segs →
      ∃ heap', renderLoop v cc P cfg heap segs = .ok (loopToks cc P cfg false heap segs, heap') ∧
        HeapOK cc P heap' ∧ heap'.map (·.style) = heap.map (·.style) := by
  induction segs with
  | nil => intro heap hok _; exact ⟨heap, rfl, hok, rfl⟩
  | cons seg rest ih =>
    intro heap hok hrefs
    have hrest := refsOK_tail hrefs
    unfold renderLoop
    simp only [hv2, Bool.not_false, Bool.true_and]
    by_cases hskip : (!cfg.isTerminal && seg.control) = true
    · obtain ⟨heap', h1, h2, h3⟩ := ih heap hok hrest
      refine ⟨heap', ?_, h2, h3⟩
      rw [loopToks_cons_hidden]
      · simp [hskip, h1]
      · simp only [Bool.and_eq_true, Bool.not_eq_true'] at hskip
        simp [segVisible, hskip.1, hskip.2]
    · have hvis : segVisible cfg seg = true := by
        simp only [Bool.and_eq_true, Bool.not_eq_true', not_and, Bool.not_eq_true] at hskip
        unfold segVisible
        cases hT : cfg.isTerminal <;> simp_all
      simp only [hskip, Bool.false_eq_true, if_false]
      have plainCase : ∀ (hseg : segToks cc P cfg false heap seg = [.text seg.text]),
          ∃ heap', (do
              let (toks, heap') ← renderLoop v cc P cfg heap rest
              Except.ok ([Tok.text seg.text] ++ toks, heap') : Except RenderErr (List Tok × Heap)) =
                .ok (loopToks cc P cfg false heap (seg :: rest), heap') ∧
            HeapOK cc P heap' ∧ heap'.map (·.style) = heap.map (·.style) := by
        intro hseg
        obtain ⟨heap', h1, h2, h3⟩ := ih heap hok hrest
        refine ⟨heap', ?_, h2, h3⟩
        rw [loopToks_cons_visible _ _ _ _ _ _ _ hvis, hseg]
        simp [h1, bind, Except.bind]
      cases hst : seg.style with
      | none =>
        simp only
        exact plainCase (by simp [segToks, segStyle, hst])
      | some i =>
        have hi : i < heap.length := hrefs seg (by simp) i hst
        obtain ⟨o, ho⟩ : ∃ o, heap[i]? = some o := ⟨heap[i], by simp [hi]⟩
        have hmem : o ∈ heap := List.mem_iff_getElem?.mpr ⟨i, ho⟩
        have hseg : segStyle heap seg = some o.style := by simp [segStyle, hst, ho]
        simp only [ho]
        by_cases hb : o.style.toBool = true
        · have hnn : o.style.isNull = false := by
            simp only [Style.toBool, Bool.not_eq_true'] at hb; exact hb
          obtain ⟨o', hr, hs', hok'⟩ := styleRender_eq_fresh v hv cc P hP o (hok o hmem) seg.text cfg.colorSystem cfg.legacyWindows
          have hmap := map_style_set heap i o o' ho hs'
          have hokset : HeapOK cc P (heap.set i o') := by
            intro x hx
            rcases List.mem_or_eq_of_mem_set hx with hx | rfl
            · exact hok x hx
            · exact hok'
          obtain ⟨heap', h1, h2, h3⟩ := ih (heap.set i o') hokset (refsOK_set hrest i o')
          refine ⟨heap', ?_, h2, h3.trans hmap⟩
          rw [loopToks_cons_visible _ _ _ _ _ _ _ hvis, ← loopToks_congr cc P cfg false hmap rest]
          simp [hb, hr, liftPy, h1, bind, Except.bind, segToks, hseg, hnn]
        · have hnull : o.style.isNull = true := by
            simp only [Style.toBool, Bool.not_eq_true', Bool.not_eq_false] at hb; exact hb
          simp only [hb, Bool.false_eq_true, if_false]
          exact plainCase (by simp [segToks, hseg, hnull])

/-- The colourless images render as the stripped originals. -/
theorem loopToks_img (cc : Cfg) (P : Palettes) (cfg : Config) (heap tmp : Heap) (segs segs' : List Seg)
    (h : All2 (Img heap tmp) segs segs') :
    loopToks cc P cfg false tmp segs' = loopToks cc P cfg true heap segs := by
  induction h with
  | nil => rfl
  | @cons seg seg' rest rest' himg _ ih =>
    obtain ⟨ht, hc, hs⟩ := himg
    have hvis : segVisible cfg seg' = segVisible cfg seg := by simp [segVisible, hc]
    have htok : segToks cc P cfg false tmp seg' = segToks cc P cfg true heap seg := by
      cases hss : segStyle heap seg with
      | none =>
        rw [hss] at hs; simp only at hs
        have h' : segStyle tmp seg' = none := by simp [segStyle, hs]
        simp only [segToks, h', hss, ht]
      | some s =>
        rw [hss] at hs; simp only at hs
        by_cases hn : s.isNull = true
        · simp only [hn, if_true] at hs
          have h' : segStyle tmp seg' = none := by simp [segStyle, hs]
          simp only [segToks, h', hss, hn, if_true, ht]
        · simp only [hn] at hs
          obtain ⟨j, k, h1, h2, h3, h4⟩ := hs
          have hn' : s.isNull = false := by simpa using hn
          have hseg' : segStyle tmp seg' = some (Style.withoutColor StyleVariant.fixed k) := by
            simp [segStyle, h1, h2, colourless]
          have hknull : (Style.withoutColor StyleVariant.fixed k).isNull = false := by simp [Style.withoutColor, h3]
          simp only [Style.eq, decide_eq_true_eq] at h4
          obtain ⟨_, _, e3, e4, e5⟩ := h4
          simp only [segToks, hseg', hss, hknull, hn', Bool.false_eq_true, if_false, if_true, ht]
          apply freshToks_congr <;> simp [Style.withoutColor, h3, hn', e3, e4, e5]
    by_cases hv : segVisible cfg seg = true
    · rw [loopToks_cons_visible _ _ _ _ _ _ _ hv, loopToks_cons_visible _ _ _ _ _ _ _ (hvis ▸ hv), ih, htok]
    · have hv' : segVisible cfg seg = false := by simpa using hv
      rw [loopToks_cons_hidden _ _ _ _ _ _ _ hv', loopToks_cons_hidden _ _ _ _ _ _ _ (hvis ▸ hv'), ih]

theorem heapOK_of_loopInv {cc : Cfg} {P : Palettes} {cfg : Config} {heap : Heap} (h : LoopInv cc P cfg heap) : HeapOK cc P heap := h.ok

/-- **`_render_buffer` writes the cache-free tokens** (repaired code, sound heap): whatever the caches
hold, the output is what brand-new objects would produce. -/
theorem renderBuffer_toks (v : RVariant) (hv : v.ansiCacheUnkeyed = false) (hv2 : v.styledControlKept = false)
    (cc : Cfg) (P : Palettes) (hP : P.ok = true) (cfg : Config) (heap : Heap) (segs : List Seg)
    (hok : HeapOK cc P heap) (hrefs : RefsOK heap segs) :
    ∃ heap', renderBuffer v cc P cfg heap segs = .ok (specToks cc P cfg heap segs, heap') ∧ HeapOK cc P heap' ∧
      heap'.map (·.style) = heap.map (·.style) ∧
      ((cfg.noColor && cfg.colorSystem.isSome) = true → heap' = heap) := by
  unfold renderBuffer specToks
  by_cases hc : (cfg.noColor && cfg.colorSystem.isSome) = true
  · simp only [hc, if_true]
    have hwf : ∀ o ∈ heap, StyleWF o.style := fun o ho => (hok o ho).1
    obtain ⟨segs', keys', tmp', h1, h2, _, h4⟩ :=
      removeColorLoop_spec heap hwf segs [] [] hrefs ⟨rfl, by intro k s h; simp at h⟩
    obtain ⟨tmp'', g1, _, _⟩ :=
      renderLoop_toks v hv hv2 cc P hP cfg segs' tmp' (loopInv_tmp cc P cfg keys' tmp' h2).ok (refsOK_img h4)
    refine ⟨heap, ?_, hok, rfl, fun _ => rfl⟩
    simp [h1, g1, bind, Except.bind, loopToks_img cc P cfg heap tmp' segs segs' h4]
  · simp only [hc, Bool.false_eq_true, if_false]
    obtain ⟨heap', g1, g2, g3⟩ := renderLoop_toks v hv hv2 cc P hP cfg segs heap hok hrefs
    exact ⟨heap', g1, g2, g3, fun h => absurd h (by simp)⟩

/-! ## histories, token for token -/

/-- The cache-free token specification of a history. -/
def specOpsToks (cc : Cfg) (P : Palettes) : List Style → List Op → List (List Tok)
  | _, [] => []
  | styles, .newStyle s :: rest => specOpsToks cc P (styles ++ [s]) rest
  | styles, .copy i :: rest =>
    match styles[i]? with
    | some s => specOpsToks cc P (styles ++ [Style.copy s]) rest
    | none => []
  | styles, .updateLink i link :: rest =>
    match styles[i]? with
    | some s => specOpsToks cc P (styles ++ [Style.updateLink StyleVariant.fixed s link]) rest
    | none => []
  | styles, .render cfg segs :: rest =>
    specToks cc P cfg (freshHeap styles) segs :: specOpsToks cc P styles rest
  | styles, .styleRender i text cs lw :: rest =>
    (match styles[i]? with
     | some s => freshToks cc P s text cs lw
     | none => []) :: specOpsToks cc P styles rest

theorem specToks_congr (cc : Cfg) (P : Palettes) (cfg : Config) {heap heap' : Heap}
    (h : heap'.map (·.style) = heap.map (·.style)) (segs : List Seg) :
    specToks cc P cfg heap' segs = specToks cc P cfg heap segs := loopToks_congr cc P cfg _ h segs

/-- **Histories write the cache-free tokens** (repaired code). -/
theorem runOps_toks (v : RVariant) (hv : v.ansiCacheUnkeyed = false) (hv2 : v.styledControlKept = false)
    (cc : Cfg) (P : Palettes) (hP : P.ok = true) (ops : List Op) :
    ∀ heap : Heap, HeapOK cc P heap → OpsOK heap.length ops →
      runOps v cc P heap ops = (specOpsToks cc P (heap.map (·.style)) ops).map Except.ok := by
  induction ops with
  | nil => intro heap _ _; rfl
  | cons op rest ih =>
    intro heap hok hops
    cases op with
    | newStyle s =>
      obtain ⟨hs, hrest⟩ := hops
      have hok' := heapOK_append cc P heap _ hok (objOK_fresh cc P s hs)
      have := ih (heap ++ [{ style := s, ansi := none }]) hok' (by simpa using hrest)
      simpa [runOps, stepOp, specOpsToks] using this
    | copy i =>
      obtain ⟨hi, hrest⟩ := hops
      obtain ⟨o, ho⟩ : ∃ o, heap[i]? = some o := ⟨heap[i], by simp [hi]⟩
      have hmem : o ∈ heap := List.mem_iff_getElem?.mpr ⟨i, ho⟩
      have hok' := heapOK_append cc P heap _ hok (objOK_copy cc P o (hok o hmem))
      have := ih _ hok' (by simpa using hrest)
      simpa [runOps, stepOp, specOpsToks, ho] using this
    | updateLink i link =>
      obtain ⟨hi, hrest⟩ := hops
      obtain ⟨o, ho⟩ : ∃ o, heap[i]? = some o := ⟨heap[i], by simp [hi]⟩
      have hmem : o ∈ heap := List.mem_iff_getElem?.mpr ⟨i, ho⟩
      have hok' := heapOK_append cc P heap _ hok (objOK_updateLink cc P o (hok o hmem) link)
      have := ih _ hok' (by simpa using hrest)
      simpa [runOps, stepOp, specOpsToks, ho] using this
    | render cfg segs =>
      obtain ⟨hrefs, hrest⟩ := hops
      obtain ⟨heap', g1, g2, g3, _⟩ := renderBuffer_toks v hv hv2 cc P hP cfg heap segs hok hrefs
      have hlen : heap'.length = heap.length := by
        have := congrArg List.length g3; simpa using this
      have := ih heap' g2 (hlen ▸ hrest)
      simp only [runOps, stepOp, g1, bind, Except.bind, this, specOpsToks, g3, List.map_cons]
      rw [specToks_congr cc P cfg (freshHeap_styles _) segs]
    | styleRender i text cs lw =>
      obtain ⟨hi, hrest⟩ := hops
      obtain ⟨o, ho⟩ : ∃ o, heap[i]? = some o := ⟨heap[i], by simp [hi]⟩
      have hmem : o ∈ heap := List.mem_iff_getElem?.mpr ⟨i, ho⟩
      obtain ⟨o', g1, g2, g3⟩ := styleRender_eq_fresh v hv cc P hP o (hok o hmem) text cs lw
      have hmap := map_style_set heap i o o' ho g2
      have hok' : HeapOK cc P (heap.set i o') := by
        intro x hx
        rcases List.mem_or_eq_of_mem_set hx with hx | rfl
        · exact hok x hx
        · exact g3
      have := ih (heap.set i o') hok' (by simpa using hrest)
      simp [runOps, stepOp, ho, g1, liftPy, bind, Except.bind, this, specOpsToks, hmap]

end RichModel.AnsiRender
