import RichModel.Lemmas.MarkupDoc
namespace RichModel.Markup

/-! ### `_parse` without positions is the chunker -/

theorem tagYield_toC (start k : Nat) (body : List Char) :
    (tagYield start k body).map PEv.toC = tagChunks k body := by
  unfold tagYield tagChunks
  by_cases hk : k = 0
  · simp [hk, PEv.toC]
  · simp only [hk, if_false]
    by_cases hb : k / 2 = 0 <;> by_cases ho : k % 2 = 1 <;> simp [hb, ho, PEv.toC]

theorem chunkGo_nil (acc : List Char) : chunkGo acc [] = flushC acc := by simp [chunkGo, chunkSt]

theorem chunkGo_ch (acc : List Char) (c : Char) (r : List Lx) :
    chunkGo acc (Lx.ch c :: r) = chunkGo (acc ++ [c]) r := by simp [chunkGo, chunkSt]

theorem chunkGo_tag (acc : List Char) (k : Nat) (b : List Char) (r : List Lx) :
    chunkGo acc (Lx.tag k b :: r) = flushC acc ++ tagChunks k b ++ chunkGo [] r := by
  simp [chunkGo, chunkSt]

theorem parseGo_toC (l : List Lx) : ∀ (off : Nat) (acc : List Char),
    (parseGo off acc l).map PEv.toC = chunkGo acc l := by
  induction l with
  | nil =>
    intro off acc
    rw [chunkGo_nil]
    by_cases ha : acc = [] <;> simp [parseGo, flushC, ha, PEv.toC]
  | cons x xs ih =>
    intro off acc
    cases x with
    | ch c => rw [chunkGo_ch, parseGo, ih]
    | tag k b =>
      rw [chunkGo_tag, parseGo, List.map_append, List.map_append, tagYield_toC, ih]
      by_cases ha : acc = [] <;> simp [flushC, ha, PEv.toC]

theorem parse_toC (m : List Char) : (parse m).map PEv.toC = chunks m := parseGo_toC (lex m) 0 []

/-! ### the render loop over chunks -/

theorem run_eq_runC (cfg : Cfg) (pevs : List PEv) : ∀ st,
    (run cfg st pevs).toOption = runC cfg st (pevs.map PEv.toC) := by
  induction pevs with
  | nil => intro st; simp [run, runC, Except.toOption]
  | cons e es ih =>
    intro st
    cases e with
    | text pos s =>
      simp only [run, step, List.map_cons, PEv.toC, runC, stepC]
      exact ih _
    | tag pos t =>
      simp only [List.map_cons, PEv.toC, runC, stepC, run]
      rw [← step_pos cfg st pos t]
      cases step cfg st (.tag pos t) with
      | ok st' => simp only [Except.toOption]; exact ih st'
      | error e => simp [Except.toOption]

/-- the early exit of `render` agrees with the general path: without `[` there is one chunk -/
theorem parse_no_bracket (m : List Char) (h : '[' ∉ m) :
    parse m = if m = [] then [] else [PEv.text 0 m] := by
  have hl : lex m = m.map Lx.ch := by
    have := lexK_no_bracket m 0 h
    simp only [List.replicate_zero, List.nil_append] at this
    exact this
  have key : ∀ (s acc : List Char) (off : Nat), parseGo off acc (s.map Lx.ch) =
      if acc ++ s = [] then [] else [PEv.text (off + s.length - (acc ++ s).length) (acc ++ s)] := by
    intro s
    induction s with
    | nil => intro acc off; simp [parseGo]
    | cons c cs ih =>
      intro acc off
      simp only [List.map_cons, parseGo]
      rw [ih]
      simp only [List.append_assoc, List.singleton_append, List.length_append, List.length_cons]
      have : off + 1 + cs.length - (acc.length + (cs.length + 1)) = off + (cs.length + 1) - (acc.length + (cs.length + 1)) := by omega
      rw [this]
  rw [parse, hl, key]
  simp

theorem stepC_tag_classify (cfg : Cfg) (st : St) (t : Tag) : stepC cfg st (.tag t) = stepEv cfg st (.tag t) := rfl

theorem chunkText_nil (cfg : Cfg) : chunkText cfg [] = [] := by
  unfold chunkText
  cases cfg.emoji <;> simp [stripControl, emojiReplace, emojiGo]

theorem finish_text (cfg : Cfg) (st : St) : (finish cfg st).1 = st.text := by
  simp only [finish, drain_eq]
  -- the fold never touches `text`
  have h : ∀ (stk : List Ent) (s0 : St), (stk.foldl (drainF st.text.length) s0).text = s0.text := by
    intro stk
    induction stk with
    | nil => intro s0; rfl
    | cons e es ih => intro s0; simp only [List.foldl_cons]; rw [ih]; rfl
  exact h _ _

/-- `render` is always the loop over the chunks followed by `finish` (early exit included). -/
theorem render_eq_runC (cfg : Cfg) (m : List Char) :
    (render cfg m).toOption = (runC cfg St.init (chunks m)).map (finish cfg) := by
  have key := run_eq_runC cfg (parse m) St.init
  rw [parse_toC] at key
  unfold render
  by_cases hb : '[' ∈ m
  · have : (!m.contains '[') = false := by simp [hb]
    simp only [this, Bool.false_eq_true, if_false]
    cases hr : run cfg St.init (parse m) with
    | ok st => rw [hr] at key; simp [Except.toOption] at key ⊢; rw [← key]; rfl
    | error e => rw [hr] at key; simp [Except.toOption] at key ⊢; rw [← key]; rfl
  · have : (!m.contains '[') = true := by simp [hb]
    simp only [this, if_true]
    rw [← parse_toC, parse_no_bracket m hb]
    by_cases hm : m = []
    · subst hm; simp [runC, Except.toOption, chunkText_nil, St.init, finish_plain]
    · simp [hm, PEv.toC, runC, stepC, Except.toOption, St.init, finish_plain]

end RichModel.Markup
