import RichModel.Lemmas.AnsiLine
/-!
Foreign control sequences other than SGR and carriage returns at line ends (property C19, repaired
variants of F31 / F32): they are dropped and the text around them comes out complete.
-/
namespace RichModel
namespace Ansi
open AsciiStr Style

/-- `ESC [ params intermediates final`: a control sequence the repaired `re_ansi` does not read as SGR —
its final byte is not `m`, or it has intermediate bytes, or a parameter byte outside `[0-9;:]`. -/
structure OtherCsi (ps is : List Char) (f : Char) : Prop where
  params : ∀ c ∈ ps, isCsiParam c = true
  inters : ∀ c ∈ is, isCsiInter c = true
  final : isCsiFinal f = true
  notSgr : f ≠ 'm' ∨ is ≠ [] ∨ ∃ c ∈ ps, isSgrParam c = false

def csiSeq (ps is : List Char) (f : Char) : List Char := ESC :: '[' :: (ps ++ (is ++ [f]))

theorem param_facts {c : Char} (h : isCsiParam c = true) : c ≠ 'm' ∧ c ≠ ESC ∧ isCsiInter c = false := by
  simp only [isCsiParam, isCsiInter, Bool.and_eq_true, decide_eq_true_eq] at *
  refine ⟨?_, ?_, ?_⟩
  · intro hc; subst hc; revert h; decide
  · intro hc; subst hc; revert h; decide
  · simp; omega

theorem inter_facts {c : Char} (h : isCsiInter c = true) :
    c ≠ 'm' ∧ c ≠ ESC ∧ isSgrParam c = false ∧ isCsiParam c = false := by
  simp only [isCsiInter, Bool.and_eq_true, decide_eq_true_eq] at h
  refine ⟨?_, ?_, ?_, ?_⟩
  · intro hc; subst hc; revert h; decide
  · intro hc; subst hc; revert h; decide
  · simp only [isSgrParam, Bool.or_eq_false_iff, Bool.and_eq_false_iff, decide_eq_false_iff_not, beq_eq_false_iff_ne, ne_eq]
    refine ⟨⟨by omega, ?_⟩, ?_⟩
    · intro hc; subst hc; revert h; decide
    · intro hc; subst hc; revert h; decide
  · simp [isCsiParam]; omega

theorem final_facts {c : Char} (h : isCsiFinal c = true) :
    c ≠ ESC ∧ isSgrParam c = false ∧ isCsiParam c = false ∧ isCsiInter c = false := by
  simp only [isCsiFinal, Bool.and_eq_true, decide_eq_true_eq] at h
  refine ⟨?_, ?_, ?_, ?_⟩
  · intro hc; subst hc; revert h; decide
  · simp only [isSgrParam, Bool.or_eq_false_iff, Bool.and_eq_false_iff, decide_eq_false_iff_not, beq_eq_false_iff_ne, ne_eq]
    refine ⟨⟨by omega, ?_⟩, ?_⟩
    · intro hc; subst hc; revert h; decide
    · intro hc; subst hc; revert h; decide
  · simp [isCsiParam]; omega
  · simp [isCsiInter]; omega

/-- the repaired pattern does not take such a sequence for SGR -/
theorem findSgrM_other {ps is : List Char} {f : Char} (h : OtherCsi ps is f) (rest : List Char) :
    findSgrM (ps ++ (is ++ f :: rest)) = none := by
  obtain ⟨hp, hi, hf, hn⟩ := h
  induction ps with
  | nil =>
    cases is with
    | nil =>
      have hfm : f ≠ 'm' := by
        rcases hn with h1 | h1 | ⟨c, hc, _⟩
        · exact h1
        · exact absurd rfl h1
        · cases hc
      simp [findSgrM, hfm, (final_facts hf).2.1]
    | cons c r =>
      obtain ⟨h1, _, h3, _⟩ := inter_facts (hi c (by simp))
      simp [findSgrM, h1, h3]
  | cons c r ih =>
    have h1 := (param_facts (hp c (by simp))).1
    by_cases hs : isSgrParam c = true
    · have hn' : f ≠ 'm' ∨ is ≠ [] ∨ ∃ c ∈ r, isSgrParam c = false := by
        rcases hn with h2 | h2 | ⟨x, hx, hbad⟩
        · exact Or.inl h2
        · exact Or.inr (Or.inl h2)
        · rcases List.mem_cons.mp hx with rfl | hx
          · rw [hs] at hbad; cases hbad
          · exact Or.inr (Or.inr ⟨x, hx, hbad⟩)
      simp [findSgrM, h1, hs, ih (fun x hx => hp x (by simp [hx])) hn']
    · simp [findSgrM, h1, hs]

/-- … so the tokenizer keeps it in the text -/
theorem tokAux_other (bel : Bool) {ps is : List Char} {f : Char} (h : OtherCsi ps is f) (rest acc : List Char) :
    tokAux false bel (csiSeq ps is f ++ rest) 0 acc = tokAux false bel rest 0 (acc ++ csiSeq ps is f) := by
  have hne : ∀ c ∈ '[' :: (ps ++ (is ++ [f])), c ≠ ESC := by
    intro c hc
    simp only [List.mem_cons, List.mem_append, List.not_mem_nil, or_false] at hc
    rcases hc with rfl | hc | hc | rfl
    · decide
    · exact (param_facts (h.params c hc)).2.1
    · exact (inter_facts (h.inters c hc)).2.1
    · exact (final_facts h.final).1
  have h1 : findM false (ps ++ (is ++ f :: rest)) = none := findSgrM_other h rest
  have h2 := tokAux_plain false bel ('[' :: (ps ++ (is ++ [f]))) rest (acc ++ [ESC]) hne
  simp only [csiSeq, List.cons_append, List.append_assoc, List.nil_append] at h2 ⊢
  simp only [tokAux, if_true, h1] at h2 ⊢
  exact h2

theorem removeCsiAux_skip (p r : List Char) : removeCsiAux (p ++ r) p.length = removeCsiAux r 0 := by
  induction p with
  | nil => rfl
  | cons c q ih => simpa [removeCsiAux] using ih

theorem csiTail_seq {ps is : List Char} {f : Char} (hp : ∀ c ∈ ps, isCsiParam c = true)
    (hi : ∀ c ∈ is, isCsiInter c = true) (hf : isCsiFinal f = true) (rest : List Char) :
    csiTail (ps ++ (is ++ f :: rest)) = some (ps.length + is.length + 1) := by
  have hd1 : (ps ++ (is ++ f :: rest)).dropWhile isCsiParam = is ++ f :: rest := by
    rw [List.dropWhile_append_of_pos hp]
    cases is with
    | nil => simp [(final_facts hf).2.2.1]
    | cons c r => simp [(inter_facts (hi c (by simp))).2.2.2]
  have ht1 : (ps ++ (is ++ f :: rest)).takeWhile isCsiParam = ps := by
    rw [List.takeWhile_append_of_pos hp]
    cases is with
    | nil => simp [(final_facts hf).2.2.1]
    | cons c r => simp [(inter_facts (hi c (by simp))).2.2.2]
  have hd2 : (is ++ f :: rest).dropWhile isCsiInter = f :: rest := by
    rw [List.dropWhile_append_of_pos hi]
    simp [(final_facts hf).2.2.2]
  have ht2 : (is ++ f :: rest).takeWhile isCsiInter = is := by
    rw [List.takeWhile_append_of_pos hi]
    simp [(final_facts hf).2.2.2]
  simp [csiTail, hd1, ht1, hd2, ht2, hf]

/-- `re_csi.sub("", …)` takes the sequence out of text that has no other escape before it -/
theorem removeCsi_other {ps is : List Char} {f : Char} (h : OtherCsi ps is f) (t1 t2 : List Char)
    (h1 : ∀ c ∈ t1, c ≠ ESC) : removeCsi (t1 ++ csiSeq ps is f ++ t2) = t1 ++ removeCsi t2 := by
  unfold removeCsi
  induction t1 with
  | nil =>
    have hb : isEscFinal '[' = false := by decide
    have ht := csiTail_seq h.params h.inters h.final t2
    have hs := removeCsiAux_skip (ps ++ (is ++ [f])) t2
    simp only [List.append_assoc, List.cons_append, List.nil_append, List.length_append, List.length_cons,
      List.length_nil] at hs
    simp only [csiSeq, List.nil_append, List.cons_append, List.append_assoc]
    simp only [removeCsiAux, if_true, hb, Bool.false_eq_true, if_false]
    rw [ht]
    simp only
    have : ps.length + is.length + 1 = ps.length + (is.length + (0 + 1)) := by omega
    rw [this]
    exact hs
  | cons c r ih =>
    have hc : c ≠ ESC := h1 c (by simp)
    simp only [List.cons_append, removeCsiAux, hc, if_false]
    rw [← ih (fun x hx => h1 x (by simp [hx]))]

/-- **A control sequence that is not SGR is dropped without touching the text** (repaired F32): a line
`t1 ++ ESC[…f ++ t2` of plain text around one such sequence decodes to `t1 ++ t2`, complete. -/
theorem decodeLine_other_csi (cfg : Cfg) (hl : cfg.sgrLazy = false) (st : Style) {ps is : List Char} {f : Char}
    (h : OtherCsi ps is f) (t1 t2 : List Char) (h1 : textOk t1 = true) (h2 : textOk t2 = true) :
    ∃ runs, decodeLine cfg st (t1 ++ csiSeq ps is f ++ t2) = (st, .ok runs) ∧ plainOf runs = t1 ++ t2 := by
  have hcsiCR : ∀ c ∈ csiSeq ps is f, c ≠ '\r' := by
    intro c hc
    simp only [csiSeq, List.mem_cons, List.mem_append, List.not_mem_nil, or_false] at hc
    rcases hc with rfl | rfl | hc | hc | rfl
    · decide
    · decide
    · intro e; subst e; have := h.params _ hc; revert this; decide
    · intro e; subst e; have := h.inters _ hc; revert this; decide
    · intro e; subst e; have := h.final; revert this; decide
  have hcr : ∀ c ∈ t1 ++ csiSeq ps is f ++ t2, c ≠ '\r' := by
    intro c hc
    simp only [List.mem_append] at hc
    rcases hc with (hc | hc) | hc
    · exact textOk_noCR h1 c hc
    · exact hcsiCR c hc
    · exact textOk_noCR h2 c hc
  have e0 : decodeLine cfg st (t1 ++ csiSeq ps is f ++ t2) = R cfg st (t1 ++ csiSeq ps is f ++ t2) [] := by
    have := afterLastCR_noCR cfg.crErases _ hcr
    simp only [decodeLine, R, tokenize, this]
  have e1 : R cfg st (t1 ++ csiSeq ps is f ++ t2) [] = R cfg st [] (t1 ++ csiSeq ps is f ++ t2) := by
    have a := R_text cfg st t1 (csiSeq ps is f ++ t2) [] (textOk_noEsc h1)
    have b : R cfg st (csiSeq ps is f ++ t2) ([] ++ t1) = R cfg st t2 (([] ++ t1) ++ csiSeq ps is f) := by
      unfold R; rw [hl, tokAux_other _ h]
    have c := R_text cfg st t2 [] (([] ++ t1) ++ csiSeq ps is f) (textOk_noEsc h2)
    simp only [List.append_assoc, List.nil_append, List.append_nil] at a b c ⊢
    rw [a, b, c]
  have hrem : removeCsi (t1 ++ csiSeq ps is f ++ t2) = t1 ++ t2 := by
    rw [removeCsi_other h t1 t2 (textOk_noEsc h1), removeCsi_noEsc t2 (textOk_noEsc h2)]
  have hne : (t1 ++ csiSeq ps is f ++ t2).isEmpty = false := by simp [csiSeq]
  refine ⟨flushRuns st (t1 ++ csiSeq ps is f ++ t2), ?_, ?_⟩
  · rw [e0, e1, R_nil]; simp [push, Except.map]
  · simp only [flushRuns, hne, hrem, Bool.false_or]
    split
    · rename_i he; simp [plainOf, List.isEmpty_iff.mp he]
    · simp [plainOf, stripCtl_textOk (textOk_append h1 h2)]

/-- **CR LF terminated output comes out complete** (repaired F31): carriage returns at the end of a line
erase nothing. -/
theorem decodeLine_trailing_cr (cfg : Cfg) (hc : cfg.crErases = false) (st : Style) (l : List Char)
    (h : textOk l = true) (k : Nat) :
    ∃ runs, decodeLine cfg st (l ++ List.replicate k '\r') = (st, .ok runs) ∧ plainOf runs = l := by
  obtain ⟨runs, h1, h2⟩ := decodeLine_plain cfg st l h
  refine ⟨runs, ?_, h2⟩
  rw [← h1]
  simp only [decodeLine, hc, afterLastCR_trailing l (textOk_noCR h) k, afterLastCR_noCR false l (textOk_noCR h)]

end Ansi
end RichModel
