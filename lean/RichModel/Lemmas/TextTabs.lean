import RichModel.Lemmas.TextSplit
import RichModel.Lemmas.WrapTabs
/-!
`expand_tabs` at full strength: every tab becomes 1 … `tab_size` blanks up to the next multiple of the tab
size (columns counted from the last newline), the first blank in the tab's style, the others in the base
style; every other character stays, in order, with its effective style (under one more application of the
base style, because the text is rebuilt with `append`).
-/
namespace RichModel
namespace Text
variable {σ : Type}

/-! ### the shape of the pieces of a one-character split -/

/-- a piece that ends with its (only) separator -/
def Closed (d : Char) (p : List Char) : Prop := ∃ w, p = w ++ [d] ∧ d ∉ w

/-- every piece but the last ends with its only separator; the last one does too, or has none -/
def Shape (d : Char) : List (List Char) → Prop
  | [] => True
  | [p] => Closed d p ∨ d ∉ p
  | p :: q :: r => Closed d p ∧ Shape d (q :: r)

theorem shape_closed (d : Char) : ∀ (init : List (List Char)), (∀ p ∈ init, Closed d p) → Shape d init
  | [], _ => trivial
  | [p], h => Or.inl (h p (by simp))
  | p :: q :: r, h => ⟨h p (by simp), shape_closed d (q :: r) (fun x hx => h x (List.mem_cons_of_mem _ hx))⟩

theorem shape_init_last (d : Char) : ∀ (init : List (List Char)) (last : List Char),
    (∀ p ∈ init, Closed d p) → d ∉ last → Shape d (init ++ [last])
  | [], last, _, hl => Or.inr hl
  | [p], last, h, hl => ⟨h p (by simp), Or.inr hl⟩
  | p :: q :: r, last, h, hl =>
    ⟨h p (by simp), shape_init_last d (q :: r) last (fun x hx => h x (List.mem_cons_of_mem _ hx)) hl⟩

theorem take_len_succ {α : Type} : ∀ (a : List α) (x : α) (r : List α), (a ++ x :: r).take (a.length + 1) = a ++ [x]
  | [], _, _ => by simp
  | y :: ys, x, r => by simp [take_len_succ ys x r]

/-- cutting `pre ++ s` after every `d` of `s` (from `start` on, no `d` in `pre` after `start`) -/
theorem charPieces (d : Char) : ∀ (s pre : List Char) (start : Nat), start ≤ pre.length → d ∉ pre.drop start →
    ∃ init last, piecesFrom start ((findAllAux [d] s pre.length 0).map (·.2)) (pre ++ s) = init ++ [last] ∧
      (∀ p ∈ init, Closed d p) ∧ d ∉ last ∧ init.length = (findAllAux [d] s pre.length 0).length
  | [], pre, start, _, hpre => by
    refine ⟨[], pre.drop start, ?_, by simp, hpre, rfl⟩
    simp [findAllAux, piecesFrom]
  | c :: rest, pre, start, hs, hpre => by
    rw [Wrap.findAllAux_char_cons]
    have happ : pre ++ c :: rest = (pre ++ [c]) ++ rest := by simp
    by_cases hc : c = d
    · subst hc
      simp only [if_true, List.map_cons, piecesFrom]
      obtain ⟨init, last, h1, h2, h3, h4⟩ := charPieces c rest (pre ++ [c]) (pre.length + 1) (by simp) (by simp)
      simp only [List.length_append, List.length_cons, List.length_nil, Nat.zero_add] at h1 h4
      refine ⟨(pre.drop start ++ [c]) :: init, last, ?_, ?_, h3, by simp [h4]⟩
      · rw [happ, h1]
        have : (List.drop start (pre ++ [c] ++ rest)).take (pre.length + 1 - start) = pre.drop start ++ [c] := by
          rw [List.append_assoc, List.drop_append_of_le_length hs]
          have hl : pre.length + 1 - start = (pre.drop start).length + 1 := by simp; omega
          rw [hl]
          exact take_len_succ _ c rest
        rw [this]; rfl
      · intro p hp
        rcases List.mem_cons.1 hp with rfl | hp
        · exact ⟨pre.drop start, rfl, hpre⟩
        · exact h2 p hp
    · simp only [hc, if_false]
      obtain ⟨init, last, h1, h2, h3, h4⟩ := charPieces d rest (pre ++ [c]) start (by simp; omega) (by
        rw [List.drop_append_of_le_length hs]
        intro hm
        rcases List.mem_append.1 hm with hm | hm
        · exact hpre hm
        · simp only [List.mem_singleton] at hm; exact hc hm.symm)
      simp only [List.length_append, List.length_cons, List.length_nil, Nat.zero_add] at h1 h4
      exact ⟨init, last, by rw [happ]; exact h1, h2, h3, h4⟩

/-- `text.split(d, include_separator=True)`: consistent parts under the same base style that concatenate to the
text, every part but the last ending with its only `d` -/
theorem split_char_shape [BEq σ] (d : Char) (t : Text σ) (h : Inv t) :
    ∃ parts, t.split Variant.repaired [d] true = .ok parts ∧
      parts.flatMap Text.view = t.view ∧ (∀ l ∈ parts, Inv l ∧ l.style = t.style) ∧
      Shape d (parts.map (·.plain)) := by
  obtain ⟨parts, hsp, hflat, hall⟩ := Wrap.split_char_spec d t h
  refine ⟨parts, hsp, hflat, hall, ?_⟩
  obtain ⟨init, last, h1, h2, h3, h4⟩ := charPieces d t.plain [] 0 (Nat.le_refl _) (by simp)
  simp only [List.length_nil, List.nil_append] at h1 h4
  unfold Text.split at hsp
  simp only [List.isEmpty_cons, Bool.false_eq_true, if_false, Bool.not_false, Bool.true_and, if_true] at hsp
  by_cases hms : (findAll [d] t.plain).isEmpty = true
  · rw [if_pos hms] at hsp
    cases hsp
    simp only [List.map_cons, List.map_nil, copy_eq_self t h]
    have hz : init = [] := by
      have : (findAllAux [d] t.plain 0 0).length = 0 := by
        have := List.isEmpty_iff.1 hms; simp only [findAll] at this; rw [this]; rfl
      exact List.length_eq_zero_iff.1 (by omega)
    subst hz
    have hnil : findAllAux [d] t.plain 0 0 = [] := by
      have := List.isEmpty_iff.1 hms; simpa [findAll] using this
    rw [hnil] at h1
    simp only [List.map_nil, piecesFrom, List.drop_zero, List.nil_append, List.cons.injEq, and_true] at h1
    exact Or.inr (by rw [h1]; exact h3)
  · rw [if_neg hms] at hsp
    obtain ⟨hasc, hb⟩ := Wrap.findAllAux_char_asc d t.plain 0
    obtain ⟨lines, hdiv, _, hplain, _⟩ :=
      divide_view t ((findAllAux [d] t.plain 0 0).map (·.2)) h hasc (by simpa using hb)
    simp only [findAll] at hsp
    rw [hdiv] at hsp
    simp only [bind, Except.bind, pure, Except.pure] at hsp
    have hpl : lines.map (·.plain) = init ++ [last] := by rw [hplain]; exact h1
    split at hsp
    · cases hsp
      rw [List.map_dropLast, hpl, List.dropLast_concat]
      exact shape_closed d init h2
    · cases hsp
      rw [hpl]
      exact shape_init_last d init last h2 h3

/-! ### `expandtabs` on a styled string -/

/-- column after the styled characters `v`, starting in column `col` (a newline resets it, a tab moves to the
next multiple of `ts`) -/
def colAfter {β : Type} (ts : Nat) : List (Char × β) → Nat → Nat
  | [], col => col
  | (c, _) :: rest, col =>
    if c = '\t' then colAfter ts rest (col + (ts - col % ts))
    else colAfter ts rest (if c = '\n' then 0 else col + 1)

/-- **Reference semantics of `expand_tabs(ts)`** on a styled string under base style `b`: a tab in column `col`
becomes `ts - col % ts` blanks (1 … `ts`, up to the next multiple of `ts`) — the first with the tab's style, the
others in the bare base style (applied twice: once as the text's base, once by the `append`) —, every other
character stays with its style under one more application of the base style. -/
def expRef (ts : Nat) (b : σ) : List (Char × List σ) → Nat → List (Char × List σ)
  | [], _ => []
  | (c, ids) :: rest, col =>
    if c = '\t' then
      (' ', b :: ids) :: (List.replicate (ts - col % ts - 1) (' ', [b, b]) ++ expRef ts b rest (col + (ts - col % ts)))
    else (c, b :: ids) :: expRef ts b rest (if c = '\n' then 0 else col + 1)

theorem expRef_append (ts : Nat) (b : σ) : ∀ (a r : List (Char × List σ)) (col : Nat),
    expRef ts b (a ++ r) col = expRef ts b a col ++ expRef ts b r (colAfter ts a col)
  | [], r, col => rfl
  | (c, ids) :: a, r, col => by
    simp only [List.cons_append, expRef, colAfter]
    split
    · rw [expRef_append ts b a r]; simp
    · rw [expRef_append ts b a r]; simp

theorem colAfter_append {β : Type} (ts : Nat) : ∀ (a r : List (Char × β)) (col : Nat),
    colAfter ts (a ++ r) col = colAfter ts r (colAfter ts a col)
  | [], r, col => rfl
  | (c, x) :: a, r, col => by
    simp only [List.cons_append, colAfter]
    split <;> rw [colAfter_append ts a r]

/-- without tabs only the base style is added -/
theorem expRef_notab (ts : Nat) (b : σ) : ∀ (a : List (Char × List σ)) (col : Nat), (∀ p ∈ a, p.1 ≠ '\t') →
    expRef ts b a col = a.map (fun p => (p.1, b :: p.2))
  | [], _, _ => rfl
  | (c, ids) :: a, col, h => by
    have hc : c ≠ '\t' := h (c, ids) (by simp)
    simp only [expRef, hc, if_false, List.map_cons]
    rw [expRef_notab ts b a _ (fun p hp => h p (List.mem_cons_of_mem _ hp))]

/-- without tabs and newlines the column just advances -/
theorem colAfter_plain {β : Type} (ts : Nat) : ∀ (a : List (Char × β)) (col : Nat),
    (∀ p ∈ a, p.1 ≠ '\t' ∧ p.1 ≠ '\n') → colAfter ts a col = col + a.length
  | [], _, _ => rfl
  | (c, x) :: a, col, h => by
    obtain ⟨h1, h2⟩ := h (c, x) (by simp)
    simp only [colAfter, h1, h2, if_false, List.length_cons]
    rw [colAfter_plain ts a _ (fun p hp => h p (List.mem_cons_of_mem _ hp))]
    omega

theorem next_tab_stop (ts col : Nat) (hts : 0 < ts) : (col + (ts - col % ts)) % ts = 0 := by
  have h1 := Nat.div_add_mod col ts
  have h2 := Nat.mod_lt col hts
  have : col + (ts - col % ts) = ts * (col / ts + 1) := by
    rw [Nat.mul_add, Nat.mul_one]; omega
  rw [this, Nat.mul_mod_right]

/-! ### one part of a line -/

theorem annot_mem_fst {β : Type} : ∀ (s : List Char) (f : Nat → β) (k : Nat) (p : Char × β), p ∈ annot s f k → p.1 ∈ s
  | [], _, _, _, h => by simp [annot] at h
  | c :: cs, f, k, p, h => by
    simp only [annot, List.mem_cons] at h
    rcases h with rfl | h
    · simp
    · exact List.mem_cons_of_mem _ (annot_mem_fst cs f (k + 1) p h)

theorem annot_snoc {β : Type} (w : List Char) (x : Char) (f : Nat → β) :
    annot (w ++ [x]) f 0 = annot w f 0 ++ [(x, f w.length)] := by
  rw [annot_append]; simp [annot]

theorem stripControl_blanks (k : Nat) : stripControl (List.replicate k ' ') = List.replicate k ' ' :=
  stripControl_id _ (NoCtl.replicate k ' ' noCtl_space)

/-- a part `w ++ "\t"` (no other tab, no newline) appended in column `col`, with `pos` and `col` multiples of the tab size -/
theorem expandPart_tab (ts : Nat) (hts : 0 < ts) (base : σ) (result : Text σ) (pos : Int) (col : Nat)
    (part : Text σ) (w : List Char) (h : Inv result) (hb : result.style = base) (hp : Inv part)
    (hw : part.plain = w ++ ['\t']) (hwt : '\t' ∉ w) (hwn : '\n' ∉ w)
    (hpos : ∃ q : Int, pos = (ts : Int) * q) (hcol : col % ts = 0) :
    Inv (expandPart ts base (result, pos) part).1 ∧
    (expandPart ts base (result, pos) part).1.style = base ∧
    (expandPart ts base (result, pos) part).1.view = result.view ++ expRef ts base part.view col ∧
    (∃ q : Int, (expandPart ts base (result, pos) part).2 = (ts : Int) * q) ∧
    colAfter ts part.view col % ts = 0 := by
  have hsuf : ['\t'].isSuffixOf part.plain = true := by
    rw [List.isSuffixOf_iff_suffix, hw]; exact List.suffix_append _ _
  obtain ⟨hd, _⟩ := Wrap.detab_spec part hp hsuf
  -- the part's styled string
  have hpv : part.view = annot w part.effStyle 0 ++ [('\t', part.effStyle w.length)] := by
    rw [view_eq_annot, hw, annot_snoc]
  have hdv : (Wrap.detab part).view = annot w part.effStyle 0 ++ [(' ', part.effStyle w.length)] := by
    have hpl : (Wrap.detab part).plain = w ++ [' '] := by simp [Wrap.detab, hw]
    have he : (Wrap.detab part).effStyle = part.effStyle := rfl
    rw [view_eq_annot, hpl, he, annot_snoc]
  have hvw : ∀ p ∈ annot w part.effStyle 0, p.1 ≠ '\t' ∧ p.1 ≠ '\n' := by
    intro p hp'
    have := annot_mem_fst w _ _ p hp'
    exact ⟨fun e => hwt (e ▸ this), fun e => hwn (e ▸ this)⟩
  have hlenw : (annot w part.effStyle 0).length = w.length := annot_length _ _ _
  -- the reference
  have href : expRef ts base part.view col =
      (annot w part.effStyle 0).map (fun p => (p.1, base :: p.2)) ++
        ((' ', base :: part.effStyle w.length) :: List.replicate (ts - (col + w.length) % ts - 1) (' ', [base, base])) := by
    rw [hpv, expRef_append, expRef_notab ts base _ _ (fun p hp' => (hvw p hp').1), colAfter_plain ts _ _ hvw, hlenw]
    simp [expRef]
  have hcolA : colAfter ts part.view col % ts = 0 := by
    rw [hpv, colAfter_append, colAfter_plain ts _ _ hvw, hlenw]
    simp only [colAfter, if_true]
    exact next_tab_stop ts _ hts
  -- arithmetic
  obtain ⟨q, hq⟩ := hpos
  have hmod : (col + w.length) % ts = w.length % ts := by
    rw [Nat.add_mod, hcol, Nat.zero_add, Nat.mod_mod]
  have hlt := Nat.mod_lt w.length hts
  have hdm := Nat.div_add_mod w.length ts
  have hplen : part.length = (w.length : Int) + 1 := by
    rw [hp.1, hw]; simp
  have hsp : (ts : Int) - ((pos + ((w.length : Int) + 1) - 1) % (ts : Int)) - 1 = ((ts - (col + w.length) % ts - 1 : Nat) : Int) := by
    have e1 : pos + ((w.length : Int) + 1) - 1 = (w.length : Int) + (ts : Int) * q := by rw [hq]; omega
    rw [e1, Int.add_mul_emod_self_left, hmod]
    have e2 : (w.length : Int) % (ts : Int) = ((w.length % ts : Nat) : Int) := (Int.natCast_emod _ _).symm
    rw [e2]; omega
  -- the model
  have hi1 := inv_appendT result (Wrap.detab part) h hd
  have hv1 : (result.appendT (Wrap.detab part)).view =
      result.view ++ (annot w part.effStyle 0).map (fun p => (p.1, base :: p.2)) ++ [(' ', base :: part.effStyle w.length)] := by
    rw [view_appendT _ _ h hd, hdv, hb]; simp
  have hs1 : (result.appendT (Wrap.detab part)).style = base := by rw [Wrap.appendT_style, hb]
  unfold expandPart
  simp only [hsuf, if_true]
  have hdet : ({ part with plain := part.plain.dropLast ++ [' '] } : Text σ) = Wrap.detab part := rfl
  rw [hdet, hplen, hsp]
  generalize hk : ts - (col + w.length) % ts - 1 = k
  by_cases hk0 : ((k : Int) != 0) = true
  · simp only [hk0, if_true, Int.toNat_natCast]
    refine ⟨inv_appendStr _ _ _ hi1, by rw [Wrap.appendStr_style]; exact hs1, ?_, ?_, hcolA⟩
    · rw [view_appendStr _ _ _ hi1, hv1, href, hk, stripControl_blanks, hs1]
      simp [List.map_replicate]
    · refine ⟨q + 1 + (w.length / ts : Nat), ?_⟩
      have hk' : k = ts - w.length % ts - 1 := by rw [← hk, hmod]
      have : ((w.length : Nat) : Int) = (ts : Int) * ((w.length / ts : Nat) : Int) + ((w.length % ts : Nat) : Int) := by
        exact_mod_cast hdm.symm
      rw [hq, Int.mul_add, Int.mul_add, Int.mul_one]
      rw [hk']; omega
  · have hkz : k = 0 := by simpa using hk0
    simp only [hk0, Bool.false_eq_true, if_false]
    refine ⟨hi1, hs1, ?_, ?_, hcolA⟩
    · rw [hv1, href, hk, hkz]; simp
    · refine ⟨q + 1 + (w.length / ts : Nat), ?_⟩
      have hk' : 0 = ts - w.length % ts - 1 := by rw [← hkz, ← hk, hmod]
      have : ((w.length : Nat) : Int) = (ts : Int) * ((w.length / ts : Nat) : Int) + ((w.length % ts : Nat) : Int) := by
        exact_mod_cast hdm.symm
      rw [hq, Int.mul_add, Int.mul_add, Int.mul_one]
      omega

/-- a part without a tab is appended as it is -/
theorem expandPart_tail (ts : Nat) (base : σ) (result : Text σ) (pos : Int) (col : Nat) (part : Text σ)
    (h : Inv result) (hb : result.style = base) (hp : Inv part) (hnt : '\t' ∉ part.plain) :
    Inv (expandPart ts base (result, pos) part).1 ∧
    (expandPart ts base (result, pos) part).1.style = base ∧
    (expandPart ts base (result, pos) part).1.view = result.view ++ expRef ts base part.view col ∧
    (expandPart ts base (result, pos) part).2 = pos := by
  have hsuf : ['\t'].isSuffixOf part.plain = false := by
    apply Bool.eq_false_iff.2
    intro hs
    obtain ⟨s, hs⟩ := List.isSuffixOf_iff_suffix.mp hs
    exact hnt (by rw [← hs]; simp)
  unfold expandPart
  simp only [hsuf, Bool.false_eq_true, if_false]
  refine ⟨inv_appendT _ _ h hp, by rw [Wrap.appendT_style, hb], ?_, by first | rfl | trivial⟩
  rw [view_appendT _ _ h hp, hb, expRef_notab]
  intro p hp' e
  rw [view_eq_annot] at hp'
  exact hnt (e ▸ annot_mem_fst _ _ _ p hp')

/-- no newline except possibly as the very last character -/
def NlLast (ps : List (List Char)) : Prop := ∀ c ∈ ps.flatten.dropLast, c ≠ '\n'

theorem nlLast_tail (p : List Char) (ps : List (List Char)) (h : NlLast (p :: ps)) : NlLast ps := by
  unfold NlLast at h ⊢
  simp only [List.flatten_cons] at h
  intro c hc
  by_cases hf : ps.flatten = []
  · rw [hf] at hc; simp at hc
  · rw [List.dropLast_append_of_ne_nil hf] at h
    exact h c (List.mem_append_right _ hc)

theorem nlLast_head (w : List Char) (x : Char) (ps : List (List Char)) (h : NlLast ((w ++ [x]) :: ps)) : '\n' ∉ w := by
  unfold NlLast at h
  simp only [List.flatten_cons, List.append_assoc] at h
  intro hm
  have hne : [x] ++ ps.flatten ≠ [] := by simp
  rw [List.dropLast_append_of_ne_nil hne] at h
  exact h '\n' (List.mem_append_left _ hm) rfl

/-- the inner loop over the parts of one line -/
theorem expandParts_full (ts : Nat) (hts : 0 < ts) (base : σ) : ∀ (parts : List (Text σ)) (result : Text σ) (pos : Int) (col : Nat),
    Inv result → result.style = base → (∀ l ∈ parts, Inv l) → Shape '\t' (parts.map (·.plain)) → NlLast (parts.map (·.plain)) →
    (∃ q : Int, pos = (ts : Int) * q) → col % ts = 0 →
    Inv (parts.foldl (expandPart ts base) (result, pos)).1 ∧
      (parts.foldl (expandPart ts base) (result, pos)).1.style = base ∧
      (parts.foldl (expandPart ts base) (result, pos)).1.view = result.view ++ expRef ts base (parts.flatMap Text.view) col ∧
      ∃ q : Int, (parts.foldl (expandPart ts base) (result, pos)).2 = (ts : Int) * q
  | [], result, pos, col, h, hb, _, _, _, hpos, _ => by simp [h, hb, expRef, hpos]
  | part :: ps, result, pos, col, h, hb, hp, hsh, hnl, hpos, hcol => by
    simp only [List.foldl_cons, List.flatMap_cons]
    have hpart := hp part (by simp)
    have hps : ∀ l ∈ ps, Inv l := fun l hl => hp l (List.mem_cons_of_mem _ hl)
    have closedCase : Closed '\t' part.plain → Shape '\t' (ps.map (·.plain)) →
        (Inv (ps.foldl (expandPart ts base) (expandPart ts base (result, pos) part)).1 ∧
        (ps.foldl (expandPart ts base) (expandPart ts base (result, pos) part)).1.style = base ∧
        (ps.foldl (expandPart ts base) (expandPart ts base (result, pos) part)).1.view =
          result.view ++ expRef ts base (part.view ++ ps.flatMap Text.view) col ∧
        ∃ q : Int, (ps.foldl (expandPart ts base) (expandPart ts base (result, pos) part)).2 = (ts : Int) * q) := by
      intro hc hsh'
      obtain ⟨w, hw, hwt⟩ := hc
      have hwn : '\n' ∉ w := by
        have := hnl
        simp only [List.map_cons, hw] at this
        exact nlLast_head w '\t' _ this
      obtain ⟨a1, a2, a3, a4, a5⟩ := expandPart_tab ts hts base result pos col part w h hb hpart hw hwt hwn hpos hcol
      obtain ⟨b1, b2, b3, b4⟩ := expandParts_full ts hts base ps _ _ (colAfter ts part.view col) a1 a2 hps hsh'
        (nlLast_tail _ _ (by simpa using hnl)) a4 a5
      exact ⟨b1, b2, by rw [b3, a3, expRef_append, List.append_assoc], b4⟩
    cases ps with
    | nil =>
      simp only [List.map_cons, List.map_nil, Shape] at hsh
      rcases hsh with hc | hnt
      · exact closedCase hc trivial
      · obtain ⟨a1, a2, a3, a4⟩ := expandPart_tail ts base result pos col part h hb hpart hnt
        simp only [List.foldl_nil, List.flatMap_nil, List.append_nil]
        exact ⟨a1, a2, a3, by rw [a4]; exact hpos⟩
    | cons p2 ps2 =>
      simp only [List.map_cons, Shape] at hsh
      exact closedCase hsh.1 (by simpa using hsh.2)

theorem flatten_plains : ∀ (parts : List (Text σ)),
    (parts.map (·.plain)).flatten = (parts.flatMap Text.view).map (·.1)
  | [] => rfl
  | p :: ps => by
    simp only [List.map_cons, List.flatten_cons, List.flatMap_cons, List.map_append, flatten_plains ps]
    rw [view_eq_annot, annot_map_fst]

theorem colAfter_newline_last {β : Type} (ts : Nat) (a : List (Char × β)) (x : β) (col : Nat) :
    colAfter ts (a ++ [('\n', x)]) col = 0 := by
  rw [colAfter_append]
  simp [colAfter]

/-- the outer loop over the lines -/
theorem expandLines_full [BEq σ] (ts : Nat) (hts : 0 < ts) (base : σ) :
    ∀ (lines : List (Text σ)) (result : Text σ) (pos : Int) (col : Nat),
    Inv result → result.style = base → (∀ l ∈ lines, Inv l) → Shape '\n' (lines.map (·.plain)) →
    (∃ q : Int, pos = (ts : Int) * q) → col % ts = 0 →
    ∃ r, lines.foldlM (fun (acc : Text σ × Int) line => do
        let parts ← line.split Variant.repaired ['\t'] true
        pure (parts.foldl (expandPart ts base) acc)) (result, pos) = Except.ok r ∧
      Inv r.1 ∧ r.1.style = base ∧ r.1.view = result.view ++ expRef ts base (lines.flatMap Text.view) col
  | [], result, pos, col, h, hb, _, _, _, _ => ⟨(result, pos), rfl, h, hb, by simp [expRef]⟩
  | line :: ls, result, pos, col, h, hb, hl, hsh, hpos, hcol => by
    have hline := hl line (by simp)
    obtain ⟨parts, hsp, hflat, hall, hshape⟩ := split_char_shape '\t' line hline
    -- the line has a newline at most at its very end
    have hlineShape : Closed '\n' line.plain ∨ '\n' ∉ line.plain := by
      cases ls with
      | nil => simpa [Shape] using hsh
      | cons l2 ls2 => exact Or.inl (by simpa [Shape] using hsh.1)
    have hplain : (parts.map (·.plain)).flatten = line.plain := by
      rw [flatten_plains, hflat, view_eq_annot, annot_map_fst]
    have hnl : NlLast (parts.map (·.plain)) := by
      unfold NlLast
      rw [hplain]
      intro c hc e
      rcases hlineShape with ⟨w, hw, hwn⟩ | hn
      · rw [hw, List.dropLast_concat] at hc; exact hwn (e ▸ hc)
      · exact hn (e ▸ List.dropLast_subset _ hc)
    obtain ⟨a1, a2, a3, a4⟩ := expandParts_full ts hts base parts result pos col h hb (fun l hl' => (hall l hl').1)
      hshape hnl hpos hcol
    rw [hflat] at a3
    simp only [List.foldlM_cons, hsp, bind, Except.bind, pure, Except.pure, List.flatMap_cons]
    cases ls with
    | nil =>
      refine ⟨_, rfl, a1, a2, ?_⟩
      simp only [List.flatMap_nil, List.append_nil]
      exact a3
    | cons l2 ls2 =>
      have hclosed : Closed '\n' line.plain := by simpa [Shape] using hsh.1
      obtain ⟨w, hw, _⟩ := hclosed
      have hcol' : colAfter ts line.view col % ts = 0 := by
        rw [view_eq_annot, hw, annot_snoc, colAfter_newline_last]
        exact Nat.zero_mod _
      obtain ⟨r, hr, b1, b2, b3⟩ := expandLines_full ts hts base (l2 :: ls2) _ _ (colAfter ts line.view col) a1 a2
        (fun l hl' => hl l (List.mem_cons_of_mem _ hl')) (by simpa [Shape] using hsh.2) a4 hcol'
      refine ⟨r, hr, b1, b2, ?_⟩
      rw [b3, a3, expRef_append, List.append_assoc]

/-- **`expand_tabs` at full strength.**  With effective tab size `ts ≥ 1` (the argument, else the text's own
`tab_size`): no tab → the text is returned untouched; otherwise the call succeeds, the result is consistent, keeps
the base style, and its styled string is `expRef ts base (view t) 0`: every tab becomes `ts - col % ts` blanks
(`col` counted from the last newline — multi-line texts included), the first in the tab's style and the rest in
the base style, all other characters in order with their effective styles. -/
theorem expandTabs_view [BEq σ] (t : Text σ) (h : Inv t) (tabSize : Option Nat) (ts : Nat) (hts : 0 < ts)
    (heff : tabSize.orElse (fun _ => t.tabSize) = some ts) :
    ∃ q, t.expandTabs Variant.repaired tabSize = .ok q ∧ Inv q ∧ q.style = t.style ∧
      (t.plain.contains '\t' = false → q = t) ∧
      (t.plain.contains '\t' = true → q.view = expRef ts t.style t.view 0) := by
  unfold expandTabs
  by_cases hc : t.plain.contains '\t' = true
  · simp only [hc, Bool.not_true, Bool.false_eq_true, if_false, heff]
    obtain ⟨n, rfl⟩ : ∃ n, ts = n + 1 := ⟨ts - 1, by omega⟩
    simp only
    obtain ⟨lines, hsplit, hview, hall, hshape⟩ := split_char_shape '\n' t h
    obtain ⟨r, hr, g1, g2, g3⟩ := expandLines_full (n + 1) hts t.style lines (t.blankCopy Variant.repaired) 0 0
      (inv_blankCopy t) rfl (fun l hl => (hall l hl).1) hshape ⟨0, by simp⟩ (Nat.zero_mod _)
    rw [hsplit]
    simp only [bind, Except.bind, pure, Except.pure] at hr ⊢
    rw [hr]
    obtain ⟨hl, hcc, hsp⟩ := (inv_iff _).1 g1
    refine ⟨_, rfl, ⟨rfl, hcc, ?_⟩, rfl, fun hf => Bool.noConfusion hf, fun _ => ?_⟩
    · intro sp hsp'
      have := hsp sp hsp'
      simp only []; omega
    · have hv : (view { t with plain := r.1.plain, length := (r.1.plain.length : Int), spans := r.1.spans }) = r.1.view := by
        rw [view_eq_annot, view_eq_annot]
        apply annot_congr
        intro i _ _
        simp only [effStyle, g2]
      rw [hv, g3, hview]
      have : (t.blankCopy Variant.repaired).view = [] := rfl
      rw [this]; rfl
  · have hf : t.plain.contains '\t' = false := by simpa using hc
    simp only [hf, Bool.not_false, if_true]
    exact ⟨t, rfl, h, rfl, fun _ => rfl, fun ht => by simp at ht⟩

end Text
end RichModel
