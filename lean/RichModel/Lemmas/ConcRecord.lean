import RichModel.Lemmas.ConcInv
import RichModel.Lemmas.ConcOut
/-!
The record (`Console._record_buffer`) has the order of the file: the record append and the `file.write` of
one flush happen inside the same critical section of the console lock.
-/
set_option linter.unusedSimpArgs false
namespace RichModel.Conc
open RichModel

/-- The buffer that is already recorded but not yet written: that of the thread inside the flush. -/
def pend (s : State) : List Item :=
  match s.sh.owner .console with
  | some t => if (s.th t).recDone then (s.th t).buffer else []
  | none => []

def fileItems (s : State) : List Item := s.sh.file.flatMap (·.items)

def RecInv (s : State) : Prop :=
  s.sh.record.filter nonEmpty = (fileItems s ++ pend s).filter nonEmpty

/-- What the static check guarantees in front of the actions the record invariant cares about. -/
theorem sim_facts {cfg : Cfg} {g : Guard} {act : Act} {r : List GAct} {a : Abs}
    (hg : guardOn cfg a.depth a.hooked g = true) (h : Sim cfg (⟨g, act⟩ :: r) a = true) :
    (act = .recAppend → Lock.console ∈ a.held ∧ a.recDone = false) ∧
    (act = .write → Lock.console ∈ a.held ∧ (cfg.record = true → a.recDone = true)) ∧
    (act = .rel .console → a.recDone = false) ∧
    ((act = .hookPos ∨ (∃ ls, act = .pushUser ls) ∨ (∃ o c, act = .pushCtl o c) ∨ act = .renderFrame ∨ act = .restorePush ∨
        act = .capEnd) → a.recDone = false) := by
  refine ⟨?_, ?_, ?_, ?_⟩
  · rintro rfl
    obtain ⟨a', ha, _⟩ := sim_generic rfl hg h
    simp only [absAct] at ha
    split at ha
    · rename_i hc; exact ⟨hc.1, hc.2.2⟩
    · simp at ha
  · rintro rfl
    obtain ⟨a', ha, _⟩ := sim_generic rfl hg h
    simp only [absAct] at ha
    split at ha
    · rename_i hc; exact hc
    · simp at ha
  · rintro rfl
    obtain ⟨a', ha, _⟩ := sim_generic rfl hg h
    simp only [absAct] at ha
    split at ha
    · rename_i hc; exact hc.2 trivial
    · simp at ha
  · intro hh
    have key : ∀ act', act = act' → act'.special = false →
        absAct cfg a act' = (if a.recDone then none else some (if act' = .capEnd then a else { a with dirty := true })) →
        a.recDone = false := by
      intro act' e hsp hdef
      subst e
      obtain ⟨a', ha, _⟩ := sim_generic hsp hg h
      rw [hdef] at ha
      cases hrd : a.recDone
      · rfl
      · simp [hrd] at ha
    rcases hh with rfl | ⟨ls, rfl⟩ | ⟨o, c, rfl⟩ | rfl | rfl | rfl
    all_goals exact key _ rfl rfl (by simp [absAct])

theorem exec_recflag {cfg : Cfg} {t : Nat} {sh sh' : Shared} {l l' : Local} {act : Act} {r : List GAct}
    (he : exec cfg t sh { l with cont := r } act = some (sh', l')) :
    (act = .recAppend ∧ sh'.record = sh.record ++ l.buffer ∧ l'.recDone = true) ∨
    (act = .write ∧ sh'.record = sh.record ∧ l'.recDone = false) ∨
    (act ≠ .recAppend ∧ act ≠ .write ∧ sh'.record = sh.record ∧ l'.recDone = l.recDone) := by
  cases act <;> simp only [exec] at he
  case recAppend =>
    simp only [Option.some.injEq, Prod.mk.injEq] at he
    obtain ⟨rfl, rfl⟩ := he
    exact Or.inl ⟨rfl, rfl, rfl⟩
  case write =>
    simp only [Option.some.injEq, Prod.mk.injEq] at he
    obtain ⟨rfl, rfl⟩ := he
    exact Or.inr (Or.inl ⟨rfl, rfl, rfl⟩)
  all_goals (
    right; right
    refine ⟨by simp, by simp, ?_⟩
    first
      | (simp only [Option.some.injEq, Prod.mk.injEq] at he
         obtain ⟨rfl, rfl⟩ := he
         exact ⟨rfl, rfl⟩)
      | (split at he <;>
          (simp only [Option.some.injEq, Prod.mk.injEq] at he
           obtain ⟨rfl, rfl⟩ := he
           exact ⟨rfl, rfl⟩))
      | (split at he
         · simp only [Option.some.injEq, Prod.mk.injEq] at he
           obtain ⟨rfl, rfl⟩ := he
           exact ⟨rfl, rfl⟩
         · split at he
           · simp only [Option.some.injEq, Prod.mk.injEq] at he
             obtain ⟨rfl, rfl⟩ := he
             exact ⟨rfl, rfl⟩
           · simp at he))

end RichModel.Conc
