import RichModel.Lemmas.ConcInv
import RichModel.Lemmas.ConcOut
/-!
The record (`Console._record_buffer`) has the order of the file: the record append and the `file.write` of
one flush happen inside the same critical section of the console lock.
-/
set_option linter.unusedSimpArgs false
namespace RichModel.Conc
open RichModel

/-- The buffer that is already recorded but not yet written: that of the thread inside the flush. -/
def pend (s : State) : List Item :=
  match s.sh.owner .console with
  | some t => if (s.th t).recDone then (s.th t).buffer else []
  | none => []

def fileItems (s : State) : List Item := s.sh.file.flatMap (·.items)

/-- Everything the clearing exports returned, in the order of their critical sections. -/
def exportsItems (s : State) : List Item := s.sh.exports.flatMap (·.2)

def RecInv (s : State) : Prop :=
  (exportsItems s ++ s.sh.record).filter nonEmpty = (fileItems s ++ pend s).filter nonEmpty

/-- A thread in the middle of an export holds the record lock, and what it read is still the record. -/
structure XInv (s : State) : Prop where
  held : ∀ t, (s.th t).xread = true → Lock.record ∈ (s.th t).held
  copy : ∀ t, (s.th t).xread = true → (s.th t).xcopy = s.sh.record

/-- What the static check guarantees in front of the actions the record invariant cares about. -/
theorem sim_facts {cfg : Cfg} {g : Guard} {act : Act} {r : List GAct} {a : Abs}
    (hg : guardOn cfg a.depth a.hooked g = true) (h : Sim cfg (⟨g, act⟩ :: r) a = true) :
    (act = .recAppend → Lock.console ∈ a.held ∧ a.recDone = false ∧ Lock.record ∈ a.held ∧ a.xread = false) ∧
    (act = .write → Lock.console ∈ a.held ∧ (cfg.record = true → a.recDone = true)) ∧
    (act = .rel .console → a.recDone = false) ∧
    ((act = .hookPos ∨ (∃ ls, act = .pushUser ls) ∨ (∃ o c, act = .pushCtl o c) ∨ act = .renderFrame ∨ act = .restorePush ∨
        act = .capEnd) → a.recDone = false) ∧
    (act = .rel .record → a.xread = false) ∧
    (act = .exportRead → Lock.record ∈ a.held ∧ a.xread = false) ∧
    (∀ c, act = .exportEnd c → Lock.record ∈ a.held ∧ a.xread = true) := by
  refine ⟨?_, ?_, ?_, ?_, ?_, ?_, ?_⟩
  rotate_left 4
  · rintro rfl
    obtain ⟨a', ha, _⟩ := sim_generic rfl hg h
    simp only [absAct] at ha
    split at ha
    · rename_i hc; exact hc.2.2 trivial
    · simp at ha
  · rintro rfl
    obtain ⟨a', ha, _⟩ := sim_generic rfl hg h
    simp only [absAct] at ha
    split at ha
    · rename_i hc; exact hc
    · simp at ha
  · rintro c rfl
    obtain ⟨a', ha, _⟩ := sim_generic rfl hg h
    simp only [absAct] at ha
    split at ha
    · rename_i hc; exact hc
    · simp at ha
  · rintro rfl
    obtain ⟨a', ha, _⟩ := sim_generic rfl hg h
    simp only [absAct] at ha
    split at ha
    · rename_i hc; exact ⟨hc.1, hc.2.2.1, hc.2.1, hc.2.2.2⟩
    · simp at ha
  · rintro rfl
    obtain ⟨a', ha, _⟩ := sim_generic rfl hg h
    simp only [absAct] at ha
    split at ha
    · rename_i hc; exact hc
    · simp at ha
  · rintro rfl
    obtain ⟨a', ha, _⟩ := sim_generic rfl hg h
    simp only [absAct] at ha
    split at ha
    · rename_i hc; exact hc.2.1 trivial
    · simp at ha
  · intro hh
    have key : ∀ act', act = act' → act'.special = false →
        absAct cfg a act' = (if a.recDone then none else some (if act' = .capEnd then a else { a with dirty := true })) →
        a.recDone = false := by
      intro act' e hsp hdef
      subst e
      obtain ⟨a', ha, _⟩ := sim_generic hsp hg h
      rw [hdef] at ha
      cases hrd : a.recDone
      · rfl
      · simp [hrd] at ha
    rcases hh with rfl | ⟨ls, rfl⟩ | ⟨o, c, rfl⟩ | rfl | rfl | rfl
    all_goals exact key _ rfl rfl (by simp [absAct])

/-- The actions that change the buffer without flushing it. -/
def Act.bufChange (act : Act) : Prop :=
  act = .hookPos ∨ (∃ ls, act = .pushUser ls) ∨ (∃ o c, act = .pushCtl o c) ∨ act = .renderFrame ∨ act = .restorePush ∨ act = .capEnd

theorem exec_rec {cfg : Cfg} {t : Nat} {sh sh' : Shared} {l l' : Local} {act : Act} {r : List GAct}
    (he : exec cfg t sh { l with cont := r } act = some (sh', l')) :
    (act = .recAppend ∧ sh'.record = sh.record ++ l.buffer ∧ sh'.file = sh.file ∧ sh'.owner = sh.owner ∧
        l'.buffer = l.buffer ∧ l'.recDone = true ∧ sh'.exports = sh.exports ∧ l'.xread = l.xread ∧ l'.xcopy = l.xcopy) ∨
    (act = .write ∧ sh'.record = sh.record ∧ sh'.owner = sh.owner ∧ l'.buffer = [] ∧ l'.recDone = false ∧
        sh'.file = (if l.buffer.any nonEmpty then sh.file ++ [⟨t, l.nops - 1, l.buffer⟩] else sh.file) ∧
        sh'.exports = sh.exports ∧ l'.xread = l.xread ∧ l'.xcopy = l.xcopy) ∨
    (act.bufChange ∧ sh'.record = sh.record ∧ sh'.file = sh.file ∧ sh'.owner = sh.owner ∧ l'.recDone = l.recDone ∧
        sh'.exports = sh.exports ∧ l'.xread = l.xread ∧ l'.xcopy = l.xcopy) ∨
    ((∃ lk, act = .acq lk ∨ act = .rel lk) ∧ sh'.record = sh.record ∧ sh'.file = sh.file ∧ l'.buffer = l.buffer ∧
        l'.recDone = l.recDone ∧ sh'.exports = sh.exports ∧ l'.xread = l.xread ∧ l'.xcopy = l.xcopy) ∨
    (act = .exportRead ∧ sh' = sh ∧ l'.buffer = l.buffer ∧ l'.recDone = l.recDone ∧ l'.xread = true ∧ l'.xcopy = sh.record ∧
        l'.held = l.held) ∨
    ((∃ c, act = .exportEnd c ∧ sh'.record = (if c then [] else sh.record) ∧
        sh'.exports = (if c then sh.exports ++ [(t, l.xcopy)] else sh.exports)) ∧ sh'.file = sh.file ∧ sh'.owner = sh.owner ∧
        l'.buffer = l.buffer ∧ l'.recDone = l.recDone ∧ l'.xread = false ∧ l'.held = l.held) ∨
    (sh'.record = sh.record ∧ sh'.file = sh.file ∧ sh'.owner = sh.owner ∧ l'.buffer = l.buffer ∧ l'.recDone = l.recDone ∧
        sh'.exports = sh.exports ∧ l'.xread = l.xread ∧ l'.xcopy = l.xcopy ∧ l'.held = l.held) := by
  cases act <;> simp only [exec] at he
  case recAppend =>
    simp only [Option.some.injEq, Prod.mk.injEq] at he
    obtain ⟨rfl, rfl⟩ := he
    exact Or.inl ⟨rfl, rfl, rfl, rfl, rfl, rfl, rfl, rfl, rfl⟩
  case write =>
    simp only [Option.some.injEq, Prod.mk.injEq] at he
    obtain ⟨rfl, rfl⟩ := he
    exact Or.inr (Or.inl ⟨rfl, rfl, rfl, rfl, rfl, rfl, rfl, rfl, rfl⟩)
  case hookPos | restorePush | capEnd =>
    simp only [Option.some.injEq, Prod.mk.injEq] at he
    obtain ⟨rfl, rfl⟩ := he
    exact Or.inr (Or.inr (Or.inl ⟨by simp [Act.bufChange], rfl, rfl, rfl, rfl, rfl, rfl, rfl⟩))
  case pushUser ls =>
    simp only [Option.some.injEq, Prod.mk.injEq] at he
    obtain ⟨rfl, rfl⟩ := he
    exact Or.inr (Or.inr (Or.inl ⟨Or.inr (Or.inl ⟨ls, rfl⟩), rfl, rfl, rfl, rfl, rfl, rfl, rfl⟩))
  case pushCtl o c =>
    simp only [Option.some.injEq, Prod.mk.injEq] at he
    obtain ⟨rfl, rfl⟩ := he
    exact Or.inr (Or.inr (Or.inl ⟨Or.inr (Or.inr (Or.inl ⟨o, c, rfl⟩)), rfl, rfl, rfl, rfl, rfl, rfl, rfl⟩))
  case renderFrame =>
    split at he <;>
      (simp only [Option.some.injEq, Prod.mk.injEq] at he
       obtain ⟨rfl, rfl⟩ := he
       exact Or.inr (Or.inr (Or.inl ⟨by simp [Act.bufChange], rfl, rfl, rfl, rfl, rfl, rfl, rfl⟩)))
  case acq lk =>
    refine Or.inr (Or.inr (Or.inr (Or.inl ⟨⟨lk, Or.inl rfl⟩, ?_⟩)))
    split at he
    · simp only [Option.some.injEq, Prod.mk.injEq] at he
      obtain ⟨rfl, rfl⟩ := he
      exact ⟨rfl, rfl, rfl, rfl, rfl, rfl, rfl⟩
    · split at he
      · simp only [Option.some.injEq, Prod.mk.injEq] at he
        obtain ⟨rfl, rfl⟩ := he
        exact ⟨rfl, rfl, rfl, rfl, rfl, rfl, rfl⟩
      · simp at he
  case rel lk =>
    refine Or.inr (Or.inr (Or.inr (Or.inl ⟨⟨lk, Or.inr rfl⟩, ?_⟩)))
    split at he <;>
      (simp only [Option.some.injEq, Prod.mk.injEq] at he
       obtain ⟨rfl, rfl⟩ := he
       exact ⟨rfl, rfl, rfl, rfl, rfl, rfl, rfl⟩)
  case exportRead =>
    simp only [Option.some.injEq, Prod.mk.injEq] at he
    obtain ⟨rfl, rfl⟩ := he
    exact Or.inr (Or.inr (Or.inr (Or.inr (Or.inl ⟨rfl, rfl, rfl, rfl, rfl, rfl, rfl⟩))))
  case exportEnd c =>
    simp only [Option.some.injEq, Prod.mk.injEq] at he
    obtain ⟨rfl, rfl⟩ := he
    exact Or.inr (Or.inr (Or.inr (Or.inr (Or.inr (Or.inl ⟨⟨c, rfl, rfl, rfl⟩, rfl, rfl, rfl, rfl, rfl, rfl⟩)))))
  all_goals (
    refine Or.inr (Or.inr (Or.inr (Or.inr (Or.inr (Or.inr ?_)))))
    first
      | (simp only [Option.some.injEq, Prod.mk.injEq] at he
         obtain ⟨rfl, rfl⟩ := he
         exact ⟨rfl, rfl, rfl, rfl, rfl, rfl, rfl, rfl, rfl⟩)
      | (split at he <;>
          (simp only [Option.some.injEq, Prod.mk.injEq] at he
           obtain ⟨rfl, rfl⟩ := he
           exact ⟨rfl, rfl, rfl, rfl, rfl, rfl, rfl, rfl, rfl⟩)))

theorem pend_congr {s s' : State} (ho : s'.sh.owner .console = s.sh.owner .console)
    (hth : ∀ u, (s'.th u).recDone = (s.th u).recDone ∧ (s'.th u).buffer = (s.th u).buffer) : pend s' = pend s := by
  simp only [pend, ho]
  cases s.sh.owner .console with
  | none => rfl
  | some u => simp only [(hth u).1, (hth u).2]

/-- The combined invariant of the record. -/
structure RecAll (s : State) : Prop where
  ri : RecInv s
  x : XInv s

/-- How one step of thread `t` changed the state, as far as the record is concerned. -/
theorem rec_frame {s : State} {t : Nat} {sh' : Shared} {l' : Local} (x : XInv s)
    (hr : sh'.record = s.sh.record) (hx : l'.xread = (s.th t).xread) (hc : l'.xcopy = (s.th t).xcopy)
    (hh : (s.th t).xread = true → Lock.record ∈ (s.th t).held → Lock.record ∈ l'.held) :
    XInv { sh := sh', th := upd s.th t l' } := by
  refine ⟨fun u h => ?_, fun u h => ?_⟩
  · by_cases hu : u = t
    · subst hu
      simp only [upd_same] at h ⊢
      rw [hx] at h
      exact hh h (x.held u h)
    · simp only [upd_other _ _ hu] at h ⊢; exact x.held u h
  · by_cases hu : u = t
    · subst hu
      simp only [upd_same] at h ⊢
      rw [hx] at h
      rw [hc, hr]; exact x.copy u h
    · simp only [upd_other _ _ hu] at h ⊢
      rw [hr]; exact x.copy u h

/-- Every step of every thread preserves the record invariants. -/
theorem rec_step {cfg : Cfg} {s s' : State} {t : Nat} (hrec : cfg.record = true) (inv : Inv cfg s) (ra : RecAll s)
    (h : stepT cfg s t = some s') : RecAll s' := by
  obtain ⟨ri, x⟩ := ra
  cases hc : (s.th t).cont with
  | nil =>
    rw [stepT_nil hc] at h
    cases hp : (s.th t).prog with
    | nil => rw [hp] at h; simp at h
    | cons op rest =>
      rw [hp] at h
      simp only [Option.some.injEq] at h
      subst h
      have hp : pend { s with th := upd s.th t { s.th t with prog := rest, cont := code cfg op, nops := (s.th t).nops + 1 } } = pend s :=
        pend_congr rfl (fun u => by by_cases hu : u = t <;> simp [upd, hu])
      refine ⟨by simpa only [RecInv, fileItems, exportsItems, hp] using ri, ?_⟩
      exact rec_frame x rfl rfl rfl (fun _ h => h)
  | cons g r =>
    rw [stepT_cons hc] at h
    by_cases hg : guardOn cfg (s.th t).depth (s.th t).hooked g.g = true
    · rw [if_pos hg] at h
      simp only [Option.map_eq_some_iff] at h
      obtain ⟨⟨sh', l'⟩, he, rfl⟩ := h
      have hsim := inv.sim t
      rw [hc] at hsim
      obtain ⟨gg, act⟩ := g
      obtain ⟨f1, f2, f3, f4, f5, f6, f7⟩ := sim_facts (a := (s.th t).abs) hg hsim
      have ownc : Lock.console ∈ (s.th t).held → s.sh.owner .console = some t := (inv.own .console t).mpr
      -- no other thread is in the middle of an export while `t` holds the record lock
      have alone : Lock.record ∈ (s.th t).held → ∀ u, u ≠ t → (s.th u).xread = false := by
        intro hm u hu
        cases hxu : (s.th u).xread
        · rfl
        · have h1 := (inv.own .record t).mpr hm
          have h2 := (inv.own .record u).mpr (x.held u hxu)
          rw [h1] at h2
          exact absurd (Option.some.inj h2).symm hu
      have heldAcqRel : ∀ lk0, (l'.held = lk0 :: (s.th t).held ∨ (l'.held = (s.th t).held.erase lk0 ∧ (lk0 = .record → (s.th t).xread = false))) →
          (s.th t).xread = true → ∀ lk, lk ∈ (s.th t).held → lk = Lock.record → lk ∈ l'.held := by
        intro lk0 hcase hxr lk hm hlk
        rcases hcase with hh | ⟨hh, hno⟩
        · rw [hh]; exact List.mem_cons_of_mem _ hm
        · rw [hh]
          by_cases hk : lk0 = .record
          · rw [hno hk] at hxr; simp at hxr
          · subst hlk; exact (List.mem_erase_of_ne (fun h => hk h.symm)).mpr hm
      rcases exec_rec he with ⟨ha, hr, hf, ho, hb, hd, hex, hxr, hxc⟩ | ⟨ha, hr, ho, hb, hd, hf, hex, hxr, hxc⟩ |
        ⟨ha, hr, hf, ho, hd, hex, hxr, hxc⟩ | ⟨ha, hr, hf, hb, hd, hex, hxr, hxc⟩ | ⟨ha, hsh, hb, hd, hxr, hxc, hheld⟩ |
        ⟨⟨c, ha, hr, hex⟩, hf, ho, hb, hd, hxr, hheld⟩ | ⟨hr, hf, ho, hb, hd, hex, hxr, hxc, hheld⟩
      · -- record append
        obtain ⟨hheld, hrd, hrheld, hxt⟩ := f1 ha
        have hoc := ownc hheld
        have hp0 : pend s = [] := by simp [pend, hoc]; exact fun h => by simp [Local.abs] at hrd; simp [hrd] at h
        have hp1 : pend { sh := sh', th := upd s.th t l' } = (s.th t).buffer := by
          simp [pend, ho, hoc, upd, hd, hb]
        refine ⟨?_, ?_⟩
        · simp only [RecInv, fileItems, exportsItems, hr, hf, hp1, hex] at ri ⊢
          rw [hp0, List.append_nil] at ri
          simp only [← List.append_assoc, List.filter_append] at ri ⊢
          rw [ri]
        · -- nobody is reading the record right now
          refine ⟨fun u h => ?_, fun u h => ?_⟩
          · by_cases hu : u = t
            · subst hu; simp only [upd_same, hxr] at h; simp [Local.abs] at hxt; rw [hxt] at h; simp at h
            · simp only [upd_other _ _ hu] at h; rw [alone hrheld u hu] at h; simp at h
          · by_cases hu : u = t
            · subst hu; simp only [upd_same, hxr] at h; simp [Local.abs] at hxt; rw [hxt] at h; simp at h
            · simp only [upd_other _ _ hu] at h; rw [alone hrheld u hu] at h; simp at h
      · -- write
        obtain ⟨hheld, hrd⟩ := f2 ha
        have hoc := ownc hheld
        have hp1 : pend { sh := sh', th := upd s.th t l' } = [] := by
          simp [pend, ho, hoc, upd, hd]
        refine ⟨?_, ?_⟩
        · simp only [RecInv, fileItems, exportsItems, hr, hp1, hex, List.append_nil] at ri ⊢
          have hrd' : (s.th t).recDone = true := hrd hrec
          have hp0 : pend s = (s.th t).buffer := by simp [pend, hoc, hrd']
          rw [hp0] at ri
          rw [ri, hf]
          by_cases hany : (s.th t).buffer.any nonEmpty = true
          · simp [hany]
          · have hany' : (s.th t).buffer.any nonEmpty = false := by simpa using hany
            simp only [hany', Bool.false_eq_true, if_false, List.filter_append, filter_nonEmpty_nil hany', List.append_nil]
        · have hheld' : l'.held = (s.th t).held := by
            have := exec_held he
            rcases this with ⟨lk0, h0, _⟩ | ⟨lk0, h0, _⟩ | ⟨_, hh⟩
            · rw [ha] at h0; cases h0
            · rw [ha] at h0; cases h0
            · exact hh
          exact rec_frame x hr hxr hxc (fun _ h => by rw [hheld']; exact h)
      · -- the buffer changes while nothing is pending for this thread
        have hrd : (s.th t).recDone = false := f4 ha
        have hp : pend { sh := sh', th := upd s.th t l' } = pend s := by
          simp only [pend, ho]
          cases hoc : s.sh.owner .console with
          | none => rfl
          | some u =>
            by_cases hu : u = t
            · subst hu; simp [upd, hd, hrd]
            · simp [upd, hu]
        refine ⟨by simpa only [RecInv, fileItems, exportsItems, hr, hf, hp, hex] using ri, ?_⟩
        have hheld' : l'.held = (s.th t).held := by
          rcases exec_held he with ⟨lk0, h0, _⟩ | ⟨lk0, h0, _⟩ | ⟨_, hh⟩
          · rcases ha with h | ⟨_, h⟩ | ⟨_, _, h⟩ | h | h | h <;> rw [h] at h0 <;> cases h0
          · rcases ha with h | ⟨_, h⟩ | ⟨_, _, h⟩ | h | h | h <;> rw [h] at h0 <;> cases h0
          · exact hh
        exact rec_frame x hr hxr hxc (fun _ h => by rw [hheld']; exact h)
      · -- a lock operation
        have hp : pend { sh := sh', th := upd s.th t l' } = pend s := by
          obtain ⟨lk, hlk⟩ := ha
          rcases exec_held he with ⟨lk0, ha0, hfree, ho, hh⟩ | ⟨lk0, ha0, hm, hh, ho⟩ | ⟨ho, hh⟩
          · by_cases hk : lk0 = .console
            · subst hk
              rcases hfree with hfr | hfr
              · have hrd : (s.th t).recDone = false := by
                  cases hrd : (s.th t).recDone
                  · rfl
                  · have := ownc (inv.rd t hrd); rw [hfr] at this; simp at this
                simp [pend, ho, updLock, hfr, upd, hd, hrd]
              · simp [pend, ho, updLock, hfr, upd, hd, hb]
            · have : sh'.owner .console = s.sh.owner .console := by
                rw [ho]; simp [updLock]; intro h; exact absurd h.symm hk
              simp only [pend, this]
              cases s.sh.owner .console with
              | none => rfl
              | some u => by_cases hu : u = t <;> simp [upd, hu, hd, hb]
          · by_cases hk : lk0 = .console
            · subst hk
              have hrd : (s.th t).recDone = false := f3 ha0
              have hoc := ownc hm
              by_cases hin : Lock.console ∈ (s.th t).held.erase .console
              · simp [pend, ho, hin, hoc, upd, hd, hrd]
              · simp [pend, ho, hin, hoc, updLock, hrd]
            · have : sh'.owner .console = s.sh.owner .console := by
                rw [ho]; split
                · rfl
                · simp [updLock]; intro h; exact absurd h.symm hk
              simp only [pend, this]
              cases s.sh.owner .console with
              | none => rfl
              | some u => by_cases hu : u = t <;> simp [upd, hu, hd, hb]
          · simp only [pend, ho]
            cases s.sh.owner .console with
            | none => rfl
            | some u => by_cases hu : u = t <;> simp [upd, hu, hd, hb]
        refine ⟨by simpa only [RecInv, fileItems, exportsItems, hr, hf, hp, hex] using ri, ?_⟩
        refine rec_frame x hr hxr hxc ?_
        intro hxt hm
        rcases exec_held he with ⟨lk0, ha0, _, _, hh⟩ | ⟨lk0, ha0, _, hh, _⟩ | ⟨_, hh⟩
        · exact heldAcqRel lk0 (Or.inl hh) hxt _ hm rfl
        · refine heldAcqRel lk0 (Or.inr ⟨hh, fun hk => ?_⟩) hxt _ hm rfl
          subst hk; exact f5 ha0
        · rw [hh]; exact hm
      · -- the export reads the record
        obtain ⟨hrheld, hxt⟩ := f6 ha
        subst hsh
        have hp : pend { sh := s.sh, th := upd s.th t l' } = pend s :=
          pend_congr rfl (fun u => by by_cases hu : u = t <;> simp [upd, hu, hd, hb])
        refine ⟨by simpa only [RecInv, fileItems, exportsItems, hp] using ri, fun u h => ?_, fun u h => ?_⟩
        · by_cases hu : u = t
          · subst hu; simp only [upd_same, hheld]; exact hrheld
          · simp only [upd_other _ _ hu] at h ⊢; exact x.held u h
        · by_cases hu : u = t
          · subst hu; simp only [upd_same, hxc]
          · simp only [upd_other _ _ hu] at h ⊢; exact x.copy u h
      · -- the export ends (and, if clearing, hands the record over)
        obtain ⟨hrheld, hxt⟩ := f7 c ha
        have hxt' : (s.th t).xread = true := hxt
        have hcopy : (s.th t).xcopy = s.sh.record := x.copy t hxt'
        have hp : pend { sh := sh', th := upd s.th t l' } = pend s := by
          simp only [pend, ho]
          cases s.sh.owner .console with
          | none => rfl
          | some u => by_cases hu : u = t <;> simp [upd, hu, hd, hb]
        refine ⟨?_, fun u h => ?_, fun u h => ?_⟩
        · simp only [RecInv, fileItems, exportsItems, hp, hf, hr, hex] at ri ⊢
          cases c
          · simpa using ri
          · simp only [if_true, List.flatMap_append, List.flatMap_cons, List.flatMap_nil, List.append_nil, hcopy]
            simpa using ri
        · by_cases hu : u = t
          · subst hu; simp only [upd_same, hxr] at h; simp at h
          · simp only [upd_other _ _ hu] at h; rw [alone hrheld u hu] at h; simp at h
        · by_cases hu : u = t
          · subst hu; simp only [upd_same, hxr] at h; simp at h
          · simp only [upd_other _ _ hu] at h; rw [alone hrheld u hu] at h; simp at h
      · -- nothing of the record moves
        have hp : pend { sh := sh', th := upd s.th t l' } = pend s := by
          simp only [pend, ho]
          cases s.sh.owner .console with
          | none => rfl
          | some u => by_cases hu : u = t <;> simp [upd, hu, hd, hb]
        refine ⟨by simpa only [RecInv, fileItems, exportsItems, hr, hf, hp, hex] using ri, ?_⟩
        exact rec_frame x hr hxr hxc (fun _ h => by rw [hheld]; exact h)
    · rw [if_neg hg] at h
      simp only [Option.some.injEq] at h
      subst h
      have hp : pend { s with th := upd s.th t { s.th t with cont := r } } = pend s :=
        pend_congr rfl (fun u => by by_cases hu : u = t <;> simp [upd, hu])
      refine ⟨by simpa only [RecInv, fileItems, exportsItems, hp] using ri, ?_⟩
      exact rec_frame x rfl rfl rfl (fun _ h => h)

theorem rec_run {cfg : Cfg} (hrec : cfg.record = true) (sched : List Nat) :
    ∀ {s : State}, Inv cfg s → RecAll s → RecAll (run cfg s sched) := by
  induction sched with
  | nil => intro s _ h; exact h
  | cons t rest ih =>
    intro s hi h
    simp only [run, List.foldl_cons]
    cases hs : stepT cfg s t with
    | none => simpa [run] using ih hi h
    | some s' => simpa [run] using ih (inv_step hi hs) (rec_step hrec hi h hs)

end RichModel.Conc
