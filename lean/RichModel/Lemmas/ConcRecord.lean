import RichModel.Lemmas.ConcInv
import RichModel.Lemmas.ConcOut
/-!
The record (`Console._record_buffer`) has the order of the file: the record append and the `file.write` of
one flush happen inside the same critical section of the console lock.
-/
set_option linter.unusedSimpArgs false
namespace RichModel.Conc
open RichModel

/-- The buffer that is already recorded but not yet written: that of the thread inside the flush. -/
def pend (s : State) : List Item :=
  match s.sh.owner .console with
  | some t => if (s.th t).recDone then (s.th t).buffer else []
  | none => []

def fileItems (s : State) : List Item := s.sh.file.flatMap (·.items)

def RecInv (s : State) : Prop :=
  s.sh.record.filter nonEmpty = (fileItems s ++ pend s).filter nonEmpty

/-- What the static check guarantees in front of the actions the record invariant cares about. -/
theorem sim_facts {cfg : Cfg} {g : Guard} {act : Act} {r : List GAct} {a : Abs}
    (hg : guardOn cfg a.depth a.hooked g = true) (h : Sim cfg (⟨g, act⟩ :: r) a = true) :
    (act = .recAppend → Lock.console ∈ a.held ∧ a.recDone = false) ∧
    (act = .write → Lock.console ∈ a.held ∧ (cfg.record = true → a.recDone = true)) ∧
    (act = .rel .console → a.recDone = false) ∧
    ((act = .hookPos ∨ (∃ ls, act = .pushUser ls) ∨ (∃ o c, act = .pushCtl o c) ∨ act = .renderFrame ∨ act = .restorePush ∨
        act = .capEnd) → a.recDone = false) := by
  refine ⟨?_, ?_, ?_, ?_⟩
  · rintro rfl
    obtain ⟨a', ha, _⟩ := sim_generic rfl hg h
    simp only [absAct] at ha
    split at ha
    · rename_i hc; exact ⟨hc.1, hc.2.2⟩
    · simp at ha
  · rintro rfl
    obtain ⟨a', ha, _⟩ := sim_generic rfl hg h
    simp only [absAct] at ha
    split at ha
    · rename_i hc; exact hc
    · simp at ha
  · rintro rfl
    obtain ⟨a', ha, _⟩ := sim_generic rfl hg h
    simp only [absAct] at ha
    split at ha
    · rename_i hc; exact hc.2 trivial
    · simp at ha
  · intro hh
    have key : ∀ act', act = act' → act'.special = false →
        absAct cfg a act' = (if a.recDone then none else some (if act' = .capEnd then a else { a with dirty := true })) →
        a.recDone = false := by
      intro act' e hsp hdef
      subst e
      obtain ⟨a', ha, _⟩ := sim_generic hsp hg h
      rw [hdef] at ha
      cases hrd : a.recDone
      · rfl
      · simp [hrd] at ha
    rcases hh with rfl | ⟨ls, rfl⟩ | ⟨o, c, rfl⟩ | rfl | rfl | rfl
    all_goals exact key _ rfl rfl (by simp [absAct])

/-- The actions that change the buffer without flushing it. -/
def Act.bufChange (act : Act) : Prop :=
  act = .hookPos ∨ (∃ ls, act = .pushUser ls) ∨ (∃ o c, act = .pushCtl o c) ∨ act = .renderFrame ∨ act = .restorePush ∨ act = .capEnd

theorem exec_rec {cfg : Cfg} {t : Nat} {sh sh' : Shared} {l l' : Local} {act : Act} {r : List GAct}
    (he : exec cfg t sh { l with cont := r } act = some (sh', l')) :
    (act = .recAppend ∧ sh'.record = sh.record ++ l.buffer ∧ sh'.file = sh.file ∧ sh'.owner = sh.owner ∧
        l'.buffer = l.buffer ∧ l'.recDone = true) ∨
    (act = .write ∧ sh'.record = sh.record ∧ sh'.owner = sh.owner ∧ l'.buffer = [] ∧ l'.recDone = false ∧
        sh'.file = (if l.buffer.any nonEmpty then sh.file ++ [⟨t, l.nops - 1, l.buffer⟩] else sh.file)) ∨
    (act.bufChange ∧ sh'.record = sh.record ∧ sh'.file = sh.file ∧ sh'.owner = sh.owner ∧ l'.recDone = l.recDone) ∨
    ((∃ lk, act = .acq lk ∨ act = .rel lk) ∧ sh'.record = sh.record ∧ sh'.file = sh.file ∧ l'.buffer = l.buffer ∧
        l'.recDone = l.recDone) ∨
    (sh'.record = sh.record ∧ sh'.file = sh.file ∧ sh'.owner = sh.owner ∧ l'.buffer = l.buffer ∧ l'.recDone = l.recDone) := by
  cases act <;> simp only [exec] at he
  case recAppend =>
    simp only [Option.some.injEq, Prod.mk.injEq] at he
    obtain ⟨rfl, rfl⟩ := he
    exact Or.inl ⟨rfl, rfl, rfl, rfl, rfl, rfl⟩
  case write =>
    simp only [Option.some.injEq, Prod.mk.injEq] at he
    obtain ⟨rfl, rfl⟩ := he
    exact Or.inr (Or.inl ⟨rfl, rfl, rfl, rfl, rfl, rfl⟩)
  case hookPos | restorePush | capEnd =>
    simp only [Option.some.injEq, Prod.mk.injEq] at he
    obtain ⟨rfl, rfl⟩ := he
    exact Or.inr (Or.inr (Or.inl ⟨by simp [Act.bufChange], rfl, rfl, rfl, rfl⟩))
  case pushUser ls =>
    simp only [Option.some.injEq, Prod.mk.injEq] at he
    obtain ⟨rfl, rfl⟩ := he
    exact Or.inr (Or.inr (Or.inl ⟨Or.inr (Or.inl ⟨ls, rfl⟩), rfl, rfl, rfl, rfl⟩))
  case pushCtl o c =>
    simp only [Option.some.injEq, Prod.mk.injEq] at he
    obtain ⟨rfl, rfl⟩ := he
    exact Or.inr (Or.inr (Or.inl ⟨Or.inr (Or.inr (Or.inl ⟨o, c, rfl⟩)), rfl, rfl, rfl, rfl⟩))
  case renderFrame =>
    split at he <;>
      (simp only [Option.some.injEq, Prod.mk.injEq] at he
       obtain ⟨rfl, rfl⟩ := he
       exact Or.inr (Or.inr (Or.inl ⟨by simp [Act.bufChange], rfl, rfl, rfl, rfl⟩)))
  case acq lk =>
    refine Or.inr (Or.inr (Or.inr (Or.inl ⟨⟨lk, Or.inl rfl⟩, ?_⟩)))
    split at he
    · simp only [Option.some.injEq, Prod.mk.injEq] at he
      obtain ⟨rfl, rfl⟩ := he
      exact ⟨rfl, rfl, rfl, rfl⟩
    · split at he
      · simp only [Option.some.injEq, Prod.mk.injEq] at he
        obtain ⟨rfl, rfl⟩ := he
        exact ⟨rfl, rfl, rfl, rfl⟩
      · simp at he
  case rel lk =>
    refine Or.inr (Or.inr (Or.inr (Or.inl ⟨⟨lk, Or.inr rfl⟩, ?_⟩)))
    split at he <;>
      (simp only [Option.some.injEq, Prod.mk.injEq] at he
       obtain ⟨rfl, rfl⟩ := he
       exact ⟨rfl, rfl, rfl, rfl⟩)
  all_goals (
    refine Or.inr (Or.inr (Or.inr (Or.inr ?_)))
    first
      | (simp only [Option.some.injEq, Prod.mk.injEq] at he
         obtain ⟨rfl, rfl⟩ := he
         exact ⟨rfl, rfl, rfl, rfl, rfl⟩)
      | (split at he <;>
          (simp only [Option.some.injEq, Prod.mk.injEq] at he
           obtain ⟨rfl, rfl⟩ := he
           exact ⟨rfl, rfl, rfl, rfl, rfl⟩)))

theorem pend_congr {s s' : State} (ho : s'.sh.owner .console = s.sh.owner .console)
    (hth : ∀ u, (s'.th u).recDone = (s.th u).recDone ∧ (s'.th u).buffer = (s.th u).buffer) : pend s' = pend s := by
  simp only [pend, ho]
  cases s.sh.owner .console with
  | none => rfl
  | some u => simp only [(hth u).1, (hth u).2]

/-- Every step of every thread preserves the record invariant. -/
theorem rec_step {cfg : Cfg} {s s' : State} {t : Nat} (hrec : cfg.record = true) (inv : Inv cfg s) (ri : RecInv s)
    (h : stepT cfg s t = some s') : RecInv s' := by
  cases hc : (s.th t).cont with
  | nil =>
    rw [stepT_nil hc] at h
    cases hp : (s.th t).prog with
    | nil => rw [hp] at h; simp at h
    | cons op rest =>
      rw [hp] at h
      simp only [Option.some.injEq] at h
      subst h
      have hp : pend { s with th := upd s.th t { s.th t with prog := rest, cont := code cfg op, nops := (s.th t).nops + 1 } } = pend s :=
        pend_congr rfl (fun u => by by_cases hu : u = t <;> simp [upd, hu])
      simpa only [RecInv, fileItems, hp] using ri
  | cons g r =>
    rw [stepT_cons hc] at h
    by_cases hg : guardOn cfg (s.th t).depth (s.th t).hooked g.g = true
    · rw [if_pos hg] at h
      simp only [Option.map_eq_some_iff] at h
      obtain ⟨⟨sh', l'⟩, he, rfl⟩ := h
      have hsim := inv.sim t
      rw [hc] at hsim
      obtain ⟨gg, act⟩ := g
      obtain ⟨f1, f2, f3, f4⟩ := sim_facts (a := (s.th t).abs) hg hsim
      have ownc : Lock.console ∈ (s.th t).held → s.sh.owner .console = some t := (inv.own .console t).mpr
      rcases exec_rec he with ⟨ha, hr, hf, ho, hb, hd⟩ | ⟨ha, hr, ho, hb, hd, hf⟩ | ⟨ha, hr, hf, ho, hd⟩ | ⟨ha, hr, hf, hb, hd⟩ |
        ⟨hr, hf, ho, hb, hd⟩
      · -- record append
        obtain ⟨hheld, hrd⟩ := f1 ha
        have hoc := ownc hheld
        have hp0 : pend s = [] := by simp [pend, hoc]; exact fun h => by simp [Local.abs] at hrd; simp [hrd] at h
        have hp1 : pend { sh := sh', th := upd s.th t l' } = (s.th t).buffer := by
          simp [pend, ho, hoc, upd, hd, hb]
        simp only [RecInv, fileItems, hr, hf, hp1] at ri ⊢
        rw [hp0, List.append_nil] at ri
        simp only [List.filter_append, ri]
      · -- write
        obtain ⟨hheld, hrd⟩ := f2 ha
        have hoc := ownc hheld
        have hp1 : pend { sh := sh', th := upd s.th t l' } = [] := by
          simp [pend, ho, hoc, upd, hd]
        simp only [RecInv, fileItems, hr, hp1, List.append_nil] at ri ⊢
        have hrd' : (s.th t).recDone = true := hrd hrec
        have hp0 : pend s = (s.th t).buffer := by simp [pend, hoc, hrd']
        rw [hp0] at ri
        rw [ri, hf]
        by_cases hany : (s.th t).buffer.any nonEmpty = true
        · simp [hany]
        · have hany' : (s.th t).buffer.any nonEmpty = false := by simpa using hany
          simp only [hany', Bool.false_eq_true, if_false, List.filter_append, filter_nonEmpty_nil hany', List.append_nil]
      · -- the buffer changes while nothing is pending for this thread
        have hrd : (s.th t).recDone = false := f4 ha
        have hp : pend { sh := sh', th := upd s.th t l' } = pend s := by
          simp only [pend, ho]
          cases hoc : s.sh.owner .console with
          | none => rfl
          | some u =>
            by_cases hu : u = t
            · subst hu; simp [upd, hd, hrd]
            · simp [upd, hu]
        simpa only [RecInv, fileItems, hr, hf, hp] using ri
      · -- a lock operation
        have hp : pend { sh := sh', th := upd s.th t l' } = pend s := by
          obtain ⟨lk, hlk⟩ := ha
          rcases exec_held he with ⟨lk0, ha0, hfree, ho, hh⟩ | ⟨lk0, ha0, hm, hh, ho⟩ | ⟨ho, hh⟩
          · by_cases hk : lk0 = .console
            · subst hk
              rcases hfree with hfr | hfr
              · -- the console lock was free: this thread has nothing pending
                have hrd : (s.th t).recDone = false := by
                  cases hrd : (s.th t).recDone
                  · rfl
                  · have := ownc (inv.rd t hrd); rw [hfr] at this; simp at this
                simp [pend, ho, updLock, hfr, upd, hd, hrd]
              · simp [pend, ho, updLock, hfr, upd, hd, hb]
            · have : sh'.owner .console = s.sh.owner .console := by
                rw [ho]; simp [updLock]; intro h; exact absurd h.symm hk
              simp only [pend, this]
              cases s.sh.owner .console with
              | none => rfl
              | some u => by_cases hu : u = t <;> simp [upd, hu, hd, hb]
          · by_cases hk : lk0 = .console
            · subst hk
              have hrd : (s.th t).recDone = false := f3 ha0
              have hoc := ownc hm
              by_cases hin : Lock.console ∈ (s.th t).held.erase .console
              · simp [pend, ho, hin, hoc, upd, hd, hrd]
              · simp [pend, ho, hin, hoc, updLock, hrd]
            · have : sh'.owner .console = s.sh.owner .console := by
                rw [ho]; split
                · rfl
                · simp [updLock]; intro h; exact absurd h.symm hk
              simp only [pend, this]
              cases s.sh.owner .console with
              | none => rfl
              | some u => by_cases hu : u = t <;> simp [upd, hu, hd, hb]
          · simp only [pend, ho]
            cases s.sh.owner .console with
            | none => rfl
            | some u => by_cases hu : u = t <;> simp [upd, hu, hd, hb]
        simpa only [RecInv, fileItems, hr, hf, hp] using ri
      · have hp : pend { sh := sh', th := upd s.th t l' } = pend s := by
          simp only [pend, ho]
          cases s.sh.owner .console with
          | none => rfl
          | some u => by_cases hu : u = t <;> simp [upd, hu, hd, hb]
        simpa only [RecInv, fileItems, hr, hf, hp] using ri
    · rw [if_neg hg] at h
      simp only [Option.some.injEq] at h
      subst h
      have hp : pend { s with th := upd s.th t { s.th t with cont := r } } = pend s :=
        pend_congr rfl (fun u => by by_cases hu : u = t <;> simp [upd, hu])
      simpa only [RecInv, fileItems, hp] using ri

theorem rec_run {cfg : Cfg} (hrec : cfg.record = true) (sched : List Nat) :
    ∀ {s : State}, Inv cfg s → RecInv s → RecInv (run cfg s sched) := by
  induction sched with
  | nil => intro s _ h; exact h
  | cons t rest ih =>
    intro s hi h
    simp only [run, List.foldl_cons]
    cases hs : stepT cfg s t with
    | none => simpa [run] using ih hi h
    | some s' => simpa [run] using ih (inv_step hi hs) (rec_step hrec hi h hs)

end RichModel.Conc
