import RichModel.Lemmas.Console
import RichModel.Lemmas.Html
/-! The fragments `export_html` produces: their text, and that their tags are well formed. -/
namespace RichModel.Console
open RichModel

variable {σ : Type}

/-- Contract on the style parameters under which a tag body cannot be ended early by a `>`:
the CSS rule never contains `>`; and, only for the code that writes the link verbatim
(`escapeHref = false`, rich 9.10.0 as found, before fix e488480), neither does a link. -/
structure TagSafe (v : Variant) (env : StyleEnv σ) : Prop where
  rule : ∀ s, '>' ∉ env.htmlRule s
  link : v.escapeHref = false → ∀ s l, linkOf env s = some l → '>' ∉ l

theorem not_gt_mem_hrefOf (v : Variant) (env : StyleEnv σ) (h : TagSafe v env) (s : σ) (l : List Char)
    (hl : linkOf env s = some l) : '>' ∉ hrefOf v l := by
  unfold hrefOf
  by_cases hv : v.escapeHref = true
  · simp only [hv, if_true]; exact not_gt_mem_escapeAttr l
  · have hv' : v.escapeHref = false := by simpa using hv
    simp only [hv', Bool.false_eq_true, if_false]
    exact h.link hv' s l hl

theorem fragsText_wrapLink (v : Variant) (env : StyleEnv σ) (s : σ) (fs : List Frag) :
    fragsText (wrapLink v env s fs) = fragsText fs := by
  unfold wrapLink
  split
  · simp [fragsText]
  · rfl

theorem fragsOk_wrapLink (v : Variant) (env : StyleEnv σ) (h : TagSafe v env) (s : σ) (fs : List Frag)
    (hfs : FragsOk fs) : FragsOk (wrapLink v env s fs) := by
  unfold wrapLink
  split
  · rename_i l hl
    refine FragsOk.append (FragsOk.append ?_ hfs) ?_
    · intro f hf
      simp only [List.mem_singleton] at hf
      subst hf
      simp only [List.mem_append, List.mem_singleton, not_or]
      exact ⟨⟨by decide, not_gt_mem_hrefOf v env h s l hl⟩, by decide⟩
    · intro f hf
      simp only [List.mem_singleton] at hf
      subst hf
      decide
  · exact hfs

theorem fragsOk_text (t : List Char) : FragsOk [Frag.text (escape t)] := by
  intro f hf
  simp only [List.mem_singleton] at hf
  subst hf
  exact not_lt_mem_escape t

theorem fragsOk_span (body : List Char) (hb : '>' ∉ body) (t : List Char) :
    FragsOk ([Frag.tag body] ++ [Frag.text (escape t)] ++ [Frag.tag "/span".toList]) := by
  refine FragsOk.append (FragsOk.append ?_ (fragsOk_text t)) ?_
  · intro f hf
    simp only [List.mem_singleton] at hf
    subst hf
    exact hb
  · intro f hf
    simp only [List.mem_singleton] at hf
    subst hf
    decide

theorem fragsText_inlineSeg (v : Variant) (env : StyleEnv σ) (seg : Segment σ) :
    fragsText (htmlInlineSeg v env seg) = escape seg.text := by
  unfold htmlInlineSeg
  cases seg.style with
  | none => simp [fragsText]
  | some s =>
    simp only
    split
    · rw [fragsText_wrapLink]
      split <;> simp [fragsText]
    · simp [fragsText]

theorem fragsOk_inlineSeg (v : Variant) (env : StyleEnv σ) (h : TagSafe v env) (seg : Segment σ) :
    FragsOk (htmlInlineSeg v env seg) := by
  unfold htmlInlineSeg
  cases seg.style with
  | none => exact fragsOk_text _
  | some s =>
    simp only
    split
    · apply fragsOk_wrapLink v env h
      split
      · apply fragsOk_span
        simp only [List.mem_append, List.mem_singleton, not_or]
        exact ⟨⟨by decide, h.rule s⟩, by decide⟩
      · exact fragsOk_text _
    · exact fragsOk_text _

theorem fragsText_inline (v : Variant) (env : StyleEnv σ) (segs : List (Segment σ)) :
    fragsText (segs.flatMap (htmlInlineSeg v env)) = escape (segs.flatMap (·.text)) := by
  induction segs with
  | nil => rfl
  | cons seg segs ih =>
    simp only [List.flatMap_cons, fragsText_append, ih, fragsText_inlineSeg, escape_append]

theorem fragsOk_inline (v : Variant) (env : StyleEnv σ) (h : TagSafe v env) (segs : List (Segment σ)) :
    FragsOk (segs.flatMap (htmlInlineSeg v env)) := by
  induction segs with
  | nil => exact FragsOk.nil
  | cons seg segs ih =>
    simp only [List.flatMap_cons]
    exact FragsOk.append (fragsOk_inlineSeg v env h seg) ih

/-- The decimal digits of a class number contain no `>`. -/
theorem not_gt_mem_toString (n : Nat) : '>' ∉ (toString n).toList := by
  intro hm
  have e : (toString n).toList = Nat.toDigits 10 n := Nat.toList_repr
  rw [e] at hm
  have := Nat.isDigit_of_mem_toDigits (by decide) (by decide) hm
  revert this
  decide

theorem classLoop_text_ok (v : Variant) (env : StyleEnv σ) (h : TagSafe v env) :
    ∀ (segs : List (Segment σ)) (styles : List (List Char × Nat)),
      fragsText (htmlClassLoop v env segs styles).1 = escape (segs.flatMap (·.text)) ∧
      FragsOk (htmlClassLoop v env segs styles).1
  | [], styles => ⟨rfl, FragsOk.nil⟩
  | seg :: rest, styles => by
    unfold htmlClassLoop
    simp only [List.flatMap_cons, escape_append, fragsText_append]
    cases hs : seg.style with
    | none =>
      simp only
      obtain ⟨h1, h2⟩ := classLoop_text_ok v env h rest styles
      exact ⟨by rw [h1]; simp [fragsText], FragsOk.append (fragsOk_text _) h2⟩
    | some s =>
      simp only
      by_cases htr : env.truthy s = true
      · simp only [htr, if_true]
        by_cases hrule : (env.htmlRule s).isEmpty = true
        · simp only [hrule, Bool.not_true, Bool.false_eq_true, if_false]
          obtain ⟨h1, h2⟩ := classLoop_text_ok v env h rest styles
          refine ⟨?_, FragsOk.append (fragsOk_wrapLink v env h s _ (fragsOk_text _)) h2⟩
          rw [h1, fragsText_wrapLink]; simp [fragsText]
        · have hrule' : (env.htmlRule s).isEmpty = false := by simpa using hrule
          simp only [hrule', Bool.not_false, if_true]
          obtain ⟨h1, h2⟩ := classLoop_text_ok v env h rest (setDefault styles (env.htmlRule s)).1
          refine ⟨?_, FragsOk.append (fragsOk_wrapLink v env h s _ ?_) h2⟩
          · rw [h1, fragsText_wrapLink]; simp [fragsText]
          · apply fragsOk_span
            simp only [List.mem_append, List.mem_singleton, not_or]
            exact ⟨⟨by decide, not_gt_mem_toString _⟩, by decide⟩
      · have htr' : env.truthy s = false := by simpa using htr
        simp only [htr', Bool.false_eq_true, if_false]
        obtain ⟨h1, h2⟩ := classLoop_text_ok v env h rest styles
        exact ⟨by rw [h1]; simp [fragsText], FragsOk.append (fragsOk_text _) h2⟩

/-- Plain text in terms of the (character, style, control) stream of `Lemmas/Segment`. -/
theorem exportPlain_eq_stream (l : List (Segment σ)) :
    exportPlain l = ((stream l).filter (fun x => !x.2.2)).map (·.1) := by
  induction l with
  | nil => rfl
  | cons s l ih =>
    rw [exportPlain_cons, stream_cons, List.filter_append, List.map_append, ← ih]
    congr 1
    by_cases hc : s.control = true
    · simp [hc, List.filter_map, Function.comp_def]
    · have hc' : s.control = false := by simpa using hc
      have ft : ∀ t : List Char, t.filter (fun _ => true) = t := fun t => List.filter_eq_self.mpr (fun _ _ => rfl)
      simp [hc', List.filter_map, Function.comp_def, ft]

/-- The segments `export_html` iterates carry exactly the record's non-control text (repaired `simplify`). -/
theorem htmlSegments_text [BEq σ] [LawfulBEq σ] (v : Variant) (hv : v.mergeCtl = false) (record : List (Segment σ)) :
    (htmlSegments v record).flatMap (·.text) = exportPlain record := by
  have e : (htmlSegments v record).flatMap (·.text) = exportPlain (simplify record false) := by
    simp [htmlSegments, filterControl, exportPlain, hv]
  rw [e, exportPlain_eq_stream, exportPlain_eq_stream]
  congr 2
  cases record with
  | nil => rfl
  | cons s rest => exact simplifyLoop_stream rest s

/-- The segments `export_html` iterates carry the record's characters in their styles. -/
theorem htmlSegments_segStream [BEq σ] [LawfulBEq σ] (v : Variant) (hv : v.mergeCtl = false) (env : StyleEnv σ)
    (record : List (Segment σ)) :
    segStream env (htmlSegments v record) = segStream env record := by
  have key : ∀ l : List (Segment σ), segStream env l =
      ((stream l).filter (fun x => !x.2.2)).map (fun x => (x.1, effStyle env x.2.1)) := by
    intro l
    induction l with
    | nil => rfl
    | cons s l ih =>
      rw [segStream_cons, stream_cons, List.filter_append, List.map_append, ← ih]
      congr 1
      by_cases hc : s.control = true
      · simp [hc, List.filter_map, Function.comp_def]
      · have hc' : s.control = false := by simpa using hc
        have ft : ∀ t : List Char, t.filter (fun _ => true) = t := fun t => List.filter_eq_self.mpr (fun _ _ => rfl)
        simp [hc', List.filter_map, Function.comp_def, ft]
  have e : segStream env (htmlSegments v record) = segStream env (simplify record false) := by
    simp [htmlSegments, filterControl, segStream, hv]
  rw [e, key, key]
  congr 2
  cases record with
  | nil => rfl
  | cons s rest => exact simplifyLoop_stream rest s

end RichModel.Console
