import RichModel.Model.Table
import RichModel.Lemmas.Ratio
/-!
Lemmas about `Table._calculate_column_widths` (`Model/Table.lean`): the final padding block, the
re-measure, the first pass, for tables without active ratio columns.
-/
namespace RichModel

/-! ### small list facts -/

theorem sum_zip_add : ∀ (a b : List Int), a.length = b.length →
    ((a.zip b).map (fun p => p.1 + p.2)).sum = a.sum + b.sum ∧ ((a.zip b).map (fun p => p.1 + p.2)).length = a.length
  | [], [], _ => by simp
  | [], _ :: _, h => by simp at h
  | _ :: _, [], h => by simp at h
  | x :: xs, y :: ys, h => by
    have ih := sum_zip_add xs ys (by simpa using h)
    simp only [List.zip_cons_cons, List.map_cons, List.sum_cons, List.length_cons, ih.1, ih.2]
    exact ⟨by omega, trivial⟩

theorem zip_add_ge : ∀ (a b : List Int), (∀ d ∈ b, 0 ≤ d) → ∀ p ∈ a.zip ((a.zip b).map (fun p => p.1 + p.2)), p.1 ≤ p.2
  | [], _, _ => by simp
  | _ :: _, [], _ => by simp
  | x :: xs, y :: ys, h => by
    intro p hp
    simp only [List.zip_cons_cons, List.map_cons, List.mem_cons] at hp
    rcases hp with rfl | hp
    · have := h y (by simp); simp only; omega
    · exact zip_add_ge xs ys (fun d hd => h d (List.mem_cons_of_mem _ hd)) p hp

theorem sum_pos_of_all_pos : ∀ (l : List Int), l ≠ [] → (∀ w ∈ l, 1 ≤ w) → 0 < l.sum
  | [], h, _ => absurd rfl h
  | [x], _, h => by have := h x (by simp); simp; omega
  | x :: y :: r, _, h => by
    have := h x (by simp)
    have := sum_pos_of_all_pos (y :: r) (by simp) (fun w hw => h w (List.mem_cons_of_mem _ hw))
    simp only [List.sum_cons] at this ⊢; omega

theorem sum_le_of_zip_le : ∀ (a b : List Int), a.length = b.length → (∀ p ∈ a.zip b, p.1 ≤ p.2) → a.sum ≤ b.sum
  | [], [], _, _ => by simp
  | [], _ :: _, h, _ => by simp at h
  | _ :: _, [], h, _ => by simp at h
  | x :: xs, y :: ys, h, hp => by
    have h1 := hp (x, y) (by simp)
    have := sum_le_of_zip_le xs ys (by simpa using h) (fun p hp' => hp p (by simp [hp']))
    simp only [List.sum_cons]; simp only at h1; omega

/-! ### `ratio_distribute` when there is nothing (or less than nothing) to hand out -/

/-- With a non-positive amount and positive ratios, `ratio_distribute` (no minimums) hands out nothing. -/
theorem rdLoop_nonpos : ∀ (items : List (Int × Int)) (rem tr : Int),
    (∀ it ∈ items, 1 ≤ it.1 ∧ it.2 = 0) → tr = (items.map (·.1)).sum → rem ≤ 0 →
    ∀ d ∈ ratioDistributeLoop items rem tr, d = 0
  | [], _, _, _, _, _ => by simp [ratioDistributeLoop]
  | (ratio, minimum) :: rest, rem, tr, hpos, htr, hrem => by
    have h0 := hpos (ratio, minimum) (by simp)
    simp only at h0
    obtain ⟨h0, hmin⟩ := h0
    subst hmin
    have hrest : ∀ it ∈ rest, 0 ≤ it.1 := fun it hit => by have := (hpos it (List.mem_cons_of_mem _ hit)).1; omega
    have hsn := sum_fst_nonneg rest hrest
    simp only [List.map_cons, List.sum_cons] at htr
    have htr0 : 0 < tr := by omega
    have hmul : ratio * rem ≤ 0 * tr := by
      have : ratio * rem ≤ 0 := Int.mul_nonpos_of_nonneg_of_nonpos (by omega) hrem
      omega
    have hc := ceil_le (ratio * rem) tr 0 htr0 hmul
    unfold ratioDistributeLoop
    simp only [htr0, if_true]
    have hmax : max 0 (ceilDiv (ratio * rem) tr) = 0 := by omega
    rw [hmax]
    intro d hd
    rcases List.mem_cons.mp hd with hd | hd
    · exact hd
    · exact rdLoop_nonpos rest (rem - 0) (tr - ratio) (fun it hit => hpos it (List.mem_cons_of_mem _ hit)) (by omega) (by omega) d hd

/-- `ratio_distribute(total, ratios)` for positive ratios and ANY total: the parts sum to `max 0 total`. -/
theorem ratioDistribute_pos (total : Int) (ratios : List Int) (hne : ratios ≠ []) (hpos : ∀ r ∈ ratios, 1 ≤ r) :
    ∃ l, ratioDistribute total ratios none = some l ∧ l.sum = max 0 total ∧ l.length = ratios.length ∧ ∀ d ∈ l, 0 ≤ d := by
  have hsum := sum_pos_of_all_pos ratios hne hpos
  by_cases ht : 0 ≤ total
  · obtain ⟨l, h1, h2, h3, h4⟩ := ratioDistribute_none total ratios (fun r hr => by have := hpos r hr; omega) hsum ht
    exact ⟨l, h1, by omega, h3, h4⟩
  · unfold ratioDistribute
    simp only [hsum, if_true]
    have hz := rdLoop_nonpos ((ratios.zip (List.replicate ratios.length 0))) total ratios.sum
      (by
        intro it hit
        have := List.of_mem_zip hit
        exact ⟨hpos _ this.1, (List.mem_replicate.mp this.2).2⟩)
      (by rw [zip_replicate_fst]) (by omega)
    refine ⟨_, rfl, ?_, ?_, ?_⟩
    · rw [sum_zero_of_all_zero _ hz]; omega
    · rw [rdLoop_length]; simp
    · intro d hd; have := hz d hd; omega

/-- With at least one column `_calculate_column_widths` is the three phases, whatever the no-columns flag says. -/
theorem calcWidths_ne (fl : Flags) (t : Table) (maxWidth : Int) (h : t.columns ≠ []) :
    t.calcWidths fl maxWidth =
      match t.firstWidths fl maxWidth with
      | none => none
      | some widths =>
        if widths.sum > maxWidth then
          t.padWidths fl (t.shrinkWidths widths maxWidth).1
            (if fl.staleTableWidth then (t.shrinkWidths widths maxWidth).2 else (t.shrinkWidths widths maxWidth).1.sum) maxWidth
        else t.padWidths fl widths widths.sum maxWidth := by
  unfold Table.calcWidths
  have : t.columns.isEmpty = false := by
    cases hc : t.columns with
    | nil => exact absurd hc h
    | cons _ _ => rfl
  simp only [this, Bool.and_false, Bool.false_eq_true, if_false]
  rfl

/-! ### the final padding block -/

theorem padTarget_le (fl : Flags) (t : Table) (maxWidth : Int) : t.padTarget fl maxWidth ≤ maxWidth := by
  unfold Table.padTarget
  split
  · omega
  · split <;> omega

/-- An expanding table pads up to `max_width` (with the repaired target, or without a table `min_width`). -/
theorem padTarget_expand (fl : Flags) (t : Table) (maxWidth : Int) (hexp : t.expand = true)
    (hfl : fl.minWidthCapsExpand = false ∨ t.minWidth = none) : t.padTarget fl maxWidth = maxWidth := by
  unfold Table.padTarget
  split
  · rfl
  · rename_i m hm
    rcases hfl with hfl | hfl
    · simp [hfl, hexp]
    · rw [hfl] at hm; cases hm

/-- What the padding block does to positive widths: one result per column, none shrinks, and the sum grows
by exactly `max 0 (target - table_width)` when the condition holds (by nothing otherwise). -/
theorem padWidths_spec (fl : Flags) (t : Table) (ws : List Int) (tableWidth maxWidth : Int)
    (hne : ws ≠ []) (hpos : ∀ w ∈ ws, 1 ≤ w) :
    ∃ r, t.padWidths fl ws tableWidth maxWidth = some r ∧ r.length = ws.length ∧
      r.sum = ws.sum + (if t.padCond tableWidth maxWidth then max 0 (t.padTarget fl maxWidth - tableWidth) else 0) ∧
      (∀ p ∈ ws.zip r, p.1 ≤ p.2) := by
  unfold Table.padWidths
  split
  · obtain ⟨pads, h1, h2, h3, h4⟩ := ratioDistribute_pos (t.padTarget fl maxWidth - tableWidth) ws hne hpos
    rw [h1]
    have hz := sum_zip_add ws pads h3.symm
    exact ⟨_, rfl, hz.2, by rw [hz.1, h2], zip_add_ge ws pads h4⟩
  · refine ⟨ws, rfl, rfl, by omega, ?_⟩
    intro p hp
    have : p.1 = p.2 := by
      clear hne hpos
      induction ws with
      | nil => simp at hp
      | cons x xs ih =>
        simp only [List.zip_cons_cons, List.mem_cons] at hp
        rcases hp with rfl | hp
        · rfl
        · exact ih hp
    omega

/-! ### measuring a free column -/

theorem listMax_nonneg (l : List Int) (hne : l ≠ []) (h : ∀ x ∈ l, 0 ≤ x) : 0 ≤ listMax l :=
  h _ (listMax_mem l hne)

/-- The cells' measured maxima are never negative (what `Measurement.get` guarantees) and an explicit
`max_width` cap, if any, is not negative either. -/
def Column.SaneFree (t : Table) (idx : Nat) (c : Column) : Prop :=
  c.width = none ∧ c.minWidth = none ∧
  (∀ cell ∈ t.getCells c, ∀ w, 0 ≤ (cell.measure w).maximum) ∧
  (∀ m, c.maxWidth = some m → 0 ≤ m + t.paddingWidth idx)

/-- A free column (no `width`, no `min_width`) offered `w` measures between 0 and `w` (`w ≥ 1`), and 0 below. -/
theorem measureColumn_free (t : Table) (idx : Nat) (c : Column) (w : Int) (h : c.SaneFree t idx) :
    0 ≤ (t.measureColumn idx c w).maximum ∧ (1 ≤ w → (t.measureColumn idx c w).maximum ≤ w) := by
  obtain ⟨hw, hmin, hcells, hcap⟩ := h
  unfold Table.measureColumn
  split
  · simp; omega
  · rename_i hw1
    simp only [hw, hmin, Option.map_none]
    have hm0 : 0 ≤ (if ((t.getCells c).map (fun cell => cell.measure w.toNat)).isEmpty then w
        else listMax (((t.getCells c).map (fun cell => cell.measure w.toNat)).map (·.maximum))) := by
      split
      · omega
      · rename_i hne
        apply listMax_nonneg
        · intro h0
          simp only [List.map_eq_nil_iff] at h0
          simp [h0] at hne
        · intro x hx
          simp only [List.mem_map] at hx
          obtain ⟨m, ⟨cell, hcell, rfl⟩, rfl⟩ := hx
          exact hcells cell hcell _
    generalize (if ((t.getCells c).map (fun cell => cell.measure w.toNat)).isEmpty then w
        else listMax (((t.getCells c).map (fun cell => cell.measure w.toNat)).map (·.maximum))) = mx at hm0
    generalize (if ((t.getCells c).map (fun cell => cell.measure w.toNat)).isEmpty then (1 : Int)
        else listMax (((t.getCells c).map (fun cell => cell.measure w.toNat)).map (·.minimum))) = mn
    cases hmx : c.maxWidth with
    | none =>
      simp only [Option.map_none, Measurement.clamp, Measurement.withMaximum]
      omega
    | some m =>
      have := hcap m hmx
      simp only [Option.map_some, Measurement.clamp, Measurement.withMaximum]
      omega

theorem orOne_bounds (x w : Int) (h0 : 0 ≤ x) : 1 ≤ orOne x ∧ (1 ≤ w → x ≤ w → orOne x ≤ w) := by
  unfold orOne
  split
  · rename_i h; simp at h; omega
  · rename_i h; simp at h; omega

theorem indexed_length (t : Table) : t.indexed.length = t.columns.length := by simp [Table.indexed]

theorem mem_indexed (t : Table) (ci : Column × Nat) (h : ci ∈ t.indexed) : ci.1 ∈ t.columns := by
  obtain ⟨c, i⟩ := ci
  unfold Table.indexed at h
  exact (List.mem_zipIdx h).2.2 ▸ List.getElem_mem _

/-- Every column is free and sane. -/
def Table.AllFree (t : Table) : Prop := ∀ ci ∈ t.indexed, ci.1.SaneFree t ci.2

/-- The re-measure of free columns at widths `≥ 1`: each new width is between 1 and the old one. -/
theorem remeasure_free (t : Table) (hfree : t.AllFree) (ws : List Int) (hlen : ws.length = t.columns.length)
    (h1 : ∀ w ∈ ws, 1 ≤ w) :
    (t.remeasure ws).length = ws.length ∧ (∀ w ∈ t.remeasure ws, 1 ≤ w) ∧ (∀ p ∈ (t.remeasure ws).zip ws, p.1 ≤ p.2) := by
  unfold Table.remeasure
  have hl : (ws.zip t.indexed).length = ws.length := by simp [indexed_length, hlen]
  refine ⟨by simp [indexed_length, hlen], ?_, ?_⟩
  · intro w hw
    simp only [List.mem_map] at hw
    obtain ⟨wc, hwc, rfl⟩ := hw
    have hm := List.of_mem_zip hwc
    exact (orOne_bounds _ wc.1 (measureColumn_free t wc.2.2 wc.2.1 wc.1 (hfree wc.2 hm.2)).1).1
  · have hfree' : ∀ ci ∈ t.indexed, ci.1.SaneFree t ci.2 := hfree
    generalize t.indexed = ind at hfree'
    intro p hp
    clear hl hlen hfree
    induction ws generalizing ind with
    | nil => simp at hp
    | cons w ws ih =>
      cases ind with
      | nil => simp at hp
      | cons ci ind =>
        simp only [List.zip_cons_cons, List.map_cons, List.mem_cons] at hp
        rcases hp with rfl | hp
        · have hb := measureColumn_free t ci.2 ci.1 w (hfree' ci (by simp))
          have hw1 := h1 w (by simp)
          exact (orOne_bounds _ w hb.1).2 hw1 (hb.2 hw1)
        · exact ih (fun x hx => h1 x (List.mem_cons_of_mem _ hx)) ind (fun c hc => hfree' c (List.mem_cons_of_mem _ hc)) hp

/-! ### the first pass without active ratio columns -/

/-- No ratio column takes part: the table does not expand, or every ratio is `None`/0. -/
def Table.NoRatio (t : Table) : Prop := t.expand = false ∨ ∀ c ∈ t.columns, c.ratio.getD 0 = 0

theorem firstWidths_noRatio (fl : Flags) (t : Table) (h : t.NoRatio) (maxWidth : Int) :
    t.firstWidths fl maxWidth = some (t.indexed.map (fun ci => orOne (t.measureColumn ci.2 ci.1 maxWidth).maximum)) := by
  unfold Table.firstWidths
  simp only [List.map_map]
  rcases h with h | h
  · simp [h]
  · split
    · have : ((t.indexed.filter (fun ci => ci.1.flexible)).map (fun ci => ci.1.ratio.getD 0)).any (· != 0) = false := by
        rw [List.any_eq_false]
        intro x hx
        simp only [List.mem_map, List.mem_filter] at hx
        obtain ⟨ci, ⟨hci, _⟩, rfl⟩ := hx
        simp [h ci.1 (mem_indexed t ci hci)]
      simp only [this]
      rfl
    · rfl

theorem firstWidths_free (fl : Flags) (t : Table) (h : t.NoRatio) (hfree : t.AllFree) (maxWidth : Int) :
    ∃ ws, t.firstWidths fl maxWidth = some ws ∧ ws.length = t.columns.length ∧ ∀ w ∈ ws, 1 ≤ w := by
  refine ⟨_, firstWidths_noRatio fl t h maxWidth, by simp [indexed_length], ?_⟩
  intro w hw
  simp only [List.mem_map] at hw
  obtain ⟨ci, hci, rfl⟩ := hw
  exact (orOne_bounds _ 0 (measureColumn_free t ci.2 ci.1 maxWidth (hfree ci hci)).1).1

/-- The re-measure of free columns never yields a width below 1 (`maximum or 1` of a non-negative maximum). -/
theorem remeasure_pos (t : Table) (hfree : t.AllFree) (ws : List Int) : ∀ w ∈ t.remeasure ws, 1 ≤ w := by
  intro w hw
  simp only [Table.remeasure, List.mem_map] at hw
  obtain ⟨wc, hwc, rfl⟩ := hw
  have hm := List.of_mem_zip hwc
  exact (orOne_bounds _ wc.1 (measureColumn_free t wc.2.2 wc.2.1 wc.1 (hfree wc.2 hm.2)).1).1

theorem wrapable_all (t : Table) (hwrap : ∀ c ∈ t.columns, c.width = none ∧ c.noWrap = false) : ∀ b ∈ t.wrapable, b = true := by
  intro b hb
  simp only [Table.wrapable, List.mem_map] at hb
  obtain ⟨c, hc, rfl⟩ := hb
  simp [(hwrap c hc).1, (hwrap c hc).2]

/-- When every column may wrap, the `if table_width > max_width` block collapses to EXACTLY `max_width`
(the last-resort `ratio_reduce` is never reached) and then re-measures. -/
theorem shrinkWidths_all_wrappable (t : Table) (maxWidth : Int) (ws0 : List Int)
    (hlen : ws0.length = t.columns.length) (hnn : ∀ w ∈ ws0, 0 ≤ w)
    (hover : maxWidth < ws0.sum) (hmw : 0 ≤ maxWidth) (hwrap : ∀ c ∈ t.columns, c.width = none ∧ c.noWrap = false) :
    let r := collapseWidths ws0 t.wrapable maxWidth
    t.shrinkWidths ws0 maxWidth = (t.remeasure r, maxWidth) ∧ r.sum = maxWidth ∧ r.length = t.columns.length ∧ ∀ w ∈ r, 0 ≤ w := by
  intro r
  have hwl : ws0.length = t.wrapable.length := by simp [Table.wrapable, hlen]
  have hall := wrapable_all t hwrap
  have hne0 : ws0 ≠ [] := by intro h; rw [h] at hover; simp at hover; omega
  have hle := collapseWidths_all_wrappable ws0 t.wrapable maxWidth hwl hnn hall hne0 hmw
  have hpost := collapseWidths_post ws0 t.wrapable maxWidth hwl hnn
  simp only at hpost
  obtain ⟨hcl, hcnn, _, _, hge⟩ := hpost
  have hge := hge (by omega)
  have hsum : r.sum = maxWidth := by simp only [r]; omega
  refine ⟨?_, hsum, by simp only [r]; omega, hcnn⟩
  unfold Table.shrinkWidths Table.shrinkPre
  simp only [show ¬ ((collapseWidths ws0 t.wrapable maxWidth).sum > maxWidth) by omega, if_false]
  simp only [r] at hsum
  rw [hsum]

end RichModel
