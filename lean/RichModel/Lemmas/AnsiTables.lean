import RichModel.Model.Ansi
/-!
Side conditions on the tables translated from the working tree (`SGR_STYLE_MAP`, `Style._style_map`)
and from the running Python (`str.isdigit`, `int`), re-proved by `decide +kernel` on every run.
This is the table half of the round trip `decode_encode`: every SGR parameter the encoder emits is
read back by the decoder's table as the very attribute / colour it was emitted for.
-/
namespace RichModel
namespace Ansi
open AsciiStr

/-- The compared fields of a style, and `_null`. -/
structure Fields where
  color : Option Color
  bgcolor : Option Color
  attributes : Nat
  setAttributes : Nat
  link : Option (List Char)
  isNull : Bool
deriving DecidableEq, Repr

def fieldsOf (s : Style) : Fields := ⟨s.color, s.bgcolor, s.attributes, s.setAttributes, s.link, s.isNull⟩

/-- What the decoder adds for SGR code `code` when it is in the table. -/
def parsedFields (v : StyleVariant) (code : Nat) : Option Fields :=
  match sgrLookup code with
  | some d =>
    match Style.parse v d with
    | .ok s => some (fieldsOf s)
    | .error _ => none
  | none => none

/-- A parameter text is safe inside `ESC [ … m`: ASCII digits only (what `[0-9;:]*` of the repaired `re_ansi` admits). -/
def paramOk (c : List Char) (n : Nat) : Bool :=
  strIsDigit c && c.all (fun x => x != ';' && x != 'm' && x != '\n' && x != ESC && x != '\r') &&
    pyIntDigits c == some n && decide (n ≤ 255) && c.all (fun x => 48 ≤ x.toNat && x.toNat ≤ 57)

/-- Attribute bit `i`: the encoder's parameter is a number `k`, and the decoder's table reads `k` as
"attribute `i` on" and nothing else. -/
def bitOk (v : StyleVariant) (i : Nat) : Bool :=
  match styleMapCode i with
  | some c =>
    match pyIntDigits c with
    | some k =>
      paramOk c k && decide (k ≠ 0 ∧ k ≠ 24 ∧ k ≠ 25) &&
        parsedFields v k == some ⟨none, none, 2 ^ i, 2 ^ i, none, false⟩
    | none => false
  | none => false

def defaultColor : Color := { name := cl! "default", type := .default }

/-- The sixteen standard colours and `default`, foreground and background. -/
def colorRowsOk (v : StyleVariant) : Bool :=
  (List.range 8).all (fun n =>
    parsedFields v (30 + n) == some ⟨some (fromAnsi n), none, 0, 0, none, false⟩ &&
    parsedFields v (90 + n) == some ⟨some (fromAnsi (n + 8)), none, 0, 0, none, false⟩ &&
    parsedFields v (40 + n) == some ⟨none, some (fromAnsi n), 0, 0, none, false⟩ &&
    parsedFields v (100 + n) == some ⟨none, some (fromAnsi (n + 8)), 0, 0, none, false⟩) &&
  parsedFields v 39 == some ⟨some defaultColor, none, 0, 0, none, false⟩ &&
  parsedFields v 49 == some ⟨none, some defaultColor, 0, 0, none, false⟩

/-- Every entry of the decoder's table is a style definition that parses, to a non-null style without a
link whose attribute values lie inside its set attributes (13 bits). -/
def entriesOk (v : StyleVariant) : Bool :=
  Gen.sgrStyleMap.all fun p =>
    match Style.parse v p.2 with
    | .ok s => s.link == none && !s.isNull && decide (s.attributes &&& s.setAttributes = s.attributes) &&
        decide (s.setAttributes < 8192)
    | .error _ => false

/-- Code `k` only switches attributes off: at least those of `must`, at most those of `may`. -/
def offRow (v : StyleVariant) (k must may : Nat) : Bool :=
  match parsedFields v k with
  | some F => F.color.isNone && F.bgcolor.isNone && F.attributes == 0 && F.link.isNone && !F.isNull &&
      (F.setAttributes &&& must == must) && (F.setAttributes ||| may == may)
  | none => false

/-- The "off" codes as ECMA-48 numbers them: 22 normal intensity (not bold, not dim), 23 not italic,
24 not underlined (rich keeps the double underline; both readings are admitted), 25 steady (likewise for
the rapid blink), 27 positive image, 28 revealed, 29 not crossed out, 54 not framed / encircled, 55 not overlined. -/
def offRowsOk (v : StyleVariant) : Bool :=
  offRow v 22 3 3 && offRow v 23 4 4 && offRow v 24 8 520 && offRow v 25 16 48 && offRow v 27 64 64 &&
  offRow v 28 128 128 && offRow v 29 256 256 && offRow v 54 3072 3072 && offRow v 55 4096 4096

def tablesOk (v : StyleVariant) : Bool :=
  (List.range 13).all (bitOk v) && colorRowsOk v && entriesOk v &&
    sgrLookup 38 == none && sgrLookup 48 == none && offRowsOk v

/-- `str(n)` for the numbers that occur as SGR parameters. -/
def digitsOk : Bool := (List.range 256).all fun n => paramOk (natStr n) n

theorem tables_ok : tablesOk StyleVariant.fixed = true := by decide +kernel

theorem digits_ok : digitsOk = true := by decide +kernel

theorem tablesOk_all (v : StyleVariant) (hv : v = StyleVariant.fixed := by rfl) : tablesOk v = true := by
  subst hv
  exact tables_ok

end Ansi
end RichModel
