import RichModel.Model.FramesTree
/-
`Tree.__rich_console__`: the explicit stack walk `treeConsole` (the model of the Python loop) equals
the structurally recursive reference walk `specTree`, for every tree (no bound on size or depth).

Route: the exact number of loop iterations a subtree takes (`stepsNode` / `stepsList`), a "run" lemma
by mutual structural induction (`run_node` / `run_list`) generalised over the rest of the stack, the
enclosing levels, the style stack, the accumulated output and the remaining fuel, then the root.
-/
namespace RichModel.Frames
open RichModel

variable {σ : Type}

/-! ### guide texts -/

/-- every guide text is 4 characters when the index is < 4 -/
theorem guideText_length (env : Env) (g : Guide) (h : g.idx < 4) : (guideText env g).length = 4 := by
  obtain ⟨idx, st⟩ := g
  have hi : idx = 0 ∨ idx = 1 ∨ idx = 2 ∨ idx = 3 := by simp at h; omega
  unfold guideText
  cases env.asciiOnly <;> cases env.legacyWindows <;>
    cases (st.bold == some true) <;> cases (st.ul2 == some true) <;>
    rcases hi with rfl | rfl | rfl | rfl <;> rfl

/-! ### the loop -/

theorem treeLoop_step (cw : Char → Nat) (env : Env) (w : Int) (fuel : Nat) {s s' : TState σ}
    (h : treeStep cw env w s = some s') :
    treeLoop cw env w (fuel + 1) s = treeLoop cw env w fuel s' := by
  simp [treeLoop, h]

theorem treeLoop_done (cw : Char → Nat) (env : Env) (w : Int) (fuel : Nat) {s : TState σ}
    (h : s.stack = []) : treeLoop cw env w fuel s = s := by
  cases fuel with
  | zero => rfl
  | succ n => simp [treeLoop, treeStep, h]

/-! ### exact iteration counts -/

mutual
/-- iterations of `while stack:` from visiting the node until its subtree is finished
(the visit, and for a pushed child list its nodes and the `StopIteration` iteration) -/
def stepsNode : TreeN σ → Nat
  | .node _ _ e cs => if e && !cs.isEmpty then 2 + stepsList cs else 1
/-- iterations spent on the nodes of a sibling list (without the final `StopIteration`) -/
def stepsList : List (TreeN σ) → Nat
  | [] => 0
  | t :: ts => stepsNode t + stepsList ts
end

mutual
theorem stepsNode_le : ∀ t : TreeN σ, stepsNode t ≤ 2 * t.size
  | .node _ _ e cs => by
    have := stepsList_le cs
    simp only [stepsNode, TreeN.size]
    split <;> omega
theorem stepsList_le : ∀ ts : List (TreeN σ), stepsList ts ≤ 2 * sizeList ts
  | [] => by simp [stepsList, sizeList]
  | t :: ts => by
    have := stepsNode_le t
    have := stepsList_le ts
    simp only [stepsList, sizeList]
    omega
end

/-! ### single iterations -/

/-- `StopIteration` with an enclosing level. -/
theorem step_pop (cw : Char → Nat) (env : Env) (w : Int) (rest : List (List (TreeN σ)))
    (top g : Guide) (gs : List Guide) (gst : List GStyle) (out : List (Segment σ)) :
    treeStep cw env w { stack := [] :: rest, levels := top :: g :: gs, gstack := gst, out := out }
      = some { stack := rest, levels := ⟨2, g.st⟩ :: gs, gstack := gst.tail, out := out } := by
  simp [treeStep]

/-- `StopIteration` of the outermost iterator. -/
theorem step_pop_last (cw : Char → Nat) (env : Env) (w : Int) (rest : List (List (TreeN σ)))
    (top : Guide) (gst : List GStyle) (out : List (Segment σ)) :
    treeStep cw env w { stack := [] :: rest, levels := [top], gstack := gst, out := out }
      = some { stack := rest, levels := [], gstack := gst, out := out } := by
  simp [treeStep]

/-- `levels[1:]` for a non-root node. -/
theorem pfx_eq (top g : Guide) (gs : List Guide) :
    (top :: g :: gs).reverse.tail = (g :: gs).reverse.tail ++ [top] := by
  have h : (g :: gs).reverse ≠ [] := by simp
  rw [List.reverse_cons (a := top), List.tail_append_of_ne_nil h]

/-- the index `levels[-1]` has once the subtree of a node is finished -/
def idxAfter (t : TreeN σ) (last : Bool) : Nat :=
  if t.expanded && !t.children.isEmpty then 2 else if last then 3 else 2

/-- the lines one node contributes, as both walks compute them -/
def hereOf (cw : Char → Nat) (env : Env) (w : Int) (pfx : List Guide) (cont : Guide) (l : Child σ) :
    List (Segment σ) :=
  emitNode env pfx cont
    (l.linesAt cw (w - (((pfx.map (fun g => cellLen cw (guideText env g))).sum : Nat) : Int)) true)

theorem specNode_some (cw : Char → Nat) (env : Env) (w : Int) (anc : List Guide) (st : GStyle) (last : Bool)
    (cur : GStyle) (l : Child σ) (ngs : GStyle) (e : Bool) (cs : List (TreeN σ)) :
    specNode cw env w anc (some st) last cur (.node l ngs e cs)
      = hereOf cw env w (anc ++ [⟨if last then 3 else 2, st⟩]) ⟨if last then 0 else 1, st⟩ l
        ++ (if e then specNodes cw env w (anc ++ [⟨if last then 0 else 1, st⟩]) (cur.add ngs) (cur.add ngs) cs
            else []) := by
  rw [specNode]
  cases e <;> simp [hereOf]

/-- visiting a non-root node (`k` is FORK unless the node is the last sibling). -/
theorem step_visit (cw : Char → Nat) (env : Env) (w : Int) (l : Child σ) (ngs : GStyle) (e : Bool)
    (cs more : List (TreeN σ)) (rest : List (List (TreeN σ))) (k : Nat) (st : GStyle) (g : Guide)
    (gs : List Guide) (cur : GStyle) (gsRest : List GStyle) (out : List (Segment σ))
    (hk : more ≠ [] → k = 2) :
    treeStep cw env w { stack := (.node l ngs e cs :: more) :: rest, levels := ⟨k, st⟩ :: g :: gs,
                        gstack := cur :: gsRest, out := out }
      = some (
        let here := hereOf cw env w ((g :: gs).reverse.tail ++ [⟨if more.isEmpty then 3 else 2, st⟩])
          ⟨if more.isEmpty then 0 else 1, st⟩ l
        if e && !cs.isEmpty then
          { stack := cs :: more :: rest,
            levels := ⟨if cs.length == 1 then 3 else 2, cur.add ngs⟩ :: ⟨if more.isEmpty then 0 else 1, st⟩ :: g :: gs,
            gstack := cur.add ngs :: cur :: gsRest, out := out ++ here }
        else
          { stack := more :: rest, levels := ⟨if more.isEmpty then 3 else 2, st⟩ :: g :: gs,
            gstack := cur :: gsRest, out := out ++ here }) := by
  rw [← pfx_eq]
  cases more with
  | nil =>
    by_cases hp : (e = true ∧ ¬cs = [])
      <;> simp [treeStep, hereOf, TreeN.label, TreeN.gs, TreeN.expanded, TreeN.children, hp]
  | cons m ms =>
    have := hk (by simp)
    subst this
    by_cases hp : (e = true ∧ ¬cs = [])
      <;> simp [treeStep, hereOf, TreeN.label, TreeN.gs, TreeN.expanded, TreeN.children, hp]

/-! ### the run lemma -/

mutual
/-- From the visit of a non-root node `t` (siblings `more` still to come) the loop reaches, after exactly
`stepsNode t` iterations, the state where the whole subtree of `t` has been emitted as `specNode` says. -/
theorem run_node (cw : Char → Nat) (env : Env) (w : Int) :
    ∀ (t : TreeN σ) (more : List (TreeN σ)) (rest : List (List (TreeN σ))) (k : Nat) (st : GStyle)
      (g : Guide) (gs : List Guide) (cur : GStyle) (gsRest : List GStyle) (out : List (Segment σ))
      (fuel : Nat), (more ≠ [] → k = 2) →
      treeLoop cw env w (fuel + stepsNode t)
          { stack := (t :: more) :: rest, levels := ⟨k, st⟩ :: g :: gs, gstack := cur :: gsRest, out := out }
        = treeLoop cw env w fuel
          { stack := more :: rest, levels := ⟨idxAfter t more.isEmpty, st⟩ :: g :: gs,
            gstack := cur :: gsRest,
            out := out ++ specNode cw env w (g :: gs).reverse.tail (some st) more.isEmpty cur t }
  | .node l ngs e cs, more, rest, k, st, g, gs, cur, gsRest, out, fuel, hk => by
    have hstep := step_visit cw env w l ngs e cs more rest k st g gs cur gsRest out hk
    rw [specNode_some]
    by_cases hp : (e && !cs.isEmpty) = true
    · have he : e = true := by simp at hp; exact hp.1
      simp only [hp, if_true] at hstep
      rw [stepsNode, if_pos hp, show fuel + (2 + stepsList cs) = (fuel + (stepsList cs + 1)) + 1 by omega,
        treeLoop_step cw env w _ hstep,
        run_list cw env w cs (more :: rest) _ (cur.add ngs) ⟨if more.isEmpty then 0 else 1, st⟩ (g :: gs) (cur.add ngs)
          (cur :: gsRest) _ fuel (by intro h; have : cs.length ≠ 1 := by omega
                                     simp [this])]
      have hcs : cs ≠ [] := by simp at hp; exact hp.2
      rw [pfx_eq]
      simp [idxAfter, TreeN.expanded, TreeN.children, he, hcs, List.append_assoc]
    · simp only [hp] at hstep
      rw [stepsNode, if_neg hp, treeLoop_step cw env w _ hstep]
      have hc : e = false ∨ cs = [] := by
        cases e <;> simp_all
      have : (if e then specNodes cw env w ((g :: gs).reverse.tail ++ [⟨if more.isEmpty then 0 else 1, st⟩])
            (cur.add ngs) (cur.add ngs) cs else []) = [] := by
        rcases hc with rfl | rfl
        · rfl
        · simp [specNodes]
      rw [this]
      simp [idxAfter, TreeN.expanded, TreeN.children, hp]
/-- From the state whose top iterator is the sibling list `ts` (guide style `st`, enclosing levels
`g :: gs`) the loop reaches, after `stepsList ts + 1` iterations, the state where the iterator has been
popped, `specNodes` has been emitted and the enclosing level is reset to FORK. -/
theorem run_list (cw : Char → Nat) (env : Env) (w : Int) :
    ∀ (ts : List (TreeN σ)) (rest : List (List (TreeN σ))) (k : Nat) (st : GStyle)
      (g : Guide) (gs : List Guide) (cur : GStyle) (gsRest : List GStyle) (out : List (Segment σ))
      (fuel : Nat), (2 ≤ ts.length → k = 2) →
      treeLoop cw env w (fuel + (stepsList ts + 1))
          { stack := ts :: rest, levels := ⟨k, st⟩ :: g :: gs, gstack := cur :: gsRest, out := out }
        = treeLoop cw env w fuel
          { stack := rest, levels := ⟨2, g.st⟩ :: gs, gstack := gsRest,
            out := out ++ specNodes cw env w (g :: gs).reverse.tail st cur ts }
  | [], rest, k, st, g, gs, cur, gsRest, out, fuel, _ => by
    rw [stepsList, Nat.zero_add, treeLoop_step cw env w _ (step_pop cw env w rest _ g gs _ out)]
    simp [specNodes]
  | t :: ts, rest, k, st, g, gs, cur, gsRest, out, fuel, hk => by
    have hk1 : ts ≠ [] → k = 2 := by
      intro h; apply hk
      cases ts with
      | nil => exact absurd rfl h
      | cons a b => simp
    rw [stepsList, show fuel + (stepsNode t + stepsList ts + 1) = (fuel + (stepsList ts + 1)) + stepsNode t by omega,
      run_node cw env w t ts rest k st g gs cur gsRest out _ hk1,
      run_list cw env w ts rest _ st g gs cur gsRest _ fuel (by
        intro h
        have : ts.isEmpty = false := by cases ts <;> simp at h ⊢
        simp [idxAfter, this])]
    simp [specNodes, List.append_assoc]
end

/-! ### the root -/

/-- visiting the root: `levels = [levels[0]]`, so `prefix = levels[1:]` is empty. -/
theorem step_root (cw : Char → Nat) (env : Env) (w : Int) (l : Child σ) (ngs : GStyle) (e : Bool)
    (cs : List (TreeN σ)) (k : Nat) (g0 : GStyle) :
    treeStep cw env w { stack := [[.node l ngs e cs]], levels := [⟨k, g0⟩], gstack := [g0], out := [] }
      = some (
        if e && !cs.isEmpty then
          { stack := [cs, []],
            levels := [⟨if cs.length == 1 then 3 else 2, g0.add ngs⟩, ⟨0, g0⟩],
            gstack := [g0.add ngs, g0], out := hereOf cw env w [] ⟨0, g0⟩ l }
        else
          { stack := [[]], levels := [⟨3, g0⟩], gstack := [g0], out := hereOf cw env w [] ⟨0, g0⟩ l }) := by
  by_cases hp : (e = true ∧ ¬cs = [])
    <;> simp [treeStep, hereOf, TreeN.label, TreeN.gs, TreeN.expanded, TreeN.children, hp]

theorem specNode_none (cw : Char → Nat) (env : Env) (w : Int) (anc : List Guide) (last : Bool)
    (cur : GStyle) (l : Child σ) (ngs : GStyle) (e : Bool) (cs : List (TreeN σ)) :
    specNode cw env w anc none last cur (.node l ngs e cs)
      = hereOf cw env w [] ⟨if last then 0 else 1, cur⟩ l
        ++ (if e then specNodes cw env w [] (cur.add ngs) (cur.add ngs) cs else []) := by
  rw [specNode]
  cases e <;> simp [hereOf]

/-- The whole run: after `stepsNode root + 1` iterations the stack is empty and the output is `specTree`. -/
theorem run_root (cw : Char → Nat) (env : Env) (w : Int) (root : TreeN σ) (fuel : Nat) :
    (treeLoop cw env w (fuel + (stepsNode root + 1))
        { stack := [[root]], levels := [⟨1, root.gs⟩], gstack := [root.gs], out := [] }).out
      = specTree cw env root w := by
  obtain ⟨l, ngs, e, cs⟩ := root
  have hstep := step_root cw env w l ngs e cs 1 ngs
  simp only [specTree, TreeN.gs, specNode_none]
  by_cases hp : (e && !cs.isEmpty) = true
  · have he : e = true := by simp at hp; exact hp.1
    simp only [hp, if_true] at hstep
    rw [stepsNode, if_pos hp, show fuel + (2 + stepsList cs + 1) = ((fuel + 1) + (stepsList cs + 1)) + 1 by omega,
      treeLoop_step cw env w _ hstep,
      run_list cw env w cs [[]] _ (ngs.add ngs) ⟨0, ngs⟩ [] (ngs.add ngs) [ngs] _ (fuel + 1)
        (by intro h; have : cs.length ≠ 1 := by omega
            simp [this]),
      treeLoop_step cw env w _ (step_pop_last cw env w [] _ _ _),
      treeLoop_done cw env w _ rfl]
    simp [he]
  · rw [if_neg hp] at hstep
    have hc : e = false ∨ cs = [] := by
      cases e <;> simp_all
    have : (if e then specNodes cw env w [] (ngs.add ngs) (ngs.add ngs) cs else []) = [] := by
      rcases hc with rfl | rfl
      · rfl
      · simp [specNodes]
    rw [this, stepsNode, if_neg hp, show fuel + (1 + 1) = (fuel + 1) + 1 by omega,
      treeLoop_step cw env w _ hstep,
      treeLoop_step cw env w _ (step_pop_last cw env w [] _ _ _),
      treeLoop_done cw env w _ rfl]
    simp

/-- `Tree.__rich_console__` (the explicit stack walk with fuel `2 * size + 2`) is the reference walk. -/
theorem treeConsole_eq_spec (cw : Char → Nat) (env : Env) (root : TreeN σ) (w : Int) :
    treeConsole cw env root w = specTree cw env root w := by
  have h := stepsNode_le root
  unfold treeConsole
  rw [show 2 * root.size + 2 = (2 * root.size + 1 - stepsNode root) + (stepsNode root + 1) by omega]
  exact run_root cw env w root _

end RichModel.Frames
