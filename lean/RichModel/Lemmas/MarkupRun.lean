import RichModel.Lemmas.MarkupAppend
namespace RichModel.Markup

theorem run_append (cfg : Cfg) (st : St) (a b : List PEv) :
    run cfg st (a ++ b) = match run cfg st a with
      | .ok st' => run cfg st' b
      | .error e => .error e := by
  induction a generalizing st with
  | nil => simp [run]
  | cons x xs ih =>
    simp only [List.cons_append, run]
    cases step cfg st x with
    | ok st' => simp [ih]
    | error e => simp

theorem runEv_append (cfg : Cfg) (st : St) (a b : List Ev) :
    runEv cfg st (a ++ b) = match runEv cfg st a with
      | some st' => runEv cfg st' b
      | none => none := by
  induction a generalizing st with
  | nil => simp [runEv]
  | cons x xs ih =>
    simp only [List.cons_append, runEv]
    cases stepEv cfg st x with
    | some st' => simp [ih]
    | none => simp

theorem stripControl_append (a b : List Char) : stripControl (a ++ b) = stripControl a ++ stripControl b := by
  simp [stripControl]

theorem runEv_chars (cfg : Cfg) (st : St) (s : List Char) (r : List Ev) :
    runEv cfg st (s.map Ev.chr ++ r) = runEv cfg { st with text := st.text ++ stripControl s } r := by
  induction s generalizing st with
  | nil => simp [stripControl]
  | cons c cs ih =>
    simp only [List.map_cons, List.cons_append, runEv, stepEv]
    rw [ih]
    have : stripControl (c :: cs) = stripControl [c] ++ stripControl cs :=
      stripControl_append [c] cs
    rw [this]; simp

theorem step_text (cfg : Cfg) (h : cfg.emoji = none) (st : St) (pos : Nat) (s : List Char) :
    step cfg st (.text pos s) = .ok { st with text := st.text ++ stripControl s } := by
  simp [step, chunkText, h]

theorem step_pos (cfg : Cfg) (st : St) (pos : Nat) (t : Tag) :
    (step cfg st (.tag pos t)).toOption = (step cfg st (.tag 0 t)).toOption := by
  simp only [step]
  by_cases h1 : t.name.head? = some '/'
  · simp only [h1, if_true]
    by_cases h2 : pyStrip cfg.isSpace t.name.tail ≠ []
    · rw [if_pos h2, if_pos h2]
      cases popByName (cfg.norm (pyStrip cfg.isSpace t.name.tail)) st.stack with
      | none => rfl
      | some p => rfl
    · rw [if_neg h2, if_neg h2]
      cases st.stack with
      | nil => rfl
      | cons e es => rfl
  · simp only [h1, if_false]

theorem run_one_text (cfg : Cfg) (h : cfg.emoji = none) (st : St) (pos : Nat) (s : List Char) (r : List PEv) :
    run cfg st (PEv.text pos s :: r) = run cfg { st with text := st.text ++ stripControl s } r := by
  simp [run, step_text cfg h]

theorem run_one_tag (cfg : Cfg) (st : St) (pos : Nat) (t : Tag) (r : List PEv) :
    (run cfg st (PEv.tag pos t :: r)).toOption =
      match stepEv cfg st (.tag t) with
      | some st' => (run cfg st' r).toOption
      | none => none := by
  simp only [run, stepEv]
  rw [← step_pos cfg st pos t]
  cases step cfg st (.tag pos t) with
  | ok st' => simp [Except.toOption]
  | error e => simp [Except.toOption]

theorem evs_bsl_chars (k : Nat) : (bsl k).map Ev.chr = List.replicate k (Ev.chr '\\') := by simp [bsl]

/-- what one match yields, run by the loop = its events run one character at a time -/
theorem run_tagYield (cfg : Cfg) (h : cfg.emoji = none) (st : St) (start k : Nat) (body : List Char)
    (r : List PEv) (r' : List Ev)
    (ih : ∀ st', (run cfg st' r).toOption = runEv cfg st' r') :
    (run cfg st (tagYield start k body ++ r)).toOption = runEv cfg st ((Lx.tag k body).evs ++ r') := by
  unfold tagYield Lx.evs
  by_cases hk : k = 0
  · subst hk
    simp only [if_true, Nat.zero_div, bsl, List.replicate_zero, List.map_nil, List.nil_append,
      Nat.zero_mod, Nat.zero_ne_one, if_false, List.cons_append, runEv]
    rw [run_one_tag]
    cases stepEv cfg st (.tag (mkTag body)) with
    | some st' => exact ih st'
    | none => rfl
  · simp only [hk, if_false]
    have hb : ∀ (st : St) (tail : List PEv) (tail' : List Ev),
        (∀ st', (run cfg st' tail).toOption = runEv cfg st' tail') →
        (run cfg st ((if k / 2 = 0 then [] else [PEv.text start (bsl (k / 2))]) ++ tail)).toOption =
          runEv cfg st ((bsl (k / 2)).map Ev.chr ++ tail') := by
      intro st tail tail' hh
      by_cases hz : k / 2 = 0
      · simp [hz, bsl, hh]
      · simp only [hz, if_false, List.cons_append, List.nil_append]
        rw [run_one_text cfg h, runEv_chars, hh]
    by_cases ho : k % 2 = 1
    · simp only [ho, if_true, List.append_assoc]
      apply hb
      intro st'
      simp only [List.cons_append, List.nil_append]
      rw [run_one_text cfg h, runEv_chars, ih]
    · simp only [ho, if_false, List.append_assoc]
      apply hb
      intro st'
      simp only [List.cons_append, List.nil_append, runEv]
      rw [run_one_tag]
      cases stepEv cfg st' (.tag (mkTag body)) with
      | some st'' => exact ih st''
      | none => rfl

/-- **the render loop only sees the events**: running it over `_parse`'s tuples (chunked text,
positions) is running it over the characters and tags one at a time. -/
theorem run_parseGo (cfg : Cfg) (h : cfg.emoji = none) (l : List Lx) : ∀ (off : Nat) (acc : List Char) (st : St),
    (run cfg st (parseGo off acc l)).toOption = runEv cfg st (acc.map Ev.chr ++ l.flatMap Lx.evs) := by
  induction l with
  | nil =>
    intro off acc st
    simp only [parseGo, List.flatMap_nil, List.append_nil]
    by_cases ha : acc = []
    · subst ha; simp [run, runEv, Except.toOption]
    · simp only [ha, if_false]
      rw [run_one_text cfg h]
      have := runEv_chars cfg st acc []
      simp at this; rw [this]; simp [run, runEv, Except.toOption]
  | cons x xs ih =>
    intro off acc st
    cases x with
    | ch c =>
      simp only [parseGo, List.flatMap_cons, Lx.evs]
      rw [ih]; simp
    | tag k body =>
      simp only [parseGo, List.flatMap_cons]
      have key : ∀ st, (run cfg st (tagYield off k body ++ parseGo (off + k + body.length + 2) [] xs)).toOption =
          runEv cfg st ((Lx.tag k body).evs ++ xs.flatMap Lx.evs) := by
        intro st
        apply run_tagYield cfg h
        intro st'
        have := ih (off + k + body.length + 2) [] st'
        simpa using this
      by_cases ha : acc = []
      · subst ha; simp only [if_true, List.nil_append, List.map_nil]; exact key st
      · simp only [ha, if_false, List.cons_append, List.nil_append]
        rw [run_one_text cfg h, runEv_chars]; exact key _

theorem run_parse (cfg : Cfg) (h : cfg.emoji = none) (m : List Char) (st : St) :
    (run cfg st (parse m)).toOption = runEv cfg st (events m) := by
  have := run_parseGo cfg h (lex m) 0 [] st
  simpa [parse, events] using this

end RichModel.Markup
