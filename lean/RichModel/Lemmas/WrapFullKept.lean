import RichModel.Lemmas.WrapFullFold
import RichModel.Lemmas.WrapKept
/-!
Justify "full" in **every overflow mode**: what becomes of a divided line `d` (stripped by `rstrip_end`, rebuilt from
its words unless it is the last line of the paragraph, finally cropped) shows, as non-whitespace characters, a prefix
of `d`'s non-whitespace characters — each with the effective style it has in `d` (modulo the null style that
`Text("").join` puts in front) — possibly surrounded by ellipsis characters (`InkPrefix`).
-/
namespace RichModel
namespace Wrap
open Text
variable {σ : Type}
variable {chars : Bool}

/-- made of ellipsis characters only -/
def AllEll (e : List (Char × List σ)) : Prop := ∀ p ∈ e, p.1 = '…'

theorem filter_take_prefix {α : Type} (q : α → Bool) : ∀ (v : List α) (k : Nat),
    ∃ n, (v.take k).filter q = (v.filter q).take n
  | [], _ => ⟨0, by simp⟩
  | _ :: _, 0 => ⟨0, by simp⟩
  | a :: v, k + 1 => by
    obtain ⟨n, hn⟩ := filter_take_prefix q v k
    simp only [List.take_succ_cons, List.filter_cons]
    split
    · exact ⟨n + 1, by simp [hn]⟩
    · exact ⟨n, hn⟩

theorem nsv_filler_allEll (v : List (Char × List σ)) (h : Filler v) : AllEll (nsv v) := by
  intro p hp
  obtain ⟨hm, hns⟩ := List.mem_filter.mp hp
  rcases h p hm with h1 | h1
  · rw [h1, space_isSpace] at hns; simp at hns
  · exact h1

/-- the non-whitespace characters of a `Kept` line: ellipses, a prefix of the original's, ellipses -/
theorem kept_ink {L M : Text σ} (h : Kept L M) :
    ∃ e1 n e2, nsv M.view = e1 ++ ((nsv L.view).take n ++ e2) ∧ AllEll e1 ∧ AllEll e2 := by
  obtain ⟨pre, k, post, hv, hpre, hpost⟩ := h.shape
  obtain ⟨n, hn⟩ := filter_take_prefix (fun p : Char × List σ => !pyIsSpace p.1) L.view k
  refine ⟨nsv pre, n, nsv post, ?_, nsv_filler_allEll _ hpre, nsv_filler_allEll _ hpost⟩
  rw [hv, nsv_append, nsv_append]
  show _ ++ (List.filter _ (L.view.take k) ++ _) = _
  rw [hn]; rfl

/-- `F` shows (as non-whitespace characters, null style erased) a prefix of `d`'s, between ellipses -/
def InkPrefix [BEq σ] (A : StyleAlg σ) (d F : Text σ) : Prop :=
  ∃ e1 n e2, dropNull A (nsv F.view) = e1 ++ (dropNull A ((nsv d.view).take n) ++ e2) ∧ AllEll e1 ∧ AllEll e2

theorem allEll_dropNull [BEq σ] (A : StyleAlg σ) (e : List (Char × List σ)) (h : AllEll e) : AllEll (dropNull A e) := by
  intro p hp
  simp only [dropNull, List.mem_map] at hp
  obtain ⟨q, hq, rfl⟩ := hp
  exact h q hq

theorem inkPrefix_of_kept [BEq σ] (A : StyleAlg σ) {d F : Text σ} (h : Kept d F) : InkPrefix A d F := by
  obtain ⟨e1, n, e2, hv, h1, h2⟩ := kept_ink h
  exact ⟨dropNull A e1, n, dropNull A e2, by rw [hv, dropNull_append, dropNull_append],
    allEll_dropNull A _ h1, allEll_dropNull A _ h2⟩

/-- a rebuilt line, cropped -/
theorem inkPrefix_rebuilt [BEq σ] [LawfulBEq σ] (cw : Char → Nat) (A : StyleAlg σ) (w : Nat) {d l R F : Text σ}
    (hdl : ∃ k, l.view = d.view.take k) (hR : Rebuilt cw A w l R) (hF : Kept R F) : InkPrefix A d F := by
  obtain ⟨e1, n, e2, hv, h1, h2⟩ := kept_ink hF
  obtain ⟨k, hk⟩ := hdl
  obtain ⟨m, hm⟩ := filter_take_prefix (fun p : Char × List σ => !pyIsSpace p.1) d.view k
  have hl : nsv l.view = (nsv d.view).take m := by rw [hk]; exact hm
  refine ⟨dropNull A e1, min n m, dropNull A e2, ?_, allEll_dropNull A _ h1, allEll_dropNull A _ h2⟩
  rw [hv, hR.2.2.1, hl, dropNull_append, dropNull_append, ← List.map_take, dropNull_cons_null, List.take_take]

/-- the lines handed to `wrapLine`'s justify "full" stage and what finally comes out, pointwise -/
theorem fullRel_inkPrefix [BEq σ] [LawfulBEq σ] (cw : Char → Nat) (hsp : cw ' ' = 1) (h2 : ∀ c, cw c ≤ 2)
    (A : StyleAlg σ) (w : Nat) (hw : 1 ≤ w) (o : Overflow) :
    ∀ (ds outs : List (Text σ)), (∀ d ∈ ds, Inv d) →
    FullRel cw A w (ds.map (fun l => Text.rstripEndW chars cw Variant.repaired l (w : Int))) outs →
    (outs.map (fun l => l.truncate cw (w : Int) (some o))).length = ds.length ∧
    ∀ p ∈ ds.zip (outs.map (fun l => l.truncate cw (w : Int) (some o))), InkPrefix A p.1 p.2
  | [], _, _, h => by cases h; exact ⟨rfl, by simp⟩
  | [d], _, hi, h => by
    cases h
    refine ⟨rfl, ?_⟩
    intro p hp
    simp only [List.map_cons, List.map_nil, List.zip_cons_cons, List.zip_nil_right, List.mem_singleton] at hp
    subst hp
    have h0 := rstripEnd_kept (chars := chars) cw d (hi d (by simp)) w
    exact inkPrefix_of_kept A (h0.trans (truncate_kept cw hsp h2 _ h0.inv w hw o false))
  | d :: d' :: rest, _, hi, h => by
    obtain ⟨out, outs', rfl, hr, hrest⟩ := h
    obtain ⟨ih1, ih2⟩ := fullRel_inkPrefix cw hsp h2 A w hw o (d' :: rest) outs'
      (fun x hx => hi x (List.mem_cons_of_mem _ hx)) hrest
    refine ⟨by simp only [List.map_cons, List.length_cons] at ih1 ⊢; omega, ?_⟩
    intro p hp
    simp only [List.map_cons, List.zip_cons_cons, List.mem_cons] at hp
    rcases hp with rfl | hp
    · obtain ⟨k, _, _, hv, _, _⟩ := rstripEnd_spec (chars := chars) cw d (hi d (by simp)) w
      exact inkPrefix_rebuilt cw A w ⟨k, hv⟩ hr (truncate_kept cw hsp h2 out hr.1 w hw o false)
    · exact ih2 p (by simpa using hp)

end Wrap
end RichModel
