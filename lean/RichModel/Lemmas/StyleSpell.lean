import RichModel.Lemmas.StyleParse
/-!
Table-level facts for the documented colour spellings, checked by `decide +kernel` against the
`ANSI_COLOR_NAMES` table translated from rich/color.py on this run.
-/
namespace RichModel
open AsciiStr
namespace Style
variable {T : StrTables} [hT : T.Lawful]

/-- The `Color` a table row `(name, number)` stands for. -/
def namedColor (p : List Char × Nat) : Color :=
  { name := p.1, type := numberType p.2, number := some p.2 }

/-- `Color.from_ansi(n)` / the colour `color(n)` denotes. -/
def numberedColor (n : Nat) : Color :=
  { name := cl! "color(" ++ Nat.toDigits 10 n ++ cl! ")", type := numberType n, number := some n }

def defaultColor : Color := { name := cl! "default", type := .default }

/-- An ASCII lower-case word that does not open like `rgb(`: everything `Color.parse` does with it is
independent of the interpreter's tables. -/
def asciiColorName (w : List Char) : Bool :=
  allAscii w && w.all (fun c => !AsciiStr.isSpace c) && AsciiStr.lower w == w &&
    (dropPrefix? (cl! "rgb(") w).isNone

omit hT in
theorem matchRe_not_rgb {s : List Char} (T' : StrTables) (h : dropPrefix? (cl! "rgb(") s = none) :
    matchRe T s = matchRe T' s := by
  unfold matchRe
  split
  · rfl
  · simp [h]

omit hT in
/-- Outside the `rgb(` form `Color.parse` never consults the tables. -/
theorem parseNormT_not_rgb {s : List Char} (T' : StrTables) (v : StyleVariant)
    (h : dropPrefix? (cl! "rgb(") s = none) : Color.parseNormT T v s = Color.parseNormT T' v s := by
  have hm := matchRe_not_rgb (T := T) T' h
  have hr : ∀ b, matchRe T' s ≠ some (.rgb b) := by
    intro b hb
    unfold matchRe at hb
    split at hb
    · split at hb <;> cases hb
    · simp [h] at hb
      split at hb
      · split at hb
        · split at hb <;> cases hb
        · cases hb
      · cases hb
  unfold Color.parseNormT
  rw [hm]
  cases hc : matchRe T' s with
  | none => rfl
  | some r =>
    cases r with
    | hex six => rfl
    | color8 ds => rfl
    | rgb b => exact absurd hc (hr b)

theorem named_colors_wf_tbl :
    Gen.ansiColorNames.all (fun p => asciiColorName p.1 && wfColorT StrTables.ascii StyleVariant.fixed (namedColor p)) = true := by
  decide +kernel

theorem default_color_wf_tbl :
    (asciiColorName defaultColor.name && wfColorT StrTables.ascii StyleVariant.fixed defaultColor) = true := by
  decide +kernel

omit hT in
/-- Well-formedness of a colour does not depend on the code variant. -/
theorem wfColor_indep {v v' : StyleVariant} {c : Color} (h : wfColorT T v c = true) : wfColorT T v' c = true := by
  rw [wfColor_iff] at h ⊢
  exact ⟨h.1, Color.parseT_ok_indep T h.2⟩

/-- …nor, for an ASCII lower-case name outside the `rgb(` form, on the interpreter's tables. -/
theorem wfColor_of_ascii {v v' : StyleVariant} {c : Color}
    (h : (asciiColorName c.name && wfColorT StrTables.ascii v' c) = true) : wfColorT T v c = true := by
  simp only [asciiColorName, Bool.and_eq_true, beq_iff_eq, Option.isNone_iff_eq_none] at h
  obtain ⟨⟨⟨⟨ha, hs⟩, hl⟩, hr⟩, hw⟩ := h
  have hp := (wfColor_iff.mp hw).2
  obtain ⟨hnsA, hlA⟩ := StrTables.ascii.ascii_word ha hs
  obtain ⟨hns, hlT⟩ := T.ascii_word ha hs
  unfold Color.parseT at hp
  rw [hlA hl, StrTables.ascii.strip_noSpace hnsA] at hp
  rw [wfColor_iff]
  refine ⟨hns, ?_⟩
  unfold Color.parseT
  rw [hlT hl, T.strip_noSpace hns, parseNormT_not_rgb StrTables.ascii v hr]
  exact Color.parseNormT_ok_indep _ hp

theorem named_color_wf (v : StyleVariant) {p : List Char × Nat} (hp : p ∈ Gen.ansiColorNames) :
    wfColorT T v (namedColor p) = true :=
  wfColor_of_ascii (List.all_eq_true.mp named_colors_wf_tbl p hp)

theorem default_color_wf (v : StyleVariant) : wfColorT T v defaultColor = true :=
  wfColor_of_ascii default_color_wf_tbl

/-- The sixteen system colours by their documented names. -/
theorem standard_names_tbl :
    ([cl! "black", cl! "red", cl! "green", cl! "yellow", cl! "blue", cl! "magenta", cl! "cyan", cl! "white",
      cl! "bright_black", cl! "bright_red", cl! "bright_green", cl! "bright_yellow", cl! "bright_blue",
      cl! "bright_magenta", cl! "bright_cyan", cl! "bright_white"].map ansiColorNumber) =
      (List.range 16).map some := by
  decide +kernel

/-- The style with only a foreground (`fg = true`) or only a background colour, as `__init__` builds it. -/
def onlyColor (c : Color) (fg : Bool) : Style :=
  let f := if fg then some c else none
  let b := if fg then none else some c
  { color := f, bgcolor := b, attributes := 0, setAttributes := 0, link := none,
    hash := ⟨f, b, some 0, some 0, none⟩, isNull := false, styleDef := none }

/-- A well-formed colour's name, alone or after `on`, parses to exactly that colour. -/
theorem parse_color_word {v : StyleVariant} {c : Color} (h : wfColorT T v c = true) :
    parseT T v c.name = .ok (onlyColor c true) ∧ parseT T v (cl! "on " ++ c.name) = .ok (onlyColor c false) := by
  obtain ⟨hne, _, _, _⟩ := wfColor_facts h
  constructor
  · have hwf : Wf T v (onlyColor c true) :=
      ⟨by simp [onlyColor], by show 0 < 8192; omega, by intro c' hc'; simp [onlyColor] at hc'; subst hc'; exact h,
       by intro c' hc'; simp [onlyColor] at hc', by rfl⟩
    have hj : joinSpace (strElems (onlyColor c true)) = c.name := by
      simp [strElems, onlyColor, strTruthy, joinSpace]
    have := parse_render_nonempty hwf (by rw [hj]; simpa using hne)
    rw [hj] at this
    rw [this]; rfl
  · have hwf : Wf T v (onlyColor c false) :=
      ⟨by simp [onlyColor], by show 0 < 8192; omega, by intro c' hc'; simp [onlyColor] at hc',
       by intro c' hc'; simp [onlyColor] at hc'; subst hc'; exact h, by rfl⟩
    have hj : joinSpace (strElems (onlyColor c false)) = cl! "on " ++ c.name := by
      simp [strElems, onlyColor, strTruthy, joinSpace]
    have := parse_render_nonempty hwf (by rw [hj]; simp)
    rw [hj] at this
    rw [this]; rfl

/-- More generally a word of any letter case whose `lower()` is a well-formed colour's name parses,
alone or after `on`, to exactly that colour (`Style.parse` lower-cases the word; after `on`
`Color.parse` does). -/
theorem parse_color_word_lower {v : StyleVariant} {c : Color} {w : List Char} (h : wfColorT T v c = true)
    (hne : w ≠ []) (hns : ∀ ch ∈ w, T.isSpace ch = false) (hl : T.lower w = c.name) :
    parseT T v w = .ok (onlyColor c true) ∧ parseT T v (cl! "on " ++ w) = .ok (onlyColor c false) := by
  obtain ⟨_, cns, clow, cp⟩ := wfColor_facts h
  obtain ⟨f1, f2, f3, f4, f5⟩ := color_word_facts cp
  have hpw : Color.parseT T v w = .ok c := by
    rw [← Color.parseT_lower T v w, hl]; exact cp
  have hkw : kwSet [none, none, none, none, none, none, none, none, none, none, none, none, none] = 0 := by decide
  constructor
  · have hnone : (T.strip w == cl! "none") = false := by
      rw [T.strip_noSpace hns]
      simp only [beq_eq_false_iff_ne, ne_eq]
      intro hw
      rw [hw, (T.word_facts (cl! "none") (by decide)).1] at hl
      exact f4 hl.symm
    have hemp : w.isEmpty = false := by simpa using hne
    unfold parseT
    simp only [hnone, hemp, Bool.or_self, Bool.false_eq_true, if_false]
    rw [T.split_word hne hns, parseLoopT.eq_def]
    simp only [hl, f1, f2, f3, f5, cp, beq_iff_eq, if_false]
    rw [parseLoopT.eq_def]
    simp [initT, makeColorT, cp, Except.map, hkw, onlyColor, strTruthy]
  · have hs : T.split (cl! "on " ++ w) = [cl! "on", w] := by
      show T.split (cl! "on" ++ ' ' :: w) = _
      rw [T.split_append_space, T.split_word hne hns, (T.word_facts (cl! "on") (by decide)).2.1]
      rfl
    have hnone : (T.strip (cl! "on " ++ w) == cl! "none") = false := by
      simp only [beq_eq_false_iff_ne, ne_eq]
      intro hw
      have := T.split_of_strip_eq hw (by decide) (T.word_facts (cl! "none") (by decide)).2.2
      rw [hs] at this
      cases this
    unfold parseT
    have hemp : (cl! "on " ++ w).isEmpty = false := rfl
    simp only [hnone, hemp, Bool.or_self, Bool.false_eq_true, if_false, hs]
    rw [parseLoop_on hpw, parseLoopT.eq_def]
    simp [initT, makeColorT, hpw, Except.map, hkw, onlyColor, strTruthy]

/-- The style with exactly attribute `i` specified, with value `on`, as `__init__` builds it. -/
def single (i : Nat) (on : Bool) : Style :=
  let a := if on then 1 <<< i else 0
  { color := none, bgcolor := none, attributes := a, setAttributes := 1 <<< i, link := none,
    hash := ⟨none, none, some a, some (1 <<< i), none⟩, isNull := false, styleDef := none }

theorem kw_single_tbl : (List.range 13).all (fun i => [true, false].all fun b =>
    kwSet ((List.replicate 13 none).set i (some b)) == 1 <<< i &&
    kwVal ((List.replicate 13 none).set i (some b)) == (if b then 1 <<< i else 0) &&
    (1 <<< i != 0)) = true := by
  decide

omit hT in
theorem initT_single (v : StyleVariant) {i : Nat} (hi : i < 13) (b : Bool) :
    initT T v none none ((List.replicate 13 none).set i (some b)) none = .ok (single i b) := by
  have := List.all_eq_true.mp (List.all_eq_true.mp kw_single_tbl i (List.mem_range.mpr hi)) b (by cases b <;> simp)
  simp only [Bool.and_eq_true, beq_iff_eq, bne_iff_ne, ne_eq] at this
  obtain ⟨⟨h1, h2⟩, h3⟩ := this
  unfold initT
  simp only [h1, h2, h3, ne_eq, not_false_eq_true, if_true]
  simp [single, strTruthy, storedLink_none]

/-- An attribute word parses to exactly that attribute switched on; `not <word>` to switched off. -/
theorem parse_attr_word {v : StyleVariant} {i : Nat} {n : List Char} (h : GoodAttr T i n) :
    parseT T v n = .ok (single i true) ∧ parseT T v (cl! "not " ++ n) = .ok (single i false) := by
  have hn : n ≠ cl! "none" := by
    intro hn
    have := h.idx
    rw [hn] at this
    have hnone : attrIndex (cl! "none") = none := by decide
    rw [hnone] at this
    cases this
  constructor
  · have hnone : (T.strip n == cl! "none") = false := by
      rw [T.strip_noSpace h.nospace]; simpa using hn
    have hemp : n.isEmpty = false := by simpa using h.ne
    unfold parseT
    simp only [hnone, hemp, Bool.or_self, Bool.false_eq_true, if_false]
    rw [T.split_word h.ne h.nospace, parseLoop_attr h, parseLoopT.eq_def]
    exact initT_single v h.lt true
  · have hs : T.split (cl! "not " ++ n) = [cl! "not", n] := by
      show T.split (cl! "not" ++ ' ' :: n) = _
      rw [T.split_append_space, T.split_word h.ne h.nospace, (T.word_facts (cl! "not") (by decide)).2.1]
      rfl
    have hnone : (T.strip (cl! "not " ++ n) == cl! "none") = false := by
      simp only [beq_eq_false_iff_ne, ne_eq]
      intro hw
      have := T.split_of_strip_eq hw (by decide) (T.word_facts (cl! "none") (by decide)).2.2
      rw [hs] at this
      cases this
    have hemp : (cl! "not " ++ n).isEmpty = false := rfl
    unfold parseT
    simp only [hnone, hemp, Bool.or_self, Bool.false_eq_true, if_false, hs]
    rw [parseLoop_not_attr h, parseLoopT.eq_def]
    exact initT_single v h.lt false

/-- `r` is the successful result `s` (exactly: fields, `_null`, stored hash, empty cache). -/
def isOk (r : Except StyleErr Style) (s : Style) : Bool :=
  match r with
  | .ok t => decide (t = s)
  | .error _ => false

theorem isOk_iff {r : Except StyleErr Style} {s : Style} : isOk r s = true ↔ r = .ok s := by
  cases r <;> simp [isOk]

end Style
end RichModel
