import RichModel.Lemmas.StyleParse
/-!
Table-level facts for the documented colour spellings, checked by `decide +kernel` against the
`ANSI_COLOR_NAMES` table translated from rich/color.py on this run.
-/
namespace RichModel
open AsciiStr
namespace Style

/-- The `Color` a table row `(name, number)` stands for. -/
def namedColor (p : List Char × Nat) : Color :=
  { name := p.1, type := numberType p.2, number := some p.2 }

/-- `Color.from_ansi(n)` / the colour `color(n)` denotes. -/
def numberedColor (n : Nat) : Color :=
  { name := cl! "color(" ++ Nat.toDigits 10 n ++ cl! ")", type := numberType n, number := some n }

def defaultColor : Color := { name := cl! "default", type := .default }

theorem named_colors_wf_tbl :
    Gen.ansiColorNames.all (fun p => wfColor StyleVariant.fixed (namedColor p)) = true := by
  decide +kernel

theorem default_color_wf_tbl : wfColor StyleVariant.fixed defaultColor = true := by
  decide +kernel

/-- Well-formedness of a colour does not depend on the code variant. -/
theorem wfColor_indep {v v' : StyleVariant} {c : Color} (h : wfColor v c = true) : wfColor v' c = true := by
  rw [wfColor_iff] at h ⊢
  exact ⟨h.1, Color.parse_ok_indep h.2⟩

theorem named_color_wf (v : StyleVariant) {p : List Char × Nat} (hp : p ∈ Gen.ansiColorNames) :
    wfColor v (namedColor p) = true :=
  wfColor_indep (List.all_eq_true.mp named_colors_wf_tbl p hp)

theorem default_color_wf (v : StyleVariant) : wfColor v defaultColor = true :=
  wfColor_indep default_color_wf_tbl

/-- The sixteen system colours by their documented names. -/
theorem standard_names_tbl :
    ([cl! "black", cl! "red", cl! "green", cl! "yellow", cl! "blue", cl! "magenta", cl! "cyan", cl! "white",
      cl! "bright_black", cl! "bright_red", cl! "bright_green", cl! "bright_yellow", cl! "bright_blue",
      cl! "bright_magenta", cl! "bright_cyan", cl! "bright_white"].map ansiColorNumber) =
      (List.range 16).map some := by
  decide +kernel

/-- The style with only a foreground (`fg = true`) or only a background colour, as `__init__` builds it. -/
def onlyColor (c : Color) (fg : Bool) : Style :=
  let f := if fg then some c else none
  let b := if fg then none else some c
  { color := f, bgcolor := b, attributes := 0, setAttributes := 0, link := none,
    hash := ⟨f, b, some 0, some 0, none⟩, isNull := false, styleDef := none }

/-- A well-formed colour's name, alone or after `on`, parses to exactly that colour. -/
theorem parse_color_word {v : StyleVariant} {c : Color} (h : wfColor v c = true) :
    parse v c.name = .ok (onlyColor c true) ∧ parse v (cl! "on " ++ c.name) = .ok (onlyColor c false) := by
  obtain ⟨hne, _, _, _⟩ := wfColor_facts h
  constructor
  · have hwf : Wf v (onlyColor c true) :=
      ⟨by simp [onlyColor], by show 0 < 8192; omega, by intro c' hc'; simp [onlyColor] at hc'; subst hc'; exact h,
       by intro c' hc'; simp [onlyColor] at hc', by rfl⟩
    have hj : joinSpace (strElems (onlyColor c true)) = c.name := by
      simp [strElems, onlyColor, strTruthy, joinSpace]
    have := parse_render_nonempty hwf (by rw [hj]; simpa using hne)
    rw [hj] at this
    rw [this]; rfl
  · have hwf : Wf v (onlyColor c false) :=
      ⟨by simp [onlyColor], by show 0 < 8192; omega, by intro c' hc'; simp [onlyColor] at hc',
       by intro c' hc'; simp [onlyColor] at hc'; subst hc'; exact h, by rfl⟩
    have hj : joinSpace (strElems (onlyColor c false)) = cl! "on " ++ c.name := by
      simp [strElems, onlyColor, strTruthy, joinSpace]
    have := parse_render_nonempty hwf (by rw [hj]; simp)
    rw [hj] at this
    rw [this]; rfl

/-- `r` is the successful result `s` (exactly: fields, `_null`, stored hash, empty cache). -/
def isOk (r : Except StyleErr Style) (s : Style) : Bool :=
  match r with
  | .ok t => decide (t = s)
  | .error _ => false

theorem isOk_iff {r : Except StyleErr Style} {s : Style} : isOk r s = true ↔ r = .ok s := by
  cases r <;> simp [isOk]

end Style
end RichModel
