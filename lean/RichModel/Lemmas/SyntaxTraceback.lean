import RichModel.Lemmas.SyntaxGuides
/-
Helper lemmas for property C17, part 6: the excerpt `Traceback._render_stack` asks for contains the failing line.
-/
namespace RichModel.Syntax

/-- switching indent guides off and applying them afterwards is what `selectedLines` does -/
theorem selectedLines_guides (sr rp : Bool) (o : Opts) (found : Bool) (lex : List Char → List Line) (code : List Char) :
    selectedLines sr rp o found lex code =
      match selectedLines sr rp { o with indentGuides := false } found lex code with
      | .error e => .error e
      | .ok ls => if o.indentGuides && !o.asciiOnly then indentGuides rp o.tabSize ls else .ok ls := by
  unfold selectedLines
  have hsc : shownCode { o with indentGuides := false } code = shownCode o code := rfl
  simp only [linesOfText, lineOffset, hsc]
  cases highlight sr found (lex (expandTabs o.tabSize (shownCode o code))) (expandTabs o.tabSize (shownCode o code)) o.lineRange with
  | error e => rfl
  | ok text => simp

theorem expectedLines_noNL (range : Option (Int × Int)) (s : List Char) :
    ∀ l ∈ expectedLines range (splitNL s), '\n' ∉ l := by
  intro l hl
  unfold expectedLines at hl
  split at hl
  · exact splitNL_no_nl s l hl
  · exact splitNL_no_nl s l (List.mem_of_mem_take (List.mem_of_mem_drop hl))

theorem Trail.noNL {n : Nat} {D P : List Line} (h : Trail n D P) (hP : ∀ l ∈ P, '\n' ∉ l) : ∀ l ∈ D, '\n' ∉ l := by
  obtain ⟨k, _, e⟩ := h
  intro l hl
  exact hP l (by rw [← e]; simp [hl])

/-- The excerpt selected for a frame at `lineno` (guides off): it starts at an offset not beyond the failing line and
holds the failing line at the corresponding position. -/
theorem traceback_selected (lineno extra : Nat) (wordWrap : Bool) (maxWidth : Nat) (nw lw asc pad found : Bool)
    (lex : List Char → List Line) (code : List Char) (l : Line)
    (hclean : Clean code)
    (hlex : found = true → (lex (expandTabs 4 code)).flatten = pygPre false (expandTabs 4 code))
    (hpos : 1 ≤ lineno) (hline : (splitNL (expandTabs 4 code))[lineno - 1]? = some l) (hl : l ≠ []) :
    ∃ sel, selectedLines false false (tracebackOpts lineno extra wordWrap false maxWidth nw lw asc pad) found lex code = .ok sel ∧
      (∀ x ∈ sel, '\n' ∉ x) ∧
      1 + ((lineno : Int) - extra - 1).toNat ≤ lineno ∧
      sel[lineno - (1 + ((lineno : Int) - extra - 1).toNat)]? = some l := by
  obtain ⟨sel, hs, ht⟩ := selected_trail (tracebackOpts lineno extra wordWrap false maxWidth nw lw asc pad) found lex code
    hclean hlex rfl (fun a b hab => by
      simp only [tracebackOpts, Option.some.injEq, Prod.mk.injEq] at hab
      omega)
  refine ⟨sel, hs, ht.noNL (expectedLines_noNL _ _), by omega, ?_⟩
  have hP : lineno - 1 < (splitNL (expandTabs 4 code)).length := by
    rcases Nat.lt_or_ge (lineno - 1) (splitNL (expandTabs 4 code)).length with h1 | h1
    · exact h1
    · rw [List.getElem?_eq_none h1] at hline; cases hline
  have hE : (expectedLines (tracebackOpts lineno extra wordWrap false maxWidth nw lw asc pad).lineRange
      (splitNL (expandTabs (tracebackOpts lineno extra wordWrap false maxWidth nw lw asc pad).tabSize code)))[lineno - (1 + ((lineno : Int) - extra - 1).toNat)]? = some l := by
    simp only [expectedLines, tracebackOpts, List.getElem?_drop]
    have e : ((lineno : Int) - extra - 1).toNat + (lineno - (1 + ((lineno : Int) - extra - 1).toNat)) = lineno - 1 := by omega
    rw [e, List.getElem?_take_of_lt (by omega), hline]
  obtain ⟨k, _, ek⟩ := ht
  have hsc : shownCode (tracebackOpts lineno extra wordWrap false maxWidth nw lw asc pad) code = code := rfl
  rw [hsc] at ek
  rw [← ek] at hE
  rcases Nat.lt_or_ge (lineno - (1 + ((lineno : Int) - extra - 1).toNat)) sel.length with h1 | h1
  · rwa [List.getElem?_append_left h1] at hE
  · rw [List.getElem?_append_right h1, List.getElem?_replicate] at hE
    split at hE
    · cases hE; exact absurd rfl hl
    · cases hE

end RichModel.Syntax
