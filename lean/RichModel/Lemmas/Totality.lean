import RichModel.Model.Totality
/-!
Lemmas for property C14: the exception layer of the string entry points is closed under the
documented error set — for every `PyStr` (character tables of the running Python).
-/
namespace RichModel
namespace Totality
open AsciiStr

/-- `Except` values are compared in the witnesses (`by decide`). -/
scoped instance instDecEqExceptC14 {ε α : Type} [DecidableEq ε] [DecidableEq α] : DecidableEq (Except ε α) := fun a b =>
  match a, b with
  | .ok x, .ok y => if h : x = y then isTrue (by rw [h]) else isFalse (fun h' => h (by cases h'; rfl))
  | .error x, .error y => if h : x = y then isTrue (by rw [h]) else isFalse (fun h' => h (by cases h'; rfl))
  | .ok _, .error _ => isFalse (fun h => by cases h)
  | .error _, .ok _ => isFalse (fun h => by cases h)

variable (P : PyStr)

/-! ## `Color.parse` (C06's `Color.parseT`) -/

theorem parseNormT_err (v : StyleVariant) (hv : v.rgbValueError = false) (c : List Char) (e : StyleErr)
    (h : Color.parseNormT P v c = .error e) : e = .colorParse := by
  unfold Color.parseNormT at h
  simp only [hv, Bool.false_eq_true, if_false] at h
  repeat' split at h
  all_goals first | (cases h; done) | (cases h; rfl)

/-- with the code as found the only other exception is the `ValueError` of `int()` -/
theorem parseNormT_err_old (v : StyleVariant) (c : List Char) (e : StyleErr) (h : Color.parseNormT P v c = .error e) :
    e = .colorParse ∨ e = .valueError := by
  unfold Color.parseNormT at h
  repeat' split at h
  all_goals first | (cases h; done) | (cases h; simp) | (cases h; cases v.rgbValueError <;> simp)

theorem parseT_color_err (v : StyleVariant) (hv : v.rgbValueError = false) (s : List Char) (e : StyleErr)
    (h : Color.parseT P v s = .error e) : e = .colorParse :=
  parseNormT_err P v hv _ e h

theorem color_parse_err (s : List Char) (e : Exc) (h : UColor.parse P false s = .error e) :
    e = .colorParseError := by
  unfold UColor.parse at h
  cases hp : Color.parseT P (variantOf false) s with
  | ok c => rw [hp] at h; cases h
  | error e' =>
    rw [hp] at h; cases h
    rw [parseT_color_err P _ rfl s e' hp]; rfl

theorem parseNorm_err_old (s : List Char) (e : Exc) (h : UColor.parse P true s = .error e) :
    e = .colorParseError ∨ e = .valueError := by
  unfold UColor.parse at h
  cases hp : Color.parseT P (variantOf true) s with
  | ok c => rw [hp] at h; cases h
  | error e' =>
    rw [hp] at h; cases h
    rcases parseNormT_err_old P _ _ e' hp with rfl | rfl
    · exact .inl rfl
    · exact .inr rfl

/-! ## `Style.parse`, `Style.normalize` (C06's `Style.parseT`, `Style.normalizeT`) -/

section
variable (v : StyleVariant) (hv : v.rgbValueError = false)
include hv

theorem parseLoopT_err (ws : List (List Char)) (st : Style.ParseState) (e : StyleErr)
    (h : Style.parseLoopT P v ws st = .error e) : e = .styleSyntax := by
  fun_induction Style.parseLoopT P v ws st
  all_goals first
    | (cases h; done)
    | (cases h; rfl)
    | (rename_i ih; exact ih h)
    | (rename_i hne hp; exact absurd (parseT_color_err P v hv _ _ hp) hne)

/-- `Style.parse` remembers only colour words that `Color.parse` accepted -/
def ColorsOk (st : Style.ParseState) : Prop :=
  (∀ w, st.color = some w → ∃ c, Color.parseT P v w = .ok c) ∧
  (∀ w, st.bgcolor = some w → ∃ c, Color.parseT P v w = .ok c)

omit hv in
theorem parseLoopT_colorsOk (ws : List (List Char)) (st st' : Style.ParseState)
    (h0 : ColorsOk P v st) (h : Style.parseLoopT P v ws st = .ok st') : ColorsOk P v st' := by
  fun_induction Style.parseLoopT P v ws st
  all_goals first
    | (cases h; done)
    | (cases h; exact h0)
    | (rename_i ih; refine ih ?_ h
       first
         | exact h0
         | (rename_i c hp; exact ⟨h0.1, fun w hw => by cases hw; exact ⟨c, hp⟩⟩)
         | (rename_i c hp; exact ⟨fun w hw => by cases hw; exact ⟨c, hp⟩, h0.2⟩))

omit hv in
theorem initT_ok (st : Style.ParseState) (h : ColorsOk P v st) :
    ∃ s, Style.initT P v (st.color.map .str) (st.bgcolor.map .str) st.attributes st.link = .ok s := by
  obtain ⟨hc, hb⟩ := h
  unfold Style.initT
  cases hcol : st.color with
  | none =>
    cases hbg : st.bgcolor with
    | none => exact ⟨_, rfl⟩
    | some w =>
      obtain ⟨c, hc'⟩ := hb w hbg
      simp only [Option.map, Style.makeColorT, hc', Except.map]
      exact ⟨_, rfl⟩
  | some w0 =>
    obtain ⟨c0, hc0⟩ := hc w0 hcol
    cases hbg : st.bgcolor with
    | none =>
      simp only [Option.map, Style.makeColorT, hc0, Except.map]
      exact ⟨_, rfl⟩
    | some w =>
      obtain ⟨c, hc'⟩ := hb w hbg
      simp only [Option.map, Style.makeColorT, hc0, hc', Except.map]
      exact ⟨_, rfl⟩

theorem parseT_style_err (s : List Char) (e : StyleErr) (h : Style.parseT P v s = .error e) : e = .styleSyntax := by
  unfold Style.parseT at h
  split at h
  · cases h
  · split at h
    · rename_i e' hl
      cases h
      exact parseLoopT_err P v hv _ _ _ hl
    · rename_i st hl
      have hok : ColorsOk P v st := parseLoopT_colorsOk P v _ _ _ ⟨fun w hw => (by cases hw), fun w hw => (by cases hw)⟩ hl
      obtain ⟨s', hs'⟩ := initT_ok P v st hok
      rw [hs'] at h
      cases h

theorem normalizeT_ok (s : List Char) : ∃ r, Style.normalizeT P v s = .ok r := by
  unfold Style.normalizeT
  cases hp : Style.parseT P v s with
  | ok st => exact ⟨_, rfl⟩
  | error e =>
    have := parseT_style_err P v hv s e hp
    subst this
    exact ⟨_, rfl⟩

end

theorem style_parse_err (s : List Char) (e : Exc) (h : UStyle.parse P false s = .error e) :
    e = .styleSyntaxError := by
  unfold UStyle.parse at h
  cases hp : Style.parseT P (variantOf false) s with
  | ok c => rw [hp] at h; cases h
  | error e' =>
    rw [hp] at h; cases h
    rw [parseT_style_err P _ rfl s e' hp]; rfl

theorem normalize_ok (s : List Char) : ∃ r, UStyle.normalize P false s = .ok r := by
  obtain ⟨r, hr⟩ := normalizeT_ok P (variantOf false) rfl s
  exact ⟨r, by unfold UStyle.normalize; rw [hr]; rfl⟩

/-! ## `markup.render` -/

section Markup
variable (cfg : Markup.Cfg) (norm : List Char → Except Exc (List Char))

theorem stepE_err (hn : ∀ x, ∃ r, norm x = .ok r) (st : Markup.St) (ev : Markup.PEv) (e : Exc)
    (h : stepE cfg norm st ev = .error e) : e = .markupError := by
  cases ev with
  | text p s => cases h
  | tag p t =>
    simp only [stepE] at h
    repeat' split at h
    all_goals first
      | (cases h; done)
      | (cases h; rfl)
      | (rename_i hx; obtain ⟨r, hr⟩ := hn _; rw [hr] at hx; cases hx)

theorem runE_err (hn : ∀ x, ∃ r, norm x = .ok r) (evs : List Markup.PEv) (st : Markup.St) (e : Exc)
    (h : runE cfg norm st evs = .error e) : e = .markupError := by
  induction evs generalizing st with
  | nil => cases h
  | cons ev evs ih =>
    simp only [runE] at h
    split at h
    · exact ih _ h
    · rename_i err hs
      cases h
      exact stepE_err cfg norm hn st ev _ hs

theorem renderE_err (hn : ∀ x, ∃ r, norm x = .ok r) (s : List Char) (e : Exc)
    (h : renderE cfg norm s = .error e) : e = .markupError := by
  unfold renderE at h
  split at h
  · cases h
  · split at h
    · cases h
    · rename_i err hr
      cases h
      exact runE_err cfg norm hn _ _ _ hr

/-- the C04 error type seen through the exception classes -/
def liftM : Except Markup.MErr α → Except Exc α
  | .ok a => .ok a
  | .error _ => .error .markupError

/-- When `normalize` does not raise, `stepE` is C04's `step`. -/
theorem stepE_eq_step (hn : ∀ x, norm x = .ok (cfg.norm x)) (st : Markup.St) (ev : Markup.PEv) :
    stepE cfg norm st ev = liftM (Markup.step cfg st ev) := by
  cases ev with
  | text p s => rfl
  | tag p t =>
    simp only [stepE, Markup.step, hn]
    repeat' split
    all_goals first | rfl | simp_all [liftM]

theorem runE_eq_run (hn : ∀ x, norm x = .ok (cfg.norm x)) (evs : List Markup.PEv) (st : Markup.St) :
    runE cfg norm st evs = liftM (Markup.run cfg st evs) := by
  induction evs generalizing st with
  | nil => rfl
  | cons ev evs ih =>
    simp only [runE, Markup.run, stepE_eq_step cfg norm hn]
    cases Markup.step cfg st ev with
    | ok st' => simp only [liftM]; exact ih st'
    | error e => rfl

/-- When `normalize` does not raise, `renderE` is C04's `render` (every theorem of C04 transfers). -/
theorem renderE_eq_render (hn : ∀ x, norm x = .ok (cfg.norm x)) (s : List Char) :
    renderE cfg norm s = liftM (Markup.render cfg s) := by
  unfold renderE Markup.render
  split
  · rfl
  · rw [runE_eq_run cfg norm hn]
    cases Markup.run cfg Markup.St.init (Markup.parse s) <;> rfl

end Markup

/-! ## `Console.get_style` -/

theorem themeParse_no_other (n : Theme.Name) : themeParse P false n ≠ .error .other := by
  unfold themeParse
  cases hp : UStyle.parse P false n with
  | ok s => simp
  | error e =>
    have := style_parse_err P n e hp
    subst this
    simp

theorem getStyle1_err (parse : Theme.Parse σ) (hp : ∀ n, parse n ≠ .error .other) (st : Theme.Stack σ)
    (name : Theme.NS σ) (e : Theme.GErr) (h : Theme.getStyle1 parse st name = .error e) : e = .missingStyle := by
  cases name with
  | style s => cases h
  | str n =>
    simp only [Theme.getStyle1, Theme.resolve] at h
    repeat' split at h
    all_goals first
      | (cases h; done)
      | (cases h; rfl)
      | (rename_i hx; exact absurd hx (hp _))
      | (rename_i hx; split at hx <;> first | cases hx | exact absurd hx (hp _))

theorem getStyle_err (parse : Theme.Parse σ) (hp : ∀ n, parse n ≠ .error .other) (st : Theme.Stack σ)
    (name : Theme.NS σ) (default : Option (Theme.NS σ)) (e : Theme.GErr)
    (h : Theme.getStyle parse st name default = .error e) : e = .missingStyle := by
  cases name with
  | style s => cases h
  | str n =>
    simp only [Theme.getStyle, Theme.resolve] at h
    repeat' split at h
    all_goals first
      | (cases h; done)
      | (cases h; rfl)
      | exact getStyle1_err parse hp st _ e h
      | (rename_i hx; exact absurd hx (hp _))
      | (rename_i hx; split at hx <;> first | cases hx | exact absurd hx (hp _))

end Totality
end RichModel
