import RichModel.Model.Totality
/-!
Lemmas for property C14: the exception layer of the string entry points is closed under the
documented error set — for every `PyStr` (character tables of the running Python).
-/
namespace RichModel
namespace Totality
open AsciiStr

/-- `Except` values are compared in the witnesses (`by decide`). -/
scoped instance instDecEqExceptC14 {ε α : Type} [DecidableEq ε] [DecidableEq α] : DecidableEq (Except ε α) := fun a b =>
  match a, b with
  | .ok x, .ok y => if h : x = y then isTrue (by rw [h]) else isFalse (fun h' => h (by cases h'; rfl))
  | .error x, .error y => if h : x = y then isTrue (by rw [h]) else isFalse (fun h' => h (by cases h'; rfl))
  | .ok _, .error _ => isFalse (fun h => by cases h)
  | .error _, .ok _ => isFalse (fun h => by cases h)

variable (P : PyStr)

/-! ## `Color.parse` -/

theorem parseNorm_err (c : List Char) (e : Exc) (h : UColor.parseNorm P false c = .error e) :
    e = .colorParseError := by
  unfold UColor.parseNorm at h
  simp only [Bool.false_eq_true, if_false] at h
  repeat' split at h
  all_goals first | (cases h; done) | (cases h; rfl)

theorem color_parse_err (s : List Char) (e : Exc) (h : UColor.parse P false s = .error e) :
    e = .colorParseError :=
  parseNorm_err P _ e h

/-- with rich 9.10.0 as found (`vErr = true`, before fix c34676b) the only other exception is the `ValueError` of `int()` -/
theorem parseNorm_err_old (c : List Char) (e : Exc) (h : UColor.parseNorm P true c = .error e) :
    e = .colorParseError ∨ e = .valueError := by
  unfold UColor.parseNorm at h
  simp only [if_true] at h
  repeat' split at h
  all_goals first | (cases h; done) | (cases h; simp)

/-! ## `Style.parse`, `Style.normalize` -/

theorem parseLoop_err (ws : List (List Char)) (st : Style.ParseState) (e : Exc)
    (h : UStyle.parseLoop P false ws st = .error e) : e = .styleSyntaxError := by
  fun_induction UStyle.parseLoop P false ws st
  all_goals first
    | (cases h; done)
    | (cases h; rfl)
    | (rename_i ih; exact ih h)
    | (rename_i hne hp; exact absurd (color_parse_err P _ _ hp) hne)

theorem makeColor_err (w : Option (List Char)) (e : Exc) (h : UStyle.makeColor P false w = .error e) :
    e = .colorParseError := by
  cases w with
  | none => cases h
  | some w =>
    simp only [UStyle.makeColor] at h
    cases hp : UColor.parse P false w with
    | ok c => rw [hp] at h; cases h
    | error e' => rw [hp] at h; cases h; exact color_parse_err P _ _ hp

/-- `Style.parse` remembers only colour words that `Color.parse` accepted -/
def ColorsOk (st : Style.ParseState) : Prop :=
  (∀ w, st.color = some w → ∃ c, UColor.parse P false w = .ok c) ∧
  (∀ w, st.bgcolor = some w → ∃ c, UColor.parse P false w = .ok c)

theorem parseLoop_colorsOk (ws : List (List Char)) (st st' : Style.ParseState)
    (h0 : ColorsOk P st) (h : UStyle.parseLoop P false ws st = .ok st') : ColorsOk P st' := by
  fun_induction UStyle.parseLoop P false ws st
  all_goals first
    | (cases h; done)
    | (cases h; exact h0)
    | (rename_i ih; refine ih ?_ h
       first
         | exact h0
         | (rename_i c hp; exact ⟨h0.1, fun w hw => by cases hw; exact ⟨c, hp⟩⟩)
         | (rename_i c hp; exact ⟨fun w hw => by cases hw; exact ⟨c, hp⟩, h0.2⟩))

theorem init_ok (st : Style.ParseState) (h : ColorsOk P st) : ∃ s, UStyle.init P false st = .ok s := by
  obtain ⟨hc, hb⟩ := h
  have h1 : ∃ c, UStyle.makeColor P false st.color = .ok c := by
    cases hcol : st.color with
    | none => exact ⟨none, rfl⟩
    | some w => obtain ⟨c, hc'⟩ := hc w hcol; exact ⟨some c, by simp [UStyle.makeColor, hc', Except.map]⟩
  have h2 : ∃ c, UStyle.makeColor P false st.bgcolor = .ok c := by
    cases hcol : st.bgcolor with
    | none => exact ⟨none, rfl⟩
    | some w => obtain ⟨c, hb'⟩ := hb w hcol; exact ⟨some c, by simp [UStyle.makeColor, hb', Except.map]⟩
  obtain ⟨c, h1⟩ := h1
  obtain ⟨b, h2⟩ := h2
  simp only [UStyle.init, h1, h2]
  exact ⟨_, rfl⟩

theorem style_parse_err (s : List Char) (e : Exc) (h : UStyle.parse P false s = .error e) :
    e = .styleSyntaxError := by
  unfold UStyle.parse at h
  split at h
  · cases h
  · split at h
    · rename_i e' hl
      cases h
      exact parseLoop_err P _ _ _ hl
    · rename_i st hl
      have hok : ColorsOk P st := parseLoop_colorsOk P _ _ _ ⟨fun w hw => (by cases hw), fun w hw => (by cases hw)⟩ hl
      obtain ⟨s', hs'⟩ := init_ok P st hok
      rw [hs'] at h
      cases h

theorem normalize_ok (s : List Char) : ∃ r, UStyle.normalize P false s = .ok r := by
  unfold UStyle.normalize
  cases hp : UStyle.parse P false s with
  | ok st => exact ⟨_, rfl⟩
  | error e =>
    have := style_parse_err P s e hp
    subst this
    exact ⟨_, rfl⟩

/-! ## `markup.render` -/

section Markup
variable (cfg : Markup.Cfg) (norm : List Char → Except Exc (List Char))

theorem stepE_err (hn : ∀ x, ∃ r, norm x = .ok r) (st : Markup.St) (ev : Markup.PEv) (e : Exc)
    (h : stepE cfg norm st ev = .error e) : e = .markupError := by
  cases ev with
  | text p s => cases h
  | tag p t =>
    simp only [stepE] at h
    repeat' split at h
    all_goals first
      | (cases h; done)
      | (cases h; rfl)
      | (rename_i hx; obtain ⟨r, hr⟩ := hn _; rw [hr] at hx; cases hx)

theorem runE_err (hn : ∀ x, ∃ r, norm x = .ok r) (evs : List Markup.PEv) (st : Markup.St) (e : Exc)
    (h : runE cfg norm st evs = .error e) : e = .markupError := by
  induction evs generalizing st with
  | nil => cases h
  | cons ev evs ih =>
    simp only [runE] at h
    split at h
    · exact ih _ h
    · rename_i err hs
      cases h
      exact stepE_err cfg norm hn st ev _ hs

theorem renderE_err (hn : ∀ x, ∃ r, norm x = .ok r) (s : List Char) (e : Exc)
    (h : renderE cfg norm s = .error e) : e = .markupError := by
  unfold renderE at h
  split at h
  · cases h
  · split at h
    · cases h
    · rename_i err hr
      cases h
      exact runE_err cfg norm hn _ _ _ hr

/-- the C04 error type seen through the exception classes -/
def liftM : Except Markup.MErr α → Except Exc α
  | .ok a => .ok a
  | .error _ => .error .markupError

/-- When `normalize` does not raise, `stepE` is C04's `step`. -/
theorem stepE_eq_step (hn : ∀ x, norm x = .ok (cfg.norm x)) (st : Markup.St) (ev : Markup.PEv) :
    stepE cfg norm st ev = liftM (Markup.step cfg st ev) := by
  cases ev with
  | text p s => rfl
  | tag p t =>
    simp only [stepE, Markup.step, hn]
    repeat' split
    all_goals first | rfl | simp_all [liftM]

theorem runE_eq_run (hn : ∀ x, norm x = .ok (cfg.norm x)) (evs : List Markup.PEv) (st : Markup.St) :
    runE cfg norm st evs = liftM (Markup.run cfg st evs) := by
  induction evs generalizing st with
  | nil => rfl
  | cons ev evs ih =>
    simp only [runE, Markup.run, stepE_eq_step cfg norm hn]
    cases Markup.step cfg st ev with
    | ok st' => simp only [liftM]; exact ih st'
    | error e => rfl

/-- When `normalize` does not raise, `renderE` is C04's `render` (every theorem of C04 transfers). -/
theorem renderE_eq_render (hn : ∀ x, norm x = .ok (cfg.norm x)) (s : List Char) :
    renderE cfg norm s = liftM (Markup.render cfg s) := by
  unfold renderE Markup.render
  split
  · rfl
  · rw [runE_eq_run cfg norm hn]
    cases Markup.run cfg Markup.St.init (Markup.parse s) <;> rfl

end Markup

/-! ## `Console.get_style` -/

theorem themeParse_no_other (n : Theme.Name) : themeParse P false n ≠ .error .other := by
  unfold themeParse
  cases hp : UStyle.parse P false n with
  | ok s => simp
  | error e =>
    have := style_parse_err P n e hp
    subst this
    simp

theorem getStyle1_err (parse : Theme.Parse σ) (hp : ∀ n, parse n ≠ .error .other) (st : Theme.Stack σ)
    (name : Theme.NS σ) (e : Theme.GErr) (h : Theme.getStyle1 parse st name = .error e) : e = .missingStyle := by
  cases name with
  | style s => cases h
  | str n =>
    simp only [Theme.getStyle1, Theme.resolve] at h
    repeat' split at h
    all_goals first
      | (cases h; done)
      | (cases h; rfl)
      | (rename_i hx; exact absurd hx (hp _))
      | (rename_i hx; split at hx <;> first | cases hx | exact absurd hx (hp _))

theorem getStyle_err (parse : Theme.Parse σ) (hp : ∀ n, parse n ≠ .error .other) (st : Theme.Stack σ)
    (name : Theme.NS σ) (default : Option (Theme.NS σ)) (e : Theme.GErr)
    (h : Theme.getStyle parse st name default = .error e) : e = .missingStyle := by
  cases name with
  | style s => cases h
  | str n =>
    simp only [Theme.getStyle, Theme.resolve] at h
    repeat' split at h
    all_goals first
      | (cases h; done)
      | (cases h; rfl)
      | exact getStyle1_err parse hp st _ e h
      | (rename_i hx; exact absurd hx (hp _))
      | (rename_i hx; split at hx <;> first | cases hx | exact absurd hx (hp _))

end Totality
end RichModel
