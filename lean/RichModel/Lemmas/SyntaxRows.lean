import RichModel.Lemmas.SyntaxSelect
import RichModel.Lemmas.Cells
/-
Helper lemmas for property C17, part 4: numbered rows, the gutter, fitting.
-/
namespace RichModel.Syntax

/-- decidable equality of results, so that concrete witnesses can be closed by `decide` -/
scoped instance instDecEqExcept {ε α : Type} [DecidableEq ε] [DecidableEq α] : DecidableEq (Except ε α)
  | .ok a, .ok b => if h : a = b then isTrue (by rw [h]) else isFalse (by intro e; cases e; exact h rfl)
  | .error a, .error b => if h : a = b then isTrue (by rw [h]) else isFalse (by intro e; cases e; exact h rfl)
  | .ok _, .error _ => isFalse (by intro e; cases e)
  | .error _, .ok _ => isFalse (by intro e; cases e)

/-! ### str(n) -/

theorem natStr_length_pos (n : Nat) : 1 ≤ (natStr n).length := by
  rw [natStr]; split <;> simp

theorem natStr_length_mono : ∀ (b a : Nat), a ≤ b → (natStr a).length ≤ (natStr b).length := by
  intro b
  induction b using Nat.strongRecOn with
  | _ b ih =>
    intro a hab
    by_cases hb : b < 10
    · have ha : a < 10 := by omega
      rw [natStr.eq_1 a, natStr.eq_1 b]; simp [ha, hb]
    · by_cases ha : a < 10
      · rw [natStr.eq_1 a]; simp only [ha, if_true]
        have := natStr_length_pos b
        simpa using this
      · rw [natStr.eq_1 a, natStr.eq_1 b]
        simp only [ha, hb, if_false, List.length_append, List.length_singleton]
        have := ih (b / 10) (by omega) (a / 10) (Nat.div_le_div_right hab)
        omega

/-! ### numberRows -/

@[simp] theorem numberRows_length (start : Nat) (hl : List Nat) : ∀ (bs : List Line), (numberRows start hl bs).length = bs.length
  | [] => rfl
  | _ :: bs => by simp [numberRows, numberRows_length (start + 1) hl bs]

theorem numberRows_getElem? (hl : List Nat) : ∀ (bs : List Line) (start i : Nat),
    (numberRows start hl bs)[i]? = bs[i]?.map (fun b => { num := start + i, marked := hl.contains (start + i), body := b })
  | [], _, i => by simp [numberRows]
  | b :: bs, start, 0 => by simp [numberRows]
  | b :: bs, start, i + 1 => by
    simp only [numberRows, List.getElem?_cons_succ]
    rw [numberRows_getElem? hl bs (start + 1) i]
    have : start + 1 + i = start + (i + 1) := by omega
    rw [this]

theorem numberRows_mem {hl : List Nat} {bs : List Line} {start : Nat} {r : Row} (h : r ∈ numberRows start hl bs) :
    ∃ i, i < bs.length ∧ r.num = start + i ∧ bs[i]? = some r.body ∧ r.marked = hl.contains (start + i) := by
  obtain ⟨i, hi, e⟩ := List.getElem_of_mem h
  have h2 : (numberRows start hl bs)[i]? = some r := by rw [List.getElem?_eq_getElem hi, e]
  rw [numberRows_getElem?] at h2
  rw [numberRows_length] at hi
  rw [List.getElem?_eq_getElem hi] at h2
  simp only [Option.map_some, Option.some.injEq] at h2
  refine ⟨i, hi, ?_, ?_, ?_⟩
  · rw [← h2]
  · rw [← h2, List.getElem?_eq_getElem hi]
  · rw [← h2]

/-- with a single highlighted number, exactly the row carrying that number is marked -/
theorem numberRows_filter_marked (x : Nat) : ∀ (bs : List Line) (start : Nat),
    (numberRows start [x] bs).filter (·.marked) =
      if start ≤ x then (match bs[x - start]? with
        | some b => [{ num := x, marked := true, body := b }]
        | none => []) else []
  | [], start => by simp [numberRows]
  | b :: bs, start => by
    simp only [numberRows, List.filter_cons]
    rw [numberRows_filter_marked x bs (start + 1)]
    by_cases h1 : start = x
    · subst h1
      have : ¬ start + 1 ≤ start := by omega
      simp [this]
    · have hc : ([x].contains start) = false := by
        simp only [List.contains_eq_mem, List.mem_singleton, decide_eq_false_iff_not]
        exact h1
      simp only [hc, Bool.false_eq_true, if_false]
      by_cases h2 : start + 1 ≤ x
      · have h3 : start ≤ x := by omega
        have h4 : x - start = (x - (start + 1)) + 1 := by omega
        simp [h2, h3, h4]
      · have h3 : ¬ start ≤ x := by omega
        simp [h2, h3]

/-! ### the gutter -/

theorem pointer_length (legacy : Bool) : (pointer legacy).length = 2 := by
  cases legacy <;> rfl

theorem Row.render_shape (ncw : Nat) (legacy : Bool) (r : Row) (h : (natStr r.num).length + 2 ≤ ncw) :
    (r.render ncw legacy).length = ncw + 1 + r.body.length ∧ (r.render ncw legacy).drop (ncw + 1) = r.body := by
  have hg : ((if r.marked then pointer legacy else [' ', ' ']) ++ rjust (natStr r.num) (ncw - 2)).length = ncw := by
    have h1 : (if r.marked then pointer legacy else [' ', ' ']).length = 2 := by
      split
      · exact pointer_length legacy
      · rfl
    simp only [List.length_append, h1, rjust, List.length_replicate]
    omega
  unfold Row.render
  constructor
  · rw [List.length_append, hg]; simp; omega
  · have : ncw + 1 = ((if r.marked then pointer legacy else [' ', ' ']) ++ rjust (natStr r.num) (ncw - 2)).length + 1 := by
      rw [hg]
    rw [this, List.drop_append]
    simp

/-! ### fitting -/

theorem fitLine_fits (cw : Char → Nat) (w : Nat) (pad noCrop : Bool) (l : Line) (h : cellLen cw l ≤ w) :
    fitLine cw w pad noCrop l = l ++ List.replicate (if pad && !noCrop then w - cellLen cw l else 0) ' ' := by
  unfold fitLine
  cases noCrop with
  | true => simp
  | false =>
    simp only [Bool.false_eq_true, if_false, Bool.not_false, Bool.and_true]
    by_cases h1 : cellLen cw l < w
    · simp only [h1, if_true]
      cases pad <;> simp
    · have h2 : cellLen cw l = w := by omega
      have h3 : ¬ cellLen cw l > w := by omega
      simp [h2]

theorem fitLine_crops (cw : Char → Nat) (w : Nat) (pad : Bool) (l : Line) (h : w < cellLen cw l) :
    fitLine cw w pad false l = setCellSize cw l w := by
  unfold fitLine
  have h1 : ¬ cellLen cw l < w := by omega
  have h2 : cellLen cw l > w := h
  simp [h1, h2]

/-- a fitted line never takes more cells than the code column (crop switch off) -/
theorem fitLine_cellLen_le (cw : Char → Nat) (hsp : cw ' ' = 1) (h2 : ∀ c, cw c ≤ 2) (w : Nat) (pad : Bool) (l : Line) :
    cellLen cw (fitLine cw w pad false l) ≤ w := by
  unfold fitLine
  simp only [Bool.false_eq_true, if_false]
  by_cases h1 : cellLen cw l < w
  · simp only [h1, if_true]
    cases pad with
    | false => simp; omega
    | true =>
      simp only [if_true]
      rw [cellLen_append, cellLen_replicate, hsp]; omega
  · simp only [h1, if_false]
    by_cases h3 : cellLen cw l > w
    · simp only [h3, if_true]
      rw [(setCellSize_exact cw hsp h2 l w).1]; exact Nat.le_refl _
    · simp only [h3, if_false]; omega

end RichModel.Syntax
