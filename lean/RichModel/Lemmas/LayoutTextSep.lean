import RichModel.Lemmas.LayoutText
/-!
`Text.__rich_measure__` and the OTHER line separators of `str.splitlines` (C09, fourth deepening round, follow-up).

The measurement takes its maximum over `text.splitlines()` — which also breaks at FS, GS, RS, NEL, LS, PS — while `Text.wrap` divides the
text at `"\n"` only (`self.split("\n", allow_blank=True)`).  A text with one of the other separators is therefore measured narrower than
its real (unwrapped) line and IS wrapped at its own maximum (witness in `Props/C09.lean`).  `textRichMeasureNl` is the measurement with
the one-token repair (`text.split("\n")` instead of `text.splitlines()`): for it `text_at_max_not_wrapped` holds for EVERY text, with no
hypothesis about separators; on texts whose only separator is `\n` the two measurements coincide.
-/
namespace RichModel.Layout
open RichModel RichModel.Frames

/-- `Text.__rich_measure__` with `max(cell_len(line) for line in text.split("\n"))` — the minimal repair -/
def textRichMeasureNl (cw : Char → Nat) (t : T) : Measurement :=
  if t.plain.all pyIsSpace then ⟨cellLen cw t.plain, cellLen cw t.plain⟩
  else ⟨maxCellLen cw (splitOnP pyIsSpace t.plain []), maxCellLen cw (pieces t.plain)⟩

/-- **the repaired measurement: a text given its maximum is never wrapped, whatever separators it contains** -/
theorem text_at_max_not_wrapped_nl (cw : Char → Nat) (t : T) (w : Nat) (fold : Bool)
    (hw : (textRichMeasureNl cw t).maximum ≤ (w : Int)) :
    ∀ p ∈ pieces t.plain, Wrap.divideLine cw p w fold = [] := by
  intro p hp
  apply divideLine_nil_of_fits
  by_cases hall : t.plain.all pyIsSpace = true
  · have hm : (textRichMeasureNl cw t).maximum = (cellLen cw t.plain : Nat) := by
      unfold textRichMeasureNl
      rw [hall]; rfl
    have := txt_splitOnP_le cw _ t.plain [] p hp
    rw [show cellLen cw [] = 0 from rfl] at this
    rw [hm] at hw
    omega
  · have hne : t.plain.all pyIsSpace = false := by simpa using hall
    have hm : (textRichMeasureNl cw t).maximum = (maxCellLen cw (pieces t.plain) : Nat) := by
      unfold textRichMeasureNl
      rw [hne]; rfl
    have := txt_maxCellLen_ge cw _ p hp
    rw [hm] at hw
    omega

/-- when `\n` is the only `str.splitlines` separator of the text the repair changes nothing -/
theorem textRichMeasureNl_eq (cw : Char → Nat) (t : T) (hnb : ∀ c ∈ t.plain, isLineBreak c = true → c = '\n') :
    textRichMeasureNl cw t = textRichMeasure cw t := by
  have heq : pieces t.plain = splitOnP isLineBreak t.plain [] := by
    unfold pieces
    apply txt_splitOnP_congr
    intro c hc
    by_cases hb : isLineBreak c = true
    · rw [hb, hnb c hc hb]; rfl
    · have hb' : isLineBreak c = false := by simpa using hb
      rw [hb']
      have : c ≠ '\n' := by
        intro h; rw [h] at hb; exact hb (by decide)
      simpa using this
  unfold textRichMeasureNl textRichMeasure
  rw [heq]

/-- the model's variant flag: `false` is the repaired measurement, `true` the as-found one -/
theorem textRichMeasureV_false (cw : Char → Nat) (t : T) : textRichMeasureV false cw t = textRichMeasureNl cw t := rfl
theorem textRichMeasureV_true (cw : Char → Nat) (t : T) : textRichMeasureV true cw t = textRichMeasure cw t := rfl

end RichModel.Layout
