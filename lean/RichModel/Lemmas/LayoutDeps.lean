import RichModel.Lemmas.Cells
import RichModel.Lemmas.Segment
import RichModel.Lemmas.Ratio
import RichModel.Lemmas.TableRender
import RichModel.Lemmas.TableWidths
import RichModel.Lemmas.CollapseKeep
import RichModel.Lemmas.TableGeneral
import RichModel.Lemmas.FramesRect
import RichModel.Lemmas.FramesBars
import RichModel.Lemmas.FramesTreeRect
import RichModel.Lemmas.FramesColumns
import RichModel.Gen.CellWidths
import RichModel.Gen.TableBoxes
import RichModel.Gen.Boxes
/-!
What the `Layout*.lean` lemma files need of the table and frame libraries, stated at the generated cell-width table and
proved from the LEMMA modules only (`Lemmas/Table*.lean`, `Lemmas/Frames*.lean`, `Lemmas/CollapseKeep.lean`) and the
generated tables (`Gen.cellWidths`, `Gen.boxes`, `Gen.tableBoxes`) — so that no `Layout*.lean` file imports a property
file.  The statements and proofs are those of the facts of the same names in `Props/C07.lean` / `Props/C08.lean`
(`cwD` is, by definition, the width function `cw` of those files).
-/
namespace RichModel.Layout
open RichModel RichModel.Frames

/-- `get_character_cell_size` at the table translated from `rich/_cell_widths.py` on this run. -/
def cwD : Char → Nat := charWidthT Gen.cellWidths

theorem cwD_le_two (c : Char) : cwD c ≤ 2 := by
  unfold cwD charWidthT
  simp only
  split
  · omega
  · rw [codepointWidth_eq_linear _ (by decide +kernel : adjSorted Gen.cellWidths.toList = true)]
    exact linearScan_le_two _ (by decide +kernel : widthsSmall Gen.cellWidths.toList = true) _

theorem cwD_space : cwD ' ' = 1 := by decide
theorem cwD_nl : cwD '\n' = 0 := by decide +kernel
theorem cwD_ellipsis : cwD '…' = 1 := by decide +kernel

namespace Dep

variable {σ : Type}

/-! ## Side conditions on the generated tables -/

/-- Executable form of "every box literal of rich/box.py is 8 lines of 4 characters, each one cell wide". -/
def boxesOk : Bool :=
  Gen.tableBoxes.all (fun e => match RichModel.Box.ofLines? e.2.2 with
    | some b => decide (b.wf cwD)
    | none => false)

theorem boxes_wellformed : boxesOk = true := by decide +kernel

/-- every box constant of rich/box.py parses into a box all of whose characters occupy exactly one cell -/
theorem boxes_all_wf : ∀ e ∈ Gen.tableBoxes, ∃ b, RichModel.Box.ofLines? e.2.2 = some b ∧ b.wf cwD := by
  intro e he
  have h := boxes_wellformed
  unfold boxesOk at h
  rw [List.all_eq_true] at h
  have := h e he
  split at this
  · rename_i b hb; exact ⟨b, hb, of_decide_eq_true this⟩
  · cases this

def boxOk (b : Frames.Box) : Bool :=
  [b.topLeft, b.top, b.topRight, b.midLeft, b.midRight, b.bottomLeft, b.bottom, b.bottomRight].all
    (fun c => c != '\n' && cwD c == 1)

/-- Every box of `rich/box.py` parses (8 lines of 4 characters) and its border characters are one cell
wide and are not line feeds. -/
theorem boxes_ok :
    (List.range Gen.boxes.length).all (fun i => match boxAt i with | some b => boxOk b | none => false) = true := by
  decide +kernel

/-- …hence whatever `Box.substitute` selects is such a box. -/
theorem boxAt_ok (i : Nat) (b : Frames.Box) (h : boxAt i = some b) : b.NoNl ∧ b.Narrow cwD := by
  have hi : i < Gen.boxes.length := by
    unfold boxAt at h
    cases hb : Gen.boxes[i]? with
    | none => simp [hb] at h
    | some x => exact (List.getElem?_eq_some_iff.mp hb).1
  have := List.all_eq_true.mp boxes_ok i (List.mem_range.mpr hi)
  simp only [h] at this
  simp only [boxOk, List.all_cons, List.all_nil, Bool.and_true, Bool.and_eq_true, bne_iff_ne, ne_eq, beq_iff_eq] at this
  obtain ⟨⟨a1, a2⟩, ⟨b1, b2⟩, ⟨c1, c2⟩, ⟨d1, d2⟩, ⟨e1, e2⟩, ⟨f1, f2⟩, ⟨g1, g2⟩, ⟨h1, h2⟩⟩ := this
  exact ⟨⟨a1, b1, c1, d1, e1, f1, g1, h1⟩, ⟨a2, b2, c2, d2, e2, f2, g2, h2⟩⟩

/-- The tree guide strings are four cells wide (ASCII and the three Unicode sets). -/
theorem guides_ok : GuidesOk cwD := by
  unfold GuidesOk
  decide +kernel

/-- The characters of bars and progress bars are one cell wide. -/
theorem bar_chars_narrow : ∀ c ∈ barChars ++ ['-', '━', '╸', '╺'], cwD c = 1 := by decide +kernel

/-! ## Table -/

/-- With at least one column the rectangle's width is `_extra_width` plus the column widths. -/
theorem bodyWidth_eq (t : Table) (widths : List Nat) (hlen : widths.length = t.columns.length) (hne : t.columns ≠ []) :
    (t.bodyWidth widths : Int) = t.extraWidth + (widths.sum : Int) := by
  have hn : 1 ≤ t.columns.length := by
    cases h : t.columns with
    | nil => exact absurd h hne
    | cons _ _ => simp
  unfold Table.bodyWidth lineWidth Table.edged Table.sepLen Table.extraWidth
  rw [hlen]
  cases t.box.isSome <;> cases t.showEdge <;> simp <;> omega

/-- every line of the rendered table body has the same cell width (`leading` repaired) -/
theorem table_rect (fl : Flags) (hfl : fl.leadingRepeat = false) (t : Table) (hwf : ∀ b, t.box = some b → b.wf cwD)
    (widths : List Nat) (hlen : widths.length = t.columns.length) :
    ∀ l ∈ t.renderBody fl cwD widths, cellLen cwD l.text = t.bodyWidth widths :=
  fun l hl => (renderBody_good cwD cwD_space cwD_le_two fl hfl t hwf widths hlen l hl).text_width

/-- `_collapse_widths` never starves a column -/
theorem collapse_widths_keep (widths : List Int) (wrapable : List Bool) (maxWidth : Int)
    (hlen : widths.length = wrapable.length) (hall : ∀ b ∈ wrapable, b = true) (h1 : ∀ w ∈ widths, 1 ≤ w)
    (hmw : (widths.length : Int) ≤ maxWidth) : ∀ w ∈ collapseWidths widths wrapable maxWidth, 1 ≤ w :=
  collapseWidths_keep widths wrapable maxWidth hlen hall h1 hmw

/-- `width_fits` with the "collapse keeps one cell per column" fact as a hypothesis (discharged below). -/
theorem width_fits_of_keep (fl : Flags) (t : Table) (maxWidth : Int) (hnr : t.NoRatio) (hfree : t.AllFree)
    (hne : t.columns ≠ []) (hnw : ∀ c ∈ t.columns, c.noWrap = false) (hmw : (t.columns.length : Int) ≤ maxWidth)
    (hkeep : ∀ ws0, t.firstWidths fl maxWidth = some ws0 → ∀ w ∈ collapseWidths ws0 t.wrapable maxWidth, 1 ≤ w) :
    ∃ ws, t.calcWidths fl maxWidth = some ws ∧ ws.sum ≤ maxWidth ∧ ws.length = t.columns.length ∧ ∀ w ∈ ws, 1 ≤ w := by
  obtain ⟨ws0, h0, hl, hp⟩ := firstWidths_free fl t hnr hfree maxWidth
  have hwrap : ∀ c ∈ t.columns, c.width = none ∧ c.noWrap = false := by
    intro c hc
    obtain ⟨i, hi, rfl⟩ := List.getElem_of_mem hc
    have : (t.columns[i], i) ∈ t.indexed := by
      unfold Table.indexed; exact List.mem_zipIdx_iff_getElem?.2 (by simp [hi])
    exact ⟨(hfree _ this).1, hnw _ (List.getElem_mem _)⟩
  have hne0 : ws0 ≠ [] := by
    intro h; rw [h] at hl; simp at hl
    exact hne (List.eq_nil_of_length_eq_zero hl.symm)
  have hge1 : ∀ (a b : List Int), (∀ p ∈ a.zip b, p.1 ≤ p.2) → a.length = b.length → (∀ w ∈ a, 1 ≤ w) → ∀ w ∈ b, 1 ≤ w := by
    intro a b hz hlen ha w hw
    obtain ⟨i, hi, rfl⟩ := List.getElem_of_mem hw
    have hia : i < a.length := by omega
    have := hz (a[i], b[i]) (by rw [List.mem_iff_getElem]; exact ⟨i, by simp; omega, by simp⟩)
    have := ha a[i] (List.getElem_mem _)
    simp only at *; omega
  rw [calcWidths_ne fl t maxWidth hne, h0]
  by_cases hover : ws0.sum > maxWidth
  · simp only [hover, if_true]
    obtain ⟨hsw, hsum, hrl, _⟩ := shrinkWidths_all_wrappable t maxWidth ws0 hl (fun w hw => by have := hp w hw; omega)
      (by omega) (by omega) hwrap
    simp only [hsw]
    obtain ⟨hml, hm1, hmle⟩ := remeasure_free t hfree _ hrl (hkeep ws0 h0)
    have hmne : t.remeasure (collapseWidths ws0 t.wrapable maxWidth) ≠ [] := by
      intro h; rw [h] at hml; simp at hml
      rw [← hml] at hrl
      exact hne (List.eq_nil_of_length_eq_zero hrl.symm)
    have hs := sum_le_of_zip_le _ _ hml hmle
    have htw : (t.remeasure (collapseWidths ws0 t.wrapable maxWidth)).sum ≤
        (if fl.staleTableWidth then maxWidth else (t.remeasure (collapseWidths ws0 t.wrapable maxWidth)).sum) := by
      split <;> omega
    generalize (if fl.staleTableWidth then maxWidth else (t.remeasure (collapseWidths ws0 t.wrapable maxWidth)).sum) = tw at htw ⊢
    obtain ⟨r, h1, h2, h3, h4⟩ := padWidths_spec fl t _ tw maxWidth hmne hm1
    refine ⟨r, h1, ?_, by omega, hge1 _ _ h4 h2.symm hm1⟩
    rw [h3]
    have := padTarget_le fl t maxWidth
    split <;> omega
  · simp only [hover, if_false]
    obtain ⟨r, h1, h2, h3, h4⟩ := padWidths_spec fl t ws0 ws0.sum maxWidth hne0 hp
    refine ⟨r, h1, ?_, by omega, hge1 _ _ h4 h2.symm hp⟩
    rw [h3]
    have := padTarget_le fl t maxWidth
    split <;> omega

/-- **width_fits** (no active ratio column): `_calculate_column_widths` succeeds, gives every column at least one cell, and
the table is never wider than the width on offer. -/
theorem width_fits (fl : Flags) (t : Table) (maxWidth : Int) (hnr : t.NoRatio) (hfree : t.AllFree)
    (hne : t.columns ≠ []) (hnw : ∀ c ∈ t.columns, c.noWrap = false) (hmw : (t.columns.length : Int) ≤ maxWidth) :
    ∃ ws, t.calcWidths fl maxWidth = some ws ∧ ws.sum ≤ maxWidth ∧ ws.length = t.columns.length ∧ ∀ w ∈ ws, 1 ≤ w := by
  apply width_fits_of_keep fl t maxWidth hnr hfree hne hnw hmw
  intro ws0 h0
  obtain ⟨ws0', h0', hl, hp⟩ := firstWidths_free fl t hnr hfree maxWidth
  rw [h0] at h0'
  simp only [Option.some.injEq] at h0'
  subst h0'
  have hwrap : ∀ c ∈ t.columns, c.width = none ∧ c.noWrap = false := by
    intro c hc
    obtain ⟨i, hi, rfl⟩ := List.getElem_of_mem hc
    have : (t.columns[i], i) ∈ t.indexed := by
      unfold Table.indexed; exact List.mem_zipIdx_iff_getElem?.2 (by simp [hi])
    exact ⟨(hfree _ this).1, hnw _ (List.getElem_mem _)⟩
  exact collapse_widths_keep ws0 t.wrapable maxWidth (by simp [Table.wrapable, hl]) (wrapable_all t hwrap) hp (by omega)

/-- A text-like cell oracle: natural width `|s|`, one line padded (or cut) to the width offered. -/
def wCell (s : List Char) : Cell :=
  { measure := fun w => ⟨min s.length w, min s.length w⟩, renderLines := fun w => [(s ++ List.replicate (w - s.length) ' ').take w] }

/-- an expanding grid with a ratio column next to a column that measures 0 -/
def wTableRatio : Table :=
  { columns := [{ header := wCell [], footer := wCell [], cells := [wCell ['a', 'b', 'c']], ratio := some 1 },
                { header := wCell [], footer := wCell [], cells := [wCell []] }],
    rowEndSection := [false], box := none, showHeader := false, expandFlag := true, padding := (0, 0, 0, 0) }

/-! ## Panel, Align -/

/-- The panel never exceeds the available width (title or not), for a child whose measurement is sound. -/
theorem panel_width_le (v : Variant) (o : PanelOpts) (inner : Child σ) (w : Int) (hw : 3 ≤ w)
    (hm : ∀ k : Int, (inner.measureAt k).maximum ≤ max k 0) :
    panelChildWidth cwD v o inner w + 2 ≤ w := by
  unfold panelChildWidth
  have hfit : ∀ k : Int, fitWidth v (inner.measureAt k).maximum ≤ max k 1 := by
    intro k
    have := hm k
    unfold fitWidth; split <;> omega
  cases panelTitle o.title with
  | some t => simp only; omega
  | none =>
    simp only
    cases ho : o.width with
    | none =>
      simp only
      split
      · omega
      · have := hfit (w - 2); omega
    | some pw =>
      simp only
      split
      · omega
      · have := hfit (min w pw - 2); omega

/-- **align_rect** -/
theorem align_rect (env : Env) (v : Variant) (o : AlignOpts) (c : Child σ) (w : Int) :
    let L := alignChildLines env v o c w
    let sw := shapeWidth cwD L
    splitLines (alignConsole cwD env v o c w) = alignLines cwD env v o c w ∧
    (alignLines cwD env v o c w).length = L.length ∧
    (∀ l ∈ alignLines cwD env v o c w, (lineLength cwD l : Int) = sw + alignPadCells o (w - sw)) ∧
    ((o.pad = true ∨ o.align = .right) → (sw : Int) ≤ w →
      ∀ l ∈ alignLines cwD env v o c w, (lineLength cwD l : Int) = w) ∧
    (∀ l ∈ L, stream (adjustLineLength cwD l sw none) = stream l ++ List.replicate (sw - lineLength cwD l) (' ', none, false)) := by
  dsimp only
  have hw : ∀ l ∈ alignLines cwD env v o c w, (lineLength cwD l : Int) =
      shapeWidth cwD (alignChildLines env v o c w) + alignPadCells o (w - shapeWidth cwD (alignChildLines env v o c w)) := by
    intro l hl
    simp only [alignLines, List.mem_map] at hl
    obtain ⟨l1, ⟨l0, _, rfl⟩, rfl⟩ := hl
    rw [lineLength_append, lineLength_append, adjust_exact cwD cwD_space cwD_le_two l0 _ none true (Or.inl rfl)]
    have := lineLength_alignPads (σ := σ) cwD cwD_space o (w - shapeWidth cwD (alignChildLines env v o c w))
    omega
  refine ⟨alignConsole_lines cwD cwD_space cwD_le_two env v o c w, by simp [alignLines], hw, ?_, ?_⟩
  · intro hpad hle l hl
    rw [hw l hl]
    unfold alignPadCells
    by_cases he : w - (shapeWidth cwD (alignChildLines env v o c w) : Int) ≤ 0
    · simp only [he, if_true]; omega
    · simp only [he, if_false]
      rcases hpad with hp | hr
      · cases o.align <;> simp only [hp, if_true] <;> omega
      · simp only [hr]; omega
  · intro l hl
    exact adjust_stream_of_le cwD l _ (le_shapeWidth cwD _ l hl)

/-! ## Bar, ProgressBar -/

/-- **bar_exact.**  `Bar` (as `__init__` leaves it: `begin ≥ 0`, `end ≤ size`) draws one segment of exactly `width` cells. -/
theorem bar_exact (o : BarOpts) (w : Int)
    (hsd : 0 < o.size.den) (hbd : 0 < o.beginV.den) (hed : 0 < o.endV.den)
    (hb0 : 0 ≤ o.beginV.num) (hes : o.endV.le o.size = true) (hw : 0 ≤ barWidth o.width w) :
    ∃ text : List Char, barConsole (σ := σ) o w = [seg text, nl] ∧ cellLen cwD text = (barWidth o.width w).toNat := by
  obtain ⟨text, h1, h2, h3⟩ := barConsole_exact (σ := σ) o w hsd hbd hed hb0 hes hw
  refine ⟨text, h1, ?_⟩
  rw [cellLen_eq_length cwD text (fun c hc => bar_chars_narrow c (List.mem_append.mpr (Or.inl (h3 c hc)))), h2]

/-- `Bar.__init__` establishes the hypotheses of `bar_exact`. -/
theorem bar_init_ok (o : BarOpts) (hbd : 0 < o.beginV.den) :
    0 ≤ (barInit o).beginV.num ∧ (barInit o).endV.le (barInit o).size = true ∧ 0 < (barInit o).beginV.den := by
  unfold barInit
  simp only
  refine ⟨?_, ?_, ?_⟩
  · split
    · simp
    · rename_i h
      simp only [Rat'.lt, Bool.not_eq_true, decide_eq_false_iff_not] at h
      have : (0 : Int) < o.beginV.den := by omega
      by_cases hn : 0 ≤ o.beginV.num
      · exact hn
      · exact absurd (by omega : o.beginV.num * ((1 : Nat) : Int) < 0 * (o.beginV.den : Int)) h
  · split
    · simp [Rat'.le]
    · rename_i h
      simp only [Rat'.lt, Bool.not_eq_true, decide_eq_false_iff_not] at h
      simp only [Rat'.le, decide_eq_true_eq]
      omega
  · split
    · show 0 < 1; omega
    · exact hbd

/-- A progress bar never exceeds its width, and fills it exactly when colour is available. -/
theorem progress_bar_le_and_exact (env : Env) (o : ProgressOpts) (w : Int) (hp : o.pulse = false)
    (hw : 0 ≤ barWidth o.width w) (htd : 0 < o.total.den) (hcd : 0 < o.completed.den) :
    lineLength cwD (progressConsole (σ := σ) env o w) ≤ (barWidth o.width w).toNat ∧
    (env.noColor = false → env.colorSystem ≠ 0 →
      lineLength cwD (progressConsole (σ := σ) env o w) = (barWidth o.width w).toNat) :=
  progress_bar_cells cwD cwD_space (bar_chars_narrow _ (by decide)) (bar_chars_narrow _ (by decide))
    (bar_chars_narrow _ (by decide)) (bar_chars_narrow _ (by decide)) env o w hp hw htd hcd

/-- The pulse animation is exactly `width` cells for every time stamp and console. -/
theorem progress_pulse_exact_width (env : Env) (o : ProgressOpts) (w : Int) (hp : o.pulse = true)
    (hw : 0 ≤ barWidth o.width w) :
    lineLength cwD (progressConsole (σ := σ) env o w) = (barWidth o.width w).toNat :=
  progress_pulse_exact cwD cwD_space (bar_chars_narrow _ (by decide)) (bar_chars_narrow _ (by decide)) env o w hp hw

/-- no line feed is ever emitted by a progress bar -/
theorem progress_bar_has_no_newline (env : Env) (o : ProgressOpts) (w : Int) :
    ∀ s ∈ progressConsole (σ := σ) env o w, '\n' ∉ s.text :=
  progressConsole_no_nl env o w

/-! ## Tree -/

/-- Every line of a rendered tree is exactly `w` cells wide. -/
theorem tree_rect (env : Env) (root : TreeN σ) (w : Int) :
    ∀ l ∈ splitLines (treeConsole cwD env root w), lineLength cwD l = w.toNat :=
  treeConsole_rect cwD cwD_space cwD_le_two guides_ok env root w

end Dep
end RichModel.Layout

namespace RichModel.Layout
open RichModel RichModel.Frames
namespace Dep

/-! ## Table: arbitrary columns (fixed `width`, `min_width`, `max_width`, `no_wrap`) -/

theorem floorSum_nonneg (t : Table) : 0 ≤ t.floorSum := by
  unfold Table.floorSum
  apply sum_nonneg_of_all
  intro x hx
  simp only [List.mem_map] at hx
  obtain ⟨ci, _, rfl⟩ := hx
  exact colFloor_nonneg t ci.2 ci.1

/-- **The structural minimum, and the exact bound, for ARBITRARY columns** (`width_bound_general` of `Props/C07.lean`).
Let `ws0` be the first-pass widths (every column at least one cell).  If `max_width` is at least
`Σ ws0 over the columns that may not shrink + 1 per column that may` (`nonWrapSum + wrapCount`): `_calculate_column_widths`
succeeds, gives every column at least one cell, and the table is at most `max_width + floorSum` wide. -/
theorem width_bound_general (fl : Flags) (t : Table) (maxWidth : Int) (hsane : t.Sane) (hne : t.columns ≠ [])
    (ws0 : List Int) (h0 : t.firstWidths fl maxWidth = some ws0) (hl : ws0.length = t.columns.length) (hp : ∀ w ∈ ws0, 1 ≤ w)
    (hbudget : nonWrapSum (ws0.zip t.wrapable) + wrapCount (ws0.zip t.wrapable) ≤ maxWidth) :
    ∃ ws, t.calcWidths fl maxWidth = some ws ∧ ws.sum ≤ maxWidth + t.floorSum ∧ ws.length = t.columns.length ∧ ∀ w ∈ ws, 1 ≤ w := by
  have hF := floorSum_nonneg t
  have hne0 : ws0 ≠ [] := by
    intro h; rw [h] at hl; simp at hl
    exact hne (List.eq_nil_of_length_eq_zero hl.symm)
  have hge1 : ∀ (a b : List Int), (∀ p ∈ a.zip b, p.1 ≤ p.2) → a.length = b.length → (∀ w ∈ a, 1 ≤ w) → ∀ w ∈ b, 1 ≤ w := by
    intro a b hz hlen ha w hw
    obtain ⟨i, hi, rfl⟩ := List.getElem_of_mem hw
    have hia : i < a.length := by omega
    have := hz (a[i], b[i]) (by rw [List.mem_iff_getElem]; exact ⟨i, by simp; omega, by simp⟩)
    have := ha a[i] (List.getElem_mem _)
    simp only at *; omega
  rw [calcWidths_ne fl t maxWidth hne, h0]
  by_cases hover : ws0.sum > maxWidth
  · simp only [hover, if_true]
    obtain ⟨hpre, hrs, hrl, hr1⟩ := shrinkPre_budget t maxWidth ws0 hl hp (by omega) hbudget
    unfold Table.shrinkWidths
    simp only [hpre]
    obtain ⟨hml, hm1, hms⟩ := remeasure_general t hsane _ hrl hr1
    have hmne : t.remeasure (collapseWidths ws0 t.wrapable maxWidth) ≠ [] := by
      intro h; rw [h] at hml; simp at hml
      exact hne (List.eq_nil_of_length_eq_zero hml.symm)
    by_cases hst : fl.staleTableWidth = true
    · simp only [hst, if_true]
      obtain ⟨r, h1, h2, h3, h4⟩ := padWidths_spec fl t _ (collapseWidths ws0 t.wrapable maxWidth).sum maxWidth hmne hm1
      refine ⟨r, h1, ?_, by omega, hge1 _ _ h4 h2.symm hm1⟩
      rw [h3]
      have := padTarget_le fl t maxWidth
      split <;> omega
    · simp only [hst, Bool.false_eq_true, if_false]
      obtain ⟨r, h1, h2, h3, h4⟩ := padWidths_spec fl t _ (t.remeasure (collapseWidths ws0 t.wrapable maxWidth)).sum maxWidth hmne hm1
      refine ⟨r, h1, ?_, by omega, hge1 _ _ h4 h2.symm hm1⟩
      rw [h3]
      have := padTarget_le fl t maxWidth
      split <;> omega
  · simp only [hover, if_false]
    obtain ⟨r, h1, h2, h3, h4⟩ := padWidths_spec fl t ws0 ws0.sum maxWidth hne0 hp
    refine ⟨r, h1, ?_, by omega, hge1 _ _ h4 h2.symm hp⟩
    rw [h3]
    have := padTarget_le fl t maxWidth
    split <;> omega

end Dep
end RichModel.Layout
