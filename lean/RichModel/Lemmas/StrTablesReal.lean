import RichModel.Lemmas.ColorParse
/-!
`StrTables.real` — the character tables translated from the running Python on this run
(`Gen/StrTables.lean`) — is lawful: agreement with the ASCII rules below 128, `lower()` idempotent,
`lower()` never creating white space.  Proved from table-level checks (`decide +kernel` over the
generated tables); the same facts are re-validated on the real `str` methods over all code points by
the harness on every run.
-/
namespace RichModel
namespace StrTables
open AsciiStr

theorem toNat_ofNat_cases (x : Nat) : (Char.ofNat x).toNat = x ∨ (Char.ofNat x).toNat = 0 := by
  unfold Char.ofNat
  split
  · left
    simp [Char.ofNatAux, Char.toNat, UInt32.toNat_ofNatLT]
  · right; rfl

/-! ### bit masks over code points (the kernel computes with them in no time) -/

/-- bits `lo … lo+n-1` -/
def runMask (lo n : Nat) : Nat := (2 ^ n - 1) <<< lo

theorem testBit_runMask (lo n m : Nat) : (runMask lo n).testBit m = (decide (lo ≤ m) && decide (m < lo + n)) := by
  unfold runMask
  rw [Nat.testBit_shiftLeft, Nat.testBit_two_pow_sub_one]
  by_cases h : lo ≤ m
  · simp [h]; omega
  · simp [h]

theorem testBit_foldl_or {α : Type} (f : α → Nat) (l : List α) (init m : Nat) :
    (l.foldl (fun acc x => acc ||| f x) init).testBit m = (init.testBit m || l.any fun x => (f x).testBit m) := by
  induction l generalizing init with
  | nil => simp
  | cons a r ih => simp [List.foldl_cons, ih, Nat.testBit_or, Bool.or_assoc]

/-- the code points that are a source of a lower-case mapping -/
def srcMask : Nat :=
  Gen.strLowerSpecial.foldl (fun acc p => acc ||| runMask p.1 1)
    (Gen.strLowerRuns.foldl (fun acc r => acc ||| runMask r.1 (r.2.1 - r.1 + 1)) 0)

/-- the code points `lower()` can produce from a mapped character -/
def outMask : Nat :=
  Gen.strLowerSpecial.foldl (fun acc p => acc ||| p.2.foldl (fun a x => a ||| runMask x 1) 0)
    (Gen.strLowerRuns.foldl (fun acc r => acc ||| runMask r.2.2 (r.2.1 - r.1 + 1)) 1)

def wsMask : Nat := Gen.strWhitespace.foldl (fun acc w => acc ||| runMask w 1) 0

/-- No output of `lower()` (nor U+0000) is a source of a mapping or a white-space character. -/
theorem masks_tbl : (srcMask &&& outMask == 0 && wsMask &&& outMask == 0) = true := by
  decide +kernel

/-- `m` is no source of a lower-case mapping, and no white space: what every output of `lower()` must be. -/
def plainOut (m : Nat) : Bool := !srcMask.testBit m && !wsMask.testBit m

theorem plainOut_of_out {m : Nat} (h : outMask.testBit m = true) : plainOut m = true := by
  have := masks_tbl
  simp only [Bool.and_eq_true, beq_iff_eq] at this
  have h1 := congrArg (fun n => n.testBit m) this.1
  have h2 := congrArg (fun n => n.testBit m) this.2
  simp only [Nat.testBit_and, h, Bool.and_true, Nat.zero_testBit] at h1 h2
  simp [plainOut, h1, h2]

theorem out_zero : outMask.testBit 0 = true := by
  unfold outMask
  rw [testBit_foldl_or, testBit_foldl_or]
  simp

theorem out_run {r : Nat × Nat × Nat} (hr : r ∈ Gen.strLowerRuns) {k : Nat} (hk : k ≤ r.2.1 - r.1) :
    outMask.testBit (r.2.2 + k) = true := by
  unfold outMask
  rw [testBit_foldl_or, testBit_foldl_or]
  have : (Gen.strLowerRuns.any fun x => (runMask x.2.2 (x.2.1 - x.1 + 1)).testBit (r.2.2 + k)) = true := by
    rw [List.any_eq_true]
    refine ⟨r, hr, ?_⟩
    rw [testBit_runMask]
    simp; omega
  simp [this]

theorem out_special {p : Nat × List Nat} (hp : p ∈ Gen.strLowerSpecial) {x : Nat} (hx : x ∈ p.2) :
    outMask.testBit x = true := by
  unfold outMask
  rw [testBit_foldl_or]
  have : (Gen.strLowerSpecial.any fun q => (q.2.foldl (fun a y => a ||| runMask y 1) 0).testBit x) = true := by
    rw [List.any_eq_true]
    refine ⟨p, hp, ?_⟩
    rw [testBit_foldl_or]
    have : (p.2.any fun y => (runMask y 1).testBit x) = true := by
      rw [List.any_eq_true]
      exact ⟨x, hx, by rw [testBit_runMask]; simp⟩
    simp [this]
  simp [this]

theorem ascii_tbl :
    (List.range 128).all (fun n =>
      Gen.strWhitespace.contains n == ((9 ≤ n && n ≤ 13) || (28 ≤ n && n ≤ 32)) &&
      inRuns Gen.strDecimalRuns n == (if 48 ≤ n && n ≤ 57 then some (n - 48) else none) &&
      (Gen.strLowerSpecial.find? fun p => p.1 == n).isNone &&
      inRuns Gen.strLowerRuns n == (if 65 ≤ n && n ≤ 90 then some (n + 32) else none)) = true := by
  decide +kernel

theorem inRuns_some {rs : List (Nat × Nat × Nat)} {n t : Nat} (h : inRuns rs n = some t) :
    ∃ r ∈ rs, r.1 ≤ n ∧ n ≤ r.2.1 ∧ t = r.2.2 + (n - r.1) := by
  unfold inRuns at h
  simp only [Option.map_eq_some_iff] at h
  obtain ⟨r, hr, rfl⟩ := h
  have hm := List.mem_of_find?_eq_some hr
  have hp := List.find?_some hr
  simp only [Bool.and_eq_true, decide_eq_true_eq] at hp
  exact ⟨r, hm, hp.1, hp.2, rfl⟩

/-- A character whose code point is `plainOut` is its own lower-case form and is no white space. -/
theorem plain_char {c : Char} (h : plainOut c.toNat = true) : real.lowerChar c = [c] ∧ real.isSpace c = false := by
  simp only [plainOut, Bool.and_eq_true, Bool.not_eq_true'] at h
  obtain ⟨h1, h3⟩ := h
  unfold srcMask at h1
  rw [testBit_foldl_or, testBit_foldl_or] at h1
  simp only [Nat.zero_testBit, Bool.false_or, Bool.or_eq_false_iff, List.any_eq_false] at h1
  obtain ⟨hruns, hspec⟩ := h1
  have hs : (Gen.strLowerSpecial.find? fun p => p.1 == c.toNat) = none := by
    rw [List.find?_eq_none]
    intro p hp hpe
    simp only [beq_iff_eq] at hpe
    have := hspec p hp
    rw [testBit_runMask, hpe] at this
    simp at this
  have hr : inRuns Gen.strLowerRuns c.toNat = none := by
    unfold inRuns
    rw [Option.map_eq_none_iff, List.find?_eq_none]
    intro r hr hre
    simp only [Bool.and_eq_true, decide_eq_true_eq] at hre
    have := hruns r hr
    rw [testBit_runMask] at this
    simp at this
    omega
  have hw : real.isSpace c = false := by
    unfold wsMask at h3
    rw [testBit_foldl_or] at h3
    simp only [Nat.zero_testBit, Bool.false_or, List.any_eq_false] at h3
    show Gen.strWhitespace.contains c.toNat = false
    rw [List.contains_eq_any_beq, List.any_eq_false]
    intro w hw hwe
    simp only [beq_iff_eq] at hwe
    have := h3 w hw
    rw [testBit_runMask, hwe] at this
    simp at this
  refine ⟨?_, hw⟩
  simp only [real, hs, hr]

theorem plain_ofNat {x : Nat} (hx : plainOut x = true) (h0 : plainOut 0 = true) :
    plainOut (Char.ofNat x).toNat = true := by
  rcases toNat_ofNat_cases x with h | h
  · rw [h]; exact hx
  · rw [h]; exact h0

/-- Every character `lower()` produces is plain. -/
theorem lowerChar_out (c : Char) :
    (∀ d ∈ real.lowerChar c, plainOut d.toNat = true) ∨ real.lowerChar c = [c] := by
  have t0 : plainOut 0 = true := plainOut_of_out out_zero
  cases hs : (Gen.strLowerSpecial.find? fun p => p.1 == c.toNat) with
  | some p =>
    left
    intro d hd
    simp only [real, hs, List.mem_map] at hd
    obtain ⟨x, hx, rfl⟩ := hd
    exact plain_ofNat (plainOut_of_out (out_special (List.mem_of_find?_eq_some hs) hx)) t0
  | none =>
    cases hr : inRuns Gen.strLowerRuns c.toNat with
    | some t =>
      left
      intro d hd
      simp only [real, hs, hr, List.mem_singleton] at hd
      subst hd
      obtain ⟨r, hrm, hlo, hhi, rfl⟩ := inRuns_some hr
      exact plain_ofNat (plainOut_of_out (out_run hrm (k := c.toNat - r.1) (by omega))) t0
    | none => right; simp only [real, hs, hr]

instance : Lawful real where
  space_ascii := fun c hc => by
    have := List.all_eq_true.mp ascii_tbl c.toNat (List.mem_range.mpr hc)
    simp only [Bool.and_eq_true, beq_iff_eq] at this
    simpa [real, AsciiStr.isSpace] using this.1.1.1
  decimal_ascii := fun c hc => by
    have := List.all_eq_true.mp ascii_tbl c.toNat (List.mem_range.mpr hc)
    simp only [Bool.and_eq_true, beq_iff_eq] at this
    simpa [real, AsciiStr.isDigit] using this.1.1.2
  lower_ascii := fun c hc => by
    have := List.all_eq_true.mp ascii_tbl c.toNat (List.mem_range.mpr hc)
    simp only [Bool.and_eq_true, beq_iff_eq, Option.isNone_iff_eq_none] at this
    obtain ⟨⟨_, hs⟩, hr⟩ := this
    by_cases hu : 65 ≤ c.toNat ∧ c.toNat ≤ 90
    · simp [real, hs, hr, hu, AsciiStr.lowerChar]
    · have : ¬ ((65 ≤ c.toNat) = true ∧ (c.toNat ≤ 90) = true) := by simpa using hu
      simp [real, hs, hr, hu, AsciiStr.lowerChar]
  lower_idem := fun c => by
    rcases lowerChar_out c with h | h
    · have : ∀ l : List Char, (∀ d ∈ l, plainOut d.toNat = true) → l.flatMap real.lowerChar = l := by
        intro l
        induction l with
        | nil => intro _; rfl
        | cons d r ih =>
          intro hl
          rw [List.flatMap_cons, (plain_char (hl d (by simp))).1, ih (fun x hx => hl x (by simp [hx]))]
          rfl
      exact this _ h
    · rw [h]; simp [h]
  lower_noSpace := fun c hc d hd => by
    rcases lowerChar_out c with h | h
    · exact (plain_char (h d hd)).2
    · rw [h] at hd; simp only [List.mem_singleton] at hd; subst hd; exact hc
  digits_floor := by decide

end StrTables
end RichModel
