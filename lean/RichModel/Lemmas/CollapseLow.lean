import RichModel.Lemmas.CollapseKeep
import RichModel.Lemmas.CollapseLe
/-!
`Table._collapse_widths` BELOW one cell per column: when every column may wrap, every width is at least 1 and `max_width` is
smaller than the number of columns (zero and negative budgets included), every collapsed width ends at 0 or 1 — no column keeps
two cells while another is starved.  (The re-measure then hands every column exactly one cell: `Lemmas/LayoutTableLow.lean`.)

The loop invariant is "all widths ≥ 1, or all widths in {0, 1}".  As long as two different widths exist the widest columns are
levelled down to the second widest (which is ≥ 1); when all columns are equal at `M`, what has to be taken is more than `M - 1`
per column, and the even split of `ratio_reduce` (banker's rounding) takes at least `M - 1` from every column: the invariant
"at least `M - 1` per remaining column is still to be taken" survives every step (`rrLoop_uniform_low`).
-/
namespace RichModel

/-- `ratio_reduce` over columns that are all `(ratio 1, maximum cap, value M)` when at least `M - 1` per column has to be taken:
every column ends at one cell or less. -/
theorem rrLoop_uniform_low (cap M : Int) (hM : 1 ≤ M) (hcap : M - 1 ≤ cap) : ∀ (items : List (Int × Int × Int)) (rem tr : Int),
    (∀ it ∈ items, it = (1, cap, M)) → tr = (items.length : Int) → tr * (M - 1) ≤ rem →
    ∀ x ∈ ratioReduceLoop items rem tr, x ≤ 1
  | [], _, _, _, _, _ => by simp [ratioReduceLoop]
  | it :: rest, rem, tr, hall, htr, hle => by
    have hit := hall it (by simp)
    subst hit
    have htr1 : 1 ≤ tr := by simp only [List.length_cons] at htr; omega
    unfold ratioReduceLoop
    have hcond : ((1 : Int) != 0 && decide (tr > 0)) = true := by simp; omega
    simp only [hcond, if_true, Int.one_mul]
    have hdq := rhe_ge_div rem tr
    have hq : M - 1 ≤ rem / tr := by
      apply Int.le_ediv_of_mul_le (by omega)
      rw [Int.mul_comm]; exact hle
    -- d ≤ rem - (tr - 1) * (M - 1)
    have hx : 0 ≤ rem - tr * (M - 1) := by omega
    have hxt : (rem - tr * (M - 1)) * 1 ≤ (rem - tr * (M - 1)) * tr := Int.mul_le_mul_of_nonneg_left htr1 hx
    have hC : (tr - 1) * (M - 1) = tr * (M - 1) - (M - 1) := by rw [Int.sub_mul, Int.one_mul]
    have hk : (rem - (tr - 1) * (M - 1)) * tr = (rem - tr * (M - 1)) * tr + (M - 1) * tr := by
      rw [hC, ← Int.add_mul]; congr 1; omega
    have hKt : (M - 1) * tr = tr * (M - 1) := Int.mul_comm _ _
    have hdle : roundHalfEven rem tr ≤ rem - (tr - 1) * (M - 1) :=
      rhe_le rem tr (rem - (tr - 1) * (M - 1)) (by omega) (by rw [hk, hKt]; omega)
    generalize roundHalfEven rem tr = d at *
    intro x hx'
    rcases List.mem_cons.mp hx' with hx' | hx'
    · omega
    · refine rrLoop_uniform_low cap M hM hcap rest (rem - min cap d) (tr - 1) (fun i hi => hall i (List.mem_cons_of_mem _ hi))
        (by simp only [List.length_cons] at htr; omega) ?_ x hx'
      rw [hC] at hdle ⊢
      omega

/-- One iteration of the collapse loop below one cell per column: from "all ≥ 1" to "all ≥ 1" (the widest columns were levelled to
the second widest) or to "all ≤ 1" (all columns were equal). -/
theorem collapseStep_level (widths : List Int) (wrapable : List Bool) (maxWidth : Int)
    (hlen : widths.length = wrapable.length) (hall : ∀ b ∈ wrapable, b = true) (h1 : ∀ w ∈ widths, 1 ≤ w)
    (hmw : maxWidth < (widths.length : Int)) (w' : List Int)
    (h : collapseStep widths wrapable maxWidth = some w') : (∀ w ∈ w', 1 ≤ w) ∨ (∀ w ∈ w', w ≤ 1) := by
  have hnn : ∀ w ∈ widths, 0 ≤ w := fun w hw => by have := h1 w hw; omega
  obtain ⟨items, tr, hw', hv, htr, hpos, hex, M, S, m, hMdef, hSdef, hmdef, hm1, hSM, hitems⟩ :=
    collapseStep_unfold widths wrapable maxWidth hlen hnn w' h
  obtain ⟨blen, _, _, bpt⟩ := ratioReduceLoop_bounds items (widths.sum - maxWidth) tr hpos htr hex
  rw [← hw'] at blen bpt
  generalize hz : widths.zip wrapable = zs at *
  have hzlen : zs.length = widths.length := by rw [← hz]; simp [hlen]
  have hzw : zs.map (·.1) = widths := by rw [← hz]; exact map_fst_zip _ _ hlen
  have hz1 : ∀ z ∈ zs, 1 ≤ z.1 := by
    intro z hzm; rw [← hz] at hzm; exact h1 _ (List.of_mem_zip hzm).1
  have hzt : ∀ z ∈ zs, z.2 = true := by
    intro z hzm; rw [← hz] at hzm; exact hall _ (List.of_mem_zip hzm).2
  have hsmge : ∀ z ∈ zs, z.1 ≠ M → z.1 ≤ S := by
    intro z hzm hne
    rw [hSdef]
    apply listMax_ge
    simp only [List.mem_map]
    refine ⟨z, hzm, ?_⟩
    simp [hzt z hzm, hne]
  by_cases hs1 : 1 ≤ S
  · left
    intro r hr
    obtain ⟨it, hit⟩ := exists_zip_of_mem items w' blen.symm r hr
    have hb := bpt (it, r) hit
    have hzr := ratioReduceLoop_zero_ratio items (widths.sum - maxWidth) tr (it, r) (by rw [← hw']; exact hit)
    simp only at hb hzr
    have hitm := (List.of_mem_zip hit).1
    rw [hitems] at hitm
    simp only [List.mem_map] at hitm
    obtain ⟨q, hq, rfl⟩ := hitm
    simp only at hb hzr
    by_cases hc : (q.1 == M && q.2) = true
    · simp only [Bool.and_eq_true, beq_iff_eq] at hc
      have := hc.1
      omega
    · have := hzr (by simp [hc])
      have := hz1 q hq
      omega
  · right
    have hallM : ∀ z ∈ zs, z.1 = M := by
      intro z hzm
      by_cases hzz : z.1 = M
      · exact hzz
      · have := hsmge z hzm hzz
        have := hz1 z hzm
        omega
    have hitu : ∀ it ∈ items, it = (1, m, M) := by
      intro it hit; rw [hitems] at hit; simp only [List.mem_map] at hit
      obtain ⟨q, hq, rfl⟩ := hit
      simp [hallM q hq, hzt q hq]
    have hilen : items.length = widths.length := by rw [hitems]; simp [hzlen]
    cases hzs : zs with
    | nil =>
      have : w'.length = 0 := by rw [blen, hilen, ← hzlen, hzs]; rfl
      intro w hw
      have := List.eq_nil_of_length_eq_zero this
      rw [this] at hw; simp at hw
    | cons a r =>
      have hM1 : 1 ≤ M := by
        have := hz1 a (by rw [hzs]; simp)
        have := hallM a (by rw [hzs]; simp)
        omega
      have hn1 : 1 ≤ (items.length : Int) := by rw [hilen, ← hzlen, hzs]; simp; omega
      have htrlen : tr = (items.length : Int) := by
        rw [htr]
        have : rrRatios items = items.map (fun _ => (1 : Int)) := by
          unfold rrRatios
          apply List.map_congr_left
          intro it hit
          rw [hitu it hit]
        rw [this, sum_map_one]
      have hwsum : widths.sum = (items.length : Int) * M := by
        rw [← hzw]
        have := sum_const (zs.map (·.1)) M (by
          intro x hx; simp only [List.mem_map] at hx; obtain ⟨q, hq, rfl⟩ := hx; exact hallM q hq)
        rw [this, hilen, ← hzlen]; simp
      have hmul : (items.length : Int) * (M - 1) = (items.length : Int) * M - (items.length : Int) := by
        rw [Int.mul_sub, Int.mul_one]
      have hnK : 1 * (M - 1) ≤ (items.length : Int) * (M - 1) := Int.mul_le_mul_of_nonneg_right hn1 (by omega)
      rw [hw']
      refine rrLoop_uniform_low m M hM1 ?_ items (widths.sum - maxWidth) tr hitu htrlen ?_
      · rw [hmdef, hwsum]
        have : (items.length : Int) = (widths.length : Int) := by rw [hilen]
        omega
      · rw [htrlen, hmul, hwsum]
        have : (items.length : Int) = (widths.length : Int) := by rw [hilen]
        omega

/-- the loop invariant: every column has at least one cell, or none has more than one -/
def Level (ws : List Int) : Prop := (∀ w ∈ ws, 1 ≤ w) ∨ (∀ w ∈ ws, 0 ≤ w ∧ w ≤ 1)

theorem collapseStep_Level (widths : List Int) (wrapable : List Bool) (maxWidth : Int)
    (hlen : widths.length = wrapable.length) (hall : ∀ b ∈ wrapable, b = true) (hL : Level widths)
    (hmw : maxWidth < (widths.length : Int)) (w' : List Int)
    (h : collapseStep widths wrapable maxWidth = some w') : Level w' := by
  have hnn : ∀ w ∈ widths, 0 ≤ w := by
    intro w hw
    rcases hL with h1 | h01
    · have := h1 w hw; omega
    · exact (h01 w hw).1
  obtain ⟨l1, l2, _, _⟩ := collapseStep_some widths wrapable maxWidth hlen hnn w' h
  rcases hL with h1 | h01
  · rcases collapseStep_level widths wrapable maxWidth hlen hall h1 hmw w' h with hA | hB
    · exact Or.inl hA
    · exact Or.inr (fun w hw => ⟨l2 w hw, hB w hw⟩)
  · right
    have hle := collapseStep_le widths wrapable maxWidth hlen hnn w' h
    intro w hw
    refine ⟨l2 w hw, ?_⟩
    obtain ⟨i, hi, rfl⟩ := List.getElem_of_mem hw
    have := hle.getElem i hi
    have := (h01 (widths[i]'(by rw [← hle.1]; exact hi)) (List.getElem_mem _)).2
    omega

theorem collapseLoop_Level (wrapable : List Bool) (maxWidth : Int) (hall : ∀ b ∈ wrapable, b = true) :
    ∀ (fuel : Nat) (widths : List Int), widths.length = wrapable.length → Level widths →
      maxWidth < (widths.length : Int) → Level (collapseLoop fuel widths wrapable maxWidth)
  | 0, _, _, hL, _ => by unfold collapseLoop; exact hL
  | fuel+1, widths, hlen, hL, hmw => by
    unfold collapseLoop
    cases hs : collapseStep widths wrapable maxWidth with
    | none => exact hL
    | some w' =>
      simp only
      have hnn : ∀ w ∈ widths, 0 ≤ w := by
        intro w hw
        rcases hL with h1 | h01
        · have := h1 w hw; omega
        · exact (h01 w hw).1
      obtain ⟨l1, _, _, _⟩ := collapseStep_some widths wrapable maxWidth hlen hnn w' hs
      exact collapseLoop_Level wrapable maxWidth hall fuel w' (by omega)
        (collapseStep_Level widths wrapable maxWidth hlen hall hL hmw w' hs) (by omega)

theorem sum_ge_length : ∀ (l : List Int), (∀ x ∈ l, 1 ≤ x) → (l.length : Int) ≤ l.sum
  | [], _ => by simp
  | a :: r, h => by
    have := h a (by simp)
    have := sum_ge_length r (fun x hx => h x (List.mem_cons_of_mem _ hx))
    simp only [List.sum_cons, List.length_cons, Int.natCast_add]
    omega

/-- **`_collapse_widths` below one cell per column levels everything to 0 or 1**: every column free to wrap, every width at least
1 and a budget SMALLER than the number of columns (any integer) — every collapsed width is 0 or 1. -/
theorem collapseWidths_low (widths : List Int) (wrapable : List Bool) (maxWidth : Int)
    (hlen : widths.length = wrapable.length) (hall : ∀ b ∈ wrapable, b = true) (h1 : ∀ w ∈ widths, 1 ≤ w)
    (hmw : maxWidth < (widths.length : Int)) : ∀ w ∈ collapseWidths widths wrapable maxWidth, 0 ≤ w ∧ w ≤ 1 := by
  have hnn : ∀ w ∈ widths, 0 ≤ w := fun w hw => by have := h1 w hw; omega
  obtain ⟨pl, pnn, _, ppost, _⟩ := collapseWidths_post widths wrapable maxWidth hlen hnn
  have hL : Level (collapseWidths widths wrapable maxWidth) := by
    unfold collapseWidths
    split
    · exact collapseLoop_Level wrapable maxWidth hall _ widths hlen (Or.inl h1) hmw
    · exact Or.inl h1
  rcases hL with hge | h01
  · -- all ≥ 1 is impossible at the end of the loop: the sum would exceed the budget, and no width is 0
    intro w hw
    exfalso
    cases hwr : wrapable with
    | nil =>
      rw [hwr] at hlen
      have : widths = [] := List.eq_nil_of_length_eq_zero hlen
      have hc : collapseWidths widths wrapable maxWidth = [] := List.eq_nil_of_length_eq_zero (by rw [pl, this]; rfl)
      rw [hc] at hw; simp at hw
    | cons b r =>
      have hany : wrapable.any id = true := by rw [hwr]; simp [hall b (by rw [hwr]; simp)]
      rcases ppost hany with hs | hzero
      · have := sum_ge_length _ hge
        omega
      · have hl : (collapseWidths widths wrapable maxWidth).length = wrapable.length := by omega
        obtain ⟨b', hb'⟩ := exists_zip_of_mem_left _ wrapable hl w hw
        have := hzero (w, b') hb' (hall b' (List.of_mem_zip hb').2)
        have := hge w hw
        simp only at *
        omega
  · exact h01

/-- non-vacuity: three columns measured 2 cells each with two cells to share end at `[1, 0, 1]` -/
example : collapseWidths [2, 2, 2] [true, true, true] 2 = [1, 0, 1] := by decide

end RichModel
