import RichModel.Model.ConsolePrint
import RichModel.Lemmas.Console
import RichModel.Lemmas.ConsoleNest
import RichModel.Props.C02
import RichModel.Props.C05
import RichModel.Lemmas.LayoutSplit
/-!
Lemmas for the derived `print` path (`Model/ConsolePrint.lean`): the characters of the appended segments.
Composes, read-only, C05 (`Text.new` / `join` / `render`: `inv_init`, `inv_join`, `render_view`), C02 (`wrap`:
`wrap_lines_fit`, `wrapLine_fold_keeps_every_justify`, `split_newline_ink`, `expandTabs_ink'`), C13
(`splitAndCrop_eq_tagged`, `adjust_nopad_stream`) and the line/piece bridge of C01 (`Layout.fits_iff_lines`).
-/
namespace RichModel.ConsolePrint
open RichModel

variable {σ : Type}

/-- All the text of a segment list, in order. -/
def allText (segs : List (Segment σ)) : List Char := segs.flatMap (·.text)

@[simp] theorem allText_nil : allText ([] : List (Segment σ)) = [] := rfl
@[simp] theorem allText_append (a b : List (Segment σ)) : allText (a ++ b) = allText a ++ allText b := by
  simp [allText]
@[simp] theorem allText_cons (s : Segment σ) (l : List (Segment σ)) : allText (s :: l) = s.text ++ allText l := by
  simp [allText]

/-! ## `split_and_crop_lines(pad=False)` keeps every character when every line fits -/

theorem nlPieces_total : ∀ (text cur : List Char),
    (nlPieces text cur).flatMap (fun p => p.1 ++ if p.2 then ['\n'] else []) = cur.reverse ++ text
  | [], cur => by
    unfold nlPieces
    by_cases h : cur.isEmpty = true
    · simp [h, List.isEmpty_iff.mp h]
    · simp [h]
  | c :: rest, cur => by
    unfold nlPieces
    by_cases hc : (c == '\n') = true
    · have : c = '\n' := by simpa using hc
      subst this
      simp [nlPieces_total rest []]
    · have hc' : (c == '\n') = false := by simpa using hc
      simp only [hc', Bool.false_eq_true, if_false]
      rw [nlPieces_total rest (c :: cur)]
      simp

/-- text of the tagged splitter's state: finished lines (with their line feeds), then the open line -/
def taggedTotal (st : List (Segment σ) × List (List (Segment σ) × Bool)) : List Char :=
  (st.2.reverse.flatMap (fun p => allText p.1 ++ if p.2 then ['\n'] else [])) ++ allText st.1

theorem taggedInner_total (sty : Option σ) : ∀ (ps : List (List Char × Bool))
    (st : List (Segment σ) × List (List (Segment σ) × Bool)),
    taggedTotal (ps.foldl (fun (st : List (Segment σ) × List (List (Segment σ) × Bool)) p =>
      let line := if p.1.isEmpty then st.1 else st.1 ++ [{ text := p.1, style := sty, control := false }]
      if p.2 then ([], (line, true) :: st.2) else (line, st.2)) st) =
    taggedTotal st ++ ps.flatMap (fun p => p.1 ++ if p.2 then ['\n'] else [])
  | [], st => by simp
  | p :: ps, st => by
    simp only [List.foldl_cons]
    rw [taggedInner_total sty ps]
    have hline : allText (if p.1.isEmpty then st.1 else st.1 ++ [{ text := p.1, style := sty, control := false }]) =
        allText st.1 ++ p.1 := by
      split
      · rename_i h; simp [List.isEmpty_iff.mp h]
      · simp
    simp only [List.flatMap_cons]
    by_cases hp : p.2 = true
    · simp only [hp, if_true, taggedTotal, List.reverse_cons, List.flatMap_append, List.flatMap_cons, List.flatMap_nil,
        List.append_nil, hline, allText_nil, List.append_assoc]
    · have hp' : p.2 = false := by simpa using hp
      simp only [hp', Bool.false_eq_true, if_false, taggedTotal, hline, List.append_nil, List.append_assoc]

theorem taggedStep_total (st : List (Segment σ) × List (List (Segment σ) × Bool)) (seg : Segment σ) :
    taggedTotal (taggedStep st seg) = taggedTotal st ++ seg.text := by
  unfold taggedStep
  split
  · rw [taggedInner_total, nlPieces_total]; simp
  · simp [taggedTotal, List.append_assoc]

theorem splitLinesTagged_total (segs : List (Segment σ)) :
    (splitLinesTagged segs).flatMap (fun p => allText p.1 ++ if p.2 then ['\n'] else []) = allText segs := by
  have key : ∀ (l : List (Segment σ)) (st : List (Segment σ) × List (List (Segment σ) × Bool)),
      taggedTotal (l.foldl taggedStep st) = taggedTotal st ++ allText l := by
    intro l
    induction l with
    | nil => intro st; simp
    | cons seg rest ih => intro st; simp only [List.foldl_cons]; rw [ih, taggedStep_total]; simp
  have := key segs ([], [])
  unfold splitLinesTagged
  simp only
  simp only [taggedTotal, List.reverse_nil, List.flatMap_nil, allText_nil, List.nil_append] at this
  rw [← this]
  split
  · rename_i h; simp [List.isEmpty_iff.mp h]
  · simp

/-- **The crop of `print` loses nothing when every line fits**: `split_and_crop_lines(segments, width, pad=False)`
returns the same characters, line feeds included. -/
theorem crop_keeps_text (cw : Char → Nat) (segs : List (Segment σ)) (w : Nat)
    (hfit : ∀ l ∈ splitLines segs, lineLength cw l ≤ w) :
    allText (splitAndCropLines cw segs w none false true false).flatten = allText segs := by
  rw [splitAndCrop_eq_tagged, ← splitLinesTagged_total segs]
  rw [splitLines_eq_tagged] at hfit
  generalize splitLinesTagged segs = tg at hfit
  induction tg with
  | nil => rfl
  | cons p tg ih =>
    have hp : lineLength cw p.1 ≤ w := hfit p.1 (by simp)
    simp only [List.map_cons, List.flatten_cons, allText_append, List.flatMap_cons]
    rw [ih (fun l hl => hfit l (by simp only [List.map_cons, List.mem_cons]; exact Or.inr hl)),
      adjust_nopad_stream cw p.1 w none hp]
    congr 1
    cases p.2 <;> simp [allText]

/-- the tagged splitter only rearranges non-control segments into non-control segments -/
theorem taggedLines_noctl (segs : List (Segment σ)) (h : ∀ s ∈ segs, s.control = false) :
    ∀ p ∈ splitLinesTagged segs, ∀ s ∈ p.1, s.control = false := by
  have inner : ∀ (sty : Option σ) (ps : List (List Char × Bool)) (st : List (Segment σ) × List (List (Segment σ) × Bool)),
      ((∀ s ∈ st.1, s.control = false) ∧ ∀ p ∈ st.2, ∀ s ∈ p.1, s.control = false) →
      let r := ps.foldl (fun (st : List (Segment σ) × List (List (Segment σ) × Bool)) p =>
        let line := if p.1.isEmpty then st.1 else st.1 ++ [{ text := p.1, style := sty, control := false }]
        if p.2 then ([], (line, true) :: st.2) else (line, st.2)) st
      (∀ s ∈ r.1, s.control = false) ∧ ∀ p ∈ r.2, ∀ s ∈ p.1, s.control = false := by
    intro sty ps
    induction ps with
    | nil => intro st hst; exact hst
    | cons p ps ih =>
      intro st hst
      simp only [List.foldl_cons]
      apply ih
      have hline : ∀ s ∈ (if p.1.isEmpty then st.1 else st.1 ++ [{ text := p.1, style := sty, control := false }]),
          s.control = false := by
        intro s hs
        split at hs
        · exact hst.1 s hs
        · rcases List.mem_append.mp hs with hs | hs
          · exact hst.1 s hs
          · simp only [List.mem_singleton] at hs; subst hs; rfl
      by_cases hp : p.2 = true
      · simp only [hp, if_true]
        refine ⟨fun s hs => (by cases hs), ?_⟩
        intro q hq
        rcases List.mem_cons.mp hq with rfl | hq
        · exact hline
        · exact hst.2 q hq
      · have hp' : p.2 = false := by simpa using hp
        simp only [hp', Bool.false_eq_true, if_false]
        exact ⟨hline, hst.2⟩
  have key : ∀ (l : List (Segment σ)) (st : List (Segment σ) × List (List (Segment σ) × Bool)),
      (∀ s ∈ l, s.control = false) →
      ((∀ s ∈ st.1, s.control = false) ∧ ∀ p ∈ st.2, ∀ s ∈ p.1, s.control = false) →
      (∀ s ∈ (l.foldl taggedStep st).1, s.control = false) ∧
        ∀ p ∈ (l.foldl taggedStep st).2, ∀ s ∈ p.1, s.control = false := by
    intro l
    induction l with
    | nil => intro st _ hst; exact hst
    | cons seg rest ih =>
      intro st hl hst
      simp only [List.foldl_cons]
      apply ih _ (fun s hs => hl s (List.mem_cons_of_mem _ hs))
      unfold taggedStep
      split
      · exact inner seg.style _ st hst
      · refine ⟨?_, hst.2⟩
        intro s hs
        rcases List.mem_append.mp hs with hs | hs
        · exact hst.1 s hs
        · simp only [List.mem_singleton] at hs; rw [hs]; exact hl seg (by simp)
  obtain ⟨k1, k2⟩ := key segs ([], []) h ⟨fun s hs => (by cases hs), fun p hp => (by cases hp)⟩
  intro p hp
  unfold splitLinesTagged at hp
  simp only [List.mem_reverse] at hp
  split at hp
  · exact k2 p hp
  · rcases List.mem_cons.mp hp with rfl | hp
    · exact k1
    · exact k2 p hp

/-! ## lines that fit, joined by line feeds, form a stream whose lines fit -/

/-- `"\n".join(lines)` -/
def joinNl : List (List Char) → List Char
  | [] => []
  | [x] => x
  | x :: rest => x ++ '\n' :: joinNl rest

theorem pieces_joinNl_fit (cw : Char → Nat) (w : Nat) : ∀ (ls : List (List Char)), (∀ l ∈ ls, cellLen cw l ≤ w) →
    ∀ p ∈ Layout.pieces (joinNl ls), cellLen cw p ≤ w
  | [], _ => by
    intro p hp
    simp only [joinNl, Layout.pieces_nil, List.mem_singleton] at hp
    subst hp; simp [cellLen]
  | [x], h => by
    intro p hp
    exact Nat.le_trans (Layout.pieces_le cw x p hp) (h x (by simp))
  | x :: y :: rest, h => by
    intro p hp
    simp only [joinNl] at hp
    rw [Layout.pieces_append_nl] at hp
    rcases List.mem_append.mp hp with hp | hp
    · exact Nat.le_trans (Layout.pieces_le cw x p hp) (h x (by simp))
    · exact pieces_joinNl_fit cw w (y :: rest) (fun l hl => h l (List.mem_cons_of_mem _ hl)) p hp

theorem pieces_joinNl_end_fit (cw : Char → Nat) (w : Nat) (ls : List (List Char)) (h : ∀ l ∈ ls, cellLen cw l ≤ w)
    (e : List Char) (he : e = [] ∨ e = ['\n']) :
    ∀ p ∈ Layout.pieces (joinNl ls ++ e), cellLen cw p ≤ w := by
  rcases he with rfl | rfl
  · simpa using pieces_joinNl_fit cw w ls h
  · intro p hp
    rw [Layout.pieces_append_nl] at hp
    rcases List.mem_append.mp hp with hp | hp
    · exact pieces_joinNl_fit cw w ls h p hp
    · simp only [Layout.pieces_nil, List.mem_singleton] at hp
      subst hp; simp [cellLen]

/-! ## `Text.join` and `Text.render`: characters -/

theorem join_plain (v : Variant) (sep : TT) (lines : List TT) :
    (Text.join v sep lines).plain = (Text.joinSeq sep lines).flatMap (·.plain) := by
  unfold Text.join
  simp only
  generalize Text.joinSeq sep lines = l
  have key : ∀ (l : List TT) (acc : List Char × List (Span Name) × Int),
      (l.foldl (fun (acc : List Char × List (Span Name) × Int) (text : TT) =>
        let (pl, sps, offset) := acc
        (pl ++ text.plain,
         sps ++ [⟨offset, offset + text.length, text.style⟩] ++ text.spans.map (fun sp => sp.move offset),
         offset + text.length)) acc).1 = acc.1 ++ l.flatMap (·.plain) := by
    intro l
    induction l with
    | nil => intro acc; simp
    | cons x l ih => intro acc; simp only [List.foldl_cons]; rw [ih]; simp
  simpa using key l ([], [], 0)

theorem joinSeq_nl_plain (sep : TT) (hs : sep.plain = ['\n']) : ∀ (lines : List TT),
    (Text.joinSeq sep lines).flatMap (·.plain) = joinNl (lines.map (·.plain))
  | [] => rfl
  | [x] => by simp [Text.joinSeq, joinNl]
  | x :: y :: rest => by
    have := joinSeq_nl_plain sep hs (y :: rest)
    simp only [Text.joinSeq, hs, List.isEmpty_cons, Bool.false_eq_true, if_false, List.flatMap_cons, List.map_cons,
      joinNl] at this ⊢
    rw [this]; simp

/-- characters of a render result -/
def rsegChars (rs : List (Text.RSeg Name)) : List Char := rs.flatMap (·.text)

/-- **`Text.render(end=e)` emits exactly the text followed by `e`** (C05 `render_view`). -/
theorem render_chars (t : TT) (h : Text.Inv t) (e : List Char) :
    ∃ rs, t.render e = .ok rs ∧ rsegChars rs = t.plain ++ e := by
  obtain ⟨segs, h0, hv⟩ := C05.render_view t h
  have hchars : rsegChars segs = t.plain := by
    have := congrArg (List.map (·.1)) hv
    rw [Text.view_eq_annot, Text.annot_map_fst] at this
    rw [← this]
    simp [rsegChars, Text.segStream, List.map_flatMap, Function.comp_def]
  unfold Text.render at h0 ⊢
  cases hr : Text.renderLoop t.plain t.styleOf (Text.sortEvs t.events) [] with
  | error err => simp [hr, bind, Except.bind] at h0
  | ok segs' =>
    simp only [hr, bind, Except.bind, pure, Except.pure, List.isEmpty_nil, if_true, List.append_nil,
      Except.ok.injEq] at h0
    subst h0
    refine ⟨_, rfl, ?_⟩
    by_cases he : e.isEmpty = true
    · simp [he, List.isEmpty_iff.mp he, rsegChars] at hchars ⊢; exact hchars
    · simp only [he, Bool.false_eq_true, if_false, rsegChars, List.flatMap_append, List.flatMap_cons,
        List.flatMap_nil, List.append_nil]
      rw [show List.flatMap (fun x => x.text) segs' = rsegChars segs' from rfl, hchars]

/-! ## `Text.wrap` (overflow "fold", wrapping on): succeeds, lines are consistent, fit, and keep the ink -/

open Wrap in
theorem wrapParagraphs_inv (cw : Char → Nat) (hsp : cw ' ' = 1) (h2 : ∀ c, cw c ≤ 2) (w : Nat) (hwc : ∀ c, cw c ≤ w)
    (j : Justify) (ts : Nat) (hts : 0 < ts) :
    ∀ (ps out : List TT), (∀ P ∈ ps, Text.Inv P) →
      wrapParagraphs WVariant.repaired cw alg w j Overflow.fold false (some ts) ps = .ok out →
      ∀ l ∈ out, Text.Inv l
  | [], out, _, h => by
    simp only [wrapParagraphs, Except.ok.injEq] at h
    subst h; intro l hl; cases hl
  | P :: ps, out, hps, h => by
    unfold wrapParagraphs at h
    obtain ⟨P', hP', h⟩ := Wrap.bind_ok.mp h
    obtain ⟨ls, hls, h⟩ := Wrap.bind_ok.mp h
    obtain ⟨more, hmore, h⟩ := Wrap.bind_ok.mp h
    simp only [Except.ok.injEq] at h
    subst h
    have hP := hps P (by simp)
    obtain ⟨Q, hQ, hQi, _, hno, _⟩ := Wrap.expandTabs_ink' P hP ts hts
    have hP'i : Text.Inv P' := by
      by_cases hc : P.plain.contains '\t' = true
      · rw [if_pos hc] at hP'
        have : P.expandTabs WVariant.repaired.text (some ts) = .ok Q := hQ
        rw [this] at hP'
        simp only [Except.ok.injEq] at hP'
        subst hP'; exact hQi
      · rw [if_neg hc] at hP'
        simp only [Except.ok.injEq] at hP'
        subst hP'; exact hP
    obtain ⟨out', h1, _, h4, _⟩ := C02.wrapLine_fold_keeps_every_justify (chars := false) cw hsp h2 alg w hwc j P' hP'i
    have : wrapLine WVariant.repaired cw alg P' w j Overflow.fold false = .ok out' := h1
    rw [this] at hls
    simp only [Except.ok.injEq] at hls
    subst hls
    intro l hl
    rcases List.mem_append.mp hl with hl | hl
    · exact h4 l hl
    · exact wrapParagraphs_inv cw hsp h2 w hwc j ts hts ps more (fun P hP => hps P (List.mem_cons_of_mem _ hP)) hmore l hl

/-- **C02, packaged for `print`**: with the effective overflow "fold" and wrapping on, `Text.wrap` at a width that
holds every character succeeds; every line is a consistent `Text`, fits the width, and the lines together keep the
non-whitespace characters of the text, in order. -/
theorem wrap_fold_ok (cw : Char → Nat) (hsp : cw ' ' = 1) (h2 : ∀ c, cw c ≤ 2) (hel : cw '…' = 1) (t : TT)
    (ht : Text.Inv t) (w : Nat) (hw : 1 ≤ w) (hwc : ∀ c, cw c ≤ w) (justify : Option Justify)
    (overflow : Option Overflow) (ts : Nat) (hts : 0 < ts) (noWrap : Option Bool)
    (hov : Wrap.wrapOverflowOf t overflow = Overflow.fold) (hnw : Wrap.noWrapOf t overflow noWrap = false) :
    ∃ out, Wrap.wrap Wrap.WVariant.repaired cw alg t w justify overflow (some ts) noWrap = .ok out ∧
      (∀ l ∈ out, Text.Inv l) ∧ (∀ l ∈ out, cellLen cw l.plain ≤ w) ∧
      (out.flatMap (·.plain)).filter (fun c => !pyIsSpace c) = t.plain.filter (fun c => !pyIsSpace c) := by
  obtain ⟨out, h1, _, h3⟩ := C02.wrap_fold_keeps_nonspace (chars := false) cw hsp h2 alg t ht w hwc justify overflow ts hts
    noWrap hov hnw
  have h1' : Wrap.wrap Wrap.WVariant.repaired cw alg t w justify overflow (some ts) noWrap = .ok out := h1
  refine ⟨out, h1', ?_, ?_, h3⟩
  · obtain ⟨ps, hsplit, _, hps⟩ := Wrap.split_newline_ink t ht
    have hw' := h1'
    unfold Wrap.wrap at hw'
    have hs : t.split Wrap.WVariant.repaired.text ['\n'] false true = .ok ps := hsplit
    rw [hs, hov, hnw] at hw'
    exact wrapParagraphs_inv cw hsp h2 w hwc _ ts hts ps out (fun P hP => (hps P hP).1) hw'
  · exact C02.wrap_lines_fit Wrap.WVariant.repaired cw hsp h2 hel alg t w hw justify overflow (some ts) noWrap out h1'
      (by rw [hov]; decide)

/-! ## the segments `print` appends -/

/-- The `Text` that `print(*strs, sep=…, end=…)` renders (console.py `_collect_renderables`): every string becomes
`Text(str)`, joined by `Text(sep, end=end)`. -/
def printText (a : PrintArgs) : TT :=
  Text.join Variant.repaired (Text.new Variant.repaired a.sep 0 (endStr := a.endStr))
    (a.strs.map (fun s => Text.new Variant.repaired s 0))

/-- The lines of the C02 wrap of that text at width `w` (default justify, overflow "fold", wrapping on), as strings
joined by line feeds and followed by `end`; `[]` if the wrap fails (it does not: `print_plain_segments`). -/
def wrappedText (cw : Char → Nat) (tabSize w : Nat) (a : PrintArgs) : List Char :=
  match Wrap.wrap Wrap.WVariant.repaired cw alg (printText a) w (some Justify.default) (some Overflow.fold)
      (some tabSize) (some false) with
  | .ok out => joinNl (out.map (·.plain)) ++ a.endStr
  | .error _ => []

/-- `print(*strs, sep=…, end=…, style=…)` with every other option at its default. -/
structure PlainDefault (env : Env) (a : PrintArgs) : Prop where
  overflow : a.overflow = none
  noWrap : a.noWrap = none
  width : a.width = none
  crop : a.crop = true
  softWrap : a.softWrap = none
  consoleSoft : env.softWrap = false
  endOk : a.endStr = [] ∨ a.endStr = ['\n']

theorem inv_new0 (s : List Char) (e : List Char) : Text.Inv (Text.new Variant.repaired s (0 : Name) (endStr := e)) :=
  C05.inv_init s 0 [] none none none e (some 8) (by intro sp h; cases h)

theorem inv_printText (a : PrintArgs) : Text.Inv (printText a) := by
  unfold printText
  apply C05.inv_join
  · exact inv_new0 _ _
  · intro x hx
    simp only [List.mem_map] at hx
    obtain ⟨s, _, rfl⟩ := hx
    exact inv_new0 s ['\n']

theorem toSegs_text (env : Env) : ∀ (rs : List (Text.RSeg Name)) (segs : List (Segment Nat)),
    toSegs env rs = some segs → allText segs = rsegChars rs ∧ ∀ s ∈ segs, s.control = false
  | [], segs, h => by
    simp only [toSegs, Option.some.injEq] at h
    subst h; exact ⟨rfl, fun s hs => (by cases hs)⟩
  | r :: rest, segs, h => by
    unfold toSegs at h
    cases hc : combine env r.styles with
    | none => simp [hc] at h
    | some st =>
      cases hm : toSegs env rest with
      | none => simp [hc, hm] at h
      | some more =>
        simp only [hc, hm, Option.some.injEq] at h
        subst h
        obtain ⟨h1, h2⟩ := toSegs_text env rest more hm
        refine ⟨?_, ?_⟩
        · simp [rsegChars, h1]
        intro s hs
        rcases List.mem_cons.mp hs with rfl | hs
        · rfl
        · exact h2 s hs

theorem applyStyle_text (st : Option Nat) (segs : List (Segment Nat)) (h : ∀ s ∈ segs, s.control = false) :
    allText (applyStyle st segs) = allText segs ∧ ∀ s ∈ applyStyle st segs, s.control = false := by
  cases st with
  | none => exact ⟨rfl, h⟩
  | some x =>
    simp only [applyStyle]
    refine ⟨by simp [allText, List.flatMap_map], ?_⟩
    intro s hs
    simp only [List.mem_map] at hs
    obtain ⟨s0, h0, rfl⟩ := hs
    exact h s0 h0

theorem layout_flat_eq (segs : List (Segment Nat)) (h : ∀ s ∈ segs, s.control = false) :
    Layout.flat segs = allText segs := by
  induction segs with
  | nil => rfl
  | cons s segs ih =>
    have hs : s.control = false := h s (by simp)
    simp only [Layout.flat, List.flatMap_cons, hs, Bool.false_eq_true, if_false, allText_cons]
    congr 1
    exact ih (fun x hx => h x (List.mem_cons_of_mem _ hx))

/-- **print_plain_segments.**  Console of width `w` that holds every character (`∀ c, cw c ≤ w`, i.e. `w ≥ 2` for
rich's widths), tab size `≥ 1`; `print(*strs, sep, end, style)` of plain strings with markup / emoji / highlight off
and every other option at its default, `end` being `"\n"` or `""`.  Then the C02 wrap of the joined text at the console
width succeeds; every wrapped line fits the width; the lines keep the text's non-whitespace characters in order; the
derivation is defined (`.ok`), and the segments it appends carry — character for character — the wrapped lines
joined by line feeds, followed by `end`: the final crop of `print` removes nothing.  All of them are ordinary
(non-control) segments. -/
theorem print_plain_segments (cw : Char → Nat) (hsp : cw ' ' = 1) (h2 : ∀ c, cw c ≤ 2) (hel : cw '…' = 1)
    (env : Env) (a : PrintArgs) (hw : 1 ≤ env.width) (hwc : ∀ c, cw c ≤ env.width) (hts : env.tabSize ≠ 0)
    (hd : PlainDefault env a) :
    ∃ lines : List TT,
      Wrap.wrap Wrap.WVariant.repaired cw alg (printText a) env.width (some Justify.default) (some Overflow.fold)
        (some env.tabSize) (some false) = .ok lines ∧
      (∀ l ∈ lines, cellLen cw l.plain ≤ env.width) ∧
      (lines.flatMap (·.plain)).filter (fun c => !pyIsSpace c) = (printText a).plain.filter (fun c => !pyIsSpace c) ∧
      wrappedText cw env.tabSize env.width a = joinNl (lines.map (·.plain)) ++ a.endStr ∧
      ∃ r, printSegs Wrap.WVariant.repaired cw env a = .ok r ∧
        ∀ segs, r = some segs →
          allText segs = joinNl (lines.map (·.plain)) ++ a.endStr ∧ ∀ s ∈ segs, s.control = false := by
  have ht := inv_printText a
  have hfields : (printText a).overflow = none ∧ (printText a).noWrap = none ∧ (printText a).justify = none ∧
      (printText a).endStr = a.endStr := ⟨rfl, rfl, rfl, rfl⟩
  obtain ⟨ho, hn, hj, he⟩ := hfields
  have hov : Wrap.wrapOverflowOf (printText a) (some Overflow.fold) = Overflow.fold := rfl
  have hnw : Wrap.noWrapOf (printText a) (some Overflow.fold) (some false) = false := by
    simp [Wrap.noWrapOf]; rfl
  obtain ⟨lines, hwrap, hinv, hfit, hink⟩ := wrap_fold_ok cw hsp h2 hel (printText a) ht env.width hw hwc
    (some Justify.default) (some Overflow.fold) env.tabSize (Nat.pos_of_ne_zero hts) (some false) hov hnw
  refine ⟨lines, hwrap, hfit, hink, by simp only [wrappedText, hwrap], ?_⟩
  -- the text `Text("\n").join(lines)` and its rendering
  have hnlplain : (Text.new Variant.repaired ['\n'] (0 : Name)).plain = ['\n'] := by decide
  have hallinv : Text.Inv (Text.join Variant.repaired (Text.new Variant.repaired ['\n'] 0) lines) :=
    C05.inv_join _ _ (inv_new0 _ _) hinv
  obtain ⟨rs, hrs, hchars⟩ := render_chars _ hallinv a.endStr
  rw [join_plain, joinSeq_nl_plain _ hnlplain] at hchars
  -- unfold the derivation
  have hmw : ¬ env.width < 1 := by omega
  have htab : (env.tabSize != 0) = true := by simpa using hts
  have htc : textConsole Wrap.WVariant.repaired cw env (printText a) env.width none none = .ok rs := by
    unfold textConsole
    simp only [htab, if_true, hj, ho, hn, Option.getD_none, Option.orElse_none]
    have : Wrap.wrap Wrap.WVariant.repaired cw alg (printText a) env.width (some Justify.default) (some Overflow.fold)
        (some env.tabSize) (some false) = .ok lines := hwrap
    simp only [this, bind, Except.bind]
    exact hrs
  have hps : printSegs Wrap.WVariant.repaired cw env a =
      .ok ((toSegs env rs).map (fun segs => finish cw env true (applyStyle a.style segs))) := by
    unfold printSegs
    simp only [hd.softWrap, hd.consoleSoft, Option.getD_none, Bool.false_eq_true, if_false, hd.overflow, hd.noWrap,
      hd.width, hd.crop]
    unfold renderText
    simp only [hmw, if_false]
    have : textConsole Wrap.WVariant.repaired cw env
        (Text.join Wrap.WVariant.repaired.text (Text.new Wrap.WVariant.repaired.text a.sep 0 (endStr := a.endStr))
          (a.strs.map (fun s => Text.new Wrap.WVariant.repaired.text s 0))) env.width none none = .ok rs := htc
    simp only [this, bind, Except.bind]
  refine ⟨_, hps, ?_⟩
  intro segs hsegs
  cases hts' : toSegs env rs with
  | none => simp [hts'] at hsegs
  | some segs0 =>
    simp only [hts', Option.map_some, Option.some.injEq] at hsegs
    subst hsegs
    obtain ⟨t1, c1⟩ := toSegs_text env rs segs0 hts'
    obtain ⟨t2, c2⟩ := applyStyle_text a.style segs0 c1
    have hflat : Layout.flat (applyStyle a.style segs0) = joinNl (lines.map (·.plain)) ++ a.endStr := by
      rw [layout_flat_eq _ c2, t2, t1, hchars]
    have hfits : Layout.Fits cw env.width (applyStyle a.style segs0) := by
      unfold Layout.Fits
      rw [hflat]
      exact pieces_joinNl_end_fit cw env.width (lines.map (·.plain))
        (by intro l hl; simp only [List.mem_map] at hl; obtain ⟨x, hx, rfl⟩ := hl; exact hfit x hx) a.endStr hd.endOk
    have hlines := (Layout.fits_iff_lines cw env.width (applyStyle a.style segs0)).mp hfits
    simp only [finish, if_true]
    refine ⟨?_, ?_⟩
    · rw [crop_keeps_text cw _ env.width hlines, t2, t1, hchars]
    · -- cropped lines are made of non-control segments
      intro s hs
      rw [splitAndCrop_eq_tagged] at hs
      simp only [List.mem_flatten, List.mem_map] at hs
      obtain ⟨l, ⟨p, hp, rfl⟩, hsl⟩ := hs
      have hpl : lineLength cw p.1 ≤ env.width := by
        apply hlines; rw [splitLines_eq_tagged]; exact List.mem_map.mpr ⟨p, hp, rfl⟩
      rw [adjust_nopad_stream cw p.1 env.width none hpl] at hsl
      rcases List.mem_append.mp hsl with hsl | hsl
      · exact taggedLines_noctl (applyStyle a.style segs0) c2 p hp s hsl
      · split at hsl
        · simp only [List.mem_singleton] at hsl; subst hsl; rfl
        · cases hsl

/-! ## histories of prints -/

theorem exportPlain_noctl (segs : List (Segment Nat)) (h : ∀ s ∈ segs, s.control = false) :
    Console.exportPlain segs = allText segs := by
  induction segs with
  | nil => rfl
  | cons s segs ih =>
    rw [Console.exportPlain_cons, allText_cons, ih (fun x hx => h x (List.mem_cons_of_mem _ hx)), h s (by simp)]
    rfl

/-- Outside every block, a history of prints records exactly what the prints appended, in order. -/
theorem exec_prints_record (v : Console.Variant) (cfg : Console.Config) (senv : Console.StyleEnv Nat)
    (hv : v.recordInRender = false) (hr : cfg.record = true) :
    ∀ (segss : List (List (Segment Nat))) (s : Console.State Nat), s.index = 0 → s.buffer = [] →
      (Console.exec v cfg senv (segss.map Console.Op.print) s).record = s.record ++ segss.flatten
  | [], s, _, _ => by simp [Console.exec_nil]
  | segs :: rest, s, hi, hb => by
    simp only [List.map_cons, Console.exec_cons]
    obtain ⟨b1, i1, _⟩ := Console.step_outside v cfg senv s (.print segs) hi hb rfl
    rw [exec_prints_record v cfg senv hv hr rest _ i1 b1,
      Console.step_outside_record v cfg senv s (.print segs) hv hi hb rfl rfl]
    simp [hr, Console.appended]

/-- **export_text_of_prints.**  On a recording console (repaired variant), a history of `print(*strs, sep, end, style)`
calls of plain strings (`PlainDefault`) whose appended segments are the derived ones: `export_text()` returns the
concatenation, call after call, of the C02 wrap of each call's text at the console width — lines joined by line
feeds, followed by that call's `end`.  A statement about the STRINGS PRINTED. -/
theorem export_text_of_prints (cw : Char → Nat) (hsp : cw ' ' = 1) (h2 : ∀ c, cw c ≤ 2) (hel : cw '…' = 1)
    (env : Env) (hw : 1 ≤ env.width) (hwc : ∀ c, cw c ≤ env.width) (hts : env.tabSize ≠ 0)
    (v : Console.Variant) (cfg : Console.Config) (senv : Console.StyleEnv Nat)
    (hv : v.recordInRender = false) (hr : cfg.record = true) :
    ∀ (calls : List (PrintArgs × List (Segment Nat))),
      (∀ c ∈ calls, PlainDefault env c.1 ∧ printSegs Wrap.WVariant.repaired cw env c.1 = .ok (some c.2)) →
      Console.exportPlain (Console.exec v cfg senv (calls.map (fun c => Console.Op.print c.2)) {}).record =
        calls.flatMap (fun c => wrappedText cw env.tabSize env.width c.1) := by
  intro calls hall
  have key : Console.exportPlain (calls.map (·.2)).flatten =
      calls.flatMap (fun c => wrappedText cw env.tabSize env.width c.1) := by
    induction calls with
    | nil => rfl
    | cons c calls ih =>
      obtain ⟨hd, hps⟩ := hall c (by simp)
      obtain ⟨lines, _, _, _, hwt, r, hr', hsegs⟩ := print_plain_segments cw hsp h2 hel env c.1 hw hwc hts hd
      rw [hps] at hr'
      simp only [Except.ok.injEq] at hr'
      obtain ⟨ht, hc⟩ := hsegs c.2 hr'.symm
      simp only [List.map_cons, List.flatten_cons, Console.exportPlain_append, List.flatMap_cons]
      rw [ih (fun x hx => hall x (List.mem_cons_of_mem _ hx)), exportPlain_noctl c.2 hc, ht, hwt]
  have := exec_prints_record v cfg senv hv hr (calls.map (·.2)) {} rfl rfl
  rw [List.map_map] at this
  rw [show (calls.map (fun c => Console.Op.print c.2)) = calls.map (Console.Op.print ∘ fun x => x.2) from rfl, this]
  simpa using key

end RichModel.ConsolePrint
