import RichModel.Lemmas.Theme
/-!
Histories of theme-stack operations (property C20): balanced histories restore the stack,
the base is preserved by every history, the traced run agrees with the plain run.
-/
namespace RichModel.Theme

variable {σ : Type}

theorem runOps_nil (f : Bool) (st : Stack σ) : runOps f [] st = (st, .normal) := by simp [runOps]

theorem runOps_cons (f : Bool) (op : Op σ) (rest : List (Op σ)) (st : Stack σ) :
    runOps f (op :: rest) st =
      match runOp f op st with
      | (st', .normal) => runOps f rest st'
      | r => r := by
  rw [runOps]
  rfl

theorem runOps_cons_normal (f : Bool) (op : Op σ) (rest : List (Op σ)) (st st' : Stack σ)
    (h : runOp f op st = (st', .normal)) : runOps f (op :: rest) st = runOps f rest st' := by
  rw [runOps_cons, h]

theorem runOps_cons_raised (f : Bool) (op : Op σ) (rest : List (Op σ)) (st st' : Stack σ) (e : Err)
    (h : runOp f op st = (st', .raised e)) : runOps f (op :: rest) st = (st', .raised e) := by
  rw [runOps_cons, h]

/-- statements after a completed prefix run from the state the prefix left. -/
theorem runOps_append_normal (f : Bool) (a b : List (Op σ)) (st st' : Stack σ)
    (h : runOps f a st = (st', .normal)) : runOps f (a ++ b) st = runOps f b st' := by
  induction a generalizing st with
  | nil =>
    rw [runOps_nil] at h
    injection h with h1 _
    subst h1; rfl
  | cons op rest ih =>
    rw [List.cons_append, runOps_cons]
    rw [runOps_cons] at h
    match ho : runOp f op st with
    | (s1, .normal) =>
      rw [ho] at h
      simp only at h ⊢
      exact ih s1 h
    | (s1, .raised e) =>
      rw [ho] at h
      simp at h

/-! ## balanced histories -/

/-- Balanced histories and how they end (`true`: runs to completion, `false`: aborted by an
exception raised in user code).  Every push is closed by its pop with a *completing* balanced
history in between; `use_theme` bodies are balanced and may abort; whatever follows an abort is
never executed, so it is unconstrained. -/
inductive Bal : List (Op σ) → Bool → Prop where
  | nil : Bal [] true
  | raise (rest : List (Op σ)) : Bal (.raise :: rest) false
  | useOk {t : Theme σ} {i : Bool} {body rest : List (Op σ)} {c : Bool} :
      Bal body true → Bal rest c → Bal (.use t i body :: rest) c
  | useAbort {t : Theme σ} {i : Bool} {body : List (Op σ)} (rest : List (Op σ)) :
      Bal body false → Bal (.use t i body :: rest) false
  | pushPop {t : Theme σ} {i : Bool} {mid rest : List (Op σ)} {c : Bool} :
      Bal mid true → Bal rest c → Bal (.push t i :: (mid ++ .pop :: rest)) c

def endOf (c : Bool) : Outcome := if c then .normal else .raised .userError

/-- A balanced history leaves the whole stack (entries and bound lookup) exactly as it found it,
whether it completes or is aborted by an exception — for both variants of `ThemeContext.__enter__`. -/
theorem bal_restores (f : Bool) {h : List (Op σ)} {c : Bool} (hb : Bal h c) :
    ∀ st : Stack σ, st.WF → runOps f h st = (st, endOf c) := by
  induction hb with
  | nil => intro st _; simp [runOps, endOf]
  | raise rest => intro st _; simp [runOps, runOp, endOf]
  | @useOk t i body rest c _ _ ihb ihr =>
    intro st hwf
    obtain ⟨st1, h1⟩ := pushTheme_ok st hwf t (if f then true else i)
    have hwf1 := pushTheme_wf st st1 t _ hwf h1
    have hpop := popTheme_pushTheme st st1 t _ hwf h1
    have hce : ctxEnter f st t i = .ok st1 := h1
    have hop : runOp f (.use t i body) st = (st, .normal) := by
      simp only [runOp, hce, ihb st1 hwf1, ctxExit, hpop, endOf]
      simp
    rw [runOps_cons_normal f _ rest st st hop]
    exact ihr st hwf
  | @useAbort t i body rest _ ihb =>
    intro st hwf
    obtain ⟨st1, h1⟩ := pushTheme_ok st hwf t (if f then true else i)
    have hwf1 := pushTheme_wf st st1 t _ hwf h1
    have hpop := popTheme_pushTheme st st1 t _ hwf h1
    have hce : ctxEnter f st t i = .ok st1 := h1
    have hop : runOp f (.use t i body) st = (st, .raised .userError) := by
      simp only [runOp, hce, ihb st1 hwf1, ctxExit, hpop, endOf]
      simp
    rw [runOps_cons_raised f _ rest st st _ hop]
    simp [endOf]
  | @pushPop t i mid rest c _ _ ihm ihr =>
    intro st hwf
    obtain ⟨st1, h1⟩ := pushTheme_ok st hwf t i
    have hwf1 := pushTheme_wf st st1 t _ hwf h1
    have hpop := popTheme_pushTheme st st1 t _ hwf h1
    have hop : runOp f (.push t i) st = (st1, .normal) := by simp [runOp, h1]
    rw [runOps_cons_normal f _ _ st st1 hop]
    have hm : runOps f mid st1 = (st1, .normal) := by simpa [endOf] using ihm st1 hwf1
    rw [runOps_append_normal f mid _ st1 st1 hm]
    have hop2 : runOp f (.pop : Op σ) st1 = (st, .normal) := by simp [runOp, hpop]
    rw [runOps_cons_normal f _ rest st1 st hop2]
    exact ihr st hwf

/-! ## the base theme survives every history -/

mutual
theorem runOp_base (f : Bool) : ∀ (op : Op σ) (st : Stack σ), st.WF →
    (runOp f op st).1.WF ∧ (runOp f op st).1.entries.head? = st.entries.head?
  | .push t i, st, hwf => by
    obtain ⟨st1, h1⟩ := pushTheme_ok st hwf t i
    simp only [runOp, h1]
    exact ⟨pushTheme_wf st st1 t i hwf h1, pushTheme_head st st1 t i hwf h1⟩
  | .pop, st, hwf => by
    simp only [runOp]
    cases hp : popTheme st with
    | ok st1 => exact ⟨popTheme_wf st st1 hp, popTheme_head st st1 hp⟩
    | error e => exact ⟨hwf, rfl⟩
  | .raise, st, hwf => by simp [runOp, hwf]
  | .use t i body, st, hwf => by
    obtain ⟨st1, h1⟩ := pushTheme_ok st hwf t (if f then true else i)
    have hwf1 := pushTheme_wf st st1 t _ hwf h1
    have hh1 := pushTheme_head st st1 t _ hwf h1
    have ih := runOps_base f body st1 hwf1
    simp only [runOp, ctxEnter, h1, ctxExit]
    cases hr : runOps f body st1 with
    | mk st2 out =>
      rw [hr] at ih
      simp only at ih ⊢
      cases hp : popTheme st2 with
      | ok st3 =>
        simp only
        exact ⟨popTheme_wf st2 st3 hp, by rw [popTheme_head st2 st3 hp, ih.2, hh1]⟩
      | error e =>
        simp only
        exact ⟨ih.1, by rw [ih.2, hh1]⟩
theorem runOps_base (f : Bool) : ∀ (ops : List (Op σ)) (st : Stack σ), st.WF →
    (runOps f ops st).1.WF ∧ (runOps f ops st).1.entries.head? = st.entries.head?
  | [], st, hwf => by simp [runOps, hwf]
  | op :: rest, st, hwf => by
    have ih1 := runOp_base f op st hwf
    rw [runOps_cons]
    cases hr : runOp f op st with
    | mk st1 out =>
      rw [hr] at ih1
      cases out with
      | normal =>
        simp only
        have ih2 := runOps_base f rest st1 ih1.1
        exact ⟨ih2.1, by rw [ih2.2, ih1.2]⟩
      | raised e => simpa using ih1
end

/-! ## the traced run (what the driver prints) is the plain run -/

mutual
theorem traceOp_run (f : Bool) : ∀ (op : Op σ) (st : Stack σ),
    ((traceOp f op st).1, (traceOp f op st).2.1) = runOp f op st
  | .push t i, st => by
    simp only [traceOp, runOp]
    cases pushTheme st t i <;> rfl
  | .pop, st => by
    simp only [traceOp, runOp]
    cases popTheme st <;> rfl
  | .raise, st => by simp [traceOp, runOp]
  | .use t i body, st => by
    simp only [traceOp, runOp]
    cases h1 : ctxEnter f st t i with
    | error e => rfl
    | ok st1 =>
      simp only
      have ih := traceOps_run f body st1
      cases hr : traceOps f body st1 with
      | mk st2 r =>
        obtain ⟨out, tr⟩ := r
        rw [hr] at ih
        simp only at ih
        rw [← ih]
        simp only
        cases ctxExit st2 <;> rfl
theorem traceOps_run (f : Bool) : ∀ (ops : List (Op σ)) (st : Stack σ),
    ((traceOps f ops st).1, (traceOps f ops st).2.1) = runOps f ops st
  | [], st => by simp [traceOps, runOps]
  | op :: rest, st => by
    have ih1 := traceOp_run f op st
    rw [runOps_cons, traceOps]
    cases hr : traceOp f op st with
    | mk st1 r =>
      obtain ⟨out, tr⟩ := r
      rw [hr] at ih1
      simp only at ih1
      rw [← ih1]
      cases out with
      | normal =>
        simp only
        have ih2 := traceOps_run f rest st1
        cases hr2 : traceOps f rest st1 with
        | mk st2 r2 =>
          obtain ⟨out2, tr2⟩ := r2
          rw [hr2] at ih2
          simpa using ih2
      | raised e => rfl
end

/-! ## themes mentioned by a history have unique keys -/

mutual
def opWF : Op σ → Prop
  | .push t _ => WFD t.styles
  | .pop => True
  | .raise => True
  | .use t _ body => WFD t.styles ∧ opsWF body
def opsWF : List (Op σ) → Prop
  | [] => True
  | op :: rest => opWF op ∧ opsWF rest
end

def framesWF (fs : List (Frame σ)) : Prop := ∀ f ∈ fs, WFD f.styles

theorem framesWF_cons {f : Frame σ} {fs : List (Frame σ)} (hf : WFD f.styles) (h : framesWF fs) :
    framesWF (f :: fs) := by
  intro g hg
  rcases List.mem_cons.1 hg with e | hm
  · subst e; exact hf
  · exact h g hm

theorem framesWF_tail {f : Frame σ} {fs : List (Frame σ)} (h : framesWF (f :: fs)) : framesWF fs :=
  fun g hg => h g (List.mem_cons_of_mem _ hg)

mutual
theorem specOp_wf : ∀ (op : Op σ) (fs : List (Frame σ)), opWF op → framesWF fs →
    framesWF (specOp op fs).1
  | .push t i, fs, ho, hf => by
    simp only [specOp]
    exact framesWF_cons (by simpa [opWF] using ho) hf
  | .pop, fs, _, hf => by
    cases fs with
    | nil => simpa [specOp] using hf
    | cons g r => simpa [specOp] using framesWF_tail hf
  | .raise, fs, _, hf => by simpa [specOp] using hf
  | .use t i body, fs, ho, hf => by
    have ho' : WFD t.styles ∧ opsWF body := by simpa [opWF] using ho
    have ih := specOps_wf body (⟨t.styles, i⟩ :: fs) ho'.2 (framesWF_cons ho'.1 hf)
    simp only [specOp]
    cases hs : (specOps body (⟨t.styles, i⟩ :: fs)).1 with
    | nil => intro g hg; simp at hg
    | cons g r =>
      rw [hs] at ih
      simpa using framesWF_tail ih
theorem specOps_wf : ∀ (ops : List (Op σ)) (fs : List (Frame σ)), opsWF ops → framesWF fs →
    framesWF (specOps ops fs).1
  | [], fs, _, hf => by simpa [specOps] using hf
  | op :: rest, fs, ho, hf => by
    have ho' : opWF op ∧ opsWF rest := by simpa [opsWF] using ho
    have ih1 := specOp_wf op fs ho'.1 hf
    rw [specOps]
    cases hr : specOp op fs with
    | mk fs1 out =>
      rw [hr] at ih1
      cases out with
      | normal => exact specOps_wf rest fs1 ho'.2 ih1
      | raised e => simpa using ih1
end

/-! ## the code as found = the repaired code with every `use_theme` read as inheriting -/

mutual
def forceOp : Op σ → Op σ
  | .use t _ body => .use t true (forceOps body)
  | .push t i => .push t i
  | .pop => .pop
  | .raise => .raise
def forceOps : List (Op σ) → List (Op σ)
  | [] => []
  | op :: rest => forceOp op :: forceOps rest
end

mutual
theorem runOp_old (op : Op σ) (st : Stack σ) : runOp true op st = runOp false (forceOp op) st :=
  match op with
  | .push t i => by simp [forceOp, runOp]
  | .pop => by simp [forceOp, runOp]
  | .raise => by simp [forceOp, runOp]
  | .use t i body => by
    simp only [forceOp, runOp, ctxEnter, if_true, Bool.false_eq_true, if_false]
    cases pushTheme st t true with
    | error e => rfl
    | ok st1 => simp only [runOps_old body st1]
theorem runOps_old (ops : List (Op σ)) (st : Stack σ) : runOps true ops st = runOps false (forceOps ops) st :=
  match ops with
  | [] => by simp [forceOps, runOps]
  | op :: rest => by
    rw [forceOps, runOps_cons, runOps_cons, runOp_old op st]
    cases runOp false (forceOp op) st with
    | mk s o =>
      cases o with
      | normal => exact runOps_old rest s
      | raised e => rfl
end

end RichModel.Theme
