import RichModel.Lemmas.StyleText
/-!
Every style `Style.parse` returns is well-formed (`Style.wf`), so the round trip of
`Lemmas/StyleText.lean` applies to it.
-/
namespace RichModel
open AsciiStr
namespace Style

/-- What the loop of `parse` keeps true of its local variables. -/
structure StOk (v : StyleVariant) (st : ParseState) : Prop where
  color : ∀ w, st.color = some w → (∀ c ∈ w, isSpace c = false) ∧ lower w = w ∧ ∃ c, Color.parse v w = .ok c
  bgcolor : ∀ w, st.bgcolor = some w → (∀ c ∈ w, isSpace c = false) ∧ ∃ c, Color.parse v w = .ok c
  link : ∀ l, st.link = some l → l ≠ [] ∧ ∀ c ∈ l, isSpace c = false

theorem stOk_init (v : StyleVariant) : StOk v {} := ⟨by simp, by simp, by simp⟩

theorem parseLoop_stOk {v : StyleVariant} (ws : List (List Char)) (st st' : ParseState)
    (hws : ∀ w ∈ ws, w ≠ [] ∧ ∀ c ∈ w, isSpace c = false) (hst : StOk v st)
    (h : parseLoop v ws st = .ok st') : StOk v st' := by
  fun_induction parseLoop v ws st with
  | case1 st => cases h; exact hst
  | case5 ow st _ _ w rest' a hp ih =>
    refine ih (fun x hx => hws x (by simp [hx])) ⟨hst.color, ?_, hst.link⟩ h
    intro w' hw'
    simp only [Option.some.injEq] at hw'
    subst hw'
    exact ⟨(hws w (by simp)).2, a, hp⟩
  | case8 ow st _ _ _ w rest' i _ ih =>
    exact ih (fun x hx => hws x (by simp [hx])) ⟨hst.color, hst.bgcolor, hst.link⟩ h
  | case10 ow st _ _ _ _ w rest' ih =>
    refine ih (fun x hx => hws x (by simp [hx])) ⟨hst.color, hst.bgcolor, ?_⟩ h
    intro l hl
    simp only [Option.some.injEq] at hl
    subst hl
    exact hws w (by simp)
  | case11 ow rest st _ _ _ _ i _ ih =>
    exact ih (fun x hx => hws x (by simp [hx])) ⟨hst.color, hst.bgcolor, hst.link⟩ h
  | case14 ow rest st _ _ _ _ _ a hp ih =>
    refine ih (fun x hx => hws x (by simp [hx])) ⟨?_, hst.bgcolor, hst.link⟩ h
    intro w' hw'
    simp only [Option.some.injEq] at hw'
    subst hw'
    exact ⟨lower_noSpace (hws ow (by simp)).2, lower_idem ow, a, hp⟩
  | _ => cases h

theorem wf_null (v : StyleVariant) : wf v Style.null = true := by
  simp [wf, Style.null, wfLink]

theorem str_null : str Style.null = render Style.null := by decide

/-- **Every style `parse` returns is well-formed** (and its `str()` is what `__str__` computes). -/
theorem parse_wf {v : StyleVariant} {d : List Char} {s : Style} (h : parse v d = .ok s) :
    wf v s = true ∧ str s = render s := by
  rcases parse_ok h with rfl | ⟨st, hloop, hinit⟩
  · exact ⟨wf_null v, str_null⟩
  · have hst := parseLoop_stOk _ _ _ (split_words d) (stOk_init v) hloop
    have hinv := inv_init hinit
    obtain ⟨c', b', rfl, hcn, hbn, hcs, hbs⟩ := init_ok hinit
    refine ⟨?_, rfl⟩
    rw [wf_iff]
    refine ⟨hinv.attrs_sub, hinv.set_lt, ?_, ?_, ?_⟩
    · intro c hc
      simp only at hc
      cases hw : st.color with
      | none => rw [hcn (by simp [hw])] at hc; cases hc
      | some w =>
        obtain ⟨y, hy, hc'⟩ := hcs (.str w) (by simp [hw])
        rw [hc'] at hc
        simp only [Option.some.injEq] at hc
        subst hc
        simp only [makeColor] at hy
        obtain ⟨hns, hlow, _⟩ := hst.color w hw
        have hname : y.name = w := by
          rw [Color.parse_name hy, hlow, strip_noSpace hns]
        rw [wfColor_iff, hname]
        exact ⟨hns, hy⟩
    · intro c hc
      simp only at hc
      cases hw : st.bgcolor with
      | none => rw [hbn (by simp [hw])] at hc; cases hc
      | some w =>
        obtain ⟨y, hy, hc'⟩ := hbs (.str w) (by simp [hw])
        rw [hc'] at hc
        simp only [Option.some.injEq] at hc
        subst hc
        simp only [makeColor] at hy
        obtain ⟨hns, _⟩ := hst.bgcolor w hw
        have hname : y.name = lower w := by
          rw [Color.parse_name hy, strip_noSpace (lower_noSpace hns)]
        rw [wfColor_iff, hname, Color.parse_lower]
        exact ⟨lower_noSpace hns, hy⟩
    · simp only
      cases hl : st.link with
      | none => rfl
      | some l =>
        obtain ⟨hne, hns⟩ := hst.link l hl
        simp [wfLink, hne, noSpace_iff.mpr hns]

/-- `str` only depends on the compared fields once the cache is sound. -/
theorem render_eq_of_eq {a b : Style} (h : eq a b = true) : render a = render b := by
  obtain ⟨h1, h2, h3, h4, h5⟩ := eq_iff.mp h
  exact render_congr h1 h2 h4 h3 h5

theorem wf_congr {v : StyleVariant} {a b : Style} (h : eq a b = true) : wf v a = wf v b := by
  obtain ⟨h1, h2, h3, h4, h5⟩ := eq_iff.mp h
  simp [wf, h1, h2, h3, h4, h5]

/-! ### successful parses do not depend on the code variant -/


theorem parseLoop_ok_indep {v v' : StyleVariant} (ws : List (List Char)) (st st' : ParseState)
    (h : parseLoop v ws st = .ok st') : parseLoop v' ws st = .ok st' := by
  fun_induction parseLoop v ws st with
  | case1 st => exact h
  | case5 ow st _ hw w rest' a hp ih =>
    have hw' : (lower ow == cl! "on") = true := hw
    rw [parseLoop.eq_def]
    simp only [hw', if_true, Color.parse_ok_indep (v' := v') hp]
    exact ih h
  | case8 ow st _ h1 h2 w rest' i hi ih =>
    have h1' : ¬ (lower ow == cl! "on") = true := h1
    have h2' : (lower ow == cl! "not") = true := h2
    rw [parseLoop.eq_def]
    simp only [h1', h2', if_true, hi]
    exact ih h
  | case10 ow st _ h1 h2 h3 w rest' ih =>
    have h1' : ¬ (lower ow == cl! "on") = true := h1
    have h2' : ¬ (lower ow == cl! "not") = true := h2
    have h3' : (lower ow == cl! "link") = true := h3
    rw [parseLoop.eq_def]
    simp only [h1', h2', h3', if_true]
    exact ih h
  | case11 ow rest st _ h1 h2 h3 i hi ih =>
    have h1' : ¬ (lower ow == cl! "on") = true := h1
    have h2' : ¬ (lower ow == cl! "not") = true := h2
    have h3' : ¬ (lower ow == cl! "link") = true := h3
    have hi' : attrIndex (lower ow) = some i := hi
    rw [parseLoop.eq_def]
    simp only [h1', h2', h3', hi']
    exact ih h
  | case14 ow rest st _ h1 h2 h3 hn a hp ih =>
    have h1' : ¬ (lower ow == cl! "on") = true := h1
    have h2' : ¬ (lower ow == cl! "not") = true := h2
    have h3' : ¬ (lower ow == cl! "link") = true := h3
    have hn' : attrIndex (lower ow) = none := hn
    have hp' : Color.parse v (lower ow) = .ok a := hp
    rw [parseLoop.eq_def]
    simp only [h1', h2', h3', hn', Color.parse_ok_indep (v' := v') hp']
    exact ih h
  | _ => cases h

theorem init_ok_indep {v v' : StyleVariant} {c b kw l s} (h : init v c b kw l = .ok s) : init v' c b kw l = .ok s := by
  obtain ⟨c', b', rfl, hcn, hbn, hcs, hbs⟩ := init_ok h
  have mk : ∀ x y, makeColor v x = .ok y → makeColor v' x = .ok y := by
    intro x y hx
    cases x with
    | str w => exact Color.parse_ok_indep hx
    | color k => exact hx
  unfold init
  cases c with
  | none =>
    rw [hcn rfl]
    cases b with
    | none => rw [hbn rfl]
    | some y =>
      obtain ⟨z, hz, rfl⟩ := hbs y rfl
      simp [mk y z hz, Except.map]
  | some x =>
    obtain ⟨z, hz, rfl⟩ := hcs x rfl
    cases b with
    | none => rw [hbn rfl]; simp [mk x z hz, Except.map]
    | some y =>
      obtain ⟨z', hz', rfl⟩ := hbs y rfl
      simp [mk x z hz, mk y z' hz', Except.map]

/-- A successful `Style.parse` does not depend on the code variant (the variants differ in error
kinds, stored hashes and the `update_link` cache only). -/
theorem parse_ok_indep {v v' : StyleVariant} {d : List Char} {s : Style} (h : parse v d = .ok s) :
    parse v' d = .ok s := by
  unfold parse at h ⊢
  split at h
  · rename_i hc; simp only [hc, if_true]; exact h
  · rename_i hc
    simp only [hc, if_false, Bool.false_eq_true]
    split at h
    · cases h
    · rename_i st hst
      rw [parseLoop_ok_indep _ _ _ hst]
      exact init_ok_indep h

end Style
end RichModel
