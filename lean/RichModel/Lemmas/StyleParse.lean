import RichModel.Lemmas.StyleText
/-!
Every style `Style.parse` returns is well-formed (`Style.wf`), so the round trip of
`Lemmas/StyleText.lean` applies to it.
-/
namespace RichModel
open AsciiStr
namespace Style
variable {T : StrTables} [hT : T.Lawful]

/-- What the loop of `parse` keeps true of its local variables. -/
structure StOk (T : StrTables) (v : StyleVariant) (st : ParseState) : Prop where
  color : ∀ w, st.color = some w → (∀ c ∈ w, T.isSpace c = false) ∧ T.lower w = w ∧ ∃ c, Color.parseT T v w = .ok c
  bgcolor : ∀ w, st.bgcolor = some w → (∀ c ∈ w, T.isSpace c = false) ∧ ∃ c, Color.parseT T v w = .ok c
  link : ∀ l, st.link = some l → l ≠ [] ∧ ∀ c ∈ l, T.isSpace c = false

omit hT in
theorem stOk_init (v : StyleVariant) : StOk T v {} := ⟨by simp, by simp, by simp⟩

theorem parseLoop_stOk {v : StyleVariant} (ws : List (List Char)) (st st' : ParseState)
    (hws : ∀ w ∈ ws, w ≠ [] ∧ ∀ c ∈ w, T.isSpace c = false) (hst : StOk T v st)
    (h : parseLoopT T v ws st = .ok st') : StOk T v st' := by
  fun_induction parseLoopT T v ws st with
  | case1 st => cases h; exact hst
  | case5 ow st _ _ w rest' a hp ih =>
    refine ih (fun x hx => hws x (by simp [hx])) ⟨hst.color, ?_, hst.link⟩ h
    intro w' hw'
    simp only [Option.some.injEq] at hw'
    subst hw'
    exact ⟨(hws w (by simp)).2, a, hp⟩
  | case8 ow st _ _ _ w rest' i _ ih =>
    exact ih (fun x hx => hws x (by simp [hx])) ⟨hst.color, hst.bgcolor, hst.link⟩ h
  | case10 ow st _ _ _ _ w rest' ih =>
    refine ih (fun x hx => hws x (by simp [hx])) ⟨hst.color, hst.bgcolor, ?_⟩ h
    intro l hl
    simp only [Option.some.injEq] at hl
    subst hl
    exact hws w (by simp)
  | case11 ow rest st _ _ _ _ i _ ih =>
    exact ih (fun x hx => hws x (by simp [hx])) ⟨hst.color, hst.bgcolor, hst.link⟩ h
  | case14 ow rest st _ _ _ _ _ a hp ih =>
    refine ih (fun x hx => hws x (by simp [hx])) ⟨?_, hst.bgcolor, hst.link⟩ h
    intro w' hw'
    simp only [Option.some.injEq] at hw'
    subst hw'
    exact ⟨T.lower_noSpace (hws ow (by simp)).2, T.lower_idem ow, a, hp⟩
  | _ => cases h

omit hT in
theorem wf_null (v : StyleVariant) : wfT T v Style.null = true := by
  simp [wfT, Style.null, wfLinkT]

theorem str_null : str Style.null = render Style.null := by decide

/-- **Every style `parse` returns is well-formed** (and its `str()` is what `__str__` computes). -/
theorem parse_wf {v : StyleVariant} {d : List Char} {s : Style} (h : parseT T v d = .ok s) :
    wfT T v s = true ∧ str s = render s := by
  rcases parse_ok h with rfl | ⟨st, hloop, hinit⟩
  · exact ⟨wf_null v, str_null⟩
  · have hst := parseLoop_stOk _ _ _ (T.split_words d) (stOk_init v) hloop
    have hinv := inv_init hinit
    obtain ⟨c', b', rfl, hcn, hbn, hcs, hbs⟩ := init_ok hinit
    refine ⟨?_, rfl⟩
    rw [wf_iff]
    refine ⟨hinv.attrs_sub, hinv.set_lt, ?_, ?_, ?_⟩
    · intro c hc
      simp only at hc
      cases hw : st.color with
      | none => rw [hcn (by simp [hw])] at hc; cases hc
      | some w =>
        obtain ⟨y, hy, hc'⟩ := hcs (.str w) (by simp [hw])
        rw [hc'] at hc
        simp only [Option.some.injEq] at hc
        subst hc
        simp only [makeColorT] at hy
        obtain ⟨hns, hlow, _⟩ := hst.color w hw
        have hname : y.name = w := by
          rw [Color.parseT_name T hy, hlow, T.strip_noSpace hns]
        rw [wfColor_iff, hname]
        exact ⟨hns, hy⟩
    · intro c hc
      simp only at hc
      cases hw : st.bgcolor with
      | none => rw [hbn (by simp [hw])] at hc; cases hc
      | some w =>
        obtain ⟨y, hy, hc'⟩ := hbs (.str w) (by simp [hw])
        rw [hc'] at hc
        simp only [Option.some.injEq] at hc
        subst hc
        simp only [makeColorT] at hy
        obtain ⟨hns, _⟩ := hst.bgcolor w hw
        have hname : y.name = T.lower w := by
          rw [Color.parseT_name T hy, T.strip_noSpace (T.lower_noSpace hns)]
        rw [wfColor_iff, hname, Color.parseT_lower T]
        exact ⟨T.lower_noSpace hns, hy⟩
    · simp only
      cases hl : st.link with
      | none => simp [wfLinkT]
      | some l =>
        obtain ⟨hne, hns⟩ := hst.link l hl
        have ht : strTruthy (some l) = true := by
          cases l with
          | nil => exact absurd rfl hne
          | cons a r => rfl
        rw [storedLink_truthy v ht]
        simp [wfLinkT, hne, noSpace_iff.mpr hns]

/-- `str` only depends on the compared fields once the cache is sound. -/
theorem render_eq_of_eq {a b : Style} (h : eq a b = true) : render a = render b := by
  obtain ⟨h1, h2, h3, h4, h5⟩ := eq_iff.mp h
  exact render_congr h1 h2 h4 h3 h5

omit hT in
theorem wf_congr {v : StyleVariant} {a b : Style} (h : eq a b = true) : wfT T v a = wfT T v b := by
  obtain ⟨h1, h2, h3, h4, h5⟩ := eq_iff.mp h
  simp [wfT, h1, h2, h3, h4, h5]

/-! ### successful parses do not depend on the code variant -/


omit hT in
theorem parseLoop_ok_indep {v v' : StyleVariant} (ws : List (List Char)) (st st' : ParseState)
    (h : parseLoopT T v ws st = .ok st') : parseLoopT T v' ws st = .ok st' := by
  fun_induction parseLoopT T v ws st with
  | case1 st => exact h
  | case5 ow st _ hw w rest' a hp ih =>
    have hw' : (T.lower ow == cl! "on") = true := hw
    rw [parseLoopT.eq_def]
    simp only [hw', if_true, Color.parseT_ok_indep T (v' := v') hp]
    exact ih h
  | case8 ow st _ h1 h2 w rest' i hi ih =>
    have h1' : ¬ (T.lower ow == cl! "on") = true := h1
    have h2' : (T.lower ow == cl! "not") = true := h2
    rw [parseLoopT.eq_def]
    simp only [h1', h2', if_true, hi]
    exact ih h
  | case10 ow st _ h1 h2 h3 w rest' ih =>
    have h1' : ¬ (T.lower ow == cl! "on") = true := h1
    have h2' : ¬ (T.lower ow == cl! "not") = true := h2
    have h3' : (T.lower ow == cl! "link") = true := h3
    rw [parseLoopT.eq_def]
    simp only [h1', h2', h3', if_true]
    exact ih h
  | case11 ow rest st _ h1 h2 h3 i hi ih =>
    have h1' : ¬ (T.lower ow == cl! "on") = true := h1
    have h2' : ¬ (T.lower ow == cl! "not") = true := h2
    have h3' : ¬ (T.lower ow == cl! "link") = true := h3
    have hi' : attrIndex (T.lower ow) = some i := hi
    rw [parseLoopT.eq_def]
    simp only [h1', h2', h3', hi']
    exact ih h
  | case14 ow rest st _ h1 h2 h3 hn a hp ih =>
    have h1' : ¬ (T.lower ow == cl! "on") = true := h1
    have h2' : ¬ (T.lower ow == cl! "not") = true := h2
    have h3' : ¬ (T.lower ow == cl! "link") = true := h3
    have hn' : attrIndex (T.lower ow) = none := hn
    have hp' : Color.parseT T v (T.lower ow) = .ok a := hp
    rw [parseLoopT.eq_def]
    simp only [h1', h2', h3', hn', Color.parseT_ok_indep T (v' := v') hp']
    exact ih h
  | _ => cases h

omit hT in
/-- `__init__` on a link that is not the empty string gives the same object in every code variant
(the variants differ in error kinds, stored hashes, the `update_link` cache and the empty link only). -/
theorem init_ok_indep {v v' : StyleVariant} {c b kw l s} (hl : l ≠ some [])
    (h : initT T v c b kw l = .ok s) : initT T v' c b kw l = .ok s := by
  obtain ⟨c', b', rfl, hcn, hbn, hcs, hbs⟩ := init_ok h
  have mk : ∀ x y, makeColorT T v x = .ok y → makeColorT T v' x = .ok y := by
    intro x y hx
    cases x with
    | str w => exact Color.parseT_ok_indep T hx
    | color k => exact hx
  have hsl : ∀ u : StyleVariant, storedLink u l = l := by
    intro u
    rcases linkOk_cases hl with h0 | h0
    · rw [h0]; exact storedLink_none u
    · exact storedLink_truthy u h0
  unfold initT
  rw [hsl v, hsl v']
  cases c with
  | none =>
    rw [hcn rfl]
    cases b with
    | none => rw [hbn rfl]
    | some y =>
      obtain ⟨z, hz, rfl⟩ := hbs y rfl
      simp [mk y z hz, Except.map]
  | some x =>
    obtain ⟨z, hz, rfl⟩ := hcs x rfl
    cases b with
    | none => rw [hbn rfl]; simp [mk x z hz, Except.map]
    | some y =>
      obtain ⟨z', hz', rfl⟩ := hbs y rfl
      simp [mk x z hz, mk y z' hz', Except.map]

/-- A successful `Style.parse` does not depend on the code variant. -/
theorem parse_ok_indep {v v' : StyleVariant} {d : List Char} {s : Style} (h : parseT T v d = .ok s) :
    parseT T v' d = .ok s := by
  unfold parseT at h ⊢
  split at h
  · rename_i hc; simp only [hc, if_true]; exact h
  · rename_i hc
    simp only [hc, if_false, Bool.false_eq_true]
    split at h
    · cases h
    · rename_i st hst
      rw [parseLoop_ok_indep _ _ _ hst]
      have hlk : st.link ≠ some [] := by
        intro hl
        exact ((parseLoop_stOk _ _ _ (T.split_words d) (stOk_init v) hst).link [] hl).1 rfl
      exact init_ok_indep hlk h

end Style
end RichModel
