import RichModel.Model.ColorParse
/-!
Helper lemmas about the ASCII string functions (`split`, `strip`, `lower`, `" ".join`) and about
`Color.parse` (the stored name is the normalised input; key words are not colours).
-/
namespace RichModel
namespace AsciiStr

/-! ### `lower` -/

/-- Reasoning about `'A'..'Z'` by checking the 26 characters. -/
theorem upper_cases (P : Char → Prop) (h : ∀ n, n < 91 → 65 ≤ n → P (Char.ofNat n)) (c : Char)
    (hc : 65 ≤ c.toNat ∧ c.toNat ≤ 90) : P c := by
  have := h c.toNat (by omega) hc.1
  rwa [Char.ofNat_toNat] at this

theorem isSpace_lowerChar (c : Char) : isSpace (lowerChar c) = isSpace c := by
  by_cases hc : 65 ≤ c.toNat ∧ c.toNat ≤ 90
  · exact upper_cases (fun c => isSpace (lowerChar c) = isSpace c) (by decide) c hc
  · simp [lowerChar, hc]

theorem lowerChar_idem (c : Char) : lowerChar (lowerChar c) = lowerChar c := by
  by_cases hc : 65 ≤ c.toNat ∧ c.toNat ≤ 90
  · exact upper_cases (fun c => lowerChar (lowerChar c) = lowerChar c) (by decide) c hc
  · simp [lowerChar, hc]

theorem lower_idem (s : List Char) : lower (lower s) = lower s := by
  simp [lower, List.map_map, Function.comp_def, lowerChar_idem]

theorem lower_noSpace {s : List Char} (h : ∀ c ∈ s, isSpace c = false) : ∀ c ∈ lower s, isSpace c = false := by
  intro c hc
  simp only [lower, List.mem_map] at hc
  obtain ⟨d, hd, rfl⟩ := hc
  rw [isSpace_lowerChar]; exact h d hd

/-! ### `strip` on a string without white space -/

theorem dropWhile_noSpace {s : List Char} (h : ∀ c ∈ s, isSpace c = false) : s.dropWhile isSpace = s := by
  cases s with
  | nil => rfl
  | cons a r => simp [List.dropWhile, h a (by simp)]

theorem strip_noSpace {s : List Char} (h : ∀ c ∈ s, isSpace c = false) : strip s = s := by
  unfold strip lstrip rstrip
  rw [dropWhile_noSpace h, dropWhile_noSpace (s := s.reverse) (by simpa using h), List.reverse_reverse]

/-! ### `split` -/

theorem splitAux_spaces (p : List Char) (hp : ∀ c ∈ p, isSpace c = true) (cur : List Char) :
    splitAux p cur = if cur.isEmpty then [] else [cur] := by
  induction p generalizing cur with
  | nil => rfl
  | cons c r ih =>
    have hc := hp c (by simp)
    have hr : ∀ d ∈ r, isSpace d = true := fun d hd => hp d (by simp [hd])
    simp only [splitAux, hc, if_true]
    split <;> simp [ih hr]

theorem splitAux_append_space (a : List Char) (c : Char) (hc : isSpace c = true) (b cur : List Char) :
    splitAux (a ++ c :: b) cur = splitAux a cur ++ splitAux b [] := by
  induction a generalizing cur with
  | nil =>
    simp only [List.nil_append, splitAux, hc, if_true]
    split <;> simp
  | cons x r ih =>
    simp only [List.cons_append, splitAux]
    split
    · split <;> simp [ih]
    · exact ih _

theorem splitAux_word (w : List Char) (hw : ∀ c ∈ w, isSpace c = false) (post : List Char)
    (hp : ∀ c ∈ post, isSpace c = true) (cur : List Char) :
    splitAux (w ++ post) cur = if (cur ++ w).isEmpty then [] else [cur ++ w] := by
  induction w generalizing cur with
  | nil => simpa using splitAux_spaces post hp cur
  | cons x r ih =>
    have hx := hw x (by simp)
    have hr : ∀ d ∈ r, isSpace d = false := fun d hd => hw d (by simp [hd])
    simp only [List.cons_append, splitAux, hx, Bool.false_eq_true, if_false]
    rw [ih hr]
    simp

theorem split_word {w : List Char} (hne : w ≠ []) (hw : ∀ c ∈ w, isSpace c = false) : split w = [w] := by
  have := splitAux_word w hw [] (by simp) []
  simp only [List.append_nil, List.nil_append] at this
  unfold split
  rw [this]
  cases w with
  | nil => exact absurd rfl hne
  | cons a r => simp

theorem split_append_space (a b : List Char) : split (a ++ ' ' :: b) = split a ++ split b :=
  splitAux_append_space a ' ' (by decide) b []

theorem split_joinSpace (es : List (List Char)) : split (joinSpace es) = es.flatMap split := by
  induction es with
  | nil => rfl
  | cons w rest ih =>
    cases rest with
    | nil => simp [joinSpace]
    | cons w' rest' =>
      show split (w ++ ' ' :: joinSpace (w' :: rest')) = _
      rw [split_append_space, ih]
      simp

theorem split_spaces_prefix (p s : List Char) (hp : ∀ c ∈ p, isSpace c = true) : split (p ++ s) = split s := by
  induction p with
  | nil => rfl
  | cons c r ih =>
    have hc := hp c (by simp)
    have hr : ∀ d ∈ r, isSpace d = true := fun d hd => hp d (by simp [hd])
    unfold split at *
    simp only [List.cons_append, splitAux, hc, if_true, List.isEmpty_nil]
    exact ih hr

/-- If `s.strip()` is the space-free non-empty word `n` then `s.split() == [n]`. -/
theorem split_of_strip_eq {s n : List Char} (h : strip s = n) (hne : n ≠ []) (hn : ∀ c ∈ n, isSpace c = false) :
    split s = [n] := by
  unfold strip lstrip rstrip at h
  -- s = pre ++ t, t = n ++ post
  have hs : s = s.takeWhile isSpace ++ s.dropWhile isSpace := (List.takeWhile_append_dropWhile).symm
  generalize hT : s.dropWhile isSpace = t at h hs
  have ht : t = n ++ (t.reverse.takeWhile isSpace).reverse := by
    have := (List.takeWhile_append_dropWhile (p := isSpace) (l := t.reverse))
    have h2 := congrArg List.reverse this
    simp only [List.reverse_append, List.reverse_reverse] at h2
    rw [h] at h2
    exact h2.symm
  rw [hs, split_spaces_prefix _ _ (fun c hc => List.all_eq_true.mp List.all_takeWhile c hc), ht]
  have hp : ∀ c ∈ (t.reverse.takeWhile isSpace).reverse, isSpace c = true := by
    intro c hc
    exact List.all_eq_true.mp List.all_takeWhile c (List.mem_reverse.mp hc)
  have := splitAux_word n hn _ hp []
  unfold split
  rw [this]
  cases n with
  | nil => exact absurd rfl hne
  | cons a r => simp

/-- Every word produced by `split` is non-empty and free of white space. -/
theorem splitAux_words (s cur : List Char) (hcur : ∀ c ∈ cur, isSpace c = false) :
    ∀ w ∈ splitAux s cur, w ≠ [] ∧ ∀ c ∈ w, isSpace c = false := by
  induction s generalizing cur with
  | nil =>
    intro w hw
    simp only [splitAux] at hw
    split at hw
    · simp at hw
    · rename_i hne
      simp only [List.mem_singleton] at hw
      subst hw
      exact ⟨by intro h; simp [h] at hne, hcur⟩
  | cons c r ih =>
    intro w hw
    simp only [splitAux] at hw
    split at hw
    · split at hw
      · exact ih [] (by simp) w hw
      · rename_i hne
        simp only [List.mem_cons] at hw
        rcases hw with rfl | hw
        · exact ⟨by intro h; simp [h] at hne, hcur⟩
        · exact ih [] (by simp) w hw
    · rename_i hc
      refine ih (cur ++ [c]) ?_ w hw
      intro d hd
      simp only [List.mem_append, List.mem_singleton] at hd
      rcases hd with hd | rfl
      · exact hcur d hd
      · simpa using hc

theorem split_words (s : List Char) : ∀ w ∈ split s, w ≠ [] ∧ ∀ c ∈ w, isSpace c = false :=
  splitAux_words s [] (by simp)

end AsciiStr

open AsciiStr

/-! ### `Color.parse` -/

/-- Every colour `Color.parse` returns carries the normalised text as its name. -/
theorem Color.parseNorm_name {v n c} (h : Color.parseNorm v n = .ok c) : c.name = n := by
  unfold Color.parseNorm at h
  repeat' split at h
  all_goals first
    | (cases h; done)
    | (injection h with h; subst h; rfl)

theorem Color.parse_name {v w c} (h : Color.parse v w = .ok c) : c.name = strip (lower w) :=
  Color.parseNorm_name h

/-- `Color.parse` only looks at the lower-cased text. -/
theorem Color.parse_lower (v : StyleVariant) (w : List Char) : Color.parse v (lower w) = Color.parse v w := by
  unfold Color.parse
  rw [lower_idem]

/-- The words `Style.parse` gives a meaning of their own are not colours (on the translated
`ANSI_COLOR_NAMES` of this run). -/
def styleKeywords : List (List Char) :=
  [cl! "on", cl! "not", cl! "link", cl! "none", cl! "dim", cl! "d", cl! "bold", cl! "b", cl! "italic", cl! "i",
   cl! "underline", cl! "u", cl! "blink", cl! "blink2", cl! "reverse", cl! "r", cl! "conceal", cl! "c",
   cl! "strike", cl! "s", cl! "underline2", cl! "uu", cl! "frame", cl! "encircle", cl! "overline", cl! "o"]

theorem keywords_not_colors_tbl :
    styleKeywords.all (fun k => (ansiColorNumber (strip (lower k))).isNone && (matchReColor (strip (lower k))).isNone
      && strip (lower k) != cl! "default") = true := by
  decide +kernel

theorem keyword_not_color (v : StyleVariant) {k : List Char} (hk : k ∈ styleKeywords) :
    Color.parse v k = .error .colorParse := by
  have := List.all_eq_true.mp keywords_not_colors_tbl k hk
  simp only [Bool.and_eq_true, bne_iff_ne, ne_eq, Option.isNone_iff_eq_none] at this
  obtain ⟨⟨h1, h2⟩, h3⟩ := this
  unfold Color.parse Color.parseNorm
  simp [h1, h2, h3]

theorem Color.parseNorm_ok_indep {v v' : StyleVariant} {n : List Char} {c : Color}
    (h : Color.parseNorm v n = .ok c) : Color.parseNorm v' n = .ok c := by
  unfold Color.parseNorm at h ⊢
  repeat' split at h
  all_goals first
    | (cases h; done)
    | (simp_all; done)

/-- A successful `Color.parse` does not depend on the code variant. -/
theorem Color.parse_ok_indep {v v' : StyleVariant} {w : List Char} {c : Color}
    (h : Color.parse v w = .ok c) : Color.parse v' w = .ok c :=
  Color.parseNorm_ok_indep h

end RichModel
