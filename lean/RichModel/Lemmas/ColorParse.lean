import RichModel.Model.ColorParse
/-!
Helper lemmas about the string functions over arbitrary lawful character tables (`split`, `strip`,
`lower`, `" ".join`), their agreement with the ASCII rules on ASCII text, and about `Color.parse`
(the stored name is the normalised input; key words are not colours; `StrTables.ascii` is lawful).
-/
namespace RichModel
namespace AsciiStr

/-! ### ASCII `lower` -/

/-- Reasoning about `'A'..'Z'` by checking the 26 characters. -/
theorem upper_cases (P : Char → Prop) (h : ∀ n, n < 91 → 65 ≤ n → P (Char.ofNat n)) (c : Char)
    (hc : 65 ≤ c.toNat ∧ c.toNat ≤ 90) : P c := by
  have := h c.toNat (by omega) hc.1
  rwa [Char.ofNat_toNat] at this

theorem isSpace_lowerChar (c : Char) : isSpace (lowerChar c) = isSpace c := by
  by_cases hc : 65 ≤ c.toNat ∧ c.toNat ≤ 90
  · exact upper_cases (fun c => isSpace (lowerChar c) = isSpace c) (by decide) c hc
  · simp [lowerChar, hc]

theorem lowerChar_idem (c : Char) : lowerChar (lowerChar c) = lowerChar c := by
  by_cases hc : 65 ≤ c.toNat ∧ c.toNat ≤ 90
  · exact upper_cases (fun c => lowerChar (lowerChar c) = lowerChar c) (by decide) c hc
  · simp [lowerChar, hc]

/-- Lower-casing an ASCII character gives an ASCII character. -/
theorem lowerChar_lt (c : Char) (h : c.toNat < 128) : (lowerChar c).toNat < 128 := by
  by_cases hc : 65 ≤ c.toNat ∧ c.toNat ≤ 90
  · exact upper_cases (fun c => (lowerChar c).toNat < 128) (by decide) c hc
  · simpa [lowerChar, hc] using h

theorem mem_allAscii {s : List Char} : allAscii s = true ↔ ∀ c ∈ s, c.toNat < 128 := by
  simp [allAscii]

end AsciiStr

open AsciiStr

/-- The ASCII rules are lawful tables. -/
instance : StrTables.Lawful StrTables.ascii where
  space_ascii := fun _ _ => rfl
  lower_ascii := fun _ _ => rfl
  decimal_ascii := fun _ _ => rfl
  lower_idem := fun c => by simp [StrTables.ascii, lowerChar_idem]
  lower_noSpace := fun c h d hd => by
    simp only [StrTables.ascii, List.mem_singleton] at hd h ⊢
    subst hd
    rw [isSpace_lowerChar]; exact h
  digits_floor := Or.inr (by decide)

namespace StrTables
variable (T : StrTables)

/-! ### `lower` -/

theorem lower_idem [hT : T.Lawful] (s : List Char) : T.lower (T.lower s) = T.lower s := by
  induction s with
  | nil => rfl
  | cons c r ih =>
    simp only [lower, List.flatMap_cons, List.flatMap_append] at ih ⊢
    rw [ih, hT.lower_idem c]

theorem lower_noSpace [hT : T.Lawful] {s : List Char} (h : ∀ c ∈ s, T.isSpace c = false) :
    ∀ c ∈ T.lower s, T.isSpace c = false := by
  intro c hc
  simp only [lower, List.mem_flatMap] at hc
  obtain ⟨d, hd, hcd⟩ := hc
  exact hT.lower_noSpace d (h d hd) c hcd

/-- On ASCII text the tables are the ASCII rules. -/
theorem lower_ascii [hT : T.Lawful] {s : List Char} (h : allAscii s = true) : T.lower s = AsciiStr.lower s := by
  induction s with
  | nil => rfl
  | cons c r ih =>
    simp only [allAscii, List.all_cons, Bool.and_eq_true, decide_eq_true_eq] at h
    have ih' := ih (by simpa [allAscii] using h.2)
    simp only [lower, List.flatMap_cons, AsciiStr.lower, List.map_cons] at ih' ⊢
    rw [hT.lower_ascii c h.1, ih']
    rfl

theorem isSpace_ascii [hT : T.Lawful] {s : List Char} (h : allAscii s = true) :
    ∀ c ∈ s, T.isSpace c = AsciiStr.isSpace c :=
  fun c hc => hT.space_ascii c (mem_allAscii.mp h c hc)

theorem isSpace_blank [hT : T.Lawful] : T.isSpace ' ' = true := by
  rw [hT.space_ascii ' ' (by decide)]; decide

theorem mem_noSpace {s : List Char} : T.noSpace s = true ↔ ∀ c ∈ s, T.isSpace c = false := by
  simp [noSpace]

/-- An ASCII word without ASCII white space has no white space at all, and is its own `lower()` if it
is its own ASCII `lower()`. -/
theorem ascii_word [hT : T.Lawful] {w : List Char} (ha : allAscii w = true)
    (hs : w.all (fun c => !AsciiStr.isSpace c) = true) :
    (∀ c ∈ w, T.isSpace c = false) ∧ (AsciiStr.lower w = w → T.lower w = w) := by
  refine ⟨fun c hc => ?_, fun hl => by rw [T.lower_ascii ha, hl]⟩
  rw [T.isSpace_ascii ha c hc]
  simpa using List.all_eq_true.mp hs c hc

/-! ### `strip` on a string without white space -/

theorem dropWhile_noSpace {s : List Char} (h : ∀ c ∈ s, T.isSpace c = false) : s.dropWhile T.isSpace = s := by
  cases s with
  | nil => rfl
  | cons a r => simp [List.dropWhile, h a (by simp)]

theorem strip_noSpace {s : List Char} (h : ∀ c ∈ s, T.isSpace c = false) : T.strip s = s := by
  unfold strip lstrip rstrip
  rw [T.dropWhile_noSpace h, T.dropWhile_noSpace (s := s.reverse) (by simpa using h), List.reverse_reverse]

/-! ### `split` -/

theorem splitAux_spaces (p : List Char) (hp : ∀ c ∈ p, T.isSpace c = true) (cur : List Char) :
    T.splitAux p cur = if cur.isEmpty then [] else [cur] := by
  induction p generalizing cur with
  | nil => rfl
  | cons c r ih =>
    have hc := hp c (by simp)
    have hr : ∀ d ∈ r, T.isSpace d = true := fun d hd => hp d (by simp [hd])
    simp only [splitAux, hc, if_true]
    split <;> simp [ih hr]

theorem splitAux_append_space (a : List Char) (c : Char) (hc : T.isSpace c = true) (b cur : List Char) :
    T.splitAux (a ++ c :: b) cur = T.splitAux a cur ++ T.splitAux b [] := by
  induction a generalizing cur with
  | nil =>
    simp only [List.nil_append, splitAux, hc, if_true]
    split <;> simp
  | cons x r ih =>
    simp only [List.cons_append, splitAux]
    split
    · split <;> simp [ih]
    · exact ih _

theorem splitAux_word (w : List Char) (hw : ∀ c ∈ w, T.isSpace c = false) (post : List Char)
    (hp : ∀ c ∈ post, T.isSpace c = true) (cur : List Char) :
    T.splitAux (w ++ post) cur = if (cur ++ w).isEmpty then [] else [cur ++ w] := by
  induction w generalizing cur with
  | nil => simpa using T.splitAux_spaces post hp cur
  | cons x r ih =>
    have hx := hw x (by simp)
    have hr : ∀ d ∈ r, T.isSpace d = false := fun d hd => hw d (by simp [hd])
    simp only [List.cons_append, splitAux, hx, Bool.false_eq_true, if_false]
    rw [ih hr]
    simp

theorem split_word {w : List Char} (hne : w ≠ []) (hw : ∀ c ∈ w, T.isSpace c = false) : T.split w = [w] := by
  have := T.splitAux_word w hw [] (by simp) []
  simp only [List.append_nil, List.nil_append] at this
  unfold split
  rw [this]
  cases w with
  | nil => exact absurd rfl hne
  | cons a r => simp

/-- A literal lower-case ASCII word (checked by `decide`) is its own `lower()`, one `split()` word, and
free of white space, whatever the tables. -/
theorem word_facts [hT : T.Lawful] (w : List Char)
    (h : (!w.isEmpty && allAscii w && w.all (fun c => !AsciiStr.isSpace c) && AsciiStr.lower w == w) = true) :
    T.lower w = w ∧ T.split w = [w] ∧ ∀ c ∈ w, T.isSpace c = false := by
  simp only [Bool.and_eq_true, Bool.not_eq_true', List.isEmpty_eq_false_iff, beq_iff_eq] at h
  obtain ⟨⟨⟨h1, h2⟩, h3⟩, h4⟩ := h
  obtain ⟨hns, hl⟩ := T.ascii_word h2 h3
  exact ⟨hl h4, T.split_word h1 hns, hns⟩

theorem split_append_space [hT : T.Lawful] (a b : List Char) : T.split (a ++ ' ' :: b) = T.split a ++ T.split b :=
  T.splitAux_append_space a ' ' T.isSpace_blank b []

theorem split_joinSpace [hT : T.Lawful] (es : List (List Char)) : T.split (joinSpace es) = es.flatMap T.split := by
  induction es with
  | nil => rfl
  | cons w rest ih =>
    cases rest with
    | nil => simp [joinSpace]
    | cons w' rest' =>
      show T.split (w ++ ' ' :: joinSpace (w' :: rest')) = _
      rw [T.split_append_space, ih]
      simp

theorem split_spaces_prefix (p s : List Char) (hp : ∀ c ∈ p, T.isSpace c = true) : T.split (p ++ s) = T.split s := by
  induction p with
  | nil => rfl
  | cons c r ih =>
    have hc := hp c (by simp)
    have hr : ∀ d ∈ r, T.isSpace d = true := fun d hd => hp d (by simp [hd])
    unfold split at *
    simp only [List.cons_append, splitAux, hc, if_true, List.isEmpty_nil]
    exact ih hr

/-- If `s.strip()` is the space-free non-empty word `n` then `s.split() == [n]`. -/
theorem split_of_strip_eq {s n : List Char} (h : T.strip s = n) (hne : n ≠ []) (hn : ∀ c ∈ n, T.isSpace c = false) :
    T.split s = [n] := by
  unfold strip lstrip rstrip at h
  have hs : s = s.takeWhile T.isSpace ++ s.dropWhile T.isSpace := (List.takeWhile_append_dropWhile).symm
  generalize hT : s.dropWhile T.isSpace = t at h hs
  have ht : t = n ++ (t.reverse.takeWhile T.isSpace).reverse := by
    have := (List.takeWhile_append_dropWhile (p := T.isSpace) (l := t.reverse))
    have h2 := congrArg List.reverse this
    simp only [List.reverse_append, List.reverse_reverse] at h2
    rw [h] at h2
    exact h2.symm
  rw [hs, T.split_spaces_prefix _ _ (fun c hc => List.all_eq_true.mp List.all_takeWhile c hc), ht]
  have hp : ∀ c ∈ (t.reverse.takeWhile T.isSpace).reverse, T.isSpace c = true := by
    intro c hc
    exact List.all_eq_true.mp List.all_takeWhile c (List.mem_reverse.mp hc)
  have := T.splitAux_word n hn _ hp []
  unfold split
  rw [this]
  cases n with
  | nil => exact absurd rfl hne
  | cons a r => simp

/-- Every word produced by `split` is non-empty and free of white space. -/
theorem splitAux_words (s cur : List Char) (hcur : ∀ c ∈ cur, T.isSpace c = false) :
    ∀ w ∈ T.splitAux s cur, w ≠ [] ∧ ∀ c ∈ w, T.isSpace c = false := by
  induction s generalizing cur with
  | nil =>
    intro w hw
    simp only [splitAux] at hw
    split at hw
    · simp at hw
    · rename_i hne
      simp only [List.mem_singleton] at hw
      subst hw
      exact ⟨by intro h; simp [h] at hne, hcur⟩
  | cons c r ih =>
    intro w hw
    simp only [splitAux] at hw
    split at hw
    · split at hw
      · exact ih [] (by simp) w hw
      · rename_i hne
        simp only [List.mem_cons] at hw
        rcases hw with rfl | hw
        · exact ⟨by intro h; simp [h] at hne, hcur⟩
        · exact ih [] (by simp) w hw
    · rename_i hc
      refine ih (cur ++ [c]) ?_ w hw
      intro d hd
      simp only [List.mem_append, List.mem_singleton] at hd
      rcases hd with hd | rfl
      · exact hcur d hd
      · simpa using hc

theorem split_words (s : List Char) : ∀ w ∈ T.split s, w ≠ [] ∧ ∀ c ∈ w, T.isSpace c = false :=
  T.splitAux_words s [] (by simp)

end StrTables

variable (T : StrTables)

/-! ### `Color.parse` -/

/-- Every colour `Color.parse` returns carries the normalised text as its name. -/
theorem Color.parseNormT_name {v n c} (h : Color.parseNormT T v n = .ok c) : c.name = n := by
  unfold Color.parseNormT at h
  repeat' split at h
  all_goals first
    | (cases h; done)
    | (injection h with h; subst h; rfl)

theorem Color.parseT_name {v w c} (h : Color.parseT T v w = .ok c) : c.name = T.strip (T.lower w) :=
  Color.parseNormT_name T h

/-- `Color.parse` only looks at the lower-cased text. -/
theorem Color.parseT_lower [T.Lawful] (v : StyleVariant) (w : List Char) :
    Color.parseT T v (T.lower w) = Color.parseT T v w := by
  unfold Color.parseT
  rw [T.lower_idem]

/-- The words `Style.parse` gives a meaning of their own. -/
def styleKeywords : List (List Char) :=
  [cl! "on", cl! "not", cl! "link", cl! "none", cl! "dim", cl! "d", cl! "bold", cl! "b", cl! "italic", cl! "i",
   cl! "underline", cl! "u", cl! "blink", cl! "blink2", cl! "reverse", cl! "r", cl! "conceal", cl! "c",
   cl! "strike", cl! "s", cl! "underline2", cl! "uu", cl! "frame", cl! "encircle", cl! "overline", cl! "o"]

/-- `RE_COLOR` needs one of its three openings. -/
theorem matchRe_none {s : List Char} (h1 : s.head? ≠ some '#') (h2 : dropPrefix? (cl! "color(") s = none)
    (h3 : dropPrefix? (cl! "rgb(") s = none) : matchRe T s = none := by
  unfold matchRe
  split
  · simp at h1
  · simp [h2, h3]

/-- The key words are lower-case ASCII words that are neither `default`, nor a name of the translated
`ANSI_COLOR_NAMES` of this run, nor open like one of the three `RE_COLOR` forms. -/
theorem keywords_not_colors_tbl :
    styleKeywords.all (fun k => allAscii k && k.all (fun c => !AsciiStr.isSpace c) && AsciiStr.lower k == k &&
      (ansiColorNumber k).isNone && k != cl! "default" && k.head? != some '#' &&
      (dropPrefix? (cl! "color(") k).isNone && (dropPrefix? (cl! "rgb(") k).isNone) = true := by
  decide +kernel

theorem keyword_not_color [T.Lawful] (v : StyleVariant) {k : List Char} (hk : k ∈ styleKeywords) :
    Color.parseT T v k = .error .colorParse := by
  have := List.all_eq_true.mp keywords_not_colors_tbl k hk
  simp only [Bool.and_eq_true, bne_iff_ne, ne_eq, Option.isNone_iff_eq_none, beq_iff_eq] at this
  obtain ⟨⟨⟨⟨⟨⟨⟨h1, h2⟩, h3⟩, h4⟩, h5⟩, h6⟩, h7⟩, h8⟩ := this
  obtain ⟨hns, hl⟩ := T.ascii_word h1 h2
  unfold Color.parseT Color.parseNormT
  rw [hl h3, T.strip_noSpace hns]
  simp [h4, h5, matchRe_none T h6 h7 h8]

theorem Color.parseNormT_ok_indep {v v' : StyleVariant} {n : List Char} {c : Color}
    (h : Color.parseNormT T v n = .ok c) : Color.parseNormT T v' n = .ok c := by
  unfold Color.parseNormT at h ⊢
  repeat' split at h
  all_goals first
    | (cases h; done)
    | (simp_all; done)

/-- A successful `Color.parse` does not depend on the code variant. -/
theorem Color.parseT_ok_indep {v v' : StyleVariant} {w : List Char} {c : Color}
    (h : Color.parseT T v w = .ok c) : Color.parseT T v' w = .ok c :=
  Color.parseNormT_ok_indep T h

end RichModel
