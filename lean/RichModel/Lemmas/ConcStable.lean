import RichModel.Lemmas.ConcInv
import RichModel.Lemmas.ConcScreen
/-!
Constant-height sessions of a Live display under every schedule (`Model/Conc.lean`): the display is
started, its recorded shape has height `h`, every renderable ever set has `h` lines, no thread starts or
stops the display.  Then every write that reaches the file is a `GoodWrite h`.
-/
set_option linter.unusedSimpArgs false
namespace RichModel.Conc
open RichModel
open RichModel.Live (Line Frame liveFrame getShape)

inductive BK where
  | pos | mid | frame | other
deriving DecidableEq, Repr

def Body.kind : Body → BK
  | .pos _ => .pos
  | .user _ => .mid
  | .frame _ => .frame
  | .ctl o _ => if o.isEmpty then .mid else .other

def kinds (l : List Item) : List BK := l.map (·.body.kind)

def GoodItem (h : Nat) (x : Item) : Prop :=
  match x.body with
  | .pos s => ∃ w, s = some (w, h)
  | .frame f => f.length = h
  | _ => True

/-- The operations of a constant-height session. -/
def StableOp (h : Nat) : Op → Bool
  | .print _ => true
  | .proxyPrint _ => true
  | .refresh => true
  | .update f _ => f.length == h
  | _ => false

/-- Abstract state of a thread in a constant-height session: the kinds of the buffered pieces, the buffer
depth, whether the running print found the hook, whether the copy of the renderable is fresh. -/
structure AbsS where
  ks : List BK
  d : Nat
  hk : Bool
  rc : Bool

/-- Abstract effect of an action in a constant-height session (`none`: not allowed there). -/
def stepS (h : Nat) (a : AbsS) : Act → Option AbsS
  | .acq _ | .rel _ => some a
  | .enter => some { a with d := a.d + 1 }
  | .exitDec => if a.d = 0 then none else some { a with d := a.d - 1 }
  | .readHooks => some { a with hk := true }
  | .hookPos => some { a with ks := a.ks ++ [.pos] }
  | .pushUser _ => some { a with ks := a.ks ++ [.mid] }
  | .pushCtl o _ => if o.isEmpty then some { a with ks := a.ks ++ [.mid] } else none
  | .readRenderable => some { a with rc := true }
  | .renderFrame => if a.rc then some { a with ks := a.ks ++ [.frame] } else none
  | .write => if a.ks = [.pos, .mid, .frame] then some { a with ks := [] } else none
  | .setRenderable f => if f.length = h then some a else none
  | _ => none

def onS (g : Guard) (a : AbsS) : Bool :=
  match g with
  | .hooked => a.hk
  | .top => a.d == 0
  | _ => true

def neutral : Act → Bool
  | .acq .record | .recAppend | .rel .record => true
  | _ => false

/-- Static check of a continuation for constant-height sessions; a flush at depth 0 must find exactly
`[pos, mid, frame]` in the buffer. -/
def SimS (h : Nat) : List GAct → AbsS → Bool
  | [], a => a.ks.isEmpty && a.d == 0
  | ⟨g, act⟩ :: r, a =>
    match g with
    | .topRecord => neutral act && SimS h r a
    | _ =>
      if onS g a then
        match stepS h a act with
        | some a' => SimS h r a'
        | none => false
      else SimS h r a

theorem codeS_ok (cfg : Cfg) (hk : cfg.kind = .live) (h : Nat) (op : Op) (hop : StableOp h op = true) (hkd rc : Bool) :
    SimS h (code cfg op) ⟨[], 0, hkd, rc⟩ = true := by
  obtain ⟨kind, w, hh, rec, tr, tl⟩ := cfg
  simp only at hk
  subst hk
  cases op with
  | print ls => simp [code, printBody, hookCode, frameCode, flushCode, ga, gh, SimS, stepS, onS, neutral]
  | proxyPrint ls => simp [code, printBody, hookCode, frameCode, flushCode, ga, gh, SimS, stepS, onS, neutral]
  | refresh => simp [code, refreshCode, printBody, hookCode, frameCode, flushCode, ga, gh, SimS, stepS, onS, neutral]
  | update f r =>
    simp only [StableOp, beq_iff_eq] at hop
    cases r <;> simp [code, refreshCode, printBody, hookCode, frameCode, flushCode, ga, gh, SimS, stepS, onS, neutral, hop]
  | _ => simp [StableOp] at hop

def absS (h : Nat) (l : Local) : AbsS := ⟨kinds l.buffer, l.depth, l.hooked, decide (l.rcopy.length = h)⟩

structure ShS (h : Nat) (sh : Shared) : Prop where
  hooks : 0 < sh.hooks
  shape : ∃ w, sh.shape = some (w, h)
  rend : sh.renderable.length = h

structure ThS (h : Nat) (l : Local) : Prop where
  sim : SimS h l.cont (absS h l) = true
  good : ∀ x ∈ l.buffer, GoodItem h x
  prog : ∀ op ∈ l.prog, StableOp h op = true

structure Stb (h : Nat) (file0 : List Write) (s : State) : Prop where
  sh : ShS h s.sh
  th : ∀ t, ThS h (s.th t)
  file : ∃ ws, s.sh.file = file0 ++ ws ∧ ∀ w ∈ ws, GoodWrite h w

theorem liveFrame_length (cfg : Cfg) (ov : Live.Overflow) (r : Frame) (hfit : r.length ≤ cfg.height) :
    (liveFrame cw1 cfg.width cfg.height ov r).length = r.length := by
  simp only [liveFrame, List.length_map]
  rw [if_neg (by omega)]
  simp

/-- A buffer whose kinds are `[pos, mid, frame]` and whose pieces are good is a good write. -/
theorem goodWrite_of_kinds {h t op : Nat} {buf : List Item} (hk : kinds buf = [.pos, .mid, .frame])
    (hg : ∀ x ∈ buf, GoodItem h x) : GoodWrite h ⟨t, op, buf⟩ := by
  have hlen : buf.length = 3 := by
    have := congrArg List.length hk
    simpa [kinds] using this
  match buf, hlen, hk, hg with
  | [x1, x2, x3], _, hk, hg =>
    simp only [kinds, List.map_cons, List.map_nil, List.cons.injEq, and_true] at hk
    obtain ⟨k1, k2, k3⟩ := hk
    have g1 := hg x1 (by simp)
    have g3 := hg x3 (by simp)
    cases b1 : x1.body <;> simp [b1, Body.kind] at k1
    case pos s =>
      cases b3 : x3.body <;> simp [b3, Body.kind] at k3
      case frame f =>
        simp only [GoodItem, b1] at g1
        simp only [GoodItem, b3] at g3
        obtain ⟨wd, rfl⟩ := g1
        cases b2 : x2.body <;> simp [b2, Body.kind] at k2
        case user ls => exact ⟨x1, x2, x3, wd, ls, f, rfl, b1, Or.inl b2, b3, g3⟩
        case ctl o c =>
          have : o = [] := by simpa using k2
          subst this
          exact ⟨x1, x2, x3, wd, [], f, rfl, b1, Or.inr ⟨rfl, c, b2⟩, b3, g3⟩
      case ctl o c => split at k3 <;> simp at k3
    case ctl o c => split at k1 <;> simp at k1

theorem kinds_append (a : List Item) (x : Item) : kinds (a ++ [x]) = kinds a ++ [x.body.kind] := by simp [kinds]

theorem absS_push (h : Nat) (l : Local) (t : Nat) (b : Body) :
    absS h (l.push t b) = { absS h l with ks := (absS h l).ks ++ [b.kind] } := by
  simp only [absS, Local.push, kinds, List.map_append, List.map_cons, List.map_nil]
  rfl

/-- One executed action in a constant-height session. -/
theorem execS {cfg : Cfg} (hkind : cfg.kind = .live) {h : Nat} (hfit : h ≤ cfg.height)
    {t : Nat} {sh sh' : Shared} {l l' : Local} {g : Guard} {act : Act} {r : List GAct}
    (hsh : ShS h sh)
    (hs : SimS h (⟨g, act⟩ :: r) (absS h l) = true)
    (hgood : ∀ x ∈ l.buffer, GoodItem h x)
    (hg : guardOn cfg l.depth l.hooked g = true)
    (he : exec cfg t sh { l with cont := r } act = some (sh', l')) :
    ShS h sh' ∧ SimS h l'.cont (absS h l') = true ∧
      (∀ x ∈ l'.buffer, GoodItem h x) ∧ l'.prog = l.prog ∧
      (sh'.file = sh.file ∨ ∃ w, sh'.file = sh.file ++ [w] ∧ GoodWrite h w) := by
  obtain ⟨wd, hshape⟩ := hsh.shape
  by_cases htr : g = .topRecord
  · subst htr
    simp only [SimS, Bool.and_eq_true] at hs
    obtain ⟨hact, hsim⟩ := hs
    cases act <;> try (simp [neutral] at hact; done)
    case recAppend =>
      simp only [exec, Option.some.injEq, Prod.mk.injEq] at he
      obtain ⟨rfl, rfl⟩ := he
      exact ⟨⟨hsh.hooks, ⟨wd, hshape⟩, hsh.rend⟩, hsim, hgood, rfl, Or.inl rfl⟩
    case acq lk =>
      simp only [exec] at he
      split at he
      · simp only [Option.some.injEq, Prod.mk.injEq] at he
        obtain ⟨rfl, rfl⟩ := he
        exact ⟨⟨hsh.hooks, ⟨wd, hshape⟩, hsh.rend⟩, hsim, hgood, rfl, Or.inl rfl⟩
      · split at he
        · simp only [Option.some.injEq, Prod.mk.injEq] at he
          obtain ⟨rfl, rfl⟩ := he
          exact ⟨⟨hsh.hooks, ⟨wd, hshape⟩, hsh.rend⟩, hsim, hgood, rfl, Or.inl rfl⟩
        · simp at he
    case rel lk =>
      simp only [exec] at he
      split at he <;>
        (simp only [Option.some.injEq, Prod.mk.injEq] at he
         obtain ⟨rfl, rfl⟩ := he
         exact ⟨⟨hsh.hooks, ⟨wd, hshape⟩, hsh.rend⟩, hsim, hgood, rfl, Or.inl rfl⟩)
  · have hon : onS g (absS h l) = true := by
      cases g <;> first | exact absurd rfl htr | exact hg
    have hs' : ∃ a', stepS h (absS h l) act = some a' ∧ SimS h r a' = true := by
      cases g <;> first
        | exact absurd rfl htr
        | (simp only [SimS, hon, if_true] at hs
           revert hs
           generalize stepS h (absS h l) act = o
           intro hs
           cases o with
           | none => simp at hs
           | some a' => exact ⟨a', rfl, hs⟩)
    obtain ⟨a', ha, hsim⟩ := hs'
    cases act <;> simp only [stepS] at ha <;> try (simp at ha; done)
    all_goals simp only [exec] at he
    case acq =>
      simp only [Option.some.injEq] at ha; subst ha
      split at he
      · simp only [Option.some.injEq, Prod.mk.injEq] at he
        obtain ⟨rfl, rfl⟩ := he
        exact ⟨⟨hsh.hooks, ⟨wd, hshape⟩, hsh.rend⟩, hsim, hgood, rfl, Or.inl rfl⟩
      · split at he
        · simp only [Option.some.injEq, Prod.mk.injEq] at he
          obtain ⟨rfl, rfl⟩ := he
          exact ⟨⟨hsh.hooks, ⟨wd, hshape⟩, hsh.rend⟩, hsim, hgood, rfl, Or.inl rfl⟩
        · simp at he
    case rel =>
      simp only [Option.some.injEq] at ha; subst ha
      split at he <;>
        (simp only [Option.some.injEq, Prod.mk.injEq] at he
         obtain ⟨rfl, rfl⟩ := he
         exact ⟨⟨hsh.hooks, ⟨wd, hshape⟩, hsh.rend⟩, hsim, hgood, rfl, Or.inl rfl⟩)
    case enter =>
      simp only [Option.some.injEq] at ha; subst ha
      simp only [Option.some.injEq, Prod.mk.injEq] at he
      obtain ⟨rfl, rfl⟩ := he
      exact ⟨hsh, hsim, hgood, rfl, Or.inl rfl⟩
    case exitDec =>
      split at ha
      · simp at ha
      · rename_i hd
        have hd' : ¬ l.depth = 0 := hd
        simp only [Option.some.injEq] at ha; subst ha
        rw [if_neg hd'] at he
        simp only [Option.some.injEq, Prod.mk.injEq] at he
        obtain ⟨rfl, rfl⟩ := he
        exact ⟨hsh, hsim, hgood, rfl, Or.inl rfl⟩
    case readHooks =>
      simp only [Option.some.injEq] at ha; subst ha
      simp only [Option.some.injEq, Prod.mk.injEq] at he
      obtain ⟨rfl, rfl⟩ := he
      refine ⟨hsh, ?_, hgood, rfl, Or.inl rfl⟩
      have : decide (0 < sh.hooks) = true := by simpa using hsh.hooks
      simpa only [absS, this] using hsim
    case hookPos =>
      simp only [Option.some.injEq] at ha; subst ha
      simp only [Option.some.injEq, Prod.mk.injEq] at he
      obtain ⟨rfl, rfl⟩ := he
      refine ⟨hsh, ?_, ?_, rfl, Or.inl rfl⟩
      · rw [absS_push]; exact hsim
      · intro x hx
        simp only [Local.push, List.mem_append, List.mem_singleton] at hx
        rcases hx with hx | rfl
        · exact hgood x hx
        · simp [GoodItem, hshape]
    case pushUser =>
      simp only [Option.some.injEq] at ha; subst ha
      simp only [Option.some.injEq, Prod.mk.injEq] at he
      obtain ⟨rfl, rfl⟩ := he
      refine ⟨hsh, ?_, ?_, rfl, Or.inl rfl⟩
      · rw [absS_push]; exact hsim
      · intro x hx
        simp only [Local.push, List.mem_append, List.mem_singleton] at hx
        rcases hx with hx | rfl
        · exact hgood x hx
        · simp [GoodItem]
    case pushCtl o c =>
      split at ha
      · rename_i ho
        simp only [Option.some.injEq] at ha; subst ha
        simp only [Option.some.injEq, Prod.mk.injEq] at he
        obtain ⟨rfl, rfl⟩ := he
        refine ⟨hsh, ?_, ?_, rfl, Or.inl rfl⟩
        · rw [absS_push]; simp only [Body.kind, ho, if_true]; exact hsim
        · intro x hx
          simp only [Local.push, List.mem_append, List.mem_singleton] at hx
          rcases hx with hx | rfl
          · exact hgood x hx
          · simp [GoodItem]
      · simp at ha
    case readRenderable =>
      simp only [Option.some.injEq] at ha; subst ha
      simp only [Option.some.injEq, Prod.mk.injEq] at he
      obtain ⟨rfl, rfl⟩ := he
      refine ⟨hsh, ?_, hgood, rfl, Or.inl rfl⟩
      have : decide (sh.renderable.length = h) = true := by simpa using hsh.rend
      simpa only [absS, this] using hsim
    case renderFrame =>
      split at ha
      · rename_i hrc
        have hrc' : l.rcopy.length = h := by simpa [absS] using hrc
        simp only [Option.some.injEq] at ha; subst ha
        simp only [hkind, Option.some.injEq, Prod.mk.injEq] at he
        obtain ⟨rfl, rfl⟩ := he
        have hlen : (liveFrame cw1 cfg.width cfg.height sh.overflow l.rcopy).length = h := by
          rw [liveFrame_length cfg _ _ (by omega)]; exact hrc'
        refine ⟨⟨hsh.hooks, ⟨Live.maxWidth cw1 (liveFrame cw1 cfg.width cfg.height sh.overflow l.rcopy), by simp only [getShape, hlen]⟩, hsh.rend⟩,
          ?_, ?_, rfl, Or.inl rfl⟩
        · rw [absS_push]; exact hsim
        · intro x hx
          simp only [Local.push, List.mem_append, List.mem_singleton] at hx
          rcases hx with hx | rfl
          · exact hgood x hx
          · simpa [GoodItem] using hlen
      · simp at ha
    case write =>
      split at ha
      · rename_i hks
        have hks' : kinds l.buffer = [.pos, .mid, .frame] := hks
        simp only [Option.some.injEq] at ha; subst ha
        simp only [Option.some.injEq, Prod.mk.injEq] at he
        obtain ⟨rfl, rfl⟩ := he
        refine ⟨⟨hsh.hooks, ⟨wd, hshape⟩, hsh.rend⟩, by simpa [absS, kinds] using hsim, by simp, rfl, ?_⟩
        by_cases hany : l.buffer.any nonEmpty = true
        · right
          exact ⟨⟨t, l.nops - 1, l.buffer⟩, by simp only [hany, if_true], goodWrite_of_kinds hks' hgood⟩
        · left; rw [if_neg hany]
      · simp at ha
    case setRenderable f =>
      split at ha
      · rename_i hf
        simp only [Option.some.injEq] at ha; subst ha
        simp only [Option.some.injEq, Prod.mk.injEq] at he
        obtain ⟨rfl, rfl⟩ := he
        exact ⟨⟨hsh.hooks, ⟨wd, hshape⟩, hf⟩, hsim, hgood, rfl, Or.inl rfl⟩
      · simp at ha

theorem onS_guard {cfg : Cfg} {g : Guard} (h : Nat) (l : Local) (htr : g ≠ .topRecord) :
    onS g (absS h l) = guardOn cfg l.depth l.hooked g := by
  cases g <;> first | exact absurd rfl htr | rfl

/-- Every step of every thread preserves the constant-height invariant. -/
theorem stb_step {cfg : Cfg} (hkind : cfg.kind = .live) {h : Nat} (hfit : h ≤ cfg.height) {file0 : List Write}
    {s s' : State} {t : Nat} (st : Stb h file0 s) (hstep : stepT cfg s t = some s') : Stb h file0 s' := by
  cases hc : (s.th t).cont with
  | nil =>
    rw [stepT_nil hc] at hstep
    cases hp : (s.th t).prog with
    | nil => rw [hp] at hstep; simp at hstep
    | cons op rest =>
      rw [hp] at hstep
      simp only [Option.some.injEq] at hstep
      subst hstep
      have ht := st.th t
      have hsim := ht.sim
      rw [hc] at hsim
      simp only [SimS, absS, Bool.and_eq_true, List.isEmpty_iff, beq_iff_eq] at hsim
      refine ⟨st.sh, fun u => ?_, st.file⟩
      by_cases hu : u = t
      · subst hu
        simp only [upd_same]
        refine ⟨?_, ht.good, fun o ho => ht.prog o (by rw [hp]; exact List.mem_cons_of_mem _ ho)⟩
        have hop : StableOp h op = true := ht.prog op (by rw [hp]; exact List.mem_cons_self)
        simp only [absS, hsim.1, hsim.2]
        exact codeS_ok cfg hkind h op hop _ _
      · simp only [upd_other _ _ hu]; exact st.th u
  | cons g r =>
    rw [stepT_cons hc] at hstep
    obtain ⟨gg, act⟩ := g
    have ht := st.th t
    have hsim := ht.sim
    rw [hc] at hsim
    by_cases hg : guardOn cfg (s.th t).depth (s.th t).hooked gg = true
    · rw [if_pos hg] at hstep
      simp only [Option.map_eq_some_iff] at hstep
      obtain ⟨⟨sh', l'⟩, he, rfl⟩ := hstep
      obtain ⟨k1, k2, k3, k4, k5⟩ := execS hkind hfit st.sh hsim ht.good hg he
      refine ⟨k1, fun u => ?_, ?_⟩
      · by_cases hu : u = t
        · subst hu
          simp only [upd_same]
          exact ⟨k2, k3, by rw [k4]; exact ht.prog⟩
        · simp only [upd_other _ _ hu]; exact st.th u
      · obtain ⟨ws, hf, hgw⟩ := st.file
        rcases k5 with k5 | ⟨w, k5, hw⟩
        · exact ⟨ws, by simp only [k5, hf], hgw⟩
        · refine ⟨ws ++ [w], by simp only [k5, hf, List.append_assoc], ?_⟩
          intro w' hw'
          rcases List.mem_append.mp hw' with hw' | hw'
          · exact hgw w' hw'
          · simp at hw'; subst hw'; exact hw
    · rw [if_neg hg] at hstep
      simp only [Option.some.injEq] at hstep
      subst hstep
      refine ⟨st.sh, fun u => ?_, st.file⟩
      by_cases hu : u = t
      · subst hu
        simp only [upd_same]
        refine ⟨?_, ht.good, ht.prog⟩
        by_cases htr : gg = .topRecord
        · subst htr
          simp only [SimS, Bool.and_eq_true] at hsim
          exact hsim.2
        · have hon : onS gg (absS h (s.th u)) = false := by
            rw [onS_guard (cfg := cfg) h _ htr]; simpa using hg
          have : SimS h r (absS h (s.th u)) = true := by
            cases gg <;> first
              | exact absurd rfl htr
              | (simp only [SimS, hon] at hsim; simpa using hsim)
          exact this
      · simp only [upd_other _ _ hu]; exact st.th u

theorem stb_run {cfg : Cfg} (hkind : cfg.kind = .live) {h : Nat} (hfit : h ≤ cfg.height) {file0 : List Write}
    (sched : List Nat) : ∀ {s : State}, Stb h file0 s → Stb h file0 (run cfg s sched) := by
  induction sched with
  | nil => intro s h; exact h
  | cons t rest ih =>
    intro s hs
    simp only [run, List.foldl_cons]
    cases hst : stepT cfg s t with
    | none => simpa [run] using ih hs
    | some s' => simpa [run] using ih (stb_step hkind hfit hs hst)

end RichModel.Conc
