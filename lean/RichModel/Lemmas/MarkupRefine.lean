import RichModel.Lemmas.MarkupAbs
namespace RichModel.Markup

def coverP (p : Nat) (a : AEnt) : Bool :=
  decide (a.1.start ≤ p) && (match a.2 with | none => true | some s => decide (p < s))

/-- styles of the tags covering offset `p`, in opening order -/
def coverA (abs : List AEnt) (p : Nat) : List (List Char) :=
  (abs.filter (coverP p)).map (·.1.tag.str)

abbrev Ann := List (Char × List (List Char))

structure Inv (st : St) (abs : List AEnt) (ann : Ann) : Prop where
  stack : st.stack = stackOf abs
  slots : st.slots = slotsOf abs
  idx : IdxOk abs
  bound : ∀ a ∈ abs, a.1.start ≤ st.text.length ∧ ∀ s, a.2 = some s → s ≤ st.text.length
  text : ann.map Prod.fst = st.text
  ann : ∀ p (h : p < ann.length), (ann[p]).2 = coverA abs p

theorem Inv.len {st : St} {abs : List AEnt} {ann : Ann} (h : Inv st abs ann) : ann.length = st.text.length := by
  rw [← h.text]; simp

theorem cover_at_end (abs : List AEnt) (p : Nat)
    (hb : ∀ a ∈ abs, a.1.start ≤ p ∧ ∀ s, a.2 = some s → s ≤ p) :
    coverA abs p = (abs.filter isOpen).map (·.1.tag.str) := by
  unfold coverA
  congr 1
  apply List.filter_congr
  intro a ha
  obtain ⟨h1, h2⟩ := hb a ha
  obtain ⟨e, s⟩ := a
  cases s with
  | none => simp [coverP, isOpen, h1]
  | some s =>
    have := h2 s rfl
    simp [coverP, isOpen]; omega

theorem filter_map_set {α β : Type} (q : α → Bool) (f : α → β) (l : List α) (i : Nat) (a b : α)
    (hi : l[i]? = some a) (hq : q a = q b) (hf : f a = f b) :
    ((l.set i b).filter q).map f = (l.filter q).map f := by
  induction l generalizing i with
  | nil => simp
  | cons x xs ih =>
    cases i with
    | zero =>
      simp at hi; subst hi
      simp only [List.set_cons_zero, List.filter_cons, hq]
      split <;> simp [hf]
    | succ i =>
      simp at hi
      simp only [List.set_cons_succ, List.filter_cons]
      split <;> simp [ih i hi]

theorem Inv_chr {st : St} {abs : List AEnt} {ann : Ann} (h : Inv st abs ann) (c : Char) :
    Inv { st with text := st.text ++ [c] } abs (ann ++ [(c, (st.stack.map toO).reverse.map (·.style))]) := by
  refine ⟨h.stack, h.slots, h.idx, ?_, ?_, ?_⟩
  · intro a ha
    obtain ⟨h1, h2⟩ := h.bound a ha
    simp only [List.length_append, List.length_singleton]
    exact ⟨by omega, fun s hs => by have := h2 s hs; omega⟩
  · simp [h.text]
  · intro p hp
    by_cases hlt : p < ann.length
    · rw [List.getElem_append_left hlt]; exact h.ann p hlt
    · have hpe : p = ann.length := by simp at hp; omega
      subst hpe
      simp only [List.getElem_append_right (Nat.le_refl _), Nat.sub_self, List.getElem_cons_zero]
      rw [cover_at_end abs ann.length (by rw [h.len]; exact h.bound), h.stack]
      simp [stackOf, toO]

theorem Inv_open {st : St} {abs : List AEnt} {ann : Ann} (h : Inv st abs ann) (tag : Tag) :
    Inv { st with stack := { idx := st.slots.length, start := st.text.length, tag := tag } :: st.stack,
                  slots := st.slots ++ [none] }
      (abs ++ [({ idx := st.slots.length, start := st.text.length, tag := tag }, none)]) ann := by
  have hlen : st.slots.length = abs.length := by rw [h.slots]; simp [slotsOf]
  refine ⟨?_, ?_, ?_, ?_, h.text, ?_⟩
  · simp [stackOf_snoc, isOpen, h.stack]
  · simp [h.slots, slotsOf, toSlot]
  · intro i e s hi
    by_cases hlt : i < abs.length
    · rw [List.getElem?_append_left hlt] at hi; exact h.idx i e s hi
    · have hge : abs.length ≤ i := by omega
      rw [List.getElem?_append_right hge] at hi
      have : i - abs.length = 0 := by
        cases hk : i - abs.length with
        | zero => rfl
        | succ k => rw [hk] at hi; simp at hi
      rw [this] at hi
      simp at hi
      rw [← hi.1]; simp; omega
  · intro a ha
    simp at ha
    rcases ha with ha | ha
    · exact h.bound a ha
    · subst ha; simp
  · intro p hp
    rw [h.ann p hp]
    have : p < st.text.length := by rw [← h.len]; exact hp
    simp [coverA, List.filter_append, coverP]
    omega

theorem slotsOf_set (abs : List AEnt) (i : Nat) (a : AEnt) : slotsOf (abs.set i a) = (slotsOf abs).set i (toSlot a) := by
  simp [slotsOf, List.map_set]

theorem Inv_close {st : St} {abs : List AEnt} {ann : Ann} (h : Inv st abs ann) (e : Ent) (pre post : List Ent)
    (hs : st.stack = pre ++ e :: post) :
    Inv (st.close e (pre ++ post)) (abs.set e.idx (e, some st.text.length)) ann := by
  obtain ⟨hget, hstk⟩ := stackOf_remove' st.text.length abs pre post e h.idx (by rw [← h.stack]; exact hs)
  have hmem : (e, (none : Option Nat)) ∈ abs := List.mem_of_getElem? hget
  refine ⟨?_, ?_, IdxOk_set h.idx _, ?_, h.text, ?_⟩
  · simp [St.close, hstk]
  · simp [St.close, slotsOf_set, h.slots, toSlot]
  · intro a ha
    simp only [St.close]
    rcases List.mem_or_eq_of_mem_set ha with ha | ha
    · exact h.bound a ha
    · subst ha
      exact ⟨(h.bound _ hmem).1, fun s hs => by cases hs; exact Nat.le_refl _⟩
  · intro p hp
    rw [h.ann p hp]
    have hlt : p < st.text.length := by rw [← h.len]; exact hp
    unfold coverA
    symm
    apply filter_map_set _ _ _ _ _ _ hget
    · simp [coverP, hlt]
    · rfl

theorem stepEv_classify (cfg : Cfg) (st : St) (t : Tag) :
    stepEv cfg st (.tag t) = match classify cfg t with
      | .opening _ => some { st with
          stack := { idx := st.slots.length, start := st.text.length,
                     tag := { name := cfg.norm t.name, params := t.params } } :: st.stack,
          slots := st.slots ++ [none] }
      | .closeName n => (popByName n st.stack).map (fun p => st.close p.1 p.2)
      | .closeTop => match st.stack with
        | e :: s' => some (st.close e s')
        | [] => none := by
  simp only [stepEv, step, classify]
  by_cases h1 : t.name.head? = some '/'
  · simp only [h1, if_true]
    by_cases h2 : pyStrip cfg.isSpace t.name.tail ≠ []
    · rw [if_pos h2, if_pos h2]
      dsimp only
      cases popByName (cfg.norm (pyStrip cfg.isSpace t.name.tail)) st.stack with
      | none => rfl
      | some p => rfl
    · rw [if_neg h2, if_neg h2]
      dsimp only
      cases st.stack with
      | nil => rfl
      | cons e es => rfl
  · simp only [h1, if_false]; rfl

/-- **refinement**: the loop with its stack of offsets and span slots computes the reference
semantics — same failures, same characters, and at every character the covering spans are the
tags open there in opening order. -/
theorem runEv_refines (cfg : Cfg) (evs : List Ev) : ∀ (st : St) (abs : List AEnt) (ann : Ann), Inv st abs ann →
    match sem cfg (st.stack.map toO) evs with
    | some rest => ∃ st' abs', runEv cfg st evs = some st' ∧ Inv st' abs' (ann ++ rest)
    | none => runEv cfg st evs = none := by
  induction evs with
  | nil => intro st abs ann h; simp only [sem, runEv]; exact ⟨st, abs, rfl, by simpa using h⟩
  | cons ev evs ih =>
    intro st abs ann h
    cases ev with
    | chr c =>
      simp only [sem, runEv, stepEv]
      by_cases hc : isStripped c = true
      · have e1 : stripControl [c] = [] := by simp [stripControl, hc]
        simp only [hc, if_true, e1, List.append_nil]
        exact ih st abs ann h
      · have e1 : stripControl [c] = [c] := by simp [stripControl, hc]
        simp only [hc, e1]
        have h' := Inv_chr h c
        have := ih _ abs _ h'
        simp only at this
        simp only [Bool.false_eq_true, if_false]
        cases hs : sem cfg (st.stack.map toO) evs with
        | none => rw [hs] at this; exact this
        | some rest =>
          rw [hs] at this
          obtain ⟨st', abs', h1, h2⟩ := this
          exact ⟨st', abs', h1, by simpa using h2⟩
    | tag t =>
      simp only [sem, runEv]
      rw [stepEv_classify]
      cases hk : classify cfg t with
      | opening o =>
        simp only
        have ho : o = toO { idx := st.slots.length, start := st.text.length, tag := { name := cfg.norm t.name, params := t.params } } := by
          simp only [classify] at hk
          by_cases h1 : t.name.head? = some '/'
          · simp only [h1, if_true] at hk
            by_cases h2 : pyStrip cfg.isSpace t.name.tail ≠ []
            · rw [if_pos h2] at hk; cases hk
            · rw [if_neg h2] at hk; cases hk
          · simp only [h1, if_false] at hk
            cases hk; rfl
        have h' := Inv_open h { name := cfg.norm t.name, params := t.params }
        have := ih _ _ _ h'
        simp only [List.map_cons, ← ho] at this
        exact this
      | closeName n =>
        simp only
        rw [closeRecent_map]
        cases hp : popByName n st.stack with
        | none => simp
        | some p =>
          obtain ⟨e, stk'⟩ := p
          obtain ⟨pre, post, h1, h2⟩ := popByName_spec hp
          subst h2
          have h' := Inv_close h e pre post h1
          have := ih _ _ _ h'
          simpa [St.close] using this
      | closeTop =>
        simp only
        cases hs : st.stack with
        | nil => simp
        | cons e stk' =>
          have h' := Inv_close h e [] stk' (by simpa using hs)
          have := ih _ _ _ h'
          simpa [St.close] using this

end RichModel.Markup
