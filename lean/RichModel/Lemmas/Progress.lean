import RichModel.Model.Progress
/-!
Helper lemmas for the progress model: what one operation does to the task list
(`step_tasks`), the projections of the locked bodies, sample pruning, well-formedness.
-/
namespace RichModel.Progress

/-! ## projections of `finishCheck` and the bodies -/

@[simp] theorem finishCheck_completed (clock : Clock) (t : Task) (k : Nat) :
    (t.finishCheck clock k).1.completed = t.completed := by
  unfold Task.finishCheck; split <;> rfl
@[simp] theorem finishCheck_total (clock : Clock) (t : Task) (k : Nat) :
    (t.finishCheck clock k).1.total = t.total := by
  unfold Task.finishCheck; split <;> rfl
@[simp] theorem finishCheck_id (clock : Clock) (t : Task) (k : Nat) :
    (t.finishCheck clock k).1.id = t.id := by
  unfold Task.finishCheck; split <;> rfl
@[simp] theorem finishCheck_visible (clock : Clock) (t : Task) (k : Nat) :
    (t.finishCheck clock k).1.visible = t.visible := by
  unfold Task.finishCheck; split <;> rfl
@[simp] theorem finishCheck_samples (clock : Clock) (t : Task) (k : Nat) :
    (t.finishCheck clock k).1.samples = t.samples := by
  unfold Task.finishCheck; split <;> rfl
@[simp] theorem finishCheck_startTime (clock : Clock) (t : Task) (k : Nat) :
    (t.finishCheck clock k).1.startTime = t.startTime := by
  unfold Task.finishCheck; split <;> rfl
@[simp] theorem finishCheck_stopTime (clock : Clock) (t : Task) (k : Nat) :
    (t.finishCheck clock k).1.stopTime = t.stopTime := by
  unfold Task.finishCheck; split <;> rfl

theorem elapsedC_clk_ge (clock : Clock) (t : Task) (k : Nat) : k ≤ (t.elapsedC clock k).2 := by
  unfold Task.elapsedC; split
  · exact Nat.le_refl _
  · split
    · exact Nat.le_refl _
    · exact Nat.le_succ _

theorem elapsedC_isSome (clock : Clock) (t : Task) (k : Nat) (h : t.startTime.isSome) :
    (t.elapsedC clock k).1.isSome := by
  unfold Task.elapsedC
  cases hs : t.startTime with
  | none => simp [hs] at h
  | some s => cases t.stopTime <;> simp

theorem finishCheck_clk_ge (clock : Clock) (t : Task) (k : Nat) : k ≤ (t.finishCheck clock k).2 := by
  unfold Task.finishCheck; split
  · exact elapsedC_clk_ge clock t k
  · exact Nat.le_refl _

/-- a finish time, once recorded, is kept by the check -/
theorem finishCheck_keeps (clock : Clock) (t : Task) (k : Nat) (v : Int) (h : t.finishedTime = some v) :
    (t.finishCheck clock k).1.finishedTime = some v := by
  unfold Task.finishCheck
  split
  · next hc => rw [h] at hc; exact absurd hc.2 (by simp)
  · exact h

/-- after the check, a started task whose count reached the total is finished -/
theorem finishCheck_finished (clock : Clock) (t : Task) (k : Nat) (hs : t.startTime.isSome)
    (hc : t.total ≤ t.completed) : (t.finishCheck clock k).1.finishedTime.isSome := by
  unfold Task.finishCheck
  split
  · exact elapsedC_isSome clock t k hs
  · next hn =>
    cases hf : t.finishedTime with
    | none => exact absurd ⟨hc, hf⟩ hn
    | some v => simp

/-- the check leaves the finish time alone or sets it -/
theorem finishCheck_none (clock : Clock) (t : Task) (k : Nat)
    (h : (t.finishCheck clock k).1.finishedTime = none) :
    t.finishedTime = none ∧ (t.completed < t.total ∨ t.startTime = none) := by
  unfold Task.finishCheck at h
  split at h
  · next hc =>
    refine ⟨hc.2, Or.inr ?_⟩
    cases hs : t.startTime with
    | none => rfl
    | some s =>
      have := elapsedC_isSome clock t k (by simp [hs])
      simp only at h
      rw [h] at this; simp at this
  · next hn =>
    refine ⟨h, ?_⟩
    have : ¬ t.total ≤ t.completed := fun hc => hn ⟨hc, h⟩
    exact Or.inl (by omega)

/-! ## `applyUpd` -/

theorem applyUpd_id (u : UpdArgs) (t : Task) : (t.applyUpd u).id = t.id := by
  unfold Task.applyUpd; cases u.total <;> cases u.advance <;> cases u.completed <;> cases u.description <;> cases u.visible <;> rfl
theorem applyUpd_startTime (u : UpdArgs) (t : Task) : (t.applyUpd u).startTime = t.startTime := by
  unfold Task.applyUpd; cases u.total <;> cases u.advance <;> cases u.completed <;> cases u.description <;> cases u.visible <;> rfl
theorem applyUpd_stopTime (u : UpdArgs) (t : Task) : (t.applyUpd u).stopTime = t.stopTime := by
  unfold Task.applyUpd; cases u.total <;> cases u.advance <;> cases u.completed <;> cases u.description <;> cases u.visible <;> rfl
theorem applyUpd_completed (u : UpdArgs) (t : Task) :
    (t.applyUpd u).completed = (u.completed.getD (t.completed + u.advance.getD 0)) := by
  unfold Task.applyUpd; cases u.total <;> cases u.advance <;> cases u.completed <;> cases u.description <;> cases u.visible <;> simp
theorem applyUpd_total (u : UpdArgs) (t : Task) : (t.applyUpd u).total = u.total.getD t.total := by
  unfold Task.applyUpd; cases u.total <;> cases u.advance <;> cases u.completed <;> cases u.description <;> cases u.visible <;> simp
theorem applyUpd_samples (u : UpdArgs) (t : Task) :
    (t.applyUpd u).samples = if u.total.isSome then [] else t.samples := by
  unfold Task.applyUpd; cases u.total <;> cases u.advance <;> cases u.completed <;> cases u.description <;> cases u.visible <;> simp
theorem applyUpd_finishedTime (u : UpdArgs) (t : Task) :
    (t.applyUpd u).finishedTime = if u.total.isSome then none else t.finishedTime := by
  unfold Task.applyUpd; cases u.total <;> cases u.advance <;> cases u.completed <;> cases u.description <;> cases u.visible <;> simp

/-! ## pruning keeps a suffix -/

theorem dropOld_suffix (old : Int) (l : List Sample) : dropOld old l <:+ l := by
  induction l with
  | nil => exact List.suffix_refl _
  | cons s r ih =>
    unfold dropOld
    split
    · exact List.IsSuffix.trans ih (List.suffix_cons s r)
    · exact List.suffix_refl _

theorem prune_suffix (cfg : Cfg) (now : Int) (l : List Sample) : prune cfg now l <:+ l :=
  List.IsSuffix.trans (List.drop_suffix _ _) (dropOld_suffix _ l)

theorem prune_sublist (cfg : Cfg) (now : Int) (l : List Sample) : (prune cfg now l).Sublist l :=
  (prune_suffix cfg now l).sublist

theorem prune_length_le (cfg : Cfg) (now : Int) (l : List Sample) : (prune cfg now l).length ≤ cfg.maxLen := by
  unfold prune dropExcess
  simp only [List.length_drop]
  omega

/-! ## the task list -/

theorem lookup_some {l : List Task} {id : Nat} {t : Task} (h : lookup l id = some t) : t ∈ l ∧ t.id = id := by
  unfold lookup at h
  refine ⟨List.mem_of_find?_eq_some h, ?_⟩
  have := List.find?_some h
  simpa using this

theorem lookup_none_of_lt {l : List Task} {id n : Nat} (h : ∀ t ∈ l, t.id < n) (hn : n ≤ id) : lookup l id = none := by
  unfold lookup
  rw [List.find?_eq_none]
  intro t ht
  have := h t ht
  simp; omega

theorem mem_setTask {id : Nat} {r t : Task} {l : List Task} (h : t ∈ setTask id r l) :
    t = r ∨ (t ∈ l ∧ t.id ≠ id) := by
  unfold setTask at h
  rw [List.mem_map] at h
  obtain ⟨x, hx, rfl⟩ := h
  split
  · exact Or.inl rfl
  · next hne => exact Or.inr ⟨hx, hne⟩

theorem lookup_setTask_self {id : Nat} {r t : Task} {l : List Task} (hr : r.id = id) (h : lookup l id = some t) :
    lookup (setTask id r l) id = some r := by
  unfold lookup setTask at *
  induction l with
  | nil => simp at h
  | cons x xs ih =>
    simp only [List.map_cons, List.find?_cons] at *
    by_cases hx : x.id = id
    · simp [hx, hr]
    · have hx' : (x.id == id) = false := by simpa using hx
      simp only [hx, if_false, hx'] at *
      exact ih h

theorem lookup_setTask_other {id id' : Nat} {r : Task} {l : List Task} (hr : r.id = id) (hne : id' ≠ id) :
    lookup (setTask id r l) id' = lookup l id' := by
  unfold lookup setTask
  induction l with
  | nil => rfl
  | cons x xs ih =>
    simp only [List.map_cons, List.find?_cons]
    by_cases hx : x.id = id
    · have h1 : (r.id == id') = false := by simp; omega
      have h2 : (x.id == id') = false := by simp; omega
      rw [if_pos hx, h1, h2]; exact ih
    · rw [if_neg hx]
      cases hxi : (x.id == id')
      · exact ih
      · rfl

theorem lookup_filter_other {id id' : Nat} {l : List Task} (hne : id' ≠ id) :
    lookup (l.filter (fun t => t.id != id)) id' = lookup l id' := by
  unfold lookup
  induction l with
  | nil => rfl
  | cons x xs ih =>
    by_cases hx : x.id = id
    · have h2 : (x.id == id') = false := by simp; omega
      have h3 : (x.id != id) = false := by simp [hx]
      rw [List.filter_cons, h3, List.find?_cons, h2]
      exact ih
    · have h3 : (x.id != id) = true := by simpa using hx
      rw [List.filter_cons, h3]
      simp only [if_true, List.find?_cons]
      cases hxi : (x.id == id')
      · exact ih
      · rfl

theorem lookup_filter_self {id : Nat} {l : List Task} : lookup (l.filter (fun t => t.id != id)) id = none := by
  unfold lookup
  rw [List.find?_eq_none]
  intro t ht
  rw [List.mem_filter] at ht
  simpa using ht.2

theorem lookup_append_new {l : List Task} {t : Task} {id : Nat} (h : ∀ x ∈ l, x.id < t.id) :
    lookup (l ++ [t]) id = if id = t.id then some t else lookup l id := by
  unfold lookup
  rw [List.find?_append]
  by_cases hid : id = t.id
  · subst hid
    have : List.find? (fun x => x.id == t.id) l = none := by
      rw [List.find?_eq_none]; intro x hx; have := h x hx; simp; omega
    simp [this]
  · have : (t.id == id) = false := by simp; omega
    simp [hid, this]

/-! ## effects on the addressed task -/

theorem taskEffect_id (cfg : Cfg) (clock : Clock) (op : Op) (pre : Option Int) (o : Nat) (t : Task) (k : Nat) :
    (taskEffect cfg clock op pre o t k).1.id = t.id := by
  unfold taskEffect
  cases op with
  | startTask _ => simp only; split <;> rfl
  | update _ u => simp [Task.updateBody, applyUpd_id]
  | advance _ a => simp [Task.advanceBody]
  | reset => rfl
  | stopTask => rfl
  | addTask => rfl
  | removeTask => rfl
  | refresh => rfl
  | start => rfl
  | stop => rfl

theorem taskEffect_clk_ge (cfg : Cfg) (clock : Clock) (op : Op) (pre : Option Int) (o : Nat) (t : Task) (k : Nat) :
    k ≤ (taskEffect cfg clock op pre o t k).2 := by
  unfold taskEffect
  cases op with
  | startTask _ => simp only; split <;> simp
  | update _ u =>
    simp only [Task.updateBody]
    refine Nat.le_trans ?_ (finishCheck_clk_ge _ _ _)
    split
    · unfold refreshK; omega
    · omega
  | advance _ a =>
    simp only [Task.advanceBody]
    refine Nat.le_trans ?_ (finishCheck_clk_ge _ _ _)
    unfold nowOf; cases pre <;> simp
  | reset => simp only; unfold nowOf refreshK; cases pre <;> simp <;> omega
  | stopTask => simp
  | addTask => simp
  | removeTask => simp
  | refresh => simp
  | start => simp
  | stop => simp

/-- well-formed: ids are below `_task_index` (so `add_task` always creates a new key) -/
def WF (st : State) : Prop := ∀ t ∈ st.tasks, t.id < st.nextId

theorem WF_empty : WF State.empty := by intro t ht; cases ht

theorem preRead_tasks (cfg : Cfg) (clock : Clock) (op : Op) (st : State) :
    (preRead cfg clock op st).2.tasks = st.tasks ∧ (preRead cfg clock op st).2.nextId = st.nextId ∧
    st.clk ≤ (preRead cfg clock op st).2.clk := by
  unfold preRead; split <;> simp

/-- the body, for an operation that addresses a task -/
theorem body_target (cfg : Cfg) (clock : Clock) (op : Op) (pre : Option Int) (st : State) (id : Nat)
    (ht : op.target = some id) (hr : ∀ i, op ≠ .removeTask i) :
    body cfg clock op pre st =
      match lookup st.tasks id with
      | none => ⟨{ st with clk := clkOnError clock op pre st.clk }, some .keyError⟩
      | some t =>
        ⟨{ st with tasks := setTask id (taskEffect cfg clock op pre (visCount (st.tasks.filter (fun x => x.id != id))) t st.clk).1 st.tasks,
                   clk := (taskEffect cfg clock op pre (visCount (st.tasks.filter (fun x => x.id != id))) t st.clk).2 }, none⟩ := by
  cases op with
  | addTask => simp [Op.target] at ht
  | removeTask i => exact absurd rfl (hr i)
  | startTask i => simp only [Op.target, Option.some.injEq] at ht; subst ht; simp only [body, Op.target]; cases lookup st.tasks i <;> rfl
  | stopTask i => simp only [Op.target, Option.some.injEq] at ht; subst ht; simp only [body, Op.target]; cases lookup st.tasks i <;> rfl
  | update i u => simp only [Op.target, Option.some.injEq] at ht; subst ht; simp only [body, Op.target]; cases lookup st.tasks i <;> rfl
  | reset i => simp only [Op.target, Option.some.injEq] at ht; subst ht; simp only [body, Op.target]; cases lookup st.tasks i <;> rfl
  | advance i a => simp only [Op.target, Option.some.injEq] at ht; subst ht; simp only [body, Op.target]; cases lookup st.tasks i <;> rfl
  | refresh => simp [Op.target] at ht
  | start => simp [Op.target] at ht
  | stop => simp [Op.target] at ht

/-- **Frame lemma.** After one operation, the task with id `id` is gone (it was removed), is the
effect of the operation on it (it was addressed), or is unchanged. -/
theorem body_lookup (cfg : Cfg) (clock : Clock) (op : Op) (pre : Option Int) (st : State) (hwf : WF st)
    (id : Nat) (t : Task) (h : lookup st.tasks id = some t) :
    (op = .removeTask id ∧ lookup (body cfg clock op pre st).st.tasks id = none) ∨
    (op.target = some id ∧ (∀ i, op ≠ .removeTask i) ∧
      lookup (body cfg clock op pre st).st.tasks id = some (taskEffect cfg clock op pre (visCount (st.tasks.filter (fun x => x.id != id))) t st.clk).1 ∧
      (body cfg clock op pre st).err = none) ∨
    (op.target ≠ some id ∧ lookup (body cfg clock op pre st).st.tasks id = some t) := by
  have hid := (lookup_some h).2
  by_cases hrm : ∃ i, op = .removeTask i
  · obtain ⟨i, rfl⟩ := hrm
    by_cases hi : i = id
    · subst hi
      left; refine ⟨rfl, ?_⟩
      simp only [body, h]; exact lookup_filter_self
    · right; right
      refine ⟨by simp [Op.target]; exact hi, ?_⟩
      simp only [body]
      cases hl : lookup st.tasks i with
      | none => exact h
      | some x => simp only; rw [lookup_filter_other (by omega)]; exact h
  · have hr : ∀ i, op ≠ .removeTask i := fun i hi => hrm ⟨i, hi⟩
    cases htg : op.target with
    | none =>
      right; right
      refine ⟨by simp, ?_⟩
      cases op with
      | addTask a =>
        simp only [body]
        rw [lookup_append_new (by intro x hx; exact hwf x hx)]
        have : id < st.nextId := hid ▸ hwf t (lookup_some h).1
        simp only
        rw [if_neg (by omega)]; exact h
      | refresh => exact h
      | start => simp only [body]; split <;> exact h
      | stop => simp only [body]; split <;> exact h
      | removeTask i => exact absurd rfl (hr i)
      | startTask i => simp [Op.target] at htg
      | stopTask i => simp [Op.target] at htg
      | update i u => simp [Op.target] at htg
      | reset i => simp [Op.target] at htg
      | advance i a => simp [Op.target] at htg
    | some j =>
      rw [body_target cfg clock op pre st j htg hr]
      by_cases hj : j = id
      · subst hj
        right; left
        refine ⟨rfl, hr, ?_, ?_⟩
        · rw [h]; simp only
          exact lookup_setTask_self (by rw [taskEffect_id]; exact hid) h
        · rw [h]
      · right; right
        refine ⟨by simp; exact hj, ?_⟩
        cases hl : lookup st.tasks j with
        | none => exact h
        | some x =>
          simp only
          rw [lookup_setTask_other (by rw [taskEffect_id]; exact (lookup_some hl).2) (by omega)]
          exact h

theorem body_lookup_none (cfg : Cfg) (clock : Clock) (op : Op) (pre : Option Int) (st : State) (hwf : WF st)
    (id : Nat) (hlt : id < st.nextId) (h : lookup st.tasks id = none) :
    lookup (body cfg clock op pre st).st.tasks id = none := by
  by_cases hrm : ∃ i, op = .removeTask i
  · obtain ⟨i, rfl⟩ := hrm
    simp only [body]
    cases hl : lookup st.tasks i with
    | none => exact h
    | some x =>
      simp only
      by_cases hi : id = i
      · subst hi; exact lookup_filter_self
      · rw [lookup_filter_other hi]; exact h
  · have hr : ∀ i, op ≠ .removeTask i := fun i hi => hrm ⟨i, hi⟩
    cases htg : op.target with
    | none =>
      cases op with
      | addTask a =>
        simp only [body]
        rw [lookup_append_new (by intro x hx; exact hwf x hx)]
        simp only
        rw [if_neg (by omega)]; exact h
      | refresh => exact h
      | start => simp only [body]; split <;> exact h
      | stop => simp only [body]; split <;> exact h
      | removeTask i => exact absurd rfl (hr i)
      | startTask i => simp [Op.target] at htg
      | stopTask i => simp [Op.target] at htg
      | update i u => simp [Op.target] at htg
      | reset i => simp [Op.target] at htg
      | advance i a => simp [Op.target] at htg
    | some j =>
      rw [body_target cfg clock op pre st j htg hr]
      cases hl : lookup st.tasks j with
      | none => exact h
      | some x =>
        simp only
        have hxj := (lookup_some hl).2
        by_cases hj : id = j
        · subst hj; rw [hl] at h; cases h
        · rw [lookup_setTask_other (by rw [taskEffect_id]; exact hxj) hj]; exact h

theorem body_WF (cfg : Cfg) (clock : Clock) (op : Op) (pre : Option Int) (st : State) (hwf : WF st) :
    WF (body cfg clock op pre st).st ∧ st.nextId ≤ (body cfg clock op pre st).st.nextId := by
  by_cases hrm : ∃ i, op = .removeTask i
  · obtain ⟨i, rfl⟩ := hrm
    simp only [body]
    cases hl : lookup st.tasks i with
    | none => exact ⟨hwf, Nat.le_refl _⟩
    | some x =>
      refine ⟨?_, Nat.le_refl _⟩
      intro t ht
      simp only at ht
      exact hwf t (List.mem_filter.mp ht).1
  · have hr : ∀ i, op ≠ .removeTask i := fun i hi => hrm ⟨i, hi⟩
    cases htg : op.target with
    | none =>
      cases op with
      | addTask a =>
        simp only [body]
        refine ⟨?_, Nat.le_succ _⟩
        intro t ht
        simp only [List.mem_append, List.mem_singleton] at ht
        rcases ht with ht | rfl
        · exact Nat.lt_succ_of_lt (hwf t ht)
        · exact Nat.lt_succ_self _
      | refresh => exact ⟨hwf, Nat.le_refl _⟩
      | start => simp only [body]; split <;> exact ⟨hwf, Nat.le_refl _⟩
      | stop => simp only [body]; split <;> exact ⟨hwf, Nat.le_refl _⟩
      | removeTask i => exact absurd rfl (hr i)
      | startTask i => simp [Op.target] at htg
      | stopTask i => simp [Op.target] at htg
      | update i u => simp [Op.target] at htg
      | reset i => simp [Op.target] at htg
      | advance i a => simp [Op.target] at htg
    | some j =>
      rw [body_target cfg clock op pre st j htg hr]
      cases hl : lookup st.tasks j with
      | none => exact ⟨hwf, Nat.le_refl _⟩
      | some x =>
        refine ⟨?_, Nat.le_refl _⟩
        intro t ht
        rcases mem_setTask ht with rfl | ⟨hm, _⟩
        · rw [taskEffect_id]; exact hwf x (lookup_some hl).1
        · exact hwf t hm

theorem preRead_WF (cfg : Cfg) (clock : Clock) (op : Op) (st : State) (hwf : WF st) :
    WF (preRead cfg clock op st).2 := by
  have := preRead_tasks cfg clock op st
  intro t ht
  rw [this.1] at ht; rw [this.2.1]; exact hwf t ht

theorem step_WF (cfg : Cfg) (clock : Clock) (op : Op) (st : State) (hwf : WF st) :
    WF (step cfg clock op st).st ∧ st.nextId ≤ (step cfg clock op st).st.nextId := by
  have h := body_WF cfg clock op (preRead cfg clock op st).1 _ (preRead_WF cfg clock op st hwf)
  rw [(preRead_tasks cfg clock op st).2.1] at h
  exact h

theorem run_WF (cfg : Cfg) (clock : Clock) (ops : List Op) (st : State) (hwf : WF st) :
    WF (run cfg clock ops st) := by
  induction ops generalizing st with
  | nil => exact hwf
  | cons op ops ih => exact ih _ (step_WF cfg clock op st hwf).1

/-- the task as one sequential operation leaves it -/
def taskAfter (cfg : Cfg) (clock : Clock) (op : Op) (st : State) (id : Nat) (t : Task) : Task :=
  (taskEffect cfg clock op (preRead cfg clock op st).1 (visCount (st.tasks.filter (fun x => x.id != id))) t (preRead cfg clock op st).2.clk).1

/-- **Frame lemma for `step`.** -/
theorem step_lookup (cfg : Cfg) (clock : Clock) (op : Op) (st : State) (hwf : WF st)
    (id : Nat) (t : Task) (h : lookup st.tasks id = some t) :
    (op = .removeTask id ∧ lookup (step cfg clock op st).st.tasks id = none) ∨
    (op.target = some id ∧ (∀ i, op ≠ .removeTask i) ∧
      lookup (step cfg clock op st).st.tasks id = some (taskAfter cfg clock op st id t) ∧
      (step cfg clock op st).err = none) ∨
    (op.target ≠ some id ∧ lookup (step cfg clock op st).st.tasks id = some t) := by
  have hp := preRead_tasks cfg clock op st
  have := body_lookup cfg clock op (preRead cfg clock op st).1 _ (preRead_WF cfg clock op st hwf) id t
    (by rw [hp.1]; exact h)
  rw [hp.1] at this
  exact this

theorem step_lookup_none (cfg : Cfg) (clock : Clock) (op : Op) (st : State) (hwf : WF st)
    (id : Nat) (hlt : id < st.nextId) (h : lookup st.tasks id = none) :
    lookup (step cfg clock op st).st.tasks id = none := by
  have hp := preRead_tasks cfg clock op st
  exact body_lookup_none cfg clock op (preRead cfg clock op st).1 _ (preRead_WF cfg clock op st hwf) id
    (by rw [hp.2.1]; exact hlt) (by rw [hp.1]; exact h)

theorem run_lookup_none (cfg : Cfg) (clock : Clock) (ops : List Op) (st : State) (hwf : WF st)
    (id : Nat) (hlt : id < st.nextId) (h : lookup st.tasks id = none) :
    lookup (run cfg clock ops st).tasks id = none := by
  induction ops generalizing st with
  | nil => exact h
  | cons op ops ih =>
    have hs := step_WF cfg clock op st hwf
    exact ih _ hs.1 (Nat.lt_of_lt_of_le hlt hs.2) (step_lookup_none cfg clock op st hwf id hlt h)

/-! ## task ids: strictly increasing in table order, never reused -/

/-- ids in `_tasks` (insertion order) are strictly increasing — in particular pairwise distinct -/
def IdsSorted (st : State) : Prop := List.Pairwise (fun a b : Task => a.id < b.id) st.tasks

theorem IdsSorted_empty : IdsSorted State.empty := List.Pairwise.nil

theorem setTask_idsSorted {id : Nat} {r : Task} {l : List Task} (hr : r.id = id)
    (h : List.Pairwise (fun a b : Task => a.id < b.id) l) :
    List.Pairwise (fun a b : Task => a.id < b.id) (setTask id r l) := by
  unfold setTask
  rw [List.pairwise_map]
  refine List.Pairwise.imp ?_ h
  intro a b hab
  have ha : (if a.id = id then r else a).id = a.id := by split <;> simp_all
  have hb : (if b.id = id then r else b).id = b.id := by split <;> simp_all
  rw [ha, hb]; exact hab

theorem body_idsSorted (cfg : Cfg) (clock : Clock) (op : Op) (pre : Option Int) (st : State) (hwf : WF st)
    (h : IdsSorted st) : IdsSorted (body cfg clock op pre st).st := by
  unfold IdsSorted at *
  by_cases hrm : ∃ i, op = .removeTask i
  · obtain ⟨i, rfl⟩ := hrm
    simp only [body]
    cases hl : lookup st.tasks i with
    | none => exact h
    | some x => exact List.Pairwise.sublist List.filter_sublist h
  · have hr : ∀ i, op ≠ .removeTask i := fun i hi => hrm ⟨i, hi⟩
    cases htg : op.target with
    | none =>
      cases op with
      | addTask a =>
        simp only [body]
        rw [List.pairwise_append]
        refine ⟨h, List.pairwise_singleton _ _, ?_⟩
        intro x hx y hy
        simp only [List.mem_singleton] at hy; subst hy
        exact hwf x hx
      | refresh => exact h
      | start => simp only [body]; split <;> exact h
      | stop => simp only [body]; split <;> exact h
      | removeTask i => exact absurd rfl (hr i)
      | startTask i => simp [Op.target] at htg
      | stopTask i => simp [Op.target] at htg
      | update i u => simp [Op.target] at htg
      | reset i => simp [Op.target] at htg
      | advance i a => simp [Op.target] at htg
    | some j =>
      rw [body_target cfg clock op pre st j htg hr]
      cases hl : lookup st.tasks j with
      | none => exact h
      | some x => exact setTask_idsSorted (by rw [taskEffect_id]; exact (lookup_some hl).2) h

theorem run_idsSorted (cfg : Cfg) (clock : Clock) (ops : List Op) (st : State) (hwf : WF st)
    (h : IdsSorted st) : IdsSorted (run cfg clock ops st) := by
  induction ops generalizing st with
  | nil => exact h
  | cons op ops ih =>
    refine ih _ (step_WF cfg clock op st hwf).1 ?_
    have hp := preRead_tasks cfg clock op st
    exact body_idsSorted cfg clock op _ _ (preRead_WF cfg clock op st hwf) (by unfold IdsSorted; rw [hp.1]; exact h)

end RichModel.Progress
