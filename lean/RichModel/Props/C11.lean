import RichModel.Lemmas.ConcDeadlock
import RichModel.Lemmas.ConcOut
import RichModel.Lemmas.ConcRecord
import RichModel.Lemmas.ConcStable
import RichModel.Lemmas.ConcCount
/-!
# C11 — Console output is thread-safe under every interleaving

Property theorems only.  The model is `Model/Conc.lean`: any number of threads, each running any program
over {print/log, capture, export (clearing or not), update(+refresh), refresh, start, stop, advance} on one
console with a Live or Progress display (or none); a schedule is any list of thread ids; one step = one atomic action (a lock
operation, one access to the shared display / hook list / record, one `file.write`, or a thread-local
statement).  All theorems quantify over **every** schedule, every number of threads, every program.

`Reach cfg sh progs s`: `s` is reached by some schedule from the state where the threads
`0 … progs.length - 1` are about to start their programs, no lock is held and nothing is written yet.

Locks nest in one order only: `live` (Live._lock / Progress._lock) < `console` (Console._lock) <
`record` (Console._record_buffer_lock) — `lock_order_acyclic`.

Finding F22 (print computes its erase sequence before another thread changes the frame height): no small
repair exists, so `live_screen_under_schedules_partial` is stated for sessions whose frames all have one
height, and `old_print_vs_taller_refresh_breaks_screen` is the machine-checked witness schedule for the
general statement (kept visible below).

One variant flag, `Cfg.stopTailUnlocked` (harness constant `STOP_TAIL_UNLOCKED`, value 1): `true` = the
`Progress.stop` of rich 9.10.0 as found, which /repo still has (known finding `progress-stop-tail-vs-start`, not
repaired); `old_progress_stop_tail_races_start` is its witness schedule.  Every other theorem is stated for
an arbitrary `cfg`, i.e. for both values of the flag.

Round 4 additions: the operation `Op.proxyPrint` (a `write()` on the redirected `sys.stdout` / `sys.stderr` that completes lines:
`with console: console.print(lines)`) is part of the program type, so every theorem below covers threads that write through the
`FileProxy` of a running display (in `StableOp` too: the screen theorem covers them); `write_calls_per_operation` /
`at_most_one_write_call_per_print` (the number of `file.write` CALLS, not only where the pieces end up).

20 theorems: `write_calls_per_operation`, `at_most_one_write_call_per_print`, `reach_inv`, `reach_out` (invariants); `lock_order_acyclic`, `no_deadlock`, `no_internal_error`,
`write_mutual_exclusion`; `write_own_output_only`, `output_exactly_once`, `finished_thread_flushed`,
`write_per_print`, `capture_isolated`; `record_order_eq_file_order`, `exports_partition_the_record`,
`export_reads_a_stable_record`, `record_eq_file_when_quiet`; `live_screen_under_schedules_partial`; the two
witnesses `old_print_vs_taller_refresh_breaks_screen`, `old_progress_stop_tail_races_start`.
-/
namespace RichModel.C11
open RichModel RichModel.Screen RichModel.Conc
open RichModel.Live (Line Frame Shown region shown_rows)

/-- `s` is reachable from the initial state by some schedule. -/
def Reach (cfg : Cfg) (sh : Shared) (progs : List (List Op)) (s : State) : Prop :=
  ∃ sched : List Nat, s = run cfg (initState sh progs) sched

/-- The shared state before any thread runs: no lock owned, nothing written. -/
structure Fresh (sh : Shared) : Prop where
  free : ∀ lk, sh.owner lk = none
  file : sh.file = []
  record : sh.record = []

theorem reach_inv {cfg : Cfg} {sh : Shared} {progs : List (List Op)} {s : State} (hf : Fresh sh)
    (hr : Reach cfg sh progs s) : Inv cfg s := by
  obtain ⟨sched, rfl⟩ := hr
  exact inv_run sched (inv_init sh progs hf.free)

theorem reach_out {cfg : Cfg} {sh : Shared} {progs : List (List Op)} {s : State} (hf : Fresh sh)
    (hr : Reach cfg sh progs s) : OutInv s := by
  obtain ⟨sched, rfl⟩ := hr
  exact out_run sched (inv_init sh progs hf.free) (out_init sh progs hf.file)

/-- **lock_order_acyclic.**  In every reachable state a thread that is about to acquire a lock either holds
that lock already (re-entrant) or holds only locks of strictly lower rank (live < console < record): the
lock acquisition graph has no cycle. -/
theorem lock_order_acyclic (cfg : Cfg) (sh : Shared) (progs : List (List Op)) (hf : Fresh sh) (s : State)
    (hr : Reach cfg sh progs s) (t : Nat) (g : Guard) (lk : Lock) (r : List GAct)
    (hc : (s.th t).cont = ⟨g, .acq lk⟩ :: r) (hg : guardOn cfg (s.th t).depth (s.th t).hooked g = true) :
    lk ∈ (s.th t).held ∨ ∀ h ∈ (s.th t).held, h.rank < lk.rank := by
  have hs := (reach_inv hf hr).sim t
  rw [hc] at hs
  obtain ⟨a', ha, _⟩ := sim_generic (act := .acq lk) rfl (by simpa [Local.abs] using hg) hs
  simp only [absAct] at ha
  split at ha
  · rename_i hcond
    rcases hcond with h | h
    · exact Or.inl h
    · exact Or.inr (fun x hx => by have := List.all_eq_true.mp h x hx; simpa using this)
  · simp at ha

/-- **no_deadlock.**  Under every schedule: as long as some thread has not finished its program, some
thread can perform a step (no state in which every unfinished thread waits for a lock). -/
theorem no_deadlock (cfg : Cfg) (sh : Shared) (progs : List (List Op)) (hf : Fresh sh) (s : State)
    (hr : Reach cfg sh progs s) (hun : ∃ t, (s.th t).done = false) : ∃ t, (stepT cfg s t).isSome = true :=
  progress (reach_inv hf hr) hun

/-- No thread ever performs an action Python would answer with an internal error (releasing a lock it does
not hold, leaving a buffer context it did not enter). -/
theorem no_internal_error (cfg : Cfg) (sh : Shared) (progs : List (List Op)) (hf : Fresh sh) (s : State)
    (hr : Reach cfg sh progs s) (t : Nat) : (s.th t).fault = false :=
  (reach_inv hf hr).nofault t

/-- **write_mutual_exclusion.**  Two threads that are both inside a flush (about to append to the record or
to call `file.write`) are the same thread: flushes never overlap. -/
theorem write_mutual_exclusion (cfg : Cfg) (sh : Shared) (progs : List (List Op)) (hf : Fresh sh) (s : State)
    (hr : Reach cfg sh progs s) (t u : Nat) (gt gu : Guard) (at_ au : Act) (rt ru : List GAct)
    (hat : at_ = .write ∨ at_ = .recAppend) (hau : au = .write ∨ au = .recAppend)
    (hct : (s.th t).cont = ⟨gt, at_⟩ :: rt) (hgt : guardOn cfg (s.th t).depth (s.th t).hooked gt = true)
    (hcu : (s.th u).cont = ⟨gu, au⟩ :: ru) (hgu : guardOn cfg (s.th u).depth (s.th u).hooked gu = true) : t = u := by
  have inv := reach_inv hf hr
  have key : ∀ (v : Nat) (g : Guard) (a : Act) (r : List GAct), (a = .write ∨ a = .recAppend) →
      (s.th v).cont = ⟨g, a⟩ :: r → guardOn cfg (s.th v).depth (s.th v).hooked g = true →
      s.sh.owner .console = some v := by
    intro v g a r ha hc hg
    have hs := inv.sim v
    rw [hc] at hs
    obtain ⟨f1, f2, _, _⟩ := sim_facts (a := (s.th v).abs) hg hs
    rcases ha with ha | ha
    · exact (inv.own .console v).mpr (f2 ha).1
    · exact (inv.own .console v).mpr (f1 ha).1
  have h1 := key t gt at_ rt hat hct hgt
  have h2 := key u gu au ru hau hcu hgu
  rw [h1] at h2
  exact Option.some.inj h2

/-- **write_per_print (1): a write is one thread's, one operation's.**  Every `file.write` call consists of
pieces produced by the writing thread during one and the same operation: the output of a print is never
interleaved with another thread's, and never merged with another call's. -/
theorem write_own_output_only (cfg : Cfg) (sh : Shared) (progs : List (List Op)) (hf : Fresh sh) (s : State)
    (hr : Reach cfg sh progs s) (w : Write) (hw : w ∈ s.sh.file) (x : Item) (hx : x ∈ w.items) :
    x.tid = w.tid ∧ x.op = w.op :=
  (reach_out hf hr).ownW w hw x hx

/-- **write_per_print (2): exactly once.**  Every non-empty piece of output a thread has produced (the
rendering of a print is one piece) is, at every moment of every schedule, in exactly one place exactly
once: in one `file.write` of that thread, in the result of one of that thread's capture blocks, or still in
that thread's buffer. -/
theorem output_exactly_once (cfg : Cfg) (sh : Shared) (progs : List (List Op)) (hf : Fresh sh) (s : State)
    (hr : Reach cfg sh progs s) (t : Nat) (x : Item) (hx : x ∈ (s.th t).emitted) (hne : nonEmpty x = true) :
    (written s t ++ capturedItems (s.th t) ++ (s.th t).buffer).count x = 1 := by
  have o := reach_out hf hr
  have hnodup : (s.th t).emitted.Nodup := by
    have : ((s.th t).emitted.map (·.seq)).Nodup := by rw [o.seqE t]; exact List.nodup_range
    exact nodup_of_map _ this
  have hperm := o.cons t
  have hc1 : ((s.th t).emitted.filter nonEmpty).count x = 1 := by
    rw [List.count_filter hne]
    exact count_eq_one hnodup hx
  have hc2 := hperm.count_eq x
  rw [hc1] at hc2
  rw [← hc2]
  rw [List.count_filter hne]

/-- **write_per_print (3): nothing is left behind.**  A thread that has finished its program has an empty
buffer: every non-empty piece it produced is in one of its writes or in one of its capture results. -/
theorem finished_thread_flushed (cfg : Cfg) (sh : Shared) (progs : List (List Op)) (hf : Fresh sh) (s : State)
    (hr : Reach cfg sh progs s) (t : Nat) (hd : (s.th t).done = true) : (s.th t).buffer = [] := by
  have inv := reach_inv hf hr
  have hc : (s.th t).cont = [] := by
    simp only [Local.done, Bool.and_eq_true, List.isEmpty_iff] at hd
    exact hd.1
  have hs := inv.sim t
  rw [hc] at hs
  simp only [Sim, Abs.final, Local.abs, Bool.and_eq_true, Bool.not_eq_true'] at hs
  exact inv.clean t hs.2

/-- **write_per_print.**  Under every schedule, once a thread has finished: every non-empty piece of output it
produced (the rendering of one print / log call is one piece) occurs exactly once in that thread's writes and
capture results together; and any `file.write` that contains it was issued by that thread and consists only
of pieces of that thread from the same operation — the print reached the file contiguously, in one write
call, once, unmixed. -/
theorem write_per_print (cfg : Cfg) (sh : Shared) (progs : List (List Op)) (hf : Fresh sh) (s : State)
    (hr : Reach cfg sh progs s) (t : Nat) (hd : (s.th t).done = true) (x : Item) (hx : x ∈ (s.th t).emitted)
    (hne : nonEmpty x = true) :
    (written s t ++ capturedItems (s.th t)).count x = 1 ∧
    ∀ w ∈ s.sh.file, x ∈ w.items → w.tid = t ∧ ∀ y ∈ w.items, y.tid = t ∧ y.op = x.op := by
  have o := reach_out hf hr
  have h1 := output_exactly_once cfg sh progs hf s hr t x hx hne
  rw [finished_thread_flushed cfg sh progs hf s hr t hd, List.append_nil] at h1
  refine ⟨h1, fun w hw hxw => ?_⟩
  have hxt : x.tid = t := o.ownE t x hx
  have hw1 := o.ownW w hw x hxw
  refine ⟨by rw [← hw1.1, hxt], fun y hy => ?_⟩
  have hw2 := o.ownW w hw y hy
  exact ⟨by rw [hw2.1, ← hw1.1, hxt], by rw [hw2.2, hw1.2]⟩

/-- **capture_isolated.**  What a capture block of thread `t` returns consists of pieces produced by `t`
only: it never contains a piece any other thread produced.  (And it never swallows one: every piece of
another thread `u` is accounted for, exactly once, in `u`'s own writes / captures / buffer —
`output_exactly_once`.) -/
theorem capture_isolated (cfg : Cfg) (sh : Shared) (progs : List (List Op)) (hf : Fresh sh) (s : State)
    (hr : Reach cfg sh progs s) (t : Nat) (c : List Item) (hc : c ∈ (s.th t).captured) (x : Item) (hx : x ∈ c) :
    x.tid = t ∧ ∀ u, u ≠ t → x ∉ (s.th u).emitted := by
  have o := reach_out hf hr
  refine ⟨o.ownC t c hc x hx, fun u hu hmem => ?_⟩
  have h1 := o.ownC t c hc x hx
  have h2 := o.ownE u x hmem
  omega

/-- **record_order_eq_file_order.**  With recording on, under every schedule — threads may call
`export_text` / `export_html` (clearing or not) at any time — what the clearing exports returned so far (in
the order of their critical sections) followed by the current record is, piece for piece and in the same
order, what is in the file; plus, while some thread is between its record append and its `file.write` (it
then holds the console lock), that thread's buffer at the end. -/
theorem record_order_eq_file_order (cfg : Cfg) (hrec : cfg.record = true) (sh : Shared) (progs : List (List Op))
    (hf : Fresh sh) (hx : sh.exports = []) (s : State) (hr : Reach cfg sh progs s) :
    (exportsItems s ++ s.sh.record).filter nonEmpty = (fileItems s ++ pend s).filter nonEmpty := by
  obtain ⟨sched, rfl⟩ := hr
  refine (rec_run hrec sched (inv_init sh progs hf.free) ⟨?_, ?_⟩).ri
  · simp [RecInv, initState, fileItems, pend, exportsItems, hf.file, hf.record, hf.free, hx]
  · exact ⟨fun t h => by simp [initState] at h, fun t h => by simp [initState] at h⟩

/-- **exports_partition_the_record.**  For every schedule, whenever no flush is in progress (the console lock
is free): the concatenation of what all clearing exports returned, plus the record as it is now, equals what
was written to the file, in file order — nothing is lost between an exporter's read and its clear, nothing
appears in two exports. -/
theorem exports_partition_the_record (cfg : Cfg) (hrec : cfg.record = true) (sh : Shared) (progs : List (List Op))
    (hf : Fresh sh) (hx : sh.exports = []) (s : State) (hr : Reach cfg sh progs s) (hq : s.sh.owner .console = none) :
    (s.sh.exports.flatMap (·.2) ++ s.sh.record).filter nonEmpty = (fileItems s).filter nonEmpty := by
  have := record_order_eq_file_order cfg hrec sh progs hf hx s hr
  simpa [pend, hq, exportsItems] using this

/-- A thread in the middle of an export holds the record lock and what it has read is still the record: no
print can slip in between an exporter's read and its clear. -/
theorem export_reads_a_stable_record (cfg : Cfg) (hrec : cfg.record = true) (sh : Shared) (progs : List (List Op))
    (hf : Fresh sh) (hx : sh.exports = []) (s : State) (hr : Reach cfg sh progs s) (t : Nat)
    (hxr : (s.th t).xread = true) : Lock.record ∈ (s.th t).held ∧ (s.th t).xcopy = s.sh.record := by
  obtain ⟨sched, rfl⟩ := hr
  have ra := rec_run hrec sched (inv_init sh progs hf.free)
    ⟨by simp [RecInv, initState, fileItems, pend, exportsItems, hf.file, hf.record, hf.free, hx],
     ⟨fun t h => by simp [initState] at h, fun t h => by simp [initState] at h⟩⟩
  exact ⟨ra.x.held t hxr, ra.x.copy t hxr⟩

/-- Without exports in the programs and whenever no flush is in progress the record *is* the file. -/
theorem record_eq_file_when_quiet (cfg : Cfg) (hrec : cfg.record = true) (sh : Shared) (progs : List (List Op))
    (hf : Fresh sh) (hx : sh.exports = []) (s : State) (hr : Reach cfg sh progs s) (hq : s.sh.owner .console = none)
    (hnone : s.sh.exports = []) :
    s.sh.record.filter nonEmpty = (fileItems s).filter nonEmpty := by
  have := exports_partition_the_record cfg hrec sh progs hf hx s hr hq
  simpa [hnone] using this

/-- A constant-height session: the display is installed, what it recorded and what it will render have `h`
rows, and the threads only print / log, refresh, and update to renderables of `h` rows (no thread starts
or stops the display). -/
structure ConstHeight (cfg : Cfg) (h : Nat) (sh : Shared) (progs : List (List Op)) : Prop where
  kind : cfg.kind = .live
  fits : h ≤ cfg.height
  screen : 1 ≤ cfg.height
  free : ∀ lk, sh.owner lk = none
  hooked : 0 < sh.hooks
  shape : ∃ w, sh.shape = some (w, h)
  rend : sh.renderable.length = h
  ops : ∀ t, ∀ op ∈ progs.getD t [], StableOp h op = true

/- FULL STATEMENT (not provable for the code in /repo, which is rich 9.10.0 as found in this respect: known findings
`live-print-vs-*`, not repaired — see the witness below): the same conclusion for every
session, i.e. without `ConstHeight.shape / rend / ops` (frames of any height, threads may start and stop
the display).  It fails because `Console.print` computes `position_cursor()` from `_shape` inside
`process_renderables`, renders, and writes later, outside the live lock; a write of another thread in
between that changes the displayed height makes the erase count stale.  A repair has to keep the live lock
from `process_renderables` until after `file.write` (the RenderHook API has no such bracket): not small. -/

/-- **live_screen_under_schedules_partial.**  Constant-height sessions, every schedule: replaying the file
in the order the writes reached it shows what was on the screen before (`P0`, then the frame `F0`), with
the lines printed since (in file order) appended to `P0`, followed by the frame of the last write — no
remnant of an older frame, no printed line erased.  This is C10's `live_screen` for the file order. -/
theorem live_screen_under_schedules_partial (cfg : Cfg) (h : Nat) (sh : Shared) (progs : List (List Op))
    (hc : ConstHeight cfg h sh progs) (P0 : List Line) (F0 : Frame) (k0 : Nat)
    (hshown : Shown (replay cfg.height Screen.init (writesOps sh.file)) P0 F0 k0) (hF0 : F0.length = h)
    (hroom : (region F0).length + k0 ≤ cfg.height) (sched : List Nat) :
    ∃ ws k, (run cfg (initState sh progs) sched).sh.file = sh.file ++ ws ∧
      (replay cfg.height Screen.init (fileOps (run cfg (initState sh progs) sched))).rows =
        P0 ++ printedOf ws ++ lastFrameOf F0 ws ++ List.replicate k [] := by
  have st0 : Stb h sh.file (initState sh progs) := by
    refine ⟨⟨hc.hooked, hc.shape, hc.rend⟩, fun t => ⟨?_, ?_, ?_⟩, ⟨[], by simp [initState], by simp⟩⟩
    · simp [initState, SimS, absS, kinds]
    · intro x hx; simp [initState] at hx
    · exact hc.ops t
  obtain ⟨ws, hfile, hgood⟩ := (stb_run hc.kind hc.fits sched st0).file
  obtain ⟨k', hs, _, _⟩ := screen_of_writes hc.screen hc.fits ws _ P0 F0 k0 hgood hshown hF0 hroom
  obtain ⟨k, hrows⟩ := shown_rows hs
  refine ⟨ws, k, hfile, ?_⟩
  have : fileOps (run cfg (initState sh progs) sched) = writesOps sh.file ++ writesOps ws := by
    simp only [fileOps, writesOps, hfile, List.flatMap_append]
  rw [this, replay_append]
  exact hrows

/-! ## Witness: the general statement fails for the code in /repo (finding F22 = known findings `live-print-vs-*`, not repaired) -/

def cfgW : Cfg := { kind := .live, width := 20, height := 8, record := false, transient := false }

/-- thread 0 starts and refreshes a 2-line display; thread 1 prints `a`; thread 2 updates to 4 lines and refreshes -/
def progsW : List (List Op) :=
  [[.start, .refresh], [.print [['a']]], [.update [['H', '1'], ['H', '2'], ['H', '3'], ['H', '4']] true]]

def shW : Shared := { renderable := [['G', '1'], ['G', '2']] }

/-- Thread 0 runs to completion; thread 1 performs six steps (load, enter, read the hook list, take the live
lock, `position_cursor()` = erase 2 rows, release); thread 2 runs to completion (the frame on screen now has
4 rows); thread 1 finishes (renders the 4-row frame, writes). -/
def schedW : List Nat := List.replicate 60 0 ++ List.replicate 6 1 ++ List.replicate 60 2 ++ List.replicate 40 1

set_option maxRecDepth 100000 in
/-- **F22.**  Under `schedW` the delayed write erases only 2 of the 4 rows on display: the screen ends as
`H1 H2 | a | H1 H2 H3 H4` — a remnant of the old frame above the printed line — although every thread has
finished and the file order says: printed `a`, last frame `H1 … H4`. -/
theorem old_print_vs_taller_refresh_breaks_screen :
    let s := run cfgW (initState shW progsW) schedW
    (replay 8 Screen.init (fileOps s)).rows =
      [['H', '1'], ['H', '2'], ['a'], ['H', '1'], ['H', '2'], ['H', '3'], ['H', '4']] ∧
    printedOf s.sh.file = [['a']] ∧
    lastFrameOf [] s.sh.file = [['H', '1'], ['H', '2'], ['H', '3'], ['H', '4']] ∧
    ((List.range 3).all fun t => (s.th t).done) = true := by
  decide

set_option maxRecDepth 100000 in
/-- The same threads under a schedule without that preemption: the screen is right. -/
example :
    (replay 8 Screen.init (fileOps (run cfgW (initState shW progsW)
        (List.replicate 60 0 ++ List.replicate 60 1 ++ List.replicate 60 2)))).rows =
      [['a'], ['H', '1'], ['H', '2'], ['H', '3'], ['H', '4']] := by
  decide

/-! ## Witness: `Progress.stop` finishes outside its lock (known finding `progress-stop-tail-vs-start`, not repaired: /repo still does this) -/

def cfgP (tailUnlocked : Bool) : Cfg :=
  { kind := .progress, width := 20, height := 8, record := false, transient := true, stopTailUnlocked := tailUnlocked }

def shP : Shared :=
  { tasks := [{ id := 0, desc := ['a'], completed := 0, total := 9, visible := true }],
    renderable := Live.tasksTable cw1 [{ id := 0, desc := ['a'], completed := 0, total := 9, visible := true }] }

/-- thread 0 starts and stops a transient Progress, thread 1 calls `start()` -/
def progsP : List (List Op) := [[.start, .stop], [.start]]

/-- thread 0 runs until `stop()` has released the progress lock (82 steps), thread 1 runs `start()` to completion,
thread 0 finishes `stop()` (transient erase, `_shape = None`), thread 1 gets further turns (it has none left to use). -/
def schedP : List Nat := List.replicate 82 0 ++ List.replicate 80 1 ++ List.replicate 20 0 ++ List.replicate 80 1

set_option maxRecDepth 100000 in
/-- The code in /repo (`stopTailUnlocked = true`, as in rich 9.10.0 as found; known finding `progress-stop-tail-vs-start`): the restarted display is drawn on the row below the one `stop()` then
erases, and `stop()`'s late `_shape = None` makes the display forget the frame it has on screen — the screen ends as a
blank row followed by the frame, with no recorded shape although the display is started. -/
theorem old_progress_stop_tail_races_start :
    let s := run (cfgP true) (initState shP progsP) schedP
    (replay 8 Screen.init (fileOps s)).rows = [[], ['a', ' ', '0', '/', '9']] ∧ s.sh.shape = none ∧ s.sh.started = true ∧
      ((List.range 2).all fun t => (s.th t).done) = true := by
  decide

set_option maxRecDepth 100000 in
/-- The repaired `stop()` (erase and reset before the lock is released), same schedule: thread 1 waits for the lock,
the old display is gone before the new one is drawn, and the shape of the frame on screen is recorded. -/
example :
    let s := run (cfgP false) (initState shP progsP) schedP
    (replay 8 Screen.init (fileOps s)).rows = [['a', ' ', '0', '/', '9'], []] ∧ s.sh.shape = some (5, 1) ∧ s.sh.started = true ∧
      ((List.range 2).all fun t => (s.th t).done) = true := by
  decide

/-! ## Exports under schedules: a concrete run -/

set_option maxRecDepth 100000 in
/-- Two printing threads and a thread exporting twice with `clear=True`; the first export is preempted between its
read and its clear while thread 2 prints `c` (which therefore has to wait for the record lock): the two exports and the
final record partition the three writes. -/
example :
    let cfg : Cfg := { kind := .none, width := 20, height := 8, record := true, transient := false }
    let s := run cfg (initState {} [[.print [['a']], .print [['b']]], [.export true, .export true], [.print [['c']]]])
      (List.replicate 14 0 ++ List.replicate 3 1 ++ List.replicate 20 2 ++ List.replicate 2 1 ++ List.replicate 20 2 ++ List.replicate 20 0 ++ List.replicate 10 1)
    (s.sh.exports.map (fun e => (e.1, itemsOps e.2))) = [(1, [.text ['a'], .lf]), (1, [.text ['c'], .lf, .text ['b'], .lf])] ∧
      s.sh.record = [] ∧ itemsOps (fileItems s) = [.text ['a'], .lf, .text ['c'], .lf, .text ['b'], .lf] := by
  decide

/-! ## The number of `file.write` calls (round 4) -/

/-- **write_calls_per_operation.**  Under every schedule, at every moment: the number of `file.write` calls thread `t` has
issued during its `i`-th operation is at most the number of `file.write` statements in the code of that operation
(0 for an operation that has not started or does not exist). -/
theorem write_calls_per_operation (cfg : Cfg) (sh : Shared) (progs : List (List Op)) (hf : Fresh sh) (s : State)
    (hr : Reach cfg sh progs s) (t i : Nat) : writesOf s t i ≤ budget cfg progs t i := by
  obtain ⟨sched, rfl⟩ := hr
  have h := (wc_run sched (wc_init cfg sh progs hf.file)).cnt t i
  split at h <;> split at h <;> omega

/-- **at_most_one_write_call_per_print.**  A `print` / `log` — with or without a display, whatever the other threads do —
issues at most one `file.write` call.  (Together with `write_per_print`: the one non-empty piece the print rendered is in
exactly one write of that thread; so a finished print with non-empty output made exactly one call.) -/
theorem at_most_one_write_call_per_print (cfg : Cfg) (sh : Shared) (progs : List (List Op)) (hf : Fresh sh) (s : State)
    (hr : Reach cfg sh progs s) (t i : Nat) (ls : List Line) (hop : opAt progs t i = some (.print ls)) :
    writesOf s t i ≤ 1 := by
  have h := write_calls_per_operation cfg sh progs hf s hr t i
  simpa [budget, hop, nWrites_print] using h

set_option maxRecDepth 100000 in
/-- Two printing threads under a display-less console, alternating step by step: each print made exactly one call. -/
example :
    let cfg : Cfg := { kind := .none, width := 20, height := 8, record := true, transient := false }
    let progs : List (List Op) := [[.print [['a']], .print [['b']]], [.print [['c']]]]
    let s := run cfg (initState {} progs) ((List.range 120).map (· % 2))
    opAt progs 0 1 = some (.print [['b']]) ∧ writesOf s 0 0 = 1 ∧ writesOf s 0 1 = 1 ∧ writesOf s 1 0 = 1 ∧ writesOf s 1 1 = 0 := by
  decide

set_option maxRecDepth 100000 in
/-- Nested capture blocks at different buffer offsets in two threads (`Op.nested`: the inner block starts with a non-empty
buffer; thread 1 first runs a plain capture, so its blocks start at other offsets), alternating step by step: every block
returns its own thread's pieces only — the instance of `capture_isolated` for the nested op type. -/
example :
    let cfg : Cfg := { kind := .none, width := 20, height := 8, record := false, transient := false }
    let progs : List (List Op) := [[.nested [['a']] [['b']] [['c']]], [.capture [[['x']], [['y']]], .nested [['p'], ['q']] [['r']] [['s']]]]
    let s := run cfg (initState {} progs) ((List.range 400).map (· % 2))
    (s.th 0).captured.map itemsOps = [[.text ['b'], .lf], [.text ['a'], .lf, .text ['c'], .lf]] ∧
    (s.th 1).captured.map itemsOps = [[.text ['x'], .lf, .text ['y'], .lf], [.text ['r'], .lf],
        [.text ['p'], .lf, .text ['q'], .lf, .text ['s'], .lf]] ∧ s.sh.file = [] := by
  decide

/-! ## Non-vacuity -/

/-- A constant-height session that meets every hypothesis of `live_screen_under_schedules_partial`: the
display shows `G1 G2` (state after `start; refresh`), three threads print, refresh and update to another
2-line frame. -/
def shC : Shared :=
  { renderable := [['G', '1'], ['G', '2']], shape := some (2, 2), hooks := 1, started := true,
    file := [⟨0, 0, [⟨0, 0, 0, .ctl [.hideCursor] true⟩]⟩,
             ⟨0, 1, [⟨0, 1, 1, .pos none⟩, ⟨0, 1, 2, .ctl [] true⟩, ⟨0, 1, 3, .frame [['G', '1'], ['G', '2']]⟩]⟩] }

def progsC : List (List Op) :=
  [[.print [['a']], .refresh], [.update [['H', '1'], ['H', '2']] true], [.print [['b'], ['c']]]]

example : ConstHeight cfgW 2 shC progsC := by
  refine ⟨rfl, by decide, by decide, fun _ => rfl, by decide, ⟨2, rfl⟩, rfl, ?_⟩
  intro t op hop
  match t with
  | 0 | 1 | 2 => revert op; decide
  | n + 3 => simp [progsC] at hop

example : Shown (replay cfgW.height Screen.init (writesOps shC.file)) [] [['G', '1'], ['G', '2']] 0 :=
  ⟨by decide, by decide, by decide⟩

set_option maxRecDepth 100000 in
/-- …and one of its schedules, with the screen the theorem predicts. -/
example :
    (replay 8 Screen.init (fileOps (run cfgW (initState shC progsC)
        (List.replicate 6 0 ++ List.replicate 40 2 ++ List.replicate 12 1 ++ List.replicate 80 1 ++ List.replicate 80 0)))).rows =
      [['b'], ['c'], ['a'], ['H', '1'], ['H', '2']] := by
  decide

/-- Programs with captures, recording on, three threads: the hypotheses of the general theorems (`Fresh`)
are met by the default shared state. -/
example : Fresh ({} : Shared) := ⟨fun _ => rfl, rfl, rfl⟩

set_option maxRecDepth 100000 in
/-- Two threads write whole lines through the redirected `sys.stdout` under a running Live (state after `start; refresh`),
alternating step by step: one `file.write` call each, each consisting of that thread's pieces only. -/
example :
    let progs : List (List Op) := [[.proxyPrint [['a', 'a', 'a']]], [.proxyPrint [['b', 'b', 'b']]]]
    let s := run cfgW (initState shC progs) ((List.range 200).map (· % 2))
    (s.sh.file.drop 2).map (fun w => (w.tid, w.items.map (·.tid))) = [(1, [1, 1, 1]), (0, [0, 0, 0])] ∨
    (s.sh.file.drop 2).map (fun w => (w.tid, w.items.map (·.tid))) = [(0, [0, 0, 0]), (1, [1, 1, 1])] := by
  decide

end RichModel.C11
