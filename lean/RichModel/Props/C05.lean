import RichModel.Lemmas.TextHistory
import RichModel.Lemmas.TextJoin
import RichModel.Lemmas.TextRender
import RichModel.Gen.CellWidths
/-!
# C05 — Text editing operations keep characters and styles attached

Property theorems only (helper lemmas live in `Lemmas/Text*.lean`).  All statements are about the
model `Model/Text.lean` in its **repaired** variant (`Variant.repaired`); for each of the six defects
of rich 9.10.0 the `old_…` theorems show the released variant violating the statement at a concrete
input, next to an `example` that the repaired variant meets it there.

Reference semantics: `Text.view t : List (Char × List σ)` — every character with the list of style
names applied to it, base style first, then the covering spans in span order (free monoid of style
names: any re-ordering, loss or gain of a style is visible; interpret in rich's `Style` algebra
afterwards).  No theorem bounds the length of the strings, the number of spans or of operations.

Not proved here (modelled, compared with rich on every run, evaluated directly on rich; the statements
are the open obligations of this property):
* `divide_view` : `Inv t → sorted offsets ≤ len →
    (divide repaired t offs).map view = pieces of `view t` between consecutive offsets` (and with it
  `split`, `text[a:b]`, `expand_tabs`); `assemble_view` (the invariant is proved, `inv_assemble`);
* `truncate_view`/`align_view`/`rstrip_view` (instances of `setPlain_view` below once the string function
  is unfolded).
-/
namespace RichModel.C05
open RichModel RichModel.Text

variable {σ : Type}

/-! ## generated table -/

/-- the control codes stripped on the way in are the four documented ones (re-checked against
`rich/control.py` on every run) -/
theorem strip_codes_documented : Gen.stripControlCodes = [8, 11, 12, 13] := by decide

/-! ## the invariant over histories -/

/-- `Text(text, style, spans=…)`: `len()` is the length of the (control-stripped) string, for every
string — including those made only of stripped characters — and every span set inside the text. -/
theorem inv_init (text : List Char) (style : σ) (spans : List (Span σ)) (j : Option Justify) (o : Option Overflow)
    (nw : Option Bool) (e : List Char) (ts : Option Nat)
    (hs : SpansIn spans ((stripControl text).length : Int)) :
    Inv (Text.new Variant.repaired text style spans j o nw e ts) :=
  inv_new text style spans j o nw e ts hs

/-- F1: on the released constructor `Text("a\rb")` has `len() = 3` for the two characters `"ab"`. -/
theorem old_inv_init_fails :
    ¬ Inv (Text.new Variant.released ['a', '\r', 'b'] (0 : Nat)) := by
  intro h
  have := h.1
  revert this
  decide

example : Inv (Text.new Variant.repaired ['a', '\r', 'b'] (0 : Nat)) :=
  inv_init _ _ _ _ _ _ _ _ (by intro sp h; simp at h)

/-- every operation keeps `len() = len(plain)`, the spans inside the text and not inverted -/
theorem inv_step (null : σ) (t t' : Text σ) (op : Op σ) (h : Inv t) (hp : op.Pre t)
    (hs : step null t op = .ok t') : Inv t' :=
  Text.inv_step null t t' op h hp hs

/-- …hence so does every history of operations, of any length -/
theorem inv_history (null : σ) (ops : List (Op σ)) (t t' : Text σ) (h : Inv t) (hp : HistPre null t ops)
    (hr : run null t ops = .ok t') : Inv t' :=
  inv_run null ops t t' h hp hr

/-- inside its domain no operation raises -/
theorem step_total (null : σ) (t : Text σ) (op : Op σ) (h : Inv t) (hp : op.Pre t) :
    ∃ t', step null t op = .ok t' :=
  step_ok null t op h hp

/-- `len()` is the number of characters the text shows -/
theorem len_eq_view_length (t : Text σ) (h : Inv t) : t.length = (t.view.length : Int) := by
  rw [view_eq_annot, annot_length]; exact h.1

/-- a concrete history inside the domain (hypotheses of `inv_history` are satisfiable) -/
example : HistPre (0 : Nat) (Text.new Variant.repaired ['a', '\r', 'b'] 5)
    [.appendStr ['x', '\x08'] (some 1), .stylize 2 (-7) none, .padLeft 2 ' ', .rightCrop 0, .setLength 9, .index 3] := by
  refine ⟨trivial, fun _ _ => ⟨trivial, fun _ _ => ⟨noCtl_space, fun _ _ => ⟨trivial, fun _ _ => ⟨trivial, fun t' ht' => ⟨?_, fun _ _ => trivial⟩⟩⟩⟩⟩⟩
  rename_i t1 h1 t2 h2 t3 h3 t4 h4
  cases h1; cases h2; cases h3; cases h4; cases ht'
  show (3 : Nat) < _
  decide

/-! ## what `render()` shows is the reference semantics -/

/-- **`render` = `view`.**  For every consistent text — any length, any number of spans, nested,
overlapping, duplicated or empty — `Text.render` (event sort + style-id stack, as written) raises
nothing, and the characters it emits, each with the style names combined for it in combination order,
are exactly `view t`: every character once, in order, under the base style and then the spans covering
it in span order ("later spans win").  So every `…_view` theorem below is a statement about the
Segment stream a console receives. -/
theorem render_view (t : Text σ) (h : Inv t) :
    ∃ segs, t.render [] = .ok segs ∧ segStream segs = t.view :=
  render_view_aux t h

example : (Text.render (Text.new Variant.repaired ['a', 'b', 'c'] (9 : Nat) [⟨0, 2, 1⟩, ⟨1, 3, 2⟩, ⟨0, 2, 1⟩])).map segStream
    = .ok [('a', [9, 1, 1]), ('b', [9, 1, 2, 1]), ('c', [9, 2])] := by
  rfl

/-! ## per-operation refinement: characters, order, effective style of every survivor -/

/-- construction: the stripped characters, each under the base style and the spans covering it -/
theorem new_view (v : Variant) (text : List Char) (style : σ) (spans : List (Span σ)) :
    (Text.new v text style spans).view = annot (stripControl text) (fun i => style :: spanIds spans i) 0 :=
  view_new v text style spans _ _ _ _ _

/-- `copy()` is an exact copy -/
theorem copy_view (t : Text σ) (h : Inv t) : t.copy Variant.repaired = t := copy_eq_self t h

/-- `append(str, style)` -/
theorem append_str_view (t : Text σ) (s : List Char) (st : Option σ) (h : Inv t) :
    (t.appendStr s st).view = t.view ++ (stripControl s).map (fun c => (c, t.style :: st.toList)) :=
  view_appendStr t s st h

/-- `append(Text)` / `append_text`: the operand's characters keep their effective styles, placed under
this text's base style; nothing already present moves -/
theorem append_text_view (t u : Text σ) (h : Inv t) (hu : Inv u) :
    (t.appendText u).view = t.view ++ u.view.map (fun p => (p.1, t.style :: p.2)) ∧
    (t.appendT u).view = t.view ++ u.view.map (fun p => (p.1, t.style :: p.2)) :=
  ⟨view_appendText t u h hu, view_appendT t u h hu⟩

/-- `sep.join(lines)` keeps the invariant -/
theorem inv_join (sep : Text σ) (lines : List (Text σ)) (hsep : Inv sep) (hl : ∀ x ∈ lines, Inv x) :
    Inv (sep.join Variant.repaired lines) :=
  Text.inv_join sep lines hsep hl

/-- `sep.join(lines)`: the elements in order (with `sep` between them when it is non-empty), every
character keeping its effective style, placed under `sep`'s base style -/
theorem join_view (sep : Text σ) (lines : List (Text σ)) (hsep : Inv sep) (hl : ∀ x ∈ lines, Inv x) :
    (sep.join Variant.repaired lines).view =
      (joinSeq sep lines).flatMap (fun x => x.view.map (fun p => (p.1, sep.style :: p.2))) :=
  view_join sep lines hsep hl

/-- `Text.assemble(*parts)` keeps the invariant -/
theorem inv_assemble (parts : List (Part σ)) (style : σ) (j : Option Justify) (o : Option Overflow)
    (nw : Option Bool) (e : List Char) (ts : Option Nat)
    (hp : ∀ p ∈ parts, match p with | .txt u => Inv u | _ => True) :
    Inv (assemble Variant.repaired parts style j o nw e ts) :=
  Text.inv_assemble parts style j o nw e ts hp

example : (Text.join Variant.repaired (Text.new Variant.repaired [','] (7 : Nat))
    [Text.new Variant.repaired ['a'] 1 [⟨0, 1, 2⟩], Text.new Variant.repaired ['b'] 3]).view
    = [('a', [7, 1, 2]), (',', [7, 7]), ('b', [7, 3])] := by
  rfl

/-- the `plain` setter (and with it `truncate`, `rstrip`, `pad*`): position `i` shows the new
character with what was attached to position `i` -/
theorem set_plain_view (t : Text σ) (s : List Char) (h : Inv t) :
    (t.setPlain s).view = annot s t.effStyle 0 :=
  view_setPlain t s h

theorem pad_right_view (t : Text σ) (n : Nat) (ch : Char) (h : Inv t) :
    (t.padRight (n : Int) ch).view = t.view ++ List.replicate n (ch, [t.style]) :=
  view_padRight t n ch h

theorem pad_left_view (t : Text σ) (n : Nat) (ch : Char) (h : Inv t) :
    (t.padLeft (n : Int) ch).view = List.replicate n (ch, [t.style]) ++ t.view :=
  view_padLeft t n ch h

/-- `right_crop(a)` for **every** `a ≥ 0`: `a = 0` changes nothing, `a ≥ len` leaves the empty text -/
theorem right_crop_view (t : Text σ) (a : Nat) :
    (t.rightCrop Variant.repaired (a : Int)).view = t.view.take (t.plain.length - a) :=
  view_rightCrop t a

/-- `right_crop(0)` erases the released text and leaves `len()` at 3. -/
theorem old_right_crop_zero :
    (Text.rightCrop Variant.released (Text.new Variant.released ['a', 'b', 'c'] (0 : Nat)) 0).plain = [] ∧
    (Text.rightCrop Variant.released (Text.new Variant.released ['a', 'b', 'c'] (0 : Nat)) 0).length = 3 := by
  decide

/-- `right_crop(5)` of a two-character text leaves `_length = -3` (`len()` raises). -/
theorem old_right_crop_beyond :
    (Text.rightCrop Variant.released (Text.new Variant.released ['a', 'b'] (0 : Nat)) 5).length = -3 := by decide

example : (Text.rightCrop Variant.repaired (Text.new Variant.repaired ['a', 'b', 'c'] (0 : Nat)) 0).plain = ['a', 'b', 'c'] := by
  decide

theorem set_length_view (t : Text σ) (n : Nat) (h : Inv t) :
    (t.setLength Variant.repaired (n : Int)).view =
      t.view.take n ++ List.replicate (n - t.plain.length) (' ', [t.style]) :=
  view_setLength t n h

/-- `text[i]` for `0 ≤ i < len`: that character with the effective style it had (base style included) -/
theorem get_item_view (null : σ) (t : Text σ) (i : Nat) (hi : i < t.plain.length) (h : Inv t) :
    ∃ u, t.getItem Variant.repaired null (i : Int) = .ok u ∧ Inv u ∧ u.view = [(t.plain.getD i ' ', t.effStyle i)] :=
  view_getItem null t i hi h

/-- released `text[0]` of `Text("a", style=5)` has lost the base style -/
theorem old_get_item_drops_base :
    (Text.getItem Variant.released (0 : Nat) (Text.new Variant.released ['a'] 5) 0).map Text.view = .ok [('a', [0])] := by
  rfl

/-- released `text[-1]` loses every span -/
theorem old_get_item_negative_drops_spans :
    (Text.getItem Variant.released (0 : Nat) (Text.new Variant.released ['a', 'b'] 0 [⟨0, 2, 1⟩]) (-1)).map Text.view
      = .ok [('b', [0])] := by
  rfl

example : (Text.getItem Variant.repaired (0 : Nat) (Text.new Variant.repaired ['a', 'b'] 5 [⟨0, 2, 1⟩]) (-1)).map Text.view
    = .ok [('b', [5, 1])] := by
  rfl

/-! ## styling-only operations never change the characters -/

/-- `stylize` (any variant, any arguments): same characters, same `len()`, same base style -/
theorem stylize_keeps_chars (v : Variant) (t : Text σ) (st : σ) (a : Int) (b : Option Int) :
    (t.stylize v st a b).plain = t.plain ∧ (t.stylize v st a b).length = t.length ∧ (t.stylize v st a b).style = t.style :=
  stylize_plain v t st a b

/-- `copy_styles`, `highlight_regex`, `highlight_words` -/
theorem add_spans_keeps_chars (t u : Text σ) (spans : List (Span σ)) :
    (t.addSpans spans).plain = t.plain ∧ (t.addSpans spans).length = t.length ∧
    (t.copyStyles u).plain = t.plain ∧ (t.copyStyles u).length = t.length :=
  ⟨rfl, rfl, rfl, rfl⟩

/-- `stylize(style, start, end)` adds `style` (last, so it wins) on exactly the characters Python's
slice conventions name — negative offsets count from the end and clamp at the beginning — and
leaves every other character's style alone -/
theorem stylize_view (t : Text σ) (st : σ) (a : Int) (b : Option Int) (h : Inv t) :
    (t.stylize Variant.repaired st a b).view =
      annot t.plain (fun i => t.effStyle i ++
        (if stylizeStart Variant.repaired t.length a ≤ (i : Int) ∧ (i : Int) < stylizeStop t.length b then [st] else [])) 0 :=
  view_stylize t st a b h

theorem add_spans_view (t : Text σ) (spans : List (Span σ)) :
    (t.addSpans spans).view = annot t.plain (fun i => t.effStyle i ++ spanIds spans i) 0 :=
  view_addSpans t spans

/-- released `stylize(s, -2, -1)` on the empty text stores `Span(-2, -1)`; `render()` then raises -/
theorem old_stylize_negative_render_raises :
    Text.render (Text.stylize Variant.released (Text.new Variant.released [] (0 : Nat)) 4 (-2) (some (-1))) = .error .runtimeError := by
  rfl

/-- released: two `stylize` calls starting before the beginning make `render()` repeat characters -/
theorem old_stylize_negative_render_repeats :
    (Text.render (Text.stylize Variant.released (Text.stylize Variant.released
        (Text.new Variant.released ['a', 'b', 'c', 'd', 'e', 'f', 'g', 'h'] (0 : Nat)) 1 (-13) none) 2 (-10) none)).map
      (fun segs => (Text.segStream segs).map (·.1)) = .ok ['d', 'e', 'f', 'a', 'b', 'c', 'd', 'e', 'f', 'g', 'h'] := by
  rfl

example :
    (Text.render (Text.stylize Variant.repaired (Text.stylize Variant.repaired
        (Text.new Variant.repaired ['a', 'b', 'c'] (0 : Nat)) 1 (-13) none) 2 (-10) none)).map Text.segStream
      = .ok [('a', [0, 1, 2]), ('b', [0, 1, 2]), ('c', [0, 1, 2])] := by
  rfl

/-! ## witnesses for the two defects whose full theorems are still open obligations -/

/-- released `divide`: with spans red(0,10), blue(5,10), red(5,10) — character 7 is `red, blue, red`
(red wins) — the second line comes out as `red, red, blue` (blue wins): the remainder of the first
span, `Span(5,10,red)`, is *equal* to the third span and overwrites its place in the `order` dict. -/
theorem old_divide_reorders_styles :
    (Text.divide Variant.released
      (Text.new Variant.released (List.replicate 10 'a') (0 : Nat) [⟨0, 10, 1⟩, ⟨5, 10, 2⟩, ⟨5, 10, 1⟩]) [5]).map
        (fun ls => ls.map (fun l => l.effStyle 2)) = .ok [[0, 1], [0, 1, 1, 2]] := by
  rfl

example :
    (Text.divide Variant.repaired
      (Text.new Variant.repaired (List.replicate 10 'a') (0 : Nat) [⟨0, 10, 1⟩, ⟨5, 10, 2⟩, ⟨5, 10, 1⟩]) [5]).map
        (fun ls => ls.map (fun l => l.effStyle 2)) = .ok [[0, 1], [0, 1, 2, 1]] := by
  rfl

/-- released `align("right", 1)` on a text that stays 3 cells wide (`overflow="ignore"`): `pad_left(-2)`
leaves the characters and moves `Span(1,3)` to `Span(-1,1)`. -/
theorem old_align_negative_excess :
    (Text.align Variant.released (fun _ => 1)
      (Text.new Variant.released ['a', 'b', 'c'] (0 : Nat) [⟨1, 3, 1⟩] none (some .ignore)) .right 1).spans = [⟨-1, 1, 1⟩] := by
  rfl

example :
    (Text.align Variant.repaired (fun _ => 1)
      (Text.new Variant.repaired ['a', 'b', 'c'] (0 : Nat) [⟨1, 3, 1⟩] none (some .ignore)) .right 1).spans = [⟨1, 3, 1⟩] := by
  rfl

end RichModel.C05
