import RichModel.Lemmas.TextHistory
import RichModel.Lemmas.TextJoin
import RichModel.Lemmas.TextRender
import RichModel.Lemmas.TextHistory2
import RichModel.Lemmas.TextSplitOld
import RichModel.Lemmas.TextHistory3
import RichModel.Lemmas.TextGuides
import RichModel.Lemmas.TextFrag
import RichModel.Gen.CellWidths
/-!
# C05 — Text editing operations keep characters and styles attached

Property theorems only (helper lemmas live in `Lemmas/Text*.lean`).  All statements are about the
model `Model/Text.lean` in its **repaired** variant (`Variant.repaired`), which is what /repo contains now
(`fix:` commits 0149e10, ba4c9a6, 3a84457, b5c0e99, aad03fe, 9ca68f6); for each of the six defects
of rich 9.10.0 as found the `old_…` theorems show the released variant violating the statement at a concrete
input, next to an `example` that the repaired variant meets it there.  A seventh defect (the last-line rule of
`split`, `fix:` commit b61fef8, also in /repo now) is not a field of `Variant` but the first argument of
`Text.splitW`: `splitW false` is the repaired rule, which `split_view` is about; `splitW true` is rich 9.10.0 as
found, with the witness `old_split_overlapping_separator` and the equality `split_released_eq_repaired`.

Reference semantics: `Text.view t : List (Char × List σ)` — every character with the list of style
names applied to it, base style first, then the covering spans in span order (free monoid of style
names: any re-ordering, loss or gain of a style is visible; interpret in rich's `Style` algebra
afterwards).  No theorem bounds the length of the strings, the number of spans or of operations.

`divide_view` is proved in `Lemmas/WrapDivide.lean`, which the word-wrap property C02 built on this model and
which is imported read-only (as are two of its helper lemmas about one-character separators); it is restated
here because it is an obligation of C05's statement.  Nothing in this file is partial any more.

Deepening round 4 (last sections of the file): `split` read at string level (`split_str_view` over the executable
`strSplit` of `Model/TextStr.lean`, with the two string laws `split_incl_concat` and `split_join_inverse`); refinement
theorems for the operations that were only compared before — `pad_view`, `remove_suffix_view`, `add_view`,
`append_tokens_view`, `rstrip_end_view`, `fit_view`, `detect_indentation_spec`, `with_indent_guides_view` (full
strength: the list function `guideLines`); the history theorem over the complete operation set `OpAll`
(`inv_step_full`, `inv_history_full`, `history_render_full`); and the `_text` fragment list made explicit
(`Model/TextFrag.lean`: `frag_refines_step`, `frag_refines_history`, `plain_normalisation_unobservable`).
-/
namespace RichModel.C05
open RichModel RichModel.Text

variable {σ : Type}

/-! ## generated table -/

/-- the control codes stripped on the way in are the four documented ones (re-checked against
`rich/control.py` on every run) -/
theorem strip_codes_documented : Gen.stripControlCodes = [8, 11, 12, 13] := by decide

/-! ## the invariant over histories -/

/-- `Text(text, style, spans=…)`: `len()` is the length of the (control-stripped) string, for every
string — including those made only of stripped characters — and every span set inside the text. -/
theorem inv_init (text : List Char) (style : σ) (spans : List (Span σ)) (j : Option Justify) (o : Option Overflow)
    (nw : Option Bool) (e : List Char) (ts : Option Nat)
    (hs : SpansIn spans ((stripControl text).length : Int)) :
    Inv (Text.new Variant.repaired text style spans j o nw e ts) :=
  inv_new text style spans j o nw e ts hs

/-- F1: on the released constructor `Text("a\rb")` has `len() = 3` for the two characters `"ab"`. -/
theorem old_inv_init_fails :
    ¬ Inv (Text.new Variant.released ['a', '\r', 'b'] (0 : Nat)) := by
  intro h
  have := h.1
  revert this
  decide

example : Inv (Text.new Variant.repaired ['a', '\r', 'b'] (0 : Nat)) :=
  inv_init _ _ _ _ _ _ _ _ (by intro sp h; simp at h)

/-- every operation keeps `len() = len(plain)`, the spans inside the text and not inverted -/
theorem inv_step (null : σ) (t t' : Text σ) (op : Op σ) (h : Inv t) (hp : op.Pre t)
    (hs : step null t op = .ok t') : Inv t' :=
  Text.inv_step null t t' op h hp hs

/-- …hence so does every history of operations, of any length -/
theorem inv_history (null : σ) (ops : List (Op σ)) (t t' : Text σ) (h : Inv t) (hp : HistPre null t ops)
    (hr : run null t ops = .ok t') : Inv t' :=
  inv_run null ops t t' h hp hr

/-- inside its domain no operation raises -/
theorem step_total (null : σ) (t : Text σ) (op : Op σ) (h : Inv t) (hp : op.Pre t) :
    ∃ t', step null t op = .ok t' :=
  step_ok null t op h hp

/-- `len()` is the number of characters the text shows -/
theorem len_eq_view_length (t : Text σ) (h : Inv t) : t.length = (t.view.length : Int) := by
  rw [view_eq_annot, annot_length]; exact h.1

/-- a concrete history inside the domain (hypotheses of `inv_history` are satisfiable) -/
example : HistPre (0 : Nat) (Text.new Variant.repaired ['a', '\r', 'b'] 5)
    [.appendStr ['x', '\x08'] (some 1), .stylize 2 (-7) none, .padLeft 2 ' ', .rightCrop 0, .setLength 9, .index 3] := by
  refine ⟨trivial, fun _ _ => ⟨trivial, fun _ _ => ⟨noCtl_space, fun _ _ => ⟨trivial, fun _ _ => ⟨trivial, fun t' ht' => ⟨?_, fun _ _ => trivial⟩⟩⟩⟩⟩⟩
  rename_i t1 h1 t2 h2 t3 h3 t4 h4
  cases h1; cases h2; cases h3; cases h4; cases ht'
  show (3 : Nat) < _
  decide

/-- every operation of the full set — the above plus `rstrip`, `truncate`, `align`, `join` (as separator
and as element), `assemble`, `divide`, slices, single-character `split`, `expand_tabs`, `remove_suffix`, `+` — keeps the invariant -/
theorem inv_step_all [BEq σ] (cw : Char → Nat) (null : σ) (t t' : Text σ) (op : OpX σ) (h : Inv t) (hp : op.Pre t)
    (hs : stepX cw null t op = .ok t') : Inv t' :=
  inv_stepX cw null t t' op h hp hs

/-- …and so does every history over the full operation set, of any length, for any cell-width function -/
theorem inv_history_all [BEq σ] (cw : Char → Nat) (null : σ) (ops : List (OpX σ)) (t t' : Text σ) (h : Inv t)
    (hp : HistPreX cw null t ops) (hr : runX cw null t ops = .ok t') : Inv t' :=
  inv_runX cw null ops t t' h hp hr

example : HistPreX (fun _ => 1) (0 : Nat) (Text.new Variant.repaired ['a', 'b', 'c', 'd', ' '] 5 [⟨0, 3, 1⟩])
    [.rstrip, .truncate 3 (some .ellipsis) false, .align .center 7 '*', .slice (some (-4)) none] := by
  exact ⟨trivial, fun _ _ => ⟨trivial, fun _ _ => ⟨(by show isStripCode '*' = false; decide), fun _ _ => ⟨trivial, fun _ _ => trivial⟩⟩⟩⟩

/-! ## what `render()` shows is the reference semantics -/

/-- **`render` = `view`.**  For every consistent text — any length, any number of spans, nested,
overlapping, duplicated or empty — `Text.render` (event sort + style-id stack, as written) raises
nothing, and the characters it emits, each with the style names combined for it in combination order,
are exactly `view t`: every character once, in order, under the base style and then the spans covering
it in span order ("later spans win").  So every `…_view` theorem below is a statement about the
Segment stream a console receives. -/
theorem render_view (t : Text σ) (h : Inv t) :
    ∃ segs, t.render [] = .ok segs ∧ segStream segs = t.view :=
  render_view_aux t h

example : (Text.render (Text.new Variant.repaired ['a', 'b', 'c'] (9 : Nat) [⟨0, 2, 1⟩, ⟨1, 3, 2⟩, ⟨0, 2, 1⟩])).map segStream
    = .ok [('a', [9, 1, 1]), ('b', [9, 1, 2, 1]), ('c', [9, 2])] := by
  rfl

/-! ## per-operation refinement: characters, order, effective style of every survivor -/

/-- construction: the stripped characters, each under the base style and the spans covering it -/
theorem new_view (v : Variant) (text : List Char) (style : σ) (spans : List (Span σ)) :
    (Text.new v text style spans).view = annot (stripControl text) (fun i => style :: spanIds spans i) 0 :=
  view_new v text style spans _ _ _ _ _

/-- `copy()` is an exact copy -/
theorem copy_view (t : Text σ) (h : Inv t) : t.copy Variant.repaired = t := copy_eq_self t h

/-- `append(str, style)` -/
theorem append_str_view (t : Text σ) (s : List Char) (st : Option σ) (h : Inv t) :
    (t.appendStr s st).view = t.view ++ (stripControl s).map (fun c => (c, t.style :: st.toList)) :=
  view_appendStr t s st h

/-- `append(Text)` / `append_text`: the operand's characters keep their effective styles, placed under
this text's base style; nothing already present moves -/
theorem append_text_view (t u : Text σ) (h : Inv t) (hu : Inv u) :
    (t.appendText u).view = t.view ++ u.view.map (fun p => (p.1, t.style :: p.2)) ∧
    (t.appendT u).view = t.view ++ u.view.map (fun p => (p.1, t.style :: p.2)) :=
  ⟨view_appendText t u h hu, view_appendT t u h hu⟩

/-- `sep.join(lines)` keeps the invariant -/
theorem inv_join (sep : Text σ) (lines : List (Text σ)) (hsep : Inv sep) (hl : ∀ x ∈ lines, Inv x) :
    Inv (sep.join Variant.repaired lines) :=
  Text.inv_join sep lines hsep hl

/-- `sep.join(lines)`: the elements in order (with `sep` between them when it is non-empty), every
character keeping its effective style, placed under `sep`'s base style -/
theorem join_view (sep : Text σ) (lines : List (Text σ)) (hsep : Inv sep) (hl : ∀ x ∈ lines, Inv x) :
    (sep.join Variant.repaired lines).view =
      (joinSeq sep lines).flatMap (fun x => x.view.map (fun p => (p.1, sep.style :: p.2))) :=
  view_join sep lines hsep hl

/-- `Text.assemble(*parts)` keeps the invariant -/
theorem inv_assemble (parts : List (Part σ)) (style : σ) (j : Option Justify) (o : Option Overflow)
    (nw : Option Bool) (e : List Char) (ts : Option Nat)
    (hp : ∀ p ∈ parts, match p with | .txt u => Inv u | _ => True) :
    Inv (assemble Variant.repaired parts style j o nw e ts) :=
  Text.inv_assemble parts style j o nw e ts hp

example : (Text.join Variant.repaired (Text.new Variant.repaired [','] (7 : Nat))
    [Text.new Variant.repaired ['a'] 1 [⟨0, 1, 2⟩], Text.new Variant.repaired ['b'] 3]).view
    = [('a', [7, 1, 2]), (',', [7, 7]), ('b', [7, 3])] := by
  rfl

/-- `Text.assemble(*parts, style=b)`: the parts in order; strings under the base style (and their own
style, if given), texts with every character's effective style placed under the base style -/
theorem assemble_view (parts : List (Part σ)) (style : σ) (j : Option Justify) (o : Option Overflow)
    (nw : Option Bool) (e : List Char) (ts : Option Nat) (hp : ∀ p ∈ parts, p.Ok) :
    (assemble Variant.repaired parts style j o nw e ts).view = parts.flatMap (partView style) :=
  view_assemble parts style j o nw e ts hp

/-- **`divide` cuts the styled string** (repaired code: the span order is carried by index, not by the
value-keyed `order` dict).  Ascending offsets inside a consistent text give one consistent line per piece,
with the piece's characters and, on every character, exactly the effective style it had. -/
theorem divide_view [BEq σ] (t : Text σ) (offs : List Nat) (h : Inv t)
    (hs : AscFrom 0 offs) (hb : ∀ o ∈ offs, o ≤ t.plain.length) :
    ∃ lines, t.divide Variant.repaired offs = .ok lines ∧
      lines.map Text.view = pieces offs t.view ∧
      lines.map (·.plain) = pieces offs t.plain ∧
      (∀ l ∈ lines, Inv l ∧ l.style = t.style ∧ l.justify = t.justify ∧ l.overflow = t.overflow) :=
  Text.divide_view t offs h hs hb

/-- **`text[a:b]` is the slice of the styled string**, for every pair of bounds — `None`, negative, beyond either
end, and bounds that normalise to `stop < start` (empty result) — exactly as for `str`
(`(s, e) = slice(a, b).indices(len)`, result `view[s:e]`). -/
theorem get_slice_view [BEq σ] (t : Text σ) (a b : Option Int) (h : Inv t) :
    ∃ u, t.getSlice Variant.repaired a b = .ok u ∧ Inv u ∧ u.style = t.style ∧
      u.view = (t.view.drop (Py.sliceIndices t.plain.length a b).1).take
        ((Py.sliceIndices t.plain.length a b).2 - (Py.sliceIndices t.plain.length a b).1) :=
  getSlice_view_all t a b h

/-- `text[a:b:step]`: step 0 raises `ValueError` (from `slice.indices`), every step other than `None`/1 is refused
with `TypeError` (documented: not supported), `None`/1 is the slice above -/
theorem get_slice_step [BEq σ] (t : Text σ) (a b step : Option Int) :
    t.getSliceStep Variant.repaired a b step =
      (if step = some 0 then .error .valueError
       else if step = none ∨ step = some 1 then t.getSlice Variant.repaired a b
       else .error .typeError) :=
  getSliceStep_spec t a b step

/-- the cut points of `split` are the leftmost non-overlapping occurrences of the separator: each match is an
occurrence, starts at or after the end of the previous one, and the stretch skipped before it (and what follows
the last one) is not the separator itself -/
theorem split_cuts_at_occurrences (sep plain : List Char) (hsep : 0 < sep.length) :
    GoodMs sep plain 0 (findAll sep plain) :=
  findAll_good sep plain hsep

/-- **`split` at piece level** (repaired code), for EVERY non-empty separator — also one that overlaps itself —,
`include_separator` and `allow_blank` both ways: no occurrence → the text itself; otherwise the pieces ending after
each occurrence, or the stretches between the occurrences (what `str.split` returns), every character with the
effective style it had, in consistent texts under the same base style; a blank last piece is dropped unless
`allow_blank`.  The same equation holds for the plain strings. -/
theorem split_view [BEq σ] (t : Text σ) (sep : List Char) (incl blank : Bool) (h : Inv t) (hsep : sep ≠ []) :
    ∃ parts, Text.splitW false Variant.repaired t sep incl blank = .ok parts ∧
      parts.map view =
        (if (findAll sep t.plain).isEmpty then [t.view]
         else dropBlank blank (if incl then pieces ((findAll sep t.plain).map (·.2)) t.view
                               else betweenFrom 0 (findAll sep t.plain) t.view)) ∧
      parts.map (·.plain) =
        (if (findAll sep t.plain).isEmpty then [t.plain]
         else dropBlank blank (if incl then pieces ((findAll sep t.plain).map (·.2)) t.plain
                               else betweenFrom 0 (findAll sep t.plain) t.plain)) ∧
      ∀ l ∈ parts, Inv l ∧ l.style = t.style :=
  split_view_all t sep incl blank h hsep

/-- **The `split` of rich 9.10.0 as found (before fix b61fef8: last line dropped when `text.endswith(separator)`)
is the repaired `split`** for every separator that does not overlap itself — no proper non-empty suffix of it is a
prefix: every single character, `"ab"`, `", "`, … —, so `split_view` describes rich as released for all of them. -/
theorem split_released_eq_repaired [BEq σ] (t : Text σ) (sep : List Char) (incl blank : Bool) (h : Inv t)
    (hub : Unbordered sep) :
    Text.splitW true Variant.repaired t sep incl blank = Text.splitW false Variant.repaired t sep incl blank :=
  splitW_released_eq t sep incl blank h hub

example (c : Char) : Unbordered [c] := by
  intro k h0 h1; simp at h1; omega

example : Unbordered ['a', 'b'] := by
  intro k h0 h1
  have : k = 1 := by simp at h1; omega
  subst this; decide

/-- an empty separator is refused (`assert separator`) -/
theorem split_empty_separator [BEq σ] (endsw : Bool) (v : Variant) (t : Text σ) (incl blank : Bool) :
    Text.splitW endsw v t [] incl blank = .error .assertionError := rfl

/-- released `split` drops the last line whenever the text ends with the separator: `Text("aaa").split("aa")`
is `[""]` — the final `"a"` is lost (`"aaa".split("aa")` is `['', 'a']`) -/
theorem old_split_overlapping_separator :
    (Text.splitW true Variant.repaired (Text.new Variant.repaired ['a', 'a', 'a'] (0 : Nat)) ['a', 'a'] false false).map
      (fun ps => ps.map (·.plain)) = .ok [[]] := by
  rfl

example :
    (Text.splitW false Variant.repaired (Text.new Variant.repaired ['a', 'a', 'a'] (0 : Nat)) ['a', 'a'] false false).map
      (fun ps => ps.map (·.plain)) = .ok [[], ['a']] := by
  rfl

/-- **`expand_tabs` at full strength.**  With effective tab size `ts ≥ 1` (the argument, else the text's own
`tab_size`): without a tab the text is returned untouched; otherwise the call succeeds, the result is consistent,
keeps the base style, and its styled string is `expRef ts base (view t) 0` — every tab becomes `ts - col % ts`
blanks (1 … `ts`, up to the next multiple of `ts`, `col` counted from the last newline: multi-line texts
included), the first blank in the tab's style and the others in the base style, every other character in order
with its effective style (under one more application of the base style: the text is rebuilt with `append`). -/
theorem expand_tabs_view [BEq σ] (t : Text σ) (h : Inv t) (tabSize : Option Nat) (ts : Nat) (hts : 0 < ts)
    (heff : tabSize.orElse (fun _ => t.tabSize) = some ts) :
    ∃ q, t.expandTabs Variant.repaired tabSize = .ok q ∧ Inv q ∧ q.style = t.style ∧
      (t.plain.contains '\t' = false → q = t) ∧
      (t.plain.contains '\t' = true → q.view = expRef ts t.style t.view 0) :=
  expandTabs_view t h tabSize ts hts heff

example : (Text.expandTabs Variant.repaired (Text.new Variant.repaired ['a', '\t', 'b', '\n', '\t', 'c'] (5 : Nat) [⟨1, 2, 1⟩])
    (some 4)).map Text.view = .ok [('a', [5, 5]), (' ', [5, 5, 1]), (' ', [5, 5]), (' ', [5, 5]), ('b', [5, 5]), ('\n', [5, 5]),
      (' ', [5, 5]), (' ', [5, 5]), (' ', [5, 5]), (' ', [5, 5]), ('c', [5, 5])] := by
  rfl

example : expRef 4 (5 : Nat) (Text.new Variant.repaired ['a', '\t', 'b', '\n', '\t', 'c'] (5 : Nat) [⟨1, 2, 1⟩]).view 0 =
    [('a', [5, 5]), (' ', [5, 5, 1]), (' ', [5, 5]), (' ', [5, 5]), ('b', [5, 5]), ('\n', [5, 5]),
      (' ', [5, 5]), (' ', [5, 5]), (' ', [5, 5]), (' ', [5, 5]), ('c', [5, 5])] := by
  rfl

/-- `rstrip()`: the text without its trailing whitespace, every remaining character as it was -/
theorem rstrip_view (t : Text σ) (h : Inv t) :
    Inv t.rstrip ∧ t.rstrip.view = t.view.take (pyRstrip t.plain).length :=
  ⟨inv_rstrip t h, view_rstrip t h⟩

/-- `truncate(max_width, overflow, pad)`: the string is what `truncate` makes of an ordinary string
(`truncStr`: `set_cell_size`, the ellipsis, the padding), and every position keeps the style attached to it -/
theorem truncate_view (cw : Char → Nat) (t : Text σ) (w : Int) (ov : Option Overflow) (pad : Bool) (h : Inv t) :
    Inv (t.truncate cw w ov pad) ∧
    (t.truncate cw w ov pad).plain = truncStr cw t.plain w ((ov.orElse (fun _ => t.overflow)).getD Overflow.fold) pad ∧
    (t.truncate cw w ov pad).style = t.style ∧
    (t.truncate cw w ov pad).view = annot (t.truncate cw w ov pad).plain t.effStyle 0 :=
  truncate_spec cw t w ov pad h

/-- `align(method, width, ch)` (repaired: pads only by a positive excess): `truncate(width)`, then base-styled
padding on the right / both sides / the left; no character of the truncated text moves or changes style -/
theorem align_view (cw : Char → Nat) (t : Text σ) (m : AlignMethod) (w : Int) (ch : Char) (h : Inv t)
    (hch : isStripCode ch = false) :
    Inv (t.align Variant.repaired cw m w ch) ∧
    (t.align Variant.repaired cw m w ch).view =
      (let t1 := t.truncate cw w
       let excess := (w - (cellLen cw t1.plain : Int)).toNat
       match m with
       | .left => t1.view ++ List.replicate excess (ch, [t.style])
       | .center => List.replicate (excess / 2) (ch, [t.style]) ++ t1.view ++ List.replicate (excess - excess / 2) (ch, [t.style])
       | .right => List.replicate excess (ch, [t.style]) ++ t1.view) :=
  align_spec cw t m w ch h hch

/-- the `plain` setter (and with it `truncate`, `rstrip`, `pad*`): position `i` shows the new
character with what was attached to position `i` -/
theorem set_plain_view (t : Text σ) (s : List Char) (h : Inv t) :
    (t.setPlain s).view = annot s t.effStyle 0 :=
  view_setPlain t s h

theorem pad_right_view (t : Text σ) (n : Nat) (ch : Char) (h : Inv t) :
    (t.padRight (n : Int) ch).view = t.view ++ List.replicate n (ch, [t.style]) :=
  view_padRight t n ch h

theorem pad_left_view (t : Text σ) (n : Nat) (ch : Char) (h : Inv t) :
    (t.padLeft (n : Int) ch).view = List.replicate n (ch, [t.style]) ++ t.view :=
  view_padLeft t n ch h

/-- `right_crop(a)` for **every** `a ≥ 0`: `a = 0` changes nothing, `a ≥ len` leaves the empty text -/
theorem right_crop_view (t : Text σ) (a : Nat) :
    (t.rightCrop Variant.repaired (a : Int)).view = t.view.take (t.plain.length - a) :=
  view_rightCrop t a

/-- `right_crop(0)` erases the released text and leaves `len()` at 3. -/
theorem old_right_crop_zero :
    (Text.rightCrop Variant.released (Text.new Variant.released ['a', 'b', 'c'] (0 : Nat)) 0).plain = [] ∧
    (Text.rightCrop Variant.released (Text.new Variant.released ['a', 'b', 'c'] (0 : Nat)) 0).length = 3 := by
  decide

/-- `right_crop(5)` of a two-character text leaves `_length = -3` (`len()` raises). -/
theorem old_right_crop_beyond :
    (Text.rightCrop Variant.released (Text.new Variant.released ['a', 'b'] (0 : Nat)) 5).length = -3 := by decide

example : (Text.rightCrop Variant.repaired (Text.new Variant.repaired ['a', 'b', 'c'] (0 : Nat)) 0).plain = ['a', 'b', 'c'] := by
  decide

theorem set_length_view (t : Text σ) (n : Nat) (h : Inv t) :
    (t.setLength Variant.repaired (n : Int)).view =
      t.view.take n ++ List.replicate (n - t.plain.length) (' ', [t.style]) :=
  view_setLength t n h

/-- `text[i]` for `0 ≤ i < len`: that character with the effective style it had (base style included) -/
theorem get_item_view (null : σ) (t : Text σ) (i : Nat) (hi : i < t.plain.length) (h : Inv t) :
    ∃ u, t.getItem Variant.repaired null (i : Int) = .ok u ∧ Inv u ∧ u.view = [(t.plain.getD i ' ', t.effStyle i)] :=
  view_getItem null t i hi h

/-- released `text[0]` of `Text("a", style=5)` has lost the base style -/
theorem old_get_item_drops_base :
    (Text.getItem Variant.released (0 : Nat) (Text.new Variant.released ['a'] 5) 0).map Text.view = .ok [('a', [0])] := by
  rfl

/-- released `text[-1]` loses every span -/
theorem old_get_item_negative_drops_spans :
    (Text.getItem Variant.released (0 : Nat) (Text.new Variant.released ['a', 'b'] 0 [⟨0, 2, 1⟩]) (-1)).map Text.view
      = .ok [('b', [0])] := by
  rfl

example : (Text.getItem Variant.repaired (0 : Nat) (Text.new Variant.repaired ['a', 'b'] 5 [⟨0, 2, 1⟩]) (-1)).map Text.view
    = .ok [('b', [5, 1])] := by
  rfl

/-! ## styling-only operations never change the characters -/

/-- `stylize` (any variant, any arguments): same characters, same `len()`, same base style -/
theorem stylize_keeps_chars (v : Variant) (t : Text σ) (st : σ) (a : Int) (b : Option Int) :
    (t.stylize v st a b).plain = t.plain ∧ (t.stylize v st a b).length = t.length ∧ (t.stylize v st a b).style = t.style :=
  stylize_plain v t st a b

/-- `copy_styles`, `highlight_regex`, `highlight_words` -/
theorem add_spans_keeps_chars (t u : Text σ) (spans : List (Span σ)) :
    (t.addSpans spans).plain = t.plain ∧ (t.addSpans spans).length = t.length ∧
    (t.copyStyles u).plain = t.plain ∧ (t.copyStyles u).length = t.length :=
  ⟨rfl, rfl, rfl, rfl⟩

/-- `stylize(style, start, end)` adds `style` (last, so it wins) on exactly the characters Python's
slice conventions name — negative offsets count from the end and clamp at the beginning — and
leaves every other character's style alone -/
theorem stylize_view (t : Text σ) (st : σ) (a : Int) (b : Option Int) (h : Inv t) :
    (t.stylize Variant.repaired st a b).view =
      annot t.plain (fun i => t.effStyle i ++
        (if stylizeStart Variant.repaired t.length a ≤ (i : Int) ∧ (i : Int) < stylizeStop t.length b then [st] else [])) 0 :=
  view_stylize t st a b h

theorem add_spans_view (t : Text σ) (spans : List (Span σ)) :
    (t.addSpans spans).view = annot t.plain (fun i => t.effStyle i ++ spanIds spans i) 0 :=
  view_addSpans t spans

/-- released `stylize(s, -2, -1)` on the empty text stores `Span(-2, -1)`; `render()` then raises -/
theorem old_stylize_negative_render_raises :
    Text.render (Text.stylize Variant.released (Text.new Variant.released [] (0 : Nat)) 4 (-2) (some (-1))) = .error .runtimeError := by
  rfl

/-- released: two `stylize` calls starting before the beginning make `render()` repeat characters -/
theorem old_stylize_negative_render_repeats :
    (Text.render (Text.stylize Variant.released (Text.stylize Variant.released
        (Text.new Variant.released ['a', 'b', 'c', 'd', 'e', 'f', 'g', 'h'] (0 : Nat)) 1 (-13) none) 2 (-10) none)).map
      (fun segs => (Text.segStream segs).map (·.1)) = .ok ['d', 'e', 'f', 'a', 'b', 'c', 'd', 'e', 'f', 'g', 'h'] := by
  rfl

example :
    (Text.render (Text.stylize Variant.repaired (Text.stylize Variant.repaired
        (Text.new Variant.repaired ['a', 'b', 'c'] (0 : Nat)) 1 (-13) none) 2 (-10) none)).map Text.segStream
      = .ok [('a', [0, 1, 2]), ('b', [0, 1, 2]), ('c', [0, 1, 2])] := by
  rfl

/-! ## witnesses for the two remaining defects (`divide` order, fix aad03fe; `align` negative excess, fix 9ca68f6);
the full theorems `divide_view` and `align_view` are proved above for the repaired variant -/

/-- released `divide`: with spans red(0,10), blue(5,10), red(5,10) — character 7 is `red, blue, red`
(red wins) — the second line comes out as `red, red, blue` (blue wins): the remainder of the first
span, `Span(5,10,red)`, is *equal* to the third span and overwrites its place in the `order` dict. -/
theorem old_divide_reorders_styles :
    (Text.divide Variant.released
      (Text.new Variant.released (List.replicate 10 'a') (0 : Nat) [⟨0, 10, 1⟩, ⟨5, 10, 2⟩, ⟨5, 10, 1⟩]) [5]).map
        (fun ls => ls.map (fun l => l.effStyle 2)) = .ok [[0, 1], [0, 1, 1, 2]] := by
  rfl

example :
    (Text.divide Variant.repaired
      (Text.new Variant.repaired (List.replicate 10 'a') (0 : Nat) [⟨0, 10, 1⟩, ⟨5, 10, 2⟩, ⟨5, 10, 1⟩]) [5]).map
        (fun ls => ls.map (fun l => l.effStyle 2)) = .ok [[0, 1], [0, 1, 2, 1]] := by
  rfl

/-- released `align("right", 1)` on a text that stays 3 cells wide (`overflow="ignore"`): `pad_left(-2)`
leaves the characters and moves `Span(1,3)` to `Span(-1,1)`. -/
theorem old_align_negative_excess :
    (Text.align Variant.released (fun _ => 1)
      (Text.new Variant.released ['a', 'b', 'c'] (0 : Nat) [⟨1, 3, 1⟩] none (some .ignore)) .right 1).spans = [⟨-1, 1, 1⟩] := by
  rfl

example :
    (Text.align Variant.repaired (fun _ => 1)
      (Text.new Variant.repaired ['a', 'b', 'c'] (0 : Nat) [⟨1, 3, 1⟩] none (some .ignore)) .right 1).spans = [⟨1, 3, 1⟩] := by
  rfl


/-! ## deepening round 4: the operations that were "compared, no theorem", `split` at string level, and the history
theorem over the complete operation set -/

/-- **`split` is the string-level split of the styled string** (repaired code; EVERY non-empty separator, also one that
overlaps itself; `include_separator` and `allow_blank` both ways).  `strSplit sep incl blank chars v` (`Model/TextStr`,
executable, compared with `str.split` / `re.split` of the running Python on every run) cuts ANY list `v` where the
separator occurs in its characters `chars`; the pieces' styled strings are `strSplit` of `view t` read through its own
characters, their plain strings are `strSplit` of the plain string, every piece is consistent under the same base
style. -/
theorem split_str_view [BEq σ] (t : Text σ) (sep : List Char) (incl blank : Bool) (h : Inv t) (hsep : sep ≠ []) :
    ∃ parts, Text.splitW false Variant.repaired t sep incl blank = .ok parts ∧
      parts.map view = strSplit sep incl blank (t.view.map (·.1)) t.view ∧
      parts.map (·.plain) = strSplit sep incl blank t.plain t.plain ∧
      ∀ l ∈ parts, Inv l ∧ l.style = t.style :=
  Text.split_str_view t sep incl blank h hsep

/-- `split(sep, include_separator=True)` loses and moves nothing: the pieces' styled strings concatenate to the
text's, whatever `allow_blank` -/
theorem split_incl_concat [BEq σ] (t : Text σ) (sep : List Char) (blank : Bool) (h : Inv t) (hsep : sep ≠ []) :
    ∃ parts, Text.splitW false Variant.repaired t sep true blank = .ok parts ∧ parts.flatMap view = t.view := by
  obtain ⟨parts, h1, h2, _, _⟩ := Text.split_str_view t sep true blank h hsep
  refine ⟨parts, h1, ?_⟩
  rw [List.flatMap_def, h2]
  exact strSplit_incl_flatten sep blank _ t.view hsep

/-- `sep.join(text.split(sep, allow_blank=True))` is the text (as for `str.split`): what `split` removes are exactly
the separators -/
theorem split_join_inverse [BEq σ] (t : Text σ) (sep : List Char) (h : Inv t) (hsep : sep ≠ []) :
    ∃ parts, Text.splitW false Variant.repaired t sep false true = .ok parts ∧
      List.intercalate sep (parts.map (·.plain)) = t.plain := by
  obtain ⟨parts, h1, _, h3, _⟩ := Text.split_str_view t sep false true h hsep
  exact ⟨parts, h1, by rw [h3]; exact strSplit_intercalate sep t.plain hsep⟩

example : strSplit ['a', 'a'] false true ['a', 'a', 'a', 'b', 'a', 'a'] ['a', 'a', 'a', 'b', 'a', 'a']
    = [[], ['a', 'b'], []] := by decide

example : strSplit ['a', 'a'] true false ['a', 'a', 'a', 'b', 'a', 'a'] [1, 2, 3, 4, 5, 6] = [[1, 2], [3, 4, 5, 6]] := by
  decide

/-- `pad(n, ch)`: `n` base-styled characters on either side, the text in between as it was -/
theorem pad_view (t : Text σ) (n : Nat) (ch : Char) (h : Inv t) (hch : isStripCode ch = false) :
    Inv (t.pad (n : Int) ch) ∧
    (t.pad (n : Int) ch).view = List.replicate n (ch, [t.style]) ++ t.view ++ List.replicate n (ch, [t.style]) :=
  ⟨inv_pad t n ch h hch, view_pad t n ch h hch⟩

example : (Text.pad (Text.new Variant.repaired ['a', 'b'] (5 : Nat) [⟨1, 2, 1⟩]) 2 '-').view
    = [('-', [5]), ('-', [5]), ('a', [5]), ('b', [5, 1]), ('-', [5]), ('-', [5])] := by rfl

/-- `remove_suffix(s)`: when the string ends with `s` exactly those characters go, otherwise nothing changes -/
theorem remove_suffix_view (t : Text σ) (suffix : List Char) (h : Inv t) :
    Inv (t.removeSuffix Variant.repaired suffix) ∧
    (t.removeSuffix Variant.repaired suffix).view =
      (if suffix.isSuffixOf t.plain then t.view.take (t.plain.length - suffix.length) else t.view) :=
  ⟨inv_removeSuffix t suffix h, view_removeSuffix t suffix⟩

/-- `text + str` and `text + Text`: as `append` on a copy -/
theorem add_view (t u : Text σ) (s : List Char) (h : Inv t) (hu : Inv u) :
    (t.addStr Variant.repaired s).view = t.view ++ (stripControl s).map (fun c => (c, [t.style])) ∧
    (t.addText Variant.repaired u).view = t.view ++ u.view.map (fun p => (p.1, t.style :: p.2)) :=
  ⟨view_addStr t s h, view_addText t u h hu⟩

/-- `append_tokens(tokens)` (tokens without strip-control characters: rich does not strip there): the old characters
keep their styles, then every token's characters in order under the base style and the token's own style -/
theorem append_tokens_view (tokens : List (List Char × Option σ)) (t : Text σ) (h : Inv t)
    (hc : ∀ tok ∈ tokens, NoCtl tok.1) :
    Inv (t.appendTokens tokens) ∧
    (t.appendTokens tokens).view =
      t.view ++ tokens.flatMap (fun tok => tok.1.map (fun c => (c, t.style :: tok.2.toList))) :=
  ⟨inv_appendTokens tokens t h hc, view_appendTokens tokens t h hc⟩

example : (Text.appendTokens (Text.new Variant.repaired ['a'] (5 : Nat) [⟨0, 1, 1⟩]) [(['x', 'y'], some 2), ([], some 3), (['z'], none)]).view
    = [('a', [5, 1]), ('x', [5, 2]), ('y', [5, 2]), ('z', [5])] := by rfl

/-- **`rstrip_end(size)` removes trailing whitespace only, and exactly `rstripEndAmount` of it** (repaired code,
cell width compared with `size`): the result is the first `len - k` characters, each with the style it had, where
`k = min(trailing whitespace, cell width - size)` when the text is wider than `size` and 0 otherwise; every removed
character is whitespace. -/
theorem rstrip_end_view (cw : Char → Nat) (t : Text σ) (size : Int) (h : Inv t) :
    Inv (rstripEndW false cw Variant.repaired t size) ∧
    (rstripEndW false cw Variant.repaired t size).view = t.view.take (t.plain.length - rstripEndAmount cw t.plain size) ∧
    (∀ i, t.plain.length - rstripEndAmount cw t.plain size ≤ i → i < t.plain.length → pyIsSpace (t.plain.getD i ' ') = true) :=
  ⟨inv_rstripEndW cw t size h, view_rstripEndW cw t size,
   fun i h1 h2 => trailing_are_space t.plain i (by have := rstripEndAmount_le cw t.plain size; omega) h2⟩

example : (rstripEndW false (fun _ => 1) Variant.repaired (Text.new Variant.repaired ['a', ' ', ' ', ' '] (5 : Nat) [⟨0, 4, 1⟩]) 2).view
    = [('a', [5, 1]), (' ', [5, 1])] := by rfl

/-- **`fit(w)`**: the lines of the text (string-level split at newlines, a blank last line dropped), each cut or
padded with base-styled spaces to exactly `w` characters; characters kept keep their styles -/
theorem fit_view [BEq σ] (t : Text σ) (w : Nat) (h : Inv t) :
    ∃ lines, t.fit Variant.repaired (w : Int) = .ok lines ∧
      lines.map view = (strSplit ['\n'] false false t.plain t.view).map (fitLine w t.style) ∧
      (∀ l ∈ lines, Inv l ∧ l.style = t.style ∧ l.plain.length = w) :=
  fit_spec t w h

example : (Text.fit Variant.repaired (Text.new Variant.repaired ['a', 'b', 'c', '\n', 'd', '\n'] (5 : Nat) [⟨1, 5, 1⟩]) 2).map
    (fun ls => ls.map view) = .ok [[('a', [5]), ('b', [5, 1])], [('d', [5, 1]), (' ', [5])]] := by rfl

/-- **`detect_indentation()` is the gcd of the even space-indentations of the lines** (at least 1; 1 when there is
none or all are 0), a function of the characters alone -/
theorem detect_indentation_spec (t : Text σ) :
    1 ≤ t.detectIndentation ∧
    (∀ n ∈ evenIndents t.plain, t.detectIndentation ∣ n) ∧
    ((∃ n ∈ evenIndents t.plain, n ≠ 0) → ∀ d, (∀ n ∈ evenIndents t.plain, d ∣ n) → d ∣ t.detectIndentation) ∧
    ((∀ n ∈ evenIndents t.plain, n = 0) → t.detectIndentation = 1) :=
  detectIndentation_spec t

example : (Text.new Variant.repaired ("    a\n      b\n c".toList) (0 : Nat)).detectIndentation = 2 := by decide

/-- **`with_indent_guides` at full strength.**  With `text` the tab-expanded copy (what `expand_tabs_view` describes), a
guide string without strip-control characters and an indent size ≥ 1 (the argument, else `detect_indentation()`, which
is ≥ 1 by `detect_indentation_spec`): the call succeeds, the result is consistent, and its styled string is `guideLines`
of the lines of `text` (string-level split at newlines, a blank last line dropped) joined by newlines in the null style:
a non-blank line with `k` leading spaces shows the guide every `size` columns then `k % size` spaces in place of its
first characters, every position keeping the styles it had with the guide style on top of the new indentation
(`restyle`); a blank line comes out as the indentation of the NEXT non-blank line in the bare guide style, trailing blank
lines come out empty; everything sits under the null base style of the joining `Text("\n")`. -/
theorem with_indent_guides_view [BEq σ] (null : σ) (t text : Text σ) (indentSize : Option Nat) (character : List Char)
    (style : σ) (h : Inv t) (hch : NoCtl character) (hsize : 0 < indentSize.getD t.detectIndentation)
    (hexp : t.expandTabs Variant.repaired none = .ok text) :
    ∃ r, t.withIndentGuides Variant.repaired null indentSize character style = .ok r ∧ Inv r ∧
      r.view = List.intercalate [('\n', [null, null])]
        ((guideLines t.style (indentSize.getD t.detectIndentation)
            (character ++ List.replicate (indentSize.getD t.detectIndentation - 1) ' ') style
            (strSplit ['\n'] false false text.plain text.view) 0).map
          (fun l => l.map (fun p => (p.1, null :: p.2)))) :=
  withIndentGuides_view null t text indentSize character style h hch hsize hexp

example : (Text.withIndentGuides Variant.repaired (0 : Nat)
      (Text.new Variant.repaired "  a\n\n    b\n ".toList 5 [⟨0, 3, 1⟩]) none ['|'] 3).map view
    = .ok [('|', [0, 5, 1, 3]), (' ', [0, 5, 1, 3]), ('a', [0, 5, 1]), ('\n', [0, 0]),
           ('|', [0, 3]), (' ', [0, 3]), ('|', [0, 3]), (' ', [0, 3]), ('\n', [0, 0]),
           ('|', [0, 5, 3]), (' ', [0, 5, 3]), ('|', [0, 5, 3]), (' ', [0, 5, 3]), ('b', [0, 5]), ('\n', [0, 0])] := by
  rfl

example : List.intercalate [('\n', [(0 : Nat), 0])]
      ((guideLines (5 : Nat) 2 ['|', ' '] 3
          (strSplit ['\n'] false false "  a\n\n    b\n ".toList (Text.new Variant.repaired "  a\n\n    b\n ".toList 5 [⟨0, 3, 1⟩]).view) 0).map
        (fun l => l.map (fun p => (p.1, 0 :: p.2))))
    = [('|', [0, 5, 1, 3]), (' ', [0, 5, 1, 3]), ('a', [0, 5, 1]), ('\n', [0, 0]),
       ('|', [0, 3]), (' ', [0, 3]), ('|', [0, 3]), (' ', [0, 3]), ('\n', [0, 0]),
       ('|', [0, 5, 3]), (' ', [0, 5, 3]), ('|', [0, 5, 3]), (' ', [0, 5, 3]), ('b', [0, 5]), ('\n', [0, 0])] := by
  rfl

/-! ## the `_text` fragment list (`Model/TextFrag.lean`): what `Model/Text.lean` abstracts to `plain` -/

/-- **the fragment list refines the concatenation model**: for every operation that touches `_text` (`plain` getter
and setter, `append(str)`, `append(Text)`, `append_text`, `append_tokens`, `right_crop`, `copy`), updating the
fragment list as the code does and then joining the fragments is the abstract model's operation on the joined
string -/
theorem frag_refines_step (ft : FText σ) (op : FText.FOp σ) : (ft.step op).abs = FText.absStep ft.abs op :=
  FText.abs_step ft op

/-- …and so for every history of such operations, of any length -/
theorem frag_refines_history (ops : List (FText.FOp σ)) (ft : FText σ) :
    (ft.run ops).abs = ops.foldl FText.absStep ft.abs :=
  FText.abs_run ops ft

/-- **`plain`'s normalisation (join the fragments, reset `_text` to one fragment) is unobservable**: normalising
first, or reading `plain` before a history, leads to the same abstract text as not doing so — for every history -/
theorem plain_normalisation_unobservable (ops : List (FText.FOp σ)) (ft : FText σ) :
    ft.normalise.abs = ft.abs ∧ (ft.normalise.run ops).abs = (ft.run ops).abs ∧
    (ft.run (.getPlain :: ops)).abs = (ft.run ops).abs :=
  ⟨FText.abs_normalise ft, (FText.normalise_unobservable ops ft).1, (FText.normalise_unobservable ops ft).2⟩

example : ((FText.new Variant.repaired ['a', '\r'] (5 : Nat)).run
      [.appendStr ['b', '\x08'] (some 1), .appendTokens [(['c'], none), ([], some 2)], .getPlain, .appendText (FText.ofFrags Variant.repaired [['d'], ['e']] 3)]).frags
    = [['a', 'b', 'c'], ['d', 'e']] := by decide

/-- every operation of the complete set — `OpX` plus `split` with any non-empty separator and both flags, `fit`, `pad`,
`append_tokens`, `rstrip_end`, `with_indent_guides` — keeps the invariant -/
theorem inv_step_full [BEq σ] (cw : Char → Nat) (null : σ) (t t' : Text σ) (op : OpAll σ) (h : Inv t) (hp : op.Pre t)
    (hs : stepAll cw null t op = .ok t') : Inv t' :=
  inv_stepAll cw null t t' op h hp hs

/-- …and so does every history over the complete operation set, of any length, for any cell-width function -/
theorem inv_history_full [BEq σ] (cw : Char → Nat) (null : σ) (ops : List (OpAll σ)) (t t' : Text σ) (h : Inv t)
    (hp : HistPreAll cw null t ops) (hr : runAll cw null t ops = .ok t') : Inv t' :=
  inv_runAll cw null ops t t' h hp hr

/-- **after any history, what `render()` emits is the reference semantics**: for a text built by the constructor and
edited by any sequence of operations of the complete set inside the domain, `render` raises nothing and its
(character, style names) stream is `view` of the result -/
theorem history_render_full [BEq σ] (cw : Char → Nat) (null : σ) (ops : List (OpAll σ)) (t t' : Text σ) (h : Inv t)
    (hp : HistPreAll cw null t ops) (hr : runAll cw null t ops = .ok t') :
    ∃ segs, t'.render [] = .ok segs ∧ segStream segs = t'.view ∧ t'.length = (t'.view.length : Int) :=
  let hi := inv_runAll cw null ops t t' h hp hr
  let ⟨segs, h1, h2⟩ := render_view_aux t' hi
  ⟨segs, h1, h2, len_eq_view_length t' hi⟩

example : HistPreAll (fun _ => 1) (0 : Nat) (Text.new Variant.repaired ['a', 'a', 'a', '\n', ' ', ' ', 'b', ' '] 5 [⟨0, 3, 1⟩])
    [.splitAny ['a', 'a'] false true 1, .pad 1 '*', .appendTokens [(['x'], some 2)], .rstripEnd 3, .fit 4 0,
     .indentGuides none ['|'] 3] := by
  refine ⟨(by show (['a', 'a'] : List Char) ≠ []; simp), fun _ _ => ⟨(by show isStripCode '*' = false; decide), fun _ _ => ⟨?_, fun _ _ => ⟨trivial, fun _ _ => ⟨trivial, fun _ _ => ⟨?_, fun _ _ => trivial⟩⟩⟩⟩⟩⟩
  · intro tok htok c hc
    simp only [List.mem_singleton] at htok
    subst htok
    simp only [List.mem_singleton] at hc
    subst hc; decide
  · intro c hc
    simp only [List.mem_singleton] at hc
    subst hc; decide

end RichModel.C05
