import RichModel.Lemmas.Color
/-!
# C18 — colour down-conversion stays in gamut, is idempotent and picks the nearest entry

Property theorems only (helper lemmas and the specification predicates `Color.WF`, `Color.InGamut`,
`IsNearest`, `onGreyRamp`, `sgrSpec` live in `Lemmas/Color.lean`).

`P := richPalettes` are the palettes translated from `rich/_palettes.py` / `rich/terminal_theme.py`
on this run; the only facts used about them are the side conditions `palettes_ok` (sizes 16/16/256,
components ≤ 255), re-proved by `decide +kernel` on every run.

`cfg : Cfg` carries (i) the code-variant flag `stdViaPalette` (`true` = rich 9.10.0 as found, `Cfg.today` — the name dates from before
fix 2cec9e1; `false` = the repaired code that /repo contains now, `Cfg.repaired`) and (ii) the list `satExc` of (max, min) channel pairs where the IEEE-double
saturation test differs from the exact one.  Every theorem below holds for **every** such list —
no theorem depends on which way a floating point comparison fell — and, unless it says otherwise,
for both code variants.  No theorem enumerates colours.
-/
namespace RichModel.C18
open RichModel

/-- The palettes of this run. -/
abbrev P : Palettes := richPalettes

/-- Side condition on the *generated* tables: 16 / 16 / 256 entries, every component ≤ 255. -/
theorem palettes_ok : P.ok = true := by decide +kernel

/-- **In gamut, total.**  Converting any well-formed colour to any colour system never raises and
yields a colour representable in that system: for `standard` a STANDARD colour with number < 16 (or
default), for `windows` a WINDOWS colour with number < 16 (or default), for `eightBit` a colour that
is not truecolor with number < 256 (< 16 if it stayed STANDARD / WINDOWS); the name is kept. -/
theorem downgrade_in_gamut (cfg : Cfg) (c : Color) (sys : ColorSystem) (h : c.WF) :
    ∃ r, downgrade cfg P c sys = .ok r ∧ r.InGamut sys ∧ r.name = c.name :=
  downgrade_wf cfg P palettes_ok c sys h

/-- **Idempotent.**  Converting again changes nothing — for every colour (well-formed or not), every
palette and both code variants: whenever a conversion succeeds, converting its result succeeds with
the same result. -/
theorem downgrade_idem (cfg : Cfg) (Q : Palettes) (c r : Color) (sys : ColorSystem)
    (h : downgrade cfg Q c sys = .ok r) : downgrade cfg Q r sys = .ok r :=
  RichModel.downgrade_idem cfg Q c r sys h

/-- **Native colours are returned unchanged**: a colour whose type is the target system, any colour
when the target is truecolor, and any non-truecolor colour when the target is 256 colours. -/
theorem downgrade_fixed_if_native (cfg : Cfg) (Q : Palettes) (c : Color) (sys : ColorSystem)
    (h : c.type.toNat = sys.toNat ∨ sys = .truecolor ∨ (sys = .eightBit ∧ c.type ≠ .truecolor)) :
    downgrade cfg Q c sys = .ok c :=
  downgrade_native cfg Q c sys (Or.inr h)

/-- **Default stays default**, whatever else the colour object carries. -/
theorem default_stays (cfg : Cfg) (Q : Palettes) (c : Color) (sys : ColorSystem) (h : c.type = .default) :
    downgrade cfg Q c sys = .ok c :=
  downgrade_native cfg Q c sys (Or.inl h)

/-- **A colour that already is one of the 16 indices keeps its index** when converted to a 16-colour
system (only the type tag follows the system) — in the *repaired* code (fix 2cec9e1, what /repo contains now).  rich 9.10.0 as found broke this for
the `standard` target, see `old_downgrade_standard_renumbers`. -/
theorem downgrade_fixed_if_representable (cfg : Cfg) (hcfg : cfg.stdViaPalette = false) (Q : Palettes)
    (c : Color) (sys : ColorSystem) (n : Nat)
    (hsys : sys = .standard ∨ sys = .windows)
    (ht : c.type = .standard ∨ c.type = .eightBit ∨ c.type = .windows)
    (hn : c.number = some n) (h16 : n < 16) :
    ∃ r, downgrade cfg Q c sys = .ok r ∧ r.number = some n ∧ r.type = sys.type16 ∧ r.name = c.name :=
  downgrade_keeps_index cfg hcfg Q c sys n hsys ht hn h16

/-- **`Palette.match` is the argmin**, for every palette and colour: the returned index `k` is in
range, no entry is closer than entry `k` under the weighted-RGB metric, and every earlier entry is
strictly farther (ties go to the lowest index). -/
theorem match_is_argmin (pal : List Triplet) (c : Triplet) (k : Nat) (h : paletteMatch pal c = .ok k) :
    k < pal.length ∧ ∃ p, pal[k]? = some p ∧
      ∀ j q, pal[j]? = some q → colorDist2 c p ≤ colorDist2 c q ∧ (j < k → colorDist2 c p < colorDist2 c q) :=
  ⟨(paletteMatch_spec pal c k h).lt, paletteMatch_spec pal c k h⟩

/-- …and it only fails on an empty palette. -/
theorem match_total (pal : List Triplet) (c : Triplet) (h : pal ≠ []) : ∃ k, paletteMatch pal c = .ok k :=
  paletteMatch_ok pal c h

/-- The specification determines the answer: two indices that both satisfy it are equal. -/
theorem nearest_unique (pal : List Triplet) (c : Triplet) (k k' : Nat)
    (h : IsNearest pal c k) (h' : IsNearest pal c k') : k = k' :=
  h.unique h'

/-- **Conversion to a 16-colour palette picks the nearest entry.**  For a truecolor colour (source =
its triplet) or an 8-bit colour with number ≥ 16 (source = its 8-bit palette entry), the result's
number is the first entry of minimum distance from the source in the target palette. -/
theorem downgrade_picks_nearest (cfg : Cfg) (Q : Palettes) (c r : Color) (sys : ColorSystem) (t : Triplet)
    (hsys : sys = .standard ∨ sys = .windows)
    (hsrc : sourceTriplet Q c = some t)
    (hbig : c.type = .eightBit → ∀ n, c.number = some n → 16 ≤ n)
    (h : downgrade cfg Q c sys = .ok r) :
    ∃ k, r.number = some k ∧ r.type = sys.type16 ∧
      IsNearest (if sys = .windows then Q.windows else Q.standard) t k :=
  downgrade_nearest cfg Q c r sys t hsys hsrc hbig h

/-- The integer under the square root in `get_color_distance` is at most 649,740 for colours in
range — the bound up to which the harness checks that `math.sqrt` is strictly increasing, which is
what makes the argmin over floats the argmin over these integers. -/
theorem dist2_le (c p : Triplet) (hc : c.WF) (hp : p.WF) : colorDist2 c p ≤ 649740 :=
  colorDist2_le c p hc hp

/-- **Truecolor → 256 colours lands in 16..255**; when the saturation test says "grey" the result is
on the grey ramp or black/white, otherwise it is the 6×6×6 cube entry with coordinates
`(c + 25) / 51` (= `round(c / 255 * 5)`, proved from the round-half-even definition). -/
theorem eight_bit_number_range (exc : List (Nat × Nat)) (t : Triplet) (h : t.WF) :
    16 ≤ toEightBitNumber exc t ∧ toEightBitNumber exc t ≤ 255 ∧
    (satLow exc t = true → onGreyRamp (toEightBitNumber exc t)) ∧
    (satLow exc t = false →
      toEightBitNumber exc t = 16 + 36 * ((t.red + 25) / 51) + 6 * ((t.green + 25) / 51) + (t.blue + 25) / 51 ∧
      toEightBitNumber exc t ≤ 231) :=
  ⟨(toEightBitNumber_range exc t h).1, (toEightBitNumber_range exc t h).2,
   toEightBitNumber_grey exc t h,
   fun hs => ⟨(toEightBitNumber_cube exc t h hs).1, (toEightBitNumber_cube exc t h hs).2.2⟩⟩

/-- The tabulated float exceptions are all exact ties `s = 1/10` with `min < max ≤ 255`: the model's
saturation test is the exact rational one except at nine points *on* its boundary. -/
theorem sat_exceptions_are_ties :
    ∀ p ∈ satExcDouble, p.2 < p.1 ∧ p.1 ≤ 255 ∧
      10 * (p.1 - p.2) = (if p.1 + p.2 ≤ 255 then p.1 + p.2 else 510 - p.1 - p.2) := by decide

/-- **Greys land on the grey ramp or black/white**: for `r = g = b = v`, whatever the float
exception list, the conversion to 256 colours gives number 16, 231 or 232..255 — namely the grey
level `(10 v + 51) / 102` (= `round(v / 255 * 25)`) mapped 0 ↦ 16, 25 ↦ 231, g ↦ 231 + g. -/
theorem grey_on_ramp (cfg : Cfg) (Q : Palettes) (name : List Char) (v : Nat) (hv : v ≤ 255) :
    ∃ n, downgrade cfg Q { name := name, type := .truecolor, number := none, triplet := some ⟨v, v, v⟩ } .eightBit
        = .ok { name := name, type := .eightBit, number := some n, triplet := none } ∧
      onGreyRamp n ∧
      n = (if (10 * v + 51) / 102 = 0 then 16 else if (10 * v + 51) / 102 = 25 then 231 else 231 + (10 * v + 51) / 102) := by
  refine ⟨toEightBitNumber cfg.satExc ⟨v, v, v⟩, ?_, ?_, ?_⟩
  · simp [downgrade, Color.system, ColorType.toNat, ColorSystem.toNat, assertSome, bind, Except.bind]
  · exact toEightBitNumber_grey _ _ ⟨hv, hv, hv⟩ (by simp [satLow, Triplet.maxc, Triplet.minc])
  · simp [toEightBitNumber, satLow, Triplet.maxc, Triplet.minc, grayLevel, pyRound_gray_diag]

/-- **The SGR parameters are the standard ones for the colour's kind**: 39/49; 30-37 / 90-97
(foreground) and 40-47 / 100-107 (background) for the 16 STANDARD or WINDOWS colours; 38;5;n /
48;5;n; 38;2;r;g;b / 48;2;r;g;b — and `get_ansi_codes` never raises on a well-formed colour. -/
theorem ansi_codes_standard (c : Color) (fg : Bool) (h : c.WF) : getAnsiCodes c fg = .ok (sgrSpec c fg) :=
  getAnsiCodes_spec c fg h

/-- The ranges, spelled out for the 16-colour kinds. -/
theorem ansi_codes_16_ranges (c : Color) (fg : Bool) (h : c.WF) (ht : c.type = .standard ∨ c.type = .windows) :
    ∃ code, getAnsiCodes c fg = .ok [code] ∧
      (fg = true → (30 ≤ code ∧ code ≤ 37) ∨ (90 ≤ code ∧ code ≤ 97)) ∧
      (fg = false → (40 ≤ code ∧ code ≤ 47) ∨ (100 ≤ code ∧ code ≤ 107)) := by
  rw [ansi_codes_standard c fg h]
  obtain ⟨name, type, number, triplet⟩ := c
  rcases ht with ht | ht <;> simp only at ht <;> subst ht <;> simp only [Color.WF] at h <;>
    obtain ⟨⟨n, rfl, hn⟩, rfl⟩ := h <;>
    refine ⟨_, rfl, ?_, ?_⟩ <;> intro hf <;> subst hf <;> simp <;> split <;> omega

/-- After any conversion of a well-formed colour the generated codes are the standard ones for the
*converted* colour (composition of `downgrade_in_gamut` and `ansi_codes_standard`). -/
theorem ansi_codes_after_downgrade (cfg : Cfg) (c : Color) (sys : ColorSystem) (fg : Bool) (h : c.WF) :
    ∃ r, downgrade cfg P c sys = .ok r ∧ getAnsiCodes r fg = .ok (sgrSpec r fg) := by
  obtain ⟨r, hr, hg, _⟩ := downgrade_in_gamut cfg c sys h
  refine ⟨r, hr, ansi_codes_standard r fg ?_⟩
  cases sys <;> simp only [Color.InGamut] at hg
  · exact hg.1
  · exact hg.1
  · exact hg
  · exact hg.1

/-! ## Non-vacuity: the hypotheses are met by concrete, non-trivial values -/

/-- orange, `#ff8700` -/
def orange : Color := { name := "#ff8700".toList, type := .truecolor, triplet := some ⟨255, 135, 0⟩ }

example : orange.WF := ⟨rfl, _, rfl, by decide, by decide, by decide⟩
example : downgrade Cfg.today P orange .eightBit = .ok { orange with type := .eightBit, number := some 214, triplet := none } := by decide
example : downgrade Cfg.today P orange .standard = .ok { orange with type := .standard, number := some 9, triplet := none } := by decide
example : downgrade Cfg.today P orange .windows = .ok { orange with type := .windows, number := some 3, triplet := none } := by decide
example : sourceTriplet P orange = some ⟨255, 135, 0⟩ := rfl
example : sourceTriplet P { name := [], type := .eightBit, number := some 208 } = some ⟨255, 135, 0⟩ := by decide
example : paletteMatch P.standard ⟨0, 0, 85⟩ = .ok 0 ∧ colorDist2 ⟨0, 0, 85⟩ ⟨0, 0, 0⟩ = colorDist2 ⟨0, 0, 85⟩ ⟨0, 0, 170⟩ := by
  decide  -- an exact tie between entries 0 and 4: the lowest index wins
example : satLow satExcDouble ⟨55, 45, 50⟩ = true ∧ satLowExact 55 45 = false := by decide  -- a float exception
example : getAnsiCodes { name := [], type := .standard, number := some 9 } true = .ok [91] := by decide
example : getAnsiCodes { name := [], type := .windows, number := some 15 } false = .ok [107] := by decide

/-! ## Witness: the defect found in rich 9.10.0 as found, before fix 2cec9e1 (variant `stdViaPalette = true`) -/

/-- The as-found `downgrade(STANDARD)` of the 16-colour WINDOWS colour 8 ("bright black") goes through
`EIGHT_BIT_PALETTE[8] = (128,128,128)` and the palette search and comes back as colour 7 ("white"):
`downgrade_fixed_if_representable` is false for the code as found. -/
theorem old_downgrade_standard_renumbers :
    downgrade Cfg.today P { name := [], type := .windows, number := some 8 } .standard
      = .ok { name := [], type := .standard, number := some 7 } := by decide

/-- …and the same input under the repaired variant keeps its index. -/
theorem repaired_downgrade_standard_keeps :
    downgrade Cfg.repaired P { name := [], type := .windows, number := some 8 } .standard
      = .ok { name := [], type := .standard, number := some 8 } := by decide

end RichModel.C18
