import RichModel.Lemmas.Color
import RichModel.Lemmas.ColorExtra
import RichModel.Lemmas.ColorMore
import RichModel.Lemmas.ColorFloat
/-!
# C18 — colour down-conversion stays in gamut, is idempotent and picks the nearest entry

Property theorems only (helper lemmas and the specification predicates `Color.WF`, `Color.InGamut`,
`IsNearest`, `onGreyRamp`, `sgrSpec`, `sourceTriplet` live in `Lemmas/Color.lean`; those of the second
half — `get_truecolor` / `TerminalTheme` (`truecolorSpec`, `displayPalette`), `ColorTriplet.hex` /
`parse_rgb_hex`, `blend_rgb` — in `Lemmas/ColorExtra.lean`; those of the fourth deepening — the saturation
decision against exact arithmetic, `blend_rgb` in IEEE doubles, `parse_rgb_hex` on any string, `is_default` /
`is_system_defined` — in `Lemmas/ColorMore.lean`, `Lemmas/ColorFloat.lean`).  49 theorems.

`P := richPalettes` are the palettes translated from `rich/_palettes.py` / `rich/terminal_theme.py`
on this run; the only facts used about them are the side conditions `palettes_ok` (sizes 16/16/256,
components ≤ 255) and `default_theme_ok` (the default theme has 16 ANSI colours), re-proved by
`decide +kernel` on every run (`standard_display_is_theme_dependent` states two concrete table values
as a documented observation, not a finding).

`cfg : Cfg` carries (i) the code-variant flag `stdViaPalette` (`true` = rich 9.10.0 as found, `Cfg.today` — the name dates from before
fix 2cec9e1; `false` = the repaired code that /repo contains now, `Cfg.repaired`) and (ii) the list `satExc` of (max, min) channel pairs where the IEEE-double
saturation test differs from the exact one.  Every theorem below holds for **every** such list —
no theorem depends on which way a floating point comparison fell — and, unless it says otherwise,
for both code variants.  No theorem enumerates colours.
-/
namespace RichModel.C18
open RichModel

/-- The palettes of this run. -/
abbrev P : Palettes := richPalettes

/-- Side condition on the *generated* tables: 16 / 16 / 256 entries, every component ≤ 255. -/
theorem palettes_ok : P.ok = true := by decide +kernel

/-- **In gamut, total.**  Converting any well-formed colour to any colour system never raises and
yields a colour representable in that system: for `standard` a STANDARD colour with number < 16 (or
default), for `windows` a WINDOWS colour with number < 16 (or default), for `eightBit` a colour that
is not truecolor with number < 256 (< 16 if it stayed STANDARD / WINDOWS); the name is kept. -/
theorem downgrade_in_gamut (cfg : Cfg) (c : Color) (sys : ColorSystem) (h : c.WF) :
    ∃ r, downgrade cfg P c sys = .ok r ∧ r.InGamut sys ∧ r.name = c.name :=
  downgrade_wf cfg P palettes_ok c sys h

/-- **Idempotent.**  Converting again changes nothing — for every colour (well-formed or not), every
palette and both code variants: whenever a conversion succeeds, converting its result succeeds with
the same result. -/
theorem downgrade_idem (cfg : Cfg) (Q : Palettes) (c r : Color) (sys : ColorSystem)
    (h : downgrade cfg Q c sys = .ok r) : downgrade cfg Q r sys = .ok r :=
  RichModel.downgrade_idem cfg Q c r sys h

/-- **Native colours are returned unchanged**: a colour whose type is the target system, any colour
when the target is truecolor, and any non-truecolor colour when the target is 256 colours. -/
theorem downgrade_fixed_if_native (cfg : Cfg) (Q : Palettes) (c : Color) (sys : ColorSystem)
    (h : c.type.toNat = sys.toNat ∨ sys = .truecolor ∨ (sys = .eightBit ∧ c.type ≠ .truecolor)) :
    downgrade cfg Q c sys = .ok c :=
  downgrade_native cfg Q c sys (Or.inr h)

/-- **Default stays default**, whatever else the colour object carries. -/
theorem default_stays (cfg : Cfg) (Q : Palettes) (c : Color) (sys : ColorSystem) (h : c.type = .default) :
    downgrade cfg Q c sys = .ok c :=
  downgrade_native cfg Q c sys (Or.inl h)

/-- **A colour that already is one of the 16 indices keeps its index** when converted to a 16-colour
system (only the type tag follows the system) — in the *repaired* code (fix 2cec9e1, what /repo contains now).  rich 9.10.0 as found broke this for
the `standard` target, see `old_downgrade_standard_renumbers`. -/
theorem downgrade_fixed_if_representable (cfg : Cfg) (hcfg : cfg.stdViaPalette = false) (Q : Palettes)
    (c : Color) (sys : ColorSystem) (n : Nat)
    (hsys : sys = .standard ∨ sys = .windows)
    (ht : c.type = .standard ∨ c.type = .eightBit ∨ c.type = .windows)
    (hn : c.number = some n) (h16 : n < 16) :
    ∃ r, downgrade cfg Q c sys = .ok r ∧ r.number = some n ∧ r.type = sys.type16 ∧ r.name = c.name :=
  downgrade_keeps_index cfg hcfg Q c sys n hsys ht hn h16

/-- **`Palette.match` is the argmin**, for every palette and colour: the returned index `k` is in
range, no entry is closer than entry `k` under the weighted-RGB metric, and every earlier entry is
strictly farther (ties go to the lowest index). -/
theorem match_is_argmin (pal : List Triplet) (c : Triplet) (k : Nat) (h : paletteMatch pal c = .ok k) :
    k < pal.length ∧ ∃ p, pal[k]? = some p ∧
      ∀ j q, pal[j]? = some q → colorDist2 c p ≤ colorDist2 c q ∧ (j < k → colorDist2 c p < colorDist2 c q) :=
  ⟨(paletteMatch_spec pal c k h).lt, paletteMatch_spec pal c k h⟩

/-- …and it only fails on an empty palette. -/
theorem match_total (pal : List Triplet) (c : Triplet) (h : pal ≠ []) : ∃ k, paletteMatch pal c = .ok k :=
  paletteMatch_ok pal c h

/-- The specification determines the answer: two indices that both satisfy it are equal. -/
theorem nearest_unique (pal : List Triplet) (c : Triplet) (k k' : Nat)
    (h : IsNearest pal c k) (h' : IsNearest pal c k') : k = k' :=
  h.unique h'

/-- **Conversion to a 16-colour palette picks the nearest entry.**  For a truecolor colour (source =
its triplet) or an 8-bit colour with number ≥ 16 (source = its 8-bit palette entry), the result's
number is the first entry of minimum distance from the source in the target palette. -/
theorem downgrade_picks_nearest (cfg : Cfg) (Q : Palettes) (c r : Color) (sys : ColorSystem) (t : Triplet)
    (hsys : sys = .standard ∨ sys = .windows)
    (hsrc : sourceTriplet Q c = some t)
    (hbig : c.type = .eightBit → ∀ n, c.number = some n → 16 ≤ n)
    (h : downgrade cfg Q c sys = .ok r) :
    ∃ k, r.number = some k ∧ r.type = sys.type16 ∧
      IsNearest (if sys = .windows then Q.windows else Q.standard) t k :=
  downgrade_nearest cfg Q c r sys t hsys hsrc hbig h

/-- The integer under the square root in `get_color_distance` is at most 649,740 for colours in
range — the bound up to which the harness checks that `math.sqrt` is strictly increasing, which is
what makes the argmin over floats the argmin over these integers. -/
theorem dist2_le (c p : Triplet) (hc : c.WF) (hp : p.WF) : colorDist2 c p ≤ 649740 :=
  colorDist2_le c p hc hp

/-- **Truecolor → 256 colours lands in 16..255**; when the saturation test says "grey" the result is
on the grey ramp or black/white, otherwise it is the 6×6×6 cube entry with coordinates
`(c + 25) / 51` (= `round(c / 255 * 5)`, proved from the round-half-even definition). -/
theorem eight_bit_number_range (exc : List (Nat × Nat)) (t : Triplet) (h : t.WF) :
    16 ≤ toEightBitNumber exc t ∧ toEightBitNumber exc t ≤ 255 ∧
    (satLow exc t = true → onGreyRamp (toEightBitNumber exc t)) ∧
    (satLow exc t = false →
      toEightBitNumber exc t = 16 + 36 * ((t.red + 25) / 51) + 6 * ((t.green + 25) / 51) + (t.blue + 25) / 51 ∧
      toEightBitNumber exc t ≤ 231) :=
  ⟨(toEightBitNumber_range exc t h).1, (toEightBitNumber_range exc t h).2,
   toEightBitNumber_grey exc t h,
   fun hs => ⟨(toEightBitNumber_cube exc t h hs).1, (toEightBitNumber_cube exc t h hs).2.2⟩⟩

/-- The tabulated float exceptions are all exact ties `s = 1/10` with `min < max ≤ 255`: the model's
saturation test is the exact rational one except at nine points *on* its boundary. -/
theorem sat_exceptions_are_ties :
    ∀ p ∈ satExcDouble, p.2 < p.1 ∧ p.1 ≤ 255 ∧
      10 * (p.1 - p.2) = (if p.1 + p.2 ≤ 255 then p.1 + p.2 else 510 - p.1 - p.2) := by decide

/-- **Greys land on the grey ramp or black/white**: for `r = g = b = v`, whatever the float
exception list, the conversion to 256 colours gives number 16, 231 or 232..255 — namely the grey
level `(10 v + 51) / 102` (= `round(v / 255 * 25)`) mapped 0 ↦ 16, 25 ↦ 231, g ↦ 231 + g. -/
theorem grey_on_ramp (cfg : Cfg) (Q : Palettes) (name : List Char) (v : Nat) (hv : v ≤ 255) :
    ∃ n, downgrade cfg Q { name := name, type := .truecolor, number := none, triplet := some ⟨v, v, v⟩ } .eightBit
        = .ok { name := name, type := .eightBit, number := some n, triplet := none } ∧
      onGreyRamp n ∧
      n = (if (10 * v + 51) / 102 = 0 then 16 else if (10 * v + 51) / 102 = 25 then 231 else 231 + (10 * v + 51) / 102) := by
  refine ⟨toEightBitNumber cfg.satExc ⟨v, v, v⟩, ?_, ?_, ?_⟩
  · simp [downgrade, Color.system, ColorType.toNat, ColorSystem.toNat, assertSome, bind, Except.bind]
  · exact toEightBitNumber_grey _ _ ⟨hv, hv, hv⟩ (by simp [satLow, Triplet.maxc, Triplet.minc])
  · simp [toEightBitNumber, satLow, Triplet.maxc, Triplet.minc, grayLevel, pyRound_gray_diag]

/-- **The SGR parameters are the standard ones for the colour's kind**: 39/49; 30-37 / 90-97
(foreground) and 40-47 / 100-107 (background) for the 16 STANDARD or WINDOWS colours; 38;5;n /
48;5;n; 38;2;r;g;b / 48;2;r;g;b — and `get_ansi_codes` never raises on a well-formed colour. -/
theorem ansi_codes_standard (c : Color) (fg : Bool) (h : c.WF) : getAnsiCodes c fg = .ok (sgrSpec c fg) :=
  getAnsiCodes_spec c fg h

/-- The ranges, spelled out for the 16-colour kinds. -/
theorem ansi_codes_16_ranges (c : Color) (fg : Bool) (h : c.WF) (ht : c.type = .standard ∨ c.type = .windows) :
    ∃ code, getAnsiCodes c fg = .ok [code] ∧
      (fg = true → (30 ≤ code ∧ code ≤ 37) ∨ (90 ≤ code ∧ code ≤ 97)) ∧
      (fg = false → (40 ≤ code ∧ code ≤ 47) ∨ (100 ≤ code ∧ code ≤ 107)) := by
  rw [ansi_codes_standard c fg h]
  obtain ⟨name, type, number, triplet⟩ := c
  rcases ht with ht | ht <;> simp only at ht <;> subst ht <;> simp only [Color.WF] at h <;>
    obtain ⟨⟨n, rfl, hn⟩, rfl⟩ := h <;>
    refine ⟨_, rfl, ?_, ?_⟩ <;> intro hf <;> subst hf <;> simp <;> split <;> omega

/-- After any conversion of a well-formed colour the generated codes are the standard ones for the
*converted* colour (composition of `downgrade_in_gamut` and `ansi_codes_standard`). -/
theorem ansi_codes_after_downgrade (cfg : Cfg) (c : Color) (sys : ColorSystem) (fg : Bool) (h : c.WF) :
    ∃ r, downgrade cfg P c sys = .ok r ∧ getAnsiCodes r fg = .ok (sgrSpec r fg) := by
  obtain ⟨r, hr, hg, _⟩ := downgrade_in_gamut cfg c sys h
  refine ⟨r, hr, ansi_codes_standard r fg ?_⟩
  cases sys <;> simp only [Color.InGamut] at hg
  · exact hg.1
  · exact hg.1
  · exact hg
  · exact hg.1

/-! ## What a colour is displayed as: `get_truecolor`, terminal themes -/

/-- Side condition on the *generated* default theme: `DEFAULT_TERMINAL_THEME.ansi_colors` has 16 entries. -/
theorem default_theme_ok : P.defaultTheme.ansiColors.length = 16 := by decide +kernel

/-- `TerminalTheme(background, foreground, normal, bright)` holds `normal + (bright or normal)`
(an empty `bright` counts as absent), and the two colours it was given. -/
theorem theme_init_spec (bg fg : Triplet) (normal : List Triplet) (bright : Option (List Triplet)) :
    (TerminalTheme.init bg fg normal bright).ansiColors =
      normal ++ (match bright with | some (b :: bs) => b :: bs | _ => normal) ∧
    (TerminalTheme.init bg fg normal bright).backgroundColor = bg ∧
    (TerminalTheme.init bg fg normal bright).foregroundColor = fg :=
  themeInit_ansiColors bg fg normal bright

/-- With 8 normal colours and 8 (or no, or an empty list of) bright colours, `ansi_colors` has 16 entries. -/
theorem theme_init_length (bg fg : Triplet) (normal : List Triplet) (bright : Option (List Triplet))
    (hn : normal.length = 8) (hb : ∀ b, bright = some b → b.length = 8 ∨ b = []) :
    (TerminalTheme.init bg fg normal bright).ansiColors.length = 16 :=
  themeInit_length bg fg normal bright hn hb

/-- **`get_truecolor` specification and totality**: for every well-formed colour and every theme with
(at least) 16 ANSI colours the call succeeds and returns: a truecolor colour's own triplet;
`EIGHT_BIT_PALETTE[n]`; `theme.ansi_colors[n]` for STANDARD; `WINDOWS_PALETTE[n]`; the theme's
foreground / background colour for the default colour, chosen by `foreground`. -/
theorem get_truecolor_spec (theme : TerminalTheme) (hT : 16 ≤ theme.ansiColors.length)
    (c : Color) (fg : Bool) (h : c.WF) :
    ∃ t, getTruecolorT P theme c fg = .ok t ∧ truecolorSpec P theme c fg = some t :=
  getTruecolorT_spec P palettes_ok theme hT c fg h

/-- …for `theme=None` (the default terminal theme). -/
theorem get_truecolor_default_theme (c : Color) (fg : Bool) (h : c.WF) :
    ∃ t, getTruecolor P c fg = .ok t ∧ truecolorSpec P P.defaultTheme c fg = some t :=
  getTruecolorT_spec P palettes_ok P.defaultTheme (Nat.le_of_eq default_theme_ok.symm) c fg h

/-- Whenever `get_truecolor` returns (any colour object, any palettes, any theme), it returns what
the specification says — the only error-free route outside the specification is ruled out by the
`assert self.number is None` of the default branch. -/
theorem get_truecolor_sound (Q : Palettes) (theme : TerminalTheme) (c : Color) (fg : Bool) (t : Triplet)
    (h : getTruecolorT Q theme c fg = .ok t) : truecolorSpec Q theme c fg = some t := by
  refine getTruecolorT_sound Q theme c fg t h ?_
  intro hd
  obtain ⟨name, type, number, triplet⟩ := c
  simp only at hd; subst hd
  cases number with
  | none => rfl
  | some n => simp [getTruecolorT] at h

/-- **The RGB a colour downgraded to 16 colours denotes is the entry at the matched index**: for a
truecolor or 8-bit (≥ 16) colour with source RGB `t`, `get_truecolor` of the downgraded colour is entry
`k` of the palette it is displayed with, where `k` is the first nearest entry of the *search* palette.
For WINDOWS the display palette **is** the search palette (`WINDOWS_PALETTE`), so the colour shown is
exactly the matched entry; for STANDARD the search runs over `STANDARD_PALETTE` while the display
palette is the theme's `ansi_colors` (see `standard_display_is_theme_dependent`). -/
theorem downgrade_then_truecolor_is_palette_entry (cfg : Cfg) (Q : Palettes) (theme : TerminalTheme)
    (c r : Color) (sys : ColorSystem) (t : Triplet) (fg : Bool)
    (hsys : sys = .standard ∨ sys = .windows)
    (hsrc : sourceTriplet Q c = some t)
    (hbig : c.type = .eightBit → ∀ n, c.number = some n → 16 ≤ n)
    (h : downgrade cfg Q c sys = .ok r) :
    ∃ k, IsNearest (if sys = .windows then Q.windows else Q.standard) t k ∧
      getTruecolorT Q theme r fg = paletteGet (displayPalette Q theme sys) k :=
  downgrade16_then_truecolor cfg Q theme c r sys t fg hsys hsrc hbig h

/-- WINDOWS, spelled out: the triplet shown is the nearest `WINDOWS_PALETTE` entry itself. -/
theorem downgrade_windows_shows_matched_entry (cfg : Cfg) (Q : Palettes) (theme : TerminalTheme)
    (c r : Color) (t : Triplet) (fg : Bool)
    (hsrc : sourceTriplet Q c = some t)
    (hbig : c.type = .eightBit → ∀ n, c.number = some n → 16 ≤ n)
    (h : downgrade cfg Q c .windows = .ok r) :
    ∃ k p, IsNearest Q.windows t k ∧ Q.windows[k]? = some p ∧ getTruecolorT Q theme r fg = .ok p := by
  obtain ⟨k, hk, hg⟩ := downgrade16_then_truecolor cfg Q theme c r .windows t fg (Or.inr rfl) hsrc hbig h
  simp only [if_true, displayPalette] at hk hg
  obtain ⟨p, hp, _⟩ := hk
  exact ⟨k, p, ⟨p, hp, by assumption⟩, hp, by rw [hg]; simp [paletteGet, hp]⟩

/-- Truecolor → 256 colours: the colour shown is `EIGHT_BIT_PALETTE[n]` for the computed number `n`. -/
theorem downgrade_eight_bit_then_truecolor (cfg : Cfg) (theme : TerminalTheme) (name : List Char)
    (t : Triplet) (ht : t.WF) (fg : Bool) :
    ∃ r p, downgrade cfg P { name := name, type := .truecolor, number := none, triplet := some t } .eightBit = .ok r ∧
      P.eightBit[toEightBitNumber cfg.satExc t]? = some p ∧ getTruecolorT P theme r fg = .ok p :=
  downgrade256_then_truecolor cfg P palettes_ok theme name t ht fg

/-- Observation (not a defect — standard colours are defined by the terminal): with the default
theme, STANDARD colour 1 is searched as `(170,0,0)` but displayed as `(128,0,0)`. -/
theorem standard_display_is_theme_dependent :
    P.standard[1]? = some ⟨170, 0, 0⟩ ∧ getTruecolor P { name := [], type := .standard, number := some 1 } true = .ok ⟨128, 0, 0⟩ := by
  decide +kernel

/-! ## `ColorTriplet.hex`, `parse_rgb_hex`, `blend_rgb` -/

/-- `parse_rgb_hex` inverts `ColorTriplet.hex` (without its `#`) for every triplet in range. -/
theorem parse_rgb_hex_roundtrip (t : Triplet) (h : t.WF) :
    t.hex.length = 7 ∧ parseRgbHex (t.hex.drop 1) = .ok ((t.red : Int), (t.green : Int), (t.blue : Int)) :=
  parseRgbHex_hex t h

/-- …and raises `AssertionError` on anything that is not six characters long. -/
theorem parse_rgb_hex_length (s : List Char) (h : s.length ≠ 6) : parseRgbHex s = .error .assertionError :=
  parseRgbHex_len s h

/-- **`blend_rgb` stays between its arguments** for a cross-fade `k / 2^n` in `[0, 1]` (hence in
gamut), returns `color1` at 0 and `color2` at 1 — for every `n`. -/
theorem blend_rgb_in_range (c1 c2 : Nat) (k : Int) (n : Nat) (h0 : 0 ≤ k) (h1 : k ≤ ((2 ^ n : Nat) : Int)) :
    ((min c1 c2 : Nat) : Int) ≤ blendChannel c1 c2 k n ∧ blendChannel c1 c2 k n ≤ ((max c1 c2 : Nat) : Int) :=
  blendChannel_range c1 c2 k n h0 h1

theorem blend_rgb_endpoints (t1 t2 : Triplet) (n : Nat) :
    blendRgb t1 t2 0 n = ((t1.red : Int), (t1.green : Int), (t1.blue : Int)) ∧
    blendRgb t1 t2 ((2 ^ n : Nat) : Int) n = ((t2.red : Int), (t2.green : Int), (t2.blue : Int)) := by
  refine ⟨by simp [blendRgb, blendChannel_zero], ?_⟩
  unfold blendRgb
  rw [blendChannel_one, blendChannel_one, blendChannel_one]

/-! ## Fourth deepening: float facts as theorems, `blend_rgb` in doubles, `int(…, 16)` on Unicode, the rest of the surface -/

/-- **The saturation test is the exact rational one except exactly at the nine listed pairs** — for every
triplet, no bound on the components: `satLow` (what the model uses for `rgb_to_hls(…)[2] < 0.1`) equals
`satLowRat` (`s < 1/10` in exact arithmetic, `s = 0` when max = min) iff (max, min) is not in `satExcDouble`.
The harness evaluates the same statement on the real `colorsys` for all 32,896 pairs on every run. -/
theorem sat_decision_exact_except_listed (t : Triplet) :
    satLow satExcDouble t = satLowRat t ↔ (t.maxc, t.minc) ∉ satExcDouble :=
  satLow_eq_rat_iff t

/-- …and at a listed pair the double computation says "grey" where exact arithmetic (a tie, see
`sat_exceptions_are_ties`) says "not grey": the only effect is that nine tie classes go to the grey ramp. -/
theorem sat_exception_direction (t : Triplet) (h : (t.maxc, t.minc) ∈ satExcDouble) :
    satLow satExcDouble t = true ∧ satLowRat t = false :=
  satLow_at_exception t h

/-- `Color.is_system_defined`: exactly the default, STANDARD and WINDOWS colours. -/
theorem is_system_defined_spec (c : Color) :
    c.isSystemDefined = true ↔ c.type = .default ∨ c.type = .standard ∨ c.type = .windows :=
  isSystemDefined_iff c

/-- `Color.is_default`: exactly the colours of type DEFAULT — and those are the ones whose SGR parameter is 39 / 49. -/
theorem is_default_spec (c : Color) (fg : Bool) :
    (c.isDefault = true ↔ c.type = .default) ∧
    (c.isDefault = true → getAnsiCodes c fg = .ok [if fg then 39 else 49]) := by
  refine ⟨isDefault_iff c, fun h => ?_⟩
  have ht := (isDefault_iff c).1 h
  simp [getAnsiCodes, ht]

/-- **A colour downgraded to a 16-colour system is system-defined** (its RGB value is the terminal's to choose). -/
theorem downgrade16_is_system_defined (cfg : Cfg) (c : Color) (sys : ColorSystem) (h : c.WF)
    (hsys : sys = .standard ∨ sys = .windows) :
    ∃ r, downgrade cfg P c sys = .ok r ∧ r.isSystemDefined = true := by
  obtain ⟨r, hr, hg, _⟩ := downgrade_in_gamut cfg c sys h
  exact ⟨r, hr, inGamut16_systemDefined r sys hsys hg⟩

/-- `parse_rgb_hex` on arbitrary strings (`parseRgbHexU`: Unicode decimal digits and white space are read as
their ASCII forms, any other non-ASCII character is a `ValueError`) **extends** the ASCII model. -/
theorem parse_rgb_hex_unicode_extends_ascii (s : List Char) (h : ∀ c ∈ s, c.toNat < 128) :
    parseRgbHexU s = parseRgbHex s :=
  parseRgbHexU_ascii s h

theorem parse_rgb_hex_unicode_length (s : List Char) (h : s.length ≠ 6) : parseRgbHexU s = .error .assertionError :=
  parseRgbHexU_len s h

/-- Side condition on the *generated* runtime table of Unicode decimal digits (`Gen.strDecimalRuns`, from the
running Python): every run is ten consecutive code points with values 0..9, so the translation of a digit is
always one of `'0'..'9'`; only the first run is ASCII. -/
theorem decimal_runs_ok :
    Gen.strDecimalRuns.all (fun r => r.1 + 9 == r.2.1 && r.2.2 == 0 && (r.1 == 48 || 128 ≤ r.1)) = true := by
  decide +kernel

/-- The dyadic model of `blend_rgb` is the exact-rational one at `cross_fade = k / 2^n`. -/
theorem blend_dyadic_is_rational (c1 c2 : Nat) (k : Int) (n : Nat) :
    blendChannel c1 c2 k n = blendChannelQ c1 c2 k (2 ^ n) :=
  blendChannel_eq_Q c1 c2 k n

/-- **The exact-rational blend stays between its arguments** for every `cross_fade = num / den` in [0, 1]. -/
theorem blend_rgb_rational_in_range (c1 c2 : Nat) (num : Int) (den : Nat) (hden : 0 < den) (h0 : 0 ≤ num)
    (h1 : num ≤ (den : Int)) :
    ((min c1 c2 : Nat) : Int) ≤ blendChannelQ c1 c2 num den ∧ blendChannelQ c1 c2 num den ≤ ((max c1 c2 : Nat) : Int) :=
  blendChannelQ_range c1 c2 num den hden h0 h1

/-- **Refinement, doubles → rationals**: when neither float operation has to round (both exact intermediate
values have at most 53 bits in units of `2^-cs`) the double computation of `blend_rgb` is the exact-rational
one.  This is the side condition the dyadic model of the earlier rounds only assumed. -/
theorem blend_rgb_float_exact_when_small (c1 c2 : Nat) (cn : Int) (cs : Nat)
    (hp : ((((c2 : Int) - (c1 : Int)) * cn).natAbs) < 2 ^ 53)
    (hs : (((c1 : Int) * ((2 ^ cs : Nat) : Int) + ((c2 : Int) - (c1 : Int)) * cn).natAbs) < 2 ^ 53) :
    blendChannelF c1 c2 cn cs = blendChannelQ c1 c2 cn (2 ^ cs) :=
  blendChannelF_eq_Q c1 c2 cn cs hp hs

/-- Round-to-nearest-even to 53 bits never crosses a number with at most 53 significant bits. -/
theorem rounding_sandwich (A B s n : Nat) (hA : A < 2 ^ 53) (hB : B < 2 ^ 53) (h : A * 2 ^ s ≤ n) (h' : n ≤ B * 2 ^ s) :
    A * 2 ^ s ≤ rnd53 n ∧ rnd53 n ≤ B * 2 ^ s :=
  ⟨rnd53_lower A s n hA h, rnd53_upper B s n hB h'⟩

/-- **`blend_rgb` as computed in IEEE doubles stays between its arguments for every finite double
`cross_fade = cn / 2^cs` in [0, 1]** (any `cs`: no bound on the size of the float) — hence in gamut. -/
theorem blend_rgb_float_in_range (c1 c2 : Nat) (cn : Int) (cs : Nat) (hc1 : c1 ≤ 255) (hc2 : c2 ≤ 255)
    (h0 : 0 ≤ cn) (h1 : cn ≤ ((2 ^ cs : Nat) : Int)) :
    ((min c1 c2 : Nat) : Int) ≤ blendChannelF c1 c2 cn cs ∧ blendChannelF c1 c2 cn cs ≤ ((max c1 c2 : Nat) : Int) :=
  blendChannelF_range c1 c2 cn cs hc1 hc2 h0 h1

/-- …and returns `color1` at `0.0`, `color2` at `1.0`. -/
theorem blend_rgb_float_endpoints (c1 c2 cs : Nat) (hc1 : c1 ≤ 255) (hc2 : c2 ≤ 255) :
    blendChannelF c1 c2 0 cs = c1 ∧ blendChannelF c1 c2 ((2 ^ cs : Nat) : Int) cs = c2 :=
  blendChannelF_endpoints c1 c2 cs hc1 hc2

/-- `blend_rgb` raises exactly for a non-finite `cross_fade` (`int(inf)`: `OverflowError`, `int(nan)`: `ValueError`). -/
theorem blend_rgb_float_raises_iff_nonfinite (t1 t2 : Triplet) (cf : PyFloat) :
    (∃ v, blendRgbF t1 t2 cf = .ok v) ↔ ∃ n s, cf = .finite n s := by
  cases cf with
  | finite n s => exact ⟨fun _ => ⟨n, s, rfl⟩, fun _ => ⟨_, rfl⟩⟩
  | posInf => by_cases hr : t1.red = t2.red <;> simp [blendRgbF, blendChannelPy, bind, Except.bind, hr]
  | negInf => by_cases hr : t1.red = t2.red <;> simp [blendRgbF, blendChannelPy, bind, Except.bind, hr]
  | nan => simp [blendRgbF, blendChannelPy, bind, Except.bind]

/-- Observation (float semantics, not a defect): `0.29` is not a double; `blend_rgb` of a channel 0 → 100 at
the double nearest to 0.29 gives 28, the exact blend at 29/100 is 29.  The harness checks on real rich that
for `k/100` and `k/255` this happens only where the exact value is an integer, and then by exactly one. -/
theorem blend_float_differs_from_rational_at_integers :
    blendChannelF 0 100 5224175567749775 54 = 28 ∧ blendChannelQ 0 100 29 100 = 29 := by decide +kernel

/-! ## Non-vacuity: the hypotheses are met by concrete, non-trivial values -/

/-- orange, `#ff8700` -/
def orange : Color := { name := "#ff8700".toList, type := .truecolor, triplet := some ⟨255, 135, 0⟩ }

example : orange.WF := ⟨rfl, _, rfl, by decide, by decide, by decide⟩
example : downgrade Cfg.today P orange .eightBit = .ok { orange with type := .eightBit, number := some 214, triplet := none } := by decide
example : downgrade Cfg.today P orange .standard = .ok { orange with type := .standard, number := some 9, triplet := none } := by decide
example : downgrade Cfg.today P orange .windows = .ok { orange with type := .windows, number := some 3, triplet := none } := by decide
example : sourceTriplet P orange = some ⟨255, 135, 0⟩ := rfl
example : sourceTriplet P { name := [], type := .eightBit, number := some 208 } = some ⟨255, 135, 0⟩ := by decide
example : paletteMatch P.standard ⟨0, 0, 85⟩ = .ok 0 ∧ colorDist2 ⟨0, 0, 85⟩ ⟨0, 0, 0⟩ = colorDist2 ⟨0, 0, 85⟩ ⟨0, 0, 170⟩ := by
  decide  -- an exact tie between entries 0 and 4: the lowest index wins
example : satLow satExcDouble ⟨55, 45, 50⟩ = true ∧ satLowExact 55 45 = false := by decide  -- a float exception
example : getAnsiCodes { name := [], type := .standard, number := some 9 } true = .ok [91] := by decide
example : getAnsiCodes { name := [], type := .windows, number := some 15 } false = .ok [107] := by decide
example : getTruecolor P orange true = .ok ⟨255, 135, 0⟩ := rfl
example : getTruecolorT P (TerminalTheme.init ⟨1, 2, 3⟩ ⟨4, 5, 6⟩ (List.replicate 8 ⟨7, 7, 7⟩) none)
    { name := [], type := .standard, number := some 12 } true = .ok ⟨7, 7, 7⟩ := by decide
example : parseRgbHex "ff8700".toList = .ok (255, 135, 0) := by decide
example : parseRgbHex "-f+a 1".toList = .ok (-15, 10, 1) := by decide  -- what int(…, 16) accepts
example : blendRgb ⟨0, 0, 0⟩ ⟨255, 255, 255⟩ 1 1 = (127, 127, 127) := by decide

example : (⟨55, 45, 50⟩ : Triplet).maxc = 55 ∧ ((⟨55, 45, 50⟩ : Triplet).maxc, (⟨55, 45, 50⟩ : Triplet).minc) ∈ satExcDouble := by decide
example : satLow satExcDouble ⟨200, 100, 0⟩ = satLowRat ⟨200, 100, 0⟩ := by decide
example : parseRgbHexU "٣f00 1".toList = .ok (63, 0, 1) := by decide +kernel  -- ARABIC-INDIC DIGIT THREE
example : parseRgbHexU "１٩ a-1".toList = .ok (25, 10, -1) := by decide +kernel  -- FULLWIDTH ONE, IDEOGRAPHIC SPACE
example : parseRgbHexU "fé0000".toList = .error .valueError := by decide +kernel
example : blendRgbF ⟨0, 10, 200⟩ ⟨100, 250, 3⟩ (.finite 5224175567749775 54) = .ok (28, 79, 142) := by decide +kernel  -- 0.29
example : blendRgbF ⟨0, 10, 200⟩ ⟨0, 250, 3⟩ .posInf = .error .valueError := by decide  -- 0 * inf = nan
example : blendRgbF ⟨0, 10, 200⟩ ⟨9, 10, 3⟩ .posInf = .error .overflowError := by decide
example : (0 : Int) ≤ 5224175567749775 ∧ (5224175567749775 : Int) ≤ ((2 ^ 54 : Nat) : Int) := by decide
example : ({ name := [], type := .windows, number := some 3 } : Color).isSystemDefined = true := by decide
example : (⟨1, 22, 255⟩ : Triplet).rgbStr = "rgb(1,22,255)".toList := by decide +kernel

/-! ## Witness: the defect found in rich 9.10.0 as found, before fix 2cec9e1 (variant `stdViaPalette = true`) -/

/-- The as-found `downgrade(STANDARD)` of the 16-colour WINDOWS colour 8 ("bright black") goes through
`EIGHT_BIT_PALETTE[8] = (128,128,128)` and the palette search and comes back as colour 7 ("white"):
`downgrade_fixed_if_representable` is false for the code as found. -/
theorem old_downgrade_standard_renumbers :
    downgrade Cfg.today P { name := [], type := .windows, number := some 8 } .standard
      = .ok { name := [], type := .standard, number := some 7 } := by decide

/-- …and the same input under the repaired variant keeps its index. -/
theorem repaired_downgrade_standard_keeps :
    downgrade Cfg.repaired P { name := [], type := .windows, number := some 8 } .standard
      = .ok { name := [], type := .standard, number := some 8 } := by decide

end RichModel.C18
